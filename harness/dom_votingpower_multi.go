package main

// C05 — the parts of the votingpower domain that put SEVERAL AVSs at one epoch end and that move
// the share price away from 1:
//
//   * a staking asset registered in x/assets that the oracle has no token for: an AVS that lists
//     it cannot be priced (GetMultipleAssetsPrices: ErrGetPriceAssetNotFound, not swallowed), its
//     UpdateVotingPower returns an error at every epoch end until the list is repaired. The epoch
//     hook walks the AVS store in address order; further AVSs are registered before and after the
//     chain's own AVS, with the same epoch identifier, so that healthy AVSs come AFTER a failing
//     one in the hook's loop and must still be recomputed (monitor C05.formula / C05.avs-sum are
//     evaluated for every healthy AVS at every one of its epoch ends; the Lean model's loop
//     `hookLoop` continues after an error: C05_every_nonfailing_avs_recomputed).
//   * operator slashes through OperatorKeeper.Slash (pool amounts drop, shares stay): the self
//     value is the formula on the TOKEN equivalent of the self share, and AVS minimum
//     self-delegations are placed around the operators' current self values so that a slash
//     moves an operator across the threshold (active flips to 0) — and a later self-delegation
//     moves it back.
//
// Two directed scenarios (cheap, every run) + helpers used by the random histories of
// dom_votingpower.go.

import (
	"fmt"
	"math/big"
	"strings"
	"time"

	sdkmath "cosmossdk.io/math"
	sdk "github.com/cosmos/cosmos-sdk/types"

	assetstypes "github.com/ExocoreNetwork/exocore/x/assets/types"
	avstypes "github.com/ExocoreNetwork/exocore/x/avs/types"
	epochstypes "github.com/ExocoreNetwork/exocore/x/epochs/types"
	operatortypes "github.com/ExocoreNetwork/exocore/x/operator/types"
	oracletypes "github.com/ExocoreNetwork/exocore/x/oracle/types"
)

type vpExtra struct {
	addr    string
	minSelf uint64
}

const vpUnpricedAddr = "0x1111111111111111111111111111111111111111"

// vpExtraAddr: addresses spread over the AVS store (leading byte), unique per history and slot.
func vpExtraAddr(rng *RNG, hi, k int) string {
	lead := []int{0x00, 0x00, 0x3f, 0x7f, 0xbf, 0xff}[rng.Intn(6)]
	return fmt.Sprintf("0x%02x%034x%04x", lead, 0, 0x1000+(hi%0x3000)*4+k)
}

// registerUnpriced registers a staking asset in x/assets only (no oracle token, no deposits).
func (r *vpRunner) registerUnpriced() string {
	c := r.c
	err := c.CachedDo(func(ctx sdk.Context) error {
		return c.App.AssetsKeeper.SetStakingAssetInfo(ctx, &assetstypes.StakingAssetInfo{
			AssetBasicInfo: assetstypes.AssetInfo{Name: "Unpriced", Symbol: "UNP", Address: vpUnpricedAddr, Decimals: 18,
				LayerZeroChainID: c.LzID, MetaInfo: "staking asset without an oracle token"},
			StakingTotalAmount: sdkmath.ZeroInt(),
		})
	})
	r.env.Outcome(fmt.Sprintf("register-unpriced-asset:%v", err == nil))
	r.op(fmt.Sprintf("vp.note register-unpriced-asset ok=%v", err == nil), "ok")
	if err != nil {
		return ""
	}
	return AssetIDOf(c.LzID, vpUnpricedAddr)
}

func (r *vpRunner) registerAVS(addr string, ids []string, minSelf uint64, eid string) error {
	c := r.c
	err := c.CachedDo(func(ctx sdk.Context) error {
		return c.App.AVSManagerKeeper.UpdateAVSInfo(ctx, &avstypes.AVSRegisterOrDeregisterParams{
			AvsName: "extra", AvsAddress: addr, SlashContractAddr: addr, RewardContractAddr: addr,
			AvsOwnerAddress: []string{c.Funded.Acc.String()}, AssetID: ids, UnbondingPeriod: 2, MinSelfDelegation: minSelf,
			EpochIdentifier: eid, MinOptInOperators: 1, MinTotalStakeAmount: 1, AvsReward: 10, AvsSlash: 10,
			CallerAddress: c.Funded.Acc.String(), Action: 1,
		})
	})
	r.op(fmt.Sprintf("vp.note register avs=%s n=%d min=%d epoch=%s ok=%v", addr, len(ids), minSelf, eid, err == nil), "ok")
	if err == nil {
		info, _ := c.App.AVSManagerKeeper.GetAVSInfo(c.Ctx, addr)
		r.op(fmt.Sprintf("vp.avs %s %s %d", strings.ToLower(addr), info.Info.EpochIdentifier, info.Info.StartingEpoch), "ok")
	}
	return err
}

func (r *vpRunner) optIn(addr string, oi int) error {
	c := r.c
	acc := c.Operators[oi].Acc
	err := c.CachedDo(func(ctx sdk.Context) error { return c.App.OperatorKeeper.OptIn(ctx, acc, addr) })
	if err == nil {
		r.op(fmt.Sprintf("vp.optin %s %s", addr, acc), "ok")
	} else {
		r.op(fmt.Sprintf("vp.note optin avs=%s op=%d refused", addr, oi), "ok")
	}
	return err
}

func (r *vpRunner) setPrice(ai int, p string, pd int32) bool {
	c := r.c
	tid := uint64(ai + 1)
	err := c.CachedDo(func(ctx sdk.Context) error {
		next := c.App.OracleKeeper.GetNextRoundID(ctx, tid)
		if !c.App.OracleKeeper.AppendPriceTR(ctx, tid, oracletypes.PriceTimeRound{Price: p, Decimal: pd, RoundID: next}) {
			return fmt.Errorf("round mismatch")
		}
		return nil
	})
	r.op(fmt.Sprintf("vp.note price asset=%d price=%s dec=%d ok=%v", ai, p, pd, err == nil), "ok")
	return err == nil
}

func (r *vpRunner) delegate(st Actor, ai, oi int, amt *big.Int) bool {
	err := distrDepositDelegate(r.c, st, ai, oi, amt)
	r.op(fmt.Sprintf("vp.note delegate staker=%s asset=%d op=%d amt=%s ok=%v", st.Eth.Hex(), ai, oi, amt, err == nil), "ok")
	return err == nil
}

// opUSD: the operator's total and self value (raw 18 decimals) over the priced assets of `ids`,
// by the property's formula on the pools as they are now (harness arithmetic, not the keeper's).
func (r *vpRunner) opUSD(oi int, ids []string) (total, self *big.Int) {
	c := r.c
	oparams := c.App.OracleKeeper.GetParams(c.Ctx)
	total, self = new(big.Int), new(big.Int)
	for _, a := range ids {
		cfg, known, priced := vpRawCfg(c, c.Ctx, oparams, a)
		if !known || !priced {
			continue
		}
		info, err := c.App.AssetsKeeper.GetOperatorSpecifiedAssetInfo(c.Ctx, c.Operators[oi].Acc, a)
		if err != nil || info == nil {
			continue
		}
		st := vpAssetState{Asset: a, Amount: info.TotalAmount.BigInt(), TShare: info.TotalShare.BigInt(), OSh: info.OperatorShare.BigInt()}
		total.Add(total, vpSpecUSD(st.Amount, cfg))
		self.Add(self, vpSpecUSD(vpSelfTokens(st), cfg))
	}
	return total, self
}

// pickMinSelf: the usual constants, or a threshold placed at / just around / a few percent below
// an operator's current self value, so that slashes and self-delegations cross it.
func (r *vpRunner) pickMinSelf(rng *RNG, ids []string) uint64 {
	if rng.Chance(3, 8) {
		_, self := r.opUSD(rng.Intn(len(r.c.Operators)), ids)
		s := new(big.Int).Quo(self, bigPrec)
		if s.Sign() > 0 && s.IsUint64() && s.Uint64() < 1<<62 {
			v := s.Uint64()
			switch rng.Intn(5) {
			case 0:
				return v // eligible with nothing to spare: any slash makes it ineligible
			case 1:
				return v + 1 // just not eligible
			case 2:
				if v > 1 {
					return v - 1
				}
				return v
			default:
				return v - v*uint64(1+rng.Intn(40))/100 // a slash of more than that many percent flips it
			}
		}
	}
	return []uint64{0, 1, 100, 2000, 1000000}[rng.Intn(5)]
}

// slashPower: mostly the operator's current total USD value (then the percentage is the real
// fraction taken from every pool), sometimes an arbitrary historical power.
func (r *vpRunner) slashPower(rng *RNG, oi int) int64 {
	total, _ := r.opUSD(oi, r.c.AssetIDs)
	t := new(big.Int).Quo(total, bigPrec)
	if t.Sign() > 0 && t.IsInt64() && rng.Chance(3, 4) {
		return t.Int64()
	}
	return int64(1 + rng.Intn(3000))
}

// slash: a slash of the chain's own AVS (every genesis operator is opted into it) of `power` USD ×
// pct %: every pool of the operator is cut by the same fraction, the shares stay. `back`: the
// infraction is dated one block back, so undelegations submitted since are cut as well.
func (r *vpRunner) slash(oi int, power, pct int64, back bool) bool {
	c := r.c
	r.nSlash++
	h := c.Ctx.BlockHeight()
	if back && h > 1 {
		h--
	}
	p := &operatortypes.SlashInputInfo{IsDogFood: true, Power: power, SlashType: 1, Operator: c.Operators[oi].Acc, AVSAddr: c.AVSAddr,
		SlashContract: "", SlashID: fmt.Sprintf("vp-%d", r.nSlash), SlashEventHeight: h,
		SlashProportion: sdkmath.LegacyNewDecWithPrec(pct, 2)}
	err := c.CachedDo(func(ctx sdk.Context) error { return c.App.OperatorKeeper.Slash(ctx, p) })
	r.env.Outcome(fmt.Sprintf("slash:%v", err == nil))
	r.op(fmt.Sprintf("vp.note slash op=%d power=%d pct=%d eventHeight=%d ok=%v", oi, power, pct, h, err == nil), "ok")
	if err != nil {
		r.nSlash--
	}
	return err == nil
}

func vpScenarioBoot(env *Env, off uint64, eid, tag string) *vpRunner {
	cfg := DefaultCfg(env.Report.Seed*1000 + off)
	cfg.EpochID = eid
	h := &distrHistCfg{cfg: cfg, distrID: epochstypes.WeekEpochID, mintID: epochstypes.WeekEpochID, reward: big.NewInt(0), tax: big.NewInt(0), shrink: map[string]time.Duration{}}
	r := &vpRunner{env: env, c: distrBoot(h)}
	r.start(tag)
	return r
}

// vpScenarioFailingAVS: three AVSs end the same (minute) epoch: `first` (smallest address), the
// chain's own AVS, `last` (largest address). `first` is healthy, then lists an asset the oracle
// cannot price (its update fails at every epoch end), then is repaired. While it is broken the
// pools and the price change: the AVSs after it in the store must be recomputed at every epoch end.
func vpScenarioFailingAVS(env *Env) {
	r := vpScenarioBoot(env, 951, epochstypes.MinuteEpochID, "scenario-failing-avs")
	c := r.c
	unp := r.registerUnpriced()
	usdt := c.AssetIDs[0]
	first := "0x00000000000000000000000000000000000000a1"
	last := "0xf0000000000000000000000000000000000000b2"
	step := 61 * time.Second
	ok := unp != "" &&
		r.registerAVS(first, []string{usdt}, 1, epochstypes.MinuteEpochID) == nil &&
		r.registerAVS(last, []string{usdt}, 1, epochstypes.MinuteEpochID) == nil &&
		r.optIn(first, 0) == nil && r.optIn(last, 0) == nil && r.optIn(last, 1) == nil
	if !ok {
		env.Outcome("scenario-failing-avs:setup-failed")
		return
	}
	ok = r.block(step) && r.block(step) // all three computed
	if ok {
		r.updateAssets(first, []string{usdt, unp}, 1, "with-unpriced")
		r.delegate(NewActor(c.Cfg.Seed, "staker", 0), 0, 1, big.NewInt(30_000_000))
		ok = r.block(step) && r.block(step) // `first` fails; own AVS and `last`: operator 1 now 130
	}
	if ok {
		r.setPrice(0, "2", 0)
		r.slash(0, 101, 10, false)
		r.delegate(c.Operators[1], 0, 1, big.NewInt(7_000_001))
		ok = r.block(step) && r.block(step) // still failing; the others re-priced
	}
	if ok {
		r.updateAssets(first, []string{usdt}, 1, "repaired")
		ok = r.block(step) && r.block(step) // `first` recomputed from its stale values
	}
	env.Report.Histories++
	v, gerr := c.App.OperatorKeeper.GetOperatorOptedUSDValue(c.Ctx, first, c.Operators[0].Acc.String())
	env.Outcome(fmt.Sprintf("scenario-failing-avs:ok=%v,failing-epoch-ends>0=%v,avs-after-failing>0=%v,repaired-value-positive=%v",
		ok, r.failEnds > 0, r.afterFail > 0, gerr == nil && v.TotalUSDValue.IsPositive()))
}

// vpScenarioSlashedSelf: an AVS with minimum self-delegation 100 USD (and the chain's own AVS,
// minimum 100): operator 1 has self 100 of total 150, operator 0 self = total = 101. Slashes move
// the self values (token equivalent of unchanged shares) below the minimum, a self-delegation at
// share price 0.9 moves operator 1 back above it.
func vpScenarioSlashedSelf(env *Env) {
	r := vpScenarioBoot(env, 952, epochstypes.MinuteEpochID, "scenario-slashed-self")
	c := r.c
	usdt := c.AssetIDs[0]
	avs := "0x0000000000000000000000000000000000002001"
	step := 61 * time.Second
	ok := r.registerAVS(avs, []string{usdt}, 100, epochstypes.MinuteEpochID) == nil &&
		r.optIn(avs, 0) == nil && r.optIn(avs, 1) == nil &&
		r.delegate(NewActor(c.Cfg.Seed, "staker", 0), 0, 1, big.NewInt(50_000_000))
	if !ok {
		env.Outcome("scenario-slashed-self:setup-failed")
		return
	}
	ok = r.block(step) && r.block(step) // operator 1: self 100, total 150, active 150
	if ok {
		r.slash(1, 150, 10, false) // pool 135, shares still 150: self tokens 90 < 100
		ok = r.block(step) && r.block(step)
	}
	if ok {
		r.delegate(c.Operators[1], 0, 1, big.NewInt(20_000_000)) // self ≈ 110 again
		ok = r.block(step) && r.block(step)
	}
	if ok {
		r.slash(0, 101, 1, true) // operator 0: 99.99 < 100
		ok = r.block(step) && r.block(step)
	}
	env.Report.Histories++
	env.Outcome(fmt.Sprintf("scenario-slashed-self:ok=%v,slashes=%d,min-self-between-token-and-share>0=%v", ok, r.nSlash, r.flips > 0))
}
