package main

// C09, value level (Props/C09Values.lean). The four precompile entry points that write before their last
// checks — delegation.delegate, avs.registerOperatorToAVS, avs.deregisterOperatorFromAVS, avs.createTask — are
// atomic because those late checks cannot fail once the early ones have passed. The Lean proof rests on
//   (P1) no operator pool holds shares without tokens, no negative figure        (C02Full / NN, proved for all histories)
//   (P2) sdk.AccAddressFromBech32(addr.String()) succeeds for every address      (codec round trip)
//   (P3) IsAVS(x) <=> GetAVSInfo(x) succeeds, for every spelling x of an address (same store key)
//   (P4) common.IsHexAddress(addr.String())                                      (rendering of a 20-byte address)
// This domain drives the REAL entry points into the states where the late checks are closest to failing
// (pool slashed to zero, pool slashed to a few base units, re-opt-in after opt-out, task creation right after the
// voting power appears / disappears) and evaluates on the real state, after every call:
//   C09.fail-leaves-no-trace              byte snapshot of all module stores before/after every failing call (dom_atomic.go)
//   C09.values.late-checks-cannot-fail    no reported failure is refused by one of the late checks
//   C09.values.premise                    P1..P4 on the real state / real codecs
// delegation.undelegate is the fifth such entry point (Props/C09Undelegate.lean): RemoveShare writes four rows before
// SetUndelegationRecords and the hold-count hook can refuse. Its premises — (P5) every delegation row with a non-zero share
// has its staker on the operator's list, (P6) GetUnbondingExpirationBlockNumber(h) >= h, (P7) no hold count at MaxUint64 — are
// evaluated after every delegation-precompile call (undelegatePremises); its late steps are driven by further messages of the
// SAME Ethereum transaction with the SAME LayerZero nonce (undelegateAgain: the record key the previous message has just
// written), and a `false` of undelegate must come from one of the fifteen identified guards (anything else is a violation).
// History 0 is the directed scenario; the others are seeded streams over the same entry points with
// boundary-biased amounts (1, the whole withdrawable balance, one more) and slash proportions (… 0.999999, 1).

import (
	"fmt"
	"math/big"
	"strings"
	"time"

	sdkmath "cosmossdk.io/math"
	sdk "github.com/cosmos/cosmos-sdk/types"
	"github.com/ethereum/go-ethereum/accounts/abi"
	"github.com/ethereum/go-ethereum/common"

	assetstypes "github.com/ExocoreNetwork/exocore/x/assets/types"
	avstypes "github.com/ExocoreNetwork/exocore/x/avs/types"
	delegationtypes "github.com/ExocoreNetwork/exocore/x/delegation/types"
	operatortypes "github.com/ExocoreNetwork/exocore/x/operator/types"
)

func init() { register("atomic_values", domAtomicValues) }

type avH struct {
	*atomH
	slashSeq int
	halted   bool
}

// lateStep names the late check (a check standing after the entry point's first write) that produced errText.
func avLateStep(entry, errText string) string {
	if errText == "" {
		return ""
	}
	type row struct{ entry, sub, step string }
	for _, r := range []row{
		{"delegation.delegate", delegationtypes.ErrDivisorIsZero.Error(), "CalculateShare"},
		{"delegation.delegate", "UpdateOperatorAssetState", "UpdateOperatorAssetState"},
		{"delegation.delegate", "UpdateDelegationState", "UpdateDelegationState"},
		{"delegation.delegate", delegationtypes.ErrOperatorAddrIsNotAccAddr.Error(), "UpdateDelegationState"},
		{"avs.registerOperatorToAVS", "GetAVSSlashContract", "GetAVSSlashContract"},
		{"avs.registerOperatorToAVS", assetstypes.ErrInvalidOperatorAddr.Error(), "SetOptedInfo"},
		{"avs.deregisterOperatorFromAVS", "HandleOptedInfo", "HandleOptedInfo"},
		{"avs.createTask", avstypes.ErrInvalidAddr.Error(), "IsHexAddress(task)"},
		{"avs.createTask", "abi:", "EmitCreateAVSTaskEvent"},
	} {
		if entry == r.entry && strings.Contains(errText, r.sub) {
			return r.step
		}
	}
	return ""
}

// avUndelegateLate: the seven checks of delegation.undelegate that stand after RemoveShare's first write
// (Props/C09Undelegate.lean: undelegateAssumed), as dom_atomic.go's failStep names them.
var avUndelegateLate = map[string]bool{
	"UpdateAssetValue(TotalDepositAmount)": true, "UpdateAssetValue(WithdrawableAmount)": true, "UpdateAssetValue(PendingUndelegationAmount)": true,
	"UpdateDelegationState": true, "DeleteStakerForOperator": true, "SetUndelegationRecords": true, "IncrementUndelegationHoldCount": true,
}

func (v *avH) violate(mon, sig, what string) {
	if v.seen[sig] {
		v.env.Note("repeat:" + sig)
		return
	}
	v.seen[sig] = true
	hh := v.hist
	if len(hh) > 60 {
		hh = hh[len(hh)-60:]
	}
	v.env.Violate(mon, sig, what, hh)
}

// premises evaluates P1 on the real state.
func (v *avH) premises() {
	c := v.c
	v.env.Eval("C09.values.premise")
	all, err := c.App.AssetsKeeper.AllOperatorAssets(c.Ctx)
	if err != nil {
		v.env.Note("premise-read-error")
		return
	}
	for _, op := range all {
		for _, a := range op.AssetsState {
			i := a.Info
			switch {
			case i.TotalAmount.IsNegative() || i.TotalShare.IsNegative() || i.OperatorShare.IsNegative() || i.PendingUndelegationAmount.IsNegative():
				v.violate("C09.values.premise", "premise:negative-pool-figure",
					fmt.Sprintf("pool %s/%s amount=%s share=%s opShare=%s pending=%s", op.Operator, a.AssetID, i.TotalAmount, i.TotalShare, i.OperatorShare, i.PendingUndelegationAmount))
			case i.TotalAmount.IsZero() && !i.TotalShare.IsZero():
				v.violate("C09.values.premise", "premise:pool-shares-without-tokens",
					fmt.Sprintf("pool %s/%s has TotalAmount 0 and TotalShare %s: the next delegation to it fails at CalculateShare after the staker's withdrawable amount was reduced", op.Operator, a.AssetID, i.TotalShare))
			case i.TotalAmount.IsZero():
				v.env.DistinctKey("premise|empty-pool-no-shares")
			case i.TotalAmount.LT(sdkmath.NewInt(1000)):
				v.env.DistinctKey("premise|tiny-pool")
			}
		}
	}
}

// undelegatePremises evaluates what Undelegate.Good (Proofs/AtomicUndelegate.lean) asks of the real state:
//   (P5) every delegation row with a non-zero share has its staker on the operator's staker list (the key exists:
//        DeleteStakerForOperator cannot miss), and (P6) the completion height x/operator gives a record started now is
//        not below the current height (SetUndelegationRecords' only test), (P7) no hold count is at MaxUint64.
func (v *avH) undelegatePremises() {
	c := v.c
	v.env.Eval("C09.values.premise")
	rows, err := c.App.DelegationKeeper.AllDelegationStates(c.Ctx)
	if err != nil {
		v.env.Note("premise-read-error")
		return
	}
	for _, row := range rows {
		k, err := delegationtypes.ParseStakerAssetIDAndOperator([]byte(row.Key))
		if err != nil {
			v.env.Note("premise-key-parse-error")
			continue
		}
		if row.States.UndelegatableShare.IsNegative() || row.States.WaitUndelegationAmount.IsNegative() {
			v.violate("C09.values.premise", "premise:negative-delegation-figure", fmt.Sprintf("delegation row %s share=%s wait=%s", row.Key, row.States.UndelegatableShare, row.States.WaitUndelegationAmount))
		}
		if row.States.UndelegatableShare.IsZero() {
			continue
		}
		if !c.App.DelegationKeeper.HasStakerList(c.Ctx, k.OperatorAddr, k.AssetID) {
			v.violate("C09.values.premise", "premise:delegator-without-staker-list",
				fmt.Sprintf("delegation row %s holds share %s but operator %s has no staker list for %s: the undelegation of the whole share fails at DeleteStakerForOperator after RemoveShare wrote three rows", row.Key, row.States.UndelegatableShare, k.OperatorAddr, k.AssetID))
			continue
		}
		l, _ := c.App.DelegationKeeper.GetStakersByOperator(c.Ctx, k.OperatorAddr, k.AssetID)
		found := false
		for _, s := range l.Stakers {
			found = found || s == k.StakerID
		}
		if !found {
			v.violate("C09.values.premise", "premise:delegator-not-listed", fmt.Sprintf("delegation row %s holds share %s but the staker is not on the operator's list %v", row.Key, row.States.UndelegatableShare, l.Stakers))
		}
		v.env.DistinctKey("premise|listed-delegator")
	}
	hNow := uint64(c.Ctx.BlockHeight())
	for _, op := range c.Operators {
		if cb := c.App.OperatorKeeper.GetUnbondingExpirationBlockNumber(c.Ctx, op.Acc, hNow); cb < hNow {
			v.violate("C09.values.premise", "premise:completion-height-in-the-past", fmt.Sprintf("GetUnbondingExpirationBlockNumber(%s, %d) = %d", op.Acc, hNow, cb))
		}
	}
	recs, err := c.App.DelegationKeeper.AllUndelegations(c.Ctx)
	if err == nil {
		for _, r := range recs {
			key := delegationtypes.GetUndelegationRecordKey(r.BlockNumber, r.LzTxNonce, r.TxHash, r.OperatorAddr)
			if n := c.App.DelegationKeeper.GetUndelegationHoldCount(c.Ctx, key); n == ^uint64(0) {
				v.violate("C09.values.premise", "premise:hold-count-at-maximum", fmt.Sprintf("record %s", key))
			} else if n > 1 {
				v.env.DistinctKey("premise|hold-count>1")
			}
		}
	}
}

// codecPremises evaluates P2..P4 on the addresses of this history.
func (v *avH) codecPremises() {
	c := v.c
	v.env.Eval("C09.values.premise")
	var accs []sdk.AccAddress
	var eths []common.Address
	for _, o := range c.Operators {
		accs, eths = append(accs, o.Acc), append(eths, o.Eth)
	}
	for _, a := range append(append([]Actor{}, v.stakers...), v.others...) {
		accs, eths = append(accs, a.Acc), append(eths, a.Eth)
	}
	for _, e := range eths { // what the AVS precompile builds from its address argument
		accs = append(accs, sdk.AccAddress(e[:]))
	}
	for _, a := range accs {
		back, err := sdk.AccAddressFromBech32(a.String())
		if err != nil || !back.Equals(a) {
			v.violate("C09.values.premise", "premise:bech32-roundtrip", fmt.Sprintf("AccAddressFromBech32(%q.String()) = %v, %v", a, back, err))
		}
	}
	for _, e := range eths {
		if !common.IsHexAddress(e.String()) {
			v.violate("C09.values.premise", "premise:hex-rendering", fmt.Sprintf("IsHexAddress(%q) = false", e.String()))
		}
	}
	avs := v.others[0].Eth
	for _, s := range []string{avs.String(), strings.ToLower(avs.String()), avs.String()[2:], strings.ToUpper(avs.String()[2:]), "0X" + avs.String()[2:],
		c.AVSAddr, strings.ToUpper(c.AVSAddr), "0x00000000000000000000000000000000000000aa", "zz", "", "0x" + strings.Repeat("f", 64), v.others[1].Eth.String()} {
		isAvs, _ := c.App.AVSManagerKeeper.IsAVS(c.Ctx, s)
		_, e1 := c.App.AVSManagerKeeper.GetAVSInfo(c.Ctx, s)
		_, e2 := c.App.AVSManagerKeeper.GetAVSSlashContract(c.Ctx, s)
		_, e3 := c.App.AVSManagerKeeper.GetAVSMinimumSelfDelegation(c.Ctx, s)
		if isAvs != (e1 == nil) || isAvs != (e2 == nil) || isAvs != (e3 == nil) {
			v.violate("C09.values.premise", "premise:avs-key-mismatch",
				fmt.Sprintf("IsAVS(%q)=%v but GetAVSInfo err=%v GetAVSSlashContract err=%v GetAVSMinimumSelfDelegation err=%v", s, isAvs, e1, e2, e3))
		}
		v.env.DistinctKey(fmt.Sprintf("premise|avs-spelling|%v", isAvs))
	}
}

// call = one precompile call + the value-level monitors.
func (v *avH) call(entry string, from, to common.Address, a abi.ABI, method string, args ...interface{}) string {
	cls := v.evm(entry, from, to, a, method, args...)
	if cls != "ok" {
		v.env.Eval("C09.values.late-checks-cannot-fail")
		et := v.lastErr
		st := avLateStep(entry, et)
		if entry == "delegation.undelegate" && cls == "false" {
			// positively identified steps only: the guards are known by text (atomClass), the rest by the refusing callee
			if s2 := v.failStep(entry, cls, et); avUndelegateLate[s2] {
				st = s2
			} else if s2 == "" {
				st = "unidentified-refusal" // not one of the known guards: fail closed
			}
		}
		if st != "" {
			v.violate("C09.values.late-checks-cannot-fail", "late-check-failed:"+entry+":"+st,
				fmt.Sprintf("%s was refused (%s) by %s, a check that stands after the entry point's first write: %s", entry, cls, st, et))
		}
	}
	v.premises()
	if strings.HasPrefix(entry, "delegation.") {
		v.undelegatePremises()
	}
	return cls
}

func (v *avH) gw() common.Address { return v.c.Funded.Eth }

func (v *avH) deposit(s Actor, amt *big.Int) string {
	return v.call("assets.depositLST", v.gw(), xbAssetsAddr, v.abis.assets, "depositLST", uint32(v.c.LzID), v.assetBytes(0), pad32(s.Eth.Bytes()), amt)
}

func (v *avH) delegate(s Actor, op sdk.AccAddress, amt *big.Int) string {
	v.lzNonce++
	return v.call("delegation.delegate", v.gw(), xbDelegAddr, v.abis.deleg, "delegate", uint32(v.c.LzID), v.lzNonce, v.assetBytes(0), pad32(s.Eth.Bytes()), []byte(op.String()), amt)
}

func (v *avH) undelegate(s Actor, op sdk.AccAddress, amt *big.Int) string {
	v.lzNonce++
	return v.call("delegation.undelegate", v.gw(), xbDelegAddr, v.abis.deleg, "undelegate", uint32(v.c.LzID), v.lzNonce, v.assetBytes(0), pad32(s.Eth.Bytes()), []byte(op.String()), amt)
}

// undelegateAgain: a further message of the Ethereum transaction of the previous call, with the SAME LayerZero nonce
// (same or another staker): the record key (block, nonce, tx hash, operator) is the previous message's when op is.
func (v *avH) undelegateAgain(s Actor, op sdk.AccAddress, amt *big.Int) string {
	v.sameTx = true
	return v.call("delegation.undelegate", v.gw(), xbDelegAddr, v.abis.deleg, "undelegate", uint32(v.c.LzID), v.lzNonce, v.assetBytes(0), pad32(s.Eth.Bytes()), []byte(op.String()), amt)
}

func (v *avH) delegated(s Actor, op sdk.AccAddress) *big.Int {
	stakerID, assetID := assetstypes.GetStakerIDAndAssetID(v.c.LzID, s.Eth.Bytes(), hexToBytes(v.c.Cfg.Assets[0].Addr))
	m, err := v.c.App.DelegationKeeper.AllDelegatedInfoForStakerAsset(v.c.Ctx, stakerID, assetID)
	if err != nil {
		return big.NewInt(0)
	}
	if a, ok := m[op.String()]; ok {
		return a.BigInt()
	}
	return big.NewInt(0)
}

func (v *avH) optIn(avs, op common.Address) string {
	return v.call("avs.registerOperatorToAVS", avs, xbAvsAddr, v.abis.avs, "registerOperatorToAVS", op)
}

func (v *avH) optOut(avs, op common.Address) string {
	return v.call("avs.deregisterOperatorFromAVS", avs, xbAvsAddr, v.abis.avs, "deregisterOperatorFromAVS", op)
}

func (v *avH) createTask(from, sender common.Address) string {
	return v.call("avs.createTask", from, xbAvsAddr, v.abis.avs, "createTask", sender, "task", []byte("task-hash"), uint64(2), uint64(2), uint64(60), uint64(1))
}

func (v *avH) votingPower(avs string) {
	v.keeper("operator.UpdateVotingPower", "keeper UpdateVotingPower avs="+avs, func(ctx sdk.Context) error { return v.c.App.OperatorKeeper.UpdateVotingPower(ctx, avs) })
	v.premises()
}

// slash = operator.Slash as the dogfood slashing hook calls it (error only logged).
func (v *avH) slash(op sdk.AccAddress, power int64, prop sdkmath.LegacyDec) string {
	c := v.c
	v.slashSeq++
	p := &operatortypes.SlashInputInfo{IsDogFood: true, Power: power, SlashType: 1, Operator: op, AVSAddr: c.AVSAddr,
		SlashID: fmt.Sprintf("av-%d", v.slashSeq), SlashEventHeight: c.Ctx.BlockHeight(), SlashProportion: prop}
	r := v.keeper("operator.Slash", fmt.Sprintf("keeper Slash op=%s id=%s prop=%s pow=%d", op, p.SlashID, prop, power),
		func(ctx sdk.Context) error { return c.App.OperatorKeeper.Slash(ctx, p) })
	v.premises()
	return r
}

func (v *avH) withdrawable(s Actor) *big.Int {
	stakerID, assetID := assetstypes.GetStakerIDAndAssetID(v.c.LzID, s.Eth.Bytes(), hexToBytes(v.c.Cfg.Assets[0].Addr))
	info, err := v.c.App.AssetsKeeper.GetStakerSpecifiedAssetInfo(v.c.Ctx, stakerID, assetID)
	if err != nil {
		return big.NewInt(0)
	}
	return info.WithdrawableAmount.BigInt()
}

func (v *avH) poolAmount(op sdk.AccAddress) sdkmath.Int {
	_, assetID := assetstypes.GetStakerIDAndAssetID(v.c.LzID, nil, hexToBytes(v.c.Cfg.Assets[0].Addr))
	info, err := v.c.App.AssetsKeeper.GetOperatorSpecifiedAssetInfo(v.c.Ctx, op, assetID)
	if err != nil {
		return sdkmath.NewInt(-1)
	}
	return info.TotalAmount
}

func (v *avH) expect(what, got, want string) {
	if got != want {
		v.env.Note("directed-unexpected:" + what + ":" + got)
	} else {
		v.env.DistinctKey("directed|" + what + "|" + got)
	}
}

// ---- history 0: the states in which the late checks are closest to failing
func (v *avH) directed() {
	c := v.c
	s0, s1 := v.stakers[0], v.stakers[1]
	op0, op1 := c.Operators[0].Acc, c.Operators[1].Acc
	avs := v.others[0].Eth // the AVS registered by boot(): its own task address, only owner
	one := sdkmath.LegacyOneDec()

	v.codecPremises()
	// D1: pool slashed to zero. deposit, delegate, slash the operator by 100 % (power far above its value: the
	// re-based proportion is capped at 1), delegate again: CalculateShare must take the "first delegation" branch.
	v.deposit(s0, big.NewInt(50_000_000))
	v.expect("delegate-before-slash", v.delegate(s0, op0, big.NewInt(10_000_000)), "ok")
	v.expect("slash-100pct", v.slash(op0, 1_000_000, one), "ok")
	if !v.poolAmount(op0).IsZero() {
		v.env.Note("directed-pool-not-zero-after-full-slash")
	}
	v.expect("delegate-into-emptied-pool", v.delegate(s0, op0, big.NewInt(5_000_000)), "ok")
	v.expect("delegate-above-withdrawable", v.delegate(s0, op0, new(big.Int).Add(v.withdrawable(s0), big.NewInt(1))), "false")
	v.expect("delegate-whole-withdrawable", v.delegate(s0, op0, v.withdrawable(s0)), "ok")
	v.expect("delegate-nothing-left", v.delegate(s0, op0, big.NewInt(1)), "false")
	// D2: pool slashed to a few base units while all shares stay: the price of a share is ~10^-6 of what it was.
	v.deposit(s1, big.NewInt(20_000_000))
	v.expect("delegate-op1", v.delegate(s1, op1, big.NewInt(7_000_000)), "ok")
	v.expect("slash-0.999999", v.slash(op1, 107, sdkmath.LegacyNewDecWithPrec(999999, 6)), "ok")
	v.env.Note("directed-tiny-pool-amount:" + v.poolAmount(op1).String())
	v.expect("delegate-1-into-tiny-pool", v.delegate(s1, op1, big.NewInt(1)), "ok")
	v.expect("delegate-into-tiny-pool", v.delegate(s1, op1, big.NewInt(3_000_000)), "ok")
	v.undelegate(s1, op1, big.NewInt(1))
	// D2b: undelegations whose late steps are closest to failing: the same message again in the same Ethereum
	// transaction (SetUndelegationRecords meets the key it has just written; the hold count of the key goes to 2 for a
	// validator), the same key from another staker, the whole remaining delegation (shareIsZero: DeleteStakerForOperator),
	// then once more (nothing left: refused by ValidateUndelegationAmount before any write)
	v.expect("undelegate-same-message-again", v.undelegateAgain(s1, op1, big.NewInt(1)), "ok")
	v.expect("undelegate-same-key-other-staker", v.undelegateAgain(s0, op1, big.NewInt(1)), "false")
	v.expect("undelegate-whole-rest-same-key", v.undelegateAgain(s1, op1, v.delegated(s1, op1)), "ok")
	v.expect("undelegate-nothing-left", v.undelegateAgain(s1, op1, big.NewInt(1)), "false")
	v.expect("slash-rest-to-zero", v.slash(op1, 1_000_000, one), "ok")
	v.expect("delegate-after-second-wipe", v.delegate(s1, op1, big.NewInt(2)), "ok")
	// D3: opt-in / opt-out through the AVS precompile (no cache context there)
	v.prepareOpX()
	x := v.opX()
	v.expect("optin", v.optIn(avs, x.Eth), "ok")
	v.expect("optin-again", v.optIn(avs, x.Eth), "false")
	v.expect("optin-not-operator", v.optIn(avs, s0.Eth), "false")
	v.expect("optin-not-avs", v.optIn(v.others[1].Eth, x.Eth), "false")
	// D4: createTask: no voting power yet, then power, then two tasks, a non-owner
	v.expect("task-no-power", v.createTask(avs, avs), "false")
	v.votingPower(avs.String())
	v.expect("task-1", v.createTask(avs, avs), "ok")
	v.expect("task-2", v.createTask(avs, avs), "ok")
	v.expect("task-non-owner", v.createTask(avs, s0.Eth), "false")
	v.expect("task-not-avs", v.createTask(v.others[1].Eth, v.others[1].Eth), "false")
	// back out: opt-out, again, re-opt-in (the record exists with an opt-out height; the USD-value key was deleted)
	v.expect("optout", v.optOut(avs, x.Eth), "ok")
	v.expect("optout-again", v.optOut(avs, x.Eth), "false")
	v.expect("optout-never-in", v.optOut(avs, c.Operators[0].Eth), "false")
	v.expect("re-optin", v.optIn(avs, x.Eth), "ok")
	v.expect("optout-2", v.optOut(avs, x.Eth), "ok")
	v.votingPower(avs.String())
	v.expect("task-power-gone", v.createTask(avs, avs), "false")
	v.codecPremises()
}

// ---- seeded stream
func (v *avH) amountFor(s Actor) *big.Int {
	w := v.withdrawable(s)
	switch v.rng.Pick(3, 2, 2, 2, 2, 1) {
	case 0:
		return big.NewInt(int64(1 + v.rng.Intn(5_000_000)))
	case 1:
		return big.NewInt(1)
	case 2:
		return new(big.Int).Set(w) // the whole balance (0 is refused by the argument parser)
	case 3:
		return new(big.Int).Add(w, big.NewInt(1))
	case 4:
		return new(big.Int).Add(big.NewInt(1_000_000), big.NewInt(int64(v.rng.Intn(3)-1)))
	default:
		return new(big.Int).Rsh(w, 1)
	}
}

func (v *avH) step() {
	r, c := v.rng, v.c
	s := v.stakers[r.Intn(len(v.stakers))]
	ops := []sdk.AccAddress{c.Operators[0].Acc, c.Operators[1].Acc, v.opX().Acc}
	op := ops[r.Intn(len(ops))]
	avs := v.others[0].Eth
	switch r.Pick(4, 10, 4, 5, 4, 3, 3, 3, 1) {
	case 0:
		v.deposit(s, big.NewInt(int64(1+r.Intn(30))*1_000_000))
	case 1:
		v.delegate(s, op, v.amountFor(s))
	case 2:
		v.undelegate(s, op, big.NewInt(int64(1+r.Intn(3_000_000))))
		// further messages of the same Ethereum transaction with the same nonce: same message again / another staker /
		// the whole remaining delegation / one base unit
		for r.Chance(2, 5) {
			s2 := s
			if r.Chance(1, 3) {
				s2 = v.stakers[r.Intn(len(v.stakers))]
			}
			var amt *big.Int
			switch r.Pick(3, 2, 2) {
			case 0:
				amt = big.NewInt(int64(1 + r.Intn(3_000_000)))
			case 1:
				amt = v.delegated(s2, op)
				if amt.Sign() == 0 {
					amt = big.NewInt(1)
				}
			default:
				amt = big.NewInt(1)
			}
			v.undelegateAgain(s2, op, amt)
		}
	case 3:
		props := []sdkmath.LegacyDec{sdkmath.LegacyNewDecWithPrec(1, 1), sdkmath.LegacyNewDecWithPrec(5, 1), sdkmath.LegacyNewDecWithPrec(999999, 6),
			sdkmath.LegacyNewDecWithPrec(999999999999999999, 18), sdkmath.LegacyOneDec()}
		pows := []int64{1, 50, 107, 1_000_000}
		v.slash(op, pows[r.Intn(len(pows))], props[r.Intn(len(props))])
	case 4:
		who := []common.Address{v.opX().Eth, v.opX().Eth, c.Operators[0].Eth, s.Eth}[r.Intn(4)]
		from := avs
		if r.Chance(1, 6) {
			from = v.others[1].Eth
		}
		v.optIn(from, who)
	case 5:
		who := []common.Address{v.opX().Eth, v.opX().Eth, c.Operators[0].Eth}[r.Intn(3)]
		v.optOut(avs, who)
	case 6:
		v.votingPower(avs.String())
	case 7:
		sender := avs
		if r.Chance(1, 4) {
			sender = s.Eth
		}
		v.createTask(avs, sender)
	case 8:
		if res := c.EndAndBegin(time.Duration(1+r.Intn(3)) * time.Second); res.Halt != "" {
			v.env.Note("halt")
			v.halted = true
			return
		}
		v.ctxFix()
		v.hist = append(v.hist, "block")
		v.premises()
	}
}

func domAtomicValues(env *Env) error {
	n := env.Int("histories", 3)
	steps := env.Int("steps", 120)
	env.Report.Domain = "atomic_values"
	h := &atomH{env: env, rng: NewRNG(env.Report.Seed*104729 + 5), seen: map[string]bool{}}
	v := &avH{atomH: h}
	h.boot(env.Report.Seed*1000 + 777)
	v.directed()
	env.Report.Histories++
	env.Sample(strings.Join(h.hist[:min(len(h.hist), 10)], " ; "))
	for hi := 0; hi < n; hi++ {
		h.boot(env.Report.Seed*1000 + 500 + uint64(hi))
		v.halted = false
		for i, s := range v.stakers {
			v.deposit(s, big.NewInt(int64(40+i)*1_000_000))
		}
		v.prepareOpX()
		v.codecPremises()
		for i := 0; i < steps && !v.halted; i++ {
			v.step()
		}
		env.Report.Histories++
	}
	return nil
}
