package main

// C10 — "AVS … update, deregistration, task creation … require a listed owner", decided on the owner lists an AVS
// can REACH: the stored list (x/avs AVSInfo.AvsOwnerAddress) is rewritten by every accepted updateAVS
// (precompiles/avs/types.go: GetAVSParamsFromUpdateInputs always yields a non-nil slice, x/avs/keeper/keeper.go:
// UpdateAVSInfo replaces the list when `params.AvsOwnerAddress != nil`), so an owner can extend it, remove himself or
// another owner, hand it to somebody else or EMPTY it. The group drives histories of register / update (new owner list
// drawn from: empty, the sender alone, the sender removed, another account, two owners, a stranger …) / deregister /
// createTask through the real precompile on several AVS contracts, one of them with positive voting power (so that the
// owner check is the refusing one for createTask), and before every mutating step calls EVERY owner-gated entry point
// with EVERY identity of the pool as sender argument (listed, removed, never listed, the AVS's own account, an
// operator), plus a foreign contract naming a listed owner.
//   monitor  C10.acts-only-for-caller   non-owner-admitted:<entry point>   (sender not on the STORED list, read before the call)
//            C10.reject-changes-nothing reject-dirty:<entry point>:<identity>
//            C10.owner-list            owner-list-not-as-written:<entry point> (accepted update/register: stored list = payload list;
//                                       rejected / other entry points: list unchanged)
//   model    `auth manageAVS …` decision lines (Model/Auth.lean) and the stateful `auth.own …` lines replayed by
//            Model/AuthOwners.lean (owner lists per AVS as a function of the accepted writes).

import (
	"fmt"
	"strings"
	"time"

	sdk "github.com/cosmos/cosmos-sdk/types"
	"github.com/ethereum/go-ethereum/common"
)

type ownAVS struct {
	idx      int
	act      Actor
	name     string
	epoch    string
	hasPower bool
}

func (h *authH) ownerListGroup() {
	c := h.c
	seed := c.Cfg.Seed
	steps := h.env.Int("ownersteps", 10)
	// a failing history of this group = boot line, every ACCEPTED step of the group (the writes that made the owner lists
	// what they are), the last refused probes and the failing call
	base := len(h.hist)
	h.focus = func(all []string) []string {
		out := []string{all[0], fmt.Sprintf("… %d steps of the earlier groups (other contracts) …", base-1)}
		own := all[base:]
		for i, l := range own {
			if strings.Contains(l, "=> accept") || i >= len(own)-8 {
				out = append(out, l)
			}
		}
		if len(out) > 60 {
			out = append(append([]string{}, out[:20]...), out[len(out)-40:]...)
		}
		return out
	}
	defer func() { h.focus = nil }()
	pool := []Actor{NewActor(seed, "ownA", 0), NewActor(seed, "ownB", 0), NewActor(seed, "ownStranger", 0), c.Operators[0]}
	poolName := []string{"ownerA", "ownerB", "stranger", "operator"}
	foreign := NewActor(seed, "ownForeignContract", 0)
	idxOf := func(bech string) string {
		for i, p := range pool {
			if p.Acc.String() == bech {
				return fmt.Sprint(i)
			}
		}
		return "?"
	}
	stored := func(a *ownAVS) ([]string, bool) {
		info, err := c.App.AVSManagerKeeper.GetAVSInfo(c.Ctx, a.act.Eth.String())
		if err != nil || info == nil || info.Info == nil {
			return nil, false
		}
		return info.Info.AvsOwnerAddress, true
	}
	storedStr := func(a *ownAVS) string {
		l, ok := stored(a)
		if !ok {
			return "-"
		}
		xs := []string{}
		for _, o := range l {
			xs = append(xs, idxOf(o))
		}
		return "[" + strings.Join(xs, ",") + "]"
	}
	listed := func(a *ownAVS, who sdk.AccAddress) bool {
		l, _ := stored(a)
		for _, o := range l {
			if o == who.String() {
				return true
			}
		}
		return false
	}
	everListed := map[string]bool{}
	role := func(a *ownAVS, i int, acc sdk.AccAddress) string {
		r := poolName[i]
		switch {
		case listed(a, acc):
			return r + "-listed"
		case everListed[fmt.Sprint(a.idx, "/", i)]:
			return r + "-removed"
		}
		return r + "-neverListed"
	}
	bech := func(is []int) []string {
		out := make([]string, 0, len(is)) // an empty selection is a non-nil, empty string[] on the ABI level
		for _, i := range is {
			out = append(out, pool[i].Acc.String())
		}
		return out
	}
	regArgs := func(a *ownAVS, sender common.Address, owners []int) []interface{} {
		return []interface{}{sender, a.name, uint64(1), a.act.Eth, NewActor(seed, "slashO", a.idx).Eth, NewActor(seed, "rewardO", a.idx).Eth,
			bech(owners), []string{c.AssetIDs[0]}, uint64(2), uint64(0), a.epoch, []uint64{1, 1, 5, 5}}
	}
	step := func(d time.Duration) {
		if r := c.EndAndBegin(d); r.Halt != "" {
			h.env.Note("halt-in-ownerListGroup")
		}
		h.ctxFix()
	}
	taskN := 0
	// payload conditions of the entry point besides the identity (prepared to hold where the group can arrange it)
	payloadOk := func(a *ownAVS, op string) bool {
		info, err := c.App.AVSManagerKeeper.GetAVSInfo(c.Ctx, a.act.Eth.String())
		switch op {
		case "register":
			return err != nil || info == nil
		case "deregister":
			if err != nil || info == nil {
				return false
			}
			ep, found := c.App.EpochsKeeper.GetEpochInfo(c.Ctx, info.Info.EpochIdentifier)
			return found && ep.CurrentEpoch-int64(info.Info.StartingEpoch) <= int64(info.Info.AvsUnbondingPeriod)
		case "createTask":
			vp, e := c.App.OperatorKeeper.GetAVSUSDValue(c.Ctx, a.act.Eth.String())
			return e == nil && vp.IsPositive()
		}
		return true
	}
	// one call of an owner-gated entry point: decision line (Model/Auth), owner-list line (Model/AuthOwners), monitors
	call := func(a *ownAVS, op string, from common.Address, si int, owners []int, ident string) bool {
		sender := pool[si]
		isA, _ := c.App.AVSManagerKeeper.IsAVS(c.Ctx, from.String())
		fromAVS := from == a.act.Eth
		own := fromAVS && listed(a, sender.Acc)
		pOk := payloadOk(a, op)
		listBefore := storedStr(a)
		var ok bool
		var before Snapshot
		name := "avs." + op + "AVS"
		switch op {
		case "register":
			ok, before = h.evmAccept(from, xbAvsAddr, h.abis.avs, "registerAVS", regArgs(a, sender.Eth, owners)...)
		case "update":
			ok, before = h.evmAccept(from, xbAvsAddr, h.abis.avs, "updateAVS", regArgs(a, sender.Eth, owners)...)
		case "deregister":
			ok, before = h.evmAccept(from, xbAvsAddr, h.abis.avs, "deregisterAVS", sender.Eth, a.name)
		case "createTask":
			name = "avs.createTask"
			taskN++
			ok, before = h.evmAccept(from, xbAvsAddr, h.abis.avs, "createTask", sender.Eth, fmt.Sprintf("taskO%d", taskN), []byte(fmt.Sprintf("task-hash-O%d", taskN)), uint64(1), uint64(2), uint64(60), uint64(2))
		}
		ident = ident + "@" + listClass2(listBefore)
		if !ok && op == "register" && h.env.Str("debug", "") != "" {
			data, _ := h.abis.avs.Pack("registerAVS", regArgs(a, sender.Eth, owners)...)
			m := h.abis.avs.Methods["registerAVS"]
			r := xbEvmCall(c, from, xbAvsAddr, data, &m)
			fmt.Printf("OWN register refused: owners=%v si=%d %+v\n", owners, si, r)
		}
		if op == "register" {
			inArg := false
			for _, o := range owners {
				inArg = inArg || o == si
			}
			h.line(authFacts{entry: "registerAVS", a: isA, x: inArg, sig: "valid", name: name, ident: ident}, ok, before, nil)
		} else if pOk || !own {
			// (an owner's request refused for its payload — zero voting power, unbonding window — is no identity decision)
			h.line(authFacts{entry: "manageAVS", a: isA, o: own, sig: "valid", name: name, ident: ident, nonOwner: !own}, ok, before, nil)
		} else {
			h.hist = append(h.hist, fmt.Sprintf("%s as %s: owner's request with inadmissible payload => %v", name, ident, ok))
		}
		if fromAVS {
			os := []string{}
			for _, o := range owners {
				os = append(os, fmt.Sprint(o))
			}
			obs := "reject"
			if ok {
				obs = "accept"
			}
			h.env.Op(fmt.Sprintf("auth.own %s %d %d %s %d %s", op, a.idx, si, b01(pOk), len(owners), strings.Join(os, " ")), obs+" o="+storedStr(a))
			h.hist[len(h.hist)-1] += fmt.Sprintf(" [AVS %d sender %s owners %s -> %s]", a.idx, poolName[si], listBefore, storedStr(a))
			// the stored list is exactly what the accepted writes made it
			h.env.Eval("C10.owner-list")
			want := listBefore
			if ok && (op == "register" || op == "update") {
				want = "[" + strings.Join(os, ",") + "]"
			} else if ok && op == "deregister" {
				want = "-"
			}
			if got := storedStr(a); got != want {
				h.violate("C10.owner-list", "owner-list-not-as-written:"+name, fmt.Sprintf("%s as %s => %s: stored owner list of AVS %d is %s, the accepted writes make it %s", name, ident, obs, a.idx, got, want))
			}
		}
		if ok && (op == "register" || op == "update") && fromAVS {
			for _, o := range owners {
				everListed[fmt.Sprint(a.idx, "/", o)] = true
			}
		}
		return ok
	}
	// every owner-gated entry point x every identity that is NOT on the stored list (+ a foreign contract naming a listed
	// owner): all must be refused and change nothing
	probe := func(a *ownAVS) {
		step(time.Second) // a block of its own: the block gas meter of the deliver context is shared by all calls of a block
		for _, op := range []string{"update", "createTask", "deregister"} {
			for si, p := range pool {
				if listed(a, p.Acc) {
					continue
				}
				owners := []int{si} // update: the sender names itself as the new owner
				call(a, op, a.act.Eth, si, owners, "avsContract-"+role(a, si, p.Acc))
			}
			for si, p := range pool {
				if listed(a, p.Acc) {
					call(a, op, foreign.Eth, si, []int{si}, "foreignContract-"+poolName[si]+"-listedOnTheAVS")
					break
				}
			}
		}
	}
	mkAVS := func(i int, epoch string) *ownAVS {
		a := &ownAVS{idx: i, act: NewActor(seed, "avsOwn", i), name: fmt.Sprintf("avsOwn%d", i), epoch: epoch}
		h.fund(a.act)
		return a
	}
	h.fund(foreign)
	for _, p := range pool[:3] {
		h.fund(p)
	}
	// ---- directed history on an AVS with positive voting power: extend, remove an owner, empty the list
	p0 := mkAVS(0, "minute")
	if call(p0, "register", p0.act.Eth, 0, []int{0}, "avsContract-ownerA-listsItself") {
		for _, o := range c.Operators {
			if ok, _ := h.evmAccept(p0.act.Eth, xbAvsAddr, h.abis.avs, "registerOperatorToAVS", o.Eth); !ok {
				h.env.Note("ownerListGroup-setup-failed:optIn")
			}
		}
		step(61 * time.Second)
		step(61 * time.Second)
		p0.hasPower = payloadOk(p0, "createTask")
		if !p0.hasPower {
			h.env.Note("ownerListGroup-setup-failed:votingPower")
		}
		probe(p0)
		call(p0, "createTask", p0.act.Eth, 0, nil, "avsContract-ownerA-listed")
		call(p0, "update", p0.act.Eth, 0, []int{0, 1}, "avsContract-ownerA-addsOwnerB")
		probe(p0)
		call(p0, "update", p0.act.Eth, 1, []int{1}, "avsContract-ownerB-removesOwnerA")
		probe(p0)
		call(p0, "update", p0.act.Eth, 1, []int{}, "avsContract-ownerB-emptiesTheList")
		probe(p0)
		for si := range pool[:2] { // the former owners, with the list they used to be on in the payload
			call(p0, "update", p0.act.Eth, si, []int{0, 1}, "avsContract-"+role(p0, si, pool[si].Acc)+"-restoresTheList")
		}
	} else {
		h.env.Note("ownerListGroup-setup-failed:register")
	}
	// ---- random histories on further AVS contracts (no voting power: createTask of a listed owner stops at the power
	// check; the identity rows are decided before it)
	next := 1
	cur := mkAVS(next, "day")
	choices := [][]int{{}, {0}, {1}, {0, 1}, {2}, {1, 0}, {0, 0}, {3}, {0, 2}}
	for s := 0; s < steps; s++ {
		step(time.Second)
		l, reg := stored(cur)
		if reg && len(l) == 0 { // locked for good (on the unchanged code): go on with a fresh contract
			probe(cur)
			next++
			cur = mkAVS(next, "day")
			reg = false
		}
		if !reg {
			si := h.rng.Intn(3)
			owners := choices[1+h.rng.Intn(len(choices)-1)]
			call(cur, "register", cur.act.Eth, si, owners, "avsContract-"+poolName[si]+"-registers")
			continue
		}
		probe(cur)
		// a listed owner acts
		var lis []int
		for si, p := range pool {
			if listed(cur, p.Acc) {
				lis = append(lis, si)
			}
		}
		if len(lis) == 0 {
			continue
		}
		si := lis[h.rng.Intn(len(lis))]
		switch r := h.rng.Intn(10); {
		case r < 6:
			owners := choices[h.rng.Intn(len(choices))]
			if h.rng.Intn(3) == 0 { // the sender takes itself off the list
				owners = nil
				for _, o := range lis {
					if o != si {
						owners = append(owners, o)
					}
				}
			}
			call(cur, "update", cur.act.Eth, si, owners, "avsContract-"+role(cur, si, pool[si].Acc)+"-rewritesTheList")
		case r < 8:
			call(cur, "createTask", cur.act.Eth, si, nil, "avsContract-"+role(cur, si, pool[si].Acc))
		default:
			call(cur, "deregister", cur.act.Eth, si, nil, "avsContract-"+role(cur, si, pool[si].Acc))
		}
	}
	probe(cur)
}

// listClass2: "[..]" rendering of a stored list -> its class (part of the identity of a row)
func listClass2(s string) string {
	switch {
	case s == "-":
		return "unregistered"
	case s == "[]":
		return "emptyList"
	case !strings.Contains(s, ","):
		return "oneOwner"
	}
	return "severalOwners"
}
