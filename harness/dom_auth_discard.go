package main

// C10 — "…take effect only when the precompile is invoked by the CONFIGURED gateway contract … parameter
// changes only by the governance authority."  Configured = named by the committed chain state.  This group
// executes, for every module with an UpdateParams message (assets, dogfood, exomint, feedistribution, oracle),
// a params update on a store branch that is then DISCARDED, through every route the application offers:
//
//   cachedDo    the real handler (MsgServiceRouter) on a CacheContext of the deliver state that is dropped
//               because a later step fails — what x/gov's proposal execution does with the messages of a
//               proposal whose later message fails (authority = the gov module account: also on mainnet ids),
//   tx2         a signed two-message transaction [UpdateParams, OptOutOfAVS by a non-operator] through
//               CheckTx + DeliverTx: the second message fails, baseapp drops the branch of runMsgs,
//   simulate    BaseApp.Simulate of an update that would be accepted (handler runs on a branch of the check state),
//   checkTx     CheckTx of the same bytes without delivering them,
//
// and afterwards exercises the privileged entry points again:
//   * gateway-gated precompile methods by the OLD configured gateway (must be admitted) and by the contract the
//     discarded update named (must be refused)  — op lines `auth gateway …`, g computed from the STORED params;
//   * UpdateParams of the same module by a non-authority signer and (directly through the router, on a branch that
//     is dropped again) by the governance authority — op lines `auth updateParams …`.
// The update itself is one `auth.note` line.  Monitors: C10.acts-only-for-caller (wrong caller admitted, as in
// dom_auth.go, with the route in the name), C10.discarded-update-no-effect (every custom store, bank minus the fee
// payer, and the oracle's process memory are byte-identical before and after the discarded update; for the oracle
// also: after the next block the parameters the aggregator works with are still the stored ones).
// The group runs LAST on each chain: on a tree where a discarded update does re-point a check, the chain is of
// no further use.

import (
	"crypto/sha256"
	"encoding/hex"
	"errors"
	"fmt"
	"math/big"
	"strings"
	"time"

	sdkmath "cosmossdk.io/math"
	sdk "github.com/cosmos/cosmos-sdk/types"
	authtypes "github.com/cosmos/cosmos-sdk/x/auth/types"
	govtypes "github.com/cosmos/cosmos-sdk/x/gov/types"
	"github.com/ethereum/go-ethereum/common"

	"github.com/ExocoreNetwork/exocore/utils"
	assetstypes "github.com/ExocoreNetwork/exocore/x/assets/types"
	dogfoodtypes "github.com/ExocoreNetwork/exocore/x/dogfood/types"
	exominttypes "github.com/ExocoreNetwork/exocore/x/exomint/types"
	distrtypes "github.com/ExocoreNetwork/exocore/x/feedistribution/types"
	operatortypes "github.com/ExocoreNetwork/exocore/x/operator/types"
	oraclekeeper "github.com/ExocoreNetwork/exocore/x/oracle/keeper"
	oracletypes "github.com/ExocoreNetwork/exocore/x/oracle/types"
)

var errLaterStepFails = errors.New("a later message of the proposal / transaction fails")

// storedGateway reads the configured gateway from the committed params — directly from the store record,
// not through CheckExocoreGatewayAddr / GetExocoreGatewayAddress (which are under test)
func (h *authH) storedGateway() common.Address {
	p, err := h.c.App.AssetsKeeper.GetParams(h.c.Ctx)
	if err != nil {
		return common.Address{}
	}
	return common.HexToAddress(p.ExocoreLzAppAddress)
}

// oracleEffectiveParams: hash of the parameters the oracle's aggregator context works with / of the stored ones
func (h *authH) oracleParamsHashes() (mem, stored string) {
	defer func() { _ = recover() }()
	sp := h.c.App.OracleKeeper.GetParams(h.c.Ctx)
	bz, _ := sp.Marshal()
	s := sha256.Sum256(bz)
	stored = fmt.Sprintf("%x", s[:8])
	agc := oraclekeeper.GetAggregatorContext(h.c.Ctx, h.c.App.OracleKeeper)
	mp := agc.GetParams()
	bz2, _ := mp.Marshal()
	m := sha256.Sum256(bz2)
	mem = fmt.Sprintf("%x", m[:8])
	return
}

type discMod struct {
	name string
	// changed builds an UpdateParams message of this module with the given authority whose params DIFFER from the stored ones
	changed func(authority string) sdk.Msg
	// same builds one with the stored params (used for the decision probes afterwards)
	same func(authority string) sdk.Msg
}

func (h *authH) discardedParamsGroup() {
	c := h.c
	seed := c.Cfg.Seed
	txCfg := c.App.GetTxConfig()
	fee := sdk.NewCoins(sdk.NewCoin(utils.BaseDenom, sdkmath.NewIntWithDecimal(1, 16)))
	feeColl := fmt.Sprintf("%x", authtypes.NewModuleAddress(authtypes.FeeCollectorName).Bytes())
	gov := authtypes.NewModuleAddress(govtypes.ModuleName)
	other := NewActor(seed, "paramchanger", 0) // funded and committed in boot()
	otherHex := fmt.Sprintf("%x", other.Acc.Bytes())
	gwX := NewActor(seed, "gatewayX", 0) // the contract a discarded update names as gateway
	h.fund(gwX)
	staker := NewActor(seed, "staker", 0)
	st := pad32(staker.Eth.Bytes())
	usdt := pad32(hexToBytes(c.Cfg.Assets[0].Addr))
	opB := []byte(c.Operators[0].Acc.String())
	lz := uint32(c.LzID)
	// CheckTx / Simulate read the last committed state
	if r := c.EndAndBegin(time.Second); r.Halt != "" {
		h.env.Note("halt-in-discardedParamsGroup")
		return
	}
	h.ctxFix()
	ap, err := c.App.AssetsKeeper.GetParams(c.Ctx)
	if err != nil {
		h.env.Note("discard-setup-failed:assets-params")
		return
	}
	mods := []discMod{
		{"assets",
			func(a string) sdk.Msg {
				return &assetstypes.MsgUpdateParams{Authority: a, Params: assetstypes.Params{ExocoreLzAppAddress: gwX.Eth.Hex(), ExocoreLzAppEventTopic: ap.ExocoreLzAppEventTopic}}
			},
			func(a string) sdk.Msg { return &assetstypes.MsgUpdateParams{Authority: a, Params: *ap} }},
		{"dogfood",
			func(a string) sdk.Msg {
				p := c.App.StakingKeeper.GetDogfoodParams(c.Ctx)
				p.HistoricalEntries++
				return &dogfoodtypes.MsgUpdateParams{Authority: a, Params: p}
			},
			func(a string) sdk.Msg {
				return &dogfoodtypes.MsgUpdateParams{Authority: a, Params: c.App.StakingKeeper.GetDogfoodParams(c.Ctx)}
			}},
		{"exomint",
			func(a string) sdk.Msg {
				p := c.App.ExomintKeeper.GetParams(c.Ctx)
				p.EpochReward = p.EpochReward.AddRaw(1)
				return &exominttypes.MsgUpdateParams{Authority: a, Params: p}
			},
			func(a string) sdk.Msg {
				return &exominttypes.MsgUpdateParams{Authority: a, Params: c.App.ExomintKeeper.GetParams(c.Ctx)}
			}},
		{"feedistribution",
			func(a string) sdk.Msg {
				p := c.App.DistrKeeper.GetParams(c.Ctx)
				p.CommunityTax = p.CommunityTax.Add(sdkmath.LegacyNewDecWithPrec(1, 2))
				return &distrtypes.MsgUpdateParams{Authority: a, Params: p}
			},
			func(a string) sdk.Msg {
				return &distrtypes.MsgUpdateParams{Authority: a, Params: c.App.DistrKeeper.GetParams(c.Ctx)}
			}},
		{"oracle",
			func(a string) sdk.Msg {
				p := c.App.OracleKeeper.GetParams(c.Ctx)
				return &oracletypes.MsgUpdateParams{Authority: a, Params: oracletypes.Params{MaxSizePrices: p.MaxSizePrices + 3}}
			},
			func(a string) sdk.Msg {
				p := c.App.OracleKeeper.GetParams(c.Ctx)
				return &oracletypes.MsgUpdateParams{Authority: a, Params: oracletypes.Params{MaxSizePrices: p.MaxSizePrices}}
			}},
	}
	// the failing second message of the two-message transaction: opt-out by an account that is not an operator
	failing := func() sdk.Msg {
		return &operatortypes.OptOutOfAVSReq{FromAddress: other.Acc.String(), AvsAddress: c.AVSAddr}
	}
	signed := func(msgs ...sdk.Msg) ([]byte, error) {
		acc := c.App.AccountKeeper.GetAccount(c.Ctx, other.Acc)
		if acc == nil {
			return nil, errors.New("no account")
		}
		return xbSignCosmos(c, txCfg, msgs, other.Priv.PubKey(), other.Priv, acc.GetAccountNumber(), acc.GetSequence(), 900000, fee, false)
	}
	route := func(ctx sdk.Context, m sdk.Msg) error {
		hd := c.App.MsgServiceRouter().Handler(m)
		if hd == nil {
			return fmt.Errorf("no handler for %T", m)
		}
		_, e := hd(ctx, m)
		return e
	}
	note := func(mod, rt, res string) {
		h.env.Op(fmt.Sprintf("auth.note discard %s %s %s", mod, rt, res), "ok")
		h.hist = append(h.hist, fmt.Sprintf("DISCARDED %s.UpdateParams via %s (mainnet=%v): %s", mod, rt, h.mainnet, res))
		h.env.Outcome("discard." + mod + "." + rt + ":" + res)
		h.env.DistinctKey("discard|" + mod + "|" + rt + "|" + b01(h.mainnet))
	}
	noEffect := func(mod, rt string, before Snapshot, allowBank []string) {
		h.env.Eval("C10.discarded-update-no-effect")
		after := xbSnapshot(c, c.Ctx, true)
		for _, a := range allowBank {
			for _, s := range []Snapshot{before, after} {
				for k := range s["bank"] {
					if strings.Contains(k, a) {
						delete(s["bank"], k)
					}
				}
			}
		}
		if stc, det := xbDiff(before, after); len(stc) > 0 {
			where := "store"
			if len(stc) == 1 && stc[0] == "oraclemem" {
				where = "memory"
			}
			h.violate("C10.discarded-update-no-effect", fmt.Sprintf("discarded-update-changed-state:%s:%s:%s", mod, rt, where),
				fmt.Sprintf("%s.UpdateParams executed via %s on a branch that was dropped, yet %v changed: %s", mod, rt, stc, det))
		}
	}
	broken := false
	// decision probes after a discarded update of module m
	probes := func(m discMod, rt string) {
		tag := "[after-discarded-" + m.name + ".UpdateParams:" + rt + "]"
		if m.name == "assets" && broken {
			h.env.Note("discard-gateway-probes-skipped-after-violation")
		}
		if m.name == "assets" && !broken {
			n := uint64(5000 + h.rng.Intn(1000))
			type meth struct {
				name string
				to   common.Address
				a    abiT
				m    string
				args func() []interface{}
			}
			for _, me := range []meth{
				{"assets.depositLST", xbAssetsAddr, h.abis.assets, "depositLST", func() []interface{} {
					return []interface{}{lz, usdt, st, big.NewInt(int64(1_000_000 + h.rng.Intn(1000)))}
				}},
				{"assets.updateToken", xbAssetsAddr, h.abis.assets, "updateToken", func() []interface{} { return []interface{}{lz, usdt, "meta3"} }},
				{"delegation.delegate", xbDelegAddr, h.abis.deleg, "delegate", func() []interface{} { n++; return []interface{}{lz, n, usdt, st, opB, big.NewInt(1000)} }},
				{"delegation.undelegate", xbDelegAddr, h.abis.deleg, "undelegate", func() []interface{} { n++; return []interface{}{lz, n, usdt, st, opB, big.NewInt(1000)} }},
			} {
				// the caller named in the discarded update first, then the configured gateway
				for _, id := range []struct {
					name string
					addr common.Address
				}{{"namedInDiscardedUpdate", gwX.Eth}, {"configuredGateway", c.Funded.Eth}} {
					gw := h.storedGateway()
					ok, before := h.evmAccept(id.addr, me.to, me.a, me.m, me.args()...)
					h.line(authFacts{entry: "gateway", g: id.addr == gw, sig: "valid", eq: true, name: me.name + tag, ident: id.name, wrongCaller: id.addr != gw}, ok, before, nil)
					if ok != (id.addr == gw) {
						broken = true // the check no longer follows the store: one method, both callers, is enough of a replay
					}
				}
				if broken {
					break
				}
			}
		}
		// UpdateParams of the module: a non-authority signer (signed tx), then the governance authority through the router
		for _, id := range []struct {
			ident     string
			authority sdk.AccAddress
			sigKind   string
			eq        bool
		}{
			{"other-claimsGovAuthority", gov, "nopub", false},
			{"other-ownAuthority", other.Acc, "valid", true},
		} {
			bz, err := signed(m.same(id.authority.String()))
			if err != nil {
				h.env.Note("discard-probe-build-error:" + m.name)
				continue
			}
			before := xbSnapshot(c, c.Ctx, true)
			r := xbDeliver(c, bz, true)
			h.line(authFacts{entry: "updateParams", sig: id.sigKind, eq: id.eq, au: id.authority.Equals(gov), name: m.name + ".UpdateParams" + tag, ident: id.ident, wrongCaller: h.mainnet},
				r.Accepted(), before, []string{otherHex, feeColl})
		}
		var gerr error
		_ = c.CachedDo(func(ctx sdk.Context) error {
			gerr = route(ctx, m.same(gov.String()))
			return errLaterStepFails // the probe itself leaves nothing behind
		})
		h.line(authFacts{entry: "updateParams", sig: "valid", eq: true, au: true, name: m.name + ".UpdateParams" + tag, ident: "govAuthority-throughRouter"}, gerr == nil, nil, nil)
	}
	for _, m := range mods {
		authority := other.Acc
		if h.mainnet {
			authority = gov
		}
		// ---- route cachedDo: the handler runs and succeeds, a later step fails, the branch is dropped
		{
			before := xbSnapshot(c, c.Ctx, true)
			var herr error
			err := c.CachedDo(func(ctx sdk.Context) error {
				herr = route(ctx, m.changed(authority.String()))
				if herr != nil {
					return herr
				}
				return errLaterStepFails
			})
			res := "handler-ok-branch-dropped"
			if herr != nil || err == nil {
				res = "handler-refused"
			}
			note(m.name, "cachedDo", res)
			noEffect(m.name, "cachedDo", before, nil)
			probes(m, "cachedDo")
		}
		// ---- route tx2: [UpdateParams, failing message] through CheckTx + DeliverTx
		if bz, err := signed(m.changed(other.Acc.String()), failing()); err == nil {
			before := xbSnapshot(c, c.Ctx, true)
			r := xbDeliver(c, bz, true)
			res := fmt.Sprintf("check=%d-deliver=%s", r.CheckCode, map[bool]string{true: "ok", false: "failed"}[r.DeliverCode == 0])
			if r.Panic != "" {
				res = "panic"
			}
			note(m.name, "tx2-secondMsgFails", res)
			if r.Accepted() {
				h.env.Note("discard-tx2-unexpectedly-accepted:" + m.name)
			} else {
				noEffect(m.name, "tx2-secondMsgFails", before, []string{otherHex, feeColl})
			}
			probes(m, "tx2-secondMsgFails")
		} else {
			h.env.Note("discard-build-error:tx2:" + m.name)
		}
		// ---- routes simulate / checkTx of an update that would be accepted (off mainnet) or refused (mainnet)
		if bz, err := signed(m.changed(other.Acc.String())); err == nil {
			before := xbSnapshot(c, c.Ctx, true)
			halt := ""
			var simErr error
			func() {
				defer recoverTo(&halt, "Simulate")
				_, _, simErr = c.App.BaseApp.Simulate(bz)
			}()
			res := "ok"
			if halt != "" {
				res = "panic"
			} else if simErr != nil {
				res = "refused"
			}
			note(m.name, "simulate", res)
			noEffect(m.name, "simulate", before, nil)
			probes(m, "simulate")
			// CheckTx without delivery (the probes above consumed sequence numbers: sign again); the check state
			// is then ahead of the deliver state until the next commit, so the block is ended before the probes
			if bz2, err2 := signed(m.changed(other.Acc.String())); err2 == nil {
				before = xbSnapshot(c, c.Ctx, true)
				cr := xbCheckOnly(c, bz2)
				note(m.name, "checkTx", cr)
				noEffect(m.name, "checkTx", before, nil)
				if r := c.EndAndBegin(time.Second); r.Halt != "" {
					h.env.Note("halt-in-discardedParamsGroup")
					return
				}
				h.ctxFix()
				probes(m, "checkTx")
			}
		} else {
			h.env.Note("discard-build-error:simulate:" + m.name)
		}
	}
	// the oracle commits its cached params at the end of the block: a block that held nothing but a DISCARDED oracle
	// params update (the failed-proposal shape: authority = gov on mainnet ids) must leave the aggregator working
	// with the stored parameters, and the store without a record of the discarded ones
	{
		authority := other.Acc
		if h.mainnet {
			authority = gov
		}
		om := mods[len(mods)-1]
		var herr error
		_ = c.CachedDo(func(ctx sdk.Context) error {
			herr = route(ctx, om.changed(authority.String()))
			if herr != nil {
				return herr
			}
			return errLaterStepFails
		})
		res := "handler-ok-branch-dropped"
		if herr != nil {
			res = "handler-refused"
		}
		note("oracle", "cachedDo-thenBlockEnd", res)
		memB, storedB := h.oracleParamsHashes()
		before := xbSnapshot(c, c.Ctx, false)
		if r := c.EndAndBegin(time.Second); r.Halt != "" {
			h.env.Note("halt-in-discardedParamsGroup")
			return
		}
		h.ctxFix()
		memA, storedA := h.oracleParamsHashes()
		after := xbSnapshot(c, c.Ctx, false)
		h.env.Eval("C10.discarded-update-no-effect")
		h.hist = append(h.hist, fmt.Sprintf("block end: oracle params stored %s -> %s, in the aggregator %s -> %s", storedB, storedA, memB, memA))
		if memA != "" && storedA != "" && memA != storedA {
			recent := ""
			for k := range after["oracle"] {
				if _, was := before["oracle"][k]; !was {
					if bz, e := hexDecode(k); e == nil && strings.Contains(string(bz), "RecentParams") {
						recent = " (store key added at the block end: " + string(bz) + ")"
					}
				}
			}
			h.violate("C10.discarded-update-no-effect", "discarded-update-changed-state:oracle:block-end:aggregator-params",
				fmt.Sprintf("after a block that held only a DISCARDED oracle params update the aggregator works with params %s while the params record of the store holds %s%s", memA, storedA, recent))
		}
	}
}

// xbCheckOnly runs CheckTx (mempool admission) without delivering.
func xbCheckOnly(c *Chain, bz []byte) (res string) {
	defer func() {
		if r := recover(); r != nil {
			res = "panic"
		}
	}()
	r, h := c.CheckRaw(bz, false)
	if h != "" {
		return "panic"
	}
	if r.Code == 0 {
		return "ok"
	}
	return "refused"
}

func hexDecode(s string) ([]byte, error) { return hex.DecodeString(s) }
