package main

// C07 — "… remains resolvable to its operator, SO THAT IT CAN STILL BE SLASHED AND JAILED, until the
// unbonding epochs after its replacement or removal have ended".
//
// The registry monitors of dom_conskeys.go look at the reverse index only. This file probes the
// entry points the consensus-evidence / downtime path really uses — the dogfood staking
// interface `StakingKeeper.SlashWithInfractionReason(ctx, consAddr, …)`, `Jail(ctx, consAddr)`,
// `Unjail(ctx, consAddr)` — for EVERY consensus key of the history after every operation, inside a
// cache context that is thrown away (the history itself is not disturbed), and observes on the
// real stores who was hit:
//   * slashed  = the operators that have a slash record with the probe's slash id afterwards,
//   * pools    = whose asset pools went down,
//   * jailed   = the operators whose Jailed flag is set after Jail and cleared after Unjail.
// Monitors (C07.slashable):
//   * a key in the validator set, and a key that left it by replacement / opt-out and whose
//     unbonding slot has not ended, hits exactly its operator (slash record written and pools
//     reduced when the operator has any stake; jailed flag toggled);
//   * a key the registry no longer resolves (pruned, never used) hits nobody and changes nothing
//     (digest of the operator / assets / delegation stores).
// Every probe is also an op line `ck.slashprobe <key> <operators with stake>` whose observation
// `<slashed>/<jailed>/<gate>` the Lean model reproduces from `slashTarget` / `jailTarget` / `validatorTarget`
// (gate = the operator of the validator `ValidatorByConsAddr(consAddr)` returns, "-" = nil: the call
// x/slashing's downtime handler and x/evidence's equivocation handler make FIRST and whose nil / unbonded
// answer makes them return without slashing or jailing).

import (
	"crypto/sha256"
	"fmt"
	"sort"
	"time"

	sdkmath "cosmossdk.io/math"
	sdk "github.com/cosmos/cosmos-sdk/types"
	stakingtypes "github.com/cosmos/cosmos-sdk/x/staking/types"

	assetstypes "github.com/ExocoreNetwork/exocore/x/assets/types"
	delegationtypes "github.com/ExocoreNetwork/exocore/x/delegation/types"
	dogfoodtypes "github.com/ExocoreNetwork/exocore/x/dogfood/types"
	epochstypes "github.com/ExocoreNetwork/exocore/x/epochs/types"
	operatorkeeper "github.com/ExocoreNetwork/exocore/x/operator/keeper"
	operatortypes "github.com/ExocoreNetwork/exocore/x/operator/types"
)

// f07cReported: the defect F-07c shows in every probe of every history; one violation per run is enough
var f07cReported bool

type ckProbeRes struct {
	slashed  []int // operators with a slash record of this probe
	poolDown []int // operators whose asset pools decreased
	poolUp   []int // operators whose asset pools changed otherwise
	jailed   []int // operators whose Jailed flag followed Jail / Unjail by this address
	valJail  bool  // IsValidatorJailed(consAddr) right after Jail
	panicked string
	// ValidatorByConsAddr(consAddr): the gate of the SDK's two callers (see slashProbe)
	valNil      bool   // nil: x/slashing and x/evidence return without slashing / jailing
	valUnbonded bool   // IsUnbonded(): x/evidence ignores the evidence
	valOp       int    // operator id of GetOperator() (-1 = unknown address)
	valKeyID    int    // key id of the validator's consensus public key (-1 = none / unknown)
	valPanic    string // ValidatorByConsAddr panicked (BeginBlock of x/slashing / x/evidence would halt)
}

// ckDigest = sha256 over the stores a slash / jail by consensus address reads or writes.
func ckDigest(c *Chain, ctx sdk.Context) string {
	h := sha256.New()
	for _, name := range []string{operatortypes.StoreKey, assetstypes.StoreKey, delegationtypes.StoreKey, dogfoodtypes.StoreKey} {
		key := c.App.GetKey(name)
		if key == nil {
			continue
		}
		it := ctx.KVStore(key).Iterator(nil, nil)
		for ; it.Valid(); it.Next() {
			h.Write(it.Key())
			h.Write([]byte{0})
			h.Write(it.Value())
			h.Write([]byte{1})
		}
		it.Close()
	}
	return fmt.Sprintf("%x", h.Sum(nil)[:12])
}

// poolSum: sum of TotalAmount over the operator's asset pools; big = some pool holds at least 2 units
func (w *ckWorld) poolSum(ctx sdk.Context, op int) (sum sdkmath.Int, big bool) {
	sum = sdkmath.ZeroInt()
	_ = w.C.App.AssetsKeeper.IterateAssetsForOperator(ctx, false, w.Ops[op].Acc.String(), nil, func(_ string, st *assetstypes.OperatorAssetInfo) error {
		sum = sum.Add(st.TotalAmount)
		if st.TotalAmount.GTE(sdkmath.NewInt(2)) {
			big = true
		}
		return nil
	})
	return
}

// staked: the value x/operator's slash divides by is positive (otherwise the slash is refused: "no value to slash")
func (w *ckWorld) stakeValue(ctx sdk.Context, op int) (sdkmath.LegacyDec, bool) {
	info, err := w.C.App.OperatorKeeper.CalculateUSDValueForOperator(ctx, true, w.Ops[op].Acc.String(), nil, nil, nil)
	if err != nil || info.StakingAndWaitUnbonding.IsNil() || !info.StakingAndWaitUnbonding.IsPositive() {
		return sdkmath.LegacyZeroDec(), false
	}
	return info.StakingAndWaitUnbonding, true
}

// slashProbe: slash / jail / unjail by the consensus address of `key` in discarded cache contexts
func (w *ckWorld) slashProbe(ctx sdk.Context, key int, power int64, regs []int, before map[int]sdkmath.Int) (res ckProbeRes) {
	c := w.C
	sk := c.App.StakingKeeper
	ca := w.Keys[key].ToConsAddr()
	defer func() {
		if r := recover(); r != nil {
			res.panicked = fmt.Sprint(r)
		}
	}()
	// ---- the gate: x/slashing HandleValidatorSignature (downtime) and x/evidence
	// handleEquivocationEvidence (double sign) both start with ValidatorByConsAddr(consAddr) and do
	// NOTHING when it returns nil (x/evidence also when IsUnbonded()); both run inside BeginBlock, where
	// a panic is a halted node.
	res.valOp, res.valKeyID = -1, -1
	func() {
		defer func() {
			if r := recover(); r != nil {
				res.valPanic = shortMsg(fmt.Sprint(r))
				res.valNil = true
			}
		}()
		cctx, _ := ctx.CacheContext()
		cctx = cctx.WithGasMeter(sdk.NewInfiniteGasMeter())
		v := sk.ValidatorByConsAddr(cctx, ca)
		if v == nil {
			res.valNil = true
			return
		}
		res.valUnbonded = v.IsUnbonded()
		res.valOp = w.OpID(sdk.AccAddress(v.GetOperator()))
		if pk, err := v.ConsPubKey(); err == nil && pk != nil {
			res.valKeyID = w.KeyID(sdk.ConsAddress(pk.Address()))
		}
	}()
	// ---- slash
	{
		cctx, _ := ctx.CacheContext()
		cctx = cctx.WithGasMeter(sdk.NewInfiniteGasMeter())
		infraction := stakingtypes.Infraction_INFRACTION_DOUBLE_SIGN
		height := cctx.BlockHeight() - 1
		if height < 0 {
			height = 0
		}
		sk.SlashWithInfractionReason(cctx, ca, height, power, sdk.NewDecWithPrec(5, 1), infraction)
		slashID := operatorkeeper.GetSlashIDForDogfood(infraction, height)
		for _, op := range regs {
			if _, err := c.App.OperatorKeeper.GetOperatorSlashInfo(cctx, c.AVSAddr, w.Ops[op].Acc.String(), slashID); err == nil {
				res.slashed = append(res.slashed, op)
			}
			after, _ := w.poolSum(cctx, op)
			switch {
			case after.LT(before[op]):
				res.poolDown = append(res.poolDown, op)
			case !after.Equal(before[op]):
				res.poolUp = append(res.poolUp, op)
			}
		}
	}
	// ---- jail, then unjail
	{
		cctx, _ := ctx.CacheContext()
		cctx = cctx.WithGasMeter(sdk.NewInfiniteGasMeter())
		sk.Jail(cctx, ca)
		res.valJail = sk.IsValidatorJailed(cctx, ca)
		j1 := map[int]bool{}
		for _, op := range regs {
			_, j1[op] = w.OptState(cctx, op)
		}
		sk.Unjail(cctx, ca)
		for _, op := range regs {
			if _, j2 := w.OptState(cctx, op); j1[op] && !j2 {
				res.jailed = append(res.jailed, op)
			}
		}
	}
	return
}

func dashInts(xs []int) string {
	if len(xs) == 0 {
		return "-"
	}
	sort.Ints(xs)
	return fmtInts(xs)
}

// slashMonitors is called at the end of ckWorld.monitors (same phases). Its sigs carry no scenario
// prefix: the demand is the same in a directed scenario and in a random history.
func (w *ckWorld) slashMonitors(ctx sdk.Context, phase string, pfx string) {
	if w.env.Int("slashprobe", 1) == 0 {
		return
	}
	_ = pfx
	c := w.C
	sk := c.App.StakingKeeper
	env := w.env
	// inside a block a probe round is a function of the stores read below: nothing to repeat after an
	// operation that changed none of them (rejected messages)
	if phase == "tx" {
		fp := fmt.Sprintf("%d/%s", ctx.BlockHeight(), ckDigest(c, ctx))
		if fp == w.slashFP {
			env.Outcome("slashprobe:round-skipped,stores-unchanged")
			return
		}
		w.slashFP = fp
	} else {
		w.slashFP = ""
	}
	ep := w.DogfoodEpoch(ctx)
	vals := w.ValSet(ctx)
	if w.everActive == nil {
		w.everActive = map[int]bool{}
	}
	for k := range vals {
		if k >= 0 {
			w.everActive[k] = true
		}
	}
	// operators with stake, and the power handed to the probe (at least the largest stake, so that
	// half of every pool goes)
	var staked, regs []int
	isStaked := map[int]bool{}
	pools := map[int]sdkmath.Int{}
	power := int64(1)
	for op := range w.Ops {
		if !w.Reg[op] {
			continue
		}
		regs = append(regs, op)
		pools[op], _ = w.poolSum(ctx, op)
		if v, ok := w.stakeValue(ctx, op); ok {
			staked = append(staked, op)
			isStaked[op] = true
			if p := v.TruncateInt64() + 1; p > power {
				power = p
			}
		}
	}
	// whom each key must hit: the operator whose current key it is while it validates; the former
	// owner while a replaced / removed key waits for the end of its unbonding slot
	type want struct {
		owner int
		why   string
	}
	wants := map[int]want{}
	for op := range w.Ops {
		if !w.Reg[op] {
			continue
		}
		if k := w.CurKey(ctx, op); k >= 0 {
			if _, in := vals[k]; in {
				wants[k] = want{op, "validating"}
			}
		}
	}
	for _, t := range w.tracks {
		if t.kind == "undel" {
			continue
		}
		closing := ep == t.slot+1 && sk.IsEpochEnd(ctx)
		released := ep > t.slot && !closing
		if released || closing || !w.everActive[t.key] {
			continue // (a key that never validated is outside the property's words)
		}
		if _, dup := wants[t.key]; !dup {
			why := "replaced, unbonding until epoch %d ends"
			if t.kind == "optout" {
				why = "being removed, unbonding until epoch %d ends"
			}
			wants[t.key] = want{t.owner, fmt.Sprintf(why, t.slot)}
		}
	}
	digest := ""
	for k := range w.Keys {
		rev := w.RevOp(ctx, k)
		p := w.slashProbe(ctx, k, power, regs, pools)
		op := fmt.Sprintf("ck.slashprobe %d %s", k, dashInts(staked))
		gate := "-" // operator of ValidatorByConsAddr(consAddr) ("-" = nil): Model validatorTarget
		switch {
		case p.valPanic != "":
			gate = "panic"
		case !p.valNil:
			gate = fmt.Sprint(p.valOp)
		}
		env.Op(op, dashInts(p.slashed)+"/"+dashInts(p.jailed)+"/"+gate)
		env.Eval("C07.slashable")
		if p.valPanic != "" {
			w.viol("C07.slashable", "validator-by-consaddr-panic", fmt.Sprintf("ValidatorByConsAddr(address of key %d) panicked: %s — x/slashing (downtime) and x/evidence (double sign) call it in BeginBlock for the addresses CometBFT reports: a node would stop (reverse index -> operator %d, that operator's current key %d)", k, p.valPanic, rev, func() int {
				if rev < 0 {
					return -1
				}
				return w.CurKey(ctx, rev)
			}()), append(append([]string{}, w.hist...), op))
		}
		if p.panicked != "" {
			w.viol("C07.slashable", "slash-probe-panic", fmt.Sprintf("slash / jail by the address of key %d panicked: %s", k, p.panicked), append(append([]string{}, w.hist...), op))
			continue
		}
		_, inSet := vals[k]
		switch wt, ok := wants[k]; {
		case ok && inSet:
			env.Outcome("slashprobe:active-key")
		case ok && isStaked[wt.owner]:
			env.Outcome("slashprobe:old-key-unbonding,operator-staked")
		case ok:
			env.Outcome("slashprobe:old-key-unbonding,operator-without-stake")
		case rev < 0:
			env.Outcome("slashprobe:unresolvable-key")
		default:
			env.Outcome("slashprobe:resolvable-key-without-demand")
		}
		if wt, ok := wants[k]; ok {
			where := "old-key"
			if inSet {
				where = "active-key"
			}
			hist := func() []string {
				return append(append([]string{}, w.hist...), op+fmt.Sprintf("   # phase=%s epoch=%d: key %d (%s) belongs to operator %d, in validator store=%v, reverse index -> %d", phase, ep, k, wt.why, wt.owner, inSet, rev))
			}
			// the gate of the SDK's handlers: a nil (or unbonded) validator means the evidence / the missed
			// blocks of this address are dropped before SlashWithInfractionReason / Jail are reached
			env.Eval("C07.slashable.gate")
			if p.valPanic == "" && p.valNil && w.CurKey(ctx, wt.owner) < 0 && rev == wt.owner {
				// F-07d (genuine defect of the unchanged code, listed in known_findings.json): the reverse index
				// still resolves the unbonding key, but its operator has no CURRENT key any more (opt-out
				// completed earlier) and ValidatorByConsAddrForChainID builds the validator from that key
				env.Outcome("slashprobe:gate-nil,operator-without-key(F-07d)")
				if !f07dReported || pfx == "F-07d:" {
					if pfx != "F-07d:" {
						f07dReported = true
					}
					w.viol("C07.slashable", "F-07d:old-key-gate-nil-operator-without-key", fmt.Sprintf("ValidatorByConsAddr by the consensus address of key %d (%s) returned nil although the reverse index resolves it to operator %d: that operator completed an opt-out and has no current key, and ValidatorByConsAddrForChainID needs GetOperatorConsKeyForChainID(operator) to build the validator; x/slashing and x/evidence drop downtime / double-sign evidence against the old key while SlashWithInfractionReason / Jail by the same address would still hit operator %d", k, wt.why, rev, wt.owner), hist())
				}
			} else if p.valPanic == "" && p.valNil {
				w.viol("C07.slashable", where+"-validator-nil", fmt.Sprintf("ValidatorByConsAddr by the consensus address of key %d (%s; reverse index resolves it to %d; operator %d's current key is %d) returned nil: x/slashing and x/evidence drop downtime / double-sign evidence for this address without slashing or jailing", k, wt.why, rev, wt.owner, w.CurKey(ctx, wt.owner)), hist())
			} else if p.valPanic == "" && p.valOp != wt.owner {
				w.viol("C07.slashable", where+"-validator-wrong-operator", fmt.Sprintf("ValidatorByConsAddr by the consensus address of key %d (%s) returned a validator of operator %d, the key belongs to operator %d", k, wt.why, p.valOp, wt.owner), hist())
			} else if p.valPanic == "" && p.valUnbonded {
				// F-07c (genuine defect of the unchanged code, listed in known_findings.json): reported once per run
				env.Outcome("slashprobe:gate-status-unbonded(F-07c)")
				if !f07cReported {
					f07cReported = true
					env.Violate("C07.slashable", "F-07c:validator-status-unbonded", fmt.Sprintf("ValidatorByConsAddr by the consensus address of key %d (%s, operator %d) returns a validator whose status is Unbonded (stakingtypes.NewValidator's default, never overwritten by ValidatorByConsAddrForChainID): x/evidence's HandleEquivocationEvidence returns at `validator == nil || validator.IsUnbonded()`, so double-sign evidence against ANY consensus address of this chain - validating or replaced / removed and still unbonding - is dropped without slash, jail or tombstone", k, wt.why, wt.owner), hist())
				}
			}
			if isStaked[wt.owner] && !has(p.slashed, wt.owner) {
				w.viol("C07.slashable", where+"-not-slashed", fmt.Sprintf("SlashWithInfractionReason by the consensus address of key %d (%s; operator %d has stake; reverse index resolves it to %d; in validator store=%v) wrote no slash record for operator %d (slashed: %s)", k, wt.why, wt.owner, rev, inSet, wt.owner, dashInts(p.slashed)), hist())
			}
			if _, big := w.poolSum(ctx, wt.owner); isStaked[wt.owner] && big && !has(p.poolDown, wt.owner) {
				w.viol("C07.slashable", where+"-stake-untouched", fmt.Sprintf("slash by the address of key %d (%s): the asset pools of operator %d did not decrease", k, wt.why, wt.owner), hist())
			}
			for _, o := range append(append([]int{}, p.slashed...), append(p.poolDown, p.poolUp...)...) {
				if o != wt.owner {
					w.viol("C07.slashable", "slash-hits-other-operator", fmt.Sprintf("slash by the address of key %d of operator %d hit operator %d", k, wt.owner, o), hist())
				}
			}
			if _, err := c.App.OperatorKeeper.GetOptedInfo(ctx, w.Ops[wt.owner].Acc.String(), c.AVSAddr); err == nil {
				if !has(p.jailed, wt.owner) || !p.valJail {
					w.viol("C07.slashable", where+"-not-jailed", fmt.Sprintf("Jail by the consensus address of key %d (%s) did not jail operator %d (jailed: %s, IsValidatorJailed=%v)", k, wt.why, wt.owner, dashInts(p.jailed), p.valJail), hist())
				}
			}
			for _, o := range p.jailed {
				if o != wt.owner {
					w.viol("C07.slashable", "jail-hits-other-operator", fmt.Sprintf("Jail by the address of key %d of operator %d jailed operator %d", k, wt.owner, o), hist())
				}
			}
		}
		if rev < 0 {
			hist := func() []string {
				return append(append([]string{}, w.hist...), op+fmt.Sprintf("   # phase=%s epoch=%d: key %d is not in the reverse index", phase, ep, k))
			}
			dirty := len(p.slashed)+len(p.poolDown)+len(p.poolUp)+len(p.jailed) > 0 || p.valJail
			if !dirty && phase != "tx" {
				// full digest at block boundaries
				if digest == "" {
					digest = ckDigest(c, ctx)
				}
				cctx, _ := ctx.CacheContext()
				cctx = cctx.WithGasMeter(sdk.NewInfiniteGasMeter())
				func() {
					defer func() { _ = recover() }()
					h := cctx.BlockHeight() - 1
					if h < 0 {
						h = 0
					}
					sk.SlashWithInfractionReason(cctx, w.Keys[k].ToConsAddr(), h, power, sdk.NewDecWithPrec(5, 1), stakingtypes.Infraction_INFRACTION_DOUBLE_SIGN)
					sk.Jail(cctx, w.Keys[k].ToConsAddr())
				}()
				dirty = ckDigest(c, cctx) != digest
			}
			if dirty {
				w.viol("C07.slashable", "unresolvable-key-probe-dirty", fmt.Sprintf("slash / jail by the address of key %d, which the registry does not resolve (pruned or never set), changed state (slashed %s, pools %s, jailed %s)", k, dashInts(p.slashed), dashInts(p.poolDown), dashInts(p.jailed)), hist())
			}
		}
	}
}

// scenarioOldKeySlash (directed, `oldkeyslash=1`): one validating operator replaces its key, another
// opts out; the epoch ends (both old keys leave the validator store, both stay in the reverse index);
// evidence for an infraction committed while they validated arrives during the unbonding epochs: the
// probes of slashMonitors must hit the two operators; after the slot has ended they must hit nobody.
func scenarioOldKeySlash(env *Env) {
	cfg := DefaultCfg(env.Report.Seed*1000 + 997)
	cfg.EpochID = epochstypes.MinuteEpochID
	cfg.EpochsUntilUnbonded = 2
	cfg.MinSelfDelegation = 1
	w := newCkWorld(env, cfg, 3, 5)
	c := w.C
	const pfx = "oldkey:"
	var vals []int
	for op := range w.Ops {
		if w.Reg[op] && w.InValSet(c.Ctx, w.CurKey(c.Ctx, op)) {
			vals = append(vals, op)
		}
	}
	fresh := -1
	for k := range w.Keys {
		if w.RevOp(c.Ctx, k) < 0 {
			fresh = k
			break
		}
	}
	if len(vals) < 2 || fresh < 0 {
		env.Note("scenario-oldkeyslash-setup-failed")
		return
	}
	w.monitors(c.Ctx, "tx", pfx)
	w.doSetKey(vals[0], fresh, pfx)
	w.monitors(c.Ctx, "tx", pfx)
	w.doOptOut(vals[1])
	w.monitors(c.Ctx, "tx", pfx)
	for i := 0; i < 5 && c.Halted == ""; i++ { // epochs: leave the set, unbond, pruned / removed
		if !w.doBlock(w.EpochDur+time.Second, pfx) {
			break
		}
		w.monitors(c.Ctx, "tx", pfx)
		if !w.doBlock(time.Second, pfx) {
			break
		}
		w.monitors(c.Ctx, "tx", pfx)
	}
	env.Report.Histories++
	env.Outcome("scenario-oldkeyslash")
}
