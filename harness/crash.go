package main

// Application panics that escape a domain run are violations with a replay, not a dead harness.
//
// Before this file a panic of the real application outside the recover() sections of
// Chain.EndAndBegin (the first BeginBlock of NewChain, InitChain, a keeper function the harness
// calls to drive or to observe the chain, e.g. GetOptOutsToFinish / Jail / SetParams) killed the
// harness process: ./check saw a failed run ("harness exit 2") and could only say
// `no-failing-input-found`. Now main() runs every domain under runGuarded:
//
//   * a panic inside InitChain / BeginBlock / EndBlock / Commit of the real app (a node would stop:
//     the clause of C11) is reported as monitor `halt`, sig `halt:<where>`, with the boot
//     configuration of the chain and the op lines of the current history as the replay;
//   * a panic of application code the harness called directly (not inside block processing) is
//     followed by a PROBE: the chain that was being driven must still process 8 further blocks, 4 of
//     them closing an epoch of the dogfood epoch identifier (C11: "every later block is still
//     processed"). A halt there is reported like above (the probe blocks are part of the replay);
//     if the chain survives, the violation is monitor `harness.crash`, sig `crash:<function>`: the
//     application function panicked on the arguments the (unchanged-tree-clean) domain passed;
//   * a panic without any application frame on the stack is a harness failure and is re-raised
//     (exit status != 0 as before).
//
// The two monitors carry no `Cnn.` prefix on purpose: ./check counts unprefixed monitors for every
// property that runs the domain (monitor_relevant), which keeps the old verdict (a crashed run
// failed the check of whatever property ran it) and adds the replay.

import (
	"fmt"
	"os"
	"runtime/debug"
	"strings"
	"time"
)

// chainHalt is raised by NewChain when InitChain or the first BeginBlock panicked.
type chainHalt struct {
	where string // InitChain | BeginBlock
	msg   string
	site  string
	orig  any // the original panic value
}

// a domain that recovers from NewChain itself (genesis import rejections) prints the original value
func (h chainHalt) String() string { return fmt.Sprint(h.orig) }
func (h chainHalt) Error() string  { return fmt.Sprint(h.orig) }

var (
	lastChain     *Chain // the chain booted last in this process
	lastBoot      string // its configuration, one line
	lastBootOpSeq int    // Env op counter when it was booted
	opSeq         int    // number of Env.Op calls so far
	lastPanicSite string // innermost application frame of the panic recoverTo saw last
)

const exoModule = "github.com/ExocoreNetwork/exocore/"

// appFrame returns the innermost frame of the application's Go module on a debug.Stack() dump
// taken inside a deferred function of a panicking goroutine ("" if there is none).
func appFrame(stack []byte) string {
	for _, l := range strings.Split(string(stack), "\n") {
		if !strings.HasPrefix(l, exoModule) {
			continue
		}
		f := strings.TrimPrefix(l, exoModule)
		if i := strings.LastIndexByte(f, '('); i > 0 {
			f = f[:i]
		}
		f = strings.NewReplacer("(*", "", ")", "", "[...]", "").Replace(f)
		return f
	}
	return ""
}

// abciFrame: is the real app's block processing on the stack?
func abciFrame(stack []byte) string {
	s := string(stack)
	for _, w := range []string{"InitChain", "BeginBlock", "EndBlock", "Commit", "DeliverTx"} {
		if strings.Contains(s, "baseapp.(*BaseApp)."+w+"(") {
			return w
		}
	}
	return ""
}

// tryNewChain = NewChain, with a halt of InitChain / the first BeginBlock returned instead of raised
func tryNewChain(cfg ChainCfg) (c *Chain, halt string) {
	defer func() {
		if r := recover(); r != nil {
			h, ok := r.(chainHalt)
			if !ok {
				panic(r)
			}
			halt = h.where + ": " + h.msg
			if h.site != "" {
				halt += " [in " + h.site + "]"
			}
		}
	}()
	return NewChain(cfg), ""
}

func bootLine(cfg ChainCfg) string {
	return fmt.Sprintf("# chain boot: seed=%d chain=%s operators=%d powers=%v epoch=%s epochsUntilUnbonded=%d maxValidators=%d minSelfDelegation=%d historicalEntries=%d mutatedGenesis=%v",
		cfg.Seed, cfg.ChainID, cfg.NOperators, cfg.Powers, cfg.EpochID, cfg.EpochsUntilUnbonded, cfg.MaxValidators, cfg.MinSelfDelegation, cfg.HistoricalEntries, cfg.Mutate != nil)
}

func noteBoot(c *Chain) {
	lastChain = c
	lastBoot = bootLine(c.Cfg)
	lastBootOpSeq = opSeq
}

// crashHistory: the boot line of the chain in use and the op lines written since the last
// `.reset` op (none of them if the chain was booted after the last op line: a fresh history).
func (e *Env) crashHistory() []string {
	var h []string
	if lastBoot != "" {
		h = append(h, lastBoot)
	}
	if lastChain == nil || lastBootOpSeq != opSeq {
		h = append(h, e.cur...)
	}
	return h
}

func shortMsg(s string) string {
	s = strings.ReplaceAll(s, "\n", " ")
	if len(s) > 300 {
		s = s[:300]
	}
	return s
}

// probeBlocks: 8 further blocks, every second one closing an epoch of the dogfood identifier.
func probeBlocks(c *Chain) (lines []string, halt string) {
	ed := EpochDuration(c.Cfg.EpochID)
	if ed == 0 {
		ed = 24 * time.Hour
	}
	for i := 0; i < 8; i++ {
		d := time.Second
		if i%2 == 1 {
			d = ed + time.Second
		}
		r := c.EndAndBegin(d)
		lines = append(lines, fmt.Sprintf("# probe: EndBlock(%d), Commit, BeginBlock(%d) at +%s", c.Header.Height-1, c.Header.Height, d))
		if r.Halt != "" {
			return lines, r.Halt
		}
	}
	return lines, ""
}

func haltWhere(h string) string {
	return strings.SplitN(h, ":", 2)[0]
}

// reportCrash turns the panic value r (stack = debug.Stack() of the deferred call) into a
// violation of the report; false = not an application panic.
func (e *Env) reportCrash(r any, stack []byte) bool {
	msg := shortMsg(fmt.Sprint(r))
	site := appFrame(stack)
	where := abciFrame(stack)
	if h, ok := r.(chainHalt); ok {
		msg, site, where = h.msg, h.site, h.where
	}
	c := lastChain
	hist := e.crashHistory()
	at := ""
	if site != "" {
		at = " [in " + site + "]"
	}
	if os.Getenv("VERIF_STACK") != "" {
		fmt.Fprintf(os.Stderr, "PANIC %v\n%s\n", r, stack)
	}
	e.Eval("halt")
	switch {
	case where != "" && where != "DeliverTx":
		hist = append(hist, fmt.Sprintf("# %s panicked: %s%s", where, msg, at))
		e.Violate("halt", "halt:"+where, fmt.Sprintf("block processing panicked (a node would stop; C11): %s: %s%s", where, msg, at), hist)
		return true
	case c != nil && c.Halted != "":
		// the chain had already halted inside a recover() section and the domain ran on into it
		if lastPanicSite != "" {
			at = " [in " + lastPanicSite + "]"
		}
		hist = append(hist, fmt.Sprintf("# block processing panicked: %s%s", c.Halted, at))
		e.Violate("halt", "halt:"+haltWhere(c.Halted), fmt.Sprintf("block processing panicked (a node would stop; C11): %s%s", c.Halted, at), hist)
		return true
	case site != "":
		hist = append(hist, fmt.Sprintf("# the harness called %s (outside block processing): panic: %s", site, msg))
		halt := ""
		if c != nil {
			var lines []string
			lines, halt = probeBlocks(c)
			hist = append(hist, lines...)
		}
		if halt != "" {
			if lastPanicSite != "" {
				halt += " [in " + lastPanicSite + "]"
			}
			hist = append(hist, "# block processing panicked: "+halt)
			e.Violate("halt", "halt:"+haltWhere(halt), fmt.Sprintf("after %s panicked (%s) in a call of the harness, block processing panicked too (a node would stop; C11): %s", site, msg, halt), hist)
			return true
		}
		e.Violate("harness.crash", "crash:"+site, fmt.Sprintf("the application function %s panicked when the harness called it outside block processing: %s (the chain then processed 8 further blocks)", site, msg), hist)
		return true
	}
	return false
}

// runGuarded runs a domain; an application panic that escapes it ends the run with a violation.
func runGuarded(env *Env, d Domain) (err error) {
	defer func() {
		if r := recover(); r != nil {
			stack := debug.Stack()
			if !env.reportCrash(r, stack) {
				fmt.Fprintf(os.Stderr, "harness panic (no application frame): %v\n%s\n", r, stack)
				os.Exit(2)
			}
			err = nil
		}
	}()
	return d(env)
}
