package main

// Helpers shared by the C06 / C07 / C16 domains (dom_valset.go, dom_conskeys.go,
// dom_unbonding.go): a world of operators and consensus keys with small stable ids, the
// operator module's message server (the surface users reach), deposits / delegations through
// the real keepers, and canonical renderings.

import (
	"bytes"
	"fmt"
	"sort"
	"strings"
	"time"

	sdkmath "cosmossdk.io/math"
	sdk "github.com/cosmos/cosmos-sdk/types"
	stakingtypes "github.com/cosmos/cosmos-sdk/x/staking/types"
	"github.com/ethereum/go-ethereum/common"

	keytypes "github.com/ExocoreNetwork/exocore/types/keys"
	assetskeeper "github.com/ExocoreNetwork/exocore/x/assets/keeper"
	assetstypes "github.com/ExocoreNetwork/exocore/x/assets/types"
	delegationtypes "github.com/ExocoreNetwork/exocore/x/delegation/types"
	dogfoodtypes "github.com/ExocoreNetwork/exocore/x/dogfood/types"
	operatorkeeper "github.com/ExocoreNetwork/exocore/x/operator/keeper"
	operatortypes "github.com/ExocoreNetwork/exocore/x/operator/types"
)

// World = a booted chain plus id tables. Operator id = rank of the account address bytes among
// all operators of the history; key id = rank of tmproto PublicKey.String() among all keys of
// the history (that string is what ApplyValidatorChanges sorts by).
type World struct {
	C        *Chain
	Ops      []Actor // by id
	Keys     []keytypes.WrappedConsKey
	keyByCA  map[string]int // hex(cons addr) -> key id
	opByAcc  map[string]int
	Reg      []bool // operator id registered in x/operator
	Stakers  []Actor
	nonce    uint64
	msgSrv   *operatorkeeper.MsgServerImpl
	EpochDur time.Duration
}

func errClass(err error) string {
	if err == nil {
		return "ok"
	}
	s := err.Error()
	if strings.HasPrefix(s, "panic:") {
		return "panic"
	}
	for _, e := range []struct {
		err  error
		name string
	}{
		{operatortypes.ErrAlreadyRemovingKey, "ErrAlreadyRemovingKey"},
		{operatortypes.ErrConsKeyAlreadyInUse, "ErrConsKeyAlreadyInUse"},
		{operatortypes.ErrAlreadyOptedIn, "ErrAlreadyOptedIn"},
		{operatortypes.ErrNotOptedIn, "ErrNotOptedIn"},
		{operatortypes.ErrMinDelegationNotMet, "ErrMinDelegationNotMet"},
		{delegationtypes.ErrOperatorIsFrozen, "ErrOperatorIsFrozen"},
		{delegationtypes.ErrOperatorNotExist, "ErrOperatorNotExist"},
	} {
		if strings.Contains(s, e.err.Error()) {
			return e.name
		}
	}
	return "rej"
}

// NewWorld boots a chain with nGenesis validating operators (cfg.Powers given) and prepares
// nOps operators / nKeys keys in total. Operators beyond the genesis ones are not registered yet.
func NewWorld(cfg ChainCfg, nOps, nKeys int) *World {
	c := NewChain(cfg)
	w := &World{C: c, keyByCA: map[string]int{}, opByAcc: map[string]int{}}
	ops := append([]Actor{}, c.Operators...)
	for i := len(ops); i < nOps; i++ {
		ops = append(ops, NewActor(cfg.Seed, "xop", i))
	}
	sort.Slice(ops, func(i, j int) bool { return bytes.Compare(ops[i].Acc, ops[j].Acc) < 0 })
	w.Ops = ops
	w.Reg = make([]bool, len(ops))
	for i, o := range ops {
		w.opByAcc[string(o.Acc)] = i
		w.Reg[i] = c.App.OperatorKeeper.IsOperator(c.Ctx, o.Acc)
	}
	keys := append([]keytypes.WrappedConsKey{}, c.ConsKeys...)
	for i := len(keys); i < nKeys; i++ {
		k, _ := NewConsKey(cfg.Seed, "pool", i)
		keys = append(keys, k)
	}
	sort.Slice(keys, func(i, j int) bool { return keys[i].ToTmProtoKey().String() < keys[j].ToTmProtoKey().String() })
	w.Keys = keys
	for i, k := range keys {
		w.keyByCA[fmt.Sprintf("%x", k.ToConsAddr().Bytes())] = i
	}
	for i := 0; i < 3; i++ {
		w.Stakers = append(w.Stakers, NewActor(cfg.Seed, "staker", i))
	}
	w.msgSrv = operatorkeeper.NewMsgServerImpl(c.App.OperatorKeeper)
	w.EpochDur = EpochDuration(cfg.EpochID)
	return w
}

func (w *World) KeyID(ca []byte) int {
	if id, ok := w.keyByCA[fmt.Sprintf("%x", ca)]; ok {
		return id
	}
	return -1
}

func (w *World) OpID(acc []byte) int {
	if id, ok := w.opByAcc[string(acc)]; ok {
		return id
	}
	return -1
}

func (w *World) assetAddr() []byte { return common.HexToAddress(w.C.Cfg.Assets[0].Addr).Bytes() }

// Register an operator in x/operator (RegisterOperator message).
func (w *World) Register(op int) error {
	c := w.C
	err := c.CachedDo(func(ctx sdk.Context) error {
		return c.App.OperatorKeeper.SetOperatorInfo(ctx, w.Ops[op].Acc.String(), &operatortypes.OperatorInfo{
			EarningsAddr: w.Ops[op].Acc.String(), OperatorMetaInfo: fmt.Sprintf("xop%d", op),
			Commission: stakingtypes.NewCommission(sdk.ZeroDec(), sdk.ZeroDec(), sdk.ZeroDec()),
		})
	})
	if err == nil {
		w.Reg[op] = true
	}
	return err
}

// Deposit amount (base units of asset 0) for a staker address and delegate it to op; when self
// the staker is the operator's own eth address, associated with the operator.
func (w *World) DepositDelegate(staker common.Address, op int, amt sdkmath.Int, self bool) error {
	c := w.C
	return c.CachedDo(func(ctx sdk.Context) error {
		if err := c.App.AssetsKeeper.PerformDepositOrWithdraw(ctx, &assetskeeper.DepositWithdrawParams{
			ClientChainLzID: c.LzID, Action: assetstypes.DepositLST, AssetsAddress: w.assetAddr(),
			StakerAddress: staker.Bytes(), OpAmount: amt,
		}); err != nil {
			return err
		}
		w.nonce++
		if err := c.App.DelegationKeeper.DelegateTo(ctx, &delegationtypes.DelegationOrUndelegationParams{
			ClientChainID: c.LzID, Action: assetstypes.DelegateTo, AssetsAddress: w.assetAddr(),
			OperatorAddress: w.Ops[op].Acc, StakerAddress: staker.Bytes(), OpAmount: amt,
			LzNonce: w.nonce, TxHash: common.BytesToHash(detBytes(c.Cfg.Seed, "tx", int(w.nonce))),
		}); err != nil {
			return err
		}
		if self {
			sid := StakerIDOf(c.LzID, staker)
			if cur, _ := c.App.DelegationKeeper.GetAssociatedOperator(ctx, sid); cur == "" {
				return c.App.DelegationKeeper.AssociateOperatorWithStaker(ctx, c.LzID, w.Ops[op].Acc, staker.Bytes())
			}
		}
		return nil
	})
}

// Undelegate starts a real undelegation; returns the record key on success.
func (w *World) Undelegate(staker common.Address, op int, amt sdkmath.Int) ([]byte, error) {
	c := w.C
	var key []byte
	err := c.CachedDo(func(ctx sdk.Context) error {
		w.nonce++
		p := &delegationtypes.DelegationOrUndelegationParams{
			ClientChainID: c.LzID, Action: assetstypes.UndelegateFrom, AssetsAddress: w.assetAddr(),
			OperatorAddress: w.Ops[op].Acc, StakerAddress: staker.Bytes(), OpAmount: amt,
			LzNonce: w.nonce, TxHash: common.BytesToHash(detBytes(c.Cfg.Seed, "tx", int(w.nonce))),
		}
		key = delegationtypes.GetUndelegationRecordKey(uint64(ctx.BlockHeight()), p.LzNonce, p.TxHash.String(), p.OperatorAddress.String())
		return c.App.DelegationKeeper.UndelegateFrom(ctx, p)
	})
	return key, err
}

// message-server surface of x/operator (OptIntoAVS / OptOutOfAVS / SetConsKey)
func (w *World) OptIn(op, key int) error {
	c := w.C
	return c.CachedDo(func(ctx sdk.Context) error {
		_, err := w.msgSrv.OptIntoAVS(sdk.WrapSDKContext(ctx), &operatortypes.OptIntoAVSReq{
			FromAddress: w.Ops[op].Acc.String(), AvsAddress: c.AVSAddr, PublicKeyJSON: w.Keys[key].ToJSON(),
		})
		return err
	})
}

func (w *World) OptOut(op int) error {
	c := w.C
	return c.CachedDo(func(ctx sdk.Context) error {
		_, err := w.msgSrv.OptOutOfAVS(sdk.WrapSDKContext(ctx), &operatortypes.OptOutOfAVSReq{
			FromAddress: w.Ops[op].Acc.String(), AvsAddress: c.AVSAddr,
		})
		return err
	})
}

func (w *World) SetKey(op, key int) error {
	c := w.C
	return c.CachedDo(func(ctx sdk.Context) error {
		_, err := w.msgSrv.SetConsKey(sdk.WrapSDKContext(ctx), &operatortypes.SetConsKeyReq{
			Address: w.Ops[op].Acc.String(), AvsAddress: c.AVSAddr, PublicKeyJSON: w.Keys[key].ToJSON(),
		})
		return err
	})
}

func (w *World) SetDogfoodParams(f func(p *dogfoodtypes.Params)) {
	p := w.C.App.StakingKeeper.GetDogfoodParams(w.C.Ctx)
	f(&p)
	w.C.App.StakingKeeper.SetParams(w.C.Ctx, p)
}

// state readers (ids; -1 = none / unknown key)
func (w *World) CurKey(ctx sdk.Context, op int) int {
	found, k, err := w.C.App.OperatorKeeper.GetOperatorConsKeyForChainID(ctx, w.Ops[op].Acc, w.C.ChainIDNR)
	if err != nil || !found || k == nil {
		return -1
	}
	return w.KeyID(k.ToConsAddr())
}

func (w *World) PrevKey(ctx sdk.Context, op int) int {
	found, k, err := w.C.App.OperatorKeeper.GetOperatorPrevConsKeyForChainID(ctx, w.Ops[op].Acc, w.C.ChainIDNR)
	if err != nil || !found || k == nil {
		return -1
	}
	return w.KeyID(k.ToConsAddr())
}

// RevOp: operator id the reverse index maps key to (-1 = absent)
func (w *World) RevOp(ctx sdk.Context, key int) int {
	found, acc := w.C.App.OperatorKeeper.GetOperatorAddressForChainIDAndConsAddr(ctx, w.C.ChainIDNR, w.Keys[key].ToConsAddr())
	if !found {
		return -1
	}
	return w.OpID(acc)
}

func (w *World) Removing(ctx sdk.Context, op int) bool {
	return w.C.App.OperatorKeeper.IsOperatorRemovingKeyFromChainID(ctx, w.Ops[op].Acc, w.C.ChainIDNR)
}

// OptState: opted-in flag and jailed flag ("not opted in" when there is no record)
func (w *World) OptState(ctx sdk.Context, op int) (in bool, jailed bool) {
	info, err := w.C.App.OperatorKeeper.GetOptedInfo(ctx, w.Ops[op].Acc.String(), w.C.AVSAddr)
	if err != nil {
		return false, false
	}
	return info.OptedOutHeight == operatortypes.DefaultOptedOutHeight, info.Jailed
}

// ValSet: key id -> power of the stored ExocoreValidator set
func (w *World) ValSet(ctx sdk.Context) map[int]int64 {
	m := map[int]int64{}
	for _, v := range w.C.App.StakingKeeper.GetAllExocoreValidators(ctx) {
		m[w.KeyID(v.Address)] = v.Power
	}
	return m
}

func (w *World) InValSet(ctx sdk.Context, key int) bool {
	if key < 0 {
		return false
	}
	_, found := w.C.App.StakingKeeper.GetExocoreValidator(ctx, w.Keys[key].ToConsAddr())
	return found
}

func fmtIntMap(m map[int]int64) string {
	ks := make([]int, 0, len(m))
	for k := range m {
		ks = append(ks, k)
	}
	sort.Ints(ks)
	parts := make([]string, len(ks))
	for i, k := range ks {
		parts[i] = fmt.Sprintf("%d:%d", k, m[k])
	}
	return strings.Join(parts, ",")
}

func fmtInts(xs []int) string {
	parts := make([]string, len(xs))
	for i, x := range xs {
		parts[i] = fmt.Sprint(x)
	}
	return strings.Join(parts, ",")
}

func (w *World) DogfoodEpoch(ctx sdk.Context) int64 {
	p := w.C.App.StakingKeeper.GetDogfoodParams(ctx)
	e, _ := w.C.App.EpochsKeeper.GetEpochInfo(ctx, p.EpochIdentifier)
	return e.CurrentEpoch
}
