package main

// Int63n returns a value in [0,n) (n > 0), 0 otherwise.
func (r *RNG) Int63n(n int64) int64 {
	if n <= 0 {
		return 0
	}
	return int64(r.U64() % uint64(n))
}
