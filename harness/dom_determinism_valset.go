package main

// C08 — determinism, the restart clause under validator-set changes ("… independent of … how often
// the node was restarted"). The `determinism` domain's block sequence never removes one of the
// validators that quote prices, so every in-memory index the oracle derives from the validator set
// looks the same whether it was built once (process start) or maintained block by block. Here the
// set really changes through x/dogfood (minute epochs): an operator opts out of the chain's AVS and
// x/dogfood returns power 0 for its key at the next epoch end, powers change by delegations,
// departed operators opt in again — while
//   * the departed validator keeps its key and keeps submitting prices,
//   * the remaining validators' reports reach the super-majority of the NEW total only (they would
//     not reach it against the old total), or reach it only together with the departed one's power,
//   * new price rounds start after the removal (the oracle writes a nonce record per validator it
//     knows of).
// One recorded block script (transaction bytes, keeper-level actions, time steps) is executed on a
// fresh application once without any restart (the reference) and again with emulated restarts
// (all process-local oracle singletons dropped, package defaults restored, context rebuilt from the
// committed store by the real GetAggregatorContext → recacheAggregatorContext) placed before the
// removal, right after it, before and after it, and at every k-th eligible commit. Per block the
// app hash, each ResponseDeliverTx{Code,Codespace,Data,GasUsed}, the validator and consensus-param
// updates are compared byte for byte with the reference. Every run also emits the op / observation
// stream of the oracle domains, so ./check replays it on the Lean oracle model (registry: driver Oracle).
//
// Restart points at which the two recorded oracle findings F-14a / F-14b would fire (a round closed
// inside its window, a validator with two accepted messages in an open round) are not used: the
// generator sends at most one message per validator, feeder and round, and a point is eligible only
// if no round is closed while its window is still running (the block right after a validator-set
// change is eligible: the restarted node replays the forced seal, F-14c repair). A divergence seen
// here therefore gets its own signature `nondeterminism:restart:valset:…` and is not covered by the
// known-finding entry of F-14b (`^nondeterminism:restart:closed-round$`).

import (
	"encoding/hex"
	"fmt"
	"sort"
	"strings"
	"time"

	abci "github.com/cometbft/cometbft/abci/types"

	epochstypes "github.com/ExocoreNetwork/exocore/x/epochs/types"
)

func init() { register("determinism_valset", domDeterminismValset) }

type dvBlock struct {
	pre  *vsAction // keeper-level validator-set action executed like a message before the block's txs
	txs  []orcTx
	step time.Duration
}

type dvTrace struct {
	lines    []string // one per block; compared byte for byte
	store    []string // stored prices and nonces after EndBlock (diagnostic text of a violation only)
	mem      []string // the in-memory validator map after EndBlock (diagnostic only)
	nUpd     []int    // validator updates x/dogfood returned at this block's EndBlock
	removal  []bool   // … one of them with power 0
	safe     []bool   // a restart after this block is outside the triggers of F-14a / F-14b
	restarts []int    // block indices after which a restart was really made
	okTx     int
	departed int // accepted or refused submissions of validators outside the current set
	halt     string
}

// dvDeliver = orc.deliver, additionally returning the C08 rendering of the DeliverTx response.
func dvDeliver(o *orc, t orcTx) (string, string) {
	bz, _, _, err := o.build(t)
	if err != nil {
		o.env.Note("build-error")
		return "build-error", "build-error"
	}
	infos := append([][2]bool{}, o.lastInfos...)
	var res abci.ResponseDeliverTx
	func() {
		defer func() {
			if r := recover(); r != nil {
				res = abci.ResponseDeliverTx{Code: 111222, Codespace: "undefined", Log: fmt.Sprint(r)}
			}
		}()
		res = o.c.App.DeliverTx(abci.RequestDeliverTx{Tx: bz})
	}()
	cls := orcClass(res.Code, res.Codespace, res.Log)
	o.op(o.opLineTx(t, len(bz), infos), cls+"|"+o.fullObs())
	return fmtDeliver(res), cls
}

// dvEndBlock = orc.endBlock, additionally returning the byte rendering of the EndBlock response.
func dvEndBlock(o *orc) (updates map[int]int64, line string, halted bool) {
	var res abci.ResponseEndBlock
	func() {
		defer recoverTo(&o.halted, "EndBlock")
		res = o.c.App.EndBlock(abci.RequestEndBlock{Height: o.c.Header.Height})
	}()
	if o.halted != "" {
		o.op("orc.end -", "halt")
		return nil, "", true
	}
	updates = map[int]int64{}
	var us []string
	for _, vu := range res.ValidatorUpdates {
		idx := 99
		for i, p := range o.c.ConsPrivs {
			if vu.PubKey.GetEd25519() != nil && string(vu.PubKey.GetEd25519()) == string(p.PubKey().Bytes()) {
				idx = i
			}
		}
		updates[idx] = vu.Power
		us = append(us, fmt.Sprintf("%d:%d", idx, vu.Power))
	}
	u := "-"
	if len(us) > 0 {
		u = strings.Join(us, ",")
	}
	o.op("orc.end "+u, o.fullObs())
	return updates, fmtEnd(res), false
}

// dvSafe: may the node be restarted after the block that just ended (EndBlock done, not yet
// committed) without meeting F-14a / F-14b? Same rule as the C14 domain's `safeAt`.
func dvSafe(d *orcDriver, nUpd int, accepted map[string]int) bool {
	if nUpd > 0 {
		return true
	}
	h := uint64(d.c.Header.Height)
	for fi := range d.spec.Feeders {
		base := d.spec.openBase(fi, h+1)
		if base == 0 {
			continue
		}
		if d.roundStatus(fi+1) != 1 {
			return false // closed inside its window: F-14b
		}
		for v := range d.spec.Powers {
			// two accepted messages of one validator in the round that stays open: F-14a (the generator
			// sends one per validator, feeder and round, but a message whose feeder id was mutated can
			// land in another feeder's round)
			if accepted[fmt.Sprintf("%d/%d/%d", fi, base, v)] > 1 {
				return false
			}
		}
	}
	return true
}

func dvMemValidators(o *orc) string {
	obs := o.fullObs()
	i := strings.Index(obs, "|V:")
	if i < 0 {
		return "?"
	}
	rest := obs[i+1:]
	if j := strings.Index(rest, "|R:"); j >= 0 {
		rest = rest[:j]
	}
	return rest
}

// dvRun executes the script (gen == nil) or generates and records it (gen != nil) on a fresh
// application; restartAfter[b]: restart after the commit of block index b (post BeginBlock of the
// next block, where a real process would come up).
func dvRun(env *Env, seed uint64, spec orcSpec, blocks *[]dvBlock, nb int, gen func(d *orcDriver, b int) dvBlock, restartAfter map[int]bool) *dvTrace {
	o := newOrc(env, seed, spec, func(c *ChainCfg) {
		c.EpochID = epochstypes.MinuteEpochID
		c.EpochsUntilUnbonded = 1 // a departed operator can opt in again after one more epoch
	})
	o.emitSetup()
	d := newOrcDriver(o, NewRNG(seed))
	tr := &dvTrace{}
	accepted := map[string]int{} // "feeder index/base/validator" -> accepted messages
	for b := 0; b < nb; b++ {
		var blk dvBlock
		if gen != nil {
			blk = gen(d, b)
			*blocks = append(*blocks, blk)
		} else {
			blk = (*blocks)[b]
		}
		h := o.c.Header.Height
		var txl []string
		if blk.pre != nil {
			txl = append(txl, "k."+blk.pre.kind+":"+o.vsDo(*blk.pre))
		}
		for _, t := range blk.txs {
			l, cls := dvDeliver(o, t)
			txl = append(txl, l)
			if cls == "ok" {
				tr.okTx++
				for _, m := range t.Msgs {
					if fi := int(m.Feeder) - 1; fi >= 0 && fi < len(spec.Feeders) {
						accepted[fmt.Sprintf("%d/%d/%d", fi, spec.openBase(fi, uint64(h)), m.Creator)]++
					}
				}
			}
			for _, m := range t.Msgs {
				if _, in := d.powers[m.Creator]; !in && m.Creator < 50 {
					tr.departed++
				}
			}
		}
		upd, endLine, halted := dvEndBlock(o)
		if halted {
			tr.halt = o.halted
			tr.lines = append(tr.lines, "HALT "+o.halted)
			return tr
		}
		d.applyUpdates(upd)
		rem := false
		for _, p := range upd {
			if p == 0 {
				rem = true
			}
		}
		tr.nUpd = append(tr.nUpd, len(upd))
		tr.removal = append(tr.removal, rem)
		ctx := o.ctx()
		tr.store = append(tr.store, o.showPrices(ctx)+"|N:"+o.showNonces(ctx))
		tr.mem = append(tr.mem, dvMemValidators(o))
		tr.safe = append(tr.safe, dvSafe(d, len(upd), accepted))
		if !o.commitBegin(blk.step) {
			tr.halt = o.halted
			tr.lines = append(tr.lines, "HALT "+o.halted)
			return tr
		}
		tr.lines = append(tr.lines, fmt.Sprintf("h=%d app=%s %s tx=[%s]", h, hex.EncodeToString(o.c.Header.AppHash), endLine, strings.Join(txl, " ")))
		if restartAfter[b] {
			obs := o.restart()
			o.op("orc.restart", obs)
			tr.restarts = append(tr.restarts, b)
			if obs == "panic" {
				tr.halt = "restart: recacheAggregatorContext panicked"
				tr.lines = append(tr.lines, "HALT "+tr.halt)
				return tr
			}
		}
	}
	return tr
}

func dvShowTx(t orcTx) string {
	var ms []string
	for _, m := range t.Msgs {
		var ps []string
		for _, s := range m.Srcs {
			for _, p := range s.Prices {
				ps = append(ps, fmt.Sprintf("s%d:%s=%s", s.ID, p.DetID, p.Price))
			}
		}
		ms = append(ms, fmt.Sprintf("v%d feeder=%d based=%d nonce=%d [%s]", m.Creator, m.Feeder, m.Based, m.Nonce, strings.Join(ps, " ")))
	}
	x := ""
	if t.Forge {
		x += " forged-signature"
	}
	if t.WrongPK {
		x += " wrong-pubkey"
	}
	return strings.Join(ms, " + ") + x
}

// dvHistory renders the script up to block index `upto` with the restarts of one schedule.
func dvHistory(head []string, blocks []dvBlock, restarts []int, upto int) []string {
	rs := map[int]bool{}
	for _, r := range restarts {
		rs[r] = true
	}
	hist := append([]string{}, head...)
	for b, blk := range blocks {
		if b > upto {
			break
		}
		l := fmt.Sprintf("detvs.block %d (height %d):", b, b+1)
		if blk.pre != nil {
			l += fmt.Sprintf(" action=%s(operator %d, units %d)", blk.pre.kind, blk.pre.op, blk.pre.units)
		}
		for _, t := range blk.txs {
			l += " tx{" + dvShowTx(t) + "}"
		}
		l += " then EndBlock, Commit, BeginBlock +" + blk.step.String()
		hist = append(hist, l)
		if rs[b] {
			hist = append(hist, fmt.Sprintf("detvs.restart after the commit of block %d (instance B only)", b))
		}
	}
	return hist
}

// dvCompare: byte comparison of a restarted run with the reference.
func dvCompare(env *Env, ref, t *dvTrace, name string, head []string, blocks []dvBlock) bool {
	env.Eval("C08.restart")
	i := firstDiffLine(ref.lines, t.lines)
	if i < 0 {
		env.Outcome("valset-restart-schedule:" + name + "=identical")
		return true
	}
	a, bb := "<missing>", "<missing>"
	if i < len(ref.lines) {
		a = ref.lines[i]
	}
	if i < len(t.lines) {
		bb = t.lines[i]
	}
	// class: was a validator removed before the divergence, and after which restart is it
	phase := "no-removal"
	for k := 0; k <= i && k < len(ref.removal); k++ {
		if ref.removal[k] {
			phase = "after-removal"
		}
	}
	last := -1
	for _, r := range t.restarts {
		if r < i {
			last = r
		}
	}
	what := "apphash"
	switch {
	case a == "<missing>" || bb == "<missing>":
		what = "length"
	case strings.HasPrefix(a, "HALT") || strings.HasPrefix(bb, "HALT"):
		what = "halt"
	case a[strings.Index(a, " tx=["):] != bb[strings.Index(bb, " tx=["):]:
		what = "txresult"
	case a[strings.Index(a, " vu="):] != bb[strings.Index(bb, " vu="):]:
		what = "updates"
	}
	if last < 0 {
		phase = "before-any-restart"
	}
	sig := "nondeterminism:restart:valset:" + phase + ":" + what
	extra := ""
	if i < len(ref.store) && i < len(t.store) {
		if ref.store[i] != t.store[i] {
			extra += fmt.Sprintf("; oracle store after that block's EndBlock: reference %q, restarted %q", tailStr(ref.store[i], 300), tailStr(t.store[i], 300))
		}
		if ref.mem[i] != t.mem[i] {
			extra += fmt.Sprintf("; in-memory validator map: reference %q, restarted %q", tailStr(ref.mem[i], 200), tailStr(t.mem[i], 200))
		}
	}
	env.Violate("C08.restart", sig, fmt.Sprintf("schedule %s (restarts after the commits of blocks %v): the instance restarted after block %d differs from the instance that kept running at block index %d: ref=%q restarted=%q%s",
		name, t.restarts, last, i, tailStr(a, 300), tailStr(bb, 300), extra), dvHistory(head, blocks, t.restarts, i))
	return false
}

// dvSchedules derives the restart placements from the reference trace.
func dvSchedules(ref *dvTrace, nb, every int, phase int) (names []string, sets []map[int]bool) {
	add := func(n string, bs ...int) {
		m := map[int]bool{}
		for _, b := range bs {
			if b >= 0 {
				m[b] = true
			}
		}
		if len(m) == 0 {
			return
		}
		names = append(names, n)
		sets = append(sets, m)
	}
	ok := func(b int) bool { return b >= 1 && b < nb-2 && b < len(ref.safe) && ref.safe[b] }
	removalAt := -1
	for b, r := range ref.removal {
		if r && ok(b) {
			removalAt = b
			break
		}
	}
	var all []int
	for b := 1; b < nb-2; b++ {
		if ok(b) && (b+phase)%every == 0 {
			all = append(all, b)
		}
	}
	if removalAt >= 0 {
		before, later := -1, -1
		for b := removalAt - 1; b >= 1; b-- {
			if ok(b) {
				before = b
				break
			}
		}
		for b := removalAt + 2; b < nb-2; b++ {
			if ok(b) {
				later = b
				break
			}
		}
		add("right-after-removal", removalAt)
		add("before-removal", before)
		add("later-after-removal", later)
		add("before-and-after-removal", before, removalAt, later)
	}
	add(fmt.Sprintf("every-%d", every), all...)
	return
}

func dvSpecString(s orcSpec) string {
	return fmt.Sprintf("powers=%v maxNonce=%d threshold=%d/%d feeders=%+v", s.Powers, s.MaxNonce, s.ThA, s.ThB, s.Feeders)
}

// dvDirectedScript: three validators of power 10, one deterministic source, rounds based at 2, 9,
// 16, 23 (interval 7, window 3). Operator 2 opts out in block 2; the 70 s step after block 8 ends the
// minute epoch in BeginBlock(9) and x/dogfood returns power 0 for it at EndBlock(9).
//
//	round 9  : block 10 v0 and the departed v2 report 2, block 11 v1 reports 2 — 20 of the NEW total 20
//	           (it would not be a super-majority of the old total 30); v2 must not count
//	round 16 : block 17 v0 and v2 report 3, nobody else — 10 of 20, the round must fail (with v2's
//	           former power it would be 20 of 20)
//	round 23 : block 24 v0 and v1 report 4 — final
func dvDirectedScript() (orcSpec, []dvBlock) {
	spec := vsBaseSpec([]int64{10, 10, 10})
	mk := func(v int, based uint64, det, price string) orcTx {
		// the genesis time as the price timestamp: never in the future of any block, identical bytes in every run
		return orcTx{Msgs: []orcMsg{{Creator: v, Feeder: 1, Based: based, Nonce: 1, Srcs: []orcSource{{ID: 1, Prices: []orcPrice{{Price: price, Dec: 0, Ts: time.Date(2024, 1, 1, 0, 0, 0, 0, time.UTC).Unix(), DetID: det}}}}}}}
	}
	var blocks []dvBlock
	for h := 1; h <= 27; h++ {
		blk := dvBlock{step: 2 * time.Second}
		switch h {
		case 2:
			blk.pre = &vsAction{kind: "optout", op: 2}
		case 3:
			blk.txs = []orcTx{mk(0, 2, "9", "1"), mk(1, 2, "9", "1"), mk(2, 2, "9", "1")}
		case 8:
			blk.step = 70 * time.Second
		case 10:
			blk.txs = []orcTx{mk(0, 9, "9", "2"), mk(2, 9, "9", "2")}
		case 11:
			blk.txs = []orcTx{mk(1, 9, "9", "2")}
		case 17:
			blk.txs = []orcTx{mk(0, 16, "9", "3"), mk(2, 16, "9", "3")}
		case 24:
			blk.txs = []orcTx{mk(0, 23, "9", "4"), mk(1, 23, "9", "4")}
		}
		blocks = append(blocks, blk)
	}
	return spec, blocks
}

func dvGenSpec(rng *RNG) orcSpec {
	s := genOrcSpec(rng, true)
	// at least three validators, so that one can leave while two remain; power patterns around the
	// super-majority boundary of the set WITHOUT the smallest / the largest member
	if len(s.Powers) < 3 {
		switch rng.Intn(4) {
		case 0:
			s.Powers = []int64{10, 10, 10}
		case 1:
			s.Powers = []int64{2, 1, 1, 1}
		case 2:
			s.Powers = []int64{int64(3 + rng.Intn(20)), int64(1 + rng.Intn(20)), int64(1 + rng.Intn(20))}
		default:
			s.Powers = []int64{4, 2, 1, 2, 1}
		}
	}
	s.ThA, s.ThB = 2, 3
	return s
}

func domDeterminismValset(env *Env) error {
	env.Report.Domain = "determinism_valset"
	seed := env.Report.Seed
	n := env.Int("histories", 3)
	nb := env.Int("blocks", 36)
	every := env.Int("every", 5)

	if env.Int("directed", 1) == 1 {
		spec, blocks := dvDirectedScript()
		dseed := uint64(80806)
		head := []string{"detvs.reset directed seed=" + fmt.Sprint(dseed) + " " + dvSpecString(spec),
			"# one script, two instances of the real application: A never restarts, B restarts where stated; per block the app hash, DeliverTx results and EndBlock updates must be identical"}
		ref := dvRun(env, dseed, spec, &blocks, len(blocks), nil, nil)
		env.Report.Histories++
		removedAt := -1
		for b, r := range ref.removal {
			if r {
				removedAt = b
			}
		}
		env.Outcome(fmt.Sprintf("directed-valset:removal-at-block-index=%d", removedAt))
		if ref.halt != "" {
			env.Violate("C08.halt", "halt:"+sigOfHalt(ref.halt), "the directed validator-removal script halted block processing: "+ref.halt, dvHistory(head, blocks, nil, len(blocks)))
		} else if removedAt < 0 {
			env.Note("directed-valset-no-removal")
		} else {
			names, sets := dvSchedules(ref, len(blocks), 4, 0)
			for i, set := range sets {
				t := dvRun(env, dseed, spec, &blocks, len(blocks), nil, set)
				env.Report.Histories++
				dvCompare(env, ref, t, names[i], head, blocks)
			}
			// the scenario is only worth something if the departed validator really submitted after it left
			env.Outcome(fmt.Sprintf("directed-valset:departed-submissions=%d", ref.departed))
		}
	}

	rng := NewRNG(seed*2654435761 + 808)
	for hi := 0; hi < n; hi++ {
		spec := dvGenSpec(rng)
		hseed := seed*7000 + uint64(hi)
		genRng := NewRNG(hseed + 31)
		optOutAt := 1 + genRng.Intn(4)
		epochEndAt := optOutAt + 1 + genRng.Intn(6)
		sent := map[string]bool{}
		gen := func(d *orcDriver, b int) dvBlock {
			d.rng = genRng
			h := uint64(d.c.Header.Height)
			blk := dvBlock{step: time.Duration(1+genRng.Intn(4)) * time.Second}
			// validator-set script: one early removal for certain, then a random mix of power changes,
			// removals and re-additions
			if b == optOutAt {
				var in []int
				for i := range d.spec.Powers {
					if _, ok := d.powers[i]; ok && !d.leaving[i] {
						in = append(in, i)
					}
				}
				sort.Ints(in)
				if len(in) >= 3 {
					op := in[genRng.Intn(len(in))]
					d.leaving[op] = true
					blk.pre = &vsAction{kind: "optout", op: op}
				}
			} else if b > optOutAt && genRng.Chance(1, 6) {
				if act, ok := d.vsPick(); ok {
					a := act
					blk.pre = &a
				}
			}
			if b == epochEndAt || genRng.Chance(1, 7) {
				blk.step = time.Duration(56+genRng.Intn(10)) * time.Second
			}
			var fis []int
			open := map[int]uint64{}
			for fi := range d.spec.Feeders {
				if bb := d.spec.openBase(fi, h); bb > 0 {
					open[fi] = bb
					fis = append(fis, fi)
					d.roundLog(fi, bb)
				}
			}
			sort.Ints(fis)
			var vals []int
			for v := range d.powers {
				vals = append(vals, v)
			}
			sort.Ints(vals)
			for _, v := range d.departedList() {
				if genRng.Chance(2, 3) {
					vals = append(vals, v)
				}
			}
			for i := len(vals) - 1; i > 0; i-- {
				j := genRng.Intn(i + 1)
				vals[i], vals[j] = vals[j], vals[i]
			}
			for _, fi := range fis {
				for _, v := range vals {
					k := fmt.Sprintf("%d/%d/%d", v, fi, open[fi])
					if sent[k] || !genRng.Chance(1, 2) {
						continue
					}
					sent[k] = true // at most one message per validator, feeder and round (F-14a needs two)
					t := orcTx{Msgs: []orcMsg{d.honestMsg(v, fi, open[fi])}}
					if genRng.Chance(1, 10) {
						d.mutate(&t.Msgs[0], &t)
					}
					blk.txs = append(blk.txs, t)
				}
			}
			return blk
		}
		var blocks []dvBlock
		head := []string{fmt.Sprintf("detvs.reset seed=%d history=%d chain-seed=%d blocks=%d %s", seed, hi, hseed, nb, dvSpecString(spec)),
			"# one recorded script, two instances of the real application: A never restarts, B restarts where stated; per block the app hash, DeliverTx results and EndBlock updates must be identical (replay: exoharness determinism_valset seed=" + fmt.Sprint(seed) + ")"}
		ref := dvRun(env, hseed, spec, &blocks, nb, gen, nil)
		env.Report.Histories++
		if ref.halt != "" {
			env.Violate("C08.halt", "halt:"+sigOfHalt(ref.halt), "the validator-set sequence halted block processing: "+ref.halt, dvHistory(head, blocks, nil, len(blocks)))
			continue
		}
		nRem, nChg := 0, 0
		for b := range ref.nUpd {
			if ref.removal[b] {
				nRem++
			}
			if ref.nUpd[b] > 0 {
				nChg++
			}
		}
		env.Outcome(fmt.Sprintf("valset-history:removal-applied=%v", nRem > 0))
		env.Outcome(fmt.Sprintf("valset-history:departed-submitted=%v", ref.departed > 0))
		env.Report.Outcomes["valset.removals"] += nRem
		env.Report.Outcomes["valset.changes"] += nChg
		env.Report.Outcomes["valset.tx.code0"] += ref.okTx
		env.Report.Outcomes["valset.departed-submissions"] += ref.departed
		names, sets := dvSchedules(ref, nb, every, int(hseed%uint64(every)))
		nRestarts := 0
		for i, set := range sets {
			t := dvRun(env, hseed, spec, &blocks, nb, nil, set)
			env.Report.Histories++
			nRestarts += len(t.restarts)
			dvCompare(env, ref, t, names[i], head, blocks)
		}
		env.Report.Outcomes["valset.restarts"] += nRestarts
		if nRem > 0 && nRestarts > 0 {
			env.DistinctKey(fmt.Sprintf("dv%d-v%d-f%d-rem%d-chg%d-ok%d-r%d", hseed, len(spec.Powers), len(spec.Feeders), nRem, nChg, ref.okTx, nRestarts))
		}
		if hi == 0 && len(ref.lines) > 2 {
			env.Sample(ref.lines[len(ref.lines)/2])
		}
	}
	return nil
}
