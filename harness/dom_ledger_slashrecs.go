package main

// C04, "from each pending undelegation that was started at or after the infraction height … and
// undelegations started before the infraction are untouched": the cut-off is a relation between the
// infraction height and the start heights of ALL the operator's pending records, which the code decides
// inside a store iteration (x/delegation/keeper/un_delegation_state.go: IterateUndelegationsByOperator
// walks the keys `operator/0x<start height>/0x<nonce>/<hash>` in byte order and skips the records below
// the height filter). A slash whose infraction height is unrelated to the records (h - small random) only
// rarely separates two records of one operator, so a slip in that loop (leaving the loop at the first
// record below the filter, `<` for `<=`, a filter on the wrong key field) survives. This file adds
//
//   - infractionAmongRecords: a boundary-biased infraction height for a slash of `op` — preferably a
//     height that SEPARATES two of its pending records A, B with A before B in store-key order and
//     A.start < B.start (infraction = B.start, the equality case, or A.start+1), otherwise exactly /
//     one around the start height of one of its records;
//   - slashTarget: the operator of a random slash is, every other time, one that has pending records
//     (most distinct start heights first);
//   - scenarioSlashBetweenRecords: a scripted sub-scenario (once per non-huge history, with chance 1/25
//     per step): deposit, delegate to a validator, undelegate, blocks, undelegate again, blocks, then a
//     slash of that validator aimed at 30..90 % of its value with an infraction height chosen by
//     infractionAmongRecords and a fresh slash id.
//
// Everything is replayed by the Lean model like any other op (`ledger.slash <op> <infraction> <p>`:
// Model/Ledger.lean slashRecords visits every record of the operator whatever the key order), and the
// existing C04 monitors (undelegation-cut, frame-record, execution-info-undelegation) judge the result.

import (
	"sort"
	"strings"

	sdk "github.com/cosmos/cosmos-sdk/types"
	stakingtypes "github.com/cosmos/cosmos-sdk/x/staking/types"

	assetstypes "github.com/ExocoreNetwork/exocore/x/assets/types"
	operatorkeeper "github.com/ExocoreNetwork/exocore/x/operator/keeper"
)

// recordsOf returns the pending records of operator `op` in the byte order of their store keys (the
// order in which IterateUndelegationsByOperator visits them)
func recordsOf(prev *ledgerSnap, op string) []lsRec {
	var out []lsRec
	for _, k := range sortedKeys(prev.recs) {
		if strings.HasPrefix(k, op+"/") {
			out = append(out, prev.recs[k])
		}
	}
	return out
}

// infractionAmongRecords: see the file comment. `force` = always choose (scripted scenario); otherwise
// every other slash of an operator that has pending records.
func (w *ledgerWorld) infractionAmongRecords(prev *ledgerSnap, op sdk.AccAddress, h int64, force bool) (int64, bool) {
	recs := recordsOf(prev, op.String())
	if len(recs) == 0 {
		return 0, false
	}
	r := w.rng
	if !force && !r.Chance(1, 2) {
		return 0, false
	}
	// separating heights: A before B in key order, A.start < B.start < current height
	var sep []int64
	for i := range recs {
		for j := i + 1; j < len(recs); j++ {
			if a, b := int64(recs[i].block), int64(recs[j].block); a < b && b < h {
				sep = append(sep, b, a+1)
			}
		}
	}
	if len(sep) > 0 {
		w.env.Outcome("slash.infraction=separates-records")
		return sep[r.Intn(len(sep))], true
	}
	x := int64(recs[r.Intn(len(recs))].block) + int64(r.Intn(3)-1)
	if x < 0 {
		x = 0
	}
	if x > h {
		x = h
	}
	w.env.Outcome("slash.infraction=at-record")
	return x, true
}

// slashTarget: every other random slash aims at an operator that has pending records, the one whose
// records start at the most distinct heights first (ties: store order of the operators)
func (w *ledgerWorld) slashTarget(prev *ledgerSnap, op sdk.AccAddress) sdk.AccAddress {
	if len(prev.recs) == 0 || !w.rng.Chance(1, 2) {
		return op
	}
	heights := map[string]map[uint64]bool{}
	for _, rc := range prev.recs {
		if heights[rc.op] == nil {
			heights[rc.op] = map[uint64]bool{}
		}
		heights[rc.op][rc.block] = true
	}
	ops := make([]string, 0, len(heights))
	for o := range heights {
		ops = append(ops, o)
	}
	sort.Slice(ops, func(i, j int) bool {
		if len(heights[ops[i]]) != len(heights[ops[j]]) {
			return len(heights[ops[i]]) > len(heights[ops[j]])
		}
		return ops[i] < ops[j]
	})
	for _, o := range w.ops {
		if o.String() == ops[0] {
			w.env.Outcome("slash.target=operator-with-records")
			return o
		}
	}
	return op
}

// freshInfraction returns an infraction type whose dogfood slash id (type, infraction height) was not
// yet presented for `op` (a presented id is a replay: no effect by C04's last clause)
func (w *ledgerWorld) freshInfraction(op sdk.AccAddress, infraction int64, infr stakingtypes.Infraction) stakingtypes.Infraction {
	c := w.c
	for _, t := range []stakingtypes.Infraction{infr, 3 - infr} {
		if _, err := c.App.OperatorKeeper.GetOperatorSlashInfo(c.Ctx, c.AVSAddr, op.String(), operatorkeeper.GetSlashIDForDogfood(t, infraction)); err != nil {
			return t
		}
	}
	return infr
}

// scenarioSlashBetweenRecords scripts the sub-scenario of the file comment (kinds as in step's switch:
// 0 deposit, 2 delegate, 3 undelegate, 8 blocks, 7 slash; amt 1 of a slash = infraction among the records)
func (w *ledgerWorld) scenarioSlashBetweenRecords(prev *ledgerSnap) []forcedOp {
	r, c := w.rng, w.c
	// a validator that can be slashed: without a native-token pool unless the native token is registered (F-04c)
	var cands []sdk.AccAddress
	for _, o := range w.ops[:len(c.Operators)] {
		if _, native := prev.pools[o.String()+"/"+assetstypes.ExocoreAssetID]; !native || w.nativeRegistered {
			cands = append(cands, o)
		}
	}
	if len(cands) == 0 {
		return nil
	}
	vo := cands[r.Intn(len(cands))]
	fs, fai := w.stakers[r.Intn(len(w.stakers))], r.Intn(len(w.assets))
	w.env.Outcome("scenario.slash-between-records")
	return []forcedOp{
		{0, fs, fai, vo, int64(5000 + r.Intn(100000))},
		{2, fs, fai, vo, int64(3000 + r.Intn(2000))},
		{3, fs, fai, vo, int64(100 + r.Intn(900))},
		{8, fs, fai, vo, 0},
		{3, fs, fai, vo, int64(100 + r.Intn(900))},
		{8, fs, fai, vo, 0},
		{7, fs, fai, vo, 1},
	}
}
