package main

// C18 — boundary states of the genesis round trip.
//
// The random histories of dom_genesis_run.go rarely hit the states in which a genesis check holds with EQUALITY or a
// collection is empty / has one element. This file adds
//   * world options (a second LST nobody holds at genesis, non-default x/exomint and x/feedistribution params),
//   * further history steps (operators registered during the history — with an earnings address of their own, without
//     any stake —, opting into the second AVS and STAYING opted in, an operator undelegating its own stake),
//   * directed boundary scenarios B0..B11 (see genBoundary) and B12..B14 (dom_genesis_emptied.go: pools everybody has left,
//     undelegations completed), each exported / validated / re-imported like every other state,
//   * the operator-module and params views fed to the Lean model (`gen.o*`, `gen.mp`, `gen.dp` ops): the driver must print the
//     verdict of the real x/operator GenesisState.Validate on the exported key records / USD values and the re-imported
//     x/exomint / x/feedistribution params.

import (
	"encoding/json"
	"fmt"
	"sort"
	"strings"
	"time"

	sdkmath "cosmossdk.io/math"
	sdk "github.com/cosmos/cosmos-sdk/types"
	stakingtypes "github.com/cosmos/cosmos-sdk/x/staking/types"
	"github.com/ethereum/go-ethereum/common"

	assetstypes "github.com/ExocoreNetwork/exocore/x/assets/types"
	delegationtypes "github.com/ExocoreNetwork/exocore/x/delegation/types"
	epochstypes "github.com/ExocoreNetwork/exocore/x/epochs/types"
	exominttypes "github.com/ExocoreNetwork/exocore/x/exomint/types"
	distributiontypes "github.com/ExocoreNetwork/exocore/x/feedistribution/types"
	operatorkeeper "github.com/ExocoreNetwork/exocore/x/operator/keeper"
	operatortypes "github.com/ExocoreNetwork/exocore/x/operator/types"
)

// lst2AddrHex is a second LST of the first client chain: registered at genesis with StakingTotalAmount 0 and an oracle
// price of 1, held by nobody. Everything deposited of it during a history can end up with ONE operator.
const lst2AddrHex = "0xb0b0b0b0b0b0b0b0b0b0b0b0b0b0b0b0b0b0b0b0"

// genOpts: options of the next world (set by the caller, consumed by newGenWorldCfg)
type genOpts struct {
	lst2        bool // register lst2AddrHex as a second LST
	modParams   bool // x/exomint and x/feedistribution start with non-default params
	equalPowers bool // the three genesis validators have the SAME stake (100 = the minimum self delegation)
}

var genNextOpts genOpts

var genEpochIDs = []string{epochstypes.MinuteEpochID, epochstypes.HourEpochID, epochstypes.DayEpochID, epochstypes.WeekEpochID}

// genMutateModParams gives x/exomint and x/feedistribution params that differ from DefaultParams() in every field the
// module lets a chain choose (reward, epoch identifiers, community tax): an exporter that forgets the params, or writes
// the defaults, is then visible in the second export and in the store dump.
func genMutateModParams(seed uint64) func(c *Chain, gs map[string]json.RawMessage) {
	return func(c *Chain, gs map[string]json.RawMessage) {
		cdc := c.App.AppCodec()
		r := NewRNG(seed ^ 0x6d6f64706172616d)
		mp := exominttypes.DefaultParams()
		mp.EpochReward = sdkmath.NewInt([]int64{1, 19, 21, 1000, 123456789}[r.Intn(5)])
		mp.EpochIdentifier = []string{epochstypes.MinuteEpochID, epochstypes.HourEpochID, epochstypes.WeekEpochID}[r.Intn(3)] // default: day
		gs[exominttypes.ModuleName] = cdc.MustMarshalJSON(&exominttypes.GenesisState{Params: mp})
		dp := distributiontypes.DefaultParams()
		dp.EpochIdentifier = []string{epochstypes.HourEpochID, epochstypes.DayEpochID, epochstypes.WeekEpochID}[r.Intn(3)]       // default: minute
		dp.CommunityTax = []sdk.Dec{sdk.ZeroDec(), sdk.NewDecWithPrec(1, 18), sdk.NewDecWithPrec(5, 1), sdk.OneDec()}[r.Intn(4)] // default: 0.03
		gs[distributiontypes.ModuleName] = cdc.MustMarshalJSON(distributiontypes.NewGenesisState(dp))
	}
}

// validateModuleSafe: a panic inside a module's GenesisState.Validate is a failed validation of the exported document
// (a node would crash in `validate-genesis` / InitChain), not a crash of the harness.
func validateModuleSafe(c *Chain, name string, raw json.RawMessage) (err error) {
	defer func() {
		if r := recover(); r != nil {
			s := fmt.Sprint(r)
			if len(s) > 300 {
				s = s[:300]
			}
			err = fmt.Errorf("panic: %s", strings.ReplaceAll(s, "\n", " "))
		}
	}()
	return validateModule(c, name, raw)
}

// ---- further history steps

// registerOperator registers a new operator through the operator msg server (ValidateBasic first, as DeliverTx does).
// otherEarnings: the earnings address is an account of its own, not the operator's.
func (w *genWorld) registerOperator(otherEarnings bool) error {
	c := w.c
	w.nextOp++
	a := NewActor(c.Cfg.Seed, "gen-newop", w.nextOp)
	earn := a.Acc
	if otherEarnings {
		earn = NewActor(c.Cfg.Seed, "gen-earn", w.nextOp).Acc
	}
	w.note("msg RegisterOperator from=%s earnings=%s", a.Acc, earn)
	m := &operatortypes.RegisterOperatorReq{FromAddress: a.Acc.String(), Info: &operatortypes.OperatorInfo{
		EarningsAddr: earn.String(), ApproveAddr: a.Acc.String(), OperatorMetaInfo: fmt.Sprintf("newop%d", w.nextOp),
		Commission: stakingtypes.NewCommission(sdk.NewDecWithPrec(1, 1), sdk.NewDecWithPrec(5, 1), sdk.NewDecWithPrec(1, 2))}}
	if err := m.ValidateBasic(); err != nil {
		return err
	}
	srv := operatorkeeper.NewMsgServerImpl(c.App.OperatorKeeper)
	err := c.CachedDo(func(ctx sdk.Context) error {
		_, e := srv.RegisterOperator(sdk.WrapSDKContext(ctx), m)
		return e
	})
	if err == nil {
		c.Operators = append(c.Operators, a)
	}
	return err
}

// optInStay opts operator oi into the second AVS and leaves it opted in (the (AVS, operator) USD value entry written by
// InitOperatorUSDValue — three zeros until the AVS's next epoch end — is then part of the exported state).
func (w *genWorld) optInStay(oi int) error {
	c := w.c
	if err := w.ensureAVS2(); err != nil {
		return err
	}
	w.note("msg OptIntoAVS operator=%d avs=%s (stays opted in)", oi, w.avs2)
	srv := operatorkeeper.NewMsgServerImpl(c.App.OperatorKeeper)
	m := &operatortypes.OptIntoAVSReq{FromAddress: c.Operators[oi].Acc.String(), AvsAddress: w.avs2}
	if err := m.ValidateBasic(); err != nil {
		return err
	}
	err := c.CachedDo(func(ctx sdk.Context) error {
		_, e := srv.OptIntoAVS(sdk.WrapSDKContext(ctx), m)
		return e
	})
	if err == nil {
		w.inAVS2[oi] = true
	}
	return err
}

// optOutAVS2 opts operator oi out of the second AVS (a later block than the opt-in, or the same one).
func (w *genWorld) optOutAVS2(oi int) error {
	c := w.c
	w.note("opt-out operator=%d avs=%s", oi, w.avs2)
	err := c.CachedDo(func(ctx sdk.Context) error { return c.App.OperatorKeeper.OptOut(ctx, c.Operators[oi].Acc, w.avs2) })
	if err == nil {
		w.inAVS2[oi] = false
	}
	return err
}

// selfUndelegate: genesis operator oi undelegates `amt` of the stake it delegated to itself at genesis (staker = the
// operator's own client-chain address). With amt = its whole stake the operator keeps its consensus key and has no stake.
func (w *genWorld) selfUndelegate(oi int, amt int64) error {
	c := w.c
	w.note("self-undelegate operator=%d amount=%d", oi, amt)
	w.nonce++
	p := &delegationtypes.DelegationOrUndelegationParams{
		ClientChainID: c.LzID, Action: assetstypes.UndelegateFrom, AssetsAddress: common.HexToAddress(c.Cfg.Assets[0].Addr).Bytes(),
		OperatorAddress: c.Operators[oi].Acc, StakerAddress: c.Operators[oi].Eth.Bytes(), OpAmount: sdkmath.NewInt(amt),
		LzNonce: w.nonce, TxHash: common.BytesToHash(detBytes(c.Cfg.Seed, "txhash", int(w.nonce))),
	}
	return c.CachedDo(func(ctx sdk.Context) error { return c.App.DelegationKeeper.UndelegateFrom(ctx, p) })
}

// onAsset runs f with asset index ai as the asset of deposit / withdraw / delegate.
func (w *genWorld) onAsset(ai int, f func() error) error {
	old := w.asset
	w.asset = ai
	defer func() { w.asset = old }()
	return f()
}

// ---- views fed to the Lean model

// operatorView: what x/operator's GenesisState.Validate looks at besides the key records of coreView — the registered
// operators, the (AVS, operator) USD values, the AVS USD values and the AVSs of the opted states; Dec as raw integers.
type operatorView struct {
	ops   []string // operator earnings
	keys  []string // operator chainID consAddrHex   (one line per ChainDetails of the exported records, export order)
	opts  []string // operator avs inHeight outHeight
	usd   []string // avs operator self total active
	avs   []string // avs amount
	valid string
}

func viewOperator(c *Chain, ctx sdk.Context) (v operatorView) {
	k := c.App.OperatorKeeper
	for _, o := range k.AllOperators(ctx) {
		e := o.OperatorInfo.EarningsAddr
		if e == "" {
			e = "-"
		}
		v.ops = append(v.ops, o.OperatorAddress+" "+e)
	}
	recs, _ := k.GetAllOperatorConsKeyRecords(ctx)
	for _, r := range recs {
		for _, ch := range r.Chains {
			v.keys = append(v.keys, fmt.Sprintf("%s %s %s", r.OperatorAddress, ch.ChainID, consHex(ch.ConsensusKey)))
		}
	}
	opts, _ := k.GetAllOptedInfo(ctx)
	for _, o := range opts {
		p := strings.Split(o.Key, "/")
		if len(p) != 2 {
			p = []string{o.Key, "?"}
		}
		v.opts = append(v.opts, fmt.Sprintf("%s %s %d %d", p[0], p[1], o.OptInfo.OptedInHeight, o.OptInfo.OptedOutHeight))
	}
	usd, _ := k.GetAllOperatorUSDValues(ctx)
	for _, u := range usd {
		p := strings.Split(u.Key, "/")
		if len(p) != 2 {
			p = []string{u.Key, "?"}
		}
		v.usd = append(v.usd, fmt.Sprintf("%s %s %s %s %s", p[0], p[1], u.OptedUSDValue.SelfUSDValue.BigInt(), u.OptedUSDValue.TotalUSDValue.BigInt(), u.OptedUSDValue.ActiveUSDValue.BigInt()))
	}
	avs, _ := k.GetAllAVSUSDValues(ctx)
	for _, a := range avs {
		v.avs = append(v.avs, fmt.Sprintf("%s %s", a.AVSAddr, a.Value.Amount.BigInt()))
	}
	return
}

func (w *genWorld) emitOperator(v operatorView) {
	for _, l := range v.ops {
		w.op("gen.oo "+l, "ok")
	}
	for _, l := range v.keys {
		w.op("gen.ok "+l, "ok")
	}
	for _, l := range v.opts {
		w.op("gen.os "+l, "ok")
	}
	for _, l := range v.usd {
		w.op("gen.ou "+l, "ok")
	}
	for _, l := range v.avs {
		w.op("gen.oa "+l, "ok")
	}
}

// paramsView: the x/exomint and x/feedistribution params and the epoch identifiers x/epochs knows
type paramsView struct {
	mint   string // denom reward epochID
	distr  string // epochID communityTax(raw)
	epochs []string
}

func viewParams(c *Chain, ctx sdk.Context) (v paramsView) {
	mp := c.App.ExomintKeeper.GetParams(ctx)
	v.mint = fmt.Sprintf("%s %s %s", mp.MintDenom, mp.EpochReward, mp.EpochIdentifier)
	dp := c.App.DistrKeeper.GetParams(ctx)
	v.distr = fmt.Sprintf("%s %s", dp.EpochIdentifier, dp.CommunityTax.BigInt())
	for _, e := range c.App.EpochsKeeper.AllEpochInfos(ctx) {
		v.epochs = append(v.epochs, e.Identifier)
	}
	sort.Strings(v.epochs)
	return
}

func (v paramsView) obs() string {
	return fmt.Sprintf("mint=%s distr=%s", strings.ReplaceAll(v.mint, " ", ":"), strings.ReplaceAll(v.distr, " ", ":"))
}

func (w *genWorld) emitParams(v paramsView) {
	w.op("gen.ep "+strings.Join(v.epochs, " "), "ok")
	w.op("gen.mp "+v.mint, "ok")
	w.op("gen.dp "+v.distr, "ok")
}

// ---- directed boundary scenarios

func (w *genWorld) must(what string, err error) {
	w.env.Outcome("boundary:" + w.directed + ":" + what + ":" + genErrClass(err))
	if err != nil {
		w.note("%s failed: %.120s", what, err.Error())
	}
}

func (w *genWorld) blocks(ds ...time.Duration) {
	for _, d := range ds {
		w.note("next block +%s", d)
		if r := w.c.EndAndBegin(d); r.Halt != "" {
			w.env.Violate("C18.halt", "halt", "block processing panicked: "+r.Halt, w.hist)
			return
		}
	}
}

// genBoundary: states in which the figures a genesis check compares are EQUAL, zero, or a collection is empty / has a
// single element. Every one of them is reached by ordinary messages; each is exported, validated, re-imported and run on.
func genBoundary(env *Env, rng *RNG) {
	hour := time.Hour + time.Second
	world := func(tag string, i uint64, o genOpts) *genWorld {
		genNextOpts = o
		w := newGenWorld(env, rng, env.Report.Seed*1000+920+i)
		w.directed = tag
		w.c.EndAndBegin(time.Minute)
		return w
	}
	// B0: nothing happened since genesis: every queue and index empty, non-default module params
	w := world("B0", 0, genOpts{lst2: true, modParams: true, equalPowers: true})
	w.runOne(0, false, 3)

	// B1: ALL deposits of an asset delegated to ONE operator: operator pool total = StakingTotalAmount of the token
	// (ValidateOperatorAssets compares total + pending with it); two blocks later a part is being undelegated
	// (total + pending = StakingTotalAmount with pending > 0)
	for _, part := range []int64{0, 2000000} {
		w = world("B1", 1, genOpts{lst2: true, modParams: true})
		w.must("deposit", w.onAsset(1, func() error { return w.deposit(0, 5000000) }))
		w.must("delegate-all", w.onAsset(1, func() error { return w.delegate(0, 1, 5000000, false) }))
		if part > 0 {
			w.blocks(time.Second)
			w.must("undelegate-part", w.onAsset(1, func() error { return w.delegate(0, 1, part, true) }))
		}
		w.runOne(0, false, 4)
	}

	// B2: everything undelegated again (operator pool 0 + pending = total), exported while pending; then matured and
	// withdrawn completely: rows with nothing but zeros, StakingTotalAmount 0
	for _, withdrawn := range []bool{false, true} {
		genForceUnbond = 1
		w = world("B2", 2, genOpts{lst2: true})
		genForceUnbond = 0
		w.must("deposit", w.onAsset(1, func() error { return w.deposit(1, 3000000) }))
		w.must("delegate-all", w.onAsset(1, func() error { return w.delegate(1, 2, 3000000, false) }))
		w.blocks(time.Second)
		w.must("undelegate-all", w.onAsset(1, func() error { return w.delegate(1, 2, 3000000, true) }))
		if withdrawn {
			// (an undelegation completes UnbondingExpiration = 10 blocks after it started, once x/dogfood has released it)
			_, left := w.matureAll()
			env.Outcome(fmt.Sprintf("boundary:B2:left=%d", left))
			w.must("withdraw-all", w.onAsset(1, func() error { return w.withdraw(1, 3000000) }))
		}
		w.runOne(0, false, 4)
	}

	// B3: an operator registered during the history, earnings paid to ANOTHER account, no stake at all, opted into the
	// second AVS and still opted in at the export (USD value entry 0/0/0), first in the epoch of the opt-in, then after
	// the AVS's epoch end
	for _, epochs := range []int{0, 1} {
		w = world("B3", 3, genOpts{modParams: true})
		w.must("register", w.registerOperator(true))
		w.must("register-own-earnings", w.registerOperator(false))
		w.must("opt-in", w.optInStay(len(w.c.Operators)-2))
		for i := 0; i < epochs; i++ {
			w.blocks(hour)
		}
		w.runOne(0, false, 4)
	}

	// B4: stakers delegate to an operator that has no stake of its own and is opted into the second AVS: self value 0,
	// total value > 0 after the epoch end; a genesis operator with self stake only opts in too (self = total = active)
	w = world("B4", 4, genOpts{})
	w.must("register", w.registerOperator(true))
	w.must("deposit", w.deposit(0, 9000000))
	w.must("delegate", w.delegate(0, len(w.c.Operators)-1, 4000000, false))
	w.must("opt-in-new", w.optInStay(len(w.c.Operators)-1))
	w.must("opt-in-genesis", w.optInStay(0))
	w.blocks(hour, time.Minute)
	w.runOne(0, false, 4)

	// B5: a single operator in the second AVS: its total USD value EQUALS the AVS's (ValidateOperatorUSDValues compares them)
	w = world("B5", 5, genOpts{})
	w.must("opt-in", w.optInStay(2))
	w.blocks(hour, time.Minute)
	w.runOne(0, false, 4)

	// B6: a validator undelegates ALL its own stake: it keeps its consensus key and has no stake (self value 0 for the
	// chain's own AVS after the epoch end); exported in the same epoch and after the epoch end
	for _, epochs := range []int{0, 1} {
		w = world("B6", 6, genOpts{})
		w.must("self-undelegate-all", w.selfUndelegate(1, w.c.Cfg.Powers[1]*1000000))
		for i := 0; i < epochs; i++ {
			w.blocks(hour)
		}
		w.blocks(time.Minute)
		w.runOne(0, false, 6)
	}

	// B7: same-block events on every entity: every staker deposits both assets, delegates to every operator and undelegates
	// a part in the SAME block; every operator replaces its key in that block; one more key replacement each a block later
	w = world("B7", 7, genOpts{lst2: true, modParams: true})
	for ai := 0; ai < 2; ai++ {
		for si := range w.stakers {
			_ = w.onAsset(ai, func() error { return w.deposit(si, 6000000) })
			for oi := 0; oi < 3; oi++ {
				_ = w.onAsset(ai, func() error { return w.delegate(si, oi, 2000000, false) })
			}
		}
	}
	w.blocks(time.Second)
	nUnd := 0
	for ai := 0; ai < 2; ai++ {
		for si := range w.stakers {
			for oi := 0; oi < 3; oi++ {
				if w.onAsset(ai, func() error { return w.delegate(si, oi, 1+int64(si), true) }) == nil {
					nUnd++
				}
			}
		}
	}
	for oi := 0; oi < 3; oi++ {
		_ = w.replaceKey(oi)
	}
	w.env.Outcome(fmt.Sprintf("boundary:B7:same-block undelegations=%d", nUnd))
	w.blocks(time.Second)
	for oi := 0; oi < 3; oi++ {
		_ = w.replaceKey(oi)
	}
	w.runOne(0, false, 4)

	// B8: opt-in and opt-out of the second AVS by two operators in one block while a third stays opted in
	w = world("B8", 8, genOpts{})
	w.must("opt-in-0", w.optInStay(0))
	w.must("opt-in-1", w.optInStay(1))
	w.must("opt-in-2", w.optInStay(2))
	w.must("opt-out-0", w.optOutAVS2(0))
	w.blocks(time.Second)
	w.must("opt-out-1", w.optOutAVS2(1))
	w.runOne(0, false, 4)

	// B9: an operator falls below the minimum self delegation of the chain's AVS (self 90 < 100: active value 0) while stakers
	// delegate 300 to it: after the epoch end its total (390) exceeds the AVS's USD value (the ACTIVE operators' 101 + 150)
	w = world("B9", 9, genOpts{})
	w.must("self-undelegate", w.selfUndelegate(1, 10000000))
	w.must("deposit", w.deposit(2, 300000000))
	w.must("delegate", w.delegate(2, 1, 300000000, false))
	w.blocks(hour, time.Minute)
	w.runOne(0, false, 4)

	// B10: an operator that is no longer in the validator set (below the minimum self delegation since the last epoch end)
	// replaces its consensus key: x/dogfood deletes the old key's reverse lookup at once, the PrevConsKey record stays
	// until the epoch ends
	w = world("B10", 10, genOpts{})
	w.must("self-undelegate", w.selfUndelegate(1, 50000000))
	w.blocks(hour, time.Minute)
	w.must("replace-key", w.replaceKey(1))
	w.runOne(0, false, 4)

	// B11: an AVS nobody has opted into yet, exported after its first epoch end (an AVS with an EMPTY operator set)
	w = world("B11", 11, genOpts{})
	w.must("register-avs", w.ensureAVS2())
	w.note("AVS %s registered, no operator opts in", w.avs2)
	w.blocks(hour, time.Minute)
	w.runOne(0, false, 4)

	// B12..B14 (dom_genesis_emptied.go): pools everybody has left, with the undelegations completed
	genBoundaryEmptied(env, world)
	genNextOpts = genOpts{}
}

// othersUntouched: some OTHER genesis validator has neither started an opt-out nor undelegated any of its own stake nor is jailed. The
// histories never empty the validator set (a chain without validators has stopped; there is nothing to export).
func (w *genWorld) othersUntouched(g int) bool {
	for h := 0; h < w.c.Cfg.NOperators; h++ {
		if h != g && !w.optOut[h] && w.selfUnd[h] == 0 && !w.jailed[h] {
			return true
		}
	}
	return false
}

// inactiveAboveAVS: the state read before the export holds an (AVS, operator) entry with active value 0 whose total exceeds
// the AVS's USD value.
func (w *genWorld) inactiveAboveAVS() bool {
	avs := map[string]string{}
	for _, l := range w.lastOp.avs {
		f := strings.Fields(l)
		avs[f[0]] = f[1]
	}
	for _, l := range w.lastOp.usd {
		f := strings.Fields(l)
		a, ok := avs[f[0]]
		if !ok {
			continue
		}
		tot, _ := sdkmath.NewIntFromString(f[3])
		av, _ := sdkmath.NewIntFromString(a)
		if f[4] == "0" && tot.GT(av) {
			return true
		}
	}
	return false
}

// obs renders the re-imported operator module as the Lean driver prints it
func (v operatorView) obs() string {
	return fmt.Sprintf("ops=[%s] usd=[%s] avs=[%s]", colon(v.ops), colon(v.usd), colon(v.avs))
}
