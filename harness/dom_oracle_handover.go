package main

// C12 — feeder hand-over: a running feeder is stopped by an accepted MsgUpdateParams and a successor
// feeder of the same token takes over.
//
// The clause: "Every round closes exactly once - with that price, or by carrying the previous price
// forward when its submission window ends or the validator set changes first - so stored round
// numbers advance by exactly one per interval without gaps or repeats". Across a hand-over it says
// that the round ids of the successor continue the ids of the rounds the stopped feeder REALLY opened:
// the aggregator stamps a final price with `StartRoundID + (block-StartBaseBlock)/Interval` of the
// stored feeder (context.go: PrepareRoundEndBlock), the store takes a price only under its own
// NextRoundID (prices.go: AppendPriceTR) and CreatePrice answers a mismatch by carrying the previous
// price forward (GrowRoundID) inside the transaction. A successor whose ids run ahead of (or behind)
// the store therefore never records an agreed price again.
//
// Three sites of the chain count the rounds of a stopped feeder (Params.Validate twice,
// Params.UpdateTokenFeeder once) and one opens them (PrepareRoundEndBlock); they agree only because
// Validate keeps an end block away from a round's base block. What this file adds:
//
//   generator   feeder-end-edge     end block of a running feeder at the boundary residues of its
//                                   schedule: a round's base block (residue 0), base+1, base+MaxNonce-1
//                                   (last window block), base+MaxNonce (first admissible block),
//                                   base+Interval-1, and the heights h (refused: not in the future), h+1
//               feeder-resume-edge  successor of a stopped feeder whose StartRoundID is the true
//                                   continuation (rounds really opened, the harness's own count), one
//                                   more, one less
//               directedHandover    one chain per first choice of the end block's residue: the stop is
//                                   asked for at the preferred residue and falls back to the next ones
//                                   until the chain accepts one; the successor is asked for with the
//                                   true continuation id and falls back to ±1; every validator then
//                                   reports one agreed value in the first block of every window
//   monitor     C12.ids / round-id-misaligned:*   evaluated on the REAL stored params and the REAL
//                                   NextRoundID after every EndBlock (alignMonitor, called by idsMonitor)
//               C12.final / carried-forward-inside-window   a DeliverTx that advanced NextRoundID
//                                   must have recorded the agreed price under the aggregator's id
//                                   (checkFinal; the excuse "misaligned ids" is left to the tokens
//                                   whose GENESIS the generator misaligned on purpose)
//
// The op lines are ordinary `orc.updparams <kind> <payload>` lines: the Lean driver runs the payload
// through Model/OracleParamsUpdate.lean and must reach the same accept/refuse decision.

import (
	"fmt"
	"time"

	oracletypes "github.com/ExocoreNetwork/exocore/x/oracle/types"
)

func init() {
	orcUpdKinds = append(orcUpdKinds, "feeder-end-edge", "feeder-end-edge", "feeder-resume-edge", "feeder-resume-edge")
}

// orcRoundsOpened: the number of rounds feeder f opens over its whole life — one at every block b with
// StartBase <= b < End and (b-StartBase) % Interval == 0 (the harness's own count; 0 = no end block).
func orcRoundsOpened(f orcFeeder) uint64 {
	if f.End == 0 || f.End <= f.StartBase || f.Interval == 0 {
		return 0
	}
	return (f.End-1-f.StartBase)/f.Interval + 1
}

// edgeEnds: end blocks around the round boundaries of f's schedule that lie after block h.
func edgeEnds(f orcFeeder, maxNonce int32, h uint64) []uint64 {
	k := uint64(0)
	if h >= f.StartBase {
		k = (h - f.StartBase) / f.Interval
	}
	var out []uint64
	for j := k; j <= k+2; j++ {
		base := f.StartBase + j*f.Interval
		for _, r := range []uint64{0, 1, uint64(maxNonce) - 1, uint64(maxNonce), f.Interval - 1} {
			if e := base + r; e > h {
				out = append(out, e)
			}
		}
	}
	return out
}

// genUpdEdge: the boundary kinds of genUpd (dom_oracle_paramsupd.go).
func (d *orcDriver) genUpdEdge(kind string) (u orcUpd, ok bool) {
	s := d.spec
	h := uint64(d.c.Header.Height)
	u.kind = kind
	switch kind {
	case "feeder-end-edge":
		var cands []int
		for tok := 1; tok <= len(s.TokenDec); tok++ {
			if i := s.lastFeederOf(uint64(tok)); i >= 0 && s.Feeders[i].StartBase <= h && (s.Feeders[i].End == 0 || s.Feeders[i].End > h) {
				cands = append(cands, i)
			}
		}
		if len(cands) == 0 {
			return u, false
		}
		i := cands[d.rng.Intn(len(cands))]
		f := s.Feeders[i]
		ends := edgeEnds(f, s.MaxNonce, h)
		var end uint64
		switch d.rng.Pick(10, 1, 1) {
		case 0:
			end = ends[d.rng.Intn(len(ends))]
		case 1:
			end = h // not in the future
		default:
			end = h + 1
		}
		u.addFeeder(orcFeeder{Token: f.Token, End: end})
		u.apply = func(s *orcSpec) { s.Feeders[i].End = end }
		r := uint64(0)
		if end >= f.StartBase {
			r = (end - f.StartBase) % f.Interval
		}
		d.env.Outcome(fmt.Sprintf("feeder-end-edge:residue=%s", residueClass(r, f.Interval, s.MaxNonce)))
	case "feeder-resume-edge":
		var cands []int
		for tok := 1; tok <= len(s.TokenDec); tok++ {
			if i := s.lastFeederOf(uint64(tok)); i >= 0 && s.Feeders[i].End > 0 && s.Feeders[i].End <= h {
				cands = append(cands, i)
			}
		}
		if len(cands) == 0 {
			return u, false
		}
		f := s.Feeders[cands[d.rng.Intn(len(cands))]]
		sr := f.StartRound + orcRoundsOpened(f)
		switch d.rng.Pick(3, 3, 1) {
		case 1:
			sr++
		case 2:
			sr--
		}
		nf := orcFeeder{Token: f.Token, Rule: f.Rule, StartRound: sr, StartBase: h + 1 + uint64(d.rng.Intn(3)), Interval: uint64(2*s.MaxNonce) + uint64(d.rng.Intn(3))}
		u.addFeeder(nf)
		u.apply = func(s *orcSpec) { s.Feeders = append(s.Feeders, nf) }
		d.env.Outcome(fmt.Sprintf("feeder-resume-edge:id=true%+d", int64(sr)-int64(f.StartRound+orcRoundsOpened(f))))
	default:
		return u, false
	}
	return u, true
}

func residueClass(r, interval uint64, maxNonce int32) string {
	switch {
	case r == 0:
		return "0(base-block)"
	case r < uint64(maxNonce):
		return "in-window"
	case r == uint64(maxNonce):
		return "maxNonce(first-admissible)"
	case r == interval-1:
		return "interval-1"
	}
	return "outside-window"
}

// misalignedAtGenesis: tokens whose first feeder the spec generator started at a round id other than the
// genesis store's NextRoundID (genOrcSpec: "misaligned genesis") — the chain never judged that pair, the
// id-mismatch path of CreatePrice is what such a genesis asks for. Every other token's ids are either
// aligned at genesis or were forced by the chain itself (Validate / UpdateTokenFeeder).
func misalignedAtGenesis(s orcSpec) map[uint64]bool {
	out := map[uint64]bool{}
	for ti := range s.TokenDec {
		tok := uint64(ti + 1)
		gen := uint64(1)
		if ti < len(s.GenNext) && s.GenNext[ti] > 0 {
			gen = s.GenNext[ti]
		}
		for _, f := range s.Feeders {
			if f.Token == tok {
				if f.StartRound != gen {
					out[tok] = true
				}
				break
			}
		}
	}
	return out
}

// alignMonitor (after EndBlock of block h; token not tainted): the round ids the stored feeders stamp on
// their rounds are the ids the store expects — on the real params and the real NextRoundID:
//
//	a feeder active at h             its current round id rid = StartRoundID + (h-StartBaseBlock)/Interval is the
//	                                 store's NextRoundID (round open) or one less (round closed; always once the
//	                                 window is over)
//	the latest started feeder has    NextRoundID = its StartRoundID + the rounds it really opened
//	stopped, no feeder active
//	a feeder that has not started    its StartRoundID continues its predecessor: the predecessor's StartRoundID +
//	                                 the rounds it opens; with no feeder of the token active, that is NextRoundID
func (d *orcDriver) alignMonitor(tok, h, next uint64) {
	if d.misaligned[tok] {
		return
	}
	p := d.c.App.OracleKeeper.GetParams(d.ctx())
	var fs []*oracletypes.TokenFeeder
	var ids []int
	for id, f := range p.TokenFeeders {
		if id > 0 && f.TokenID == tok && f.Interval > 0 {
			fs = append(fs, f)
			ids = append(ids, id)
		}
	}
	if len(fs) == 0 {
		return
	}
	d.env.Eval("C12.ids")
	opened := func(f *oracletypes.TokenFeeder) uint64 {
		return orcRoundsOpened(orcFeeder{StartBase: f.StartBaseBlock, Interval: f.Interval, End: f.EndBlock})
	}
	maxNonce := uint64(p.MaxNonce)
	anyActive := false
	for i, f := range fs {
		switch {
		case f.StartBaseBlock <= h && (f.EndBlock == 0 || h < f.EndBlock): // active
			anyActive = true
			rid := f.StartRoundID + (h-f.StartBaseBlock)/f.Interval
			left := (h - f.StartBaseBlock) % f.Interval
			if next != rid && next != rid+1 {
				d.alignViolate(tok, "active", fmt.Sprintf("token %d after block %d: feeder %d %v stamps its current round with id %d, the store's NextRoundID is %d — an agreed price of this round cannot be recorded (AppendPriceTR takes only NextRoundID; CreatePrice carries the previous price forward instead)", tok, h, ids[i], f, rid, next))
				return
			}
			if left >= maxNonce && next != rid+1 {
				d.alignViolate(tok, "window-over", fmt.Sprintf("token %d after block %d: the window of round %d of feeder %d is over, NextRoundID is still %d", tok, h, rid, ids[i], next))
				return
			}
		case f.StartBaseBlock > h: // not started: continues its predecessor
			if i == 0 {
				if !anyActive && f.StartRoundID != next {
					d.alignViolate(tok, "first-feeder", fmt.Sprintf("token %d after block %d: its first feeder %d starts at round %d, NextRoundID is %d", tok, h, ids[i], f.StartRoundID, next))
					return
				}
				continue
			}
			prev := fs[i-1]
			if prev.EndBlock == 0 {
				continue // two open-ended feeders of one token: refused by Validate, not this monitor's subject
			}
			want := prev.StartRoundID + opened(prev)
			if f.StartRoundID != want || (!anyActive && prev.EndBlock <= h && f.StartRoundID != next) {
				d.alignViolate(tok, "successor", fmt.Sprintf("token %d after block %d: feeder %d %v succeeds feeder %d %v, which opens %d rounds (ids %d..%d; no round is opened at a block >= EndBlock): the successor must start at round %d, it is configured with %d (NextRoundID %d)", tok, h, ids[i], f, ids[i-1], prev, opened(prev), prev.StartRoundID, want-1, want, f.StartRoundID, next))
				return
			}
		default: // stopped
			if i == len(fs)-1 || fs[i+1].StartBaseBlock > h {
				// the latest started feeder: every round it opened is closed (its end block lies outside the windows)
				if left := (f.EndBlock - f.StartBaseBlock) % f.Interval; left != 0 && left < maxNonce {
					continue // an end block inside a window: refused by Validate, not this monitor's subject
				}
				if want := f.StartRoundID + opened(f); next != want {
					d.alignViolate(tok, "stopped", fmt.Sprintf("token %d after block %d: feeder %d %v has stopped after opening %d rounds from id %d, NextRoundID is %d, expected %d", tok, h, ids[i], f, opened(f), f.StartRoundID, next, want))
					return
				}
			}
		}
	}
}

// alignViolate: one report per token, case and history (the misalignment persists block after block).
func (d *orcDriver) alignViolate(tok uint64, kase, what string) {
	key := fmt.Sprintf("%d/%s", tok, kase)
	if d.alignSeen[key] {
		return
	}
	if d.alignSeen == nil {
		d.alignSeen = map[string]bool{}
	}
	d.alignSeen[key] = true
	d.env.Violate("C12.ids", "round-id-misaligned:"+kase+d.sigTag, what, d.hist)
}

// directedHandover: three equal validators, token 1, feeder 1 (interval 10, start block 1, rounds from id 2,
// MaxNonce 3). The authority wants feeder 1 stopped after its third round and asks, at height 5, for the end
// blocks 21+r with r taken from `residues` in order until the chain accepts one (21 is the base block of the
// round that would come next); once the feeder has stopped it asks for the successor (start block +4, interval 7)
// with the true continuation id, then one more, then one less, until the chain accepts one. In the first block
// of every window of whichever feeder is running all validators report the same value for the same source round.
// Nothing depends on which requests are accepted; the monitors of every other history judge the outcome.
func directedHandover(env *Env, name string, residues []uint64) {
	spec := orcSpec{Powers: []int64{10, 10, 10}, MaxNonce: 3, ThA: 2, ThB: 3, MaxDetID: 5, MaxSize: 100,
		Sources: [][2]bool{{true, true}}, Rules: [][]uint64{{0}, {1}}, TokenDec: []int32{0},
		Feeders: []orcFeeder{{Token: 1, Rule: 2, StartRound: 2, StartBase: 1, Interval: 10}}, GenNext: []uint64{2}, GenPrice: []string{"1"}}
	o := newOrc(env, 121206, spec, nil)
	o.emitSetup()
	d := newOrcDriver(o, NewRNG(1206))
	d.wMon = "C12.weights"
	d.sigTag = ":handover"
	stopAsked, resumed := false, false
	accEnd, accID := "none", "none"
	finalsAfter, reported := 0, 0
	for b := 0; b < 64; b++ {
		h := uint64(o.c.Header.Height)
		s := d.spec
		if h == 5 && !stopAsked {
			stopAsked = true
			for _, r := range residues {
				u := orcUpd{kind: "feeder-end-edge"}
				end := 21 + r
				u.addFeeder(orcFeeder{Token: 1, End: end})
				u.apply = func(s *orcSpec) { s.Feeders[0].End = end }
				if d.updParams(u) == "ok" {
					accEnd = fmt.Sprint(r)
					break
				}
			}
		}
		if last := s.Feeders[s.lastFeederOf(1)]; !resumed && last.End > 0 && h >= last.End+2 {
			truth := last.StartRound + orcRoundsOpened(last)
			for _, delta := range []int64{0, 1, -1} {
				u := orcUpd{kind: "feeder-resume-edge"}
				nf := orcFeeder{Token: 1, Rule: last.Rule, StartRound: uint64(int64(truth) + delta), StartBase: h + 4, Interval: 7}
				u.addFeeder(nf)
				u.apply = func(s *orcSpec) { s.Feeders = append(s.Feeders, nf) }
				if d.updParams(u) == "ok" {
					resumed = true
					accID = fmt.Sprintf("true%+d", delta)
					break
				}
			}
			if !resumed {
				resumed = true // asked once
			}
		}
		// honest reports: first block of a window, all validators, one value, one source round
		open := map[int]uint64{}
		for fi := range d.spec.Feeders {
			if base := d.spec.openBase(fi, h); base > 0 {
				open[fi] = base
				d.roundLog(fi, base)
			}
		}
		for fi := range d.spec.Feeders {
			base, isOpen := open[fi]
			if !isOpen || h != base+1 {
				continue
			}
			before := d.finals
			reported++
			for v := 0; v < 3; v++ {
				n, _ := d.nonceOf(v, uint64(fi+1))
				m := orcMsg{Creator: v, Feeder: uint64(fi + 1), Based: base, Nonce: n + 1, Srcs: []orcSource{{ID: 1, Prices: []orcPrice{{
					Price: fmt.Sprint(2 + reported%2), Dec: 0, Ts: o.c.Header.Time.Unix(), DetID: fmt.Sprint(base)}}}}}
				d.sendTx(orcTx{Msgs: []orcMsg{m}}, open)
			}
			if fi > 0 {
				finalsAfter += d.finals - before
			}
		}
		if _, halted := d.endBlock(); halted {
			env.Violate("C12.halt", "halt", "EndBlock panicked: "+o.halted, o.hist)
			return
		}
		d.afterEndBlock()
		d.idsMonitor(uint64(o.c.Header.Height), nil)
		if !d.commitBegin(2 * time.Second) {
			env.Violate("C12.halt", "halt", "Commit/BeginBlock panicked: "+o.halted, o.hist)
			return
		}
	}
	env.Outcome(fmt.Sprintf("directed-handover:%s:end-residue=%s,successor-id=%s,finals=%d,finals-of-successor=%d", name, accEnd, accID, d.finals, finalsAfter))
	env.Report.Histories++
}
