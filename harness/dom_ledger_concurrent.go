package main

// C03, first sentence, over "all histories containing ANY NUMBER of concurrent undelegations (same or
// different stakers, operators, assets, nonces, blocks)":
//
//	"A request to undelegate any positive amount within the staker's current position is always accepted,
//	 whatever the operator's opt-in, key, jail or slash state, and creates exactly one pending record."
//
// A random history of deposit/delegate/undelegate/… over 4-9 stakers, 1-3 assets and 2-5 operators hardly
// ever has more than three or four records of ONE (staker, asset) in flight (the records of non-validators
// are released after 10 blocks), and the acceptance monitor was only evaluated on the requests the generator
// had aimed at an existing delegation itself. So a refusal that depends on how many OTHER records are
// pending (cosmos-sdk's MaxEntries, a per-block or per-staker quota, "not while a record is on hold") was
// neither reached nor judged. This file adds
//
//   - positionOf / pendingOf: the staker's position in the pool a request names (⌊share·amount/totalShare⌋,
//     what TokensFromShares says) and the number of unreleased records of (staker, asset), from the snapshot
//     of the REAL state before the request;
//   - monitorUndelegate (monitor C03.accept), on EVERY undelegation request, scripted or random:
//     undelegate-rejected-within-position   0 < x <= position and the request was refused
//     accepted-without-one-new-record       accepted, but the record store did not grow by exactly the one
//                                           record keyed (height, nonce, hash, operator) naming this staker
//                                           and asset, or a record that was there before is gone / changed key
//     rejected-request-left-a-record        refused, but the set of records changed
//     and the distribution `undelegate.in-flight=<bucket>` of the number of records already pending for the
//     (staker, asset) when a request within the position was judged;
//   - pileUpTarget: every third random undelegation goes to the (staker, asset) that already has the most
//     records in flight, with a small amount;
//   - scenarioManyConcurrent: a scripted sub-scenario, once per history (every second history for sure,
//     otherwise with chance 1/30 per step): deposit, delegate to one or two operators (validators — their
//     records are held for epochs — or plain ones), then a burst of 8..130 undelegations (boundary-biased:
//     7±1, 2^k±1, 130) with distinct nonces, in one block or with a block end every ~12 requests; no random
//     block ends in between (ledgerWorld.quiet);
//   - ledgerConcurrencyCoverage: a run of >= 4 histories in which no request was judged with at least 7
//     records of its (staker, asset) already in flight is itself a violation (C03.coverage): the clause would
//     silently go unjudged again after a generator change.
//
// Everything is replayed by the Lean model like any other op (`ledger.undelegate …`; Model/Ledger.lean
// `undelegate` never reads the record stores before writing: Props/C03Concurrent.lean).

import (
	"fmt"
	"math/big"
	"sort"
	"strings"

	sdkmath "cosmossdk.io/math"
	sdk "github.com/cosmos/cosmos-sdk/types"

	avstypes "github.com/ExocoreNetwork/exocore/x/avs/types"
	delegationtypes "github.com/ExocoreNetwork/exocore/x/delegation/types"
)

// positionOf: token value of the staker's shares in pool (op, asset); nil when there is no delegation row,
// no pool or no share in the pool (then no request is "within the position")
func positionOf(prev *ledgerSnap, sid, asset, op string) *big.Int {
	d, ok := prev.deleg[sid+"/"+asset+"/"+op]
	if !ok || d.share == nil {
		return nil
	}
	p, ok := prev.pools[op+"/"+asset]
	if !ok || p.totalShare == nil || p.totalShare.Sign() <= 0 {
		return nil
	}
	return new(big.Int).Div(new(big.Int).Mul(d.share, p.amount), p.totalShare)
}

// pendingOf: number of unreleased records naming (staker, asset)
func pendingOf(prev *ledgerSnap, sid, asset string) int {
	n := 0
	for _, rc := range prev.recs {
		if rc.staker == sid && rc.asset == asset {
			n++
		}
	}
	return n
}

func inFlightBucket(n int) string {
	switch {
	case n == 0:
		return "0"
	case n < 4:
		return "1-3"
	case n < 7:
		return "4-6"
	case n < 8:
		return "7"
	case n < 16:
		return "8-15"
	case n < 32:
		return "16-31"
	case n < 64:
		return "32-63"
	default:
		return "64+"
	}
}

// the largest number of records already in flight for the (staker, asset) of a judged request, per run
var ledgerMaxInFlightJudged int

func (w *ledgerWorld) monitorUndelegate(prev, after *ledgerSnap, sid, asset, op string, x sdkmath.Int, pos *big.Int, inFlight int, nonce uint64, hash string, err error) {
	within := pos != nil && x.IsPositive() && x.BigInt().Cmp(pos) <= 0
	if within {
		w.env.Eval("C03.accept")
		w.env.Outcome("undelegate.in-flight=" + inFlightBucket(inFlight))
		if inFlight > ledgerMaxInFlightJudged {
			ledgerMaxInFlightJudged = inFlight
		}
		if err != nil && !ledgerBoundPanic(err) {
			w.env.Violate("C03.accept", "undelegate-rejected-within-position",
				fmt.Sprintf("undelegation of %s within position %s (staker %s asset %s operator %s, %d undelegations of this staker and asset already pending) rejected: %v",
					x, pos, sid, asset, op, inFlight, err), w.hist)
		}
	}
	if after == nil || w.orphans {
		return
	}
	// "… and creates exactly one pending record"; a refused request creates none. Records present before
	// must still be there (an undelegation is not a block end).
	w.env.Eval("C03.accept")
	var added, gone []string
	for k := range after.recs {
		if _, ok := prev.recs[k]; !ok {
			added = append(added, k)
		}
	}
	for k := range prev.recs {
		if _, ok := after.recs[k]; !ok {
			gone = append(gone, k)
		}
	}
	sort.Strings(added)
	sort.Strings(gone)
	if err != nil {
		if len(added)+len(gone) > 0 {
			w.env.Violate("C03.accept", "rejected-request-left-a-record",
				fmt.Sprintf("refused undelegation (%v) changed the record store: added %v, removed %v", err, added, gone), w.hist)
		}
		return
	}
	want := string(delegationtypes.GetUndelegationRecordKey(uint64(prev.height), nonce, hash, op))
	ok := len(added) == 1 && len(gone) == 0 && added[0] == want
	if ok {
		rc := after.recs[want]
		ok = rc.staker == sid && rc.asset == asset && rc.op == op && rc.nonce == nonce && rc.block == uint64(prev.height)
	}
	if !ok {
		w.env.Violate("C03.accept", "accepted-without-one-new-record",
			fmt.Sprintf("accepted undelegation of %s (staker %s asset %s operator %s nonce %d) must create exactly the record %s: added %v, removed %v",
				x, sid, asset, op, nonce, want, added, gone), w.hist)
	}
}

// isCurrentValidator: the operator has a consensus key for the chain's own AVS and that key is in dogfood's
// validator set (the condition under which dogfood's AfterUndelegationStarted places a hold)
func (w *ledgerWorld) isCurrentValidator(op sdk.AccAddress) bool {
	c := w.c
	cid := avstypes.ChainIDWithoutRevision(c.Ctx.ChainID())
	if c.App.OperatorKeeper.IsOperatorRemovingKeyFromChainID(c.Ctx, op, cid) {
		return false
	}
	found, wk, err := c.App.OperatorKeeper.GetOperatorConsKeyForChainID(c.Ctx, op, cid)
	if !found || err != nil || wk == nil {
		return false
	}
	_, isVal := c.App.StakingKeeper.GetExocoreValidator(c.Ctx, wk.ToConsAddr())
	return isVal
}

// pileUpTarget: the delegation (staker/asset/operator, positive share) whose (staker, asset) has the most
// unreleased records; ties by key order. "" when no record's staker has a delegation left.
func pileUpTarget(prev *ledgerSnap) string {
	cnt := map[string]int{}
	for _, rc := range prev.recs {
		cnt[rc.staker+"/"+rc.asset]++
	}
	best, bestN := "", 0
	for _, k := range sortedKeys(prev.deleg) {
		if prev.deleg[k].share.Sign() <= 0 {
			continue
		}
		f := strings.Split(k, "/")
		if pos := positionOf(prev, f[0], f[1], f[2]); pos == nil || pos.Sign() <= 0 {
			continue
		}
		if n := cnt[f[0]+"/"+f[1]]; n > bestN {
			best, bestN = k, n
		}
	}
	return best
}

// scenarioManyConcurrent scripts the burst of the file comment (kinds as in step's switch: 0 deposit,
// 2 delegate, 3 undelegate, 8 blocks)
func (w *ledgerWorld) scenarioManyConcurrent(prev *ledgerSnap) []forcedOp {
	r := w.rng
	fs, fai := w.stakers[r.Intn(len(w.stakers))], r.Intn(len(w.assets))
	oa := r.Intn(len(w.ops))
	opA, opB := w.ops[oa], w.ops[(oa+1+r.Intn(len(w.ops)-1))%len(w.ops)]
	two := r.Chance(1, 2)
	n := []int{8, 9, 12, 16, 17, 24, 33, 40, 65, 130}[r.Pick(4, 4, 3, 3, 3, 2, 2, 2, 1, 1)]
	unit := int64(1 + r.Intn(3))
	if r.Chance(1, 3) {
		unit = int64(10 + r.Intn(1000))
	}
	need := unit*int64(n)*2 + int64(1000+r.Intn(100000))
	out := []forcedOp{{0, fs, fai, opA, 2*need + int64(r.Intn(1000))}, {2, fs, fai, opA, need}}
	if two {
		out = append(out, forcedOp{2, fs, fai, opB, need})
	}
	oneBlock := r.Chance(1, 3)
	for i := 0; i < n; i++ {
		op := opA
		if two && r.Chance(1, 3) {
			op = opB
		}
		out = append(out, forcedOp{3, fs, fai, op, 1 + int64(r.Intn(int(unit)))})
		if !oneBlock && r.Chance(1, 12) {
			out = append(out, forcedOp{8, fs, fai, op, 0})
		}
	}
	w.env.Outcome("scenario.many-concurrent-undelegations")
	w.env.Outcome(fmt.Sprintf("scenario.many-concurrent-undelegations.n=%d", n))
	return out
}

// ledgerConcurrencyCoverage: see the file comment
func ledgerConcurrencyCoverage(env *Env, histories int) {
	env.Eval("C03.coverage")
	if histories >= 4 && ledgerMaxInFlightJudged < 7 {
		env.Violate("C03.coverage", "coverage:no-request-judged-with-7-in-flight",
			fmt.Sprintf("in %d histories no undelegation within the position was judged while at least 7 records of its staker and asset were pending (maximum %d): the 'any number of concurrent undelegations' part of C03's acceptance clause went unjudged",
				histories, ledgerMaxInFlightJudged), nil)
	}
	env.Outcome("undelegate.max-in-flight-judged=" + inFlightBucket(ledgerMaxInFlightJudged))
}
