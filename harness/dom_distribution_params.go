package main

// C17 — parameter updates in the middle of histories (distribution domain).
//
// "The native token's total supply changes only by the CONFIGURED epoch reward, minted exactly once at each
// mint-epoch end … At each distribution-epoch end the whole fee-collector balance moves …": the configuration
// is what the last accepted x/exomint / x/feedistribution MsgUpdateParams left. This file delivers those
// messages through the real message servers between blocks (op lines distr.mintparams / distr.distrparams,
// replayed by Model/DistributionParams.lean: mintUpdateParams / distrUpdateParams) and makes the runner's
// monitors (dom_distribution.go: block) follow the configuration in force: after an accepted update of the mint
// identifier to an identifier with a lower / equal / higher current epoch number, every end of the NEW
// identifier must mint the reward exactly once and ends of the old one nothing; symmetrically every end of the
// configured distribution identifier sweeps the fee collector exactly once.
//
// The expected parameters after a message are computed here (specMintUpdate / specDistrUpdate: plain string
// and big.Int code, independent of the keepers and of the Lean model); the keeper's stored params are compared
// with them (monitor C17.params) and the monitors continue with the expected ones.

import (
	"fmt"
	"math/big"
	"regexp"
	"strings"
	"time"

	sdkmath "cosmossdk.io/math"
	sdk "github.com/cosmos/cosmos-sdk/types"
	authtypes "github.com/cosmos/cosmos-sdk/x/auth/types"
	govtypes "github.com/cosmos/cosmos-sdk/x/gov/types"

	"github.com/ExocoreNetwork/exocore/utils"
	epochstypes "github.com/ExocoreNetwork/exocore/x/epochs/types"
	exomintkeeper "github.com/ExocoreNetwork/exocore/x/exomint/keeper"
	exominttypes "github.com/ExocoreNetwork/exocore/x/exomint/types"
	distrkeeper "github.com/ExocoreNetwork/exocore/x/feedistribution/keeper"
	distrtypes "github.com/ExocoreNetwork/exocore/x/feedistribution/types"
)

// distrOtherDenom: a valid denomination that is not the native one (the exomint account may mint any denom).
const distrOtherDenom = "uother"

var distrDenomRe = regexp.MustCompile(`^[a-zA-Z][a-zA-Z0-9/:._-]{2,127}$`)

// pEsc escapes a string for an op line (words are separated by blanks).
func pEsc(s string) string {
	if s == "" {
		return "%"
	}
	s = strings.ReplaceAll(s, "%", "%25")
	s = strings.ReplaceAll(s, " ", "%20")
	return strings.ReplaceAll(s, "\t", "%09")
}

// nativeReward: what one end of the configured mint identifier adds to the NATIVE supply.
func (r *distrRunner) nativeReward() *big.Int {
	if r.mintDenom != "" && r.mintDenom != utils.BaseDenom {
		return new(big.Int)
	}
	return r.h.reward
}

// otherReward: what one end of the configured mint identifier adds to the supply of distrOtherDenom.
func (r *distrRunner) otherReward() *big.Int {
	if r.mintDenom == distrOtherDenom {
		return r.h.reward
	}
	return new(big.Int)
}

func (r *distrRunner) otherSupply() *big.Int {
	return r.c.App.BankKeeper.GetSupply(r.c.Ctx, distrOtherDenom).Amount.BigInt()
}

// denomOp: the native denomination and the genesis mint denom, for the model.
func (r *distrRunner) denomOp() {
	r.mintDenom = r.c.App.ExomintKeeper.GetParams(r.c.Ctx).MintDenom
	r.op(fmt.Sprintf("distr.denom %s %s", pEsc(utils.BaseDenom), pEsc(r.mintDenom)), "ok")
}

func (r *distrRunner) knownEpoch(id string) bool {
	for _, e := range r.c.App.EpochsKeeper.AllEpochInfos(r.c.Ctx) {
		if e.Identifier == id {
			return true
		}
	}
	return false
}

func (r *distrRunner) epochNumber(id string) int64 {
	for _, e := range r.c.App.EpochsKeeper.AllEpochInfos(r.c.Ctx) {
		if e.Identifier == id {
			return e.CurrentEpoch
		}
	}
	return -1
}

// specMintUpdate: exomint UpdateParams as documented (unset/invalid fields keep the previous value; an
// identifier x/epochs does not have keeps the previous identifier); the handler always accepts. In a
// transaction ValidateBasic comes first and refuses a message with an invalid denom, a nil or negative
// reward or a blank identifier (nothing changes).
func (r *distrRunner) specMintUpdate(viaTx bool, denom string, reward *big.Int, id string) (bool, string, *big.Int, string) {
	d, w, i := r.mintDenom, r.h.reward, r.h.mintID
	if viaTx && !(distrDenomRe.MatchString(denom) && reward != nil && reward.Sign() >= 0 && strings.TrimSpace(id) != "") {
		return false, d, w, i
	}
	if distrDenomRe.MatchString(denom) {
		d = denom
	}
	if reward != nil && reward.Sign() >= 0 {
		w = reward
	}
	if strings.TrimSpace(id) != "" && r.knownEpoch(id) {
		i = id
	}
	return true, d, w, i
}

func distrGovAuthority() string { return authtypes.NewModuleAddress(govtypes.ModuleName).String() }

// mintParams delivers an x/exomint MsgUpdateParams (reward nil = nil math.Int): viaTx = as baseapp delivers the
// message of a transaction (msg.ValidateBasic, then the message server on a cache of the deliver state),
// otherwise the message server alone (what a caller inside the application reaches).
func (r *distrRunner) mintParams(viaTx bool, denom string, reward *big.Int, id string) bool {
	c, env := r.c, r.env
	p := exominttypes.Params{MintDenom: denom, EpochIdentifier: id}
	rw := "nil"
	if reward != nil {
		p.EpochReward = sdkmath.NewIntFromBigInt(reward)
		rw = reward.String()
	}
	wantOK, wantD, wantR, wantI := r.specMintUpdate(viaTx, denom, reward, id)
	oldNum, newNum := r.epochNumber(r.h.mintID), r.epochNumber(wantI)
	srv := exomintkeeper.NewMsgServerImpl(c.App.ExomintKeeper)
	msg := &exominttypes.MsgUpdateParams{Authority: distrGovAuthority(), Params: p}
	err := c.CachedDo(func(ctx sdk.Context) error {
		if viaTx {
			if e := msg.ValidateBasic(); e != nil {
				return e
			}
		}
		_, e := srv.UpdateParams(sdk.WrapSDKContext(ctx), msg)
		return e
	})
	got := c.App.ExomintKeeper.GetParams(c.Ctx)
	path := "srv"
	if viaTx {
		path = "tx"
	}
	st := "ok"
	if err != nil {
		st = "rej"
	}
	r.op(fmt.Sprintf("distr.mintparams %s %s %s %s", path, pEsc(denom), rw, pEsc(id)),
		fmt.Sprintf("%s %s %s %s", st, pEsc(got.MintDenom), got.EpochReward.String(), pEsc(got.EpochIdentifier)))
	env.Eval("C17.params")
	if (err == nil) != wantOK || got.MintDenom != wantD || got.EpochReward.BigInt().Cmp(wantR) != 0 || got.EpochIdentifier != wantI {
		env.Violate("C17.params", "mint-params-not-as-configured", fmt.Sprintf("exomint MsgUpdateParams{%q %s %q} (%s): err=%v, params in force {%q %s %q}, configured {%q %s %q}",
			denom, rw, id, path, err, got.MintDenom, got.EpochReward, got.EpochIdentifier, wantD, wantR, wantI), r.hist)
	}
	// numbers compared with the last epoch of the old identifier that ended (its current number - 1)
	if !wantOK {
		env.Outcome("mintparams:refused-by-validate-basic")
	}
	switch {
	case wantI == r.h.mintID:
		env.Outcome("mintparams:identifier-kept")
	case newNum < oldNum-1:
		env.Outcome("mintparams:identifier->lower-number")
		r.switchLower++
	case newNum == oldNum-1:
		env.Outcome("mintparams:identifier->equal-number")
		r.switchLower++
	default:
		env.Outcome("mintparams:identifier->higher-number")
	}
	if wantD != r.mintDenom {
		env.Outcome("mintparams:denom-changed")
	}
	if wantR.Cmp(r.h.reward) != 0 {
		env.Outcome("mintparams:reward-changed")
	}
	r.mintDenom, r.h.reward, r.h.mintID = wantD, wantR, wantI
	r.paramUpdates++
	return err == nil
}

// distrParams delivers an x/feedistribution MsgUpdateParams through the message server.
func (r *distrRunner) distrParams(id string, tax *big.Int) bool {
	c, env := r.c, r.env
	wantI, wantT := r.h.distrID, r.h.tax
	accept := r.knownEpoch(id)
	if accept {
		wantI, wantT = id, tax
	}
	srv := distrkeeper.NewMsgServerImpl(c.App.DistrKeeper)
	msg := &distrtypes.MsgUpdateParams{Authority: distrGovAuthority(), Params: distrtypes.Params{EpochIdentifier: id, CommunityTax: decFromRaw(tax)}}
	err := c.CachedDo(func(ctx sdk.Context) error {
		if e := msg.ValidateBasic(); e != nil { // as for the message of a transaction (it checks the authority address only)
			return e
		}
		_, e := srv.UpdateParams(sdk.WrapSDKContext(ctx), msg)
		return e
	})
	got := c.App.DistrKeeper.GetParams(c.Ctx)
	st := "ok"
	if err != nil {
		st = "rej"
	}
	r.op(fmt.Sprintf("distr.distrparams %s %s", pEsc(id), tax), fmt.Sprintf("%s %s %s", st, pEsc(got.EpochIdentifier), got.CommunityTax.BigInt()))
	env.Eval("C17.params")
	if (err == nil) != accept || got.EpochIdentifier != wantI || got.CommunityTax.BigInt().Cmp(wantT) != 0 {
		env.Violate("C17.params", "distr-params-not-as-configured", fmt.Sprintf("feedistribution MsgUpdateParams{%q %s}: err=%v, params in force {%q %s}, configured {%q %s}",
			id, tax, err, got.EpochIdentifier, got.CommunityTax.BigInt(), wantI, wantT), r.hist)
	}
	switch {
	case !accept:
		env.Outcome("distrparams:refused-unknown-identifier")
	case wantI != r.h.distrID:
		env.Outcome("distrparams:identifier-changed")
	default:
		env.Outcome("distrparams:identifier-kept")
	}
	r.h.distrID, r.h.tax = wantI, wantT
	r.paramUpdates++
	return err == nil
}

// paramMonitors: the supply of the other denomination follows the same rule as the native one.
func (r *distrRunner) paramMonitors(otherBefore *big.Int, mintEnded int) {
	r.env.Eval("C17.supply-other-denom")
	after := r.otherSupply()
	want := new(big.Int).Add(otherBefore, new(big.Int).Mul(r.otherReward(), big.NewInt(int64(mintEnded))))
	if after.Cmp(want) != 0 {
		r.env.Violate("C17.supply-other-denom", "supply-delta", fmt.Sprintf("supply of %s %s -> %s with %d end(s) of the configured mint identifier %s, mint denom %s, reward %s",
			distrOtherDenom, otherBefore, after, mintEnded, r.h.mintID, r.mintDenom, r.h.reward), r.hist)
	}
}

var distrEpochIDs = []string{epochstypes.DayEpochID, epochstypes.HourEpochID, epochstypes.MinuteEpochID, epochstypes.WeekEpochID} // store order

func distrPickReward(rng *RNG) *big.Int {
	switch rng.Intn(6) {
	case 0:
		return big.NewInt(0)
	case 1:
		return big.NewInt(1)
	case 2:
		return big.NewInt(20)
	case 3:
		return new(big.Int).Add(bigPrec, big.NewInt(7))
	case 4:
		return pow10(30)
	}
	return rng.BigBelow(pow10(24))
}

func distrPickTax(rng *RNG) *big.Int {
	switch rng.Intn(5) {
	case 0:
		return big.NewInt(0)
	case 1:
		return new(big.Int).Set(bigPrec)
	case 2:
		return new(big.Int).Mul(big.NewInt(2), pow10(16))
	}
	return rng.BigBelow(new(big.Int).Add(bigPrec, big.NewInt(1)))
}

// randomParams: with probability 1/7 per block one parameter-update message. Mint: identifier drawn from the four
// identifiers (lower / equal / higher current numbers all occur), an identifier x/epochs does not have, a blank
// one; reward from the boundary set, nil, negative; denom native / other / invalid. Distribution: identifier
// among those that do not follow the dogfood identifier in store order (see domDistribution), an unknown one
// (refused), community tax from the boundary set.
func (r *distrRunner) randomParams(rng *RNG) {
	if !rng.Chance(1, 7) {
		return
	}
	if rng.Chance(3, 5) {
		id := r.h.mintID
		switch rng.Pick(2, 8, 1, 1) {
		case 1:
			id = distrEpochIDs[rng.Intn(4)]
		case 2:
			id = "fortnight"
		case 3:
			id = []string{"", " ", " \t "}[rng.Intn(3)]
		}
		reward := r.h.reward
		switch rng.Pick(3, 4, 1, 1) {
		case 1:
			reward = distrPickReward(rng)
		case 2:
			reward = nil
		case 3:
			reward = big.NewInt(-int64(1 + rng.Intn(100)))
		}
		denom := r.mintDenom
		switch rng.Pick(6, 2, 2, 1) {
		case 1:
			denom = utils.BaseDenom
		case 2:
			denom = distrOtherDenom
		case 3:
			denom = []string{"", "x", "1abc", "ab", "a b c"}[rng.Intn(5)]
		}
		r.mintParams(rng.Chance(2, 3), denom, reward, id)
		return
	}
	dg := 0
	for i, id := range distrEpochIDs {
		if id == r.h.cfg.EpochID {
			dg = i
		}
	}
	id := r.h.distrID
	switch rng.Pick(2, 6, 1) {
	case 1:
		id = distrEpochIDs[rng.Intn(dg+1)]
	case 2:
		id = []string{"fortnight", "", "Minute"}[rng.Intn(3)]
	}
	tax := r.h.tax
	if rng.Chance(1, 2) {
		tax = distrPickTax(rng)
	}
	r.distrParams(id, tax)
}

// blocks runs n blocks, each d after the previous one.
func (r *distrRunner) blocks(n int, d time.Duration) bool {
	for i := 0; i < n; i++ {
		if !r.block(d) {
			return false
		}
	}
	return true
}

// distrScenarioParams: directed histories with accepted parameter updates.
func distrScenarioParams(env *Env) {
	distrScenarioMintSwitch(env)
	distrScenarioMintSwitchEqual(env)
	distrScenarioDistrSwitch(env)
	if env.Str("probe", "") == "tax-above-one" { // opt-in probe, not part of any registry run
		distrProbeTaxAboveOne(env)
	}
}

// distrProbeTaxAboveOne (opt-in): x/feedistribution UpdateParams stores any community tax (Params.Validate
// is `return nil` and is not called); with a tax above 100 % the fee multiplier is negative and the next
// distribution epoch with fees panics in DecCoins.Sub inside BeginBlock. Outside the generated range (the
// registry keeps the community tax in [0,1]); kept as a probe for the lead.
func distrProbeTaxAboveOne(env *Env) {
	cfg := DefaultCfg(env.Report.Seed*1000 + 908)
	cfg.EpochID = epochstypes.WeekEpochID
	h := &distrHistCfg{cfg: cfg, distrID: epochstypes.MinuteEpochID, mintID: epochstypes.DayEpochID, reward: big.NewInt(0),
		tax: big.NewInt(0), rates: []*big.Int{big.NewInt(0), big.NewInt(0)}, shrink: map[string]time.Duration{}}
	c := distrBoot(h)
	r := &distrRunner{env: env, c: c, h: h, haltSigAs: "F17c:community-tax-above-one-halts-beginblock"}
	r.start("probe-tax-above-one")
	acc := r.distrParams(epochstypes.MinuteEpochID, new(big.Int).Add(bigPrec, big.NewInt(1)))
	r.fee(big.NewInt(1000))
	ok := r.block(61 * time.Second)
	env.Outcome(fmt.Sprintf("probe-tax-above-one:accepted=%v,next-distribution-epoch-ok=%v", acc, ok))
}

// distrScenarioMintSwitch: the mint identifier is switched hour -> day after three hourly mints (day's
// current number 1 < 3), later day -> minute (higher number), the reward and the mint denom are changed, then
// minute -> week (lower again); after each switch several ends of the new AND of the old identifier follow.
func distrScenarioMintSwitch(env *Env) {
	cfg := DefaultCfg(env.Report.Seed*1000 + 905)
	cfg.EpochID = epochstypes.WeekEpochID
	h := &distrHistCfg{cfg: cfg, distrID: epochstypes.MinuteEpochID, mintID: epochstypes.HourEpochID, reward: big.NewInt(20),
		tax: new(big.Int).Mul(big.NewInt(2), pow10(16)), rates: []*big.Int{new(big.Int).Mul(big.NewInt(5), pow10(16)), big.NewInt(0)}, shrink: map[string]time.Duration{}}
	c := distrBoot(h)
	r := &distrRunner{env: env, c: c, h: h}
	r.start("scenario-mint-identifier-switch")
	hour := time.Hour + time.Second
	r.fee(big.NewInt(1000))
	ok := r.blocks(3, hour) // hour epochs 1..3 end: 3 x 20 minted
	before := r.mintEpochs
	r.mintParams(true, utils.BaseDenom, big.NewInt(20), epochstypes.DayEpochID) // day is in its epoch 1: lower number
	r.fee(big.NewInt(7))
	ok = ok && r.blocks(2, hour)                                               // hour epochs 4, 5 end: nothing minted any more
	ok = ok && r.blocks(1, 20*time.Hour)                                       // day epoch 1 ends: reward minted once
	ok = ok && r.blocks(1, 24*time.Hour)                                       // day epoch 2
	ok = ok && r.blocks(1, 30*time.Second)                                     // no end of the mint identifier
	r.mintParams(true, utils.BaseDenom, big.NewInt(7), epochstypes.DayEpochID) // reward only
	ok = ok && r.blocks(1, 24*time.Hour)                                       // day epoch 3: 7 minted
	// fields that keep their previous values: blank / unknown identifier, invalid denom, nil / negative reward
	r.mintParams(false, "x", nil, " ")
	r.mintParams(false, "", big.NewInt(-1), "fortnight")
	r.mintParams(true, "x", big.NewInt(5), epochstypes.HourEpochID)               // in a transaction: refused by ValidateBasic
	r.mintParams(true, utils.BaseDenom, big.NewInt(7), "fortnight")               // unknown identifier: kept
	ok = ok && r.blocks(1, 24*time.Hour)                                          // day epoch 4: still 7 of the native denom
	r.mintParams(true, utils.BaseDenom, big.NewInt(7), epochstypes.MinuteEpochID) // minute: far higher number
	ok = ok && r.blocks(2, 61*time.Second)
	r.mintParams(true, distrOtherDenom, big.NewInt(9), epochstypes.MinuteEpochID) // other denom: native supply flat
	ok = ok && r.blocks(2, 61*time.Second)
	r.mintParams(true, utils.BaseDenom, big.NewInt(1), epochstypes.WeekEpochID) // week: number 1, lower again
	r.fee(new(big.Int).Add(bigPrec, big.NewInt(1)))
	ok = ok && r.blocks(1, 3*24*time.Hour) // week epoch 1 ends (7 days since genesis have passed)
	ok = ok && r.blocks(1, 7*24*time.Hour) // week epoch 2
	env.Report.Histories++
	env.Outcome(fmt.Sprintf("scenario-mint-identifier-switch:ok=%v,updates=%d,switch-lower-or-equal=%d,mint-ends-after-first-switch>0=%v", ok, r.paramUpdates, r.switchLower, r.mintEpochs > before))
}

// distrScenarioMintSwitchEqual: hour -> day right after the first hourly mint: the new identifier's current
// number EQUALS the number of the last rewarded epoch of the old one.
func distrScenarioMintSwitchEqual(env *Env) {
	cfg := DefaultCfg(env.Report.Seed*1000 + 906)
	cfg.EpochID = epochstypes.WeekEpochID
	h := &distrHistCfg{cfg: cfg, distrID: epochstypes.HourEpochID, mintID: epochstypes.HourEpochID, reward: new(big.Int).Add(bigPrec, big.NewInt(7)),
		tax: big.NewInt(0), rates: []*big.Int{big.NewInt(0), new(big.Int).Quo(bigPrec, big.NewInt(2))}, shrink: map[string]time.Duration{}}
	c := distrBoot(h)
	r := &distrRunner{env: env, c: c, h: h}
	r.start("scenario-mint-identifier-switch-equal")
	ok := r.blocks(1, time.Hour+time.Second) // hour epoch 1 ends
	before := r.mintEpochs
	r.mintParams(true, utils.BaseDenom, h.reward, epochstypes.DayEpochID) // day epoch 1 = number of the last rewarded hour epoch
	ok = ok && r.blocks(1, time.Hour+time.Second)
	ok = ok && r.blocks(1, 22*time.Hour) // day epoch 1 ends
	ok = ok && r.blocks(1, 24*time.Hour) // day epoch 2 ends
	env.Report.Histories++
	env.Outcome(fmt.Sprintf("scenario-mint-identifier-switch-equal:ok=%v,switch-lower-or-equal=%d,mint-ends-after-switch=%d", ok, r.switchLower, r.mintEpochs-before))
}

// distrScenarioDistrSwitch: the distribution identifier is switched minute -> hour -> minute with fee income in
// every block: ends of the configured identifier sweep the whole fee collector exactly once, ends of the other
// identifier leave claims and accounts alone; a refused update (unknown identifier) changes nothing; the
// community tax changes with an update and the portions follow it.
func distrScenarioDistrSwitch(env *Env) {
	cfg := DefaultCfg(env.Report.Seed*1000 + 907)
	cfg.EpochID = epochstypes.WeekEpochID
	h := &distrHistCfg{cfg: cfg, distrID: epochstypes.MinuteEpochID, mintID: epochstypes.MinuteEpochID, reward: big.NewInt(20),
		tax: new(big.Int).Mul(big.NewInt(2), pow10(16)), rates: []*big.Int{new(big.Int).Mul(big.NewInt(5), pow10(16)), big.NewInt(0)}, shrink: map[string]time.Duration{}}
	c := distrBoot(h)
	r := &distrRunner{env: env, c: c, h: h}
	r.start("scenario-distribution-identifier-switch")
	step := func(n int, d time.Duration) bool {
		for i := 0; i < n; i++ {
			r.fee(big.NewInt(int64(100000 + 7*i)))
			if !r.block(d) {
				return false
			}
		}
		return true
	}
	ok := step(2, 61*time.Second)
	before := r.distrEpochs
	r.distrParams(epochstypes.HourEpochID, h.tax) // hour: number 1, the minute epochs are at 3
	ok = ok && step(3, 61*time.Second)            // minute ends: nothing is swept (the mint keeps filling the collector)
	quiet := r.distrEpochs == before
	ok = ok && step(1, time.Hour)             // hour epoch 1 ends: everything collected so far moves at once
	r.distrParams("fortnight", big.NewInt(0)) // refused
	ok = ok && step(1, time.Hour)
	r.distrParams(epochstypes.HourEpochID, new(big.Int).Quo(bigPrec, big.NewInt(2))) // tax 50 %
	ok = ok && step(1, time.Hour+time.Second)
	r.distrParams(epochstypes.MinuteEpochID, new(big.Int).Set(bigPrec)) // back to minute, tax 100 %
	ok = ok && step(2, time.Second)
	r.distrParams(epochstypes.DayEpochID, big.NewInt(0)) // day: number 1
	ok = ok && step(1, 24*time.Hour)
	env.Report.Histories++
	env.Outcome(fmt.Sprintf("scenario-distribution-identifier-switch:ok=%v,quiet-after-switch=%v,distr-ends-after-switch=%d,updates=%d", ok, quiet, r.distrEpochs-before, r.paramUpdates))
}
