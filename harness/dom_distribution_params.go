package main

// C17 — parameter updates in the middle of histories (distribution domain).
//
// "The native token's total supply changes only by the CONFIGURED epoch reward, minted exactly once at each
// mint-epoch end … At each distribution-epoch end the whole fee-collector balance moves …": the configuration
// is what the last accepted x/exomint / x/feedistribution MsgUpdateParams left. This file delivers those
// messages through the real message servers between blocks (op lines distr.mintparams / distr.distrparams,
// replayed by Model/DistributionParams.lean: mintUpdateParams / distrUpdateParams) and makes the runner's
// monitors (dom_distribution.go: block) follow the configuration in force: after an accepted update of the mint
// identifier to an identifier with a lower / equal / higher current epoch number, every end of the NEW
// identifier must mint the reward exactly once and ends of the old one nothing; symmetrically every end of the
// configured distribution identifier sweeps the fee collector exactly once.
//
// The expected parameters after a message are computed here (specMintUpdate / specDistrUpdate: plain string
// and big.Int code, independent of the keepers and of the Lean model); the keeper's stored params are compared
// with them (monitor C17.params) and the monitors continue with the expected ones. The community tax of an
// x/feedistribution update must lie in [0,1] (repair of F-17c, fb3f03d): updates outside are part of the
// generated stream and must be refused (monitor C17.tax, directed regression distrScenarioF17c).

import (
	"errors"
	"fmt"
	"math/big"
	"regexp"
	"strings"
	"time"

	sdkmath "cosmossdk.io/math"
	sdk "github.com/cosmos/cosmos-sdk/types"
	authtypes "github.com/cosmos/cosmos-sdk/x/auth/types"
	govtypes "github.com/cosmos/cosmos-sdk/x/gov/types"

	"github.com/ExocoreNetwork/exocore/utils"
	epochstypes "github.com/ExocoreNetwork/exocore/x/epochs/types"
	exomintkeeper "github.com/ExocoreNetwork/exocore/x/exomint/keeper"
	exominttypes "github.com/ExocoreNetwork/exocore/x/exomint/types"
	distrkeeper "github.com/ExocoreNetwork/exocore/x/feedistribution/keeper"
	distrtypes "github.com/ExocoreNetwork/exocore/x/feedistribution/types"
)

// distrOtherDenom: a valid denomination that is not the native one (the exomint account may mint any denom).
const distrOtherDenom = "uother"

var distrDenomRe = regexp.MustCompile(`^[a-zA-Z][a-zA-Z0-9/:._-]{2,127}$`)

// pEsc escapes a string for an op line (words are separated by blanks).
func pEsc(s string) string {
	if s == "" {
		return "%"
	}
	s = strings.ReplaceAll(s, "%", "%25")
	s = strings.ReplaceAll(s, " ", "%20")
	return strings.ReplaceAll(s, "\t", "%09")
}

// nativeReward: what one end of the configured mint identifier adds to the NATIVE supply.
func (r *distrRunner) nativeReward() *big.Int {
	if r.mintDenom != "" && r.mintDenom != utils.BaseDenom {
		return new(big.Int)
	}
	return r.h.reward
}

// otherReward: what one end of the configured mint identifier adds to the supply of distrOtherDenom.
func (r *distrRunner) otherReward() *big.Int {
	if r.mintDenom == distrOtherDenom {
		return r.h.reward
	}
	return new(big.Int)
}

func (r *distrRunner) otherSupply() *big.Int {
	return r.c.App.BankKeeper.GetSupply(r.c.Ctx, distrOtherDenom).Amount.BigInt()
}

// denomOp: the native denomination and the genesis mint denom, for the model.
func (r *distrRunner) denomOp() {
	r.mintDenom = r.c.App.ExomintKeeper.GetParams(r.c.Ctx).MintDenom
	r.op(fmt.Sprintf("distr.denom %s %s", pEsc(utils.BaseDenom), pEsc(r.mintDenom)), "ok")
}

func (r *distrRunner) knownEpoch(id string) bool {
	for _, e := range r.c.App.EpochsKeeper.AllEpochInfos(r.c.Ctx) {
		if e.Identifier == id {
			return true
		}
	}
	return false
}

func (r *distrRunner) epochNumber(id string) int64 {
	for _, e := range r.c.App.EpochsKeeper.AllEpochInfos(r.c.Ctx) {
		if e.Identifier == id {
			return e.CurrentEpoch
		}
	}
	return -1
}

// specMintUpdate: exomint UpdateParams as documented (unset/invalid fields keep the previous value; an
// identifier x/epochs does not have keeps the previous identifier); the handler always accepts. In a
// transaction ValidateBasic comes first and refuses a message with an invalid denom, a nil or negative
// reward or a blank identifier (nothing changes).
func (r *distrRunner) specMintUpdate(viaTx bool, denom string, reward *big.Int, id string) (bool, string, *big.Int, string) {
	d, w, i := r.mintDenom, r.h.reward, r.h.mintID
	if viaTx && !(distrDenomRe.MatchString(denom) && reward != nil && reward.Sign() >= 0 && strings.TrimSpace(id) != "") {
		return false, d, w, i
	}
	if distrDenomRe.MatchString(denom) {
		d = denom
	}
	if reward != nil && reward.Sign() >= 0 {
		w = reward
	}
	if strings.TrimSpace(id) != "" && r.knownEpoch(id) {
		i = id
	}
	return true, d, w, i
}

func distrGovAuthority() string { return authtypes.NewModuleAddress(govtypes.ModuleName).String() }

// mintParams delivers an x/exomint MsgUpdateParams (reward nil = nil math.Int): viaTx = as baseapp delivers the
// message of a transaction (msg.ValidateBasic, then the message server on a cache of the deliver state),
// otherwise the message server alone (what a caller inside the application reaches).
func (r *distrRunner) mintParams(viaTx bool, denom string, reward *big.Int, id string) bool {
	c, env := r.c, r.env
	p := exominttypes.Params{MintDenom: denom, EpochIdentifier: id}
	rw := "nil"
	if reward != nil {
		p.EpochReward = sdkmath.NewIntFromBigInt(reward)
		rw = reward.String()
	}
	wantOK, wantD, wantR, wantI := r.specMintUpdate(viaTx, denom, reward, id)
	oldNum, newNum := r.epochNumber(r.h.mintID), r.epochNumber(wantI)
	srv := exomintkeeper.NewMsgServerImpl(c.App.ExomintKeeper)
	msg := &exominttypes.MsgUpdateParams{Authority: distrGovAuthority(), Params: p}
	err := c.CachedDo(func(ctx sdk.Context) error {
		if viaTx {
			if e := msg.ValidateBasic(); e != nil {
				return e
			}
		}
		_, e := srv.UpdateParams(sdk.WrapSDKContext(ctx), msg)
		return e
	})
	got := c.App.ExomintKeeper.GetParams(c.Ctx)
	path := "srv"
	if viaTx {
		path = "tx"
	}
	st := "ok"
	if err != nil {
		st = "rej"
	}
	r.op(fmt.Sprintf("distr.mintparams %s %s %s %s", path, pEsc(denom), rw, pEsc(id)),
		fmt.Sprintf("%s %s %s %s", st, pEsc(got.MintDenom), got.EpochReward.String(), pEsc(got.EpochIdentifier)))
	env.Eval("C17.params")
	if (err == nil) != wantOK || got.MintDenom != wantD || got.EpochReward.BigInt().Cmp(wantR) != 0 || got.EpochIdentifier != wantI {
		env.Violate("C17.params", "mint-params-not-as-configured", fmt.Sprintf("exomint MsgUpdateParams{%q %s %q} (%s): err=%v, params in force {%q %s %q}, configured {%q %s %q}",
			denom, rw, id, path, err, got.MintDenom, got.EpochReward, got.EpochIdentifier, wantD, wantR, wantI), r.hist)
	}
	// numbers compared with the last epoch of the old identifier that ended (its current number - 1)
	if !wantOK {
		env.Outcome("mintparams:refused-by-validate-basic")
	}
	switch {
	case wantI == r.h.mintID:
		env.Outcome("mintparams:identifier-kept")
	case newNum < oldNum-1:
		env.Outcome("mintparams:identifier->lower-number")
		r.switchLower++
	case newNum == oldNum-1:
		env.Outcome("mintparams:identifier->equal-number")
		r.switchLower++
	default:
		env.Outcome("mintparams:identifier->higher-number")
	}
	if wantD != r.mintDenom {
		env.Outcome("mintparams:denom-changed")
	}
	if wantR.Cmp(r.h.reward) != 0 {
		env.Outcome("mintparams:reward-changed")
	}
	r.mintDenom, r.h.reward, r.h.mintID = wantD, wantR, wantI
	r.paramUpdates++
	r.paramsFollowStore("an exomint MsgUpdateParams (" + path + ")")
	return err == nil
}

// distrTaxInUnit: the community tax is a fraction, raw value in [0, 10^18] (a nil tax counts: it is stored as 0).
func distrTaxInUnit(tax *big.Int) bool {
	return tax == nil || (tax.Sign() >= 0 && tax.Cmp(bigPrec) <= 0)
}

// specDistrUpdate: feedistribution UpdateParams as repaired (F-17c): a community tax outside [0,1] is refused
// first ("rej:tax"), then an identifier x/epochs does not have ("rej:epoch"); otherwise the message's params are
// stored as they are (a nil tax as zero). ValidateBasic (transactions) checks the same tax bound.
func (r *distrRunner) specDistrUpdate(id string, tax *big.Int) (string, string, *big.Int) {
	switch {
	case !distrTaxInUnit(tax):
		return "rej:tax", r.h.distrID, r.h.tax
	case !r.knownEpoch(id):
		return "rej:epoch", r.h.distrID, r.h.tax
	case tax == nil:
		return "ok", id, new(big.Int)
	}
	return "ok", id, tax
}

func distrTaxStr(tax *big.Int) string {
	if tax == nil {
		return "nil"
	}
	return tax.String()
}

func distrMsg(id string, tax *big.Int) *distrtypes.MsgUpdateParams {
	p := distrtypes.Params{EpochIdentifier: id}
	if tax != nil {
		p.CommunityTax = decFromRaw(tax)
	} // else: a nil LegacyDec (what decoding a message without the field leaves)
	return &distrtypes.MsgUpdateParams{Authority: distrGovAuthority(), Params: p}
}

// distrErrKind maps the error of the feedistribution message path to the model's enum.
func distrErrKind(err error) string {
	switch {
	case err == nil:
		return "ok"
	case errors.Is(err, distrtypes.ErrEpochNotFound):
		return "rej:epoch"
	case strings.Contains(err.Error(), "community tax"):
		return "rej:tax"
	}
	return "rej"
}

// distrParams delivers an x/feedistribution MsgUpdateParams (tax nil = nil LegacyDec): viaTx = as baseapp delivers
// the message of a transaction (msg.ValidateBasic, then the message server on a cache of the deliver state),
// otherwise the message server alone (what a caller inside the application reaches).
//
// Regression guard of F-17c: an update with a community tax outside [0,1] that is ACCEPTED is a violation with
// the history so far (sig F17c:tax-outside-unit-interval-accepted) — the next distribution epoch with fees
// would halt BeginBlock.
func (r *distrRunner) distrParams(viaTx bool, id string, tax *big.Int) bool {
	c, env := r.c, r.env
	wantSt, wantI, wantT := r.specDistrUpdate(id, tax)
	srv := distrkeeper.NewMsgServerImpl(c.App.DistrKeeper)
	msg := distrMsg(id, tax)
	err := c.CachedDo(func(ctx sdk.Context) error {
		if viaTx {
			if e := msg.ValidateBasic(); e != nil {
				return e
			}
		}
		_, e := srv.UpdateParams(sdk.WrapSDKContext(ctx), msg)
		return e
	})
	got := c.App.DistrKeeper.GetParams(c.Ctx)
	path := "srv"
	if viaTx {
		path = "tx"
	}
	st := distrErrKind(err)
	r.op(fmt.Sprintf("distr.distrparams %s %s %s", path, pEsc(id), distrTaxStr(tax)), fmt.Sprintf("%s %s %s", st, pEsc(got.EpochIdentifier), got.CommunityTax.BigInt()))
	env.Eval("C17.params")
	env.Eval("C17.tax")
	gotTax := got.CommunityTax.BigInt()
	switch {
	case err == nil && !distrTaxInUnit(tax):
		r.taxAccepted = append(r.taxAccepted, fmt.Sprintf("MsgUpdateParams{%q community tax %s} (%s)", id, distrTaxStr(tax), path))
		if !r.deferTaxAccepted {
			r.violateTaxAccepted()
		}
		wantI, wantT = got.EpochIdentifier, gotTax // go on with what is in force: the block that follows shows the halt
	case st != wantSt || got.EpochIdentifier != wantI || gotTax.Cmp(wantT) != 0:
		env.Violate("C17.params", "distr-params-not-as-configured", fmt.Sprintf("feedistribution MsgUpdateParams{%q %s} (%s): %s err=%v, params in force {%q %s}, configured %s {%q %s}",
			id, distrTaxStr(tax), path, st, err, got.EpochIdentifier, gotTax, wantSt, wantI, wantT), r.hist)
	}
	// the tax in force is a fraction after every message, accepted or not
	if !distrTaxInUnit(gotTax) && distrTaxInUnit(r.h.tax) && distrTaxInUnit(tax) {
		env.Violate("C17.tax", "tax-in-force-outside-unit-interval", fmt.Sprintf("community tax in force %s after MsgUpdateParams{%q %s}", gotTax, id, distrTaxStr(tax)), r.hist)
	}
	switch {
	case wantSt == "rej:tax":
		env.Outcome("distrparams:refused-tax-outside-unit-interval")
	case wantSt == "rej:epoch":
		env.Outcome("distrparams:refused-unknown-identifier")
	case wantI != r.h.distrID:
		env.Outcome("distrparams:identifier-changed")
	default:
		env.Outcome("distrparams:identifier-kept")
	}
	if tax == nil {
		env.Outcome("distrparams:nil-tax")
	}
	r.h.distrID, r.h.tax = wantI, wantT
	r.paramUpdates++
	return err == nil
}

// violateTaxAccepted reports the accepted updates with a community tax outside [0,1] (history so far).
func (r *distrRunner) violateTaxAccepted() {
	if len(r.taxAccepted) == 0 {
		return
	}
	got := r.c.App.DistrKeeper.GetParams(r.c.Ctx)
	r.env.Violate("C17.tax", "F17c:tax-outside-unit-interval-accepted", fmt.Sprintf("feedistribution %s ACCEPTED (raw, 10^18 = 1): params in force {%q %s}; AllocateTokens multiplies the collected fees by 1 - tax, a distribution epoch end with fees panics in BeginBlock",
		strings.Join(r.taxAccepted, ", "), got.EpochIdentifier, got.CommunityTax.BigInt()), r.hist)
	r.taxAccepted = nil
}

// distrValidateBasic: MsgUpdateParams.ValidateBasic alone (what baseapp runs on every message of a transaction
// before any handler): op distr.distrvb, replayed by the model (DistrMsg.validateBasic).
func (r *distrRunner) distrValidateBasic(id string, tax *big.Int) bool {
	err := distrMsg(id, tax).ValidateBasic()
	st := "ok"
	if err != nil {
		st = "rej"
	}
	r.op(fmt.Sprintf("distr.distrvb %s %s", pEsc(id), distrTaxStr(tax)), st)
	r.env.Eval("C17.tax")
	if (err == nil) != distrTaxInUnit(tax) {
		sig := "F17c:validate-basic-accepts-tax-outside-unit-interval"
		if err != nil {
			sig = "validate-basic-refuses-tax-in-unit-interval"
		}
		r.env.Violate("C17.tax", sig, fmt.Sprintf("feedistribution MsgUpdateParams{%q community tax %s}.ValidateBasic() = %v", id, distrTaxStr(tax), err), r.hist)
	}
	return err == nil
}

// paramMonitors: the supply of the other denomination follows the same rule as the native one.
func (r *distrRunner) paramMonitors(otherBefore *big.Int, mintEnded int) {
	r.env.Eval("C17.supply-other-denom")
	after := r.otherSupply()
	want := new(big.Int).Add(otherBefore, new(big.Int).Mul(r.otherReward(), big.NewInt(int64(mintEnded))))
	if after.Cmp(want) != 0 {
		r.env.Violate("C17.supply-other-denom", "supply-delta", fmt.Sprintf("supply of %s %s -> %s with %d end(s) of the configured mint identifier %s, mint denom %s, reward %s",
			distrOtherDenom, otherBefore, after, mintEnded, r.h.mintID, r.mintDenom, r.h.reward), r.hist)
	}
}

var distrEpochIDs = []string{epochstypes.DayEpochID, epochstypes.HourEpochID, epochstypes.MinuteEpochID, epochstypes.WeekEpochID} // store order

func distrPickReward(rng *RNG) *big.Int {
	switch rng.Intn(6) {
	case 0:
		return big.NewInt(0)
	case 1:
		return big.NewInt(1)
	case 2:
		return big.NewInt(20)
	case 3:
		return new(big.Int).Add(bigPrec, big.NewInt(7))
	case 4:
		return pow10(30)
	}
	return rng.BigBelow(pow10(24))
}

// distrPickTax: community tax of a generated MsgUpdateParams, raw (10^18 = 1). 3 in 4 draws are valid (0, 1, 2 %,
// random in [0,1], now and then a nil tax); 1 in 4 is from the malformed stream the repaired handler must refuse:
// the boundary values -1, 10^18+1, 2·10^18 and random negative / large ones.
func distrPickTax(rng *RNG) *big.Int {
	if rng.Chance(1, 4) {
		switch rng.Intn(6) {
		case 0:
			return big.NewInt(-1)
		case 1:
			return new(big.Int).Add(bigPrec, big.NewInt(1))
		case 2:
			return new(big.Int).Mul(big.NewInt(2), bigPrec)
		case 3:
			return new(big.Int).Neg(new(big.Int).Add(rng.BigBelow(bigPrec), big.NewInt(1))) // [-1, 0)
		case 4:
			return new(big.Int).Neg(new(big.Int).Add(rng.BigBelow(pow10(24)), big.NewInt(1)))
		}
		return new(big.Int).Add(bigPrec, new(big.Int).Add(rng.BigBelow(pow10(20)), big.NewInt(1))) // above 1
	}
	switch rng.Intn(6) {
	case 0:
		return big.NewInt(0)
	case 1:
		return new(big.Int).Set(bigPrec)
	case 2:
		return new(big.Int).Mul(big.NewInt(2), pow10(16))
	case 3:
		if rng.Chance(1, 3) {
			return nil
		}
		return new(big.Int).Sub(bigPrec, big.NewInt(1))
	}
	return rng.BigBelow(new(big.Int).Add(bigPrec, big.NewInt(1)))
}

// randomParams: with probability 1/7 per block one parameter-update message. Mint: identifier drawn from the four
// identifiers (lower / equal / higher current numbers all occur), an identifier x/epochs does not have, a blank
// one; reward from the boundary set, nil, negative; denom native / other / invalid. Distribution: identifier
// among those that do not follow the dogfood identifier in store order (see domDistribution), an unknown one
// (refused), community tax from the boundary set incl. values outside [0,1] (refused: distrPickTax); 2 in 3 as the
// message of a transaction.
func (r *distrRunner) randomParams(rng *RNG) {
	if !rng.Chance(1, 7) {
		return
	}
	if rng.Chance(3, 5) {
		id := r.h.mintID
		switch rng.Pick(2, 8, 1, 1) {
		case 1:
			id = distrEpochIDs[rng.Intn(4)]
		case 2:
			id = "fortnight"
		case 3:
			id = []string{"", " ", " \t "}[rng.Intn(3)]
		}
		reward := r.h.reward
		switch rng.Pick(3, 4, 1, 1) {
		case 1:
			reward = distrPickReward(rng)
		case 2:
			reward = nil
		case 3:
			reward = big.NewInt(-int64(1 + rng.Intn(100)))
		}
		denom := r.mintDenom
		switch rng.Pick(6, 2, 2, 1) {
		case 1:
			denom = utils.BaseDenom
		case 2:
			denom = distrOtherDenom
		case 3:
			denom = []string{"", "x", "1abc", "ab", "a b c"}[rng.Intn(5)]
		}
		r.mintParams(rng.Chance(2, 3), denom, reward, id)
		return
	}
	dg := 0
	for i, id := range distrEpochIDs {
		if id == r.h.cfg.EpochID {
			dg = i
		}
	}
	id := r.h.distrID
	switch rng.Pick(2, 6, 1) {
	case 1:
		id = distrEpochIDs[rng.Intn(dg+1)]
	case 2:
		id = []string{"fortnight", "", "Minute"}[rng.Intn(3)]
	}
	tax := r.h.tax
	if rng.Chance(1, 2) {
		tax = distrPickTax(rng)
	}
	r.distrParams(rng.Chance(2, 3), id, tax)
}

// blocks runs n blocks, each d after the previous one.
func (r *distrRunner) blocks(n int, d time.Duration) bool {
	for i := 0; i < n; i++ {
		if !r.block(d) {
			return false
		}
	}
	return true
}

// distrScenarioParams: directed histories with accepted parameter updates.
func distrScenarioParams(env *Env) {
	distrScenarioMintSwitch(env)
	distrScenarioMintSwitchEqual(env)
	distrScenarioDistrSwitch(env)
	distrScenarioF17c(env)
	if env.Str("probe", "") == "genesis-tax-above-one" { // opt-in probe, not part of any registry run
		distrProbeGenesisTaxAboveOne(env)
	}
}

// distrScenarioF17c (regression of F-17c, runs in every C17 run): before commit fb3f03d x/feedistribution
// UpdateParams stored any community tax (Params.Validate was `return nil` and was not called); with a tax above
// 100 % the fee multiplier is negative (below 0 %: above the collected fees) and the next distribution epoch end
// with fees panics in DecCoins.Sub inside BeginBlock. The repaired code refuses 10^18+1, -1, -1/2 and 2 in
// MsgUpdateParams.ValidateBasic AND in the handler (direct callers), stores the boundary values 0, 1 and a nil tax
// (as 0), and no block halts. A re-introduction is reported with this history: an accepted update as
// F17c:tax-outside-unit-interval-accepted (distrParams), ValidateBasic alone as F17c:validate-basic-accepts-…,
// the halt as F17c:community-tax-above-one-halts-beginblock.
func distrScenarioF17c(env *Env) {
	cfg := DefaultCfg(env.Report.Seed*1000 + 908)
	cfg.EpochID = epochstypes.WeekEpochID
	h := &distrHistCfg{cfg: cfg, distrID: epochstypes.MinuteEpochID, mintID: epochstypes.DayEpochID, reward: big.NewInt(0),
		tax: big.NewInt(0), rates: []*big.Int{big.NewInt(0), big.NewInt(0)}, shrink: map[string]time.Duration{}}
	c := distrBoot(h)
	r := &distrRunner{env: env, c: c, h: h, haltSigAs: "F17c:community-tax-above-one-halts-beginblock", deferTaxAccepted: true}
	r.start("scenario-F17c-community-tax-outside-unit-interval")
	minute := epochstypes.MinuteEpochID
	above := new(big.Int).Add(bigPrec, big.NewInt(1))
	minusHalf := new(big.Int).Neg(new(big.Int).Quo(bigPrec, big.NewInt(2)))
	two := new(big.Int).Mul(big.NewInt(2), bigPrec)
	vbRefused, refused, ok := 0, 0, true
	count := func(accepted bool, n *int) {
		if !accepted {
			*n++
		}
	}
	// tax 1.000000000000000001: in a transaction, and the handler called directly; then fees and the end of minute
	// epoch 1. On the unrepaired code the update is accepted and the block halts: ONE violation whose replay holds
	// update, fees and block (the halt, reported by r.block; if the block survives, the accepted update).
	count(r.distrParams(true, minute, above), &refused)
	count(r.distrParams(false, minute, above), &refused)
	r.fee(big.NewInt(1000))
	ok = r.block(61 * time.Second)
	r.violateTaxAccepted()
	// ValidateBasic alone (stateless: also after a halt)
	for _, t := range []*big.Int{above, big.NewInt(-1), minusHalf, two} {
		count(r.distrValidateBasic(minute, t), &vbRefused)
	}
	vbOK := r.distrValidateBasic(minute, new(big.Int).Set(bigPrec)) && r.distrValidateBasic(minute, big.NewInt(0)) && r.distrValidateBasic(minute, nil)
	if ok {
		// negative taxes (-10^-18, -1/2), 2, and the order of the checks (tax before the unknown identifier)
		count(r.distrParams(true, minute, big.NewInt(-1)), &refused)
		count(r.distrParams(false, minute, big.NewInt(-1)), &refused)
		count(r.distrParams(false, minute, minusHalf), &refused)
		count(r.distrParams(false, "fortnight", two), &refused)
		r.fee(big.NewInt(1000))
		ok = r.block(61 * time.Second)
		r.violateTaxAccepted()
	}
	accepted := 0
	if ok {
		// the boundary values are accepted: tax 1 (everything to the community pool), a nil tax (stored as 0), tax 0
		for _, t := range []*big.Int{new(big.Int).Set(bigPrec), nil, big.NewInt(0)} {
			if r.distrParams(t != nil, minute, t) {
				accepted++
			}
			r.fee(new(big.Int).Add(bigPrec, big.NewInt(1)))
			ok = ok && r.block(61*time.Second)
		}
	}
	env.Report.Histories++
	env.Outcome(fmt.Sprintf("scenario-F17c:validate-basic-refused=%d/4,validate-basic-accepts-boundaries=%v,updates-refused=%d/6,boundary-updates-accepted=%d/3,no-halt=%v,distr-ends=%d", vbRefused, vbOK, refused, accepted, ok, r.distrEpochs))
}

// distrProbeGenesisTaxAboveOne (opt-in: `exoharness distribution probe=genesis-tax-above-one`): the genesis path
// of the same bound. GenesisState.Validate calls Params.Validate (validate-genesis refuses a tax above 1), but
// Keeper.InitGenesis stores the genesis params as they are and InitChain does not run ValidateGenesis: a genesis
// file with community_tax > 1 boots, and the first distribution epoch end with fees halts BeginBlock. Reported to
// the lead as a residual of F-17c; not part of any registry run (pinned as an assumption: C17_tie_shapeDistrInitGenesis).
func distrProbeGenesisTaxAboveOne(env *Env) {
	above := new(big.Int).Add(bigPrec, big.NewInt(1))
	gerr := distrtypes.NewGenesisState(distrtypes.Params{EpochIdentifier: epochstypes.MinuteEpochID, CommunityTax: decFromRaw(above)}).Validate()
	env.Outcome(fmt.Sprintf("probe-genesis-tax-above-one:GenesisState.Validate-refuses=%v", gerr != nil))
	cfg := DefaultCfg(env.Report.Seed*1000 + 909)
	cfg.EpochID = epochstypes.WeekEpochID
	h := &distrHistCfg{cfg: cfg, distrID: epochstypes.MinuteEpochID, mintID: epochstypes.DayEpochID, reward: big.NewInt(0),
		tax: above, rates: []*big.Int{big.NewInt(0), big.NewInt(0)}, shrink: map[string]time.Duration{}}
	var c *Chain
	halt := ""
	func() {
		defer func() {
			if x := recover(); x != nil {
				ch, isHalt := x.(chainHalt)
				if !isHalt {
					panic(x)
				}
				halt = ch.where + ": " + ch.msg
			}
		}()
		c = distrBoot(h)
	}()
	if c == nil {
		env.Outcome("probe-genesis-tax-above-one:InitChain-refuses=true (" + halt + ")")
		return
	}
	r := &distrRunner{env: env, c: c, h: h, haltSigAs: "F17c-genesis:community-tax-above-one-halts-beginblock"}
	r.start("probe-genesis-tax-above-one")
	stored := c.App.DistrKeeper.GetParams(c.Ctx).CommunityTax.BigInt()
	r.fee(big.NewInt(1000))
	ok := r.block(61 * time.Second)
	env.Outcome(fmt.Sprintf("probe-genesis-tax-above-one:InitChain-refuses=false,stored-tax=%s,next-distribution-epoch-ok=%v", stored, ok))
}

// distrScenarioMintSwitch: the mint identifier is switched hour -> day after three hourly mints (day's
// current number 1 < 3), later day -> minute (higher number), the reward and the mint denom are changed, then
// minute -> week (lower again); after each switch several ends of the new AND of the old identifier follow.
func distrScenarioMintSwitch(env *Env) {
	cfg := DefaultCfg(env.Report.Seed*1000 + 905)
	cfg.EpochID = epochstypes.WeekEpochID
	h := &distrHistCfg{cfg: cfg, distrID: epochstypes.MinuteEpochID, mintID: epochstypes.HourEpochID, reward: big.NewInt(20),
		tax: new(big.Int).Mul(big.NewInt(2), pow10(16)), rates: []*big.Int{new(big.Int).Mul(big.NewInt(5), pow10(16)), big.NewInt(0)}, shrink: map[string]time.Duration{}}
	c := distrBoot(h)
	r := &distrRunner{env: env, c: c, h: h}
	r.start("scenario-mint-identifier-switch")
	hour := time.Hour + time.Second
	r.fee(big.NewInt(1000))
	ok := r.blocks(3, hour) // hour epochs 1..3 end: 3 x 20 minted
	before := r.mintEpochs
	r.mintParams(true, utils.BaseDenom, big.NewInt(20), epochstypes.DayEpochID) // day is in its epoch 1: lower number
	r.fee(big.NewInt(7))
	ok = ok && r.blocks(2, hour)                                               // hour epochs 4, 5 end: nothing minted any more
	ok = ok && r.blocks(1, 20*time.Hour)                                       // day epoch 1 ends: reward minted once
	ok = ok && r.blocks(1, 24*time.Hour)                                       // day epoch 2
	ok = ok && r.blocks(1, 30*time.Second)                                     // no end of the mint identifier
	r.mintParams(true, utils.BaseDenom, big.NewInt(7), epochstypes.DayEpochID) // reward only
	ok = ok && r.blocks(1, 24*time.Hour)                                       // day epoch 3: 7 minted
	// fields that keep their previous values: blank / unknown identifier, invalid denom, nil / negative reward
	r.mintParams(false, "x", nil, " ")
	r.mintParams(false, "", big.NewInt(-1), "fortnight")
	r.mintParams(true, "x", big.NewInt(5), epochstypes.HourEpochID)               // in a transaction: refused by ValidateBasic
	r.mintParams(true, utils.BaseDenom, big.NewInt(7), "fortnight")               // unknown identifier: kept
	ok = ok && r.blocks(1, 24*time.Hour)                                          // day epoch 4: still 7 of the native denom
	r.mintParams(true, utils.BaseDenom, big.NewInt(7), epochstypes.MinuteEpochID) // minute: far higher number
	ok = ok && r.blocks(2, 61*time.Second)
	r.mintParams(true, distrOtherDenom, big.NewInt(9), epochstypes.MinuteEpochID) // other denom: native supply flat
	ok = ok && r.blocks(2, 61*time.Second)
	r.mintParams(true, utils.BaseDenom, big.NewInt(1), epochstypes.WeekEpochID) // week: number 1, lower again
	r.fee(new(big.Int).Add(bigPrec, big.NewInt(1)))
	ok = ok && r.blocks(1, 3*24*time.Hour) // week epoch 1 ends (7 days since genesis have passed)
	ok = ok && r.blocks(1, 7*24*time.Hour) // week epoch 2
	env.Report.Histories++
	env.Outcome(fmt.Sprintf("scenario-mint-identifier-switch:ok=%v,updates=%d,switch-lower-or-equal=%d,mint-ends-after-first-switch>0=%v", ok, r.paramUpdates, r.switchLower, r.mintEpochs > before))
}

// distrScenarioMintSwitchEqual: hour -> day right after the first hourly mint: the new identifier's current
// number EQUALS the number of the last rewarded epoch of the old one.
func distrScenarioMintSwitchEqual(env *Env) {
	cfg := DefaultCfg(env.Report.Seed*1000 + 906)
	cfg.EpochID = epochstypes.WeekEpochID
	h := &distrHistCfg{cfg: cfg, distrID: epochstypes.HourEpochID, mintID: epochstypes.HourEpochID, reward: new(big.Int).Add(bigPrec, big.NewInt(7)),
		tax: big.NewInt(0), rates: []*big.Int{big.NewInt(0), new(big.Int).Quo(bigPrec, big.NewInt(2))}, shrink: map[string]time.Duration{}}
	c := distrBoot(h)
	r := &distrRunner{env: env, c: c, h: h}
	r.start("scenario-mint-identifier-switch-equal")
	ok := r.blocks(1, time.Hour+time.Second) // hour epoch 1 ends
	before := r.mintEpochs
	r.mintParams(true, utils.BaseDenom, h.reward, epochstypes.DayEpochID) // day epoch 1 = number of the last rewarded hour epoch
	ok = ok && r.blocks(1, time.Hour+time.Second)
	ok = ok && r.blocks(1, 22*time.Hour) // day epoch 1 ends
	ok = ok && r.blocks(1, 24*time.Hour) // day epoch 2 ends
	env.Report.Histories++
	env.Outcome(fmt.Sprintf("scenario-mint-identifier-switch-equal:ok=%v,switch-lower-or-equal=%d,mint-ends-after-switch=%d", ok, r.switchLower, r.mintEpochs-before))
}

// distrScenarioDistrSwitch: the distribution identifier is switched minute -> hour -> minute with fee income in
// every block: ends of the configured identifier sweep the whole fee collector exactly once, ends of the other
// identifier leave claims and accounts alone; a refused update (unknown identifier) changes nothing; the
// community tax changes with an update and the portions follow it.
func distrScenarioDistrSwitch(env *Env) {
	cfg := DefaultCfg(env.Report.Seed*1000 + 907)
	cfg.EpochID = epochstypes.WeekEpochID
	h := &distrHistCfg{cfg: cfg, distrID: epochstypes.MinuteEpochID, mintID: epochstypes.MinuteEpochID, reward: big.NewInt(20),
		tax: new(big.Int).Mul(big.NewInt(2), pow10(16)), rates: []*big.Int{new(big.Int).Mul(big.NewInt(5), pow10(16)), big.NewInt(0)}, shrink: map[string]time.Duration{}}
	c := distrBoot(h)
	r := &distrRunner{env: env, c: c, h: h}
	r.start("scenario-distribution-identifier-switch")
	step := func(n int, d time.Duration) bool {
		for i := 0; i < n; i++ {
			r.fee(big.NewInt(int64(100000 + 7*i)))
			if !r.block(d) {
				return false
			}
		}
		return true
	}
	ok := step(2, 61*time.Second)
	before := r.distrEpochs
	r.distrParams(true, epochstypes.HourEpochID, h.tax) // hour: number 1, the minute epochs are at 3
	ok = ok && step(3, 61*time.Second)                  // minute ends: nothing is swept (the mint keeps filling the collector)
	quiet := r.distrEpochs == before
	ok = ok && step(1, time.Hour)                   // hour epoch 1 ends: everything collected so far moves at once
	r.distrParams(true, "fortnight", big.NewInt(0)) // refused
	ok = ok && step(1, time.Hour)
	r.distrParams(false, epochstypes.HourEpochID, new(big.Int).Quo(bigPrec, big.NewInt(2))) // tax 50 %
	ok = ok && step(1, time.Hour+time.Second)
	r.distrParams(true, epochstypes.MinuteEpochID, new(big.Int).Set(bigPrec)) // back to minute, tax 100 %
	ok = ok && step(2, time.Second)
	r.distrParams(false, epochstypes.DayEpochID, big.NewInt(0)) // day: number 1
	ok = ok && step(1, 24*time.Hour)
	env.Report.Histories++
	env.Outcome(fmt.Sprintf("scenario-distribution-identifier-switch:ok=%v,quiet-after-switch=%v,distr-ends-after-switch=%d,updates=%d", ok, quiet, r.distrEpochs-before, r.paramUpdates))
}
