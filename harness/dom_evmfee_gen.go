package main

// C19 — generators and directed scenarios (see dom_evmfee.go for the delivery / monitor machinery).

import (
	"fmt"
	"math/big"
	"strings"
	"time"

	sdk "github.com/cosmos/cosmos-sdk/types"
	"github.com/ethereum/go-ethereum/common"
	"github.com/ethereum/go-ethereum/core"
	ethtypes "github.com/ethereum/go-ethereum/core/types"
	"github.com/ethereum/go-ethereum/crypto"
)

var (
	addrAssetsPrecompile     = common.HexToAddress("0x0000000000000000000000000000000000000804")
	addrDelegationPrecompile = common.HexToAddress("0x0000000000000000000000000000000000000805")
)

func evmBigOf(x int64) *big.Int { return big.NewInt(x) }

// randomTx draws one mostly-valid transaction with boundary-biased fields.
func (w *evmWorld) randomTx() (from, recip *evmAcct, s EthTxSpec, tag string) {
	rng := w.rng
	senders := []*evmAcct{w.byName("funded"), w.byName("eoa0"), w.byName("eoa1"), w.byName("eoa2")}
	from = senders[rng.Pick(4, 3, 3, 2)]
	s.Type = rng.Pick(3, 2, 4)
	s.Sign = true
	s.Value = new(big.Int)
	baseFee := w.baseFee()
	// ---- target and calldata
	var to *evmAcct
	staker := common.BytesToAddress(detBytes(w.c.Cfg.Seed, "staker", rng.Intn(3))[:20])
	switch k := rng.Pick(6, 8, 4, 6); k {
	case 0: // plain transfer
		tag = "transfer"
		to = []*evmAcct{w.byName("sink"), w.byName("eoa0"), w.byName("eoa2"), from, w.byName("cStop")}[rng.Pick(4, 2, 2, 1, 2)]
	case 1: // contract call
		names := []string{"cRevert", "cInvalid", "cLoop", "cStop", "cStore", "cLog", "cBranch"}
		nm := names[rng.Pick(3, 2, 2, 2, 3, 2, 5)]
		tag = "call:" + nm
		to = w.byName(nm)
		if nm == "cStore" || nm == "cLog" {
			s.Data = common.LeftPadBytes([]byte{byte(rng.Intn(3))}, 32) // 0 clears the slot (refund counter)
		}
		if nm == "cBranch" { // outcome and gas depend on what earlier txs left in its storage (see rtBranch)
			s.Data = [][]byte{nil, {1}, {1, 2}, common.LeftPadBytes([]byte{byte(rng.Intn(3))}, 32)}[rng.Pick(3, 3, 2, 4)]
			tag = fmt.Sprintf("call:cBranch:%d", len(s.Data))
		}
	case 2: // contract creation
		inits := [][]byte{initCodeFor(rtStop), rtRevert, rtInvalid, initCodeFor(rtStore), rtLoop}
		i := rng.Pick(4, 2, 1, 2, 1)
		tag = fmt.Sprintf("create%d", i)
		s.Data = inits[i]
	case 3: // precompile, directly or through the gateway contract
		amt := []*big.Int{evmBigOf(1), evmBigOf(1000000), new(big.Int).Lsh(evmBigOf(1), 100)}[rng.Intn(3)]
		var payload []byte
		target := byte(0x04)
		if rng.Chance(2, 3) {
			payload = w.packDeposit(staker, amt)
		} else {
			target = 0x05
			payload = w.packDelegate(staker, w.c.Operators[rng.Intn(len(w.c.Operators))].Acc, amt)
		}
		if w.gwIsCtr && rng.Chance(4, 5) {
			mode := byte(rng.Pick(3, 3, 3))
			tag = fmt.Sprintf("gateway:m%d:%02x", mode, target)
			to = w.byName("cGateway")
			s.Data = append([]byte{mode, target}, payload...)
		} else {
			tag = fmt.Sprintf("precompile:%02x", target)
			if target == 0x04 {
				to = w.byName("pAssets")
			} else {
				to = w.byName("pDelegation")
			}
			s.Data = payload
		}
	}
	if to != nil {
		a := to.addr
		s.To = &a
		recip = to
	}
	if s.Type != 0 && rng.Chance(1, 3) {
		s.Access = ethtypes.AccessList{{Address: w.byName("cStore").addr, StorageKeys: []common.Hash{{}}}}
	}
	intr, _ := core.IntrinsicGas(s.Data, s.Access, s.To == nil, true, true)
	// ---- nonce
	s.Nonce = w.seq(from)
	switch rng.Pick(30, 1, 1) {
	case 1:
		s.Nonce++
	case 2:
		if s.Nonce > 0 {
			s.Nonce--
		}
	}
	// ---- gas limit
	gls := []uint64{intr, intr + 1, 2 * intr, 100000, 300000, 1000000, intr - 1, 0, 25000}
	s.GasLimit = gls[rng.Pick(3, 2, 4, 6, 4, 2, 2, 1, 2)]
	if w.maxGas > 0 && rng.Chance(1, 25) {
		s.GasLimit = uint64(w.maxGas) + uint64(rng.Intn(2))
	}
	// ---- prices
	caps := []*big.Int{
		new(big.Int).Set(baseFee), new(big.Int).Add(baseFee, evmBigOf(1)), new(big.Int).Mul(baseFee, evmBigOf(2)),
		new(big.Int).Add(new(big.Int).Mul(baseFee, evmBigOf(10)), evmBigOf(3)), new(big.Int).Sub(baseFee, evmBigOf(1)),
	}
	s.FeeCap = caps[rng.Pick(4, 3, 6, 3, 1)]
	if s.FeeCap.Sign() < 0 {
		s.FeeCap = new(big.Int)
	}
	if s.Type == 2 {
		room := new(big.Int).Sub(s.FeeCap, baseFee)
		if room.Sign() < 0 {
			room = new(big.Int)
		}
		tips := []*big.Int{new(big.Int), evmBigOf(1), room, new(big.Int).Set(s.FeeCap), new(big.Int).Add(s.FeeCap, evmBigOf(1)), rng.BigBelow(new(big.Int).Add(s.FeeCap, evmBigOf(1)))}
		s.TipCap = tips[rng.Pick(3, 3, 3, 2, 1, 4)]
	}
	// ---- value
	bal := w.bal(from)
	tip := s.TipCap
	if tip == nil {
		tip = new(big.Int)
	}
	fee := new(big.Int).Mul(effPrice(s.Type, s.FeeCap, tip, baseFee), new(big.Int).SetUint64(s.GasLimit))
	left := new(big.Int).Sub(bal, fee)
	vals := []*big.Int{new(big.Int), evmBigOf(1), evmBigOf(1000), left, new(big.Int).Add(left, evmBigOf(1)), new(big.Int).Set(bal), new(big.Int).Add(bal, evmBigOf(1)), new(big.Int).Exp(evmBigOf(10), evmBigOf(18), nil)}
	vi := rng.Pick(12, 4, 3, 2, 2, 1, 1, 2)
	if strings.HasPrefix(tag, "precompile") || strings.HasPrefix(tag, "gateway") {
		vi = 0
	}
	s.Value = vals[vi]
	if s.Value.Sign() < 0 {
		s.Value = new(big.Int)
	}
	// ---- signature
	switch rng.Pick(40, 1, 1) {
	case 1:
		s.Sign = false
	case 2:
		s.ChainID = new(big.Int).Add(w.c.App.EvmKeeper.ChainID(), evmBigOf(1))
	}
	// ---- created contract becomes a tracked account
	if s.To == nil {
		addr := crypto.CreateAddress(from.addr, s.Nonce)
		if a, ok := w.byAddr[addr]; ok {
			recip = a
		} else {
			recip = w.add(fmt.Sprintf("created%d", len(w.accts)), addr, nil)
			w.syncAcct(recip)
		}
	}
	return
}

func domEvmFee(env *Env) error {
	n := env.Int("histories", 4)
	txs := env.Int("txs", 80)
	directed := env.Int("directed", 1)
	multi := env.Int("multi", 1)
	rng := NewRNG(env.Report.Seed)
	env.Report.Domain = "evmfee"
	mults := []string{"0.5", "0", "1", "0.333333333333333333", "0.999999999999999999", "0.5", "0.000000000000000001"}
	for hi := 0; hi < n; hi++ {
		mult := sdk.MustNewDecFromStr(mults[(hi+int(env.Report.Seed))%len(mults)])
		baseFee := []int64{875000000, 1000000000000, 7, 1000000000}[rng.Intn(4)]
		minPrice := sdk.ZeroDec()
		if rng.Chance(1, 3) {
			minPrice = sdk.NewDec(baseFee).MulInt64(int64(1 + rng.Intn(3)))
		}
		maxGas := []int64{-1, 1000000, 400000, -1}[rng.Intn(4)]
		w, err := newEvmWorld(env, rng, env.Report.Seed*1000+uint64(hi), mult, minPrice, baseFee, maxGas, hi%2 == 1)
		if err == errEvmSetupViolated {
			env.Report.Histories++
			continue
		}
		if err != nil {
			return fmt.Errorf("history %d: %w", hi, err)
		}
		env.Outcome("mult=" + mult.String())
		env.Outcome(fmt.Sprintf("maxGas=%d", maxGas))
		w.add("pAssets", addrAssetsPrecompile, nil)
		w.add("pDelegation", addrDelegationPrecompile, nil)
		w.syncAcct(w.byName("pAssets"))
		w.syncAcct(w.byName("pDelegation"))
		done := 0
		for done < txs {
			k := 1 + rng.Intn(9)
			for i := 0; i < k && done < txs; i++ {
				from, recip, s, tag := w.randomTx()
				r := w.deliver(from, recip, s, tag)
				if r.class == "halt" {
					done = txs
					break
				}
				done++
			}
			if !w.nextBlock(time.Duration(1+rng.Intn(5)) * time.Second) {
				break
			}
			// now and then one cosmos tx carrying several Ethereum messages, as the first tx of the fresh block
			if multi != 0 && rng.Chance(1, 4) {
				w.deliverMulti(w.randomMulti())
				done++
			}
		}
		env.Report.Histories++
		if hi < 2 {
			env.Sample(strings.Join(w.hist[max(0, len(w.hist)-6):], " ; "))
		}
	}
	if directed != 0 {
		if err := evmDirected(env, rng); err != nil {
			return err
		}
	}
	return nil
}

// evmDirected replays fixed scenarios on the real code: each is a history of its own.
func evmDirected(env *Env, rng *RNG) error {
	seed := env.Report.Seed*1000 + 900
	half := sdk.MustNewDecFromStr("0.5")
	// D1: deliver-time admission does not compare balance with value + fee
	{
		w, err := newEvmWorld(env, rng, seed, half, sdk.ZeroDec(), 1000000000, -1, false)
		if err == errEvmSetupViolated {
			return nil
		}
		if err != nil {
			return err
		}
		w.directed = true
		from := w.byName("eoa1")
		sink := w.byName("sink")
		a := sink.addr
		bal := w.bal(from)
		price := evmBigOf(2000000000)
		fee := new(big.Int).Mul(price, evmBigOf(21000))
		val := new(big.Int).Add(new(big.Int).Sub(bal, fee), evmBigOf(1)) // value + fee = balance + 1
		s := EthTxSpec{Type: 0, Nonce: w.seq(from), GasLimit: 21000, FeeCap: price, Value: val, To: &a, Sign: true}
		// what the mempool would say
		_, bz, err := w.c.BuildEthTx(*from.actor, s)
		if err != nil {
			return err
		}
		chk := w.c.App.CheckTx(abciCheck(bz))
		r := w.deliver(from, sink, s, "directed:cost>balance")
		env.Eval("C19.admission")
		env.Outcome(fmt.Sprintf("directed:D1 check-code=%d deliver=%s", chk.Code, r.class))
		if r.class != "rej" && r.class != "skipped" {
			env.Violate("C19.admission", "admit-cost-gt-balance",
				fmt.Sprintf("tx with value+fee = balance+1 fails the balance admission check (CheckTx code %d) but DeliverTx includes it (%s, %q) and charges %s", chk.Code, r.class, r.vmErr, r.paid), w.hist)
		}
		env.Report.Histories++
	}
	// D2: block gas meter overflow after execution: fee kept in full, reported gas_used is the EVM figure
	{
		w, err := newEvmWorld(env, rng, seed+1, half, sdk.ZeroDec(), 1000000000, 400000, false)
		if err == errEvmSetupViolated {
			return nil
		}
		if err != nil {
			return err
		}
		w.directed = true
		from := w.byName("funded")
		loop := w.byName("cStop")
		a := loop.addr
		price := evmBigOf(2000000000)
		for i := 0; i < 4; i++ {
			// each tx consumes 21000 gas in the EVM and is charged the minimum 150000; the third crosses the 400000 block limit
			s := EthTxSpec{Type: 2, Nonce: w.seq(from), GasLimit: 300000, FeeCap: price, TipCap: evmBigOf(1), Value: new(big.Int), To: &a, Sign: true}
			r := w.deliver(from, loop, s, "directed:blockgas")
			env.Outcome(fmt.Sprintf("directed:D2 tx%d=%s", i, r.class))
		}
		env.Report.Histories++
	}
	// D3: precompile state written in an inner frame that reverts (gateway is a contract)
	{
		w, err := newEvmWorld(env, rng, seed+2, half, sdk.ZeroDec(), 1000000000, -1, true)
		if err == errEvmSetupViolated {
			return nil
		}
		if err != nil {
			return err
		}
		w.directed = true
		w.add("pAssets", addrAssetsPrecompile, nil)
		w.syncAcct(w.byName("pAssets"))
		from := w.byName("eoa0")
		gw := w.byName("cGateway")
		a := gw.addr
		staker := common.BytesToAddress(detBytes(seed, "staker", 0)[:20])
		price := evmBigOf(2000000000)
		depositOf := func() string {
			sid := StakerIDOf(w.c.LzID, staker)
			info, err := w.c.App.AssetsKeeper.GetStakerSpecifiedAssetInfo(w.c.Ctx, sid, w.c.AssetIDs[0])
			if err != nil || info == nil {
				return "0"
			}
			return info.TotalDepositAmount.String()
		}
		for _, mode := range []byte{0, 1, 2} {
			depB := depositOf()
			data := append([]byte{mode, 0x04}, w.packDeposit(staker, evmBigOf(12345))...)
			s := EthTxSpec{Type: 0, Nonce: w.seq(from), GasLimit: 500000, FeeCap: price, Value: new(big.Int), To: &a, Data: data, Sign: true}
			r := w.deliver(from, gw, s, fmt.Sprintf("directed:gateway-m%d", mode))
			env.Outcome(fmt.Sprintf("directed:D3 mode%d=%s digestEq=%v", mode, r.class, r.digestEq))
			env.Eval("C19.inner-revert")
			switch mode {
			case 0:
				if r.class != "ok" || r.digestEq {
					env.Note("directed-D3-mode0-no-deposit") // scenario lost its meaning: the forwarded deposit did not land
				}
			case 2:
				if r.class == "ok" && !r.digestEq {
					env.Violate("C19.inner-revert", "inner-revert-precompile-state",
						fmt.Sprintf("a depositLST made through the gateway in an inner call frame that REVERTed left its restaking-state writes in place (outer tx succeeded): staker deposit %s -> %s", depB, depositOf()), w.hist)
				}
			}
		}
		env.Report.Histories++
	}
	// D4 (regression of F-19d, repaired in e39c03d): a contract creation followed by another message of the same sender
	// in one cosmos tx. Before the repair ApplyMessageWithConfig reset the sender's nonce to msg.Nonce()+1 after
	// evm.Create, discarding the increments the ante handler had made for the later messages; the later message's nonce
	// was then accepted a second time. Silent on the repaired tree (nonce n0 -> n0+2, the replay is not attempted).
	{
		w, err := newEvmWorld(env, rng, seed+3, half, sdk.ZeroDec(), 1000000000, -1, false)
		if err == errEvmSetupViolated {
			return nil
		}
		if err != nil {
			return err
		}
		w.directed = true
		from := w.byName("eoa0")
		sink := w.byName("sink")
		a := sink.addr
		price := evmBigOf(2000000000)
		n0 := w.seq(from)
		created := w.add("createdD4", crypto.CreateAddress(from.addr, n0), nil)
		w.syncAcct(created)
		parts := []evmPart{
			{from: from, recip: created, kind: "create", s: EthTxSpec{Type: 0, Nonce: n0, GasLimit: 150000, FeeCap: price, Value: new(big.Int), Data: initCodeFor(rtStop), Sign: true}},
			{from: from, recip: sink, kind: "transfer", s: EthTxSpec{Type: 0, Nonce: n0 + 1, GasLimit: 21000, FeeCap: price, Value: evmBigOf(1000), To: &a, Sign: true}},
		}
		sinkB := w.bal(sink)
		w.deliverMulti(parts)
		env.Outcome(fmt.Sprintf("directed:D4 nonce %d -> %d after 2 messages", n0, w.seq(from)))
		if w.seq(from) == n0+1 {
			// the very same signed transfer (nonce n0+1), on its own
			r := w.deliver(from, sink, parts[1].s, "directed:batch-msg-again")
			env.Eval("C19.nonce")
			env.Outcome("directed:D4 replay=" + r.class)
			if r.class == "ok" {
				env.Violate("C19.nonce", "nonce-batch-create", fmt.Sprintf("the transfer with nonce %d was included in a cosmos tx behind a contract creation of the same sender and then included AGAIN on its own (same signed message): the recipient received %s for one signature, the sender's nonce was %d after two included transactions",
					n0+1, new(big.Int).Sub(w.bal(sink), sinkB), n0+1), w.hist)
			}
		}
		env.Report.Histories++
	}
	return nil
}
