package main

// C08 — determinism. One seeded block sequence (signed bank / delegation (1-8 per-operator entries,
// failing entries at random positions: dom_determinism_msgorder.go) / operator / oracle txs
// through the real DeliverTx, keeper-level LST deposits, delegations, undelegations and slashes
// wrapped like messages, malformed tx bytes, epoch ends, validator-set changes) is executed
//   * in K child processes of this very binary (Go randomises map iteration per process and per
//     loop, so every execution samples another schedule), each of which runs it
//   * twice with fresh applications, the second time dropping the oracle's in-memory singletons
//     after some commits (what a node restart does to non-persisted state),
// plus once more with a restart exactly before the last block of every price window,
// and every trace (per block: app hash, each ResponseDeliverTx{Code,Codespace,Data,GasUsed},
// validator updates, consensus-param updates) is compared byte for byte.
// Directed scenario F-08a: CheckTx of an oracle MsgUpdateParams on one instance only.

import (
	"bufio"
	"encoding/hex"
	"encoding/json"
	"fmt"
	"math/big"
	"os"
	"os/exec"
	"path/filepath"
	"strings"
	"sync"
	"time"

	sdkmath "cosmossdk.io/math"
	abci "github.com/cometbft/cometbft/abci/types"
	sdk "github.com/cosmos/cosmos-sdk/types"
	banktypes "github.com/cosmos/cosmos-sdk/x/bank/types"
	stakingtypes "github.com/cosmos/cosmos-sdk/x/staking/types"
	"github.com/ethereum/go-ethereum/common"

	"github.com/ExocoreNetwork/exocore/utils"
	assetskeeper "github.com/ExocoreNetwork/exocore/x/assets/keeper"
	assetstypes "github.com/ExocoreNetwork/exocore/x/assets/types"
	delegationtypes "github.com/ExocoreNetwork/exocore/x/delegation/types"
	operatortypes "github.com/ExocoreNetwork/exocore/x/operator/types"
	oraclekeeper "github.com/ExocoreNetwork/exocore/x/oracle/keeper"
	oracletypes "github.com/ExocoreNetwork/exocore/x/oracle/types"
)

func init() { register("determinism", domDeterminism) }

// StartBaseBlock of the token feeders of the determinism chain: feeders 1, 2 belong to the two assets
// (created by NewChain), 3-6 are added to the genesis by runDetSequence
var detFeederStarts = []uint64{1, 1, 2, 2, 3, 3}

// restartAtWindowEnd as restartEvery: restart right before the last block of every price window
const restartAtWindowEnd = -1

type detRestart struct {
	Index int    // first trace index executed after the restart
	Class string // closed-round | open-round | no-round: state of the oracle rounds when the process stopped
}

// detRestartLog is filled by runDetSequence (reset by the caller)
var detRestartLog []detRestart

// roundClassAtRestart reads the "R:feeder:based,nextRound,status;…" part of the aggregator dump
// (status 1 = open, 2 = closed).
func roundClassAtRestart(dump string) string {
	class := "no-round"
	for _, part := range strings.Split(dump, "|") {
		if !strings.HasPrefix(part, "R:") {
			continue
		}
		for _, r := range strings.Split(strings.TrimPrefix(part, "R:"), ";") {
			f := strings.Split(r, ",")
			if len(f) < 3 {
				continue
			}
			switch f[len(f)-1] {
			case "2":
				return "closed-round"
			case "1":
				class = "open-round"
			}
		}
	}
	return class
}

// restartSigAt classifies a divergence first seen at trace index i by the latest restart before it.
func restartSigAt(log []detRestart, i int) string {
	class := "before-any-restart"
	for _, r := range log {
		if r.Index <= i {
			class = r.Class
		}
	}
	return "nondeterminism:restart:" + class
}

// detTraceMemory (role=diag only): append the oracle's in-memory dump to every trace line
var detTraceMemory bool

type detStats struct {
	txs, txOK, keeperOps, keeperOK, epochs, valUpdates, slashes, malformed, oracleOK, avsTaskPairs int
	multiOp, multiOpFailing                                                                        int
}

// gas limit of the delegation / undelegation txs (up to 8 entries)
const detDelegationGas = 3000000

// detRepeatHook (set by the parent around its reference run): the repeat monitor of
// dom_determinism_msgorder.go on the deliver state the tx is about to be executed on
var detRepeatHook func(c *Chain, block int, bz []byte, msg sdk.Msg, signer Actor, gas uint64)

// runDetSequence executes the seeded sequence on a fresh app and returns the trace lines.
// restartEvery > 0: drop the oracle's in-memory state after every restartEvery-th commit.
func runDetSequence(seed uint64, blocks int, restartEvery int, chainID string) ([]string, detStats, string) {
	var st detStats
	rng := NewRNG(seed ^ 0xC08)
	cfg := DefaultCfg(seed)
	if chainID != "" {
		cfg.ChainID = chainID
	}
	cfg.NOperators = 3
	cfg.Powers = []int64{101, 100, 150}
	cfg.Assets = append(cfg.Assets, AssetSpec{Addr: "0xB8c77482e45F1F44dE1745F52C74426C631bDD52", Decimals: 18, Price: "300", PriceDec: 0})
	// six token feeders on three start phases (1,1 / 2,2 / 3,3; interval 10, MaxNonce 3): in the EndBlock
	// that runs out the window of one phase two rounds are sealed together while the others are still
	// open, so the validators' persisted nonce lists see several removals in SealRound's map order
	cfg.Mutate = func(c *Chain, gs map[string]json.RawMessage) {
		var og oracletypes.GenesisState
		c.App.AppCodec().MustUnmarshalJSON(gs[oracletypes.ModuleName], &og)
		for i, start := range detFeederStarts[2:] {
			og.Params.Tokens = append(og.Params.Tokens, &oracletypes.Token{Name: fmt.Sprintf("XT%d", i), ChainID: 1, ContractAddress: "0x", Decimal: 0, Active: true})
			og.Params.TokenFeeders = append(og.Params.TokenFeeders, &oracletypes.TokenFeeder{
				TokenID: uint64(len(og.Params.Tokens) - 1), RuleID: 1, StartRoundID: 1, StartBaseBlock: start, Interval: 10})
		}
		gs[oracletypes.ModuleName] = c.App.AppCodec().MustMarshalJSON(&og)
	}
	c := NewChainFresh(cfg)
	var trace []string
	// extra actors: stakers (client-chain addresses) and would-be operators
	var stakers, newOps []Actor
	for i := 0; i < 4; i++ {
		stakers = append(stakers, NewActor(seed, "staker", i))
		newOps = append(newOps, NewActor(seed, "newop", i))
	}
	// two stakers of operator[2] holding *different* assets of exactly the same USD value (0.3 USDT at
	// price 1 and 0.001 of the 18-decimals asset at price 300), smaller than every other stake: their
	// order at the end of any power-sorted list is a tie that only the iteration order of the AVS's asset
	// map can break. operator[2] is exempt from the random slashes (a slash truncates per asset and would
	// break the tie).
	for i, spec := range []struct {
		asset int
		amt   sdkmath.Int
	}{{0, sdkmath.NewIntWithDecimal(3, 5)}, {1, sdkmath.NewIntWithDecimal(1, 15)}} {
		tie := NewActor(seed, "tie", i)
		addr := common.HexToAddress(cfg.Assets[spec.asset].Addr).Bytes()
		_ = c.CachedDo(func(ctx sdk.Context) error {
			if err := c.App.AssetsKeeper.PerformDepositOrWithdraw(ctx, &assetskeeper.DepositWithdrawParams{
				ClientChainLzID: c.LzID, Action: assetstypes.DepositLST, StakerAddress: tie.Eth.Bytes(), AssetsAddress: addr, OpAmount: spec.amt}); err != nil {
				return err
			}
			return c.App.DelegationKeeper.DelegateTo(ctx, &delegationtypes.DelegationOrUndelegationParams{
				ClientChainID: c.LzID, Action: assetstypes.DelegateTo, AssetsAddress: addr, OperatorAddress: c.Operators[2].Acc,
				StakerAddress: tie.Eth.Bytes(), OpAmount: spec.amt, LzNonce: uint64(9000 + i), TxHash: common.BytesToHash(detBytes(seed, "tie", i))})
		})
	}
	// two AVSs (minute epoch) with different operator sets, hence different USD values: A = {operator0,
	// operator2}, B = {operator1, operator2}. Every third block a task is created on each of them in the
	// same block and signed by its operators, so that both tasks' statistics are taken in the same
	// BeginBlock (x/avs AfterEpochEnd ranges over a Go map of the two task groups).
	fxA, errA := setupAVSFixture(c, seed, 0, []Actor{c.Operators[0], c.Operators[2]})
	fxB, errB := setupAVSFixture(c, seed, 1, []Actor{c.Operators[1], c.Operators[2]})
	avsReady := errA == nil && errB == nil
	registered := map[int]bool{}
	funded := map[int]bool{}
	oracleNonce := map[string]int32{}
	lastBased := map[string]uint64{}
	halt := ""
	for b := 0; b < blocks && halt == ""; b++ {
		var txLines []string
		if avsReady && b%3 == 1 {
			_, e1 := createTaskWithResults(c, fxA, []Actor{c.Operators[0]})
			_, e2 := createTaskWithResults(c, fxB, []Actor{c.Operators[1], c.Operators[2]})
			txLines = append(txLines, "k.avstasks:"+shortErr(e1)+","+shortErr(e2))
			if e1 == nil && e2 == nil {
				st.avsTaskPairs++
			}
		}
		nOps := 1 + rng.Intn(5)
		for k := 0; k < nOps; k++ {
			var bz []byte
			var err error
			// set by the kinds whose handlers keep no process-local state (bank, delegation, operator): the
			// message is put through the repeat monitor before it is delivered (parent's reference run only)
			var repeatMsg sdk.Msg
			var repeatGas uint64
			repeatSigner := c.Funded
			kind := rng.Pick(5, 3, 2, 2, 4, 4, 3, 2, 2, 2)
			switch kind {
			case 0: // bank send funded -> someone (also funds would-be operators)
				i := rng.Intn(len(newOps))
				to := newOps[i].Acc
				if rng.Chance(1, 3) {
					to = c.Operators[rng.Intn(len(c.Operators))].Acc
				}
				amt := sdkmath.NewIntWithDecimal(int64(1+rng.Intn(5)), 18)
				repeatMsg, repeatGas = banktypes.NewMsgSend(c.Funded.Acc, to, sdk.NewCoins(sdk.NewCoin(utils.BaseDenom, amt))), 300000
				bz, err = signedTx(c, c.Funded, 300000, repeatMsg)
				if to.Equals(newOps[i].Acc) {
					funded[i] = true
				}
			case 1: // native-token delegation / undelegation msg with 1-8 per-operator entries, mostly valid, with
				// failing entries at random positions (generator of dom_determinism_msgorder.go): the error code
				// and the gas of such a message depend on the order in which the handler visits the entries
				var reg, unk []sdk.AccAddress
				for _, o := range c.Operators {
					reg = append(reg, o.Acc)
				}
				for _, a := range newOps {
					if c.App.OperatorKeeper.IsOperator(c.Ctx, a.Acc) {
						reg = append(reg, a.Acc)
					} else {
						unk = append(unk, a.Acc)
					}
				}
				unk = append(unk, stakers[0].Acc, stakers[1].Acc) // never operators
				sid := StakerIDOf(assetstypes.ExocoreChainLzID, c.Funded.Eth)
				bal := c.App.BankKeeper.GetBalance(c.Ctx, c.Funded.Acc, assetstypes.ExocoreAssetDenom).Amount.BigInt()
				bal.Sub(bal, new(big.Int).Mul(big.NewInt(detDelegationGas), big.NewInt(1_000_000_000)))
				ee := entryEnv{registered: reg, unknown: unk, balance: bal, delegated: func(op sdk.AccAddress) *big.Int {
					d, e1 := c.App.DelegationKeeper.GetSingleDelegationInfo(c.Ctx, sid, assetstypes.ExocoreAssetID, op.String())
					p, e2 := c.App.AssetsKeeper.GetOperatorSpecifiedAssetInfo(c.Ctx, op, assetstypes.ExocoreAssetID)
					if e1 != nil || e2 != nil || d == nil || p == nil || !p.TotalShare.IsPositive() {
						return nil
					}
					return d.UndelegatableShare.MulInt(p.TotalAmount).Quo(p.TotalShare).TruncateInt().BigInt()
				}}
				undel := !rng.Chance(2, 3)
				kvs, shape := genPerOperatorAmounts(rng, ee, undel)
				if undel {
					repeatMsg = delegationtypes.NewMsgUndelegation(assetstypes.ExocoreAssetID, c.Funded.Acc.String(), kvs)
				} else {
					repeatMsg = delegationtypes.NewMsgDelegation(assetstypes.ExocoreAssetID, c.Funded.Acc.String(), kvs)
				}
				repeatGas = detDelegationGas
				bz, err = signedTx(c, c.Funded, detDelegationGas, repeatMsg)
				if shape.n >= 2 {
					st.multiOp++
					if shape.failing > 0 {
						st.multiOpFailing++
					}
				}
			case 2: // register operator
				i := rng.Intn(len(newOps))
				if !funded[i] {
					continue
				}
				a := newOps[i]
				repeatMsg, repeatGas, repeatSigner = &operatortypes.RegisterOperatorReq{FromAddress: a.Acc.String(), Info: &operatortypes.OperatorInfo{
					EarningsAddr: a.Acc.String(), OperatorMetaInfo: fmt.Sprintf("newop%d", i),
					Commission: stakingtypes.NewCommission(sdk.ZeroDec(), sdk.ZeroDec(), sdk.ZeroDec()),
				}}, 1000000, a
				bz, err = signedTx(c, a, 1000000, repeatMsg)
				registered[i] = true
			case 3: // opt into the dogfood AVS with a consensus key / opt out
				i := rng.Intn(len(newOps))
				if !funded[i] {
					continue
				}
				a := newOps[i]
				if rng.Chance(3, 4) {
					ck, _ := NewConsKey(seed, "newcons", i)
					repeatMsg = &operatortypes.OptIntoAVSReq{FromAddress: a.Acc.String(), AvsAddress: c.AVSAddr, PublicKeyJSON: ck.ToJSON()}
				} else {
					repeatMsg = &operatortypes.OptOutOfAVSReq{FromAddress: a.Acc.String(), AvsAddress: c.AVSAddr}
				}
				repeatGas, repeatSigner = 2000000, a
				bz, err = signedTx(c, a, 2000000, repeatMsg)
			case 4: // oracle price tx by a genesis validator
				vi := rng.Intn(len(c.ConsPrivs))
				priv := c.ConsPrivs[vi]
				feeder := uint64(1 + rng.Intn(len(detFeederStarts)))
				h := uint64(c.Header.Height)
				start := detFeederStarts[feeder-1]
				based := start
				if h > start {
					based = start + (h-1-start)/10*10
				}
				key := fmt.Sprintf("%d/%d", vi, feeder)
				if based != lastBased[key] {
					oracleNonce[key] = 0
					lastBased[key] = based
				}
				oracleNonce[key]++
				price := []string{"1", "2", "300", "301", "abc", ""}[rng.Pick(4, 3, 3, 2, 1, 1)]
				bz, err = oraclePriceTx(c, priv, priceMsg(oracleCreator(priv), feeder, based, oracleNonce[key], price, 0, fmt.Sprint(based), c.Header.Time))
			case 5: // keeper-level LST deposit
				s := stakers[rng.Intn(len(stakers))]
				ai := rng.Intn(len(cfg.Assets))
				amt := sdkmath.NewIntWithDecimal(int64(1+rng.Intn(50)), int(cfg.Assets[ai].Decimals))
				e := c.CachedDo(func(ctx sdk.Context) error {
					return c.App.AssetsKeeper.PerformDepositOrWithdraw(ctx, &assetskeeper.DepositWithdrawParams{
						ClientChainLzID: c.LzID, Action: assetstypes.DepositLST, StakerAddress: s.Eth.Bytes(),
						AssetsAddress: common.HexToAddress(cfg.Assets[ai].Addr).Bytes(), OpAmount: amt,
					})
				})
				st.keeperOps++
				if e == nil {
					st.keeperOK++
				}
				txLines = append(txLines, "k.deposit:"+shortErr(e))
				continue
			case 6: // keeper-level delegate / undelegate
				s := stakers[rng.Intn(len(stakers))]
				ai := rng.Intn(len(cfg.Assets))
				var opAcc sdk.AccAddress
				if rng.Chance(3, 4) {
					opAcc = c.Operators[rng.Intn(len(c.Operators))].Acc
				} else {
					opAcc = newOps[rng.Intn(len(newOps))].Acc
				}
				amt := sdkmath.NewIntWithDecimal(int64(1+rng.Intn(20)), int(cfg.Assets[ai].Decimals))
				p := &delegationtypes.DelegationOrUndelegationParams{
					ClientChainID: c.LzID, AssetsAddress: common.HexToAddress(cfg.Assets[ai].Addr).Bytes(), OperatorAddress: opAcc,
					StakerAddress: s.Eth.Bytes(), OpAmount: amt, LzNonce: uint64(b*10 + k),
					TxHash: common.BytesToHash(detBytes(seed, "txh", b*10+k)),
				}
				undel := rng.Chance(1, 3)
				e := c.CachedDo(func(ctx sdk.Context) error {
					if undel {
						p.Action = assetstypes.UndelegateFrom
						return c.App.DelegationKeeper.UndelegateFrom(ctx, p)
					}
					p.Action = assetstypes.DelegateTo
					return c.App.DelegationKeeper.DelegateTo(ctx, p)
				})
				st.keeperOps++
				if e == nil {
					st.keeperOK++
				}
				txLines = append(txLines, fmt.Sprintf("k.deleg(%v):%s", undel, shortErr(e)))
				continue
			case 7: // keeper-level slash of a genesis operator (small fraction; it always has value)
				op := c.Operators[rng.Intn(len(c.Operators)-1)]
				frac := sdk.NewDecWithPrec(int64(1+rng.Intn(5)), 2)
				inf := stakingtypes.Infraction_INFRACTION_DOWNTIME
				if rng.Bool() {
					inf = stakingtypes.Infraction_INFRACTION_DOUBLE_SIGN
				}
				hgt := c.Header.Height - int64(rng.Intn(2))
				e := c.CachedDo(func(ctx sdk.Context) error {
					c.App.OperatorKeeper.SlashWithInfractionReason(ctx, op.Acc, hgt, 100, frac, inf)
					return nil
				})
				st.slashes++
				txLines = append(txLines, "k.slash:"+shortErr(e))
				continue
			case 8: // malformed bytes through DeliverTx
				switch rng.Intn(4) {
				case 0:
					bz = nil
				case 1:
					bz = detBytes(seed, "junk", b*10+k)
				case 2:
					good, e := signedTx(c, c.Funded, 300000, banktypes.NewMsgSend(c.Funded.Acc, c.Operators[0].Acc, nativeCoins(1)))
					if e == nil && len(good) > 10 {
						bz = good[:len(good)/2]
					}
				case 3:
					bz = make([]byte, 4096)
				}
				st.malformed++
			case 9: // oracle params update through a tx (accepted only on non-mainnet chain ids)
				p := c.App.OracleKeeper.GetParams(c.Ctx)
				mp := oracletypes.Params{MaxSizePrices: p.MaxSizePrices + 1}
				bz, err = signedTx(c, c.Funded, 2000000, &oracletypes.MsgUpdateParams{Authority: c.Funded.Acc.String(), Params: mp})
			}
			if err != nil {
				txLines = append(txLines, "build-err")
				continue
			}
			if detRepeatHook != nil && repeatMsg != nil {
				detRepeatHook(c, b, bz, repeatMsg, repeatSigner, repeatGas)
			}
			r, hlt := c.DeliverRaw(bz)
			if hlt != "" {
				halt = hlt
				break
			}
			st.txs++
			if r.Code == 0 {
				st.txOK++
				if kind == 4 {
					st.oracleOK++
				}
			}
			txLines = append(txLines, fmtDeliver(r))
			if os.Getenv("DET_DEBUG") != "" && r.Code != 0 {
				fmt.Fprintf(os.Stderr, "DEBUG h=%d kind=%d code=%d log=%s\n", c.Header.Height, kind, r.Code, tailStr(r.Log, 300))
			}
		}
		if halt != "" {
			break
		}
		var d time.Duration
		switch rng.Pick(6, 2, 2) {
		case 0:
			d = time.Duration(1+rng.Intn(10)) * time.Second
		case 1:
			d = time.Hour
		case 2:
			d = 24*time.Hour + time.Second
			st.epochs++
		}
		if b == 0 && d < time.Hour {
			// a backlog of minute epochs from the start: x/epochs catches up one epoch per block, so every
			// later block ends a minute epoch (AVS task statistics, fee distribution)
			d = time.Hour
		}
		r := c.EndAndBegin(d)
		if r.Halt != "" {
			halt = r.Halt
			break
		}
		if len(r.End.ValidatorUpdates) > 0 {
			st.valUpdates++
		}
		line := fmt.Sprintf("h=%d app=%s %s tx=[%s]", c.Header.Height-1, hex.EncodeToString(r.AppHash), fmtEnd(r.End), strings.Join(txLines, " "))
		if detTraceMemory {
			for i := 0; i < 2; i++ {
				t := NewActor(seed, "tie", i)
				sid := StakerIDOf(c.LzID, t.Eth)
				pw, perr := c.App.OperatorKeeper.CalculateUSDValueForStaker(c.Ctx, sid, c.AVSAddr, c.Operators[2].Acc.Bytes())
				line += fmt.Sprintf(" tie%d[power=%v err=%v rewards=%s]", i, pw, perr, c.App.DistrKeeper.GetStakerRewards(c.Ctx, sid).Rewards)
			}
			id := func(s string) string { return s }
			line += " mem=" + oraclekeeper.VerifDumpAgc(id) + "|" + oraclekeeper.VerifDumpCache(id)
		}
		trace = append(trace, line)
		doRestart := restartEvery > 0 && (b+1)%restartEvery == 0
		if restartEvery == restartAtWindowEnd {
			// exactly between Commit(based+MaxNonce-1) and the block based+MaxNonce that closes a round's window
			// (feeders start at block 1 with interval 10, MaxNonce 3: heights 4, 14, 24, …)
			// … but not while a round is closed inside its window: that is the trigger of the known finding
			// F-14b (the every-Nth schedule still meets it) and would mask anything else in this trace
			doRestart = c.Header.Height%10 == 4 && roundClassAtRestart(oraclekeeper.VerifDumpAgc(func(s string) string { return s })) != "closed-round"
		}
		if doRestart {
			// what a restart does to the oracle's non-persisted state; the next BeginBlock/tx/EndBlock
			// rebuilds it from the store. Remember what the rounds looked like when the process stopped.
			detRestartLog = append(detRestartLog, detRestart{Index: b + 1, Class: roundClassAtRestart(oraclekeeper.VerifDumpAgc(func(s string) string { return s }))})
			resetOracleSingletons()
			warmOracle(c)
		}
	}
	if halt != "" {
		trace = append(trace, "HALT "+halt)
	}
	return trace, st, halt
}

func writeLines(path string, lines []string) error {
	f, err := os.Create(path)
	if err != nil {
		return err
	}
	w := bufio.NewWriter(f)
	for _, l := range lines {
		w.WriteString(l)
		w.WriteByte('\n')
	}
	w.Flush()
	return f.Close()
}

func readLines(path string) ([]string, error) {
	b, err := os.ReadFile(path)
	if err != nil {
		return nil, err
	}
	s := strings.TrimRight(string(b), "\n")
	if s == "" {
		return nil, nil
	}
	return strings.Split(s, "\n"), nil
}

func firstDiffLine(a, b []string) int {
	n := len(a)
	if len(b) > n {
		n = len(b)
	}
	for i := 0; i < n; i++ {
		if i >= len(a) || i >= len(b) || a[i] != b[i] {
			return i
		}
	}
	return -1
}

func domDeterminism(env *Env) error {
	env.Report.Domain = "determinism"
	seed := env.Report.Seed
	blocks := env.Int("blocks", 40)
	role := env.Str("role", "parent")
	if role == "diag" { // developer aid: where does an emulated restart first become visible?
		detTraceMemory = true
		t1, _, _ := runDetSequence(seed, blocks, 0, "")
		rs := env.Int("restart", 7)
		if env.Str("schedule", "") == "window" {
			rs = restartAtWindowEnd
		}
		detRestartLog = nil
		t3, _, _ := runDetSequence(seed, blocks, rs, "")
		fmt.Println("restarts:", detRestartLog)
		if os.Getenv("DIAGALL") != "" {
			for _, l := range t1 {
				if i := strings.Index(l, " tie0["); i >= 0 {
					fmt.Println(l[:6], l[i:strings.Index(l, " mem=")])
				}
			}
		}
		for i := range t1 {
			if i < len(t3) && t1[i] != t3[i] {
				fmt.Println("first difference at block index", i)
				if i > 0 {
					fmt.Println("PREV:", t1[i-1])
				}
				fmt.Println("REF :", t1[i])
				fmt.Println("RST :", t3[i])
				break
			}
		}
		return nil
	}
	if role == "child" {
		t1, _, _ := runDetSequence(seed, blocks, 0, "")
		t2, _, _ := runDetSequence(seed, blocks, 0, "")
		t3, _, _ := runDetSequence(seed, blocks, env.Int("restart", 7), "")
		t4, _, _ := runDetSequence(seed, blocks, restartAtWindowEnd, "")
		if err := writeLines(filepath.Join(env.Out, "trace1.txt"), t1); err != nil {
			return err
		}
		writeLines(filepath.Join(env.Out, "trace2.txt"), t2)
		writeLines(filepath.Join(env.Out, "trace3.txt"), t3)
		writeLines(filepath.Join(env.Out, "trace4.txt"), t4)
		return nil
	}
	procs := env.Int("procs", 3)
	seqs := env.Int("histories", 1)
	for hi := 0; hi < seqs; hi++ {
		sseed := seed*100 + uint64(hi)
		hist := []string{fmt.Sprintf("det.reset seed=%d blocks=%d procs=%d", sseed, blocks, procs)}
		// the parent's own execution is the reference (and provides the statistics); its bank / delegation /
		// operator messages are first executed `repeat` times on branches of the deliver state (C08.repeat)
		if rp := env.Int("repeat", 6); rp >= 2 {
			detRepeatHook = func(c *Chain, block int, bz []byte, msg sdk.Msg, signer Actor, gas uint64) {
				fee := new(big.Int).Mul(new(big.Int).SetUint64(gas), big.NewInt(1_000_000_000))
				repeatMonitor(env, c, bz, msg, gas, antePrep(c, signer.Acc, fee), rp,
					fmt.Sprintf("%s of %s in block index %d", describeMsg(msg), signer.Acc, block), append(append([]string{}, hist...), fmt.Sprintf("det.block %d", block)))
			}
		}
		ref, st, halt := runDetSequence(sseed, blocks, 0, "")
		detRepeatHook = nil
		env.Op(hist[0], "ok")
		// the parent replays the two restart schedules itself to learn, for every emulated restart, what
		// the oracle rounds looked like when the process "stopped" (used to classify a divergence)
		detRestartLog = nil
		runDetSequence(sseed, blocks, env.Int("restart", 7), "")
		log3 := detRestartLog
		detRestartLog = nil
		runDetSequence(sseed, blocks, restartAtWindowEnd, "")
		log4 := detRestartLog
		detRestartLog = nil
		for _, r := range append(append([]detRestart{}, log3...), log4...) {
			env.Outcome("restart." + r.Class)
		}
		if halt != "" {
			env.Violate("C08.halt", "halt:"+sigOfHalt(halt), "the determinism sequence halted block processing: "+halt, hist)
		}
		var wg sync.WaitGroup
		errs := make([]error, procs)
		for p := 0; p < procs; p++ {
			wg.Add(1)
			go func(p int) {
				defer wg.Done()
				out := filepath.Join(env.Out, fmt.Sprintf("child-%d-%d", hi, p))
				cmd := exec.Command(os.Args[0], "determinism", "out="+out, fmt.Sprintf("seed=%d", sseed), fmt.Sprintf("blocks=%d", blocks), "role=child")
				if o, err := cmd.CombinedOutput(); err != nil {
					errs[p] = fmt.Errorf("child %d: %v: %s", p, err, tailStr(string(o), 400))
				}
			}(p)
		}
		wg.Wait()
		for _, e := range errs {
			if e != nil {
				return e
			}
		}
		for i, l := range ref {
			op := fmt.Sprintf("det.block %d", i)
			env.Op(op, l)
		}
		for p := 0; p < procs; p++ {
			for _, tn := range []string{"trace1", "trace2", "trace3", "trace4"} {
				t, err := readLines(filepath.Join(env.Out, fmt.Sprintf("child-%d-%d", hi, p), tn+".txt"))
				if err != nil {
					return err
				}
				mon, sig := "C08.process", "nondeterminism:process"
				if tn == "trace2" {
					mon, sig = "C08.rerun", "nondeterminism:rerun"
				}
				if tn == "trace3" || tn == "trace4" {
					mon, sig = "C08.restart", "nondeterminism:restart"
				}
				env.Eval(mon)
				if i := firstDiffLine(ref, t); i >= 0 {
					if tn == "trace3" {
						sig = restartSigAt(log3, i)
					}
					if tn == "trace4" {
						sig = restartSigAt(log4, i)
					}
					a, bb := "<missing>", "<missing>"
					if i < len(ref) {
						a = ref[i]
					}
					if i < len(t) {
						bb = t[i]
					}
					env.Violate(mon, sig, fmt.Sprintf("process %d %s differs from the reference at block index %d: ref=%q other=%q", p, tn, i, tailStr(a, 300), tailStr(bb, 300)),
						append(hist, fmt.Sprintf("det.block %d", i)))
				}
			}
		}
		env.Report.Histories++
		env.DistinctKey(fmt.Sprintf("seq%d-%d-%d-%d", sseed, st.txOK, st.keeperOK, st.valUpdates))
		env.Report.Outcomes["tx.delivered"] += st.txs
		env.Report.Outcomes["tx.code0"] += st.txOK
		env.Report.Outcomes["tx.multi-operator"] += st.multiOp
		env.Report.Outcomes["tx.multi-operator.with-failing-entry"] += st.multiOpFailing
		env.Report.Outcomes["tx.oracle.code0"] += st.oracleOK
		env.Report.Outcomes["keeper.ops"] += st.keeperOps
		env.Report.Outcomes["keeper.ok"] += st.keeperOK
		env.Report.Outcomes["epoch.ends"] += st.epochs
		env.Report.Outcomes["avs.task-pairs"] += st.avsTaskPairs
		env.Report.Outcomes["blocks.with.valupdates"] += st.valUpdates
		env.Report.Outcomes["slashes"] += st.slashes
		env.Report.Outcomes["malformed.txs"] += st.malformed
		if hi == 0 && len(ref) > 2 {
			env.Sample(ref[0])
			env.Sample(ref[len(ref)/2])
		}
	}
	// ---- directed: F-08a (repaired in the repository; kept as a regression)
	if env.Int("f08a", 1) == 1 {
		scenarioF08a(env, seed)
	}
	// ---- generated: simulation isolation of the oracle handlers
	for i := 0; i < env.Int("simruns", 4); i++ {
		simIsolationRun(env, seed*50+uint64(i))
	}
	return nil
}

// simIsolationRun: two instances execute the same seeded blocks (oracle price txs by the genesis
// validators through DeliverTx, time steps); instance A additionally *simulates* (BaseApp.Simulate =
// gas estimation, handlers run on the check state) a random batch of oracle txs between the blocks:
// price messages for open rounds (first, repeated, consensus-reaching), and params updates; none of
// them is ever delivered. Compared: every commit's app hash, and — through the verif hooks — the
// deliver-side aggregator and the pending cache right after each batch (leaks are seen before they
// reach the store).
func simIsolationRun(env *Env, seed uint64) {
	blocks := env.Int("simblocks", 24)
	type out struct {
		hashes     []string
		dumps      []string
		sims       int
		simOK      int
		simPriceOK int
		delivered  int
		halt       string
	}
	ident := func(s string) string { return s }
	run := func(withSim bool) (o out) {
		rng := NewRNG(seed ^ 0x51B)
		simRng := NewRNG(seed ^ 0x51C)
		cfg := DefaultCfg(seed)
		cfg.ChainID = utils.TestnetChainID + "-1"
		cfg.NOperators = 3
		cfg.Powers = []int64{101, 100, 150}
		c := NewChainFresh(cfg)
		nonce := map[string]int32{}
		lastBased := uint64(0)
		basedOf := func() uint64 {
			h := uint64(c.Header.Height)
			b := (h-1)/10*10 + 1
			if b != lastBased {
				nonce = map[string]int32{}
				lastBased = b
			}
			return b
		}
		for b := 0; b < blocks; b++ {
			based := basedOf()
			committed := map[string]int32{} // nonces as of the last commit = what the check state holds
			for k, v := range nonce {
				committed[k] = v
			}
			// delivered price txs (both instances): sometimes enough equal prices for consensus
			for vi := range c.ConsPrivs {
				if !rng.Chance(1, 3) {
					continue
				}
				key := fmt.Sprint(vi)
				if nonce[key] >= 3 {
					continue
				}
				price := []string{"10", "10", "11"}[rng.Intn(3)]
				bz, err := oraclePriceTx(c, c.ConsPrivs[vi], priceMsg(oracleCreator(c.ConsPrivs[vi]), 1, based, nonce[key]+1, price, 0, fmt.Sprint(based), c.Header.Time))
				if err != nil {
					continue
				}
				r, h := c.DeliverRaw(bz)
				if h != "" {
					o.halt = h
					return
				}
				if r.Code == 0 {
					nonce[key]++ // the ante handler advanced the stored nonce
					o.delivered++
				}
			}
			if withSim {
				n := 1 + simRng.Intn(4)
				// the ante handler's nonce bookkeeping of a simulated tx is written to the check state, which
				// is reset from the committed state at every Commit
				simNonce := map[int]int32{}
				for vi := range c.ConsPrivs {
					simNonce[vi] = committed[fmt.Sprint(vi)]
				}
				for k := 0; k < n; k++ {
					var bz []byte
					var err error
					isPrice := simRng.Chance(3, 4)
					if isPrice {
						vi := simRng.Intn(len(c.ConsPrivs))
						price := []string{"10", "11", "12"}[simRng.Intn(3)]
						nn := simNonce[vi] + 1
						if simRng.Chance(1, 6) {
							nn++ // a gap: rejected by the nonce check
						} else {
							simNonce[vi] = nn
						}
						// the check state still carries the previous block's time
						bz, err = oraclePriceTx(c, c.ConsPrivs[vi], priceMsg(oracleCreator(c.ConsPrivs[vi]), 1, based, nn, price, 0, fmt.Sprint(based), c.Header.Time.Add(-time.Minute)))
					} else {
						p := c.App.OracleKeeper.GetParams(c.Ctx)
						bz, err = signedTx(c, c.Funded, 2000000, &oracletypes.MsgUpdateParams{Authority: c.Funded.Acc.String(),
							Params: oracletypes.Params{MaxSizePrices: p.MaxSizePrices + int32(1+simRng.Intn(5))}})
					}
					if err != nil {
						continue
					}
					h := ""
					var simErr error
					func() {
						defer recoverTo(&h, "Simulate")
						_, _, simErr = c.App.BaseApp.Simulate(bz)
					}()
					if h != "" {
						o.halt = h
						return
					}
					o.sims++
					if simErr == nil {
						o.simOK++
						if isPrice {
							o.simPriceOK++
						}
					} else if os.Getenv("DET_DEBUG") != "" {
						fmt.Fprintln(os.Stderr, "DEBUG sim err:", tailStr(simErr.Error(), 160))
					}
				}
			}
			o.dumps = append(o.dumps, oraclekeeper.VerifDumpAgc(ident)+"|"+oraclekeeper.VerifDumpCache(ident))
			d := time.Duration(1+rng.Intn(10)) * time.Second
			r := c.EndAndBegin(d)
			if r.Halt != "" {
				o.halt = r.Halt
				return
			}
			o.hashes = append(o.hashes, hex.EncodeToString(r.AppHash))
		}
		return
	}
	op := fmt.Sprintf("sim.reset seed=%d blocks=%d", seed, blocks)
	hist := []string{op, "sim.blocks: oracle price txs delivered on both instances; instance A also simulates a batch of oracle price / params txs after each block's txs (never delivered)"}
	a := run(true)
	b := run(false)
	env.Op(op, "ok")
	env.Eval("C08.simulate")
	env.Report.Histories++
	env.Report.Outcomes["simulate.calls"] += a.sims
	env.Report.Outcomes["simulate.ok"] += a.simOK
	env.Report.Outcomes["simulate.price.ok"] += a.simPriceOK
	env.Report.Outcomes["simulate.run.price-delivered"] += a.delivered
	obs := fmt.Sprintf("sims=%d ok=%d price-ok=%d delivered=%d blocks=%d", a.sims, a.simOK, a.simPriceOK, a.delivered, len(a.hashes))
	if a.halt != "" || b.halt != "" {
		env.Violate("C08.simulate", "halt:"+sigOfHalt(a.halt+b.halt), "simulation-isolation run halted: "+a.halt+b.halt, hist)
		env.Op("sim.compare", obs+" halt")
		return
	}
	if i := firstDiffLine(a.dumps, b.dumps); i >= 0 {
		env.Violate("C08.simulate", "simulate-changes-memory:oracle",
			fmt.Sprintf("after the txs of block index %d the deliver-side oracle memory differs between the simulating and the non-simulating instance: A=%q B=%q", i, tailStr(a.dumps[i], 400), tailStr(b.dumps[i], 400)),
			append(hist, fmt.Sprintf("sim.block %d", i)))
	}
	if i := firstDiffLine(a.hashes, b.hashes); i >= 0 {
		env.Violate("C08.simulate", "simulate-changes-apphash:oracle",
			fmt.Sprintf("commit #%d differs between the instance that simulated oracle txs and the one that did not: %s vs %s", i, a.hashes[i], b.hashes[i]),
			append(hist, fmt.Sprintf("sim.block %d", i)))
	}
	env.DistinctKey(fmt.Sprintf("sim-%d-%d", seed, a.simOK))
	env.Op("sim.compare", obs+fmt.Sprintf(" same-memory=%v same-hashes=%v", firstDiffLine(a.dumps, b.dumps) < 0, firstDiffLine(a.hashes, b.hashes) < 0))
}

func tailStr(s string, n int) string {
	if len(s) > n {
		return s[:n] + "…"
	}
	return s
}

func sigOfHalt(h string) string {
	switch {
	case strings.Contains(h, "Int64() out of bound"):
		return "int64-out-of-bound"
	case strings.Contains(h, "Int overflow"):
		return "dec-overflow"
	case strings.Contains(h, "negative coin amount"), strings.Contains(h, "negative decimal coin amount"):
		return "negative-coin"
	case strings.Contains(h, "division by zero"):
		return "div-zero"
	case strings.Contains(h, "unimplemented"):
		return "unimplemented"
	case strings.Contains(h, "nil pointer"):
		return "nil-deref"
	case strings.Contains(h, "index out of range"), strings.Contains(h, "slice bounds"):
		return "index"
	}
	return "other"
}

// scenarioF08a: two instances execute the same blocks; instance A additionally sees an oracle
// MsgUpdateParams in CheckTx only (the tx is never included in a block). The handler calls
// cs.AddCache(ItemP) on the process-global cache also in CheckTx mode, so A's next EndBlock
// commits RecentParams / index entries that B does not have: the app hashes differ.
func scenarioF08a(env *Env, seed uint64) {
	run := func(withCheckTx bool) (hashes []string, code uint32, halt string) {
		cfg := DefaultCfg(seed)
		cfg.ChainID = utils.TestnetChainID + "-1"
		c := NewChainFresh(cfg)
		r := c.EndAndBegin(5 * time.Second)
		hashes = append(hashes, hex.EncodeToString(r.AppHash))
		if withCheckTx {
			p := c.App.OracleKeeper.GetParams(c.Ctx)
			mp := oracletypes.Params{MaxSizePrices: p.MaxSizePrices + 7}
			bz, err := signedTx(c, c.Funded, 2000000, &oracletypes.MsgUpdateParams{Authority: c.Funded.Acc.String(), Params: mp})
			if err != nil {
				return nil, 99, "build: " + err.Error()
			}
			// CheckTx itself does not run message handlers in this SDK version (runMsgs stops unless the
			// mode is deliver or simulate); tx *simulation* (gas estimation, open to every RPC client)
			// does, on the check state and with ctx.IsCheckTx()==true.
			h := ""
			var res abci.ResponseCheckTx
			var simErr error
			func() {
				defer recoverTo(&h, "Simulate")
				_, _, simErr = c.App.BaseApp.Simulate(bz)
			}()
			if h != "" {
				return nil, 97, h
			}
			if simErr == nil { // the same bytes then also pass CheckTx (mempool admission)
				res, h = c.CheckRaw(bz, false)
				if h != "" {
					return nil, 98, h
				}
				code = res.Code
			}
			if simErr != nil {
				code = 1000
				if os.Getenv("DET_DEBUG") != "" {
					fmt.Fprintln(os.Stderr, "DEBUG simulate:", simErr, "checktx log:", res.Log)
				}
			}
		}
		for i := 0; i < 3; i++ {
			r = c.EndAndBegin(5 * time.Second)
			if r.Halt != "" {
				return hashes, code, r.Halt
			}
			hashes = append(hashes, hex.EncodeToString(r.AppHash))
		}
		return
	}
	hist := []string{"f08a.reset chain=testnet", "f08a.block", "f08a.checktx+simulate oracle.MsgUpdateParams (instance A only; never delivered)", "f08a.block x3"}
	hb, _, haltB := run(false)
	hb2, _, _ := run(false)
	ha, code, haltA := run(true)
	env.Op("f08a.reset", "ok")
	env.Op("f08a.compare", fmt.Sprintf("checktx-code=%d same-without=%v same-with=%v", code, strings.Join(hb, ",") == strings.Join(hb2, ","), strings.Join(hb, ",") == strings.Join(ha, ",")))
	env.Eval("C08.checktx")
	env.Report.Histories++
	if haltA != "" || haltB != "" {
		env.Violate("C08.checktx", "f08a-halt", "scenario halted: "+haltA+haltB, hist)
		return
	}
	if strings.Join(hb, ",") != strings.Join(hb2, ",") {
		env.Violate("C08.checktx", "nondeterminism:rerun", "two executions without CheckTx differ", hist)
		return
	}
	if strings.Join(hb, ",") != strings.Join(ha, ",") {
		i := firstDiffLine(hb, ha)
		env.Violate("C08.checktx", "simulate-changes-apphash:oracle-update-params",
			fmt.Sprintf("CheckTx + Simulate (code %d) of an oracle MsgUpdateParams that was never delivered changed the app hash of commit #%d: %s vs %s", code, i, ha[i], hb[i]), hist)
	}
	_ = abci.CodeTypeOK
}
