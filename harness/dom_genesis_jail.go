package main

// C18 — "the same validator set continues": jailed validators at the export point.
//
// x/dogfood changes its validator set only at epoch ends. A validator that is jailed DURING an epoch (x/slashing downtime,
// x/evidence equivocation -> StakingKeeper.Jail -> x/operator SetJailedState: OptedInfo.Jailed of the chain's AVS) stays in
// the stored validator set — and in CometBFT's — with its power until that epoch ends; it leaves with a power-0 update at
// the epoch end and comes back at the epoch end after it was unjailed. Until this file existed no export point of the
// genesis domain had a jailed operator: the clause "initialising a fresh chain reproduces the validator set / the total
// power" was only ever decided on states where "in val_set" and "not jailed" coincide. This file adds
//   * the history steps `jail` / `unjail` of the random histories (any genesis validator, by the consensus address it
//     validates with or — after a key replacement — by its replaced / new key; never the last untouched validator),
//   * the validator-set view (stored validators in store order, LastTotalPower, the jail status the slashing module is
//     given per stored validator) as an input of the Lean model (`gen.jl`, `gen.tp`; `gen.val` / `gen.rev` exist) and the
//     observation `gen.valset`: what the re-imported chain stores, its LastTotalPower, the validator set InitChain hands
//     to the consensus engine and the jail status per stored validator,
//   * monitor C18.valset, the clause evaluated on the real state of both chains at every export point:
//       valset:stored       the stored validator set (address, power) right after InitChain is the original's
//       valset:initchain    the validators InitChain returns to CometBFT are the original's stored set
//       valset:total-power  LastTotalPower is reproduced, and equals the sum of the stored powers if it did before
//       valset:jailed-flag  IsValidatorJailed answers the same for every validator of the original set
//   * directed scenarios J1..J4 (a validator jailed mid-epoch; jailed after a key replacement; jailed, dropped at the epoch
//     end and unjailed; two of three validators jailed), each run on in lock step past the next epoch ends.

import (
	"encoding/hex"
	"fmt"
	"sort"
	"strings"
	"time"

	abci "github.com/cometbft/cometbft/abci/types"
	tmed25519 "github.com/cometbft/cometbft/crypto/ed25519"
	sdk "github.com/cosmos/cosmos-sdk/types"
)

type valsetView struct {
	vals   []string // "cons power", store order (the store is keyed by the consensus address)
	jailed []string // "cons 0|1" per stored validator: IsValidatorJailed
	total  string   // LastTotalPower
	sum    int64    // sum of the stored powers
	nJail  int      // stored validators reported as jailed
	init   []string // re-imported chain only: "cons power" of the validators InitChain returned, sorted
}

func viewValset(c *Chain, ctx sdk.Context) (v valsetView) {
	for _, val := range c.App.StakingKeeper.GetAllExocoreValidators(ctx) {
		h := hex.EncodeToString(val.Address)
		v.vals = append(v.vals, fmt.Sprintf("%s %d", h, val.Power))
		v.sum += val.Power
		j := 0
		if c.App.StakingKeeper.IsValidatorJailed(ctx, sdk.ConsAddress(val.Address)) {
			j = 1
			v.nJail++
		}
		v.jailed = append(v.jailed, fmt.Sprintf("%s %d", h, j))
	}
	v.total = c.App.StakingKeeper.GetLastTotalPower(ctx).String()
	return
}

func initValidators(us []abci.ValidatorUpdate) (out []string) {
	for _, u := range us {
		out = append(out, fmt.Sprintf("%s %d", hex.EncodeToString(tmed25519.PubKey(u.PubKey.GetEd25519()).Address()), u.Power))
	}
	sort.Strings(out)
	return
}

func (v valsetView) obs() string {
	sorted := append([]string{}, v.vals...)
	sort.Strings(sorted)
	js := append([]string{}, v.jailed...)
	sort.Strings(js)
	return fmt.Sprintf("init=ok val=[%s] total=%s upd=[%s] jailed=[%s]", strings.Join(sorted, ","), v.total, strings.Join(v.init, ","), strings.Join(js, ","))
}

func (w *genWorld) emitValset(v valsetView) {
	for _, j := range v.jailed {
		w.op("gen.jl "+j, "ok")
	}
	w.op("gen.tp "+v.total, "ok")
}

// checkValset is monitor C18.valset: v1 = the original chain's committed state, v2 = the re-imported chain right after
// InitChain (v2.init = the validators InitChain returned).
func (w *genWorld) checkValset(v1, v2 valsetView) {
	env := w.env
	env.Eval("C18.valset")
	srt := func(xs []string) string {
		s := append([]string{}, xs...)
		sort.Strings(s)
		return strings.Join(s, ",")
	}
	where := fmt.Sprintf(" (original: validators [%s], LastTotalPower %s, jail status [%s]; re-imported: validators [%s], LastTotalPower %s, InitChain returned [%s], jail status [%s])",
		srt(v1.vals), v1.total, srt(v1.jailed), srt(v2.vals), v2.total, srt(v2.init), srt(v2.jailed))
	if srt(v1.vals) != srt(v2.vals) {
		env.Violate("C18.valset", "valset:stored", "the validator set x/dogfood stores after InitChain from the exported genesis is not the one the original chain is running with"+where, w.hist)
	}
	if srt(v1.vals) != srt(v2.init) {
		env.Violate("C18.valset", "valset:initchain", "the validator set InitChain hands to the consensus engine is not the one the original chain is running with"+where, w.hist)
	}
	if v1.total != v2.total {
		env.Violate("C18.valset", "valset:total-power", "LastTotalPower differs after the round trip"+where, w.hist)
	} else if v1.total == fmt.Sprint(v1.sum) && v2.total != fmt.Sprint(v2.sum) {
		env.Violate("C18.valset", "valset:total-power", fmt.Sprintf("LastTotalPower (%s) is the sum of the stored validators' powers on the original chain and is not (%d) on the re-imported chain", v2.total, v2.sum)+where, w.hist)
	}
	if srt(v1.jailed) != srt(v2.jailed) && srt(v1.vals) == srt(v2.vals) {
		env.Violate("C18.valset", "valset:jailed-flag", "the jail status the slashing module is given for a validator differs after the round trip"+where, w.hist)
	}
}

// consOf: the consensus address operator oi validates with (its entry of the x/dogfood validator store), or, when it is not
// in the set, the address of its current key.
func (w *genWorld) consOf(oi int) (sdk.ConsAddress, bool) {
	c := w.c
	for _, val := range c.App.StakingKeeper.GetAllExocoreValidators(c.Ctx) {
		if found, acc := c.App.OperatorKeeper.GetOperatorAddressForChainIDAndConsAddr(c.Ctx, c.ChainIDNR, sdk.ConsAddress(val.Address)); found && acc.Equals(c.Operators[oi].Acc) {
			return sdk.ConsAddress(val.Address), true
		}
	}
	if found, key, err := c.App.OperatorKeeper.GetOperatorConsKeyForChainID(c.Ctx, c.Operators[oi].Acc, c.ChainIDNR); found && err == nil && key != nil {
		return key.ToConsAddr(), false
	}
	return nil, false
}

// jail is what x/slashing (downtime) and x/evidence (equivocation) do to a validator: StakingKeeper.Jail by consensus
// address (x/dogfood impl_sdk.go -> x/operator Jail -> SetJailedState); unjail is what MsgUnjail ends in.
func (w *genWorld) jail(oi int, on bool) string {
	c := w.c
	cons, inSet := w.consOf(oi)
	if cons == nil {
		return "no-key"
	}
	before := c.App.StakingKeeper.IsValidatorJailed(c.Ctx, cons)
	if on {
		w.note("StakingKeeper.Jail operator=%d consAddr=%x (in the validator set: %v)", oi, []byte(cons), inSet)
		c.App.StakingKeeper.Jail(c.Ctx, cons)
	} else {
		w.note("StakingKeeper.Unjail operator=%d consAddr=%x (in the validator set: %v)", oi, []byte(cons), inSet)
		c.App.StakingKeeper.Unjail(c.Ctx, cons)
	}
	after := c.App.StakingKeeper.IsValidatorJailed(c.Ctx, cons)
	if w.jailed == nil {
		w.jailed = map[int]bool{}
	}
	w.jailed[oi] = after
	return fmt.Sprintf("inset=%v:%v->%v", inSet, before, after)
}

// genJailScenarios: directed scenarios J1..J4 (3 validators of power 101/100/150, hour epochs).
func genJailScenarios(env *Env, rng *RNG) {
	hour := time.Hour + time.Second
	world := func(tag string, i uint64) *genWorld {
		w := newGenWorld(env, rng, env.Report.Seed*1000+960+i)
		w.directed = tag
		w.contStep = 31 * time.Minute // the continuation closes the running epoch (and the next ones) on both chains
		w.c.EndAndBegin(time.Minute)
		return w
	}
	// J1: a validator jailed in the middle of an epoch, exported before the epoch ends: still in val_set, with its power
	for _, oi := range []int{0, 2} {
		genScenario(env, "J1", func() {
			w := world("J1", 0)
			w.c.EndAndBegin(hour)
			w.c.EndAndBegin(time.Minute)
			env.Outcome("directed:J1 jail=" + w.jail(oi, true))
			w.runOne(0, false, 5)
		})
	}
	// J2: the key of a validator is replaced, then the validator is jailed through the key it still validates with (the
	// stored entry is the OLD key; the operator's current key is not in the set)
	genScenario(env, "J2", func() {
		w := world("J2", 1)
		w.c.EndAndBegin(hour)
		w.c.EndAndBegin(time.Minute)
		e := w.replaceKey(1)
		env.Outcome("directed:J2 replace=" + genErrClass(e) + " jail=" + w.jail(1, true))
		w.runOne(0, false, 5)
	})
	// J3: jailed, dropped from the set at the epoch end, unjailed in the next epoch: exported while OUT of the set and not
	// jailed (it comes back at the next epoch end on both chains); and exported while out of the set and still jailed
	for _, unjail := range []bool{true, false} {
		genScenario(env, "J3", func() {
			w := world("J3", 2)
			r := w.jail(0, true)
			w.c.EndAndBegin(hour)
			w.c.EndAndBegin(time.Minute)
			if unjail {
				r += " unjail=" + w.jail(0, false)
			}
			env.Outcome("directed:J3 jail=" + r)
			w.runOne(0, false, 5)
		})
	}
	// J4: two of the three validators jailed in the same epoch, one of them unjailed again before the export
	genScenario(env, "J4", func() {
		w := world("J4", 3)
		w.c.EndAndBegin(hour)
		w.c.EndAndBegin(time.Minute)
		r := w.jail(0, true) + " " + w.jail(1, true)
		w.c.EndAndBegin(time.Second)
		r += " " + w.jail(1, false)
		env.Outcome("directed:J4 jail=" + r)
		w.runOne(0, false, 5)
	})
}
