package main

import (
	"encoding/hex"
	"fmt"
	"math/big"
	"regexp"
	"sort"
	"strings"
	"time"

	sdkmath "cosmossdk.io/math"
	sdk "github.com/cosmos/cosmos-sdk/types"
	"github.com/ethereum/go-ethereum/common"

	assetstypes "github.com/ExocoreNetwork/exocore/x/assets/types"
	delegationtypes "github.com/ExocoreNetwork/exocore/x/delegation/types"
	dogfoodtypes "github.com/ExocoreNetwork/exocore/x/dogfood/types"
	epochstypes "github.com/ExocoreNetwork/exocore/x/epochs/types"
	distributiontypes "github.com/ExocoreNetwork/exocore/x/feedistribution/types"
	operatortypes "github.com/ExocoreNetwork/exocore/x/operator/types"
	oracletypes "github.com/ExocoreNetwork/exocore/x/oracle/types"
)

// genForceUnbond, when non-zero, fixes EpochsUntilUnbonded of the next world (directed scenarios)
var genForceUnbond uint32

func newGenWorld(env *Env, rng *RNG, seed uint64) *genWorld {
	return newGenWorldCfg(env, rng, seed, false)
}

func newGenWorldCfg(env *Env, rng *RNG, seed uint64, withNST bool) *genWorld {
	cfg := DefaultCfg(seed)
	if withNST {
		cfg.Assets = append(cfg.Assets, AssetSpec{Addr: nstAddrHex, Decimals: 18, Price: "1", PriceDec: 0})
		xbResetOracleMem()
	}
	cfg.NOperators = 3
	cfg.Powers = []int64{101, 100, 150}
	cfg.EpochID = epochstypes.HourEpochID
	cfg.EpochsUntilUnbonded = uint32(1 + rng.Intn(3))
	if genForceUnbond != 0 {
		cfg.EpochsUntilUnbonded = genForceUnbond // the draw above is kept so that the random stream does not depend on it
	}
	cfg.Assets[0].Addr = strings.ToLower(cfg.Assets[0].Addr) // a genesis document that itself passes Validate
	// options of dom_genesis_boundary.go (consumed here): a second LST held by nobody at genesis, non-default module params
	o := genNextOpts
	genNextOpts = genOpts{}
	if o.lst2 {
		cfg.Assets = append(cfg.Assets, AssetSpec{Addr: lst2AddrHex, Decimals: 6, Price: "1", PriceDec: 0})
	}
	if o.modParams {
		cfg.Mutate = genMutateModParams(seed)
	}
	if o.equalPowers {
		cfg.Powers = []int64{100, 100, 100}
	}
	w := &genWorld{env: env, rng: rng, optOut: map[int]bool{}, selfUnd: map[int]int64{}}
	for i := 0; i < 4; i++ {
		w.stakers = append(w.stakers, common.BytesToAddress(detBytes(seed, "gstaker", i)[:20]))
	}
	if genMulti && !o.lst2 && !withNST {
		w.multi = true
		genMultiCfg(&cfg, w) // dom_genesis_multi.go: two further LSTs WITH genesis holders (chained after cfg.Mutate)
	}
	w.c = genBoot(cfg) // NewChain; a panic of InitChain is tagged (genScenario reports it and ends the scenario only)
	return w
}

// ---- the part of the state the Lean model tracks, as model ops

type coreView struct {
	unds []string // id complete amount hold
	qs   []string // prefix epoch item
	cur  []string // operator cons
	prev []string // operator cons (key replaced during the running epoch)
	rev  []string // cons operator
	vals []string // cons power (x/dogfood validator store)
}

func viewCore(c *Chain, ctx sdk.Context) (v coreView) {
	recs, _ := c.App.DelegationKeeper.AllUndelegations(ctx)
	for _, r := range recs {
		key := delegationtypes.GetUndelegationRecordKey(r.BlockNumber, r.LzTxNonce, r.TxHash, r.OperatorAddr)
		v.unds = append(v.unds, fmt.Sprintf("%x %d %s %d", sha8(key), r.CompleteBlockNumber, r.Amount, c.App.DelegationKeeper.GetUndelegationHoldCount(ctx, key)))
	}
	sort.Strings(v.unds)
	st := ctx.KVStore(c.App.GetKey(dogfoodtypes.StoreKey))
	for _, p := range []byte{dogfoodtypes.OptOutsToFinishBytePrefix, dogfoodtypes.ConsensusAddrsToPruneBytePrefix, dogfoodtypes.UnbondingReleaseMaturityBytePrefix} {
		it := sdk.KVStorePrefixIterator(st, []byte{p})
		for ; it.Valid(); it.Next() {
			line := fmt.Sprintf("%d %d %x", p, sdk.BigEndianToUint64(it.Key()[1:]), sha8(it.Value()))
			if p == dogfoodtypes.UnbondingReleaseMaturityBytePrefix {
				// the record ids a maturity entry lists: the model rebuilds the hold counts from them
				var keys dogfoodtypes.UndelegationRecordKeys
				if err := c.App.AppCodec().Unmarshal(it.Value(), &keys); err == nil && len(keys.GetList()) > 0 {
					var ids []string
					for _, k := range keys.GetList() {
						ids = append(ids, fmt.Sprintf("%x", sha8(k)))
					}
					line += " " + strings.Join(ids, "+")
				}
			}
			v.qs = append(v.qs, line)
		}
		it.Close()
	}
	recsK, _ := c.App.OperatorKeeper.GetAllOperatorConsKeyRecords(ctx)
	for _, r := range recsK {
		for _, ch := range r.Chains {
			v.cur = append(v.cur, fmt.Sprintf("%s %s", r.OperatorAddress, consHex(ch.ConsensusKey)))
		}
	}
	prevs, _ := c.App.OperatorKeeper.GetAllPrevConsKeys(ctx)
	for _, p := range prevs {
		op := p.Key // chainID/operator
		if i := strings.LastIndexByte(op, '/'); i >= 0 {
			op = op[i+1:]
		}
		v.prev = append(v.prev, fmt.Sprintf("%s %s", op, consHex(p.ConsensusKey)))
	}
	ost := ctx.KVStore(c.App.GetKey(operatortypes.StoreKey))
	it := sdk.KVStorePrefixIterator(ost, []byte{operatortypes.BytePrefixForChainIDAndConsKeyToOperator})
	for ; it.Valid(); it.Next() {
		k := it.Key()
		v.rev = append(v.rev, fmt.Sprintf("%s %s", hex.EncodeToString(k[len(k)-20:]), sdk.AccAddress(it.Value()).String()))
	}
	it.Close()
	for _, val := range c.App.StakingKeeper.GetAllExocoreValidators(ctx) {
		v.vals = append(v.vals, fmt.Sprintf("%s %d", hex.EncodeToString(val.Address), val.Power))
	}
	sort.Strings(v.vals)
	sort.Strings(v.cur)
	sort.Strings(v.prev)
	sort.Strings(v.rev)
	return
}

func consHex(keyHex string) string {
	k := keytypesFromHex(keyHex)
	if k == nil {
		return "bad"
	}
	return hex.EncodeToString(k)
}

func (v coreView) obs() string {
	qs := make([]string, len(v.qs))
	for i, q := range v.qs {
		f := strings.Fields(q)
		qs[i] = strings.Join(f[:3], " ") // prefix epoch digest (the record ids are an input of the model only)
	}
	return fmt.Sprintf("und=[%s] q=[%s] rev=[%s] val=[%s]", strings.Join(v.unds, ","), strings.Join(qs, ","), strings.Join(v.rev, ","), strings.Join(v.vals, ","))
}

func (w *genWorld) emitCore(v coreView) {
	w.op("gen.reset", "ok")
	for _, u := range v.unds {
		w.op("gen.und "+u, "ok")
	}
	for _, q := range v.qs {
		w.op("gen.q "+q, "ok")
	}
	for _, k := range v.cur {
		w.op("gen.cur "+k, "ok")
	}
	for _, k := range v.prev {
		w.op("gen.prev "+k, "ok")
	}
	for _, k := range v.vals {
		w.op("gen.val "+k, "ok")
	}
	for _, k := range v.rev {
		w.op("gen.rev "+k, "ok")
	}
}

var reUpdateTime = regexp.MustCompile(`"update_time":"[^"]*"`)

// whitelisted store prefixes per module: known gaps, each demonstrated by the directed scenario under its own sig
var knownGapPrefixes = map[string]map[byte]string{
	// F-18a (dogfood 0x05/0x06/0x0d) and F-18b (delegation 0x06) are repaired: no longer whitelisted
	"dogfood": {0x0c: "historical info (ephemeral)", 0x0f: "validator updates (ephemeral)"},
	// F-18g (operator 0x01, commission update_time) and F-18h (dogfood 0x01) are repaired: no longer whitelisted;
	// operator 0x0a (reverse lookups) is classified entry by entry in check(): F-18c repaired, F-18i open
	"oracle":          {0x4b: "F-18f oracle nonces"},
	"feedistribution": {0x00: "F-18e", 0x02: "F-18e", 0x03: "F-18e", 0x66: "F-18e", 0x01: "F-18e", 0x04: "F-18e", 0x05: "F-18e", 0x06: "F-18e", 0x07: "F-18e"},
}

func keyPrefixOf(diffKey string) byte {
	b, err := hex.DecodeString(diffKey[1:])
	if err != nil || len(b) == 0 {
		return 0xff
	}
	return b[0]
}

// check evaluates the round-trip result; in directed mode the known gaps are raised as violations with their
// own sig, in random mode they are only counted and everything else is an (unlisted) violation.
func (w *genWorld) check(res roundTripResult, v1, v2 coreView, directed bool) {
	env := w.env
	env.Eval("C18.import")
	if res.importErr != "" {
		if strings.Contains(res.importErr, "operator not found for key") && len(v1.prev) > 0 {
			// F-18c (repaired) as it shows once val_set carries the stored keys: x/dogfood InitGenesis cannot resolve the
			// validator's (replaced, still active) key because its reverse lookup was not rebuilt by x/operator
			env.Violate("C18.import", "prev-key-reverse-lost", "the reverse lookup of a key replaced during the running epoch is not rebuilt at import: x/dogfood InitGenesis fails with "+res.importErr, w.hist)
		}
		if strings.HasPrefix(res.importErr, "export:") {
			// no document at all: a module's ExportGenesis panicked on a reachable state
			env.Violate("C18.import", "export-failed", "no genesis document can be exported from this state: "+res.importErr, w.hist)
			return
		}
		env.Violate("C18.import", "import-failed", "export/import failed: "+res.importErr, w.hist)
		return
	}
	env.Eval("C18.validate")
	for _, m := range sortedKeys(res.validateErr) {
		e := res.validateErr[m]
		if w.slashStateFinding(m, e) { // dom_genesis_slashed.go: F-18s under its own sigs
			continue
		}
		if m == "delegation" && strings.Contains(e, "TxHash isn't a") {
			// F-18d (repaired): kept under its own sig so that a re-introduction is reported as such
			env.Violate("C18.validate", "validate:delegation-txhash", "the delegation module's own export fails GenesisState.Validate as soon as an undelegation is pending: "+e, w.hist)
			continue
		}
		if m == "oracle" && strings.Contains(e, "not found in stakerLisetAssets") {
			// F-18l (repaired; kept under its own sig): the exported staker-list asset ids carry the store prefix
			env.Violate("C18.validate", "oracle-stakerlist-key-doubled", "x/oracle GetAllStakerListAssets exports the full store key (NativeToken/stakerList/value/<assetID>) as asset id: the module's own export fails Validate: "+e, w.hist)
			continue
		}
		if m == "oracle" && strings.Contains(e, "from stakerInfo has index") {
			// F-18n (repaired): kept under its own sig so that a re-introduction is reported as such
			env.Violate("C18.validate", "validate:oracle-stale-staker-index", "after a native-restaking staker left, the StakerIndex stored in the infos of the stakers behind it no longer matches their position in the staker list: the module's own export fails Validate: "+e, w.hist)
			continue
		}
		if m == "oracle" && strings.Contains(e, "length not equal for stakerListAssets and stakerInfosAssets") {
			// F-18m (repaired; kept under its own sig): the staker list entry of an NST asset outlives its last staker
			env.Violate("C18.validate", "validate:oracle-empty-stakerlist", "after the last native-restaking staker of an asset withdrew, x/oracle keeps an empty staker list for the asset and no staker info: the module's own export fails Validate: "+e, w.hist)
			continue
		}
		if m == "assets" && strings.Contains(e, "unknown assetID for operator assets") && strings.Contains(e, assetstypes.ExocoreAssetID) {
			// F-18j (repaired; kept under its own sig): a native-token pool row under ExocoreAssetID, not a registered token
			env.Violate("C18.validate", "validate:assets-native-pool", "after a native-token delegation the assets module's own export fails GenesisState.Validate (the operator pool row of "+assetstypes.ExocoreAssetID+" references a token that x/assets never lists): "+e, w.hist)
			continue
		}
		if m == "assets" && strings.Contains(e, "not hex address for token") {
			// F-18k: client chains with more than 20 address bytes are admitted by the precompile, rejected by Validate
			env.Violate("C18.validate", "validate:assets-wide-address", "a token of a client chain with more than 20 address bytes (admitted by the assets precompile: addressLength >= 20) makes the assets module's own export fail GenesisState.Validate: "+e, w.hist)
			continue
		}
		if m == "operator" && strings.Contains(e, "should be in the avsUSDValues map") {
			// F-18o (repaired: Validate reads a missing AVS value as zero; kept under its own sig so that a re-introduction is
			// reported as such): OptIn writes the (AVS, operator) USD value entry at once (InitOperatorUSDValue), the AVS's own USD value is first
			// written at the AVS's next epoch end (UpdateVotingPower): exported in between, the module's own export is rejected
			env.Violate("C18.validate", "validate:operator-avs-value-missing", "an operator opted into an AVS whose USD value has not been written yet (first written at the AVS's next epoch end): the operator module's own export fails GenesisState.Validate: "+e, w.hist)
			continue
		}
		if m == "operator" && strings.Contains(e, "the avs address should be in the opted-in map") && strings.Contains(e, "Amount:0.000000000000000000") {
			// F-18r (repaired: a zero value is accepted; kept under its own sig): UpdateVotingPower writes the AVS's USD value (0) at every epoch end of the AVS, also when no operator ever
			// opted into it; ValidateAVSUSDValues accepts only AVSs that occur in some opted state
			env.Violate("C18.validate", "validate:operator-avs-without-operators", "an AVS that no operator has opted into got its USD value (0) written at its epoch end: the operator module's own export fails GenesisState.Validate: "+e, w.hist)
			continue
		}
		if m == "operator" && strings.Contains(e, "shouldn't be greater than the total USD value of the AVS") && w.inactiveAboveAVS() {
			// F-18p (repaired: Validate compares the ACTIVE value; kept under its own sig): UpdateVotingPower adds only the ACTIVE operators' totals (self value >= the AVS's minimum self delegation) to the
			// AVS's USD value, but stores the total of an inactive operator too; Validate compares every operator's total with it
			env.Violate("C18.validate", "validate:operator-inactive-total", "an operator below the AVS's minimum self delegation (active value 0) whose total USD value exceeds the sum of the active operators' totals: the operator module's own export fails GenesisState.Validate: "+e, w.hist)
			continue
		}
		env.Violate("C18.validate", "validate:"+m, "exported "+m+" genesis fails Validate: "+e, w.hist)
	}
	env.Eval("C18.json")
	for i, m := range res.jsonDiff {
		if m == "operator" && strings.Join(w.lastOp.ops, ",") != strings.Join(res.postOp.ops, ",") {
			env.Violate("C18.json", "operator-earnings-changed", fmt.Sprintf("InitGenesis changed an operator's earnings address: before the export %v, re-imported %v: %s", w.lastOp.ops, res.postOp.ops, res.jsonWhere[i]), w.hist)
			continue
		}
		if m == "operator" && strings.Contains(res.jsonWhere[i], "update_time") {
			// F-18g (repaired): kept under its own sig so that a re-introduction is reported as such
			env.Violate("C18.json", "operator-update-time", "InitGenesis changed an operator's commission update_time: "+res.jsonWhere[i], w.hist)
			continue
		}
		if m == "oracle" && strings.Contains(res.jsonWhere[i], oracletypes.NativeTokenStakerListKeyPrefix+oracletypes.NativeTokenStakerListKeyPrefix) {
			env.Violate("C18.json", "oracle-stakerlist-key-doubled", "the second export lists the native-restaking staker lists under asset ids with the store prefix prepended twice: "+res.jsonWhere[i], w.hist)
			continue
		}
		env.Violate("C18.json", "json:"+m, "second export differs from the first: "+res.jsonWhere[i], w.hist)
	}
	env.Eval("C18.store")
	if env.Int("debug", 0) != 0 {
		for m, d := range res.storeDiff {
			for _, k := range d {
				if b, err := hex.DecodeString(k[1:]); err == nil && (m == "operator" || m == "oracle" || m == "dogfood") {
					fmt.Printf("DEBUG %s %c %q\n", m, k[0], string(b))
				}
			}
		}
	}
	gaps := map[string]bool{}
	for _, m := range sortedKeys(res.storeDiff) {
		for _, k := range res.storeDiff[m] {
			p := keyPrefixOf(k)
			if m == "dogfood" && (p == dogfoodtypes.OptOutsToFinishBytePrefix || p == dogfoodtypes.OperatorOptOutFinishEpochBytePrefix) {
				env.Violate("C18.store", "optout-rescheduled", "the opt-out schedule of x/dogfood (finish epoch -> operators, operator -> finish epoch) differs after the round trip: a pending opt-out must keep the finish epoch it was exported with: "+describeKeys([]string{k}), w.hist)
				continue
			}
			if m == "dogfood" && p == 0x01 && len(v1.prev) == 0 {
				// no key was replaced in the running epoch (F-18h cannot be the reason): the stored validator set itself is not reproduced
				env.Violate("C18.store", "valset:store", "a validator entry of the x/dogfood store differs after the round trip ("+string(k[0])+" = only on the re-imported chain, - = only on the original): "+describeKeys([]string{k}), w.hist)
				continue
			}
			if m == "dogfood" && p == 0x01 {
				// F-18h (repaired): kept under its own sig so that a re-introduction is reported as such
				env.Violate("C18.store", "validator-key-rotated-early", "a validator entry of x/dogfood differs after the round trip (a validator whose consensus key was replaced during the epoch must be exported under the key it still validates with, not under the operator's new key): "+describeKeys([]string{k}), w.hist)
				continue
			}
			if m == "operator" && p == 0x0a {
				// reverse lookup cons -> operator: of a key replaced in the running epoch (PrevConsKey record present:
				// F-18c, repaired) or of a key whose record was cleared and that waits in the prune queue (F-18i, open)
				cons := ""
				if b, err := hex.DecodeString(k[1:]); err == nil && len(b) >= 20 {
					cons = hex.EncodeToString(b[len(b)-20:])
				}
				isPrev := false
				for _, pk := range v1.prev {
					if strings.HasSuffix(pk, " "+cons) {
						isPrev = true
					}
				}
				if isPrev && k[0] == '+' {
					// F-18q: the operator was NOT an active validator when it replaced the key: AfterOperatorKeyReplaced deleted the
					// reverse lookup at once (nothing to prune) but the PrevConsKey record stays until the epoch ends, and
					// SetAllPrevConsKeys rebuilds the lookup of every exported previous key
					env.Violate("C18.store", "prev-key-reverse-resurrected", "the re-imported chain holds a reverse lookup (consensus address "+cons+" -> operator) that the original chain deleted when the key was replaced (the operator was not in the validator set, so x/dogfood removed the lookup at once instead of queueing it for pruning): SetAllPrevConsKeys rebuilds the lookup of every previous key; it is in no prune queue and is never removed", w.hist)
				} else if isPrev {
					env.Violate("C18.store", "prev-key-reverse-lost", "the reverse lookup (consensus address "+cons+" -> operator) of a key replaced during the running epoch is missing after the round trip", w.hist)
				} else {
					env.Outcome("gap:F-18i:operator")
					if directed {
						env.Violate("C18.store", "pruning-key-reverse-lost", "the reverse lookup (consensus address "+cons+" -> operator) of a replaced key whose PrevConsKey record was cleared at the end of its epoch and that waits in x/dogfood's prune queue is in no export: missing after the round trip", w.hist)
					}
				}
				continue
			}
			if m == "oracle" {
				if b, err := hex.DecodeString(k[1:]); err == nil && strings.HasPrefix(string(b), oracletypes.NativeTokenStakerListKeyPrefix) {
					// F-18l: the staker list is re-imported under prefix+prefix+assetID; prefix+assetID is missing
					env.Violate("C18.store", "oracle-stakerlist-key-doubled", fmt.Sprintf("x/oracle staker list entry %q differs after the round trip (%c): SetStakerList prepends the store prefix to an exported asset id that already carries it", string(b), k[0]), w.hist)
					continue
				}
			}
			if m == "feedistribution" && p == 0x66 {
				// 0x66 = 'f': the fee pool ("feePoolKey", F-18e: not exported) AND the params ("feedistributionPrefixParams…", exported)
				if b, err := hex.DecodeString(k[1:]); err == nil && strings.HasPrefix(string(b), string(distributiontypes.KeyPrefixParams)) {
					env.Violate("C18.store", "store:feedistribution:params", "module feedistribution: the params differ after the round trip ("+string(k[0])+" "+string(b)+"): the export does not carry the params the chain runs with", w.hist)
					continue
				}
			}
			if why, ok := knownGapPrefixes[m][p]; ok {
				gaps[why[:5]] = true
				env.Outcome("gap:" + strings.Fields(why)[0] + ":" + m)
				continue
			}
			env.Violate("C18.store", fmt.Sprintf("store:%s:%02x", m, p), fmt.Sprintf("module %s: store entry %s differs after the round trip", m, describeKeys([]string{k})), w.hist)
		}
	}
	if directed {
		lost := func(m string, ps ...byte) int {
			n := 0
			for _, k := range res.storeDiff[m] {
				for _, p := range ps {
					if keyPrefixOf(k) == p && k[0] == '-' {
						n++
					}
				}
			}
			return n
		}
		if n := lost("dogfood", 0x05, 0x06, 0x0d); n > 0 {
			env.Violate("C18.store", "dogfood-queues-lost", fmt.Sprintf("%d dogfood entries (consensus addresses to prune, undelegations to mature, maturity-epoch index) are missing after the round trip: GetAllConsAddrsToPrune and GetAllUndelegationsToMature iterate OptOutsToFinishBytePrefix", n), w.hist)
		}
		if n := lost("delegation", 0x06); n > 0 {
			env.Violate("C18.store", "hold-count-lost", fmt.Sprintf("%d undelegation hold counts are neither exported nor rebuilt", n), w.hist)
		}
		if n := len(res.storeDiff["feedistribution"]); n > 0 {
			env.Violate("C18.store", "feedistribution-state-lost", fmt.Sprintf("x/feedistribution exports only its params: %d store entries (outstanding rewards, commissions, staker rewards, fee pool) are missing after the round trip", n), w.hist)
		}
		if n := lost("oracle", 0x4b); n > 0 {
			env.Violate("C18.store", "oracle-nonce-lost", fmt.Sprintf("%d oracle validator nonces are not exported", n), w.hist)
		}
	}
	env.Eval("C18.behaviour")
	for _, d := range res.contDiff {
		if strings.Contains(d, "opt-out completes") {
			env.Violate("C18.behaviour", "optout-rescheduled", d, w.hist)
			continue
		}
		if strings.Contains(d, "released") {
			// F-18b (repaired): kept under its own sig
			env.Violate("C18.behaviour", "early-release", d, w.hist)
			continue
		}
		if strings.Contains(d, "validator") && len(v1.prev) == 0 {
			env.Violate("C18.behaviour", "valset:continuation", d, w.hist)
			continue
		}
		if strings.Contains(d, "validator") {
			// F-18h (repaired): both chains must keep the same validator set and emit the same updates
			env.Violate("C18.behaviour", "validator-key-rotated-early", d, w.hist)
			continue
		}
		env.Violate("C18.behaviour", "behaviour", d, w.hist)
	}
	_ = gaps
}

func (w *genWorld) randomOps(n int) {
	c := w.c
	free := map[[2]int]int64{}          // deposited and not delegated, per (staker, asset)
	back := map[[2]int]int64{}          // being undelegated: withdrawable again once every pending undelegation has completed
	deleg := map[[3]int]int64{}         // delegated, per (staker, operator, asset)
	fav := w.rng.Intn(len(c.Operators)) // the operator most delegations of the second LST go to
	for k, v := range w.genFree {       // multi-asset world: what the stakers hold (withdrawable) at genesis
		free[k] = v
	}
	for i := 0; i < n; i++ {
		si := w.rng.Intn(len(w.stakers))
		oi := w.rng.Intn(len(c.Operators))
		// the asset this step acts on: mostly the first LST; the second one (if the world has it) has few holders and
		// mostly one operator, so that "everything of an asset is with one operator" is an ordinary export point
		ai := 0
		if len(c.Cfg.Assets) > 1 && c.Cfg.Assets[1].Addr == lst2AddrHex && w.rng.Chance(1, 3) {
			ai = 1
			si = w.rng.Intn(2)
			if w.rng.Chance(4, 5) {
				oi = fav
			}
		}
		if w.multi {
			// multi-asset world: every ledger op picks one of the three LSTs: stakers with 2-3 rows, operators with 2-3 pools
			ai = w.rng.Intn(len(c.Cfg.Assets))
		}
		w.asset = ai
		// whole amounts (all that is free / all that is delegated) as often as partial ones: zero remainders
		whole := w.rng.Chance(1, 3)
		switch w.rng.Pick(3, 4, 4, 1, 4, 1, 2, 2, 1, 1, 1, 2, 1, 2, 3, 1) {
		case 13:
			// the chain runs on until every pending undelegation has completed (10 blocks + the x/dogfood hold): pools that
			// everybody has left become rows of zeros, what was undelegated can be delegated again or withdrawn
			_, left := w.matureAll()
			if c.Halted != "" {
				return
			}
			if left == 0 {
				for k, v := range back {
					free[k] += v
					delete(back, k)
				}
			}
			w.env.Outcome(fmt.Sprintf("op:mature:all-completed=%v", left == 0))
		case 14:
			// a genesis validator is jailed (what x/slashing / x/evidence do through StakingKeeper.Jail): it stays in the stored
			// validator set, with its power, until the running epoch ends
			g := w.rng.Intn(c.Cfg.NOperators)
			if w.jailed[g] || !w.othersUntouched(g) {
				continue
			}
			w.env.Outcome("op:jail:" + w.jail(g, true))
		case 15:
			// a jailed validator is unjailed (back in the set at the next epoch end)
			g := -1
			for h := 0; h < c.Cfg.NOperators; h++ {
				if w.jailed[h] {
					g = h
				}
			}
			if g < 0 {
				continue
			}
			w.env.Outcome("op:unjail:" + w.jail(g, false))
		case 12:
			// a genesis operator undelegates (a part of / all of) the stake it delegated to itself at genesis
			g := w.rng.Intn(c.Cfg.NOperators)
			left := c.Cfg.Powers[g]*1000000 - w.selfUnd[g]
			if left <= 0 || !w.othersUntouched(g) {
				continue
			}
			amt := 1 + w.rng.Int63n(left)
			if whole {
				amt = left
			}
			err := w.selfUndelegate(g, amt)
			if err == nil {
				w.selfUnd[g] += amt
			}
			w.env.Outcome(fmt.Sprintf("op:selfundelegate:whole=%v:%s", amt == left, genErrClass(err)))
		case 11:
			// opt into the second AVS and stay (exported while opted in), or leave it if already in
			if w.inAVS2[oi] {
				w.env.Outcome("op:optout2:" + genErrClass(w.optOutAVS2(oi)))
			} else {
				w.env.Outcome("op:optin2:" + genErrClass(w.optInStay(oi)))
			}
		case 10:
			// a further operator: registered during the history, no stake of its own
			if w.nextOp >= 3 {
				continue
			}
			w.env.Outcome("op:registeroperator:" + genErrClass(w.registerOperator(w.rng.Chance(1, 2))))
		case 9:
			// one operator per history starts to opt out of the chain's own AVS: exported mid opt-out when epochs remain
			if len(w.optOut) > 0 || oi >= c.Cfg.NOperators || !w.othersUntouched(oi) {
				continue
			}
			err := w.optOutOp(oi)
			if err == nil {
				w.optOut[oi] = true
			}
			w.note("operator=%d opts out of the chain AVS: %s", oi, genErrClass(err))
			w.env.Outcome("op:optout:" + genErrClass(err))
		case 7:
			// withdraw part of (or all of) what is deposited and not delegated
			k := [2]int{si, ai}
			if free[k] == 0 {
				continue
			}
			amt := 1 + w.rng.Int63n(free[k])
			if whole {
				amt = free[k]
			}
			if w.rng.Chance(1, 8) {
				amt = free[k] + 1 // more than withdrawable: must be rejected
			}
			err := w.withdraw(si, amt)
			if err == nil {
				free[k] -= amt
			}
			w.env.Outcome("op:withdraw:" + genErrClass(err))
		case 8:
			// a further client chain (20-byte addresses) and a token of it, through the assets precompile
			w.nextChain++
			w.env.Outcome("op:registerchain:" + w.registerWideChain(uint32(200+w.nextChain), 20))
		case 6:
			// opt into the second AVS and out again, in the same block or one block later
			if w.inAVS2[oi] {
				continue
			}
			same := w.rng.Chance(1, 2)
			eIn, eOut := w.optInOut(oi, same)
			w.env.Outcome(fmt.Sprintf("op:optinout:same=%v:%s/%s", same, genErrClass(eIn), genErrClass(eOut)))
		case 0:
			amt := int64(1+w.rng.Intn(50)) * 1000000
			err := w.deposit(si, amt)
			if err == nil {
				free[[2]int{si, ai}] += amt
			}
			w.env.Outcome("op:deposit:" + genErrClass(err))
		case 1:
			k := [2]int{si, ai}
			if free[k] == 0 {
				if w.deposit(si, 20000000) == nil {
					free[k] += 20000000
				}
			}
			if free[k] == 0 {
				continue // the deposit was refused (cannot happen on the unchanged code)
			}
			amt := 1 + w.rng.Int63n(free[k])
			if whole {
				amt = free[k]
			}
			if w.rng.Chance(1, 10) {
				amt = free[k] + 1 // more than available: must be rejected
			}
			err := w.delegate(si, oi, amt, false)
			if err == nil {
				free[k] -= amt
				deleg[[3]int{si, oi, ai}] += amt
			}
			w.env.Outcome(fmt.Sprintf("op:delegate:asset=%d:%s", ai, genErrClass(err)))
		case 2:
			k := [3]int{si, oi, ai}
			if deleg[k] == 0 {
				found := false
				for s2 := 0; s2 < len(w.stakers) && !found; s2++ {
					for o2 := 0; o2 < len(c.Operators) && !found; o2++ {
						if deleg[[3]int{s2, o2, ai}] > 0 {
							k = [3]int{s2, o2, ai}
							found = true
						}
					}
				}
				if !found {
					continue
				}
			}
			amt := 1 + w.rng.Int63n(deleg[k])
			if whole {
				amt = deleg[k]
			}
			err := w.delegate(k[0], k[1], amt, true)
			if err == nil {
				deleg[k] -= amt
				back[[2]int{k[0], k[2]}] += amt
			}
			w.env.Outcome(fmt.Sprintf("op:undelegate:asset=%d:whole=%v:%s", ai, deleg[k] == 0, genErrClass(err)))
		case 3:
			if oi >= c.Cfg.NOperators {
				continue // operators registered during the history are not opted into the chain's AVS: they have no key to replace
			}
			w.env.Outcome("op:replacekey:" + genErrClass(w.replaceKey(oi)))
		case 4:
			d := []time.Duration{time.Second, time.Minute, 31 * time.Minute, time.Hour + time.Second}[w.rng.Intn(4)]
			w.note("next block +%s", d)
			if r := c.EndAndBegin(d); r.Halt != "" {
				w.env.Violate("C18.halt", "halt", "block processing panicked: "+r.Halt, w.hist)
				return
			}
		case 5:
			// oracle price round / extra epochs elapse
			w.note("next block +3h")
			if r := c.EndAndBegin(3 * time.Hour); r.Halt != "" {
				w.env.Violate("C18.halt", "halt", "block processing panicked: "+r.Halt, w.hist)
				return
			}
		}
	}
	w.asset = 0
}

// runOne: build a state, export/import, emit model ops + observation, evaluate monitors.
func (w *genWorld) runOne(nOps int, directed bool, cont int) {
	c := w.c
	c.EndAndBegin(time.Minute)
	w.randomOps(nOps)
	if c.Halted != "" {
		return
	}
	if w.alignDue != 0 && !w.alignToDue(w.alignDue-1) { // dom_genesis_due.go: the export lands on a record's completion height
		return
	}
	w.exportPoint(directed, cont)
}

// exportPoint commits the running block and takes the export there: export/import, model ops + observation, monitors.
func (w *genWorld) exportPoint(directed bool, cont int) {
	c := w.c
	if r := c.EndAndBegin(time.Second); r.Halt != "" { // commit what was built
		w.env.Violate("C18.halt", "halt", "block processing panicked: "+r.Halt, w.hist)
		return
	}
	v1 := viewCore(c, committedCtx(c))
	w.emitCore(v1)
	// the height InitChain runs InitGenesis at: ExportAppStateAndValidators returns LastBlockHeight()+1
	w.op(fmt.Sprintf("gen.h %d", c.Header.Height), "ok")
	w.dueStats(directed) // dom_genesis_due.go: records due at the import height / the height after (coverage)
	a1 := viewAssets(c, committedCtx(c))
	w.emitAssets(a1)
	o1 := viewOperator(c, committedCtx(c))
	w.lastOp = o1
	w.emitOperator(o1)
	p1 := viewParams(c, committedCtx(c))
	w.emitParams(p1)
	d1 := viewDelegs(c, committedCtx(c))
	w.emitDelegs(d1)
	vs1 := viewValset(c, committedCtx(c))
	w.emitValset(vs1)
	w.emitUndRecords() // dom_genesis_slashed.go: every exported undelegation record + the module's verdict on it
	res := w.roundTripWith(cont, directed)
	var v2 coreView
	obs, aobs, oobs, pobs, lobs, vobs := "import-failed", "import-failed", "import-failed", "import-failed", "import-failed", "import-failed"
	if res.c2 != nil {
		v2 = res.post
		obs = v2.obs()
		// the module's own verdict on its export, then the re-imported stores
		aobs = fmt.Sprintf("validate=%v init=ok %s", res.validateErr["assets"] == "", res.postAssets.obs())
		oobs = fmt.Sprintf("validate=%v %s", res.validateErr["operator"] == "" || isSlashStateErr(res.validateErr["operator"]), res.postOp.obs()) // F-18s: see isSlashStateErr
		pobs = "init=ok " + res.postParams.obs()
		lobs = "init=ok " + res.postPools
		vobs = res.postValset.obs()
	}
	w.op("gen.roundtrip", obs)
	w.op("gen.assets", aobs)
	w.op("gen.operator", oobs)
	w.op("gen.params", pobs)
	w.op("gen.pools", lobs)
	w.op("gen.valset", vobs)
	w.check(res, v1, v2, directed)
	w.checkSlashed(res) // dom_genesis_slashed.go: monitor C18.slashed
	if res.c2 != nil {
		w.checkQueries(res.queryDiff)
		w.checkValset(vs1, res.postValset)
	}
	w.env.Report.Histories++
	nEmptied, nZeroRows := emptiedPools(a1, d1)
	w.env.Outcome(fmt.Sprintf("state:emptied-pools=%d,zero-share-delegations=%d", min(nEmptied, 3), min(nZeroRows, 3)))
	// validators of the stored set that are jailed at the export point (jailed after the last epoch end)
	w.env.Outcome(fmt.Sprintf("state:jailed-in-valset=%d/%d", vs1.nJail, len(vs1.vals)))
	if len(v1.unds) > 0 || len(v1.rev) > len(v1.cur) || nEmptied > 0 || vs1.nJail > 0 {
		w.env.DistinctKey(fmt.Sprintf("u%d-q%d-p%d-e%d-j%d-%x", len(v1.unds), len(v1.qs), len(v1.prev), nEmptied, vs1.nJail, sha8([]byte(v1.obs()+a1.obs()+strings.Join(vs1.jailed, ",")))))
	}
	w.env.Outcome(fmt.Sprintf("state:unds=%d,prev=%d", min(len(v1.unds), 3), min(len(v1.rev)-len(v1.cur), 2)))
}

// nativeDelegate delivers a signed MsgDelegation of the native token from the funded account to operator oi.
func (w *genWorld) nativeDelegate(oi int, amt int64) string {
	c := w.c
	w.note("native-token MsgDelegation from=funded operator=%d amount=%d", oi, amt)
	kv := []delegationtypes.KeyValue{{Key: c.Operators[oi].Acc.String(), Value: &delegationtypes.ValueField{Amount: sdkmath.NewInt(amt)}}}
	bz, err := signedTx(c, c.Funded, 1000000, delegationtypes.NewMsgDelegation(assetstypes.ExocoreAssetID, c.Funded.Acc.String(), kv))
	if err != nil {
		return "sign:" + err.Error()
	}
	res, halt := c.DeliverRaw(bz)
	if halt != "" {
		return "halt"
	}
	if res.Code != 0 {
		return fmt.Sprintf("rej:%d:%.80s", res.Code, res.Log)
	}
	return "ok"
}

// registerWideChain registers client chain `id` with `al`-byte addresses and a token of it, as the gateway contract would:
// two top-level EVM calls into the assets precompile.
func (w *genWorld) registerWideChain(id uint32, al uint8) string {
	c := w.c
	abis := xbLoadABIs(c)
	call := func(method string, args ...interface{}) string {
		data, err := abis.assets.Pack(method, args...)
		if err != nil {
			return "pack:" + err.Error()
		}
		m := abis.assets.Methods[method]
		w.note("evm assets.%s from=gateway data=%s", method, hex.EncodeToString(data))
		return xbEvmCall(c, c.Funded.Eth, xbAssetsAddr, data, &m).Class()
	}
	r1 := call("registerOrUpdateClientChain", id, al, "widechain", "meta", "ed25519")
	tok := detBytes(c.Cfg.Seed, "widetoken", int(id))[:al]
	r2 := call("registerToken", id, tok, uint8(9), "WTK", "meta", fmt.Sprintf("WTK%d,widechain,8", id))
	return fmt.Sprintf("chain=%s token=%s", r1, r2)
}

// nst deposits / withdraws one validator (32 units) of the native restaking token for staker si through the precompile.
func (w *genWorld) nst(method string, si int, vpk string) string {
	c := w.c
	abis := xbLoadABIs(c)
	amt := new(big.Int).Mul(big.NewInt(32), new(big.Int).Exp(big.NewInt(10), big.NewInt(18), nil))
	data, err := abis.assets.Pack(method, uint32(c.LzID), []byte(vpk), pad32(w.stakers[si].Bytes()), amt)
	if err != nil {
		return "pack:" + err.Error()
	}
	m := abis.assets.Methods[method]
	w.note("evm assets.%s from=gateway staker=%d validator=%s amount=32e18", method, si, vpk)
	return xbEvmCall(c, c.Funded.Eth, xbAssetsAddr, data, &m).Class()
}

func domGenesis(env *Env) error {
	genDue = genDueCount{}
	rng := NewRNG(env.Report.Seed)
	env.Report.Domain = "genesis"
	n := env.Int("histories", 6)
	ops := env.Int("ops", 25)
	cont := env.Int("cont", 6)
	if env.Int("directed", 1) != 0 {
		var w *genWorld
		var c *Chain
		// directed: pending undelegations held by dogfood + a replaced key + a fee-distribution epoch, then export
		genScenario(env, "D1", func() {
			w = newGenWorld(env, rng, env.Report.Seed*1000+901)
			c = w.c
			c.EndAndBegin(time.Minute)
			_ = w.deposit(0, 5000000)
			_ = w.deposit(1, 7000000)
			_ = w.delegate(0, 0, 3000000, false)
			_ = w.delegate(1, 2, 7000000, false)
			c.EndAndBegin(time.Hour + time.Second)
			_ = w.delegate(0, 0, 1000000, true)
			_ = w.delegate(1, 2, 2000000, true)
			_ = w.replaceKey(1)
			w.runOne(0, true, 12)
		})
		// directed 2: a validator's key replaced during the running epoch (the previous replacement is already active)
		genScenario(env, "D2", func() {
			w = newGenWorld(env, rng, env.Report.Seed*1000+902)
			c = w.c
			c.EndAndBegin(time.Minute)
			_ = w.replaceKey(2)
			c.EndAndBegin(time.Hour + time.Second)
			c.EndAndBegin(time.Hour + time.Second)
			c.EndAndBegin(time.Minute) // not the block that ends the epoch: the PrevConsKey records survive until the export
			_ = w.replaceKey(2)
			_ = w.replaceKey(0)
			w.runOne(0, true, 4)
		})
		// directed 3: opt-in and opt-out of a second AVS in ONE block (equal heights in the stored OptedInfo, which is
		// never deleted), and one block apart as control: the export must still pass the operator module's Validate
		genScenario(env, "D3", func() {
			w = newGenWorld(env, rng, env.Report.Seed*1000+903)
			c = w.c
			c.EndAndBegin(time.Minute)
			eIn, eOut := w.optInOut(0, true)
			eIn2, eOut2 := w.optInOut(1, false)
			env.Outcome(fmt.Sprintf("directed:D3 same-block optin/out=%s/%s next-block=%s/%s", genErrClass(eIn), genErrClass(eOut), genErrClass(eIn2), genErrClass(eOut2)))
			if eIn != nil || eOut != nil || eIn2 != nil || eOut2 != nil {
				env.Note("directed-D3-setup-failed")
			}
			w.runOne(0, true, 4)
		})
		// directed 4: a native-token delegation (signed MsgDelegation in DeliverTx): x/delegation writes an operator pool
		// row under ExocoreAssetID, a token that x/assets does not list
		genScenario(env, "D4", func() {
			w = newGenWorld(env, rng, env.Report.Seed*1000+904)
			c = w.c
			c.EndAndBegin(time.Minute)
			env.Outcome("directed:D4 native delegation=" + w.nativeDelegate(1, 12345))
			w.runOne(0, true, 4)
		})
		// directed 5: a client chain with 32-byte addresses and one of its tokens, registered through the assets precompile
		// from the gateway (the admission checks are addressLength >= 20 and len(token address) >= addressLength)
		genScenario(env, "D5", func() {
			w = newGenWorld(env, rng, env.Report.Seed*1000+905)
			c = w.c
			c.EndAndBegin(time.Minute)
			env.Outcome("directed:D5 " + w.registerWideChain(207, 32))
			w.runOne(0, true, 4)
		})
		// directed 9 (dom_genesis_multi.go): three LSTs with genesis holders; a staker with three rows, operators pooling three
		// assets incl. the native token, interleaved in store-key order; a further token registered and never deposited
		genScenario(env, "D9", func() { genDirectedMulti(env, rng) })
		// directed 10: every holder of one token withdraws everything: staking total back at zero, rows of zeros
		genScenario(env, "D10", func() { genDirectedMultiDrain(env, rng) })
		// directed 6 / 7: native restaking through the assets precompile. Two stakers deposit one validator each; the first
		// withdraws it (D6: the second staker's stored StakerIndex is stale), then the second one too (D7: the staker
		// list entry of the asset stays, empty, without any staker info)
		for _, both := range []bool{false, true} {
			genScenario(env, "D6/D7", func() {
				w = newGenWorldCfg(env, rng, env.Report.Seed*1000+906, true)
				c = w.c
				c.EndAndBegin(time.Minute)
				r := []string{w.nst("depositNST", 0, "vpk-a"), w.nst("depositNST", 1, "vpk-b"), w.nst("withdrawNST", 0, "vpk-a")}
				if both {
					r = append(r, w.nst("withdrawNST", 1, "vpk-b"))
				}
				env.Outcome(fmt.Sprintf("directed:D%d nst=%s", map[bool]int{false: 6, true: 7}[both], strings.Join(r, "/")))
				w.runOne(0, true, 4)
			})
		}
		// directed 8: an operator in the middle of opting out of the chain's own AVS at export time, with 1 and with 2 epoch
		// ends between the opt-out and the export (3 unbonding epochs): the re-imported chain must carry the SAME finish
		// epoch and both chains, run on in half-epoch steps, must complete the opt-out in the same block
		for _, elapsed := range []int{1, 2} {
			genScenario(env, "D8", func() {
				genForceUnbond = 3
				w = newGenWorld(env, rng, env.Report.Seed*1000+908)
				genForceUnbond = 0
				c = w.c
				c.EndAndBegin(time.Minute)
				e := w.optOutOp(2)
				w.note("operator=2 opts out of the chain AVS: %s", genErrClass(e))
				for i := 0; i < elapsed; i++ {
					c.EndAndBegin(time.Hour + time.Second)
				}
				c.EndAndBegin(time.Minute)
				env.Outcome(fmt.Sprintf("directed:D8 optout=%s elapsed=%d pending=%d", genErrClass(e), elapsed, len(readCore(c, c.Ctx).OptOuts)))
				w.contStep = 31 * time.Minute
				w.runOne(0, true, 12)
			})
		}
	}
	if env.Int("jail", 1) != 0 {
		genJailScenarios(env, rng) // dom_genesis_jail.go: J1..J4, validators jailed at the export point
	}
	if env.Int("slashed", 1) != 0 {
		genSlashedScenarios(env) // dom_genesis_slashed.go: S1..S4 + random slash worlds (own random stream)
	}
	if env.Int("boundary", 1) != 0 {
		// (a boot failure ends the boundary scenarios as a whole: they share one function)
		genScenario(env, "boundary", func() { genBoundary(env, rng) })
	}
	if env.Int("due", 1) != 0 {
		genDueScenarios(env) // dom_genesis_due.go: U1..U7, exports at / around the completion height of a record (own random stream)
	}
	for hi := 0; hi < n; hi++ {
		// every second world has the second LST, two of three start from non-default x/exomint / x/feedistribution params
		// every fourth world without the second LST is the multi-asset world (three LSTs with genesis holders)
		genScenario(env, fmt.Sprintf("random-%d", hi), func() {
			genNextOpts = genOpts{lst2: hi%2 == 1, modParams: hi%3 != 0}
			genMulti = hi%4 == 2
			w := newGenWorld(env, rng, env.Report.Seed*1000+uint64(hi))
			genMulti = false
			// every fourth history is run on (one-second blocks, no random draw) until the export lands on the completion
			// height of its earliest pending record (hi%4 == 1) or one block before it (hi%4 == 3)
			w.alignDue = map[int]int{1: 1, 3: 2}[hi%4]
			w.isRandom = true
			w.runOne(5+rng.Intn(ops), false, cont)
			if hi < 3 {
				env.Sample(strings.Join(w.hist[:min(len(w.hist), 10)], " ; "))
			}
		})
	}
	genDueCoverage(env, n)
	return nil
}
