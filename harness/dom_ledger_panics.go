package main

// C01–C04 — which panics inside a ledger message are the registry's "SDK 256/315-bit guards" (a rejected tx that the
// model, over unbounded integers, is shown as a no-op) and which are not.
//
// cosmossdk.io/math panics with "Int overflow", "… out of bound(s)", "dec must be within bounds" when a result leaves
// its bit range. Every OTHER panic inside a message (nil dereference, index out of range, a failed MustUnmarshal, …) is
// a refusal of the operation like any returned error: it is shown to the model as the operation it was (the model must
// refuse it too) and the acceptance monitors of C03 treat it as the rejection it is.

import "strings"

func ledgerBoundPanic(err error) bool {
	if err == nil {
		return false
	}
	s := err.Error()
	if !strings.HasPrefix(s, "panic:") {
		return false
	}
	l := strings.ToLower(s)
	for _, m := range []string{"overflow", "out of bound", "within bounds"} {
		if strings.Contains(l, m) {
			return true
		}
	}
	return false
}
