package main

// Refused MsgUpdateParams for the oracle domains (C14 restart equivalence: "right after a parameter
// change" includes the change that was refused — the store is untouched, so the node that never stopped
// must still hold the params a restarted node rebuilds).
//
// A payload = an editing prefix that touches EXISTING entries of the stored params (asset id of token
// 1; end block of a running feeder / interval of a feeder that has not started) + a part that makes
// one of the handler's steps refuse (one kind per rejection reason of AddSources, AddChains,
// UpdateMaxPriceCount, UpdateTokenFeeder and Validate's feeder / chain / token / rule / source checks).
// Before a payload is sent it is run through the handler's edit-and-validate chain on a private decode
// of the stored params (orcParamsChain); a payload that would be accepted is not sent.
// The model op is `orc.updparams.rej <kind>` (Driver/Oracle.lean: the identity on the process state).

import (
	"fmt"

	sdk "github.com/cosmos/cosmos-sdk/types"
	authtypes "github.com/cosmos/cosmos-sdk/x/auth/types"
	govtypes "github.com/cosmos/cosmos-sdk/x/gov/types"

	oraclekeeper "github.com/ExocoreNetwork/exocore/x/oracle/keeper"
	oracletypes "github.com/ExocoreNetwork/exocore/x/oracle/types"
)

var orcParamRejKinds = []string{"maxsize-negative", "endblock-in-window", "feeder-zero-fields", "feeder-endblock-past", "chain-without-name", "rule-empty",
	"token-without-name", "token-unknown-chain", "source-without-name", "feeder-unknown-token", "source-not-valid", "source-duplicate", "chain-duplicate",
	"interval-too-short"}

type orcRej struct {
	kind string
	tok  uint64
	salt int
}

// orcRejectedParams builds the refused update for the stored params `cur` at height ht.
func orcRejectedParams(cur oracletypes.Params, ht uint64, r orcRej) oracletypes.Params {
	var p oracletypes.Params
	if len(cur.Tokens) > 1 {
		t1 := cur.Tokens[1]
		p.Tokens = []*oracletypes.Token{{Name: t1.Name, ChainID: t1.ChainID, AssetID: fmt.Sprintf("0xphantom%d_0x65", r.salt)}}
	}
	tok := r.tok
	if tok < 1 || int(tok) >= len(cur.Tokens) {
		tok = 1
	}
	// the latest feeder of the token, and an edit of it that the handler accepts as such
	var fOK, fWin *oracletypes.TokenFeeder
	ids := cur.GetFeederIDsByTokenID(tok)
	if len(ids) > 0 {
		f := cur.TokenFeeders[ids[len(ids)-1]]
		switch {
		case f.StartBaseBlock > ht: // not started: start / interval / end block may change
			fOK = &oracletypes.TokenFeeder{TokenID: tok, Interval: f.Interval + 1}
			fWin = &oracletypes.TokenFeeder{TokenID: tok, EndBlock: f.StartBaseBlock + 3*f.Interval}
		case f.EndBlock == 0 || f.EndBlock > ht: // running: the end block may change
			k := (ht-f.StartBaseBlock)/f.Interval + 2
			fOK = &oracletypes.TokenFeeder{TokenID: tok, EndBlock: f.StartBaseBlock + k*f.Interval + uint64(cur.MaxNonce)}
			fWin = &oracletypes.TokenFeeder{TokenID: tok, EndBlock: f.StartBaseBlock + k*f.Interval}
		}
	}
	withOK := func() {
		if fOK != nil {
			p.TokenFeeders = append(p.TokenFeeders, fOK)
		}
	}
	other := uint64(1)
	if len(cur.Tokens) > 2 {
		other = tok%uint64(len(cur.Tokens)-1) + 1
	}
	switch r.kind {
	case "maxsize-negative": // UpdateMaxPriceCount, after UpdateTokens
		p.MaxSizePrices = -1
	case "endblock-in-window": // Validate "invalid EndBlock", after UpdateTokenFeeder
		if fWin != nil {
			p.TokenFeeders = []*oracletypes.TokenFeeder{fWin}
		} else {
			p.Rules = []*oracletypes.RuleSource{{}}
		}
	case "interval-too-short": // a feeder that has not started: Validate "invalid interval"
		if fOK != nil && fOK.Interval > 0 {
			p.TokenFeeders = []*oracletypes.TokenFeeder{{TokenID: tok, Interval: 1}}
		} else {
			withOK()
			p.Rules = []*oracletypes.RuleSource{{}}
		}
	case "feeder-zero-fields": // the first feeder edited, a second one refused by UpdateTokenFeeder
		withOK()
		p.TokenFeeders = append(p.TokenFeeders, &oracletypes.TokenFeeder{TokenID: other})
	case "feeder-endblock-past":
		withOK()
		p.TokenFeeders = append(p.TokenFeeders, &oracletypes.TokenFeeder{TokenID: other, EndBlock: ht})
	case "chain-without-name":
		withOK()
		p.Chains = []*oracletypes.Chain{{Name: "", Desc: "x"}}
	case "rule-empty":
		withOK()
		p.Rules = []*oracletypes.RuleSource{{}}
	case "token-without-name":
		withOK()
		p.Tokens = append(p.Tokens, &oracletypes.Token{Name: "", ChainID: 1})
	case "token-unknown-chain":
		withOK()
		p.Tokens = append(p.Tokens, &oracletypes.Token{Name: fmt.Sprintf("NEW%d", r.salt), ChainID: 9})
	case "source-without-name":
		withOK()
		p.Sources = []*oracletypes.Source{{Name: "", Valid: true}}
	case "feeder-unknown-token":
		withOK()
		p.TokenFeeders = append(p.TokenFeeders, &oracletypes.TokenFeeder{TokenID: 9, RuleID: 1, StartRoundID: 1, StartBaseBlock: ht + 20, Interval: 10})
	case "source-not-valid": // refused by the first step: nothing edited yet on any implementation
		p.Sources = []*oracletypes.Source{{Name: fmt.Sprintf("SRC%d", r.salt), Valid: false}}
	case "source-duplicate":
		if len(cur.Sources) > 1 {
			p.Sources = []*oracletypes.Source{{Name: cur.Sources[1].Name, Valid: true}}
		} else {
			p.MaxSizePrices = -1
		}
	case "chain-duplicate":
		if len(cur.Chains) > 1 {
			p.Chains = []*oracletypes.Chain{{Name: cur.Chains[1].Name}}
		} else {
			p.MaxSizePrices = -1
		}
	default:
		p.MaxSizePrices = -1
	}
	return p
}

// orcParamsAuthority: the harness chains run with the default (mainnet-prefixed) chain id, on which the
// handler accepts only the governance module account (a passed proposal's message, executed by x/gov
// on a cache context that is dropped when the message fails).
func orcParamsAuthority() string { return authtypes.NewModuleAddress(govtypes.ModuleName).String() }

// orcParamsChain runs the handler's edit-and-validate chain (msg_server_update_params.go) on `p`,
// which the caller decoded for this purpose only.
func orcParamsChain(p oracletypes.Params, in oracletypes.Params, height uint64) (err error) {
	defer func() {
		if r := recover(); r != nil {
			err = fmt.Errorf("panic: %v", r)
		}
	}()
	if p, err = p.AddSources(in.Sources...); err != nil {
		return err
	}
	if p, err = p.AddChains(in.Chains...); err != nil {
		return err
	}
	if p, err = p.UpdateTokens(height, in.Tokens...); err != nil {
		return err
	}
	if p, err = p.AddRules(in.Rules...); err != nil {
		return err
	}
	if p, err = p.UpdateMaxPriceCount(in.MaxSizePrices); err != nil {
		return err
	}
	for _, tf := range in.TokenFeeders {
		if p, err = p.UpdateTokenFeeder(tf, height); err != nil {
			return err
		}
	}
	return p.Validate()
}

// updParamsRej delivers one refused MsgUpdateParams through the real msg server on a cache context of
// the deliver state (never written) and records op + observation. Returns false when nothing was sent.
func (o *orc) updParamsRej(r orcRej) bool {
	k := o.c.App.OracleKeeper
	ctx := o.ctx()
	ht := uint64(ctx.BlockHeight())
	in := orcRejectedParams(k.GetParams(ctx), ht, r)
	if orcParamsChain(k.GetParams(ctx), in, ht) == nil {
		o.env.Note("updparams-would-be-accepted:" + r.kind)
		return false
	}
	cctx, _ := ctx.CacheContext()
	cls := "rej"
	func() {
		defer func() {
			if rec := recover(); rec != nil {
				cls = "panic"
			}
		}()
		if _, err := oraclekeeper.NewMsgServerImpl(k).UpdateParams(sdk.WrapSDKContext(cctx), &oracletypes.MsgUpdateParams{Authority: orcParamsAuthority(), Params: in}); err == nil {
			cls = "ok"
		}
	}()
	o.op("orc.updparams.rej "+r.kind, cls+"|"+o.fullObs())
	o.env.Outcome("updparams:" + r.kind + ":" + cls)
	return true
}
