package main

// oracle_multi — create-price transactions with SEVERAL signers / SEVERAL messages (C10, C13).
//
// The ordinary traffic of a price feeder is one message, one signer. The clauses "signed by the
// consensus key of the validator they are attributed to" (C10), "correctly signed by that
// validator's key" and "respects the size limit" (C13) are stated per transaction, whatever it
// carries, so this domain enumerates the multi-signer / multi-message product on the real
// CheckTx / DeliverTx:
//
//   signers: 2- and 3-signer txs (one message per validator), every position × {forged by an
//            outsider's key, 64 junk bytes, empty signature, one flipped bit} + every exchange of two
//            slots + two bad slots at once + the properly signed controls; signer order rotated so
//            that slot k is not always validator k;
//   sizes:   1-, 2- and 3-message txs of one validator (consecutive nonces for one feeder, or one
//            message per feeder) padded to limit-1, limit, limit+1, and — for n ≥ 2 — to the middle
//            of (limit, n·limit), n·limit-1, n·limit, n·limit+1; every message far below the limit
//            on its own.
//
// Every tx is probed through CheckTx and then delivered; the op/obs stream is the one of the other
// oracle domains (Driver/Oracle.lean replays it: per-SignerInfo signature flags and the raw size
// are inputs of the model's `anteHandle`). Monitors: C13.admit / C13.checktx (dom_oracle_c13.go:
// send, plus the CheckTx side here) and C10.oracle-signers / C10.reject-changes-nothing.

import (
	"bytes"
	"fmt"
	"strings"
	"time"

	cryptotypes "github.com/cosmos/cosmos-sdk/crypto/types"
	txtypes "github.com/cosmos/cosmos-sdk/types/tx"
)

func init() { register("oracle_multi", domOracleMulti) }

const orcTxSizeLimit = 1000 // the property's "size limit" as configured in app/ante/utils (tied: C13_tie_size_limit)

type orcSigMut struct {
	Pos  int
	Kind string // forge | junk | empty | flip | swap
	With int    // swap: the other slot
}

func (m orcSigMut) String() string {
	if m.Kind == "swap" {
		return fmt.Sprintf("swap%d-%d", m.Pos, m.With)
	}
	return fmt.Sprintf("%s@%d", m.Kind, m.Pos)
}

// rawSigMut rewrites signature slots of an encoded, properly signed SIGN_MODE_DIRECT tx and reports,
// per SignerInfo, whether the slot it designates still verifies under `pubs[i]` (real ed25519).
func rawSigMut(chainID string, bz []byte, pubs []cryptotypes.PubKey, muts []orcSigMut, outsider cryptotypes.PrivKey) ([]byte, []bool, error) {
	var raw txtypes.TxRaw
	if err := raw.Unmarshal(bz); err != nil {
		return nil, nil, err
	}
	doc := txtypes.SignDoc{BodyBytes: raw.BodyBytes, AuthInfoBytes: raw.AuthInfoBytes, ChainId: chainID, AccountNumber: 0}
	docBz, err := doc.Marshal()
	if err != nil {
		return nil, nil, err
	}
	for _, m := range muts {
		if m.Pos < 0 || m.Pos >= len(raw.Signatures) {
			continue
		}
		switch m.Kind {
		case "forge": // a genuine signature over the right bytes — by somebody else's key
			sg, err := outsider.Sign(docBz)
			if err != nil {
				return nil, nil, err
			}
			raw.Signatures[m.Pos] = sg
		case "junk":
			raw.Signatures[m.Pos] = bytes.Repeat([]byte{0x5a}, 64)
		case "empty":
			raw.Signatures[m.Pos] = []byte{}
		case "flip":
			sg := append([]byte{}, raw.Signatures[m.Pos]...)
			if len(sg) > 3 {
				sg[3] ^= 0x40
			}
			raw.Signatures[m.Pos] = sg
		case "swap": // both are genuine signatures of signers of this very tx, in each other's slot
			if m.With >= 0 && m.With < len(raw.Signatures) {
				raw.Signatures[m.Pos], raw.Signatures[m.With] = raw.Signatures[m.With], raw.Signatures[m.Pos]
			}
		}
	}
	valid := make([]bool, len(pubs))
	for i := range pubs {
		valid[i] = i < len(raw.Signatures) && pubs[i].VerifySignature(docBz, raw.Signatures[i])
	}
	out, err := raw.Marshal()
	return out, valid, err
}

// mutateSigs (called by build for t.SigMut): not combined with WrongPK / truncated SignerInfos.
func (o *orc) mutateSigs(bz []byte, signers []int, muts []orcSigMut) ([]byte, bool, error) {
	pubs := make([]cryptotypes.PubKey, len(signers))
	for i, s := range signers {
		pubs[i] = o.privOf(s).PubKey()
	}
	out, valid, err := rawSigMut(o.c.Cfg.ChainID, bz, pubs, muts, o.strPrivs[2])
	if err != nil {
		return nil, false, err
	}
	sigOK := true
	for i := range o.lastInfos {
		if i < len(valid) {
			o.lastInfos[i][1] = valid[i]
		}
		if !o.lastInfos[i][1] {
			sigOK = false
		}
	}
	return out, sigOK, nil
}

// sizeTo pads the Desc fields of the tx's messages (evenly: every message alone stays far below the
// limit) until the encoded, signed tx has exactly `target` bytes. Returns the size reached.
func (o *orc) sizeTo(t *orcTx, target int) int {
	var idx []int
	for i := range t.Msgs {
		if len(t.Msgs[i].Srcs) > 0 {
			idx = append(idx, i)
		}
	}
	size := -1
	for it := 0; it < 8; it++ {
		bz, _, _, err := o.build(*t)
		if err != nil {
			return -1
		}
		size = len(bz)
		d := target - size
		if d == 0 || len(idx) == 0 {
			return size
		}
		if it == 0 { // spread evenly first, then trim on one message
			for k, i := range idx {
				share := d / len(idx)
				if k == 0 {
					share += d % len(idx)
				}
				o.padDesc(&t.Msgs[i], share)
			}
		} else {
			o.padDesc(&t.Msgs[idx[it%len(idx)]], d)
		}
	}
	return size
}

func (o *orc) padDesc(m *orcMsg, d int) {
	// the sources of a message may share a backing array with another message of the tx
	srcs := append([]orcSource{}, m.Srcs...)
	cur := len(srcs[0].Desc)
	n := cur + d
	if n < 0 {
		n = 0
	}
	srcs[0].Desc = strings.Repeat("x", n)
	m.Srcs = srcs
}

func multiSpec() orcSpec {
	// five equal validators: the three that ever submit here hold 30/50 < 2/3, no round is finalized
	return orcSpec{Powers: []int64{10, 10, 10, 10, 10}, MaxNonce: 3, ThA: 2, ThB: 3, MaxDetID: 5, MaxSize: 100,
		Sources: [][2]bool{{true, true}}, Rules: [][]uint64{{0}, {1}}, TokenDec: []int32{0, 0, 0},
		Feeders: []orcFeeder{{Token: 1, Rule: 2, StartRound: 2, StartBase: 2, Interval: 7}, {Token: 2, Rule: 2, StartRound: 2, StartBase: 2, Interval: 7},
			{Token: 3, Rule: 2, StartRound: 2, StartBase: 2, Interval: 7}},
		GenNext: []uint64{2, 2, 2}, GenPrice: []string{"1", "1", "1"}}
}

type multiDriver struct {
	*admDriver
	env  *Env
	open map[int]uint64
}

func newMultiDriver(env *Env, seed uint64) *multiDriver {
	o := newOrc(env, seed, multiSpec(), nil)
	o.emitSetup()
	a := &admDriver{orcDriver: newOrcDriver(o, NewRNG(seed)), quota: map[string]int{}}
	a.wMon = "C13.counted"
	m := &multiDriver{admDriver: a, env: env}
	m.refreshOpen()
	return m
}

func (m *multiDriver) refreshOpen() {
	m.open = map[int]uint64{}
	h := uint64(m.c.Header.Height)
	for fi := range m.spec.Feeders {
		if b := m.spec.openBase(fi, h); b > 0 {
			m.open[fi] = b
			m.roundLog(fi, b)
		}
	}
}

func (m *multiDriver) stepBlock() bool {
	if _, halted := m.endBlock(); halted {
		m.env.Violate("C13.halt", "halt", "EndBlock panicked: "+m.halted, m.hist)
		return false
	}
	if !m.commitBegin(2 * time.Second) {
		m.env.Violate("C13.halt", "halt", "Commit/BeginBlock panicked: "+m.halted, m.hist)
		return false
	}
	m.refreshOpen()
	return true
}

// room: feeder index fi has an open round in which validator v can still send n consecutive nonces.
func (m *multiDriver) room(v, fi, n int) bool {
	if _, ok := m.open[fi]; !ok {
		return false
	}
	cur, has := m.nonceOf(v, uint64(fi+1))
	return has && int(cur)+n <= int(m.spec.MaxNonce) && m.roundStatus(fi+1) == 1
}

// waitFor steps blocks until pick() succeeds (a new round hands out fresh nonces every Interval blocks).
func (m *multiDriver) waitFor(pick func() bool) bool {
	for tries := 0; tries < 3*7+2; tries++ {
		if pick() {
			return true
		}
		if !m.stepBlock() {
			return false
		}
	}
	m.env.Note("oracle_multi:no-room")
	return false
}

func (m *multiDriver) msg(v, fi int, nonce int32, det string) orcMsg {
	return orcMsg{Creator: v, Feeder: uint64(fi + 1), Based: m.open[fi], Nonce: nonce,
		Srcs: []orcSource{{ID: 1, Prices: []orcPrice{{Price: "2", Dec: 0, Ts: m.c.Header.Time.Unix(), DetID: det}}}}}
}

func orcAdmitted(cls string) bool {
	return cls == "ok" || strings.HasPrefix(cls, "msg") || cls == "panic"
}

// probe: CheckTx, then DeliverTx through admDriver.send (C13 admission monitors), then the
// signer-wise C10 clauses.
func (m *multiDriver) probe(label string, t orcTx, tag string) string {
	env := m.env
	bz, _, sigOK, err := m.build(t)
	if err != nil {
		env.Note("oracle_multi:build-error:" + label)
		return "build-error"
	}
	infos := append([][2]bool{}, m.lastInfos...)
	var signers []int
	seen := map[int]bool{}
	for _, x := range t.Msgs {
		if !seen[x.Creator] {
			seen[x.Creator] = true
			signers = append(signers, x.Creator)
		}
	}
	type key struct {
		v int
		f uint64
	}
	before := map[key]int32{}
	for _, x := range t.Msgs {
		n, _ := m.nonceOf(x.Creator, x.Feeder)
		before[key{x.Creator, x.Feeder}] = n
	}
	beforeFull := m.fullObs()
	unsigned := func() []int {
		var out []int
		for i, s := range signers {
			if i >= len(infos) || !infos[i][1] {
				out = append(out, s)
			}
		}
		return out
	}()

	// ---- CheckTx (mempool admission; runs on the check state)
	cc, _ := m.check(t, false)
	env.Outcome("multi-checktx:" + cc)
	env.Eval("C13.checktx")
	env.Eval("C10.oracle-signers")
	if cc == "ok" || strings.HasPrefix(cc, "msg") {
		hist := append(append([]string{}, m.hist...), "checktx "+m.opLineTx(t, len(bz), infos))
		if len(bz) > orcTxSizeLimit {
			env.Violate("C13.checktx", "checktx-admitted-oversize", fmt.Sprintf("%s: CheckTx admitted a fee-less create-price tx of %d bytes with %d message(s) (limit %d)", label, len(bz), len(t.Msgs), orcTxSizeLimit), hist)
		}
		if !sigOK {
			env.Violate("C13.checktx", "checktx-admitted-forged-signature"+tag, fmt.Sprintf("%s: CheckTx admitted a create-price tx in which the signature slot(s) of validator(s) %v do not verify", label, unsigned), hist)
			env.Violate("C10.oracle-signers", "checktx-price-admitted-without-validator-signature:oracle.CreatePrice", fmt.Sprintf("%s: CheckTx admitted price submissions attributed to validator(s) %v whose consensus key did not sign the tx", label, unsigned), hist)
		}
	}
	if m.fullObs() != beforeFull {
		env.Violate("C13.checktx", "checktx-changed-deliver-state", "CheckTx changed the deliver-side oracle state", m.hist)
	}

	// ---- DeliverTx + the admission clauses of C13
	cls := m.send(t, m.open, tag)
	admitted := orcAdmitted(cls)

	// ---- C10: a price submission takes effect only when signed by the key of the validator it is attributed to
	env.Eval("C10.oracle-signers")
	if admitted && len(unsigned) > 0 {
		env.Violate("C10.oracle-signers", "price-admitted-without-validator-signature:oracle.CreatePrice",
			fmt.Sprintf("%s: a create-price tx was admitted (%s) although the signature slot(s) of validator(s) %v do not verify against their consensus keys; their submissions were handed to the oracle as if they had sent them", label, cls, unsigned), m.hist)
	}
	for _, x := range t.Msgs {
		isUnsigned := false
		for _, u := range unsigned {
			if u == x.Creator {
				isUnsigned = true
			}
		}
		if n, _ := m.nonceOf(x.Creator, x.Feeder); isUnsigned && n != before[key{x.Creator, x.Feeder}] {
			env.Violate("C10.oracle-signers", "unsigned-validator-nonce-consumed:oracle.CreatePrice",
				fmt.Sprintf("%s: the oracle nonce of validator %d for feeder %d moved %d -> %d by a tx its key did not sign", label, x.Creator, x.Feeder, before[key{x.Creator, x.Feeder}], n), m.hist)
		}
	}
	env.Eval("C10.reject-changes-nothing")
	if !admitted && m.fullObs() != beforeFull {
		env.Violate("C10.reject-changes-nothing", "reject-dirty:oracle.CreatePrice:multi-signer", label+": a refused create-price tx changed oracle state ("+cls+")", m.hist)
	}
	return cls
}

// directedMultiSigners: every position of a forged / junk / empty / bit-flipped / exchanged signature
// in 2- and 3-signer create-price txs. Exactly the properly signed controls may be admitted.
func directedMultiSigners(env *Env) {
	m := newMultiDriver(env, 131320+env.Report.Seed*100) // keys differ per seed; the case product is complete for every seed
	type cse struct {
		n    int
		muts []orcSigMut
	}
	var cases []cse
	for _, n := range []int{2, 3} {
		cases = append(cases, cse{n, nil}) // control
		for p := 0; p < n; p++ {
			for _, k := range []string{"forge", "junk", "empty", "flip"} {
				cases = append(cases, cse{n, []orcSigMut{{Pos: p, Kind: k}}})
			}
		}
		for p := 0; p < n; p++ {
			for q := p + 1; q < n; q++ {
				cases = append(cases, cse{n, []orcSigMut{{Pos: p, Kind: "swap", With: q}}})
			}
		}
	}
	cases = append(cases, cse{3, []orcSigMut{{Pos: 1, Kind: "forge"}, {Pos: 2, Kind: "junk"}}}, cse{3, nil})
	for ci, cs := range cases {
		// slot order rotated: slot k is validator (k+ci) mod 3
		var signers []int
		for k := 0; k < cs.n; k++ {
			signers = append(signers, (k+ci)%3)
		}
		fi := -1
		ok := m.waitFor(func() bool {
			for f := range m.spec.Feeders {
				all := true
				for _, s := range signers {
					all = all && m.room(s, f, 1)
				}
				if all {
					fi = f
					return true
				}
			}
			return false
		})
		if !ok {
			break
		}
		t := orcTx{SigMut: cs.muts}
		for _, s := range signers {
			n, _ := m.nonceOf(s, uint64(fi+1))
			t.Msgs = append(t.Msgs, m.msg(s, fi, n+1, fmt.Sprint(9+n))) // a fresh source round per nonce: the controls are counted
		}
		var ms []string
		for _, mu := range cs.muts {
			ms = append(ms, mu.String())
		}
		label := fmt.Sprintf("%d-signers[%s]", cs.n, strings.Join(ms, ","))
		if len(cs.muts) == 0 {
			label = fmt.Sprintf("%d-signers[all-valid]", cs.n)
		}
		cls := m.probe(label, t, ":cosigner")
		env.Outcome("multi-signers:" + label + "=" + cls)
		env.DistinctKey("multi-signers:" + label)
		env.Eval("C13.admit")
		if len(cs.muts) == 0 && !orcAdmitted(cls) {
			env.Note("oracle_multi:control-refused:" + label + ":" + cls)
		}
	}
	env.Sample(strings.Join(m.hist[max(0, len(m.hist)-6):], " ; "))
	env.Report.Histories++
}

// directedMultiSizes: n-message txs of one validator padded around limit and n·limit.
func directedMultiSizes(env *Env) {
	m := newMultiDriver(env, 131321+env.Report.Seed*100)
	const L = orcTxSizeLimit
	type cse struct {
		n       int
		target  int
		feeders bool // one message per feeder instead of consecutive nonces for one feeder
	}
	var cases []cse
	for _, n := range []int{1, 2, 3} {
		ts := []int{L - 1, L, L + 1}
		if n > 1 {
			ts = append(ts, L+(n-1)*L/2, n*L-1, n*L, n*L+1)
		}
		for _, tg := range ts {
			cases = append(cases, cse{n, tg, false})
		}
	}
	for _, n := range []int{2, 3} {
		for _, tg := range []int{L, L + 1, L + (n-1)*L/2, n * L} {
			cases = append(cases, cse{n, tg, true})
		}
	}
	for ci, cs := range cases {
		v := ci % 3
		var fis []int
		ok := m.waitFor(func() bool {
			fis = nil
			if cs.feeders {
				for f := range m.spec.Feeders {
					if m.room(v, f, 1) && len(fis) < cs.n {
						fis = append(fis, f)
					}
				}
				return len(fis) == cs.n
			}
			for f := range m.spec.Feeders {
				if m.room(v, f, cs.n) {
					for k := 0; k < cs.n; k++ {
						fis = append(fis, f)
					}
					return true
				}
			}
			return false
		})
		if !ok {
			break
		}
		var t orcTx
		used := map[int]int32{}
		for _, f := range fis {
			n, _ := m.nonceOf(v, uint64(f+1))
			used[f]++
			t.Msgs = append(t.Msgs, m.msg(v, f, n+used[f], fmt.Sprint(8+n+used[f])))
		}
		got := m.sizeTo(&t, cs.target)
		lay := "nonces"
		if cs.feeders {
			lay = "feeders"
		}
		label := fmt.Sprintf("%d-msgs/%s/size=%d", cs.n, lay, got)
		if got != cs.target {
			env.Note(fmt.Sprintf("oracle_multi:size-target-missed:%d-msgs:%d->%d", cs.n, cs.target, got))
		}
		cls := m.probe(label, t, "")
		rel := "within-limit"
		if got > L {
			rel = "over-limit"
		}
		env.Outcome(fmt.Sprintf("multi-sizes:%d-msgs/%s/%s=%s", cs.n, lay, rel, cls))
		env.DistinctKey("multi-sizes:" + label)
	}
	env.Sample(strings.Join(m.hist[max(0, len(m.hist)-4):], " ; "))
	env.Report.Histories++
}

func domOracleMulti(env *Env) error {
	env.Report.Domain = "oracle_multi"
	if env.Int("signers", 1) == 1 {
		directedMultiSigners(env)
	}
	if env.Int("sizes", 1) == 1 {
		directedMultiSizes(env)
	}
	return nil
}
