package main

// C09 — failed operations are atomic. Drives the REAL entry points of the booted app
//   * precompile methods of assets / delegation / avs / reward through the EVM keeper (gateway and
//     other callers), with ApplyTransaction's commit rule,
//   * operator / delegation messages as signed cosmos txs through CheckTx + DeliverTx,
//   * keeper entry points called from Begin/EndBlock (operator.Slash, oracle.UpdateNSTByBalanceChange,
//     operator.UpdateVotingPower) directly on the deliver context (error ⇒ logged, writes kept),
// over seeded histories of mostly-valid operations (so that states evolve) mixed with a malformed
// stream, and compares byte-level snapshots of every custom module store + bank + the oracle's
// in-memory cache before/after every call that reports failure.  For classified failures the op line
// names the entry point and the refusing step; the Lean model answers clean/dirty from the order of
// checks and writes (Driver/Atomic.lean).

import (
	"encoding/hex"
	"fmt"
	"math/big"
	"regexp"
	"strings"
	"time"

	sdkmath "cosmossdk.io/math"
	"github.com/cometbft/cometbft/libs/log"
	sdk "github.com/cosmos/cosmos-sdk/types"
	authtypes "github.com/cosmos/cosmos-sdk/x/auth/types"
	stakingtypes "github.com/cosmos/cosmos-sdk/x/staking/types"
	"github.com/ethereum/go-ethereum/accounts/abi"
	"github.com/ethereum/go-ethereum/common"

	"github.com/ExocoreNetwork/exocore/utils"
	assetstypes "github.com/ExocoreNetwork/exocore/x/assets/types"
	delegationtypes "github.com/ExocoreNetwork/exocore/x/delegation/types"
	operatorkeeper "github.com/ExocoreNetwork/exocore/x/operator/keeper"
	operatortypes "github.com/ExocoreNetwork/exocore/x/operator/types"
)

func init() { register("atomic", domAtomic) }

// capLogger captures the last error-level record (the precompiles log the swallowed error there).
// fn (optional) receives the innermost application function on the stack trace the error carries
// (cosmossdk.io/errors attaches one where an error is first wrapped): the callee that refused, whatever its text.
type capLogger struct {
	last *string
	fn   *string
}

var reErrFrame = regexp.MustCompile(`github\.com/ExocoreNetwork/exocore/[\w/.]+\.(?:\(\*?\w+\)\.)?(\w+)`)

// errInnermostFn: first application frame of the "%+v" rendering of an error ("" when it carries no stack).
func errInnermostFn(v interface{}) string {
	e, ok := v.(error)
	if !ok || e == nil {
		return ""
	}
	txt := ""
	func() {
		defer func() { _ = recover() }()
		txt = fmt.Sprintf("%+v", e)
	}()
	if m := reErrFrame.FindStringSubmatch(txt); m != nil {
		return m[1]
	}
	return ""
}

func (l capLogger) Debug(string, ...interface{}) {}
func (l capLogger) Info(string, ...interface{})  {}
func (l capLogger) Error(msg string, kv ...interface{}) {
	s := msg
	for i := 0; i+1 < len(kv); i += 2 {
		if k, ok := kv[i].(string); ok && (k == "err" || k == "error") {
			s = msg + " :: " + fmt.Sprint(kv[i+1])
			if l.fn != nil && *l.last == "" {
				*l.fn = errInnermostFn(kv[i+1])
			}
		}
	}
	// keep the FIRST error of a call (the inner one); later records are wrappers
	if *l.last == "" {
		*l.last = s
	}
}
func (l capLogger) With(...interface{}) log.Logger { return l }

const nstAddrHex = "0xeeeeeeeeeeeeeeeeeeeeeeeeeeeeeeeeeeeeeeee"

type atomSlash struct {
	op sdk.AccAddress
	id string
}

type atomH struct {
	env     *Env
	c       *Chain
	rng     *RNG
	abis    xbABIs
	hist    []string
	lastErr string
	stakers []Actor
	others  []Actor // funded EOAs that are not the gateway
	seen    map[string]bool
	slashN  int
	lzNonce uint64
	random  bool        // in the random stream known triggers are steered away from
	slashOK []atomSlash // accepted slashes (operator, id) of this history
	dels    [][3]int    // (staker index, asset kind, operator index) of accepted delegations
	orng    *RNG        // dom_atomic_oracle.go: RNG of the oracle entry points (separate stream)
	oSent   map[string]int32
	// dom_atomic_txbatch.go: several gateway messages relayed in ONE Ethereum transaction (one tx hash), LayerZero nonces
	// fresh / repeated / replayed
	lastErrFn string   // innermost application function of the logged error's stack trace (capLogger.fn)
	sameTx    bool     // the next evm call belongs to the Ethereum transaction of the previous one (its tx hash is reused)
	brng      *RNG     // RNG of the batch steps (separate stream)
	nonces    []uint64 // LayerZero nonces of accepted undelegations of this history (replay candidates)
}

// further directed histories (each on a freshly booted chain) and per-step extras, registered from
// init() by dom_atomic_<topic>.go files
var (
	atomExtraDirected []func(h *atomH)
	atomExtraStep     []func(h *atomH)
)

func (h *atomH) ctxFix() { h.c.Ctx = h.c.Ctx.WithLogger(capLogger{last: &h.lastErr, fn: &h.lastErrFn}) }

func (h *atomH) block(d time.Duration) {
	r := h.c.EndAndBegin(d)
	if r.Halt != "" {
		h.env.Note("halt")
	}
	h.ctxFix()
	h.hist = append(h.hist, fmt.Sprintf("block +%s", d))
}

// ---- failing-step classification: entry prefix, substring of the (swallowed) error, model step
var atomClass = [][3]string{
	{"", "the caller doesn't have the permission", "CheckExocoreGatewayAddr"},
	{"assets.deposit", "the contract input parameter type or value error", "DepositWithdrawParams"},
	{"assets.withdraw", "the contract input parameter type or value error", "DepositWithdrawParams"},
	{"assets.deposit", "invalid length of staker or asset addr", "DepositWithdrawParams"},
	{"assets.withdraw", "invalid length of staker or asset addr", "DepositWithdrawParams"},
	{"assets.deposit", "there is no stored key for the input chain index", "DepositWithdrawParams"},
	{"assets.withdraw", "there is no stored key for the input chain index", "DepositWithdrawParams"},
	{"assets.deposit", "assetAddr:", "IsStakingAsset"},
	{"assets.withdraw", "assetAddr:", "IsStakingAsset"},
	{"assets.withdraw", "UpdateStakerAssetState TotalDepositAmount error", "UpdateAssetValue(TotalDepositAmount)"},
	{"assets.withdraw", "UpdateStakerAssetState CanWithdrawAmountOrWantChangeValue error", "UpdateAssetValue(WithdrawableAmount)"},
	{"assets.withdrawNST", "remove unexist validator", "exists||amount.IsPositive"},
	{"assets.withdraw", "assetID:", "UpdateAssetValue(StakingTotalAmount)"},
	{"assets.registerOrUpdateClientChain", "", "ClientChainInfoFromInputs"},
	{"assets.registerToken", "already exists", "IsStakingAsset(already)"},
	{"assets.registerToken", "the decimal is greater than the MaxDecimal", "Decimals>MaxDecimal"},
	{"assets.registerToken", "assetID exists", "GetTokenIDFromAssetID"},
	{"assets.registerToken", "strconv.ParseInt", "ParseInt(decimal)"},
	{"assets.registerToken", "strconv.ParseUint", "ParseUint(interval)"},
	{"assets.registerToken", "", "TokenFromInputs"},
	{"assets.updateToken", "there is no stored key for the input assetID", "GetStakingAssetInfo"},
	{"assets.updateToken", "", "UpdateTokenFromInputs"},
	{"delegation.delegate", "the delegation amount is bigger than the canWithdraw amount", "WithdrawableAmount.LT(OpAmount)"},
	{"delegation.delegate", "the opAmount is:", "WithdrawableAmount.LT(OpAmount)"},
	{"delegation.delegate", "the operator has not been registered", "IsOperator"},
	{"delegation.delegate", "input operatorAddr is", "IsOperator"},
	{"delegation.delegate", "the key is:", "GetStakerSpecifiedAssetInfo"},
	{"delegation.delegate", "divisor is zero", "CalculateShare"},
	{"delegation.undelegate", "the operator has not been registered", "IsOperator"},
	{"delegation.undelegate", "operator not exist", "IsOperator"},
	{"delegation.delegate", "the contract input parameter type or value error", "GetDelegationParamsFromInputs"},
	{"delegation.undelegate", "the contract input parameter type or value error", "GetDelegationParamsFromInputs"},
	{"delegation.delegate", "invalid length of staker or asset addr", "GetDelegationParamsFromInputs"},
	{"delegation.undelegate", "invalid length of staker or asset addr", "GetDelegationParamsFromInputs"},
	{"delegation.delegate", "mismatched length of the input operator address", "GetDelegationParamsFromInputs"},
	{"delegation.undelegate", "mismatched length of the input operator address", "GetDelegationParamsFromInputs"},
	{"delegation.delegate", "error occurred when parse acc address from Bech32", "GetDelegationParamsFromInputs"},
	{"delegation.undelegate", "error occurred when parse acc address from Bech32", "GetDelegationParamsFromInputs"},
	{"delegation.delegate", "there is no stored key for the input chain index", "GetDelegationParamsFromInputs"},
	{"delegation.undelegate", "there is no stored key for the input chain index", "GetDelegationParamsFromInputs"},
	// UndelegateFrom: what refuses before RemoveShare's first write (Set(operatorAsset)) …
	{"delegation.undelegate", "ctx TxHash type error", "ctx.Value(TxHash)"},
	{"delegation.undelegate", "the amount isn't positive", "ValidateUndelegationAmount"},
	{"delegation.undelegate", "QuerySingleDelegationInfo", "ValidateUndelegationAmount"},
	{"delegation.undelegate", "the divisor is zero", "ValidateUndelegationAmount"},
	{"delegation.undelegate", "insufficient delegation shares", "ValidateUndelegationAmount"},
	{"delegation.undelegate", "GetOperatorSpecifiedAssetInfo", "ValidateUndelegationAmount"},
	{"delegation.undelegate", "UpdateOperatorAssetState", "UpdateAssetValue(operator.TotalAmount)"},
	// … and after it (none of these is reachable on the unchanged code: Props/C09Values.lean, C09_undelegate_*)
	{"delegation.undelegate", "UpdateStakerAssetState", "UpdateAssetValue(PendingUndelegationAmount)"},
	{"delegation.undelegate", "UpdateDelegationState", "UpdateDelegationState"},
	{"delegation.undelegate", "the operator address isn't a valid acc addr", "UpdateDelegationState"},
	{"delegation.undelegate", "the block height to complete the unelegation is invalid", "SetUndelegationRecords"},
	{"delegation.undelegate", "cannot increment undelegation hold count", "IncrementUndelegationHoldCount"},
	{"delegation.associateOperatorWithStaker", "the operator has not been registered", "IsOperator"},
	{"delegation.associateOperatorWithStaker", "operator not exist", "IsOperator"},
	{"delegation.associateOperatorWithStaker", "already been associated", "associatedOperator!=\"\""},
	{"delegation.associateOperatorWithStaker", "already associated", "associatedOperator!=\"\""},
	{"delegation.associateOperatorWithStaker", "", "args"},
	{"delegation.dissociateOperatorFromStaker", "associated", "associatedOperator==\"\""},
	{"delegation.dissociateOperatorFromStaker", "", "args"},
	{"operator.Slash", "slashInfoKey:", "Has(slashInfoKey)"},
	{"operator.Slash", "err slashContract", "SlashContract!=stored"},
	{"operator.Slash", "err SlashProportion", "SlashProportion range"},
	{"operator.Slash", "Invalid SlashProportion", "CheckSlashParameter"},
	{"operator.Slash", "slashEventHeight:", "CheckSlashParameter"},
	{"operator.Slash", "the power is", "CheckSlashParameter"},
	{"operator.Slash", "", "SlashAssets"},
	{"avs.registerOperatorToAVS", "selfUSDValue", "SelfUSDValue.LT(min)"},
	{"oracle.UpdateNSTByBalanceChange", "length of indicate maps", "len(rawData)<32"},
	{"oracle.UpdateNSTByBalanceChange", "staker list is empty", "len(StakerAddrs)==0"},
	{"oracle.UpdateNSTByBalanceChange", "length of change value", "parseBalanceChange"},
	{"oracle.UpdateNSTByBalanceChange", "effective balance should never", "balance range(2)"},
	{"oracle.UpdateNSTByBalanceChange", "stakerInfo does not exist", "stakerInfo(2)!=nil"},
	{"reward.claimReward", "", "RewardForWithdraw"},
	{"msg.optIn", "public key is not required", "PublicKeyJSON"},
	{"msg.optIn", "invalid public key", "PublicKeyJSON"},
	{"msg.optIn", "", "OptIn/OptInWithConsKey"},
	{"msg.optOut", "", "OptOut"},
	{"avs.registerOperatorToAVS", "avs does not exist", "IsAVS"},
	{"avs.deregisterOperatorFromAVS", "avs does not exist", "IsAVS"},
	{"avs.registerOperatorToAVS", "invalid operator address", "IsOperator"},
	{"avs.deregisterOperatorFromAVS", "invalid operator address", "IsOperator"},
	{"avs.registerOperatorToAVS", "already opted in", "IsOptedIn"},
	{"avs.deregisterOperatorFromAVS", "not opted in", "IsActive"},
	{"avs.deregisterOperatorFromAVS", "the operator hasn't opted", "IsActive"},
	{"avs.deregisterOperatorFromAVS", "the operator h", "IsActive"},
	{"avs.createTask", "the taskaddr is", "GetAVSInfoByTaskAddress"},
	{"avs.createTask", "not qualified to CreateAVSTask", "owner contains caller"},
	{"avs.createTask", "the votingpower of avs", "GetAVSUSDValue>0"},
	{"avs.createTask", "epoch info not found", "GetEpochInfo"},
	{"avs.createTask", "the task is :", "IsExistTask"},
	{"avs.createTask", "failed to get opt-in operators", "GetOptInOperators"},
	{"avs.createTask", "the contract input parameter type or value error", "GetTaskParamsFromInputs"},
}

// atomFnStep: refusing step of an entry point from the callee that produced the error (innermost application frame of
// the error's stack trace), for failures whose text no row above knows. Independent of the wording of the error.
var atomFnStep = map[string]map[string]string{
	// delegateTo: the callees that stand after its first write (UpdateStakerAssetState) by their names in Model/Atomic.lean
	"delegation.delegate": atomDelegateFnStep,
	"keeper.DelegateTo":   atomDelegateFnStep,
	"delegation.undelegate": {
		"ValidateUndelegationAmount": "ValidateUndelegationAmount", "GetSingleDelegationInfo": "ValidateUndelegationAmount",
		"SharesFromTokens": "ValidateUndelegationAmount", "RemoveShareFromOperator": "share.GT(TotalShare)", "TokensFromShares": "TokensFromShares",
		"UpdateOperatorAssetState": "UpdateAssetValue(operator.TotalAmount)",
		"UpdateStakerAssetState":   "UpdateAssetValue(PendingUndelegationAmount)", "UpdateDelegationState": "UpdateDelegationState",
		"DeleteStakerForOperator": "DeleteStakerForOperator", "SetUndelegationRecords": "SetUndelegationRecords",
		"IncrementUndelegationHoldCount": "IncrementUndelegationHoldCount", "AfterUndelegationStarted": "IncrementUndelegationHoldCount",
	},
}

var atomDelegateFnStep = map[string]string{
	"UpdateStakerAssetState": "UpdateAssetValue(WithdrawableAmount)", "CalculateShare": "CalculateShare", "GetAssociatedOperator": "GetAssociatedOperator",
	"UpdateOperatorAssetState": "UpdateAssetValue(operator.TotalAmount)", "UpdateDelegationState": "UpdateDelegationState",
	"AppendStakerForOperator": "AppendStakerForOperator", "DelegateCoinsFromAccountToModule": "DelegateCoinsFromAccountToModule",
}

func atomClassify(entry, errText string) string {
	for _, r := range atomClass {
		if errText != "" && strings.HasPrefix(entry, r[0]) && r[1] != "" && strings.Contains(errText, r[1]) {
			return r[2]
		}
	}
	for _, r := range atomClass { // fall-back rows (empty substring) of exactly this entry
		if r[0] == entry && r[1] == "" {
			return r[2]
		}
	}
	return ""
}

// failStep names the step of the entry point's program (Model/Atomic.lean) that refused: by the text of the logged
// error, else — for a precompile's `false` — by the callee at the top of the error's stack trace.
func (h *atomH) failStep(entry, class, errText string) string {
	step := atomClassify(entry, errText)
	if step == "" && (class == "false" || class == "krej") {
		if st, ok := atomFnStep[entry][h.lastErrFn]; ok {
			step = st
			h.env.Note("classified-by-stack:" + entry + ":" + h.lastErrFn)
		} else if entry == "delegation.undelegate" && strings.HasSuffix(errText, ":: "+delegationtypes.ErrNoKeyInTheStore.Error()) {
			step = "DeleteStakerForOperator" // the bare sentinel: only DeleteStakerForOperator returns it unwrapped on this path
		}
	}
	return step
}

// report handles one failing call: diff, monitor, model line.
func (h *atomH) report(entry, class, errText string, before Snapshot, desc string, allowBank []string) {
	env := h.env
	after := xbSnapshot(h.c, h.c.Ctx, true)
	for _, a := range allowBank { // fee payer / fee collector balances are allowed to change
		for _, s := range []Snapshot{before, after} {
			for k := range s["bank"] {
				if strings.Contains(k, a) {
					delete(s["bank"], k)
				}
			}
		}
	}
	stores, detail := xbDiff(before, after)
	if env.Str("debug", "") != "" {
		fmt.Printf("FAIL %s %s :: %.200s\n", entry, class, errText)
	}
	env.Eval("C09.fail-leaves-no-trace")
	step := h.failStep(entry, class, errText)
	obs := "clean"
	if len(stores) > 0 {
		obs = "dirty"
	}
	if class == "false" || class == "rej" {
		if step != "" {
			op := "at " + entry + " " + step
			env.Op(op, obs)
		} else {
			env.Op("at.skip "+entry, "skip")
			short := errText
			if len(short) > 60 {
				short = short[:60]
			}
			env.Note("unclassified:" + entry + ":" + short)
		}
	} else {
		env.Op("at.skip "+entry+" "+class, "skip")
	}
	h.hist = append(h.hist, desc+" => "+class+" ["+step+"]")
	if len(stores) > 0 {
		tag := step
		if tag == "" {
			tag = class
		}
		sig := "dirty:" + entry + ":" + strings.ReplaceAll(tag, " ", "_")
		if !h.seen[sig] {
			h.seen[sig] = true
			hh := h.hist
			if len(hh) > 60 { // the boot / scenario lines and the tail
				hh = append(append([]string{}, hh[:3]...), hh[len(hh)-57:]...)
			}
			env.Violate("C09.fail-leaves-no-trace", sig,
				fmt.Sprintf("%s reported failure (%s; %s) but changed %v: %s", entry, class, errText, stores, detail), hh)
		} else {
			env.Note("repeat:" + sig)
		}
	}
	env.DistinctKey(entry + "|" + class + "|" + step)
}

func (h *atomH) evm(entry string, from common.Address, to common.Address, a abi.ABI, method string, args ...interface{}) string {
	data, err := a.Pack(method, args...)
	if err != nil {
		h.env.Note("pack-error:" + entry)
		return "pack"
	}
	m := a.Methods[method]
	before := xbSnapshot(h.c, h.c.Ctx, true)
	h.lastErr, h.lastErrFn = "", ""
	txNote := ""
	if h.sameTx && xbTxCounter > 0 {
		// a further call of the Ethereum transaction the previous call belonged to: xbEvmCall derives the tx hash it
		// puts into the context (delegation.CtxKeyTxHash) from xbTxCounter+1
		xbTxCounter--
		txNote = " [same Ethereum tx as the previous call]"
	}
	h.sameTx = false
	r := xbEvmCall(h.c, from, to, data, &m)
	class := r.Class()
	desc := fmt.Sprintf("evm %s from=%s data=%s tx=%x%s", entry, from.Hex(), hex.EncodeToString(data), xbTxCounter, txNote)
	h.env.Outcome(entry + ":" + class)
	if class == "ok" {
		h.hist = append(h.hist, desc+" => ok")
		return class
	}
	et := h.lastErr
	if class != "false" {
		et = r.VMErr + r.Err + r.Panic
	}
	h.report(entry, class, et, before, desc, nil)
	return class
}

// keeper runs a Begin/EndBlock-style keeper call directly on the deliver context: an error is only
// logged by the caller, the writes stay (blockHook semantics); a panic would halt the node.
func (h *atomH) keeper(entry, desc string, f func(ctx sdk.Context) error) string {
	before := xbSnapshot(h.c, h.c.Ctx, true)
	var err error
	pan := ""
	func() {
		defer func() {
			if r := recover(); r != nil {
				pan = fmt.Sprint(r)
			}
		}()
		err = f(h.c.Ctx)
	}()
	if pan != "" {
		h.env.Outcome(entry + ":panic")
		h.env.Note("keeper-panic:" + entry)
		h.hist = append(h.hist, desc+" => panic "+pan)
		return "panic"
	}
	if err == nil {
		h.env.Outcome(entry + ":ok")
		h.hist = append(h.hist, desc+" => ok")
		return "ok"
	}
	h.env.Outcome(entry + ":rej")
	h.report(entry, "rej", err.Error(), before, desc, nil)
	return "rej"
}

// msg delivers one signed cosmos tx (CheckTx + DeliverTx) with a fee.
func (h *atomH) msg(entry string, signer Actor, m sdk.Msg) string {
	c := h.c
	acc := c.App.AccountKeeper.GetAccount(c.Ctx, signer.Acc)
	if acc == nil {
		h.env.Note("msg-no-account")
		return "skip"
	}
	fee := sdk.NewCoins(sdk.NewCoin(utils.BaseDenom, sdkmath.NewInt(1).Mul(sdkmath.NewIntWithDecimal(1, 16))))
	bz, err := xbSignCosmos(c, c.App.GetTxConfig(), []sdk.Msg{m}, signer.Priv.PubKey(), signer.Priv, acc.GetAccountNumber(), acc.GetSequence(), 2_000_000, fee, false)
	if err != nil {
		h.env.Note("msg-build-error:" + entry)
		return "skip"
	}
	before := xbSnapshot(c, c.Ctx, true)
	r := xbDeliver(c, bz, false)
	desc := fmt.Sprintf("msg %s signer=%s %s", entry, signer.Acc.String(), strings.ReplaceAll(m.String(), "\n", " "))
	if r.Accepted() {
		h.env.Outcome(entry + ":ok")
		h.hist = append(h.hist, desc+" => ok")
		return "ok"
	}
	class := "rej"
	if r.Panic != "" {
		class = "panic"
	}
	h.env.Outcome(entry + ":" + class)
	feeColl := authtypes.NewModuleAddress(authtypes.FeeCollectorName)
	h.report(entry, "msgrej", r.Log, before, desc, []string{hex.EncodeToString(signer.Acc), hex.EncodeToString(feeColl)})
	return class
}

// ---- value generators

func (h *atomH) amount(dec int) *big.Int {
	r := h.rng
	unit := new(big.Int).Exp(big.NewInt(10), big.NewInt(int64(dec)), nil)
	switch r.Pick(5, 3, 2, 2, 1) {
	case 0:
		return new(big.Int).Mul(big.NewInt(int64(1+r.Intn(40))), unit)
	case 1:
		return big.NewInt(int64(1 + r.Intn(1000)))
	case 2:
		return new(big.Int).Add(unit, big.NewInt(int64(r.Intn(3)-1)))
	case 3:
		return new(big.Int).Mul(big.NewInt(32), unit)
	default:
		// 2^64 base units: the largest value that may be booked (larger successful deposits make the
		// validator power computation overflow int64 in every later block, which is C11's subject and
		// would end the history)
		return new(big.Int).Lsh(big.NewInt(1), 64)
	}
}

// badDeposit: amounts a deposit must refuse (or overflow on: panic ⇒ reverted)
func (h *atomH) badDeposit() *big.Int {
	if h.rng.Bool() {
		return big.NewInt(0)
	}
	return new(big.Int).Sub(new(big.Int).Lsh(big.NewInt(1), 256), big.NewInt(1))
}

func (h *atomH) badAmount() *big.Int {
	switch h.rng.Intn(4) {
	case 0:
		return big.NewInt(0)
	case 1:
		return new(big.Int).Sub(new(big.Int).Lsh(big.NewInt(1), 255), big.NewInt(1))
	case 2:
		return new(big.Int).Sub(new(big.Int).Lsh(big.NewInt(1), 256), big.NewInt(1))
	default:
		return new(big.Int).Lsh(big.NewInt(1), 200)
	}
}

func (h *atomH) stakerBytes(bad bool) []byte {
	s := h.stakers[h.rng.Intn(len(h.stakers))]
	if bad {
		switch h.rng.Intn(3) {
		case 0:
			return s.Eth.Bytes()[:10] // too short
		case 1:
			return []byte{}
		default:
			return pad32(NewActor(h.c.Cfg.Seed, "ghost", h.rng.Intn(3)).Eth.Bytes())
		}
	}
	return pad32(s.Eth.Bytes())
}

func (h *atomH) assetBytes(kind int) []byte {
	switch kind {
	case 0:
		return pad32(hexToBytes(h.c.Cfg.Assets[0].Addr))
	case 1:
		return pad32(hexToBytes(nstAddrHex))
	case 2:
		return pad32(hexToBytes("0x1111111111111111111111111111111111111111")) // unknown
	default:
		return hexToBytes("0xdac17f")
	}
}

func (h *atomH) operatorBytes(kind int) []byte {
	switch kind {
	case 0, 1:
		return []byte(h.c.Operators[kind%len(h.c.Operators)].Acc.String())
	case 2:
		return []byte(h.stakers[0].Acc.String()) // valid bech32, not an operator
	case 3:
		return []byte("exo1notbech32")
	default:
		b := []byte(h.c.Operators[0].Acc.String())
		b[len(b)-1] ^= 1 // checksum broken, right length
		return b
	}
}

func (h *atomH) chainID(bad bool) uint32 {
	if bad {
		return uint32(7 + h.rng.Intn(3))
	}
	return uint32(h.c.LzID)
}

func (h *atomH) caller() common.Address {
	if h.rng.Chance(1, 8) {
		return h.others[h.rng.Intn(len(h.others))].Eth
	}
	return h.c.Funded.Eth
}

// ---- one random step
func (h *atomH) step() {
	r := h.rng
	c := h.c
	gw := h.caller()
	bad := r.Chance(1, 3)
	switch r.Pick(10, 6, 6, 5, 8, 6, 3, 3, 3, 3, 3, 4, 3, 3, 3, 2, 3, 4, 4) {
	case 0: // depositLST
		amt := h.amount(6)
		ak, sb, cid := 0, h.stakerBytes(false), h.chainID(false)
		if bad {
			switch r.Intn(4) {
			case 0:
				amt = h.badDeposit()
			case 1:
				ak = 2 + r.Intn(2)
			case 2:
				sb = h.stakerBytes(true)
			default:
				cid = h.chainID(true)
			}
		}
		h.evm("assets.depositLST", gw, xbAssetsAddr, h.abis.assets, "depositLST", cid, h.assetBytes(ak), sb, amt)
	case 1: // withdrawLST
		amt := h.amount(6)
		ak, sb := 0, h.stakerBytes(false)
		if bad {
			switch r.Intn(3) {
			case 0:
				amt = h.badAmount()
			case 1:
				ak = 2
			default:
				sb = h.stakerBytes(true)
			}
		}
		h.evm("assets.withdrawLST", gw, xbAssetsAddr, h.abis.assets, "withdrawLST", h.chainID(false), h.assetBytes(ak), sb, amt)
	case 2: // depositNST
		amt := h.amount(18)
		pk := []byte(fmt.Sprintf("validator-pubkey-%02d", r.Intn(4)))
		sb := h.stakerBytes(false)
		if bad {
			switch r.Intn(3) {
			case 0:
				amt = h.badDeposit()
			case 1:
				pk = []byte{}
			default:
				sb = h.stakerBytes(true)
			}
		}
		h.evm("assets.depositNST", gw, xbAssetsAddr, h.abis.assets, "depositNST", h.chainID(false), pk, sb, amt)
	case 3: // withdrawNST — also for stakers that already left the oracle's list while x/assets still holds a
		// withdrawable remainder: the oracle side then refuses after the booking (F-09a, repaired: must be clean)
		s := h.stakers[r.Intn(len(h.stakers))]
		amt := h.amount(18)
		if bad {
			amt = h.badAmount()
		}
		pk := []byte(fmt.Sprintf("validator-pubkey-%02d", r.Intn(4)))
		h.evm("assets.withdrawNST", gw, xbAssetsAddr, h.abis.assets, "withdrawNST", h.chainID(false), pk, pad32(s.Eth.Bytes()), amt)
	case 4: // delegate
		amt := h.amount(6)
		ak, ok, sb := r.Pick(5, 2), r.Intn(2), h.stakerBytes(false)
		if bad {
			switch r.Intn(4) {
			case 0:
				amt = h.badAmount()
			case 1:
				ok = 2 + r.Intn(3)
			case 2:
				ak = 2
			default:
				sb = h.stakerBytes(true)
			}
		}
		if ak == 1 {
			amt = h.amount(18)
		}
		h.lzNonce++
		si := -1
		if !bad {
			si = r.Intn(len(h.stakers))
			sb = pad32(h.stakers[si].Eth.Bytes())
		}
		if h.evm("delegation.delegate", gw, xbDelegAddr, h.abis.deleg, "delegate", h.chainID(false), h.lzNonce, h.assetBytes(ak), sb, h.operatorBytes(ok), amt) == "ok" && si >= 0 {
			h.dels = append(h.dels, [3]int{si, ak, ok})
		}
	case 5: // undelegate
		amt := h.amount(6)
		ak, ok, sb := r.Pick(5, 2), r.Intn(2), h.stakerBytes(false)
		if bad {
			switch r.Intn(3) {
			case 0:
				amt = h.badAmount()
			case 1:
				ok = 2 + r.Intn(3)
			default:
				sb = h.stakerBytes(true)
			}
		}
		if ak == 1 {
			amt = h.amount(18)
		}
		if !bad && len(h.dels) > 0 && r.Chance(3, 4) {
			d := h.dels[r.Intn(len(h.dels))]
			sb, ak, ok = pad32(h.stakers[d[0]].Eth.Bytes()), d[1], d[2]
			amt = big.NewInt(int64(1 + r.Intn(2_000_000)))
			if ak == 1 {
				amt = h.amount(18)
			}
		}
		h.lzNonce++
		h.evm("delegation.undelegate", gw, xbDelegAddr, h.abis.deleg, "undelegate", h.chainID(false), h.lzNonce, h.assetBytes(ak), sb, h.operatorBytes(ok), amt)
	case 6: // associate
		ok := r.Intn(2)
		if bad {
			ok = 2 + r.Intn(3)
		}
		h.evm("delegation.associateOperatorWithStaker", gw, xbDelegAddr, h.abis.deleg, "associateOperatorWithStaker", h.chainID(bad && r.Bool()), h.stakerBytes(bad && r.Bool()), h.operatorBytes(ok))
	case 7: // dissociate
		h.evm("delegation.dissociateOperatorFromStaker", gw, xbDelegAddr, h.abis.deleg, "dissociateOperatorFromStaker", h.chainID(bad && r.Bool()), h.stakerBytes(bad))
	case 8: // registerOrUpdateClientChain
		id, al, name, meta := uint32(200+r.Intn(3)), uint8(20+r.Intn(13)), "chain", "meta"
		if bad {
			switch r.Intn(3) {
			case 0:
				al = uint8(r.Intn(20))
			case 1:
				name = ""
			default:
				meta = strings.Repeat("m", 300)
			}
		}
		h.evm("assets.registerOrUpdateClientChain", gw, xbAssetsAddr, h.abis.assets, "registerOrUpdateClientChain", id, al, name, meta, "sig")
	case 9: // registerToken — decimals > 18 are refused by SetStakingAssetInfo (F-09b, repaired: must be clean)
		addr := pad32(NewActor(c.Cfg.Seed, "token", r.Intn(4)).Eth.Bytes())
		dec, name, meta, oi := uint8(r.Intn(24)), "TKX", "meta", fmt.Sprintf("TKX%d,chainX,8", r.Intn(3))
		cid := h.chainID(false)
		if bad {
			switch r.Intn(5) {
			case 0:
				name = ""
			case 1:
				oi = "onlyone"
			case 2:
				oi = "TKY,chainY,notanumber"
			case 3:
				cid = h.chainID(true)
			default:
				addr = h.assetBytes(0) // already registered
			}
		}
		h.evm("assets.registerToken", gw, xbAssetsAddr, h.abis.assets, "registerToken", cid, addr, dec, name, meta, oi)
	case 10: // updateToken
		ak, meta := r.Pick(3, 1, 2), "newmeta"
		if bad && r.Bool() {
			meta = ""
		}
		h.evm("assets.updateToken", gw, xbAssetsAddr, h.abis.assets, "updateToken", h.chainID(false), h.assetBytes(ak), meta)
	case 11: // claimReward (always refuses)
		h.evm("reward.claimReward", gw, xbRewardAddr, h.abis.reward, "claimReward", h.chainID(false), h.assetBytes(0), h.stakerBytes(false), h.amount(6))
	case 12: // AVS precompile: operator opt-in/out for an address given as argument, from some contract address
		from := h.others[r.Intn(len(h.others))].Eth
		if r.Chance(1, 3) {
			from = common.HexToAddress(c.AVSAddr)
		}
		var op common.Address
		if r.Chance(2, 3) {
			op = c.Operators[r.Intn(len(c.Operators))].Eth
		} else {
			op = h.stakers[0].Eth
		}
		if r.Bool() {
			h.evm("avs.registerOperatorToAVS", from, xbAvsAddr, h.abis.avs, "registerOperatorToAVS", op)
		} else if from != common.HexToAddress(c.AVSAddr) { // opting a validator out of the chain AVS is C07's business
			h.evm("avs.deregisterOperatorFromAVS", from, xbAvsAddr, h.abis.avs, "deregisterOperatorFromAVS", op)
		}
	case 13: // keeper: Slash refused early (parameter checks) or late (duplicate id / contract / proportion: F-04a, fixed by b01075b — both must leave no trace)
		op := c.Operators[r.Intn(len(c.Operators))]
		h.slashN++
		p := &operatortypes.SlashInputInfo{IsDogFood: true, Power: int64(1 + r.Intn(50)), SlashType: 1, Operator: op.Acc, AVSAddr: c.AVSAddr,
			SlashID: fmt.Sprintf("rnd-%d", h.slashN), SlashEventHeight: c.Ctx.BlockHeight() - int64(r.Intn(2)), SlashProportion: sdkmath.LegacyNewDecWithPrec(int64(1+r.Intn(30)), 2)}
		if bad || r.Chance(1, 2) {
			switch r.Intn(6) {
			case 0:
				p.SlashProportion = sdkmath.LegacyNewDec(-1)
			case 1:
				p.SlashEventHeight = c.Ctx.BlockHeight() + 5
			case 2:
				p.Power = 0
			case 3: // replay of an id accepted before in this history
				if len(h.slashOK) > 0 {
					prev := h.slashOK[r.Intn(len(h.slashOK))]
					p.SlashID, p.Operator = prev.id, prev.op
				} else {
					p.Power = -1
				}
			case 4:
				p.SlashContract = "0x00000000000000000000000000000000000000bb"
			default:
				p.SlashProportion = sdkmath.LegacyNewDecWithPrec(int64(101+r.Intn(200)), 2)
			}
		}
		if h.keeper("operator.Slash", fmt.Sprintf("keeper Slash op=%s id=%s prop=%s h=%d pow=%d", op.Acc, p.SlashID, p.SlashProportion, p.SlashEventHeight, p.Power),
			func(ctx sdk.Context) error { return c.App.OperatorKeeper.Slash(ctx, p) }) == "ok" {
			h.slashOK = append(h.slashOK, atomSlash{op: p.Operator, id: p.SlashID})
		}
	case 14: // keeper: UpdateNSTByBalanceChange with malformed raw data (rejected before the loop) or with a run of
		// the per-staker loop that may be refused mid-way (F-09d, repaired: the earlier stakers must not stay updated)
		raw := make([]byte, r.Intn(31))
		if r.Bool() {
			raw = make([]byte, 32, 36)
			if len(c.App.OracleKeeper.GetStakerList(c.Ctx, AssetIDOf(c.LzID, nstAddrHex)).StakerAddrs) > 0 && r.Bool() {
				raw[0] = 0x80                       // staker 0 flagged
				raw = append(raw, 0x18, 0x00, 0x00) // length 1, negative, value bit 0: change -1
			} else {
				raw = append(raw, 0, 0)
			}
		}
		h.keeper("oracle.UpdateNSTByBalanceChange", fmt.Sprintf("keeper UpdateNSTByBalanceChange raw=%x", raw),
			func(ctx sdk.Context) error {
				return c.App.OracleKeeper.UpdateNSTByBalanceChange(ctx, AssetIDOf(c.LzID, nstAddrHex), raw, uint64(2+r.Intn(3)))
			})
	case 15: // keeper: UpdateVotingPower for an existing / unknown AVS
		avs := c.AVSAddr
		switch r.Intn(3) {
		case 0:
			avs = "0x00000000000000000000000000000000000000aa"
		case 1:
			avs = h.others[0].Eth.String() // the AVS registered by the harness (keys use the checksummed form the precompile stores)
		}
		h.keeper("operator.UpdateVotingPower", "keeper UpdateVotingPower avs="+avs,
			func(ctx sdk.Context) error { return c.App.OperatorKeeper.UpdateVotingPower(ctx, avs) })
	case 16: // signed messages
		h.msgStep()
	case 18: // the operator msg server driven directly (as the repository's suites do): its own cache context is then the
		// only thing between a failing second step and the store
		h.msgServerStep()
	case 17: // AVS precompile createTask: from the AVS (= its own task address) or a non-AVS address, sender argument owner / non-owner;
		// the AVS has no voting power until an operator opted in and UpdateVotingPower ran, so most owner calls are refused
		// AFTER the owner check (voting power) — nothing, in particular no task id, may be consumed
		from := h.others[0].Eth
		if r.Chance(1, 5) {
			from = h.others[1].Eth
		}
		sender := h.others[0].Eth
		if r.Chance(1, 4) {
			sender = h.stakers[0].Eth
		}
		name := "task"
		if bad && r.Chance(1, 3) {
			name = ""
		}
		h.evm("avs.createTask", from, xbAvsAddr, h.abis.avs, "createTask", sender, name, []byte("task-hash"), uint64(2), uint64(2), uint64(60), uint64(1))
	}
	if r.Chance(1, 12) {
		h.block(time.Duration(1+r.Intn(3)) * time.Second)
	}
}

// opX is the account the harness turns into a registered operator with enough self delegation to opt into the chain AVS.
func (h *atomH) opX() Actor { return h.others[1] }

// prepareOpX registers opX as an operator and gives it 150 USDT of self delegation (deposit, associate, delegate).
func (h *atomH) prepareOpX() {
	c, x := h.c, h.opX()
	srv := operatorkeeper.NewMsgServerImpl(c.App.OperatorKeeper)
	h.keeper("msg.registerOperator", "msgserver RegisterOperator "+x.Acc.String(), func(ctx sdk.Context) error {
		_, e := srv.RegisterOperator(sdk.WrapSDKContext(ctx), &operatortypes.RegisterOperatorReq{FromAddress: x.Acc.String(), Info: &operatortypes.OperatorInfo{
			EarningsAddr: x.Acc.String(), ApproveAddr: x.Acc.String(), OperatorMetaInfo: "opX", Commission: stakingtypes.NewCommission(sdk.ZeroDec(), sdk.ZeroDec(), sdk.ZeroDec())}})
		return e
	})
	gw, st := c.Funded.Eth, pad32(x.Eth.Bytes())
	h.evm("assets.depositLST", gw, xbAssetsAddr, h.abis.assets, "depositLST", uint32(c.LzID), h.assetBytes(0), st, big.NewInt(200_000_000))
	h.evm("delegation.associateOperatorWithStaker", gw, xbDelegAddr, h.abis.deleg, "associateOperatorWithStaker", uint32(c.LzID), st, []byte(x.Acc.String()))
	h.lzNonce++
	h.evm("delegation.delegate", gw, xbDelegAddr, h.abis.deleg, "delegate", uint32(c.LzID), h.lzNonce, h.assetBytes(0), st, []byte(x.Acc.String()), big.NewInt(150_000_000))
}

// optInDirect / optOutDirect call the operator msg server on the deliver context without any outer cache.
func (h *atomH) optInDirect(who Actor, avs, keyJSON, what string) string {
	srv := operatorkeeper.NewMsgServerImpl(h.c.App.OperatorKeeper)
	return h.keeper("msg.optIn", fmt.Sprintf("msgserver OptIntoAVS from=%s avs=%s key=%s", who.Acc, avs, what), func(ctx sdk.Context) error {
		_, e := srv.OptIntoAVS(sdk.WrapSDKContext(ctx), &operatortypes.OptIntoAVSReq{FromAddress: who.Acc.String(), AvsAddress: avs, PublicKeyJSON: keyJSON})
		return e
	})
}

func (h *atomH) optOutDirect(who Actor, avs string) string {
	srv := operatorkeeper.NewMsgServerImpl(h.c.App.OperatorKeeper)
	return h.keeper("msg.optOut", fmt.Sprintf("msgserver OptOutOfAVS from=%s avs=%s", who.Acc, avs), func(ctx sdk.Context) error {
		_, e := srv.OptOutOfAVS(sdk.WrapSDKContext(ctx), &operatortypes.OptOutOfAVSReq{FromAddress: who.Acc.String(), AvsAddress: avs})
		return e
	})
}

func (h *atomH) msgServerStep() {
	r, c := h.rng, h.c
	who := h.opX()
	if r.Chance(1, 5) {
		who = h.others[0] // not an operator
	}
	avs := c.AVSAddr
	if r.Chance(1, 4) {
		avs = h.others[0].Eth.String() // the non-chain AVS registered by the harness
	}
	if r.Chance(1, 3) {
		h.optOutDirect(who, avs)
		return
	}
	switch r.Intn(5) {
	case 0, 1: // a consensus key another operator is using: OptIn succeeds, the key step refuses
		i := r.Intn(len(c.ConsKeys))
		h.optInDirect(who, avs, c.ConsKeys[i].ToJSON(), fmt.Sprintf("inUseBy-operator%d", i))
	case 2:
		h.optInDirect(who, avs, "{not json", "malformed")
	case 3:
		h.optInDirect(who, avs, "", "none")
	default:
		k, _ := NewConsKey(c.Cfg.Seed, "fresh", r.Intn(4))
		h.optInDirect(who, avs, k.ToJSON(), "fresh")
	}
}

func (h *atomH) msgStep() {
	r, c := h.rng, h.c
	switch r.Intn(4) {
	case 0: // native-token delegation by a funded staker
		s := h.others[r.Intn(len(h.others))]
		op := c.Operators[r.Intn(len(c.Operators))].Acc.String()
		if r.Chance(1, 3) {
			op = h.stakers[0].Acc.String() // not an operator
		}
		amt := sdkmath.NewIntFromBigInt(h.amount(18))
		if r.Chance(1, 4) {
			amt = sdkmath.NewIntWithDecimal(1, 30) // more than the balance
		}
		m := &delegationtypes.MsgDelegation{AssetID: assetstypes.ExocoreAssetID, BaseInfo: &delegationtypes.DelegationIncOrDecInfo{FromAddress: s.Acc.String(),
			PerOperatorAmounts: []delegationtypes.KeyValue{{Key: op, Value: &delegationtypes.ValueField{Amount: amt}}}}}
		h.msg("msg.delegate", s, m)
	case 1:
		s := h.others[r.Intn(len(h.others))]
		op := c.Operators[r.Intn(len(c.Operators))].Acc.String()
		m := &delegationtypes.MsgUndelegation{AssetID: assetstypes.ExocoreAssetID, BaseInfo: &delegationtypes.DelegationIncOrDecInfo{FromAddress: s.Acc.String(),
			PerOperatorAmounts: []delegationtypes.KeyValue{{Key: op, Value: &delegationtypes.ValueField{Amount: sdkmath.NewIntFromBigInt(h.amount(18))}}}}}
		h.msg("msg.undelegate", s, m)
	case 2: // opt into an AVS that does not exist / with a key for a non-chain AVS / already opted in
		s := h.others[r.Intn(len(h.others))]
		avs := c.AVSAddr
		if r.Bool() {
			avs = "0x00000000000000000000000000000000000000aa"
		}
		m := &operatortypes.OptIntoAVSReq{FromAddress: s.Acc.String(), AvsAddress: avs}
		if r.Bool() {
			k, _ := NewConsKey(c.Cfg.Seed, "extra", r.Intn(3))
			m.PublicKeyJSON = k.ToJSON()
		}
		h.msg("msg.optIn", s, m)
	case 3:
		s := h.others[r.Intn(len(h.others))]
		if r.Bool() {
			m := &operatortypes.OptOutOfAVSReq{FromAddress: s.Acc.String(), AvsAddress: c.AVSAddr}
			h.msg("msg.optOut", s, m)
		} else {
			m := &operatortypes.RegisterOperatorReq{FromAddress: s.Acc.String(), Info: &operatortypes.OperatorInfo{EarningsAddr: s.Acc.String(), ApproveAddr: s.Acc.String(), OperatorMetaInfo: "op",
				Commission: stakingtypes.NewCommission(sdk.ZeroDec(), sdk.ZeroDec(), sdk.ZeroDec())}}
			if r.Bool() {
				m.Info.OperatorMetaInfo = ""
			}
			h.msg("msg.registerOperator", s, m)
		}
	}
}

// ---- directed scenarios: the check-after-write paths, each on a fresh chain
func (h *atomH) directed() {
	c := h.c
	gw := c.Funded.Eth
	u18 := func(n int64) *big.Int {
		return new(big.Int).Mul(big.NewInt(n), new(big.Int).Exp(big.NewInt(10), big.NewInt(18), nil))
	}
	st := pad32(h.stakers[0].Eth.Bytes())
	pk := []byte("validator-pubkey-00")
	// F-09a (repaired, kept as a regression scenario; sig unchanged): deposit 40 ETH (oracle counts 32), withdraw 32 (staker leaves the oracle's list, 8 remain
	// withdrawable in x/assets), withdraw 1 more: booked in x/assets, then refused by the oracle.
	h.evm("assets.depositNST", gw, xbAssetsAddr, h.abis.assets, "depositNST", uint32(c.LzID), pk, st, u18(40))
	h.evm("assets.withdrawNST", gw, xbAssetsAddr, h.abis.assets, "withdrawNST", uint32(c.LzID), pk, st, u18(32))
	h.evm("assets.withdrawNST", gw, xbAssetsAddr, h.abis.assets, "withdrawNST", uint32(c.LzID), pk, st, u18(1))
	// F-09b (repaired, regression scenario): registerToken with 19 decimals: oracle token + feeder registered, then the asset is refused.
	h.evm("assets.registerToken", gw, xbAssetsAddr, h.abis.assets, "registerToken", uint32(c.LzID),
		pad32(hexToBytes("0x2222222222222222222222222222222222222222")), uint8(19), "BAD", "meta", "BADTOKEN,badchain,8")
	// F-04a (fixed by b01075b, kept as a regression scenario): the same slash id twice / wrong slash
	// contract / proportion > 1 are refused after SlashAssets ran — and must now leave no trace
	op := c.Operators[0]
	mk := func(id string, prop sdkmath.LegacyDec, contract string) *operatortypes.SlashInputInfo {
		return &operatortypes.SlashInputInfo{IsDogFood: true, Power: 10, SlashType: 1, Operator: op.Acc, AVSAddr: c.AVSAddr, SlashContract: contract,
			SlashID: id, SlashEventHeight: c.Ctx.BlockHeight(), SlashProportion: prop}
	}
	for i, p := range []*operatortypes.SlashInputInfo{
		mk("dir-1", sdkmath.LegacyNewDecWithPrec(25, 2), ""), mk("dir-1", sdkmath.LegacyNewDecWithPrec(25, 2), ""),
		mk("dir-2", sdkmath.LegacyNewDecWithPrec(10, 2), "0x00000000000000000000000000000000000000bb"),
		mk("dir-3", sdkmath.LegacyNewDecWithPrec(15, 1), ""),
	} {
		p := p
		h.keeper("operator.Slash", fmt.Sprintf("keeper Slash #%d id=%s prop=%s contract=%q", i, p.SlashID, p.SlashProportion, p.SlashContract),
			func(ctx sdk.Context) error { return c.App.OperatorKeeper.Slash(ctx, p) })
	}
	// msg server driven directly: OptIntoAVS of a qualified operator into the chain AVS with a consensus key that is in
	// use (OptIn succeeds, SetOperatorConsKeyForChainID refuses), malformed key, key for a non-chain AVS; then a
	// successful opt-in, an opt-out, and an opt-in while the key removal is pending
	h.prepareOpX()
	h.optInDirect(h.opX(), c.AVSAddr, c.ConsKeys[0].ToJSON(), "inUseBy-operator0")
	h.optInDirect(h.opX(), c.AVSAddr, "{not json", "malformed")
	h.optInDirect(h.opX(), h.others[0].Eth.String(), c.ConsKeys[1].ToJSON(), "keyForNonChainAVS")
	fresh, _ := NewConsKey(c.Cfg.Seed, "fresh", 9)
	h.optInDirect(h.opX(), c.AVSAddr, fresh.ToJSON(), "fresh")
	h.optInDirect(h.opX(), c.AVSAddr, fresh.ToJSON(), "fresh-again")
	h.optOutDirect(h.opX(), c.AVSAddr)
	h.optOutDirect(h.opX(), c.AVSAddr)
	fresh2, _ := NewConsKey(c.Cfg.Seed, "fresh", 10)
	h.optInDirect(h.opX(), c.AVSAddr, fresh2.ToJSON(), "fresh-whileRemovalPending")
	// createTask refused after the owner check (the AVS has no voting power) and at the owner check: no task id may be consumed
	h.evm("avs.createTask", h.others[0].Eth, xbAvsAddr, h.abis.avs, "createTask", h.others[0].Eth, "task", []byte("task-hash"), uint64(2), uint64(2), uint64(60), uint64(1))
	h.evm("avs.createTask", h.others[0].Eth, xbAvsAddr, h.abis.avs, "createTask", h.stakers[0].Eth, "task", []byte("task-hash"), uint64(2), uint64(2), uint64(60), uint64(1))
	// F-09d (repaired, regression scenario): two NST stakers; balance change flags staker 0 (-1) and staker 1 with a change that takes
	// its balance out of range: staker 0 is updated and stored, then the call fails.
	st1 := pad32(h.stakers[1].Eth.Bytes())
	h.evm("assets.depositNST", gw, xbAssetsAddr, h.abis.assets, "depositNST", uint32(c.LzID), pk, st, u18(32))
	h.evm("assets.depositNST", gw, xbAssetsAddr, h.abis.assets, "depositNST", uint32(c.LzID), []byte("validator-pubkey-01"), st1, u18(32))
	raw := make([]byte, 32)
	raw[0] = 0xC0 // stakers 0 and 1 flagged
	// staker0: len=1 (0001) sign=1, value bit 0 => -(0+1) = -1 ; staker1: len=6 (0110) sign=1, value 100000 => -(32+1) = -33
	bits := "0001" + "1" + "0" + "0110" + "1" + "100000"
	for len(bits)%8 != 0 {
		bits += "0"
	}
	for i := 0; i < len(bits); i += 8 {
		var b byte
		for j := 0; j < 8; j++ {
			b = b<<1 | (bits[i+j] - '0')
		}
		raw = append(raw, b)
	}
	raw = append(raw, 0, 0)
	h.keeper("oracle.UpdateNSTByBalanceChange", fmt.Sprintf("keeper UpdateNSTByBalanceChange raw=%x", raw),
		func(ctx sdk.Context) error {
			return c.App.OracleKeeper.UpdateNSTByBalanceChange(ctx, AssetIDOf(c.LzID, nstAddrHex), raw, 7)
		})
}

func (h *atomH) boot(seed uint64) {
	cfg := DefaultCfg(seed)
	cfg.Assets = append(cfg.Assets, AssetSpec{Addr: nstAddrHex, Decimals: 18, Price: "1", PriceDec: 0})
	xbResetOracleMem()
	h.c = NewChain(cfg)
	h.c.EndAndBegin(time.Second)
	h.ctxFix()
	h.abis = xbLoadABIs(h.c)
	h.stakers, h.others, h.dels, h.slashOK = nil, nil, nil, nil
	h.orng, h.oSent = nil, nil
	h.brng, h.nonces, h.sameTx = nil, nil, false
	for i := 0; i < 3; i++ {
		h.stakers = append(h.stakers, NewActor(seed, "staker", i))
	}
	for i := 0; i < 2; i++ {
		a := NewActor(seed, "other", i)
		h.others = append(h.others, a)
		if err := xbFund(h.c, a.Acc, 100); err != nil {
			panic(err)
		}
	}
	h.hist = []string{fmt.Sprintf("boot seed=%d assets=USDT(6),NST(18) operators=2 gateway=%s", seed, h.c.Funded.Eth.Hex())}
	h.env.Op("at.reset", "ok")
	// others[0] registers itself as an AVS whose task address is its own address and whose only owner it is
	a0 := h.others[0]
	if h.evm("avs.registerAVS", a0.Eth, xbAvsAddr, h.abis.avs, "registerAVS", a0.Eth, "harnessAVS", uint64(1), a0.Eth,
		NewActor(seed, "slashc", 0).Eth, NewActor(seed, "rewardc", 0).Eth, []string{a0.Acc.String()}, []string{h.c.AssetIDs[0]},
		uint64(2), uint64(0), "day", []uint64{1, 1, 5, 5}) != "ok" {
		h.env.Note("setup-registerAVS-refused")
	}
}

func domAtomic(env *Env) error {
	n := env.Int("histories", 6)
	steps := env.Int("steps", 150)
	env.Report.Domain = "atomic"
	xbDebug = env.Str("debug", "") == "2"
	// the snapshot around failing calls also covers the oracle's aggregator context (dom_atomic_oracle.go)
	xbMemAgc = true
	defer func() { xbMemAgc = false }()
	h := &atomH{env: env, rng: NewRNG(env.Report.Seed*7919 + 17), seen: map[string]bool{}}
	// history 0: the directed scenarios
	h.boot(env.Report.Seed*1000 + 999)
	h.directed()
	env.Report.Histories++
	env.Sample(strings.Join(h.hist[:min(len(h.hist), 8)], " ; "))
	// further directed histories, each on a fresh chain
	for i, f := range atomExtraDirected {
		h.boot(env.Report.Seed*1000 + 998 - uint64(i))
		f(h)
		env.Report.Histories++
	}
	for hi := 0; hi < n; hi++ {
		h.boot(env.Report.Seed*1000 + uint64(hi))
		h.random = true
		// seed some state: deposits and delegations so that later operations have something to act on
		for i, s := range h.stakers {
			h.evm("assets.depositLST", h.c.Funded.Eth, xbAssetsAddr, h.abis.assets, "depositLST", uint32(h.c.LzID), h.assetBytes(0), pad32(s.Eth.Bytes()), big.NewInt(int64(50+i)*1_000_000))
		}
		h.prepareOpX()
		for i := 0; i < steps; i++ {
			h.step()
			for _, f := range atomExtraStep {
				f(h)
			}
		}
		env.Report.Histories++
		if hi == 0 {
			env.Sample(strings.Join(h.hist[:min(len(h.hist), 10)], " ; "))
		}
	}
	return nil
}
