package main

import "math/big"

// RNG is splitmix64: every random choice of a run derives from one seed, so a history
// replays exactly.
type RNG struct{ s uint64 }

// NewRNG hashes the seed (one splitmix64 finaliser round) before using it as the stream's starting
// point: with s0 = seed*γ + c the streams of neighbouring seeds were the same stream shifted by one draw.
func NewRNG(seed uint64) *RNG {
	z := seed + 0x1234567
	z = (z ^ (z >> 30)) * 0xBF58476D1CE4E5B9
	z = (z ^ (z >> 27)) * 0x94D049BB133111EB
	return &RNG{s: z ^ (z >> 31)}
}

func (r *RNG) U64() uint64 {
	r.s += 0x9E3779B97F4A7C15
	z := r.s
	z = (z ^ (z >> 30)) * 0xBF58476D1CE4E5B9
	z = (z ^ (z >> 27)) * 0x94D049BB133111EB
	return z ^ (z >> 31)
}

// Intn returns a value in [0,n).
func (r *RNG) Intn(n int) int {
	if n <= 0 {
		return 0
	}
	return int(r.U64() % uint64(n))
}

func (r *RNG) Range(lo, hi int) int { return lo + r.Intn(hi-lo+1) }
func (r *RNG) Bool() bool          { return r.U64()&1 == 1 }
func (r *RNG) Chance(num, den int) bool { return r.Intn(den) < num }

func (r *RNG) Pick(ws ...int) int {
	t := 0
	for _, w := range ws {
		t += w
	}
	x := r.Intn(t)
	for i, w := range ws {
		if x < w {
			return i
		}
		x -= w
	}
	return len(ws) - 1
}

// BigBelow returns a uniform value in [0,n) for big n.
func (r *RNG) BigBelow(n *big.Int) *big.Int {
	if n.Sign() <= 0 {
		return new(big.Int)
	}
	words := (n.BitLen() + 63) / 64
	x := new(big.Int)
	for i := 0; i < words+1; i++ {
		x.Lsh(x, 64)
		x.Or(x, new(big.Int).SetUint64(r.U64()))
	}
	return x.Mod(x, n)
}
