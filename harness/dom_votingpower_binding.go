package main

// C05 — "… pool amount x LATEST ORACLE PRICE …": which price is an asset's price. x/oracle prices TOKENS; an
// asset is priced through the token whose comma-joined asset list (oracle Params.Tokens[i].AssetID) has an
// element EQUAL to the asset id (Params.GetTokenIDFromAssetID, used by GetMultipleAssetsPrices for
// UpdateVotingPower and by GetSpecifiedAssetsPrice for opt-in / slash). Asset ids are
// `<lower-case hex address>_0x<hex LayerZero chain id>`, so ids of different assets can be in substring /
// prefix relation (the same contract address on client chains 0x6 / 0x65 / 0x651), can share the address or the
// chain part, and a token list can hold several ids. This file adds
//
//   * the monitor's own lookup `vpTokenIDOfAsset` (split + equality; vpRawCfg no longer asks the code under
//     test which token an asset is bound to) and, in histories that registered assets themselves, the
//     INTENDED binding asset id -> token name (vpGatewayTokens);
//   * `vp.oracle`: the oracle's token table and latest rounds as committed before a block, handed to the Lean
//     model, which binds and prices every asset itself (Model/VPOracle.lean) — a wrong binding in the code is a
//     model diff as well;
//   * monitor C05.price-binding, evaluated EVERY block for every asset of every AVS: the price handed out by
//     GetMultipleAssetsPrices and by GetSpecifiedAssetsPrice is the latest usable round of the token the asset
//     is bound to (1 / 0 decimals when there is none), an asset bound to a token is found, an asset bound to no
//     token is not;
//   * a directed scenario (the same contract address on client chains 0x65 and 0x6, two tokens, two prices) and
//     seeded multi-chain histories: 1–4 further assets at genesis and up to 3 at run time on client chains whose
//     hex ids are prefixes / extensions / suffixes / neighbours of the genesis chain's, with the address of an
//     existing asset or a fresh one, each with its own oracle token or joined to the list of an existing token
//     (front or back), the genesis token table in random order; run-time registration through the three real
//     paths (gateway precompile registerToken = RegisterNewTokenAndSetTokenFeeder with a new token or with the
//     name of an existing one; oracle MsgUpdateParams adding a token; MsgUpdateParams replacing the asset list
//     of an existing token); every token has its own price and price decimals; deposits and delegations of
//     every asset on its own client chain, AVSs over random subsets, opt-ins, asset-list updates, price changes.

import (
	"encoding/json"
	"fmt"
	"math/big"
	"strings"
	"time"

	sdkmath "cosmossdk.io/math"
	sdk "github.com/cosmos/cosmos-sdk/types"
	"github.com/ethereum/go-ethereum/common"

	assetskeeper "github.com/ExocoreNetwork/exocore/x/assets/keeper"
	assetstypes "github.com/ExocoreNetwork/exocore/x/assets/types"
	delegationtypes "github.com/ExocoreNetwork/exocore/x/delegation/types"
	epochstypes "github.com/ExocoreNetwork/exocore/x/epochs/types"
	exominttypes "github.com/ExocoreNetwork/exocore/x/exomint/types"
	distrtypes "github.com/ExocoreNetwork/exocore/x/feedistribution/types"
	oraclekeeper "github.com/ExocoreNetwork/exocore/x/oracle/keeper"
	oracletypes "github.com/ExocoreNetwork/exocore/x/oracle/types"
)

// vpTokenIDOfAsset: the token an asset id is bound to — the first token (position >= 1; position 0 is the
// placeholder) whose comma-separated list has an element equal to the id; 0 = none. Written against the
// property, not copied from the code.
func vpTokenIDOfAsset(p oracletypes.Params, a string) int {
	for i, t := range p.Tokens {
		if i == 0 || t == nil {
			continue
		}
		for _, id := range strings.Split(t.AssetID, ",") {
			if id == a {
				return i
			}
		}
	}
	return 0
}

// ---------------------------------------------------------------- the oracle as the model sees it

type vpOracleTok struct {
	AssetIDs string // raw Token.AssetID
	Has      bool   // GetPriceTRLatest found a round
	Price    string // canonical integer, "x" when the stored string is not one
	Dec      int32
}
type vpOracleView struct{ Toks []vpOracleTok }

func vpReadOracle(c *Chain, ctx sdk.Context) vpOracleView {
	var v vpOracleView
	p := c.App.OracleKeeper.GetParams(ctx)
	for i, t := range p.Tokens {
		x := vpOracleTok{}
		if t != nil {
			x.AssetIDs = t.AssetID
		}
		if i > 0 {
			if tr, found := c.App.OracleKeeper.GetPriceTRLatest(ctx, uint64(i)); found {
				x.Has, x.Dec, x.Price = true, tr.Decimal, "x"
				if b, ok := new(big.Int).SetString(tr.Price, 10); ok {
					x.Price = b.String()
				}
			}
		}
		v.Toks = append(v.Toks, x)
	}
	return v
}

// <nTokens> { <asset list | -> <price | - (no round) | x (not an integer)> <decimal> }*
func (v vpOracleView) String() string {
	var b strings.Builder
	fmt.Fprintf(&b, "%d", len(v.Toks))
	for _, t := range v.Toks {
		ids := t.AssetIDs
		if ids == "" || strings.ContainsAny(ids, " \t\n") {
			ids = "-"
		}
		if !t.Has {
			fmt.Fprintf(&b, " %s - 0", ids)
		} else {
			fmt.Fprintf(&b, " %s %s %d", ids, t.Price, t.Dec)
		}
	}
	return b.String()
}

// ---------------------------------------------------------------- monitor C05.price-binding

type vpBindingCheck struct {
	Evals int
	Notes []string
	Viol  [][2]string // sig, text
}

// vpNear: some OTHER token's list is textually close to the asset id (one contains the other as a substring),
// and that token's latest round differs from the bound token's: a lookup that is not an exact match of a list
// element would show. before: that token stands before the bound one in the table.
func vpNear(p oracletypes.Params, a string, tid int, price func(int) string) (near, before bool) {
	for i, t := range p.Tokens {
		if i == 0 || i == tid || t == nil || t.AssetID == "" {
			continue
		}
		hit := strings.Contains(t.AssetID, a)
		for _, id := range strings.Split(t.AssetID, ",") {
			if id != "" && id != a && (strings.Contains(a, id) || strings.Contains(id, a)) {
				hit = true
			}
		}
		if hit && price(i) != price(tid) {
			near = true
			if i < tid {
				before = true
			}
		}
	}
	return
}

func vpCheckBinding(c *Chain, ctx sdk.Context, ins []vpAvsIn) []vpBindingCheck {
	oparams := c.App.OracleKeeper.GetParams(ctx)
	latest := func(i int) string {
		if tr, found := c.App.OracleKeeper.GetPriceTRLatest(ctx, uint64(i)); found {
			return fmt.Sprintf("%s/%d", tr.Price, tr.Decimal)
		}
		return "-"
	}
	var out []vpBindingCheck
	seen := map[string]bool{}
	for _, in := range ins {
		chk := vpBindingCheck{}
		viol := func(sig, f string, a ...interface{}) {
			chk.Viol = append(chk.Viol, [2]string{sig, "avs " + in.Avs + ": " + fmt.Sprintf(f, a...)})
		}
		if !in.AssetsOK || in.DecsNone {
			continue
		}
		multi := map[string]vpAssetCfg{}
		for _, x := range in.Cfgs {
			multi[x.Asset] = x
		}
		allPriced := true
		for _, d := range in.Decs {
			a := d.Asset
			want, known, priced := vpRawCfg(c, ctx, oparams, a)
			if !known {
				continue
			}
			if !priced {
				allPriced = false
			}
			// GetMultipleAssetsPrices (UpdateVotingPower), per AVS
			if got, ok := multi[a]; ok {
				chk.Evals++
				if !priced {
					viol("price-without-token", "GetMultipleAssetsPrices prices %s (%s / %d decimals), which no oracle token lists", a, got.Price, got.PriceDec)
				} else if got.Price.Cmp(want.Price) != 0 || got.PriceDec != want.PriceDec {
					viol("price-of-other-token", "GetMultipleAssetsPrices gives %s the price %s / %d decimals; the latest round of the token it is bound to is %s / %d",
						a, got.Price, got.PriceDec, want.Price, want.PriceDec)
				}
			}
			if seen[a] {
				continue
			}
			seen[a] = true
			// GetSpecifiedAssetsPrice (opt-in, slash), once per asset and block
			chk.Evals++
			p, err := c.App.OracleKeeper.GetSpecifiedAssetsPrice(ctx, a)
			notFound := err != nil && !strings.Contains(err.Error(), oracletypes.ErrGetPriceRoundNotFound.Error())
			switch {
			case priced && notFound:
				viol("bound-asset-not-found", "GetSpecifiedAssetsPrice does not find %s, which an oracle token lists: %v", a, err)
			case !priced && !notFound:
				viol("price-without-token", "GetSpecifiedAssetsPrice prices %s (%s / %d decimals), which no oracle token lists", a, p.Value, p.Decimal)
			case priced && (p.Value.IsNil() || p.Value.BigInt().Cmp(want.Price) != 0 || int64(p.Decimal) != want.PriceDec):
				viol("price-of-other-token", "GetSpecifiedAssetsPrice gives %s the price %v / %d decimals; the latest round of the token it is bound to is %s / %d",
					a, p.Value, p.Decimal, want.Price, want.PriceDec)
			}
			if priced && a != assetstypes.ExocoreAssetID {
				tid := vpTokenIDOfAsset(oparams, a)
				if name, ok := vpGatewayTokens[a]; ok {
					tid = vpTokenIDByName(oparams, name)
				}
				if tid > 0 {
					if strings.Contains(oparams.Tokens[tid].AssetID, ",") {
						chk.Notes = append(chk.Notes, "binding-evals:asset-in-a-list-of-several")
					}
					if near, before := vpNear(oparams, a, tid, latest); near {
						chk.Notes = append(chk.Notes, "binding-evals:id-substring-related-to-a-differently-priced-token")
						if before {
							chk.Notes = append(chk.Notes, "binding-evals:id-substring-related-to-an-EARLIER-differently-priced-token")
						}
					}
				}
			}
		}
		if in.CfgsNone && allPriced {
			chk.Evals++
			viol("bound-asset-not-found", "GetMultipleAssetsPrices fails although every asset of the AVS is listed by an oracle token")
		}
		out = append(out, chk)
	}
	return out
}

func (r *vpRunner) reportBinding(chks []vpBindingCheck) {
	for _, chk := range chks {
		for i := 0; i < chk.Evals; i++ {
			r.env.Eval("C05.price-binding")
		}
		for _, n := range chk.Notes {
			r.env.Note(n)
		}
		for _, v := range chk.Viol {
			r.env.Violate("C05.price-binding", v[0], v[1], r.hist)
		}
	}
}

// ---------------------------------------------------------------- assets on several client chains

type vpBAsset struct {
	Addr  string // lower-case hex
	Lz    uint64
	ID    string
	Dec   uint32
	Token string // name of the oracle token the harness bound it to
}

type vpBTok struct {
	Name     string
	PriceDec int32
	Price    string
	IDs      []string // asset ids, in list order
}

type vpBind struct {
	r      *vpRunner
	rng    *RNG
	assets []*vpBAsset
	chains map[uint64]bool
	nTok   int
	nRun   int // assets registered at run time
	extras []*vpExtra
	stak   int
}

// lz ids whose hex rendering is a prefix / an extension / a suffix / a neighbour of `base`'s, and unrelated ones
func vpNearLz(rng *RNG, base uint64) uint64 {
	switch rng.Pick(4, 4, 1, 1, 1, 1) {
	case 0: // hex prefix of base: 0x65 -> 0x6
		if base>>4 > 0 {
			return base >> 4
		}
		return base<<4 | uint64(rng.Intn(16))
	case 1: // base is a hex prefix of it: 0x65 -> 0x650 … 0x65f, 0x6565
		if rng.Chance(1, 5) {
			return base<<8 | base&0xff
		}
		return base<<4 | uint64(rng.Intn(16))
	case 2: // base is a hex suffix of it: 0x165
		return uint64(1+rng.Intn(15))<<8 | base
	case 3: // hex suffix of base: 0x5
		if base&0xf > 0 {
			return base & 0xf
		}
		return base + 1
	case 4:
		return base + 1 - 2*uint64(rng.Intn(2))
	}
	return 0x9d0 + uint64(rng.Intn(16))
}

func vpDistinctPrice(rng *RNG, k int) (string, int32) {
	pd := []int{0, 8, 18, rng.Intn(19)}[rng.Intn(4)]
	// USD price (price / 10^pd) in [2, ~3000), distinct per k with overwhelming probability; never 1 (the fall-back)
	units := int64(2 + k*7 + rng.Intn(5))
	if rng.Chance(1, 3) {
		units = int64(2 + rng.Intn(3000))
	}
	p := new(big.Int).Mul(big.NewInt(units), pow10(pd))
	if pd > 0 && rng.Chance(1, 2) {
		p.Add(p, rng.BigBelow(pow10(pd)))
	}
	return p.String(), int32(pd)
}

// vpBootFamily boots a chain like distrBoot (rewards off) whose genesis also holds `extra` assets on further client
// chains and the token table `toks` (in this order; the lists may mix genesis and further assets).
func vpBootFamily(cfg ChainCfg, shrink map[string]time.Duration, extra []*vpBAsset, toks []*vpBTok) *Chain {
	cfg.Mutate = func(c *Chain, gs map[string]json.RawMessage) {
		cdc := c.App.AppCodec()
		eg := epochstypes.DefaultGenesis()
		for i := range eg.Epochs {
			if d, ok := shrink[eg.Epochs[i].Identifier]; ok {
				eg.Epochs[i].Duration = d
			}
		}
		gs[epochstypes.ModuleName] = cdc.MustMarshalJSON(eg)
		gs[distrtypes.ModuleName] = cdc.MustMarshalJSON(distrtypes.NewGenesisState(distrtypes.Params{
			EpochIdentifier: epochstypes.WeekEpochID, CommunityTax: decFromRaw(big.NewInt(0))}))
		mg := exominttypes.DefaultGenesis()
		mg.Params.EpochIdentifier = epochstypes.WeekEpochID
		mg.Params.EpochReward = sdkmath.NewInt(0)
		gs[exominttypes.ModuleName] = cdc.MustMarshalJSON(mg)

		var ag assetstypes.GenesisState
		cdc.MustUnmarshalJSON(gs[assetstypes.ModuleName], &ag)
		have := map[uint64]bool{c.LzID: true}
		for i, a := range extra {
			if !have[a.Lz] {
				have[a.Lz] = true
				ag.ClientChains = append(ag.ClientChains, assetstypes.ClientChainInfo{
					Name: fmt.Sprintf("chain-%x", a.Lz), MetaInfo: "further client chain", ChainId: a.Lz, FinalizationBlocks: 10,
					LayerZeroChainID: a.Lz, AddressLength: 20})
			}
			ag.Tokens = append(ag.Tokens, assetstypes.StakingAssetInfo{
				AssetBasicInfo: assetstypes.AssetInfo{Name: fmt.Sprintf("Further%d", i), Symbol: fmt.Sprintf("FT%d", i), Address: a.Addr,
					Decimals: a.Dec, LayerZeroChainID: a.Lz, MetaInfo: "further"},
				StakingTotalAmount: sdkmath.ZeroInt()})
		}
		gs[assetstypes.ModuleName] = cdc.MustMarshalJSON(&ag)

		var og oracletypes.GenesisState
		cdc.MustUnmarshalJSON(gs[oracletypes.ModuleName], &og)
		og.Params.Tokens = og.Params.Tokens[:1]
		og.Params.TokenFeeders = og.Params.TokenFeeders[:1]
		og.PricesList = nil
		for i, t := range toks {
			og.Params.Tokens = append(og.Params.Tokens, &oracletypes.Token{Name: t.Name, ChainID: 1, ContractAddress: "0x", Decimal: t.PriceDec,
				Active: true, AssetID: strings.Join(t.IDs, ",")})
			og.Params.TokenFeeders = append(og.Params.TokenFeeders, &oracletypes.TokenFeeder{TokenID: uint64(i + 1), RuleID: 1, StartRoundID: 1,
				StartBaseBlock: 1, Interval: 10})
			og.PricesList = append(og.PricesList, oracletypes.Prices{TokenID: uint64(i + 1), NextRoundID: 2,
				PriceList: []*oracletypes.PriceTimeRound{{Price: t.Price, Decimal: t.PriceDec, RoundID: 1}}})
		}
		gs[oracletypes.ModuleName] = cdc.MustMarshalJSON(&og)
	}
	resetOracleGlobals()
	return NewChain(cfg)
}

func (b *vpBind) ensureChain(lz uint64) bool {
	c := b.r.c
	if b.chains[lz] {
		return true
	}
	err := c.CachedDo(func(ctx sdk.Context) error {
		return c.App.AssetsKeeper.SetClientChainInfo(ctx, &assetstypes.ClientChainInfo{Name: fmt.Sprintf("chain-%x", lz), MetaInfo: "further client chain",
			ChainId: lz, FinalizationBlocks: 10, LayerZeroChainID: lz, AddressLength: 20})
	})
	b.r.op(fmt.Sprintf("vp.note client-chain lz=0x%x ok=%v", lz, err == nil), "ok")
	if err == nil {
		b.chains[lz] = true
	}
	return err == nil
}

func (b *vpBind) setTokenPrice(name, price string, pd int32) bool {
	c := b.r.c
	tid := vpTokenIDByName(c.App.OracleKeeper.GetParams(c.Ctx), name)
	err := c.CachedDo(func(ctx sdk.Context) error {
		if tid == 0 {
			return fmt.Errorf("the oracle has no token %s", name)
		}
		next := c.App.OracleKeeper.GetNextRoundID(ctx, uint64(tid))
		if !c.App.OracleKeeper.AppendPriceTR(ctx, uint64(tid), oracletypes.PriceTimeRound{Price: price, Decimal: pd, RoundID: next}) {
			return fmt.Errorf("round mismatch")
		}
		return nil
	})
	b.r.env.Outcome(fmt.Sprintf("binding:price:%v", err == nil))
	b.r.op(fmt.Sprintf("vp.note price token=%s price=%s dec=%d ok=%v", name, price, pd, err == nil), "ok")
	return err == nil
}

func (b *vpBind) updateOracleParams(tag string, in oracletypes.Params) error {
	c := b.r.c
	srv := oraclekeeper.NewMsgServerImpl(c.App.OracleKeeper)
	err := c.CachedDo(func(ctx sdk.Context) error {
		_, e := srv.UpdateParams(sdk.WrapSDKContext(ctx), &oracletypes.MsgUpdateParams{Authority: orcParamsAuthority(), Params: in})
		return e
	})
	b.r.env.Outcome(fmt.Sprintf("binding:oracle-update-params:%s:%v", tag, err == nil))
	return err
}

// registerAtRuntime: a further asset + its binding through one of the real paths. how: 0 gateway precompile with
// a new token, 1 gateway precompile naming an existing token (joins its list), 2 keeper asset + MsgUpdateParams
// adding a token, 3 keeper asset + MsgUpdateParams replacing the list of an existing token (new id first or last).
func (b *vpBind) registerAtRuntime(a *vpBAsset, how int, abis *xbABIs) bool {
	c, r, rng := b.r.c, b.r, b.rng
	if !b.ensureChain(a.Lz) {
		return false
	}
	params := c.App.OracleKeeper.GetParams(c.Ctx)
	existing := ""
	if how == 1 || how == 3 {
		if len(params.Tokens) < 2 {
			return false
		}
		existing = params.Tokens[1+rng.Intn(len(params.Tokens)-1)].Name
	}
	newName := fmt.Sprintf("RT%d", b.nTok)
	ok := false
	switch how {
	case 0, 1:
		name, chain := newName, "chainRT"
		if how == 1 {
			name, chain = existing, params.Chains[params.Tokens[vpTokenIDByName(params, existing)].ChainID].Name
		}
		data, err := abis.assets.Pack("registerToken", uint32(a.Lz), pad32(common.HexToAddress(a.Addr).Bytes()), uint8(a.Dec), "Further", "registered through the gateway", name+","+chain+",8")
		if err != nil {
			return false
		}
		m := abis.assets.Methods["registerToken"]
		res := xbEvmCall(c, c.Funded.Eth, xbAssetsAddr, data, &m)
		r.op(fmt.Sprintf("vp.note gateway registerToken asset=%s token=%s decimals=%d => %s", a.ID, name, a.Dec, res.Class()), "ok")
		r.env.Outcome(fmt.Sprintf("binding:gateway-registerToken:existing-token=%v:%s", how == 1, res.Class()))
		ok = res.Class() == "ok"
		a.Token = name
	case 2, 3:
		err := c.CachedDo(func(ctx sdk.Context) error {
			return c.App.AssetsKeeper.SetStakingAssetInfo(ctx, &assetstypes.StakingAssetInfo{
				AssetBasicInfo:     assetstypes.AssetInfo{Name: "Further", Symbol: "FT", Address: a.Addr, Decimals: a.Dec, LayerZeroChainID: a.Lz, MetaInfo: "further"},
				StakingTotalAmount: sdkmath.ZeroInt()})
		})
		if err != nil {
			r.op(fmt.Sprintf("vp.note register-asset %s refused", a.ID), "ok")
			return false
		}
		if how == 2 {
			err = b.updateOracleParams("new-token", oracletypes.Params{
				Tokens: []*oracletypes.Token{{Name: newName, ChainID: 1, ContractAddress: "0x", Decimal: 8, Active: true, AssetID: a.ID}},
				TokenFeeders: []*oracletypes.TokenFeeder{{TokenID: uint64(len(params.Tokens)), RuleID: 1, StartRoundID: 1,
					StartBaseBlock: uint64(c.Ctx.BlockHeight()) + 1000000, Interval: 10}}})
			a.Token = newName
		} else {
			t := params.Tokens[vpTokenIDByName(params, existing)]
			list := t.AssetID + "," + a.ID
			if rng.Chance(1, 2) {
				list = a.ID + "," + t.AssetID
			}
			err = b.updateOracleParams("replace-list", oracletypes.Params{Tokens: []*oracletypes.Token{{Name: t.Name, ChainID: t.ChainID, AssetID: list}}})
			a.Token = existing
		}
		r.op(fmt.Sprintf("vp.note register-asset %s + oracle MsgUpdateParams (%s) token=%s ok=%v", a.ID, []string{"", "", "new token", "asset list of an existing token"}[how], a.Token, err == nil), "ok")
		ok = err == nil
	}
	if !ok {
		return false
	}
	b.assets = append(b.assets, a)
	b.nRun++
	vpGatewayTokens[a.ID] = a.Token
	if a.Token == newName {
		b.nTok++
		p, pd := vpDistinctPrice(rng, b.nTok+3)
		b.setTokenPrice(newName, p, pd)
	}
	return true
}

func (b *vpBind) delegate(ai, oi int, amt *big.Int) bool {
	c, a := b.r.c, b.assets[ai]
	var st Actor
	if b.stak > 0 && b.rng.Chance(1, 3) {
		st = NewActor(c.Cfg.Seed, "bstaker", b.rng.Intn(b.stak))
	} else {
		st = NewActor(c.Cfg.Seed, "bstaker", b.stak)
		b.stak++
	}
	addr := common.HexToAddress(a.Addr)
	err := c.CachedDo(func(ctx sdk.Context) error {
		if err := c.App.AssetsKeeper.PerformDepositOrWithdraw(ctx, &assetskeeper.DepositWithdrawParams{
			ClientChainLzID: a.Lz, Action: assetstypes.DepositLST, AssetsAddress: addr.Bytes(),
			StakerAddress: st.Eth.Bytes(), OpAmount: sdkmath.NewIntFromBigInt(amt)}); err != nil {
			return err
		}
		return c.App.DelegationKeeper.DelegateTo(ctx, &delegationtypes.DelegationOrUndelegationParams{
			ClientChainID: a.Lz, Action: assetstypes.DelegateTo, AssetsAddress: addr.Bytes(),
			OperatorAddress: c.Operators[oi].Acc, StakerAddress: st.Eth.Bytes(), OpAmount: sdkmath.NewIntFromBigInt(amt)})
	})
	b.r.env.Outcome(fmt.Sprintf("binding:delegate:%v", err == nil))
	b.r.op(fmt.Sprintf("vp.note delegate staker=%s asset=%s op=%d amt=%s ok=%v", st.Eth.Hex(), a.ID, oi, amt, err == nil), "ok")
	return err == nil
}

func (b *vpBind) ids(nonEmpty bool) []string {
	var ids []string
	for _, a := range b.assets {
		if b.rng.Chance(1, 2) {
			ids = append(ids, a.ID)
		}
	}
	if nonEmpty && len(ids) == 0 {
		ids = append(ids, b.assets[b.rng.Intn(len(b.assets))].ID)
	}
	return ids
}

// vpScenarioSameAddressTwoChains: USDT lives on the genesis client chain 0x65; the same contract address is
// registered on client chain 0x6 with its own oracle token (governance parameter update) at 3.00000000 USD, an AVS
// supports only that asset, operator 0 opts in and receives 80 tokens of it: every recorded value must be 240 USD,
// and must follow that token's rounds — not the genesis token's — through two price changes of either token.
func vpScenarioSameAddressTwoChains(env *Env) {
	r := vpScenarioBoot(env, 970, epochstypes.MinuteEpochID, "scenario-same-address-two-chains")
	c := r.c
	b := &vpBind{r: r, rng: NewRNG(env.Report.Seed*1000 + 970), chains: map[uint64]bool{c.LzID: true}}
	usdt := strings.ToLower(c.Cfg.Assets[0].Addr)
	b.assets = append(b.assets, &vpBAsset{Addr: usdt, Lz: c.LzID, ID: c.AssetIDs[0], Dec: c.Cfg.Assets[0].Decimals, Token: "TK0"})
	vpGatewayTokens[c.AssetIDs[0]] = "TK0"
	defer func() { vpGatewayTokens = map[string]string{} }()
	a := &vpBAsset{Addr: usdt, Lz: c.LzID >> 4, ID: AssetIDOf(c.LzID>>4, usdt), Dec: 6}
	ok := b.registerAtRuntime(a, 2, nil)
	env.Outcome(fmt.Sprintf("scenario-same-address-two-chains:registered=%v", ok))
	if !ok {
		return
	}
	avs := "0x0000000000000000000000000000000000003100"
	step := 61 * time.Second
	ok = b.setTokenPrice(a.Token, "300000000", 8) &&
		r.registerAVS(avs, []string{a.ID}, 0, epochstypes.MinuteEpochID) == nil && r.optIn(avs, 0) == nil &&
		b.delegate(1, 0, new(big.Int).Mul(big.NewInt(80), pow10(6))) &&
		r.block(step) && r.block(step)
	if ok {
		ok = b.setTokenPrice("TK0", "7", 0) && r.block(step) && b.setTokenPrice(a.Token, "1100000000", 8) && r.block(step) && r.block(step)
	}
	env.Report.Histories++
	v, gerr := c.App.OperatorKeeper.GetOperatorOptedUSDValue(c.Ctx, avs, c.Operators[0].Acc.String())
	env.Outcome(fmt.Sprintf("scenario-same-address-two-chains:ok=%v,value-is-880=%v", ok, gerr == nil && v.TotalUSDValue.Equal(sdkmath.LegacyNewDec(880))))
}

// vpBindingHistory: one seeded multi-chain history (own RNG stream).
func vpBindingHistory(env *Env, k, maxBlocks int) {
	seed := env.Report.Seed*1000 + 5000 + uint64(k)
	rng := NewRNG(seed*2654435761 + 17)
	cfg := DefaultCfg(seed)
	cfg.NOperators = 1 + rng.Intn(3)
	cfg.Powers = nil
	for i := 0; i < cfg.NOperators; i++ {
		cfg.Powers = append(cfg.Powers, int64(100+rng.Intn(3000)))
	}
	cfg.EpochID = []string{epochstypes.MinuteEpochID, epochstypes.HourEpochID}[rng.Pick(4, 1)]
	cfg.Assets[0].Addr = strings.ToLower(cfg.Assets[0].Addr)
	if rng.Chance(1, 2) {
		cfg.Assets = append(cfg.Assets, AssetSpec{Addr: "0x2260fac5e5542a773aa44fbcfedf7c193bc2c599", Decimals: uint32([]int{0, 8, 18}[rng.Intn(3)]), Price: "1", PriceDec: 0})
	}
	const baseLz = 101 // NewChain
	var all, extra []*vpBAsset
	for i, a := range cfg.Assets {
		all = append(all, &vpBAsset{Addr: a.Addr, Lz: baseLz, ID: AssetIDOf(baseLz, a.Addr), Dec: a.Decimals, Token: fmt.Sprintf("TK%d", i)})
	}
	newAsset := func() *vpBAsset {
		for try := 0; try < 20; try++ {
			// the chain part relates to the chain part of an asset that exists (the genesis chain's or a further one's)
			lz := vpNearLz(rng, all[rng.Intn(len(all))].Lz)
			addr := all[rng.Intn(len(all))].Addr
			if rng.Chance(1, 3) {
				addr = strings.ToLower(common.BytesToAddress(detBytes(seed, "baddr", len(all)+try)).Hex())
			}
			if lz == 0 || lz > 0xffffffff {
				continue
			}
			id := AssetIDOf(lz, addr)
			dup := false
			for _, x := range all {
				dup = dup || x.ID == id
			}
			if !dup {
				return &vpBAsset{Addr: addr, Lz: lz, ID: id, Dec: uint32([]int{0, 6, 8, 18, rng.Intn(19)}[rng.Intn(5)])}
			}
		}
		return nil
	}
	for n := 1 + rng.Intn(4); n > 0; n-- {
		if a := newAsset(); a != nil {
			all, extra = append(all, a), append(extra, a)
		}
	}
	// token table: every asset gets its own token or joins the list of an earlier asset's token; random order
	var toks []*vpBTok
	for i, a := range all {
		if len(toks) > 0 && a.Token == "" && rng.Chance(1, 4) {
			t := toks[rng.Intn(len(toks))]
			if rng.Chance(1, 2) {
				t.IDs = append(t.IDs, a.ID)
			} else {
				t.IDs = append([]string{a.ID}, t.IDs...)
			}
			a.Token = t.Name
			continue
		}
		if a.Token == "" {
			a.Token = fmt.Sprintf("GT%d", i)
		}
		p, pd := vpDistinctPrice(rng, len(toks))
		toks = append(toks, &vpBTok{Name: a.Token, Price: p, PriceDec: pd, IDs: []string{a.ID}})
	}
	for i := len(toks) - 1; i > 0; i-- {
		j := rng.Intn(i + 1)
		toks[i], toks[j] = toks[j], toks[i]
	}
	shrink := map[string]time.Duration{}
	if rng.Chance(1, 3) {
		shrink[epochstypes.HourEpochID] = time.Duration(2+rng.Intn(4)) * time.Minute
	}
	c := vpBootFamily(cfg, shrink, extra, toks)
	r := &vpRunner{env: env, c: c}
	b := &vpBind{r: r, rng: rng, assets: all, chains: map[uint64]bool{baseLz: true}, nTok: len(toks)}
	for _, a := range all {
		b.chains[a.Lz] = true
		vpGatewayTokens[a.ID] = a.Token
	}
	defer func() { vpGatewayTokens = map[string]string{} }()
	r.start(fmt.Sprintf("binding-%d", k))
	var desc []string
	for i, t := range toks {
		desc = append(desc, fmt.Sprintf("%d:%s=[%s]@%s/%d", i+1, t.Name, strings.Join(t.IDs, ","), t.Price, t.PriceDec))
	}
	r.op("vp.note genesis-token-table "+strings.Join(desc, " "), "ok")
	abis := xbLoadABIs(c)
	nb := 6 + rng.Intn(max(1, maxBlocks/2))
	for blk := 0; blk < nb; blk++ {
		for n := rng.Intn(4); n > 0; n-- {
			switch rng.Pick(3, 5, 3, 3, 1, 1) {
			case 0: // a token gets a new round (own price, sometimes other price decimals, sometimes unusable)
				params := c.App.OracleKeeper.GetParams(c.Ctx)
				t := params.Tokens[1+rng.Intn(len(params.Tokens)-1)]
				p, pd := vpDistinctPrice(rng, rng.Intn(40))
				if rng.Chance(1, 12) {
					p = "0"
				}
				b.setTokenPrice(t.Name, p, pd)
			case 1: // deposit + delegation of any asset, on its own client chain
				ai := rng.Intn(len(b.assets))
				b.delegate(ai, rng.Intn(cfg.NOperators), vpAmount(rng, int(b.assets[ai].Dec)))
			case 2: // a further AVS over a subset of all assets
				if len(b.extras) >= 3 {
					continue
				}
				x := &vpExtra{addr: vpExtraAddr(rng, 0x2000+k, len(b.extras)), minSelf: []uint64{0, 0, 1, 100}[rng.Intn(4)]}
				eid := []string{epochstypes.MinuteEpochID, cfg.EpochID}[rng.Intn(2)]
				err := r.registerAVS(x.addr, b.ids(true), x.minSelf, eid)
				env.Outcome(fmt.Sprintf("binding:register-avs:%v", err == nil))
				if err == nil {
					b.extras = append(b.extras, x)
					for oi := 0; oi < cfg.NOperators; oi++ {
						if rng.Chance(2, 3) {
							r.optIn(x.addr, oi)
						}
					}
				}
			case 3: // opt in / out
				if len(b.extras) == 0 {
					continue
				}
				x := b.extras[rng.Intn(len(b.extras))]
				oi := rng.Intn(cfg.NOperators)
				acc := c.Operators[oi].Acc
				if c.App.OperatorKeeper.IsOptedIn(c.Ctx, acc.String(), x.addr) {
					if err := c.CachedDo(func(ctx sdk.Context) error { return c.App.OperatorKeeper.OptOut(ctx, acc, x.addr) }); err == nil {
						r.op(fmt.Sprintf("vp.optout %s %s", x.addr, acc), "ok")
					}
				} else {
					r.optIn(x.addr, oi)
				}
			case 4: // the AVS's asset list changes
				if len(b.extras) == 0 {
					continue
				}
				x := b.extras[rng.Intn(len(b.extras))]
				r.updateAssets(x.addr, b.ids(true), x.minSelf, "binding-subset")
			case 5: // a further asset joins at run time
				if b.nRun >= 3 {
					continue
				}
				all = b.assets
				if a := newAsset(); a != nil {
					b.registerAtRuntime(a, rng.Pick(3, 1, 3, 2), &abis)
				}
			}
		}
		d := 61 * time.Second
		if rng.Chance(1, 4) {
			d = time.Duration(5+rng.Intn(50)) * time.Second
		} else if rng.Chance(1, 8) {
			d = time.Duration(1+rng.Intn(2)) * time.Hour
		}
		if !r.block(d) {
			break
		}
	}
	env.Report.Histories++
	if r.ends > 0 {
		env.DistinctKey(fmt.Sprintf("b%d-o%d-a%d-t%d-e%d-x%d-r%d", k, cfg.NOperators, len(b.assets), len(toks), r.ends, len(b.extras), b.nRun))
	}
	env.Outcome(fmt.Sprintf("binding-history:ends>0=%v,avs=%v,runtime-assets=%v", r.ends > 0, len(b.extras) > 0, b.nRun > 0))
}
