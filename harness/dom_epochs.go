package main

// C15 — epoch clock. Drives the real x/epochs module from the genesis list on: InitGenesis
// (AddEpochInfo of every entry) and BeginBlocker through app.BeginBlock of EVERY block including
// block 1, over seeded timelines (equal times, sub-duration steps, boundary-exact times,
// multi-duration gaps). The genesis entries are drawn from everything EpochInfo.Validate accepts
// (number, flag, current start time, start height, start time are independent fields: an identifier
// may arrive mid-count with counting started or NOT started, with a start time before / at / after
// the first block, unset, aligned or not) plus a stream of entries InitGenesis must drop (rejected by
// Validate, duplicate identifiers). Prints the store after InitGenesis, AllEpochInfos and the
// epoch_end/epoch_start events of every block for the Lean model to reproduce (Model/EpochsGenesis:
// register / initGenesis, Model/Epochs: beginBlocker), and evaluates the property's predicates
// directly on the real state (monitors).

import (
	"encoding/json"
	"fmt"
	"math/big"
	"sort"
	"strconv"
	"strings"
	"time"

	abci "github.com/cometbft/cometbft/abci/types"

	epochstypes "github.com/ExocoreNetwork/exocore/x/epochs/types"
)

func init() { register("epochs", domEpochs) }

// tns: nanoseconds since the Unix epoch, the zero time.Time as 0 (shared with the domains whose
// models never look at an unset time: distribution, epochsorder)
func tns(t time.Time) int64 {
	if t.IsZero() {
		return 0
	}
	return t.UnixNano()
}

// tnsX: exact nanoseconds since the Unix epoch for any time.Time (the zero time is
// -62135596800000000000 = Model/EpochsGenesis.lean: zeroTime; UnixNano is undefined out there)
func tnsX(t time.Time) string {
	x := new(big.Int).Mul(big.NewInt(t.Unix()), big.NewInt(1_000_000_000))
	return x.Add(x, big.NewInt(int64(t.Nanosecond()))).String()
}

func epochID(s string) string {
	if s == "" {
		return "<empty>"
	}
	return s
}

func ebit(b bool) int {
	if b {
		return 1
	}
	return 0
}

func fmtEpochInfos(infos []epochstypes.EpochInfo) string {
	parts := make([]string, 0, len(infos))
	for _, e := range infos {
		parts = append(parts, fmt.Sprintf("%s=%d,%s,%d,%d", epochID(e.Identifier), e.CurrentEpoch, tnsX(e.CurrentEpochStartTime), ebit(e.EpochCountingStarted), e.CurrentEpochStartHeight))
	}
	return strings.Join(parts, ";")
}

func fmtEpochFields(e epochstypes.EpochInfo) string {
	return fmt.Sprintf("%s,%d,%d,%s,%d,%d", tnsX(e.StartTime), int64(e.Duration), e.CurrentEpoch, tnsX(e.CurrentEpochStartTime), ebit(e.EpochCountingStarted), e.CurrentEpochStartHeight)
}

func fmtEpochInfosFull(infos []epochstypes.EpochInfo) string {
	parts := make([]string, 0, len(infos))
	for _, e := range infos {
		parts = append(parts, epochID(e.Identifier)+"="+fmtEpochFields(e))
	}
	return strings.Join(parts, ";")
}

func epochEvents(evs []abci.Event) []string {
	var out []string
	for _, ev := range evs {
		if ev.Type != epochstypes.EventTypeEpochEnd && ev.Type != epochstypes.EventTypeEpochStart {
			continue
		}
		id, num := "", ""
		for _, a := range ev.Attributes {
			switch a.Key {
			case epochstypes.AttributeEpochIdentifier:
				id = a.Value
			case epochstypes.AttributeEpochNumber:
				num = a.Value
			}
		}
		k := "S"
		if ev.Type == epochstypes.EventTypeEpochEnd {
			k = "E"
		}
		out = append(out, k+":"+epochID(id)+":"+num)
	}
	return out
}

type epochTrack struct {
	fromUnstarted bool
	first         int64 // number the identifier was registered with
	lastStarted   int64 // last epoch number for which a start was seen (registered number if counting had started)
	known         bool  // a start of lastStarted happened (before the history or in it)
	starts, ends  int
}

var epochDurChoices = []time.Duration{1, 7, time.Second, 7 * time.Second, time.Minute, 61 * time.Minute, 24 * time.Hour}

// epochStartChoice: where the configured start time lies relative to the genesis time gt and the
// time of block 1 (gt+1s, chain.go): unset, before genesis, exactly at genesis, exactly at block 1
// and 1 ns around it, a few seconds or a few durations ahead.
func epochStartChoice(rng *RNG, gt time.Time, dur time.Duration) (time.Time, string) {
	switch rng.Intn(8) {
	case 0:
		return time.Time{}, "unset"
	case 1:
		return gt.Add(-time.Duration(1+rng.Intn(1000)) * time.Second), "past"
	case 2:
		return gt.Add(-time.Duration(1+rng.Intn(100)) * dur), "past"
	case 3:
		return gt, "genesis"
	case 4:
		return gt.Add(time.Second + time.Duration(rng.Intn(3)-1)), "block1"
	case 5:
		return gt.Add(time.Duration(2+rng.Intn(40)) * time.Second), "future"
	case 6:
		return gt.Add(time.Second + time.Duration(1+rng.Intn(3))*dur), "future"
	}
	return gt.Add(time.Duration(rng.Intn(5_000_000_000))), "near"
}

// epochStaleNumber: a number an entry copied from another network's export may carry
func epochStaleNumber(rng *RNG) int64 {
	switch rng.Intn(6) {
	case 0:
		return 1
	case 1:
		return 2
	case 2:
		return 1 << 31
	case 3:
		return 1 << 62
	}
	return int64(1 + rng.Intn(500))
}

// genEpochEntry draws one genesis entry that EpochInfo.Validate accepts. shape names the class for
// the distribution printed in the report.
func genEpochEntry(rng *RNG, gt time.Time, id string) (e epochstypes.EpochInfo, shape string) {
	e = epochstypes.EpochInfo{Identifier: id, Duration: epochDurChoices[rng.Intn(len(epochDurChoices))]}
	switch rng.Pick(1, 1, 1, 1, 1, 2, 4, 2) {
	case 0: // zero start time => genesis time
		return e, "fresh:unset"
	case 1:
		e.StartTime = gt.Add(-time.Duration(rng.Intn(1000)) * time.Second)
		return e, "fresh:past"
	case 2:
		e.StartTime = gt.Add(time.Duration(rng.Intn(40)) * time.Second)
		return e, "fresh:future"
	case 3:
		e.StartTime = gt.Add(time.Duration(rng.Intn(3)) * e.Duration)
		return e, "fresh:future"
	case 4: // mid-count, counting started, start times lined up
		e.StartTime = gt.Add(-time.Duration(rng.Intn(100)) * e.Duration)
		e.EpochCountingStarted = true
		e.CurrentEpoch = int64(1 + rng.Intn(50))
		e.CurrentEpochStartTime = e.StartTime.Add(time.Duration(e.CurrentEpoch-1) * e.Duration)
		e.CurrentEpochStartHeight = int64(rng.Intn(5))
		return e, "running:aligned"
	case 5: // mid-count, counting started, with a start time that does NOT line up with the current
		// epoch's start (exported and re-imported with its StartTime left unset, or a schedule that
		// drifted): only CurrentEpochStartTime + Duration decides the next tick
		e.EpochCountingStarted = true
		e.CurrentEpoch = int64(2 + rng.Intn(50))
		e.CurrentEpochStartTime = gt.Add(-time.Duration(rng.Intn(3)) * e.Duration / 2)
		e.CurrentEpochStartHeight = int64(rng.Intn(5))
		switch rng.Intn(3) {
		case 0: // unset: AddEpochInfo fills in the import block's time
		case 1:
			e.StartTime = gt.Add(-time.Duration(1+rng.Intn(1000)) * time.Second)
		case 2:
			e.StartTime = e.CurrentEpochStartTime.Add(-time.Duration(e.CurrentEpoch+int64(rng.Intn(5))) * e.Duration)
		}
		return e, "running:unaligned"
	case 6: // mid-count NUMBER, counting NOT started ("the flag is independent of the epoch number"):
		// an entry copied from an export with the flag / the start time edited. The first block at or
		// after the start time starts epoch 1 whatever the entry carries.
		e.CurrentEpoch = epochStaleNumber(rng)
		var lbl string
		e.StartTime, lbl = epochStartChoice(rng, gt, e.Duration)
		switch rng.Intn(4) {
		case 0: // current start time unset
		case 1: // what the exporting chain had
			e.CurrentEpochStartTime = gt.Add(-time.Duration(rng.Intn(5)) * e.Duration / 2)
		case 2:
			e.CurrentEpochStartTime = gt.Add(time.Duration(1+rng.Intn(100)) * time.Second)
		case 3:
			e.CurrentEpochStartTime = gt.Add(-time.Duration(400+rng.Intn(400)) * 24 * time.Hour)
		}
		if rng.Bool() {
			e.CurrentEpochStartHeight = int64(1 + rng.Intn(1000))
		}
		return e, "stale-count:" + lbl
	}
	// every field on its own, within what Validate accepts
	var lbl string
	e.StartTime, lbl = epochStartChoice(rng, gt, e.Duration)
	e.EpochCountingStarted = rng.Bool()
	switch rng.Intn(3) {
	case 0:
	case 1:
		e.CurrentEpoch = epochStaleNumber(rng)
		if e.EpochCountingStarted && e.CurrentEpoch > 1<<40 {
			e.CurrentEpoch = int64(1 + rng.Intn(500))
		}
	case 2:
		e.CurrentEpoch = int64(rng.Intn(3))
	}
	switch rng.Intn(4) {
	case 0:
	case 1:
		e.CurrentEpochStartTime = gt.Add(-time.Duration(rng.Intn(5)) * e.Duration / 2)
	case 2:
		e.CurrentEpochStartTime = gt.Add(time.Duration(rng.Intn(3))*e.Duration + time.Duration(rng.Intn(3)))
	case 3:
		e.CurrentEpochStartTime = gt.Add(-time.Duration(1+rng.Intn(30)) * 24 * time.Hour)
	}
	e.CurrentEpochStartHeight = int64(rng.Intn(3))
	if e.EpochCountingStarted {
		return e, "free:started:" + lbl
	}
	return e, "free:unstarted:" + lbl
}

// epochValid: EpochInfo.Validate restated (the monitor does not ask the code under test)
func epochValid(e epochstypes.EpochInfo) bool {
	return e.Identifier != "" && e.Duration > 0 && e.CurrentEpoch >= 0 && e.CurrentEpochStartHeight >= 0
}

func domEpochs(env *Env) error {
	n := env.Int("histories", 40)
	maxBlocks := env.Int("blocks", 80)
	rng := NewRNG(env.Report.Seed)
	env.Report.Domain = "epochs"
	for hi := 0; hi < n; hi++ {
		var hist []string
		emit := func(op, obs string) {
			env.Op(op, obs)
			hist = append(hist, op)
		}
		cfg := DefaultCfg(env.Report.Seed*1000 + uint64(hi))
		gt := cfg.InitTime
		directed := hi < 2
		var extra []epochstypes.EpochInfo
		if directed {
			// directed: identifiers registered with a number from elsewhere and counting not started —
			// start time ahead / unset (= genesis time, first tick in block 1) / exactly block 1 / past
			k := int64(5 + hi*37)
			extra = []epochstypes.EpochInfo{
				{Identifier: "s0", Duration: 7 * time.Second, StartTime: gt.Add(10 * time.Second), CurrentEpoch: k},
				{Identifier: "s1", Duration: time.Minute, CurrentEpoch: k + 1, CurrentEpochStartHeight: 9},
				{Identifier: "s2", Duration: 7 * time.Second, StartTime: gt.Add(time.Second), CurrentEpoch: k + 2,
					CurrentEpochStartTime: gt.Add(-time.Hour), CurrentEpochStartHeight: 3},
				{Identifier: "s3", Duration: time.Second, StartTime: gt.Add(-3 * time.Second), CurrentEpoch: 1,
					CurrentEpochStartTime: gt.Add(-3 * time.Second)},
			}
			env.Outcome("entry:directed-stale-count")
		} else {
			nExtra := rng.Intn(4)
			for i := 0; i < nExtra; i++ {
				e, shape := genEpochEntry(rng, gt, fmt.Sprintf("x%d", i))
				env.Outcome("entry:" + shape)
				extra = append(extra, e)
			}
		}
		g := epochstypes.DefaultGenesis()
		if !directed && rng.Intn(3) == 0 { // shorter default identifiers so that they tick often
			for i := range g.Epochs {
				g.Epochs[i].Duration = epochDurChoices[2+rng.Intn(3)]
			}
		}
		g.Epochs = append(g.Epochs, extra...)
		// the stream InitGenesis must drop: entries Validate rejects, identifiers already in the list
		// (InitGenesis discards AddEpochInfo's error; only `validate-genesis` of the CLI would complain)
		if !directed && rng.Intn(4) == 0 {
			for j := 1 + rng.Intn(2); j > 0; j-- {
				base := g.Epochs[rng.Intn(len(g.Epochs))]
				bad, shape := genEpochEntry(rng, gt, fmt.Sprintf("y%d", j))
				switch rng.Intn(6) {
				case 0:
					bad.Identifier, shape = base.Identifier, "dropped:duplicate"
				case 1:
					bad.Duration, shape = 0, "dropped:duration0"
				case 2:
					bad.Duration, shape = -time.Duration(1+rng.Intn(1000)), "dropped:duration<0"
				case 3:
					bad.CurrentEpoch, shape = -int64(1+rng.Intn(5)), "dropped:number<0"
				case 4:
					bad.CurrentEpochStartHeight, shape = -int64(1+rng.Intn(5)), "dropped:height<0"
				case 5:
					bad.Identifier, shape = "", "dropped:no-identifier"
				}
				env.Outcome("entry:" + shape)
				g.Epochs = append(g.Epochs, bad)
			}
		}
		configured := append([]epochstypes.EpochInfo{}, g.Epochs...)
		// the genesis list goes into the history before the chain boots: a halt of InitChain / block 1
		// (crash.go) then carries it
		emit(fmt.Sprintf("epoch.reset %s 0", tnsX(gt)), "ok")
		for _, e := range configured {
			emit(fmt.Sprintf("epoch.reg %s %s", epochID(e.Identifier), strings.ReplaceAll(fmtEpochFields(e), ",", " ")), "ok")
		}
		cfg.Mutate = func(c *Chain, gs map[string]json.RawMessage) {
			gs[epochstypes.ModuleName] = c.App.AppCodec().MustMarshalJSON(g)
		}
		var registered []epochstypes.EpochInfo
		cfg.AfterInit = func(c *Chain) { registered = c.App.EpochsKeeper.AllEpochInfos(c.Ctx) }
		c := NewChain(cfg) // InitChain, AfterInit, BeginBlock of block 1
		emit("epoch.init", fmtEpochInfosFull(registered))

		// ---- monitor: what InitGenesis stored. Expected store computed here from the configured list:
		// an entry is stored iff Validate accepts it and its identifier is not stored yet; stored as
		// configured except that an UNSET start time becomes the genesis time and an unset start height
		// the height of InitChain (0). "Becomes 1 in the first block at or after its start time" and
		// "n-th start = start + (n-1) x duration" are about the configured start time; number, flag and
		// current start time are whatever the entry says.
		want := map[string]epochstypes.EpochInfo{}
		var wantIDs []string
		for _, x := range configured {
			if !epochValid(x) {
				continue
			}
			if _, dup := want[x.Identifier]; dup {
				continue
			}
			want[x.Identifier] = x
			wantIDs = append(wantIDs, x.Identifier)
		}
		sort.Strings(wantIDs)
		env.Eval("C15.start-time")
		env.Eval("C15.genesis")
		seen := map[string]bool{}
		for i, e := range registered {
			x, ok := want[e.Identifier]
			if !ok || seen[e.Identifier] {
				env.Violate("C15.genesis", "entry-unexpected", fmt.Sprintf("%q is in the store after InitGenesis: not a valid first entry of the genesis list (%s)", e.Identifier, fmtEpochFields(e)), hist)
				continue
			}
			seen[e.Identifier] = true
			if i < len(wantIDs) && wantIDs[i] != e.Identifier && len(registered) == len(wantIDs) {
				env.Violate("C15.genesis", "store-order", fmt.Sprintf("store position %d holds %q, key order says %q", i, e.Identifier, wantIDs[i]), hist)
			}
			if !x.StartTime.IsZero() && !e.StartTime.Equal(x.StartTime) {
				env.Violate("C15.start-time", "start-time-replaced", fmt.Sprintf("%s registered with start time %s, stored %s", x.Identifier, x.StartTime.UTC(), e.StartTime.UTC()), hist)
			}
			if x.StartTime.IsZero() && !e.StartTime.Equal(gt) {
				env.Violate("C15.start-time", "unset-start-time", fmt.Sprintf("%s registered without start time, stored %s (genesis time %s)", x.Identifier, e.StartTime.UTC(), gt.UTC()), hist)
			}
			if e.Duration != x.Duration || e.CurrentEpoch != x.CurrentEpoch || e.EpochCountingStarted != x.EpochCountingStarted ||
				!e.CurrentEpochStartTime.Equal(x.CurrentEpochStartTime) || e.CurrentEpochStartHeight != x.CurrentEpochStartHeight {
				env.Violate("C15.genesis", "entry-altered", fmt.Sprintf("%s configured %s, stored %s", x.Identifier, fmtEpochFields(x), fmtEpochFields(e)), hist)
			}
		}
		for _, id := range wantIDs {
			if !seen[id] {
				env.Violate("C15.genesis", "entry-missing", fmt.Sprintf("%q (%s) is valid and first of its identifier in the genesis list, not in the store after InitGenesis", id, fmtEpochFields(want[id])), hist)
			}
		}

		tracks := map[string]*epochTrack{}
		for _, e := range registered {
			tracks[e.Identifier] = &epochTrack{fromUnstarted: !e.EpochCountingStarted, first: e.CurrentEpoch, lastStarted: e.CurrentEpoch, known: e.EpochCountingStarted}
			if !e.EpochCountingStarted && e.CurrentEpoch > 0 {
				env.Note("identifiers registered with a number > 0 and counting not started")
			}
		}
		ticks := 0
		violated := false
		// ---- monitors on the real state, one block: prev = AllEpochInfos before the block's BeginBlock
		checkBlock := func(prev, cur []epochstypes.EpochInfo, evs []string, bt time.Time) {
			env.Eval("C15.step")
			nv := len(env.Report.Violations)
			if len(cur) != len(prev) {
				env.Violate("C15.step", "ids-changed", "identifier set changed", hist)
			}
			perID := map[string][]string{}
			for _, ev := range evs {
				f := strings.Split(ev, ":")
				perID[f[1]] = append(perID[f[1]], f[0]+":"+f[2])
			}
			for i := range cur {
				if i >= len(prev) {
					break
				}
				p, q := prev[i], cur[i]
				dlt := q.CurrentEpoch - p.CurrentEpoch
				// every stored identifier is valid (C15.genesis), so Validate's skip never applies
				shouldFirst := !p.EpochCountingStarted && !bt.Before(p.StartTime)
				shouldNext := p.EpochCountingStarted && !bt.Before(p.StartTime) && bt.After(p.CurrentEpochStartTime.Add(p.Duration))
				var wantEvs string
				switch {
				case shouldFirst:
					if p.CurrentEpoch > 0 {
						env.Outcome("first-tick:number>0-at-registration")
					} else {
						env.Outcome("first-tick:number=0")
					}
					wantEvs = "S:1"
					if q.CurrentEpoch != 1 || !q.EpochCountingStarted || !q.CurrentEpochStartTime.Equal(p.StartTime) {
						env.Violate("C15.step", "first", fmt.Sprintf("%s: block time %s is at or after its start time %s and counting had not started: the first epoch must be number 1 starting at the start time; stored %s (before the block: %s)", p.Identifier, bt.UTC(), p.StartTime.UTC(), fmtEpochFields(q), fmtEpochFields(p)), hist)
					}
				case shouldNext:
					wantEvs = fmt.Sprintf("E:%d,S:%d", p.CurrentEpoch, p.CurrentEpoch+1)
					if dlt != 1 || !q.CurrentEpochStartTime.Equal(p.CurrentEpochStartTime.Add(p.Duration)) {
						env.Violate("C15.step", "advance", fmt.Sprintf("%s: epoch must advance by one: %d -> %d", p.Identifier, p.CurrentEpoch, q.CurrentEpoch), hist)
					}
				default:
					if dlt != 0 || !q.CurrentEpochStartTime.Equal(p.CurrentEpochStartTime) || q.EpochCountingStarted != p.EpochCountingStarted {
						env.Violate("C15.step", "spurious", fmt.Sprintf("%s: epoch changed without its end being passed: %d -> %d", p.Identifier, p.CurrentEpoch, q.CurrentEpoch), hist)
					}
				}
				if q.Identifier != p.Identifier || !q.StartTime.Equal(p.StartTime) || q.Duration != p.Duration {
					env.Violate("C15.step", "config-changed", fmt.Sprintf("%s: identifier / start time / duration changed by a block: %s -> %s", p.Identifier, fmtEpochFields(p), fmtEpochFields(q)), hist)
				}
				// the notifications of THIS block for THIS identifier: exactly the ones of the case above
				env.Eval("C15.events")
				if got := strings.Join(perID[epochID(p.Identifier)], ","); got != wantEvs {
					env.Violate("C15.events", "block-events", fmt.Sprintf("%s: block at %s notified [%s], expected [%s] (before the block: %s)", p.Identifier, bt.UTC(), got, wantEvs, fmtEpochFields(p)), hist)
				}
				tr := tracks[q.Identifier]
				if tr != nil && tr.fromUnstarted && q.EpochCountingStarted {
					want := q.StartTime.Add(time.Duration(q.CurrentEpoch-1) * q.Duration)
					if !q.CurrentEpochStartTime.Equal(want) {
						env.Violate("C15.formula", "formula", fmt.Sprintf("%s: start of epoch %d is %v, want %v", q.Identifier, q.CurrentEpoch, q.CurrentEpochStartTime, want), hist)
					}
				}
			}
			// notification stream across blocks: per identifier E n / S n+1 pairs, consecutive, once;
			// the first start of an identifier that had not started counting is start 1, and no end
			// comes before it
			for _, ev := range evs {
				f := strings.Split(ev, ":")
				num, _ := strconv.ParseInt(f[2], 10, 64)
				id := f[1]
				if id == "<empty>" {
					id = ""
				}
				tr := tracks[id]
				if tr == nil {
					env.Violate("C15.events", "unknown-id", "event for unknown identifier "+ev, hist)
					continue
				}
				if f[0] == "S" {
					tr.starts++
					if tr.known && num != tr.lastStarted+1 || !tr.known && num != 1 {
						env.Violate("C15.events", "start-order", fmt.Sprintf("start %s out of order (last started %d, counting started: %v)", ev, tr.lastStarted, tr.known), hist)
					}
					tr.lastStarted = num
					tr.known = true
				} else {
					tr.ends++
					if !tr.known || num != tr.lastStarted {
						env.Violate("C15.events", "end-order", fmt.Sprintf("end %s without matching start (last started %d, counting started: %v)", ev, tr.lastStarted, tr.known), hist)
					}
				}
			}
			if len(env.Report.Violations) > nv {
				violated = true
			}
		}

		// block 1 (BeginBlock ran inside NewChain)
		cur := c.App.EpochsKeeper.AllEpochInfos(c.Ctx)
		evs := epochEvents(c.Boot.Events)
		emit(fmt.Sprintf("epoch.block %s %d", tnsX(c.Header.Time), c.Header.Height), fmtEpochInfos(cur)+"|"+strings.Join(evs, ","))
		ticks += len(evs)
		checkBlock(registered, cur, evs, c.Header.Time)

		nb := 10 + rng.Intn(maxBlocks)
		var script []string
		if directed { // aimed at s0 (start 10 s after genesis, 7 s long)
			script = []string{"eq", "sub", "start-1", "start", "eq", "sub", "end", "end+1", "gap", "eq", "ns", "ns", "eq", "end", "end+1"}
		}
		for b := 0; b < nb && !violated; b++ {
			prev := c.App.EpochsKeeper.AllEpochInfos(c.Ctx)
			now := c.Header.Time
			var d time.Duration
			if b < len(script) {
				var s0 epochstypes.EpochInfo
				for _, e := range prev {
					if e.Identifier == "s0" {
						s0 = e
					}
				}
				until := func(t time.Time) time.Duration {
					if t.After(now) && t.Sub(now) < 400*24*time.Hour {
						return t.Sub(now)
					}
					return 0
				}
				switch script[b] {
				case "eq":
					d = 0
				case "ns":
					d = 1
				case "sub":
					d = s0.Duration / 3
				case "start-1":
					d = until(s0.StartTime.Add(-1))
				case "start":
					d = until(s0.StartTime)
				case "end":
					d = until(s0.CurrentEpochStartTime.Add(s0.Duration))
				case "end+1":
					d = until(s0.CurrentEpochStartTime.Add(s0.Duration + 1))
				case "gap":
					d = 3*s0.Duration + 5
				}
			} else {
				switch rng.Pick(2, 3, 3, 4, 3, 2) {
				case 0:
					d = 0
				case 1:
					d = time.Duration(1 + rng.Intn(3))
				case 2:
					d = time.Duration(1+rng.Intn(30)) * time.Second
				case 3: // aim at a boundary of some identifier: exactly, one ns before, one ns after
					e := prev[rng.Intn(len(prev))]
					target := e.CurrentEpochStartTime.Add(e.Duration)
					if !e.EpochCountingStarted {
						target = e.StartTime
					}
					target = target.Add(time.Duration(rng.Intn(3) - 1))
					if target.After(now) && target.Sub(now) < 400*24*time.Hour {
						d = target.Sub(now)
					} else {
						d = time.Duration(rng.Intn(5))
					}
				case 4: // multi-duration gap
					e := prev[rng.Intn(len(prev))]
					d = time.Duration(1+rng.Intn(5))*e.Duration + time.Duration(rng.Intn(3))
					if d > 60*24*time.Hour {
						d = 60 * 24 * time.Hour
					}
				case 5:
					d = time.Duration(rng.Intn(3)) * time.Hour
				}
			}
			r := c.EndAndBegin(d)
			if r.Halt != "" {
				env.Violate("C15.halt", "halt", "block processing panicked: "+r.Halt, hist)
				break
			}
			cur := c.App.EpochsKeeper.AllEpochInfos(c.Ctx)
			evs := epochEvents(r.Begin.Events)
			emit(fmt.Sprintf("epoch.block %s %d", tnsX(c.Header.Time), c.Header.Height), fmtEpochInfos(cur)+"|"+strings.Join(evs, ","))
			ticks += len(evs)
			checkBlock(prev, cur, evs, c.Header.Time)
		}
		// ---- whole history: the number an identifier ends with counts its start notifications —
		// from 0 if it had not started counting when it was registered (whatever number it carried)
		if !violated {
			env.Eval("C15.count")
			for _, q := range c.App.EpochsKeeper.AllEpochInfos(c.Ctx) {
				tr := tracks[q.Identifier]
				if tr == nil {
					continue
				}
				base := tr.first
				if tr.fromUnstarted {
					base = 0
					if !q.EpochCountingStarted {
						base = q.CurrentEpoch // never reached its start time: untouched
					}
				}
				if q.CurrentEpoch != base+int64(tr.starts) || tr.starts-tr.ends != ebit(tr.fromUnstarted && q.EpochCountingStarted) {
					env.Violate("C15.count", "count-mismatch", fmt.Sprintf("%s: registered with number %d (counting started: %v), %d start and %d end notifications, number now %d", q.Identifier, tr.first, !tr.fromUnstarted, tr.starts, tr.ends, q.CurrentEpoch), hist)
				}
			}
		}
		env.Report.Histories++
		if ticks > 0 {
			env.DistinctKey(fmt.Sprintf("h%d-%d-%d", hi, nb, ticks))
		}
		if hi < 2 {
			env.Sample(strings.Join(hist[:min(len(hist), 14)], " ; "))
		}
		env.Outcome(fmt.Sprintf("ticks>0=%v", ticks > 0))
	}
	return nil
}
