package main

// C15 — epoch clock. Drives the real x/epochs BeginBlocker through app.BeginBlock over seeded
// timelines (equal times, sub-duration steps, boundary-exact times, multi-duration gaps,
// identifiers registered mid-count or with future start times), prints AllEpochInfos and the
// epoch_end/epoch_start events of every block for the Lean model to reproduce, and evaluates
// the property's predicates directly on the real state (monitors).

import (
	"encoding/json"
	"fmt"
	"strconv"
	"strings"
	"time"

	abci "github.com/cometbft/cometbft/abci/types"

	epochstypes "github.com/ExocoreNetwork/exocore/x/epochs/types"
)

func init() { register("epochs", domEpochs) }

func tns(t time.Time) int64 {
	if t.IsZero() {
		return 0
	}
	return t.UnixNano()
}

func fmtEpochInfos(infos []epochstypes.EpochInfo) string {
	parts := make([]string, 0, len(infos))
	for _, e := range infos {
		st := 0
		if e.EpochCountingStarted {
			st = 1
		}
		parts = append(parts, fmt.Sprintf("%s=%d,%d,%d,%d", e.Identifier, e.CurrentEpoch, tns(e.CurrentEpochStartTime), st, e.CurrentEpochStartHeight))
	}
	return strings.Join(parts, ";")
}

func epochEvents(evs []abci.Event) []string {
	var out []string
	for _, ev := range evs {
		if ev.Type != epochstypes.EventTypeEpochEnd && ev.Type != epochstypes.EventTypeEpochStart {
			continue
		}
		id, num := "", ""
		for _, a := range ev.Attributes {
			switch a.Key {
			case epochstypes.AttributeEpochIdentifier:
				id = a.Value
			case epochstypes.AttributeEpochNumber:
				num = a.Value
			}
		}
		k := "S"
		if ev.Type == epochstypes.EventTypeEpochEnd {
			k = "E"
		}
		out = append(out, k+":"+id+":"+num)
	}
	return out
}

type epochTrack struct {
	fromUnstarted bool
	lastStarted   int64 // last epoch number for which a start was seen (0 = none)
	known         bool
}

func domEpochs(env *Env) error {
	n := env.Int("histories", 40)
	maxBlocks := env.Int("blocks", 80)
	rng := NewRNG(env.Report.Seed)
	env.Report.Domain = "epochs"
	durChoices := []time.Duration{1, 7, time.Second, 7 * time.Second, time.Minute, 61 * time.Minute, 24 * time.Hour}
	for hi := 0; hi < n; hi++ {
		var hist []string
		cfg := DefaultCfg(env.Report.Seed*1000 + uint64(hi))
		nExtra := rng.Intn(4)
		var extra []epochstypes.EpochInfo
		for i := 0; i < nExtra; i++ {
			e := epochstypes.EpochInfo{Identifier: fmt.Sprintf("x%d", i), Duration: durChoices[rng.Intn(len(durChoices))]}
			switch rng.Intn(7) {
			case 5, 6: // mid-count, with a start time that does NOT line up with the current epoch's
				// start (an identifier exported and re-imported with its StartTime left unset, or a
				// schedule that drifted): only CurrentEpochStartTime + Duration decides the next tick
				e.EpochCountingStarted = true
				e.CurrentEpoch = int64(2 + rng.Intn(50))
				e.CurrentEpochStartTime = cfg.InitTime.Add(-time.Duration(rng.Intn(3)) * e.Duration / 2)
				e.CurrentEpochStartHeight = int64(rng.Intn(5))
				switch rng.Intn(3) {
				case 0: // unset: AddEpochInfo fills in the import block's time
				case 1:
					e.StartTime = cfg.InitTime.Add(-time.Duration(1+rng.Intn(1000)) * time.Second)
				case 2:
					e.StartTime = e.CurrentEpochStartTime.Add(-time.Duration(e.CurrentEpoch+int64(rng.Intn(5))) * e.Duration)
				}
			case 0: // zero start time => genesis time
			case 1:
				e.StartTime = cfg.InitTime.Add(-time.Duration(rng.Intn(1000)) * time.Second)
			case 2:
				e.StartTime = cfg.InitTime.Add(time.Duration(rng.Intn(40)) * time.Second)
			case 3:
				e.StartTime = cfg.InitTime.Add(time.Duration(rng.Intn(3)) * e.Duration)
			case 4: // mid-count
				e.StartTime = cfg.InitTime.Add(-time.Duration(rng.Intn(100)) * e.Duration)
				e.EpochCountingStarted = true
				e.CurrentEpoch = int64(1 + rng.Intn(50))
				e.CurrentEpochStartTime = e.StartTime.Add(time.Duration(e.CurrentEpoch-1) * e.Duration)
				e.CurrentEpochStartHeight = int64(rng.Intn(5))
			}
			extra = append(extra, e)
		}
		shrink := rng.Intn(3) == 0
		cfg.Mutate = func(c *Chain, gs map[string]json.RawMessage) {
			g := epochstypes.DefaultGenesis()
			if shrink { // shorter default identifiers so that they tick often
				for i := range g.Epochs {
					g.Epochs[i].Duration = durChoices[2+rng.Intn(3)]
				}
			}
			g.Epochs = append(g.Epochs, extra...)
			gs[epochstypes.ModuleName] = c.App.AppCodec().MustMarshalJSON(g)
		}
		// NewChain already runs BeginBlock of block 1; we need the state *before* it for the
		// model, so reconstruct: export after InitChain is not available, hence we start the
		// model from the state after block 1's BeginBlock and feed blocks 2.. to both sides.
		c := NewChain(cfg)
		infos := c.App.EpochsKeeper.AllEpochInfos(c.Ctx)
		// the configured start time of an identifier is kept as registered (only an UNSET start time
		// is replaced, by the registration block's time): "becomes 1 in the first block at or after
		// its start time" and "n-th start = start + (n-1) x duration" are about the configured time
		env.Eval("C15.start-time")
		for _, x := range extra {
			for _, e := range infos {
				if e.Identifier != x.Identifier {
					continue
				}
				if !x.StartTime.IsZero() && !e.StartTime.Equal(x.StartTime) {
					env.Violate("C15.start-time", "start-time-replaced", fmt.Sprintf("%s registered with start time %s, stored %s", x.Identifier, x.StartTime.UTC(), e.StartTime.UTC()), hist)
				}
				if x.StartTime.IsZero() && !e.StartTime.Equal(cfg.InitTime) && !e.StartTime.Equal(c.Header.Time) {
					env.Violate("C15.start-time", "unset-start-time", fmt.Sprintf("%s registered without start time, stored %s (genesis time %s)", x.Identifier, e.StartTime.UTC(), cfg.InitTime.UTC()), hist)
				}
			}
		}
		op := "epoch.reset"
		env.Op(op, "ok")
		hist = append(hist, op)
		tracks := map[string]*epochTrack{}
		for _, e := range infos {
			st := 0
			if e.EpochCountingStarted {
				st = 1
			}
			op = fmt.Sprintf("epoch.add %s %d %d %d %d %d %d", e.Identifier, tns(e.StartTime), int64(e.Duration), e.CurrentEpoch, tns(e.CurrentEpochStartTime), st, e.CurrentEpochStartHeight)
			env.Op(op, "ok")
			hist = append(hist, op)
			tracks[e.Identifier] = &epochTrack{fromUnstarted: !e.EpochCountingStarted, lastStarted: e.CurrentEpoch, known: e.EpochCountingStarted}
		}
		nb := 10 + rng.Intn(maxBlocks)
		ticks := 0
		for b := 0; b < nb; b++ {
			prev := c.App.EpochsKeeper.AllEpochInfos(c.Ctx)
			now := c.Header.Time
			var d time.Duration
			switch rng.Pick(2, 3, 3, 4, 3, 2) {
			case 0:
				d = 0
			case 1:
				d = time.Duration(1 + rng.Intn(3))
			case 2:
				d = time.Duration(1+rng.Intn(30)) * time.Second
			case 3: // aim at a boundary of some identifier: exactly, one ns before, one ns after
				e := prev[rng.Intn(len(prev))]
				target := e.CurrentEpochStartTime.Add(e.Duration)
				if !e.EpochCountingStarted {
					target = e.StartTime
				}
				target = target.Add(time.Duration(rng.Intn(3) - 1))
				if target.After(now) && target.Sub(now) < 400*24*time.Hour {
					d = target.Sub(now)
				} else {
					d = time.Duration(rng.Intn(5))
				}
			case 4: // multi-duration gap
				e := prev[rng.Intn(len(prev))]
				d = time.Duration(1+rng.Intn(5))*e.Duration + time.Duration(rng.Intn(3))
				if d > 60*24*time.Hour {
					d = 60 * 24 * time.Hour
				}
			case 5:
				d = time.Duration(rng.Intn(3)) * time.Hour
			}
			r := c.EndAndBegin(d)
			if r.Halt != "" {
				env.Violate("C15.halt", "halt", "block processing panicked: "+r.Halt, hist)
				break
			}
			cur := c.App.EpochsKeeper.AllEpochInfos(c.Ctx)
			evs := epochEvents(r.Begin.Events)
			op = fmt.Sprintf("epoch.block %d %d", c.Header.Time.UnixNano(), c.Header.Height)
			obs := fmtEpochInfos(cur) + "|" + strings.Join(evs, ",")
			env.Op(op, obs)
			hist = append(hist, op)
			ticks += len(evs)
			// ---- monitors on the real state
			bt := c.Header.Time
			env.Eval("C15.step")
			if len(cur) != len(prev) {
				env.Violate("C15.step", "ids-changed", "identifier set changed", hist)
			}
			for i := range cur {
				if i >= len(prev) {
					break
				}
				p, q := prev[i], cur[i]
				dlt := q.CurrentEpoch - p.CurrentEpoch
				shouldFirst := !p.EpochCountingStarted && !bt.Before(p.StartTime)
				shouldNext := p.EpochCountingStarted && !bt.Before(p.StartTime) && bt.After(p.CurrentEpochStartTime.Add(p.Duration))
				switch {
				case shouldFirst:
					if q.CurrentEpoch != 1 || !q.EpochCountingStarted || !q.CurrentEpochStartTime.Equal(p.StartTime) {
						env.Violate("C15.step", "first", fmt.Sprintf("%s: first epoch not started at start time: %+v", p.Identifier, q), hist)
					}
				case shouldNext:
					if dlt != 1 || !q.CurrentEpochStartTime.Equal(p.CurrentEpochStartTime.Add(p.Duration)) {
						env.Violate("C15.step", "advance", fmt.Sprintf("%s: epoch must advance by one: %d -> %d", p.Identifier, p.CurrentEpoch, q.CurrentEpoch), hist)
					}
				default:
					if dlt != 0 || !q.CurrentEpochStartTime.Equal(p.CurrentEpochStartTime) || q.EpochCountingStarted != p.EpochCountingStarted {
						env.Violate("C15.step", "spurious", fmt.Sprintf("%s: epoch changed without its end being passed: %d -> %d", p.Identifier, p.CurrentEpoch, q.CurrentEpoch), hist)
					}
				}
				tr := tracks[q.Identifier]
				if tr != nil && tr.fromUnstarted && q.EpochCountingStarted {
					want := q.StartTime.Add(time.Duration(q.CurrentEpoch-1) * q.Duration)
					if !q.CurrentEpochStartTime.Equal(want) {
						env.Violate("C15.formula", "formula", fmt.Sprintf("%s: start of epoch %d is %v, want %v", q.Identifier, q.CurrentEpoch, q.CurrentEpochStartTime, want), hist)
					}
				}
			}
			// notification stream: per identifier E n / S n+1 pairs, consecutive, once
			for _, ev := range evs {
				f := strings.Split(ev, ":")
				num, _ := strconv.ParseInt(f[2], 10, 64)
				tr := tracks[f[1]]
				if tr == nil {
					env.Violate("C15.events", "unknown-id", "event for unknown identifier "+ev, hist)
					continue
				}
				env.Eval("C15.events")
				if f[0] == "S" {
					if tr.known && num != tr.lastStarted+1 || !tr.known && num != 1 {
						env.Violate("C15.events", "start-order", fmt.Sprintf("start %s out of order (last started %d)", ev, tr.lastStarted), hist)
					}
					tr.lastStarted = num
					tr.known = true
				} else {
					if !tr.known || num != tr.lastStarted {
						env.Violate("C15.events", "end-order", fmt.Sprintf("end %s without matching start (last started %d)", ev, tr.lastStarted), hist)
					}
				}
			}
		}
		env.Report.Histories++
		if ticks > 0 {
			env.DistinctKey(fmt.Sprintf("h%d-%d-%d", hi, nb, ticks))
		}
		if hi < 2 {
			env.Sample(strings.Join(hist[:min(len(hist), 14)], " ; "))
		}
		env.Outcome(fmt.Sprintf("ticks>0=%v", ticks > 0))
	}
	return nil
}
