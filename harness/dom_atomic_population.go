package main

// C09 — a LARGE POPULATION on one (operator, asset): list-size boundaries as a history-dependent input.
//
// Every other history of the atomic domains has three stakers. Whatever a function on the delegate / undelegate / slash
// path does with the SIZE of the per-(operator, asset) staker list (KeyPrefixStakersByOperator: one value, loaded and
// rewritten in full by every new delegation, walked by SetStakerShareToZero / SlashAssets / the reward allocation), with
// the number of delegation rows, or with the gas such a walk costs, is therefore never met. AppendStakerForOperator in
// particular stands LAST in delegateTo, after the staker row, the pool row and the delegation row were written: as long as
// it cannot refuse, the order is harmless; a refusal that depends on the length of the list is a check after the writes
// behind the precompile's swallowed error, and only a population of that size can show it.
//
// largePopulation (one further directed history on a fresh chain, `population` stakers, default 1100 > 1024):
//   1. stakers 0..N-1 (synthetic 20-byte addresses) deposit 100 base units of the first LST and delegate 50 of them to
//      operator 0. Paths: deposit through the keeper (every 8th through the assets precompile); delegate through the
//      delegation precompile for every 4th staker and for EVERY staker while the list length is within 6 of a power of two
//      from 256 up (…, 1018..1030, …) or at the ends, else through DelegationKeeper.DelegateTo on a cache context of the
//      deliver context (keeperCached: committed whatever the result - a keeper call by a module has no roll-back - and
//      compared with the parent when it reports an error).
//   2. on top of the population, through the precompile with the full snapshot monitor around every call: refused calls
//      (more than withdrawable, unknown operator, zero amount, undelegate more than delegated), a further delegation of a
//      listed staker, new stakers N..N+5, partial and whole undelegations (the staker leaves the list), new stakers taking
//      the freed places, then blocks over an epoch end and the unbonding period, Slash 25 % / the same id again / 100 %
//      (SetStakerShareToZero walks the list), delegations into the slashed pool, blocks.
// Monitors: C09.fail-leaves-no-trace (dom_atomic.go) around every call; C09.population.accepted-listed after every phase
// and after every precompile delegation near a boundary: every delegation row of the pool with a non-zero share has its
// staker on the list exactly once, and every call the harness saw ACCEPTED left its staker with a row (a refused call that
// left a row, or an accepted one that is not listed, is the same defect seen from the state).

import (
	"crypto/sha256"
	"encoding/binary"
	"fmt"
	"math/big"
	"time"

	sdkmath "cosmossdk.io/math"
	sdk "github.com/cosmos/cosmos-sdk/types"

	assetskeeper "github.com/ExocoreNetwork/exocore/x/assets/keeper"
	assetstypes "github.com/ExocoreNetwork/exocore/x/assets/types"
	delegationtypes "github.com/ExocoreNetwork/exocore/x/delegation/types"
	operatortypes "github.com/ExocoreNetwork/exocore/x/operator/types"
)

func init() {
	atomExtraDirected = append(atomExtraDirected, (*atomH).largePopulation)
}

func popAddr(i int) []byte {
	var b [4]byte
	binary.BigEndian.PutUint32(b[:], uint32(i))
	s := sha256.Sum256(append([]byte("c09-dust-staker"), b[:]...))
	return s[:20]
}

// popNearBoundary: list length n (before the call) within 6 of a power of two >= 256, or at the very start.
func popNearBoundary(n int) bool {
	if n < 3 {
		return true
	}
	for p := 256; p <= 1<<20; p <<= 1 {
		if n >= p-6 && n <= p+6 {
			return true
		}
	}
	return false
}

// keeperCached runs a keeper call the way another module would (on the deliver context, an error only reported) but
// inside a cache context that is written back in either case, so that the state before the call is still readable
// when the call reports an error: the byte snapshot of the parent is taken only then. (The oracle's memory is not behind
// the cache context; the keeper calls used here do not touch it.)
func (h *atomH) keeperCached(entry, desc string, quiet bool, f func(ctx sdk.Context) error) string {
	cc, write := h.c.Ctx.CacheContext()
	cc = cc.WithGasMeter(sdk.NewInfiniteGasMeter()) // not charged to the block context's meter (see freshGas)
	var err error
	pan := ""
	func() {
		defer func() {
			if r := recover(); r != nil {
				pan = fmt.Sprint(r)
			}
		}()
		err = f(cc)
	}()
	if pan != "" {
		h.env.Outcome(entry + ":panic")
		h.env.Note("keeper-panic:" + entry)
		h.hist = append(h.hist, desc+" => panic "+pan)
		return "panic"
	}
	if err == nil {
		write()
		h.env.Outcome(entry + ":ok")
		if !quiet {
			h.hist = append(h.hist, desc+" => ok")
		}
		return "ok"
	}
	before := xbSnapshot(h.c, h.c.Ctx, true)
	write()
	h.env.Outcome(entry + ":rej")
	h.lastErr, h.lastErrFn = err.Error(), errInnermostFn(err)
	h.report(entry, "krej", err.Error(), before, desc, nil)
	return "rej"
}

type popH struct {
	h        *atomH
	op       sdk.AccAddress
	asset    []byte
	assetID  string
	accepted map[string]bool // staker ids with at least one accepted delegation and no accepted whole undelegation since
	n        int             // stakers created so far
}

// freshGas gives the deliver context a gas meter of its own for the next precompile call, as a transaction has on the
// chain: the precompile's RunSetup charges what the context's meter has consumed so far to the call's own limit
// (10^7 here), so on a context shared by hundreds of calls of one block every call would end in `out of gas`.
func (p *popH) freshGas() {
	p.h.c.Ctx = p.h.c.Ctx.WithGasMeter(sdk.NewInfiniteGasMeter())
}

func (p *popH) stakerID(i int) string {
	id, _ := assetstypes.GetStakerIDAndAssetID(p.h.c.LzID, popAddr(i), p.asset)
	return id
}

func (p *popH) deposit(i int, amt int64, viaPrecompile bool) string {
	h, c := p.h, p.h.c
	if viaPrecompile {
		p.freshGas()
		return h.evm("assets.depositLST", c.Funded.Eth, xbAssetsAddr, h.abis.assets, "depositLST", uint32(c.LzID), pad32(p.asset), pad32(popAddr(i)), big.NewInt(amt))
	}
	return h.keeperCached("keeper.PerformDepositOrWithdraw", fmt.Sprintf("keeper depositLST staker#%d %x amount=%d", i, popAddr(i), amt), true, func(ctx sdk.Context) error {
		return c.App.AssetsKeeper.PerformDepositOrWithdraw(ctx, &assetskeeper.DepositWithdrawParams{
			ClientChainLzID: c.LzID, Action: assetstypes.DepositLST, StakerAddress: popAddr(i), AssetsAddress: p.asset, OpAmount: sdkmath.NewInt(amt)})
	})
}

func (p *popH) delegate(i int, op sdk.AccAddress, amt int64, viaPrecompile bool) string {
	h, c := p.h, p.h.c
	var cls string
	if viaPrecompile {
		h.lzNonce++
		p.freshGas()
		h.hist = append(h.hist, fmt.Sprintf("  (next call: staker#%d, list length before = %d)", i, p.listLen()))
		cls = h.evm("delegation.delegate", c.Funded.Eth, xbDelegAddr, h.abis.deleg, "delegate", uint32(c.LzID), h.lzNonce, pad32(p.asset), pad32(popAddr(i)), []byte(op.String()), big.NewInt(amt))
	} else {
		cls = h.keeperCached("keeper.DelegateTo", fmt.Sprintf("keeper DelegateTo staker#%d %x operator=%s amount=%d (list length before = %d)", i, popAddr(i), op, amt, p.listLen()), true, func(ctx sdk.Context) error {
			return c.App.DelegationKeeper.DelegateTo(ctx, &delegationtypes.DelegationOrUndelegationParams{
				ClientChainID: c.LzID, AssetsAddress: p.asset, OperatorAddress: op, StakerAddress: popAddr(i), OpAmount: sdkmath.NewInt(amt)})
		})
	}
	if cls == "ok" && op.Equals(p.op) {
		p.accepted[p.stakerID(i)] = true
	}
	return cls
}

func (p *popH) undelegate(i int, amt int64) string {
	h, c := p.h, p.h.c
	h.lzNonce++
	p.freshGas()
	return h.evm("delegation.undelegate", c.Funded.Eth, xbDelegAddr, h.abis.deleg, "undelegate", uint32(c.LzID), h.lzNonce, pad32(p.asset), pad32(popAddr(i)), []byte(p.op.String()), big.NewInt(amt))
}

func (p *popH) listLen() int {
	l, err := p.h.c.App.DelegationKeeper.GetStakersByOperator(p.h.c.Ctx, p.op.String(), p.assetID)
	if err != nil {
		return 0
	}
	return len(l.Stakers)
}

// listed evaluates C09.population.accepted-listed on the real state.
func (p *popH) listed(when string) {
	h, c := p.h, p.h.c
	env := h.env
	env.Eval("C09.population.accepted-listed")
	onList := map[string]int{}
	if l, err := c.App.DelegationKeeper.GetStakersByOperator(c.Ctx, p.op.String(), p.assetID); err == nil {
		for _, s := range l.Stakers {
			onList[s]++
		}
	}
	viol := func(sig, detail string) {
		if h.seen[sig] {
			return
		}
		h.seen[sig] = true
		hh := h.hist
		if len(hh) > 60 {
			hh = append(append([]string{}, hh[:3]...), hh[len(hh)-57:]...)
		}
		env.Violate("C09.population.accepted-listed", sig, detail, hh)
	}
	for s, n := range onList {
		if n > 1 {
			viol("population:listed-twice", fmt.Sprintf("%s: staker %s stands %d times on the list of %s/%s", when, s, n, p.op, p.assetID))
		}
	}
	rows, err := c.App.DelegationKeeper.AllDelegationStates(c.Ctx)
	if err != nil {
		env.Note("population-read-error")
		return
	}
	withRow := map[string]bool{}
	for _, row := range rows {
		k, err := delegationtypes.ParseStakerAssetIDAndOperator([]byte(row.Key))
		if err != nil || k.OperatorAddr != p.op.String() || k.AssetID != p.assetID {
			continue
		}
		withRow[k.StakerID] = true
		if row.States.UndelegatableShare.IsPositive() && onList[k.StakerID] == 0 {
			tag := "refused"
			if p.accepted[k.StakerID] {
				tag = "accepted"
			}
			viol("population:delegator-not-listed:"+tag, fmt.Sprintf("%s: delegation row %s holds share %s, but the staker is not on the operator's list (length %d); the delegation calls of this staker were %s: a slash to zero / the reward allocation walk the list and pass this staker by",
				when, row.Key, row.States.UndelegatableShare, len(onList), tag))
		}
		if !p.accepted[k.StakerID] && (row.States.UndelegatableShare.IsPositive()) {
			viol("population:row-of-refused-delegation", fmt.Sprintf("%s: delegation row %s (share %s) of a staker none of whose delegations to this operator was accepted", when, row.Key, row.States.UndelegatableShare))
		}
	}
	for s := range p.accepted {
		if !withRow[s] {
			viol("population:accepted-without-row", fmt.Sprintf("%s: staker %s had a delegation accepted but has no delegation row", when, s))
		}
	}
	env.DistinctKey(fmt.Sprintf("population|listed|%s|len>=1024:%v", when, len(onList) >= 1024))
}

func (h *atomH) largePopulation() {
	c := h.c
	n := h.env.Int("population", 1100)
	p := &popH{h: h, op: c.Operators[0].Acc, asset: hexToBytes(c.Cfg.Assets[0].Addr), accepted: map[string]bool{}}
	_, p.assetID = assetstypes.GetStakerIDAndAssetID(c.LzID, nil, p.asset)
	t0 := time.Now()
	if rows, err := c.App.DelegationKeeper.AllDelegationStates(c.Ctx); err == nil { // the genesis delegations of the pool
		for _, row := range rows {
			if k, err := delegationtypes.ParseStakerAssetIDAndOperator([]byte(row.Key)); err == nil && k.OperatorAddr == p.op.String() && k.AssetID == p.assetID {
				p.accepted[k.StakerID] = true
			}
		}
	}
	h.hist = append(h.hist, fmt.Sprintf("scenario large-population: stakers #i (i = 0..%d) have the address sha256(\"c09-dust-staker\" || be32(i))[:20]; each deposits 100 base units of %s (keeper PerformDepositOrWithdraw; every 8th: precompile depositLST) and delegates 50 to operator %s - through the delegation precompile when i%%4 == 0 or the list length is within 6 of a power of two >= 256, else through DelegationKeeper.DelegateTo; only precompile calls and failures are listed below", n-1, p.assetID, p.op))
	h.hist = append(h.hist, "  (population calls not listed individually were all accepted unless a line says otherwise)")
	refused := 0
	for i := 0; i < n; i++ {
		p.deposit(i, 100, i%8 == 0)
		near := popNearBoundary(p.listLen())
		if cls := p.delegate(i, p.op, 50, i%4 == 0 || near || i >= n-2); cls != "ok" {
			if refused == 0 {
				h.env.Note(fmt.Sprintf("population-first-refusal:staker#%d:%s", i, cls))
			}
			refused++
		}
		if near {
			p.listed(fmt.Sprintf("population, after staker#%d", i))
		}
		if i%200 == 199 {
			h.block(time.Second)
		}
	}
	p.n = n
	h.env.Note(fmt.Sprintf("population:%d refused:%d list:%d seconds:%d", n, refused, p.listLen(), int(time.Since(t0).Seconds())))
	h.env.DistinctKey(fmt.Sprintf("population|built|refused>0:%v", refused > 0))
	p.listed("population built")
	h.block(time.Second)
	// 2a. refusals in the large state
	p.delegate(5, p.op, 51, true)                                // more than withdrawable
	p.delegate(6, h.others[1].Acc, 10, true)                     // not an operator
	p.delegate(7, p.op, 0, true)                                 // zero
	p.undelegate(8, 51)                                          // more than delegated
	p.undelegate(n+50, 1)                                        // unknown staker
	p.delegate(3, p.op, 10, true)                                // listed staker adds
	p.delegate(4, c.Operators[1%len(c.Operators)].Acc, 10, true) // another operator's (short) list
	for j := 0; j < 6; j++ {                                     // new stakers
		i := p.n
		p.n++
		p.deposit(i, 100, j%2 == 0)
		p.delegate(i, p.op, 50, j != 3)
	}
	p.listed("new stakers on top")
	// 2b. undelegations: partial, whole (leaves the list), whole again (nothing left), then new stakers take the places
	p.undelegate(9, 10)
	for _, i := range []int{10, 11, 0, n - 1} {
		if p.undelegate(i, 50) == "ok" {
			delete(p.accepted, p.stakerID(i))
			h.env.DistinctKey("population|whole-undelegation")
		}
		p.undelegate(i, 1)
	}
	p.listed("whole undelegations")
	for j := 0; j < 7; j++ {
		i := p.n
		p.n++
		p.deposit(i, 100, false)
		p.delegate(i, p.op, 50, true)
	}
	p.delegate(10, p.op, 50, true) // a staker that left comes back
	p.listed("places taken again")
	// 2c. blocks: an epoch end (voting power / rewards walk the pool) and the unbonding period
	for _, d := range []time.Duration{time.Second, time.Minute + time.Second, time.Second, time.Hour + time.Second, time.Second} {
		h.block(d)
	}
	for i := 0; i < 12; i++ {
		h.block(time.Second)
	}
	p.listed("after blocks")
	// 2d. slash 25 %, the same id again (refused: must leave nothing), then 100 % (SetStakerShareToZero over the list)
	mk := func(id string, prop sdkmath.LegacyDec) *operatortypes.SlashInputInfo {
		return &operatortypes.SlashInputInfo{IsDogFood: true, Power: 10, SlashType: 1, Operator: p.op, AVSAddr: c.AVSAddr,
			SlashID: id, SlashEventHeight: c.Ctx.BlockHeight(), SlashProportion: prop}
	}
	for k, sl := range []*operatortypes.SlashInputInfo{mk("pop-1", sdkmath.LegacyNewDecWithPrec(25, 2)), mk("pop-1", sdkmath.LegacyNewDecWithPrec(25, 2)), mk("pop-2", sdkmath.LegacyOneDec())} {
		sl := sl
		h.keeper("operator.Slash", fmt.Sprintf("keeper Slash #%d id=%s prop=%s (staker list length %d)", k, sl.SlashID, sl.SlashProportion, p.listLen()),
			func(ctx sdk.Context) error { return c.App.OperatorKeeper.Slash(ctx, sl) })
		if k == 0 {
			p.undelegate(12, 50) // after a 25 % cut 50 is more than the delegation is worth
			p.undelegate(12, 30)
			p.delegate(13, p.op, 20, true)
		}
	}
	h.block(time.Second)
	// delegations into the slashed pool: a listed staker and a new one
	p.delegate(14, p.op, 20, true)
	i := p.n
	p.n++
	p.deposit(i, 100, true)
	p.delegate(i, p.op, 50, true)
	p.undelegate(15, 1)
	for i := 0; i < 3; i++ {
		h.block(time.Second)
	}
	p.listed("end")
	h.env.Note(fmt.Sprintf("population-scenario-seconds:%d", int(time.Since(t0).Seconds())))
}
