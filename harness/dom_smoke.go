package main

import (
	"fmt"
	"time"
)

func init() {
	register("smoke", func(env *Env) error {
		c := NewChain(DefaultCfg(env.Report.Seed))
		for i := 0; i < 5; i++ {
			r := c.EndAndBegin(time.Hour * 7)
			env.Op(fmt.Sprintf("block %d", i), fmt.Sprintf("h=%d halt=%q updates=%d apphash=%x", c.Header.Height, r.Halt, len(r.End.ValidatorUpdates), r.AppHash))
		}
		return nil
	})
}
