package main

// Helpers shared by the C18 / C19 domains (dom_genesis.go, dom_evmfee.go): signed Ethereum
// transactions through the ABCI surface of the real app, and byte-level store dumps.

import (
	"crypto/sha256"
	"encoding/hex"
	"fmt"
	"math/big"
	"sort"
	"strings"

	abci "github.com/cometbft/cometbft/abci/types"
	codectypes "github.com/cosmos/cosmos-sdk/codec/types"
	sdk "github.com/cosmos/cosmos-sdk/types"
	authtx "github.com/cosmos/cosmos-sdk/x/auth/tx"
	"github.com/cosmos/gogoproto/proto"
	"github.com/ethereum/go-ethereum/common"
	ethtypes "github.com/ethereum/go-ethereum/core/types"
	evmtypes "github.com/evmos/evmos/v16/x/evm/types"

	utiltx "github.com/ExocoreNetwork/exocore/testutil/tx"
	keytypes "github.com/ExocoreNetwork/exocore/types/keys"
	"github.com/ExocoreNetwork/exocore/utils"
)

// EthTxSpec is one Ethereum transaction as the generator draws it.
type EthTxSpec struct {
	Type     int // 0 legacy, 1 access list, 2 dynamic fee
	Nonce    uint64
	GasLimit uint64
	FeeCap   *big.Int // gas price for type 0/1
	TipCap   *big.Int // type 2 only
	Value    *big.Int
	To       *common.Address
	Data     []byte
	ChainID  *big.Int // nil = the chain's id
	Sign     bool
	Access   ethtypes.AccessList
}

// BuildEthTx builds the MsgEthereumTx and the enclosing cosmos tx bytes exactly as a client does
// (testutil/tx.PrepareEthTx: extension option, fee = feeCap*gas, gas limit, no cosmos signatures).
func (c *Chain) BuildEthTx(from Actor, s EthTxSpec) (msg *evmtypes.MsgEthereumTx, bz []byte, err error) {
	defer func() {
		if r := recover(); r != nil {
			err = fmt.Errorf("build panic: %v", r)
		}
	}()
	chainID := s.ChainID
	if chainID == nil {
		chainID = c.App.EvmKeeper.ChainID()
	}
	args := &evmtypes.EvmTxArgs{
		ChainID: chainID, Nonce: s.Nonce, GasLimit: s.GasLimit, Input: s.Data, Amount: s.Value, To: s.To,
	}
	switch s.Type {
	case 0:
		args.GasPrice = s.FeeCap
	case 1:
		args.GasPrice = s.FeeCap
		al := s.Access
		if al == nil {
			al = ethtypes.AccessList{}
		}
		args.Accesses = &al
	default:
		args.GasFeeCap = s.FeeCap
		args.GasTipCap = s.TipCap
		al := s.Access
		if al == nil {
			al = ethtypes.AccessList{}
		}
		args.Accesses = &al
	}
	msg = evmtypes.NewTx(args)
	msg.From = from.Eth.String()
	txCfg := c.App.GetTxConfig()
	if s.Sign {
		signer := ethtypes.LatestSignerForChainID(chainID)
		if err = msg.Sign(signer, utiltx.NewSigner(from.Priv)); err != nil {
			return nil, nil, err
		}
	}
	msg.From = ""
	b := txCfg.NewTxBuilder()
	if err = b.SetMsgs(msg); err != nil {
		return nil, nil, err
	}
	opt, err := codectypes.NewAnyWithValue(&evmtypes.ExtensionOptionsEthereumTx{})
	if err != nil {
		return nil, nil, err
	}
	eb, ok := b.(authtx.ExtensionOptionsTxBuilder)
	if !ok {
		return nil, nil, fmt.Errorf("no extension builder")
	}
	eb.SetExtensionOptions(opt)
	b.SetGasLimit(msg.GetGas())
	fee := msg.GetFee()
	if fee.Sign() > 0 {
		b.SetFeeAmount(sdk.Coins{sdk.NewCoin(utils.BaseDenom, sdk.NewIntFromBigInt(fee))})
	} else {
		b.SetFeeAmount(sdk.Coins{})
	}
	bz, err = txCfg.TxEncoder()(b.GetTx())
	return msg, bz, err
}

// DeliverRawTx calls the ABCI DeliverTx of the real app; a panic escaping baseapp is reported.
func (c *Chain) DeliverRawTx(bz []byte) (res abci.ResponseDeliverTx, halt string) {
	defer recoverTo(&halt, "DeliverTx")
	res = c.App.DeliverTx(abci.RequestDeliverTx{Tx: bz})
	return
}

// EthResponse decodes the MsgEthereumTxResponse of a successful DeliverTx (code 0).
func (c *Chain) EthResponse(r abci.ResponseDeliverTx) (*evmtypes.MsgEthereumTxResponse, error) {
	var txData sdk.TxMsgData
	if err := c.App.AppCodec().Unmarshal(r.Data, &txData); err != nil {
		return nil, err
	}
	if len(txData.MsgResponses) != 1 {
		return nil, fmt.Errorf("%d msg responses", len(txData.MsgResponses))
	}
	var res evmtypes.MsgEthereumTxResponse
	if err := proto.Unmarshal(txData.MsgResponses[0].Value, &res); err != nil {
		return nil, err
	}
	return &res, nil
}

// NativeBalance is the bank balance in the EVM denom.
func (c *Chain) NativeBalance(a sdk.AccAddress) *big.Int {
	return c.App.BankKeeper.GetBalance(c.Ctx, a, utils.BaseDenom).Amount.BigInt()
}

// Sequence is the auth account sequence (= EVM nonce), 0 when the account does not exist.
func (c *Chain) Sequence(a sdk.AccAddress) uint64 {
	acc := c.App.AccountKeeper.GetAccount(c.Ctx, a)
	if acc == nil {
		return 0
	}
	return acc.GetSequence()
}

// StoreDump returns every key/value pair of one module store of the deliver state as
// "hexkey=hexvalue" lines (iteration order of the store = sorted by key).
func (c *Chain) StoreDump(storeKey string) []string {
	return StoreDumpCtx(c, c.Ctx, storeKey)
}

func StoreDumpCtx(c *Chain, ctx sdk.Context, storeKey string) []string {
	k := c.App.GetKey(storeKey)
	if k == nil {
		return []string{"<no store " + storeKey + ">"}
	}
	st := ctx.KVStore(k)
	it := st.Iterator(nil, nil)
	defer it.Close()
	var out []string
	for ; it.Valid(); it.Next() {
		out = append(out, hex.EncodeToString(it.Key())+"="+hex.EncodeToString(it.Value()))
	}
	return out
}

// StoreDigest is a short hash of the dump of several stores.
func (c *Chain) StoreDigest(storeKeys ...string) string {
	h := sha256.New()
	for _, k := range storeKeys {
		h.Write([]byte("#" + k + "\n"))
		for _, l := range c.StoreDump(k) {
			h.Write([]byte(l))
			h.Write([]byte{'\n'})
		}
	}
	return hex.EncodeToString(h.Sum(nil))[:16]
}

// DiffDumps lists up to max differing keys of two dumps (sorted input).
func DiffDumps(a, b []string, max int) []string {
	ma := map[string]string{}
	mb := map[string]string{}
	for _, l := range a {
		i := strings.IndexByte(l, '=')
		ma[l[:i]] = l[i+1:]
	}
	for _, l := range b {
		i := strings.IndexByte(l, '=')
		mb[l[:i]] = l[i+1:]
	}
	var out []string
	for k, v := range ma {
		if w, ok := mb[k]; !ok {
			out = append(out, "-"+k)
		} else if w != v {
			out = append(out, "~"+k)
		}
	}
	for k := range mb {
		if _, ok := ma[k]; !ok {
			out = append(out, "+"+k)
		}
	}
	sort.Strings(out)
	if len(out) > max {
		out = out[:max]
	}
	return out
}

func detHash(b []byte) []byte {
	h := sha256.Sum256(b)
	return h[:]
}

// keytypesFromHex returns the consensus address bytes of a hex-encoded consensus public key.
func keytypesFromHex(keyHex string) []byte {
	k := keytypes.NewWrappedConsKeyFromHex(keyHex)
	if k == nil {
		return nil
	}
	return k.ToConsAddr()
}
