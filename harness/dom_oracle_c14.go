package main

// C14 — oracle restart equivalence. Every history is run twice on the real application with
// identical inputs: once continuously, once with a simulated process restart (all process-local
// oracle singletons dropped, package defaults restored, context rebuilt from the committed store by
// the real GetAggregatorContext → recacheAggregatorContext) at a chosen height. From the restart on,
// DeliverTx results, stored prices and nonces, the in-memory aggregator dump and the application
// hash of the two runs are compared block by block. Both runs are also replayed by the Lean model.

import (
	"encoding/hex"
	"fmt"
	"regexp"
	"strings"
	"time"

	sdkmath "cosmossdk.io/math"
	assetskeeper "github.com/ExocoreNetwork/exocore/x/assets/keeper"
	assetstypes "github.com/ExocoreNetwork/exocore/x/assets/types"
	delegationtypes "github.com/ExocoreNetwork/exocore/x/delegation/types"
	epochstypes "github.com/ExocoreNetwork/exocore/x/epochs/types"
	sdk "github.com/cosmos/cosmos-sdk/types"
	"github.com/ethereum/go-ethereum/common"

	oraclekeeper "github.com/ExocoreNetwork/exocore/x/oracle/keeper"
)

func init() { register("oracle_restart", domOracleC14) }

var reFilterN = regexp.MustCompile(`N:[^{}]*? S:`)

type c14Block struct {
	txs  []orcTx
	open map[int]uint64
	step time.Duration
	pre  func(o *orc) // real-application action before the transactions (no model op: its effect reaches the model as the validator updates of a later EndBlock)
	// refused MsgUpdateParams delivered before / after the block's transactions (dom_oracle_params.go; model op orc.updparams.rej)
	rejPre, rejPost []orcRej
}

type c14Trace struct {
	classes [][]string
	endObs  []string
	hashes  []string
	safeAt  []bool // restart after this block satisfies the partial theorem's hypothesis
	nUpd    []int  // number of validator updates x/dogfood returned at this block's EndBlock
	memP    []string // full dump of the params the in-memory aggregator context holds after this block (hook VerifDumpAgcParams)
	nRej    []int    // refused parameter updates delivered in this block
}

// runC14 executes the blocks; restartAfter = index of the block after which (post BeginBlock of the
// next one) the restart happens, or -1. gen != nil generates (and records) the blocks.
func runC14(env *Env, seed uint64, spec orcSpec, blocks *[]c14Block, nb int, gen func(d *orcDriver) c14Block, restartAfter int) (*c14Trace, string) {
	return runC14Cfg(env, seed, spec, nil, blocks, nb, gen, restartAfter)
}

func runC14Cfg(env *Env, seed uint64, spec orcSpec, mutateCfg func(*ChainCfg), blocks *[]c14Block, nb int, gen func(d *orcDriver) c14Block, restartAfter int) (*c14Trace, string) {
	o := newOrc(env, seed, spec, mutateCfg)
	o.emitSetup()
	d := newOrcDriver(o, NewRNG(seed))
	tr := &c14Trace{}
	restartObs := ""
	for b := 0; b < nb; b++ {
		var blk c14Block
		if gen != nil {
			blk = gen(d)
			*blocks = append(*blocks, blk)
		} else {
			blk = (*blocks)[b]
		}
		for fi, base := range blk.open {
			d.roundLog(fi, base)
		}
		if blk.pre != nil {
			blk.pre(o)
		}
		var cls []string
		nRej := 0
		for _, r := range blk.rejPre {
			if o.updParamsRej(r) {
				nRej++
			}
		}
		for _, t := range blk.txs {
			cls = append(cls, d.sendTx(t, blk.open))
		}
		for _, r := range blk.rejPost {
			if o.updParamsRej(r) {
				nRej++
			}
		}
		tr.nRej = append(tr.nRej, nRej)
		tr.classes = append(tr.classes, cls)
		tr.nUpd = append(tr.nUpd, 0)
		upd, halted := d.endBlock()
		if halted {
			return tr, "halt"
		}
		d.applyUpdates(upd)
		tr.nUpd[len(tr.nUpd)-1] = len(upd)
		tr.endObs = append(tr.endObs, o.fullObs())
		tr.memP = append(tr.memP, oraclekeeper.VerifDumpAgcParams())
		// hypothesis of C14_partial at this point: no feeder's window is in a state the replay log
		// cannot reproduce (closed inside its window, or a validator with two accepted messages)
		safe := true
		h := uint64(o.c.Header.Height)
		for fi := range spec.Feeders {
			if base := spec.openBase(fi, h+1); base > 0 || spec.openBase(fi, h) > 0 {
				st := d.roundStatus(fi + 1)
				if st != 1 && spec.openBase(fi, h+1) > 0 {
					safe = false
				}
				if r := d.rounds[fi]; r != nil && r.base == base {
					cnt := map[int]int{}
					for _, a := range r.accepted {
						cnt[a.val]++
						if cnt[a.val] > 1 {
							safe = false
						}
					}
				}
			}
		}
		if len(upd) > 0 {
			// right after a validator-set change the restarted node replays the forced seal itself (the
			// `from >= to` branch, F-14c repair): every round alive is closed on both nodes, whatever was in it
			safe = true
		}
		tr.safeAt = append(tr.safeAt, safe)
		if !d.commitBegin(blk.step) {
			return tr, "halt"
		}
		tr.hashes = append(tr.hashes, hex.EncodeToString(o.c.Header.AppHash))
		if b == restartAfter {
			restartObs = o.restart()
			o.op("orc.restart", restartObs)
			if restartObs == "panic" {
				return tr, "restart-panic"
			}
		}
	}
	return tr, restartObs
}

// c14NormMem removes what may legitimately differ in memory after a recache and is never
// observable: the filter's nonce sets (replayed messages carry nonce 0) and the stale *closed*
// round entry of a feeder whose EndBlock has passed (SealRound deletes an expired round only when
// it is still open; a restarted node never recreates it; both refuse submissions identically).
func c14NormMem(obs string, spec orcSpec, height uint64) string {
	obs = reFilterN.ReplaceAllString(obs, "S:")
	return reRounds.ReplaceAllStringFunc(obs, func(m string) string {
		sub := reRounds.FindStringSubmatch(m)
		var keep []string
		for _, e := range strings.Split(sub[1], ";") {
			var id, bb, n, st int
			if _, err := fmt.Sscanf(e, "%d:%d,%d,%d", &id, &bb, &n, &st); err == nil && id >= 1 && id <= len(spec.Feeders) {
				f := spec.Feeders[id-1]
				if st == 2 && f.End > 0 && height >= f.End {
					continue
				}
			}
			if e != "" {
				keep = append(keep, e)
			}
		}
		return "|R:" + strings.Join(keep, ";") + "|W:"
	})
}

func c14Compare(env *Env, spec orcSpec, a, b *c14Trace, from int, tag string, hist []string) bool {
	memAt, memWhat := -1, ""
	for i := from; i < len(a.endObs) && i < len(b.endObs); i++ {
		env.Eval("C14.equiv")
		if strings.Join(a.classes[i], ",") != strings.Join(b.classes[i], ",") {
			env.Violate("C14.equiv", "restart-diverged:txresult"+tag, fmt.Sprintf("block +%d after restart: DeliverTx results %v (continuous) vs %v (restarted)", i-from+1, a.classes[i], b.classes[i]), hist)
			return false
		}
		pa, pb := strings.SplitN(a.endObs[i], "|P:", 2)[0], strings.SplitN(b.endObs[i], "|P:", 2)[0]
		if pa != pb {
			env.Violate("C14.equiv", "restart-diverged:state"+tag, fmt.Sprintf("block +%d after restart: stored prices/nonces differ: %s (continuous) vs %s (restarted)", i-from+1, firstN(pa, 300), firstN(pb, 300)), hist)
			return false
		}
		if i < len(a.hashes) && i < len(b.hashes) && a.hashes[i] != b.hashes[i] {
			env.Violate("C14.equiv", "restart-diverged:apphash"+tag, fmt.Sprintf("block +%d after restart: application hash differs", i-from+1), hist)
			return false
		}
		// the filter's nonce sets legitimately differ (replayed messages carry nonce 0): not compared
		if c14NormMem(a.endObs[i], spec, uint64(i+1)) != c14NormMem(b.endObs[i], spec, uint64(i+1)) && memAt < 0 {
			memAt = i
			xa, xb := strings.Split(c14NormMem(a.endObs[i], spec, uint64(i+1)), "|"), strings.Split(c14NormMem(b.endObs[i], spec, uint64(i+1)), "|")
			for k := range xa {
				if k < len(xb) && xa[k] != xb[k] {
					memWhat = firstN(xa[k], 200) + "  vs  " + firstN(xb[k], 200)
					break
				}
			}
		}
	}
	// every field of the params the two processes hold in memory (chains, tokens, sources, rules, feeders)
	for i := from; i < len(a.memP) && i < len(b.memP); i++ {
		if a.memP[i] != b.memP[i] {
			x, y := a.memP[i], b.memP[i]
			k := 0
			for k < len(x) && k < len(y) && x[k] == y[k] {
				k++
			}
			lo := k - 60
			if lo < 0 {
				lo = 0
			}
			env.Violate("C14.equiv", "restart-diverged:memory-params"+tag, fmt.Sprintf("block +%d after restart: the params held by the in-memory aggregator context differ: …%s (continuous) vs …%s (restarted)", i-from+1, firstN(x[lo:], 200), firstN(y[lo:], 200)), hist)
			return false
		}
	}
	if memAt >= 0 {
		env.Violate("C14.equiv", "restart-diverged:memory"+tag, fmt.Sprintf("block +%d after restart: in-memory aggregator/cache/log differ although store and results agree to the end of the history: %s", memAt-from+1, memWhat), hist)
		return false
	}
	return true
}

func c14Directed(env *Env, name, tag string, spec orcSpec, nb, restartAfter int, script func(d *orcDriver, h uint64) []orcTx) {
	c14DirectedCfg(env, name, tag, spec, nb, restartAfter, nil, func(d *orcDriver, h uint64) c14Block {
		return c14Block{txs: script(d, h), step: 2 * time.Second}
	}, nil)
}

// c14DirectedCfg: continuous vs. restarted run of a scripted history; blockOf supplies the
// transactions, the time step and an optional real-application action of each block; check (optional)
// inspects the continuous trace and returns "" or the reason why the scenario did not take shape
// (then nothing is compared and the outcome says so).
func c14DirectedCfg(env *Env, name, tag string, spec orcSpec, nb, restartAfter int, mutateCfg func(*ChainCfg),
	blockOf func(d *orcDriver, h uint64) c14Block, check func(a *c14Trace) string) {
	var blocks []c14Block
	gen := func(d *orcDriver) c14Block {
		h := uint64(d.c.Header.Height)
		open := map[int]uint64{}
		for fi := range d.spec.Feeders { // d.spec = spec, plus what accepted parameter updates configured since
			if b := d.spec.openBase(fi, h); b > 0 {
				open[fi] = b
			}
		}
		blk := blockOf(d, h)
		blk.open = open
		return blk
	}
	seed := uint64(141400 + len(name))
	a, _ := runC14Cfg(env, seed, spec, mutateCfg, &blocks, nb, gen, -1)
	if check != nil {
		if why := check(a); why != "" {
			env.Outcome("directed-" + name + ":not-set-up:" + why)
			env.Report.Histories++
			return
		}
	}
	b, r := runC14Cfg(env, seed, spec, mutateCfg, &blocks, nb, nil, restartAfter)
	env.Outcome("directed-" + name + ":" + firstN(strings.SplitN(r, "|", 2)[0], 20))
	hist := []string{"orc.reset", "# directed " + name + ": same inputs, restart after block " + fmt.Sprint(restartAfter+1)}
	for _, blk := range blocks {
		for _, r := range blk.rejPre {
			hist = append(hist, fmt.Sprintf("refused MsgUpdateParams %+v", r))
		}
		for _, t := range blk.txs {
			hist = append(hist, fmt.Sprintf("tx %+v", t))
		}
		for _, r := range blk.rejPost {
			hist = append(hist, fmt.Sprintf("refused MsgUpdateParams %+v", r))
		}
		hist = append(hist, "end")
	}
	if r == "restart-panic" {
		env.Violate("C14.equiv", "restart-panic"+tag, "the node cannot start: recacheAggregatorContext panics", hist)
	} else if c14Compare(env, spec, a, b, restartAfter+1, tag, hist) {
		env.Note("directed-" + name + "-no-divergence")
	}
	env.Report.Histories += 2
}

func domOracleC14(env *Env) error {
	n := env.Int("histories", 4)
	maxBlocks := env.Int("blocks", 30)
	every := env.Int("every", 3)
	rng := NewRNG(env.Report.Seed*15485863 + 14)
	env.Report.Domain = "oracle_restart"
	base := orcSpec{Powers: []int64{20, 10, 10}, MaxNonce: 3, ThA: 2, ThB: 3, MaxDetID: 5, MaxSize: 100,
		Sources: [][2]bool{{true, true}}, Rules: [][]uint64{{0}, {1}}, TokenDec: []int32{0},
		Feeders: []orcFeeder{{Token: 1, Rule: 2, StartRound: 2, StartBase: 2, Interval: 7}}, GenNext: []uint64{2}, GenPrice: []string{"1"}}
	mk := func(d *orcDriver, v int, nonce int32, det, price string) orcTx {
		return orcTx{Msgs: []orcMsg{{Creator: v, Feeder: 1, Based: 2, Nonce: nonce, Srcs: []orcSource{{ID: 1, Prices: []orcPrice{{Price: price, Dec: 0, Ts: d.c.Header.Time.Unix(), DetID: det}}}}}}}
	}
	if env.Int("directed", 1) == 1 {
		// F-14a: the replay log has no nonces — validator 0's second message of the round is dropped on
		// recache, so the det id it supported no longer reaches the threshold on the restarted node.
		c14Directed(env, "second-message-dropped", ":F-14a", base, 8, 3, func(d *orcDriver, h uint64) []orcTx {
			switch h {
			case 3:
				return []orcTx{mk(d, 0, 1, "9", "2")}
			case 4:
				return []orcTx{mk(d, 0, 2, "10", "2")}
			case 5:
				return []orcTx{mk(d, 1, 1, "10", "2")}
			}
			return nil
		})
		// F-14b: a round finalized inside its window is re-opened by the restart (the replay log keeps
		// no trace of the final message); at the window's end the restarted node "fails" it again and
		// appends a second round id.
		c14Directed(env, "closed-round-reopened", ":F-14b", base, 8, 2, func(d *orcDriver, h uint64) []orcTx {
			if h == 3 {
				return []orcTx{mk(d, 0, 1, "9", "2"), mk(d, 1, 1, "9", "2")}
			}
			return nil
		})
	}
	mkB := func(d *orcDriver, v int, based uint64, nonce int32, det, price string) orcTx {
		return orcTx{Msgs: []orcMsg{{Creator: v, Feeder: 1, Based: based, Nonce: nonce, Srcs: []orcSource{{ID: 1, Prices: []orcPrice{{Price: price, Dec: 0, Ts: d.c.Header.Time.Unix(), DetID: det}}}}}}}
	}
	if env.Int("f14c", 0) == 1 {
		// F-14c: restart in the block right after a validator-set change. recacheAggregatorContext takes
		// its `from >= to` branch (ValidatorUpdateBlock = to-1), which sets params and validators but never
		// calls PrepareRoundEndBlock: the restarted node has no rounds until its next EndBlock and refuses
		// the price the continuous node accepts for the round that opened in the block of the change.
		// Real validator-set change: one more USDT delegated to operator 2 in block 2 (minute epochs), the
		// epoch ends with the BeginBlock of block 9 (a 70 s step), x/dogfood returns the update at
		// EndBlock(9) - the block at which round 3 (base 9) opens.
		c14DirectedCfg(env, "restart-after-valset-change", ":F-14c:restart-after-valset-change", base, 12, 8,
			func(c *ChainCfg) { c.EpochID = epochstypes.MinuteEpochID },
			func(d *orcDriver, h uint64) c14Block {
				blk := c14Block{step: 2 * time.Second}
				switch h {
				case 2:
					blk.pre = func(o *orc) {
						c := o.c
						addr := common.HexToAddress(c.Cfg.Assets[0].Addr).Bytes()
						staker := NewActor(141403, "f14c-staker", 0)
						amt := sdkmath.NewIntWithDecimal(1, int(c.Cfg.Assets[0].Decimals))
						err := c.CachedDo(func(ctx sdk.Context) error {
							if err := c.App.AssetsKeeper.PerformDepositOrWithdraw(ctx, &assetskeeper.DepositWithdrawParams{
								ClientChainLzID: c.LzID, Action: assetstypes.DepositLST, StakerAddress: staker.Eth.Bytes(), AssetsAddress: addr, OpAmount: amt}); err != nil {
								return err
							}
							return c.App.DelegationKeeper.DelegateTo(ctx, &delegationtypes.DelegationOrUndelegationParams{
								ClientChainID: c.LzID, Action: assetstypes.DelegateTo, AssetsAddress: addr, OperatorAddress: c.Operators[2].Acc,
								StakerAddress: staker.Eth.Bytes(), OpAmount: amt, LzNonce: 9100, TxHash: common.BytesToHash(detBytes(141403, "f14c", 0))})
						})
						if err != nil {
							o.env.Note("f14c-delegation-failed: " + firstN(err.Error(), 80))
						}
					}
				case 8:
					blk.step = 70 * time.Second // BeginBlock(9) ends the minute epoch
				case 10:
					blk.txs = []orcTx{mkB(d, 0, 9, 1, "9", "2")}
				case 11:
					blk.txs = []orcTx{mkB(d, 1, 9, 1, "9", "2")}
				}
				return blk
			},
			func(a *c14Trace) string {
				for i, n := range a.nUpd {
					if n > 0 && i != 8 {
						return fmt.Sprintf("validator-update-at-block-%d", i+1)
					}
				}
				if len(a.nUpd) < 9 || a.nUpd[8] == 0 {
					return "no-validator-update-at-block-9"
				}
				return ""
			})
	}
	if env.Int("valset", 0) == 1 {
		// restart right after a PURE REMOVAL: operator 2 opts out in block 2, the minute epoch ends with
		// BeginBlock(10), x/dogfood returns power 0 for it at EndBlock(10) - inside the window of the round
		// based at 9, which holds validator 0's report of block 10 and is force-sealed. The node restarts in
		// block 11; validators 1 and 0 then submit for the sealed round (refused on a node that kept running).
		// ValidatorUpdateBlock must have been persisted for the removal: the restarted node replays the seal.
		c14DirectedCfg(env, "restart-after-validator-removal", ":restart-after-validator-removal", base, 14, 9,
			func(c *ChainCfg) { c.EpochID = epochstypes.MinuteEpochID },
			func(d *orcDriver, h uint64) c14Block {
				blk := c14Block{step: 2 * time.Second}
				switch h {
				case 2:
					blk.pre = func(o *orc) { o.vsDo(vsAction{kind: "optout", op: 2}) }
				case 9:
					blk.step = 70 * time.Second
				case 10:
					blk.txs = []orcTx{mkB(d, 0, 9, 1, "9", "2")}
				case 11:
					blk.txs = []orcTx{mkB(d, 1, 9, 1, "9", "2"), mkB(d, 0, 9, 2, "10", "2")}
				}
				return blk
			},
			func(a *c14Trace) string {
				if len(a.nUpd) < 10 || a.nUpd[9] == 0 {
					return "no-validator-update-at-block-10"
				}
				return ""
			})
	}
	if env.Int("rejparams", 0) == 1 {
		// a REFUSED parameter update (store untouched) must leave the process what a restart rebuilds. Block 4:
		// MsgUpdateParams{TokenFeeders: [{TokenID: 1, EndBlock: 16}]} - 16 is the base block of a round of the feeder
		// (start 2, interval 7): UpdateTokenFeeder accepts the edit, Validate refuses ("invalid EndBlock") - together
		// with an asset-id edit of token 1; then the other refusal reasons. Restart in block 6. Prices are reported for
		// the rounds based at 9 and 16 and at block 17 (refused on a node that ended the feeder at 16).
		c14DirectedCfg(env, "refused-params-update", ":refused-params-update", base, 20, 4, nil,
			func(d *orcDriver, h uint64) c14Block {
				blk := c14Block{step: 2 * time.Second}
				switch h {
				case 4:
					blk.rejPre = []orcRej{{kind: "endblock-in-window", tok: 1, salt: 1}}
					for i, k := range orcParamRejKinds {
						blk.rejPost = append(blk.rejPost, orcRej{kind: k, tok: 1, salt: 10 + i})
					}
				case 10:
					blk.txs = []orcTx{mkB(d, 0, 9, 1, "9", "2")}
				case 11:
					blk.rejPre = []orcRej{{kind: "maxsize-negative", tok: 1, salt: 2}}
					blk.txs = []orcTx{mkB(d, 1, 9, 1, "9", "2")}
				case 17:
					blk.txs = []orcTx{mkB(d, 0, 16, 1, "10", "3")}
				case 18:
					blk.txs = []orcTx{mkB(d, 1, 16, 1, "10", "3")}
				}
				return blk
			},
			func(a *c14Trace) string {
				if len(a.nRej) < 4 || a.nRej[3] < 8 {
					return "refused-updates-not-delivered"
				}
				return ""
			})
	}
	if env.Int("accparams", 0) == 1 {
		c14AcceptedParams(env, base)
	}
	if env.Int("f14d", 0) == 1 {
		// F-14d: a chain younger than MaxNonce. `block - uint64(common.MaxNonce)` in cacheMsgs.commit wraps
		// for block < MaxNonce, `b > huge` is false for every index entry, and the commit of block 3 removes
		// the RecentMsg of block 2, which a restart in block 4 still needs (from = 2). MaxNonce 5, feeder
		// base 1, powers 10/10/10 (threshold: all three): v1 at block 2, v2 at block 3, restart, v0 at
		// block 4 - the continuous node finalizes, the restarted one (v1's report lost) does not.
		young := orcSpec{Powers: []int64{10, 10, 10}, MaxNonce: 5, ThA: 2, ThB: 3, MaxDetID: 5, MaxSize: 100,
			Sources: [][2]bool{{true, true}}, Rules: [][]uint64{{0}, {1}}, TokenDec: []int32{0},
			Feeders: []orcFeeder{{Token: 1, Rule: 2, StartRound: 2, StartBase: 1, Interval: 9}}, GenNext: []uint64{2}, GenPrice: []string{"1"}}
		c14DirectedCfg(env, "young-chain-log-erased", ":F-14d:young-chain-log-erased", young, 8, 2, nil,
			func(d *orcDriver, h uint64) c14Block {
				blk := c14Block{step: 2 * time.Second}
				switch h {
				case 2:
					blk.txs = []orcTx{mkB(d, 1, 1, 1, "9", "2")}
				case 3:
					blk.txs = []orcTx{mkB(d, 2, 1, 1, "9", "2")}
				case 4:
					blk.txs = []orcTx{mkB(d, 0, 1, 1, "9", "2")}
				}
				return blk
			}, nil)
	}
	if env.Int("f14f", 0) == 1 {
		// candidate F-14f (not in the registry args): recacheAggregatorContext computes the start of its
		// replay window from the package variable common.MaxNonce *before* any params are read; a fresh
		// process holds the compiled-in default 3 there, not params.MaxNonce. MaxNonce 5, feeder base 6
		// (chain older than MaxNonce), v1 at block 7, v2 at block 8, restart in block 10, v0 at block 10:
		// the restarted process replays blocks 8..9 only and loses v1's report of block 7.
		wide := orcSpec{Powers: []int64{10, 10, 10}, MaxNonce: 5, ThA: 2, ThB: 3, MaxDetID: 5, MaxSize: 100,
			Sources: [][2]bool{{true, true}}, Rules: [][]uint64{{0}, {1}}, TokenDec: []int32{0},
			Feeders: []orcFeeder{{Token: 1, Rule: 2, StartRound: 2, StartBase: 6, Interval: 11}}, GenNext: []uint64{2}, GenPrice: []string{"1"}}
		c14DirectedCfg(env, "window-from-default-maxnonce", ":F-14f:window-from-default-maxnonce", wide, 14, 8, nil,
			func(d *orcDriver, h uint64) c14Block {
				blk := c14Block{step: 2 * time.Second}
				switch h {
				case 7:
					blk.txs = []orcTx{mkB(d, 1, 6, 1, "9", "2")}
				case 8:
					blk.txs = []orcTx{mkB(d, 2, 6, 1, "9", "2")}
				case 10:
					blk.txs = []orcTx{mkB(d, 0, 6, 1, "9", "2")}
				}
				return blk
			}, nil)
	}
	for hi := 0; hi < n; hi++ {
		spec := genOrcSpec(rng, true)
		if env.Int("varynonce", 0) == 1 && hi%2 == 1 {
			// every second random history runs with MaxNonce 2 or 4 instead of the package default 3 (a
			// restarted process must take its replay window from the stored params: F-14f, and on a young
			// chain the log must not be erased: F-14d)
			spec.MaxNonce = int32(2 + 2*(hi/2%2))
		}
		seed := env.Report.Seed*3000 + uint64(hi)
		var blocks []c14Block
		nb := 14 + rng.Intn(maxBlocks)
		genRng := NewRNG(seed + 77)
		rejRng := NewRNG(seed + 991) // refused parameter updates: a stream of their own (rejparams=1)
		rejOn := env.Int("rejparams", 0) == 1
		// every second history (valset=1): minute epochs and validator-set changes through x/dogfood -
		// power changes, pure removals (opt-out), re-additions - with restarts right after each of them
		minute := env.Int("valset", 0) == 1 && hi%2 == 0
		var mutCfg func(*ChainCfg)
		if minute {
			mutCfg = func(c *ChainCfg) { c.EpochID = epochstypes.MinuteEpochID }
		}
		gen := func(d *orcDriver) c14Block {
			d.rng = genRng
			// reuse the C12 generator but capture the txs instead of sending them directly
			h := uint64(d.c.Header.Height)
			open := map[int]uint64{}
			for fi := range spec.Feeders {
				if b := spec.openBase(fi, h); b > 0 {
					open[fi] = b
					d.roundLog(fi, b)
				}
			}
			var txs []orcTx
			sent := map[string]int32{}
			for fi := range spec.Feeders {
				b, ok := open[fi]
				if !ok {
					continue
				}
				for v := range spec.Powers {
					if !genRng.Chance(1, 2) {
						continue
					}
					m := d.honestMsg(v, fi, b)
					k := fmt.Sprintf("%d/%d", v, fi)
					m.Nonce += sent[k]
					sent[k]++
					t := orcTx{Msgs: []orcMsg{m}}
					if genRng.Chance(1, 8) {
						d.mutate(&t.Msgs[0], &t)
					}
					txs = append(txs, t)
				}
			}
			blk := c14Block{txs: txs, open: open, step: time.Duration(1+genRng.Intn(4)) * time.Second}
			if rejOn && rejRng.Chance(1, 4) {
				for j := 1 + rejRng.Intn(2); j > 0; j-- {
					r := orcRej{kind: orcParamRejKinds[rejRng.Intn(len(orcParamRejKinds))], tok: uint64(1 + rejRng.Intn(len(spec.TokenDec))), salt: rejRng.Intn(1000)}
					if rejRng.Bool() {
						blk.rejPre = append(blk.rejPre, r)
					} else {
						blk.rejPost = append(blk.rejPost, r)
					}
				}
			}
			if minute {
				if genRng.Chance(1, 5) {
					if act, ok := d.vsPick(); ok {
						blk.pre = func(o *orc) { o.vsDo(act) }
					}
				}
				if genRng.Chance(1, 5) {
					blk.step = time.Duration(56+genRng.Intn(10)) * time.Second
				}
			}
			return blk
		}
		a, _ := runC14Cfg(env, seed, spec, mutCfg, &blocks, nb, gen, -1)
		env.Report.Histories++
		restarts := 0
		// restart points: every `every`-th height, and the block right after each validator-set change
		var points []int
		seenPt := map[int]bool{}
		for k := 1 + int(seed%uint64(every)); k < nb-2; k += every {
			points = append(points, k)
			seenPt[k] = true
		}
		nChange := 0
		for k, nu := range a.nUpd {
			if nu > 0 && k >= 1 && k < nb-2 && !seenPt[k] && nChange < 4 {
				points = append(points, k)
				seenPt[k] = true
				nChange++
			}
		}
		// ... and the block right after a refused parameter update
		nRejPt := 0
		for k, nr := range a.nRej {
			if nr > 0 && k >= 1 && k < nb-2 && !seenPt[k] && nRejPt < 2 {
				points = append(points, k)
				seenPt[k] = true
				nRejPt++
			}
		}
		for _, k := range points {
			if k < len(a.nRej) && a.nRej[k] > 0 {
				env.Outcome("restart-right-after-refused-params-update")
			}
			if k < len(a.nUpd) && a.nUpd[k] > 0 {
				env.Outcome("restart-right-after-valset-change")
			}
			if k >= len(a.safeAt) || !a.safeAt[k] {
				env.Outcome("restart-point-outside-partial-hypothesis")
				continue
			}
			b, r := runC14Cfg(env, seed, spec, mutCfg, &blocks, nb, nil, k)
			env.Report.Histories++
			restarts++
			hist := []string{"orc.reset", fmt.Sprintf("# history %d of seed %d, restart after block %d (replay: exoharness oracle_restart seed=%d)", hi, env.Report.Seed, k+1, env.Report.Seed)}
			if r == "restart-panic" {
				env.Violate("C14.equiv", "restart-panic", "the node cannot start: recacheAggregatorContext panics", hist)
				continue
			}
			if c14Compare(env, spec, a, b, k+1, "", hist) {
				env.Outcome("restart-equivalent")
			}
		}
		if restarts > 0 {
			env.DistinctKey(fmt.Sprintf("h%d-v%d-f%d-r%d", hi, len(spec.Powers), len(spec.Feeders), restarts))
		}
	}
	return nil
}
