#!/bin/sh
# Regenerates go.mod/go.sum for the harness from /repo's go.mod (replace directives are not
# inherited, so the repo's replace block is copied and `exocore => /repo` is added).
set -e
REPO=${VERIF_REPO:-/repo}
cd "$(dirname "$0")"
python3 - "$REPO" <<'PY'
import re,sys
repo=sys.argv[1]
src=open(repo+'/go.mod').read()
src=re.sub(r'^module .*$', 'module exoverif/harness', src, count=1, flags=re.M)
# add require + replace for the repo itself
src=src.replace('require (', 'require (\n\tgithub.com/ExocoreNetwork/exocore v0.0.0', 1)
i=src.rfind('replace (')
assert i>=0
src=src[:i]+'replace (\n\tgithub.com/ExocoreNetwork/exocore => '+repo+'\n'+src[i+len('replace (\n'):]
open('go.mod','w').write(src)
PY
cp "$REPO/go.sum" go.sum
