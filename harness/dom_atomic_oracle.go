package main

// C09 — the oracle's message entry points in the `atomic` domain: MsgCreatePrice and MsgUpdateParams,
// driven through the REAL msg server on a cache context of the deliver state that is written only
// when the handler returns nil (what baseapp's runMsgs gives one message of a tx). What a cache
// context cannot undo is the oracle's process memory (the aggregator context `agc`, the cache `cs`):
// the property demands that a message that reports failure leaves it "exactly as it was before the
// call", so the snapshot taken around every failing call is extended (flag xbMemAgc, set by this
// domain only) with
//   * the canonical dump of the aggregator context (hook VerifDumpAgc: params scalars + feeders,
//     validator powers, rounds, workers with filter / calculator / aggregator),
//   * the full dump of the params it holds (hook VerifDumpAgcParams: chains, tokens, sources, rules …),
//   * the pending cache (hook VerifDumpCache).
// The filter's per-validator NONCE sets are removed from the compared dump: they are the "sequence/
// nonce changes" the property exempts (an admitted-but-ignored submission consumes its nonce).
//
// Every rejection reason of CreatePrice (timestamp empty / malformed / > 5 s ahead, creator not
// bech32 / not a validator, no source, empty source, more than MaxDetID prices, deterministic source
// without det id, unknown feeder, wrong base block, source rule mismatch, decimal mismatch, repeated
// nonce, repeated det id, closed round) is delivered in a state in which the SAME message without the
// defect is counted: open round, validator with a free nonce, fresh det id (directed history: the
// corrected message is sent right after the rejected ones and must be accepted; random histories: the
// defect is applied to a message built for the round that is open at that height).
// UpdateParams: every rejection reason of the params update (AddSources, AddChains,
// UpdateMaxPriceCount, UpdateTokenFeeder, Validate of feeders / chains / tokens / rules / sources) with
// payloads that, before the refusing step is reached, have already changed fields of EXISTING tokens
// and feeders (asset id of a started token, end block of a running feeder): harmless as long as the
// handler works on its own copy decoded from the store, a trace in memory as soon as it does not.

import (
	"fmt"
	"sort"
	"strings"
	"time"

	sdk "github.com/cosmos/cosmos-sdk/types"

	oraclekeeper "github.com/ExocoreNetwork/exocore/x/oracle/keeper"
	oracletypes "github.com/ExocoreNetwork/exocore/x/oracle/types"
)

// xbMemAgc makes xbOracleMem include the aggregator context (set by the atomic domain only, so that
// the other users of xbSnapshot are unaffected).
var xbMemAgc bool

func atomMemParts() map[string]string {
	id := func(s string) string { return s }
	m := map[string]string{}
	d := reFilterN.ReplaceAllString(oraclekeeper.VerifDumpAgc(id), "S:")
	for _, part := range strings.Split(d, "|") {
		k := part
		if i := strings.IndexByte(part, ':'); i >= 0 {
			k = part[:i]
		}
		m["agc."+k] = part
	}
	m["agc.params"] = oraclekeeper.VerifDumpAgcParams()
	m["cs"] = oraclekeeper.VerifDumpCache(id)
	return m
}

// xbOracleMemAgc is called by xbOracleMem (xb_util.go).
func xbOracleMemAgc(m map[string]string) {
	if !xbMemAgc {
		return
	}
	defer func() { _ = recover() }()
	for k, v := range atomMemParts() {
		m[k] = v
	}
}

func init() {
	atomClass = append(atomClass, [][3]string{
		{"oracle.CreatePrice", "timestamp should not be empty", "checkTimestamp"},
		{"oracle.CreatePrice", "timestamp format invalid", "checkTimestamp"},
		{"oracle.CreatePrice", "timestamp is in the future", "checkTimestamp"},
		{"oracle.CreatePrice", "invalid address", "sanityCheck"},
		{"oracle.CreatePrice", "signer is not validator", "sanityCheck"},
		{"oracle.CreatePrice", "msg should provide at least one price", "sanityCheck"},
		{"oracle.CreatePrice", "source should be valid and provide at least one price", "sanityCheck"},
		{"oracle.CreatePrice", "ds should have roundid", "sanityCheck"},
		{"oracle.CreatePrice", "ns should not have roundid", "sanityCheck"},
		{"oracle.CreatePrice", "context not exist or not available", "round open"},
		{"oracle.CreatePrice", "baseblock not match", "basedBlock"},
		{"oracle.CreatePrice", "count prices should match rule", "CheckRules"},
		{"oracle.CreatePrice", "price source not match with rule", "CheckRules"},
		{"oracle.CreatePrice", "decimal not match", "CheckDecimal"},
		{"oracle.CreatePrice", "price aggregation for this round has sealed", "worker.sealed"},
		{"oracle.CreatePrice", "price proposal ignored", "filtrate"},
		{"oracle.UpdateParams", "invalid source to add", "AddSources"},
		{"oracle.UpdateParams", "invalid chain to add", "AddChains"},
		{"oracle.UpdateParams", "invalid maxPriceCount", "UpdateMaxPriceCount"},
		{"oracle.UpdateParams", "invalid tokenFeeder to update", "UpdateTokenFeeder"},
		{"oracle.UpdateParams", "invalid authority", "authority"},
		{"oracle.UpdateParams", "", "Validate"},
	}...)
	atomExtraDirected = append(atomExtraDirected, (*atomH).oracleDirected)
	atomExtraStep = append(atomExtraStep, (*atomH).oracleStep)
}

// oracleCall runs one oracle message like a tx message: cache context of the deliver state, written
// only on a nil error; a panic is what runTx recovers (nothing written). The process memory is what
// the snapshot in `report` compares.
func (h *atomH) oracleCall(entry, desc string, f func(ctx sdk.Context) error) string {
	before := xbSnapshot(h.c, h.c.Ctx, true)
	memBefore := atomMemParts()
	cctx, write := h.c.Ctx.CacheContext()
	var err error
	pan := ""
	func() {
		defer func() {
			if r := recover(); r != nil {
				pan = firstN(fmt.Sprint(r), 120)
			}
		}()
		err = f(cctx)
	}()
	if pan == "" && err == nil {
		write()
		h.env.Outcome(entry + ":ok")
		h.hist = append(h.hist, desc+" => ok")
		return "ok"
	}
	// which parts of the process memory changed (for the violation text; the verdict is report's)
	memAfter := atomMemParts()
	var ks []string
	for k := range memAfter {
		ks = append(ks, k)
	}
	sort.Strings(ks)
	for _, k := range ks {
		if memBefore[k] != memAfter[k] {
			desc += fmt.Sprintf(" {memory %s: %s -> %s}", k, firstN(memBefore[k], 260), firstN(memAfter[k], 260))
		}
	}
	if pan != "" {
		h.env.Outcome(entry + ":panic")
		h.report(entry, "panic", pan, before, desc, nil)
		return "panic"
	}
	h.env.Outcome(entry + ":rej")
	h.report(entry, "rej", err.Error(), before, desc, nil)
	return "rej"
}

// ---- MsgCreatePrice

type atomPriceMsg struct {
	creator string
	feeder  uint64
	based   uint64
	nonce   int32
	srcs    []*oracletypes.PriceSource
}

func (h *atomH) orcCreator(i int) string {
	return sdk.AccAddress(h.c.ConsPrivs[i].PubKey().Address()).String()
}

// orcOpenBase: the base block of the feeders' round whose window contains the current block (the
// harness chain: every feeder starts at base 1, interval 10, MaxNonce 3), by the harness's own
// arithmetic; 0 when no window is open.
func (h *atomH) orcOpenBase() uint64 {
	ht := uint64(h.c.Ctx.BlockHeight())
	if ht < 2 {
		return 0
	}
	prev := ht - 1
	left := (prev - 1) % 10
	if left >= 3 {
		return 0
	}
	return prev - left
}

func (h *atomH) orcValid(v int, feeder, based uint64, nonce int32, det string) atomPriceMsg {
	ts := h.c.Ctx.BlockTime().UTC().Format(orcLayout)
	dec := int32(0) // PriceDec of both harness assets
	return atomPriceMsg{creator: h.orcCreator(v), feeder: feeder, based: based, nonce: nonce,
		srcs: []*oracletypes.PriceSource{{SourceID: 1, Prices: []*oracletypes.PriceTimeDetID{{Price: "1", Decimal: dec, Timestamp: ts, DetID: det}}}}}
}

var atomPriceDefects = []string{"ts-future", "ts-far-future", "ts-empty", "ts-malformed", "ts-second-price-future", "creator-not-bech32", "creator-not-validator",
	"no-source", "empty-source", "too-many-prices", "ds-without-detid", "unknown-feeder", "wrong-base", "stale-base", "two-sources", "decimal", "source-id-out-of-range"}

func (h *atomH) orcDefect(m *atomPriceMsg, kind string) {
	now := h.c.Ctx.BlockTime().UTC()
	p0 := func() *oracletypes.PriceTimeDetID { return m.srcs[0].Prices[0] }
	switch kind {
	case "ts-future":
		p0().Timestamp = now.Add(6 * time.Second).Format(orcLayout)
	case "ts-far-future":
		p0().Timestamp = "2999-01-01 00:00:00"
	case "ts-empty":
		p0().Timestamp = ""
	case "ts-malformed":
		p0().Timestamp = "2024/01/01 00:00"
	case "ts-second-price-future": // the first price is fine, a later one of the same source is ahead
		q := *p0()
		q.DetID = p0().DetID + "b"
		q.Timestamp = now.Add(time.Hour).Format(orcLayout)
		m.srcs[0].Prices = append(m.srcs[0].Prices, &q)
	case "creator-not-bech32":
		m.creator = "exo1notbech32"
	case "creator-not-validator":
		m.creator = h.others[0].Acc.String()
	case "no-source":
		m.srcs = nil
	case "empty-source":
		m.srcs[0].Prices = nil
	case "too-many-prices":
		q := *p0()
		for j := 0; j < 5; j++ {
			qq := q
			qq.DetID = fmt.Sprintf("%s-%d", q.DetID, j)
			m.srcs[0].Prices = append(m.srcs[0].Prices, &qq)
		}
	case "ds-without-detid":
		p0().DetID = ""
	case "unknown-feeder":
		m.feeder = 7
	case "wrong-base":
		m.based++
	case "stale-base":
		if m.based > 10 {
			m.based -= 10
		} else {
			m.based = 0
		}
	case "two-sources":
		s2 := *m.srcs[0]
		m.srcs = append(m.srcs, &s2)
	case "decimal":
		p0().Decimal++
	case "source-id-out-of-range": // IsValidSource indexes the source list: panic, recovered by runTx
		m.srcs[0].SourceID = 9
	}
}

func (h *atomH) orcSend(m atomPriceMsg, what string) string {
	srv := oraclekeeper.NewMsgServerImpl(h.c.App.OracleKeeper)
	msg := &oracletypes.MsgCreatePrice{Creator: m.creator, FeederID: m.feeder, Prices: m.srcs, BasedBlock: m.based, Nonce: m.nonce}
	desc := fmt.Sprintf("msgserver oracle.CreatePrice [%s] height=%d %s", what, h.c.Ctx.BlockHeight(), strings.ReplaceAll(msg.String(), "\n", " "))
	return h.oracleCall("oracle.CreatePrice", desc, func(ctx sdk.Context) error {
		_, e := srv.CreatePrice(sdk.WrapSDKContext(ctx), msg)
		return e
	})
}

// ---- MsgUpdateParams (always built to be refused)

var atomParamDefects = []string{"maxsize-negative", "endblock-in-window", "second-feeder-endblock-zero", "feeder-endblock-past", "chain-without-name", "rule-empty",
	"token-without-name", "token-unknown-chain", "source-without-name", "feeder-unknown-token", "source-not-valid", "source-duplicate", "chain-duplicate", "feeder-no-field", "wrong-authority"}

// atomRejectedParams builds an update that touches EXISTING entries first (asset id of token 1 — a
// started token, so only the asset id may change —, end block of the running feeder of token `tok`)
// and is then refused for `kind`.
func (h *atomH) atomRejectedParams(kind string, tok uint64, salt int) oracletypes.Params {
	c := h.c
	cur := c.App.OracleKeeper.GetParams(c.Ctx)
	ht := uint64(c.Ctx.BlockHeight())
	var p oracletypes.Params
	t1 := cur.Tokens[1]
	p.Tokens = []*oracletypes.Token{{Name: t1.Name, ChainID: t1.ChainID, AssetID: fmt.Sprintf("0xphantom%d_0x65", salt)}}
	// a legal new end block of the running feeder: outside every price window, in the future
	f := cur.TokenFeeders[tok]
	okEnd := f.StartBaseBlock + ((ht-f.StartBaseBlock)/f.Interval+2)*f.Interval + 5
	winEnd := f.StartBaseBlock + ((ht-f.StartBaseBlock)/f.Interval+2)*f.Interval + 1
	feederOK := &oracletypes.TokenFeeder{TokenID: tok, EndBlock: okEnd}
	switch kind {
	case "maxsize-negative": // refused by UpdateMaxPriceCount, after UpdateTokens
		p.MaxSizePrices = -1
	case "endblock-in-window": // refused by Validate ("invalid EndBlock"), after UpdateTokenFeeder
		p.TokenFeeders = []*oracletypes.TokenFeeder{{TokenID: tok, EndBlock: winEnd}}
	case "second-feeder-endblock-zero": // first feeder updated, the second one refused by UpdateTokenFeeder
		other := uint64(3) - tok
		p.TokenFeeders = []*oracletypes.TokenFeeder{feederOK, {TokenID: other}}
	case "feeder-endblock-past":
		p.TokenFeeders = []*oracletypes.TokenFeeder{{TokenID: tok, EndBlock: ht}}
		p.Tokens = nil
	case "feeder-no-field":
		p.TokenFeeders = []*oracletypes.TokenFeeder{feederOK, {TokenID: 3 - tok, StartBaseBlock: 0, Interval: 0, EndBlock: 0}}
	case "chain-without-name": // Validate, after tokens and feeders
		p.Chains = []*oracletypes.Chain{{Name: "", Desc: "x"}}
		p.TokenFeeders = []*oracletypes.TokenFeeder{feederOK}
	case "rule-empty":
		p.Rules = []*oracletypes.RuleSource{{}}
		p.TokenFeeders = []*oracletypes.TokenFeeder{feederOK}
	case "token-without-name":
		p.Tokens = append(p.Tokens, &oracletypes.Token{Name: "", ChainID: 1})
		p.TokenFeeders = []*oracletypes.TokenFeeder{feederOK}
	case "token-unknown-chain":
		p.Tokens = append(p.Tokens, &oracletypes.Token{Name: fmt.Sprintf("NEW%d", salt), ChainID: 9})
	case "source-without-name":
		p.Sources = []*oracletypes.Source{{Name: "", Valid: true}}
		p.TokenFeeders = []*oracletypes.TokenFeeder{feederOK}
	case "feeder-unknown-token":
		p.TokenFeeders = []*oracletypes.TokenFeeder{feederOK, {TokenID: 9, RuleID: 1, StartRoundID: 1, StartBaseBlock: ht + 20, Interval: 10}}
	case "source-not-valid": // refused first thing: nothing has been touched yet on any implementation
		p.Sources = []*oracletypes.Source{{Name: fmt.Sprintf("SRC%d", salt), Valid: false}}
	case "source-duplicate":
		p.Sources = []*oracletypes.Source{{Name: cur.Sources[1].Name, Valid: true}}
	case "chain-duplicate":
		p.Chains = []*oracletypes.Chain{{Name: cur.Chains[1].Name}}
	}
	return p
}

func (h *atomH) orcUpdateParams(kind string, tok uint64, salt int) string {
	srv := oraclekeeper.NewMsgServerImpl(h.c.App.OracleKeeper)
	p := h.atomRejectedParams(kind, tok, salt)
	msg := &oracletypes.MsgUpdateParams{Authority: orcParamsAuthority(), Params: p}
	if kind == "wrong-authority" { // refused before anything is read
		msg.Authority = h.c.Funded.Acc.String()
	}
	desc := fmt.Sprintf("msgserver oracle.UpdateParams [%s] height=%d %s", kind, h.c.Ctx.BlockHeight(), firstN(msg.String(), 400))
	r := h.oracleCall("oracle.UpdateParams", desc, func(ctx sdk.Context) error {
		_, e := srv.UpdateParams(sdk.WrapSDKContext(ctx), msg)
		return e
	})
	if r == "ok" {
		h.env.Note("oracle.UpdateParams-built-to-be-refused-was-accepted:" + kind)
	}
	return r
}

// ---- directed history: every rejection reason while the corrected message is still acceptable
func (h *atomH) oracleDirected() {
	base := h.orcOpenBase()
	if base == 0 {
		h.env.Note("oracle-directed:no-open-round")
		return
	}
	// feeder 1, validator 0, nonce 1: each defect, then the corrected message (must be accepted: the
	// refused ones left neither their nonce nor their det id behind)
	for _, k := range atomPriceDefects {
		m := h.orcValid(0, 1, base, 1, "r1")
		h.orcDefect(&m, k)
		h.orcSend(m, k)
	}
	h.env.Outcome("oracle.CreatePrice:corrected-after-rejections:" + h.orcSend(h.orcValid(0, 1, base, 1, "r1"), "corrected, validator 0"))
	// repeated nonce (refused by the filter), fresh nonce with a det id already reported (ignored: only the nonce is consumed)
	h.orcSend(h.orcValid(0, 1, base, 1, "r2"), "repeated-nonce")
	h.orcSend(h.orcValid(0, 1, base, 2, "r1"), "repeated-detid")
	// the same defects against a worker that already holds validator 0's report; validator 1's corrected
	// message then completes the round (201 of 201 power)
	for _, k := range atomPriceDefects {
		m := h.orcValid(1, 1, base, 1, "r1")
		h.orcDefect(&m, k)
		h.orcSend(m, k+", worker filled")
	}
	// rejected parameter updates between the two reports
	for i, k := range atomParamDefects {
		h.orcUpdateParams(k, 1, i)
	}
	h.env.Outcome("oracle.CreatePrice:corrected-after-rejections:" + h.orcSend(h.orcValid(1, 1, base, 1, "r1"), "corrected, validator 1 (finalizes)"))
	h.orcSend(h.orcValid(1, 1, base, 2, "r3"), "round-closed")
	// feeder 2 in the next block of the same window: a subset, then the corrected messages
	h.block(2 * time.Second)
	for _, k := range []string{"ts-future", "ts-empty", "wrong-base", "decimal", "creator-not-validator"} {
		m := h.orcValid(1, 2, base, 1, "q1")
		h.orcDefect(&m, k)
		h.orcSend(m, k+", feeder 2")
	}
	for i, k := range atomParamDefects {
		h.orcUpdateParams(k, 2, 100+i)
	}
	h.env.Outcome("oracle.CreatePrice:corrected-after-rejections:" + h.orcSend(h.orcValid(1, 2, base, 1, "q1"), "corrected, feeder 2"))
}

// ---- random stream (own RNG: the stream of the other entry points is not perturbed)
func (h *atomH) oracleStep() {
	if h.orng == nil {
		h.orng = NewRNG(h.c.Cfg.Seed*31 + 5)
		h.oSent = map[string]int32{}
	}
	r := h.orng
	if !r.Chance(1, 5) {
		return
	}
	if r.Chance(1, 4) {
		h.orcUpdateParams(atomParamDefects[r.Intn(len(atomParamDefects))], uint64(1+r.Intn(2)), 1000+r.Intn(1000))
		return
	}
	base := h.orcOpenBase()
	feeder := uint64(1)
	if r.Chance(1, 4) {
		feeder = 2
	}
	v := r.Intn(len(h.c.ConsPrivs))
	b := base
	if b == 0 { // no window: every message is refused at the round check
		b = uint64(h.c.Ctx.BlockHeight())
	}
	key := fmt.Sprintf("%d/%d/%d", v, feeder, b)
	m := h.orcValid(v, feeder, b, h.oSent[key]+1, fmt.Sprintf("d%d", r.Intn(3)))
	what := "valid"
	if r.Chance(1, 2) {
		what = atomPriceDefects[r.Intn(len(atomPriceDefects))]
		h.orcDefect(&m, what)
	}
	if h.orcSend(m, what) == "ok" {
		h.oSent[key]++
	}
}
