package main

import (
	"bufio"
	"encoding/json"
	"fmt"
	"os"
	"path/filepath"
	"sort"
	"strconv"
	"strings"
)

// Env carries run parameters and collects the run's outputs:
//   <out>/ops.txt   one line per operation (input of the Lean driver)
//   <out>/obs.txt   the implementation's canonical observation for each op line
//   <out>/report.json  counts, distributions, monitor violations (read by ./check)
type Env struct {
	Args map[string]string
	Out  string
	ops  *bufio.Writer
	obs  *bufio.Writer
	fops *os.File
	fobs *os.File
	cur  []string // op lines since the last `.reset` op (replay of a crash, see crash.go)

	Report Report
}

type Violation struct {
	Monitor string   `json:"monitor"`
	What    string   `json:"what"`
	History []string `json:"history"`
	Sig     string   `json:"sig"` // signature used to match known findings
}

type Report struct {
	Domain       string         `json:"domain"`
	Seed         uint64         `json:"seed"`
	Histories    int            `json:"histories"`
	Ops          int            `json:"ops"`
	OpMix        map[string]int `json:"op_mix"`
	Outcomes     map[string]int `json:"outcomes"`
	Distinct     int            `json:"distinct_nontrivial"`
	MonitorEvals map[string]int `json:"monitor_evals"`
	Violations   []Violation    `json:"violations"`
	Samples      []string       `json:"samples"`
	Notes        map[string]int `json:"notes"`
	distinct     map[string]bool
}

func NewEnv(args []string) *Env {
	e := &Env{Args: map[string]string{}}
	for _, a := range args {
		if i := strings.IndexByte(a, '='); i > 0 {
			e.Args[a[:i]] = a[i+1:]
		}
	}
	e.Out = e.Str("out", "")
	if e.Out == "" {
		fmt.Fprintln(os.Stderr, "out=<dir> required")
		os.Exit(2)
	}
	if err := os.MkdirAll(e.Out, 0o755); err != nil {
		panic(err)
	}
	var err error
	if e.fops, err = os.Create(filepath.Join(e.Out, "ops.txt")); err != nil {
		panic(err)
	}
	if e.fobs, err = os.Create(filepath.Join(e.Out, "obs.txt")); err != nil {
		panic(err)
	}
	e.ops = bufio.NewWriterSize(e.fops, 1<<20)
	e.obs = bufio.NewWriterSize(e.fobs, 1<<20)
	e.Report = Report{OpMix: map[string]int{}, Outcomes: map[string]int{}, MonitorEvals: map[string]int{}, Notes: map[string]int{}, distinct: map[string]bool{}}
	e.Report.Seed = e.U64("seed", 1)
	return e
}

func (e *Env) Str(k, def string) string {
	if v, ok := e.Args[k]; ok {
		return v
	}
	return def
}

func (e *Env) Int(k string, def int) int {
	if v, ok := e.Args[k]; ok {
		n, err := strconv.Atoi(v)
		if err == nil {
			return n
		}
	}
	return def
}

func (e *Env) U64(k string, def uint64) uint64 {
	if v, ok := e.Args[k]; ok {
		n, err := strconv.ParseUint(v, 10, 64)
		if err == nil {
			return n
		}
	}
	return def
}

// Op records one operation line and the implementation's observation for it.
func (e *Env) Op(op string, obs string) {
	e.ops.WriteString(op)
	e.ops.WriteByte('\n')
	e.obs.WriteString(obs)
	e.obs.WriteByte('\n')
	e.Report.Ops++
	opSeq++
	if strings.HasSuffix(op, ".reset") || strings.Contains(op, ".reset ") {
		e.cur = e.cur[:0]
	}
	if len(e.cur) < 4000 {
		e.cur = append(e.cur, op)
	}
	name := op
	if i := strings.IndexByte(op, ' '); i > 0 {
		name = op[:i]
	}
	e.Report.OpMix[name]++
}

func (e *Env) Outcome(k string)  { e.Report.Outcomes[k]++ }
func (e *Env) Note(k string)     { e.Report.Notes[k]++ }
func (e *Env) Eval(mon string)   { e.Report.MonitorEvals[mon]++ }
func (e *Env) DistinctKey(k string) {
	if !e.Report.distinct[k] {
		e.Report.distinct[k] = true
		e.Report.Distinct++
	}
}

func (e *Env) Sample(s string) {
	if len(e.Report.Samples) < 6 {
		if len(s) > 1500 {
			s = s[:1500] + "…"
		}
		e.Report.Samples = append(e.Report.Samples, s)
	}
}

func (e *Env) Violate(mon, sig, what string, history []string) {
	if len(e.Report.Violations) >= 50 {
		return
	}
	h := append([]string{}, history...)
	e.Report.Violations = append(e.Report.Violations, Violation{Monitor: mon, What: what, History: h, Sig: sig})
}

func (e *Env) Finish() {
	e.ops.Flush()
	e.obs.Flush()
	e.fops.Close()
	e.fobs.Close()
	b, _ := json.MarshalIndent(e.Report, "", " ")
	os.WriteFile(filepath.Join(e.Out, "report.json"), b, 0o644)
}

func sortedKeys[V any](m map[string]V) []string {
	ks := make([]string, 0, len(m))
	for k := range m {
		ks = append(ks, k)
	}
	sort.Strings(ks)
	return ks
}
