package main

// C18 — the x/assets view of the genesis round trip: the four prefix stores of the module are read RAW (prefix iterator +
// codec, not through the getters the exporter uses) on the original chain before the export and on the re-imported chain
// right after InitChain. The entries are fed to the Lean model as `gen.a*` ops; `gen.assets` must print what the real
// chain shows: whether the module's own Validate accepted the export, and the re-imported stores entry by entry.

import (
	"encoding/hex"
	"fmt"
	"strings"

	"github.com/cosmos/cosmos-sdk/store/prefix"
	sdk "github.com/cosmos/cosmos-sdk/types"

	assetstypes "github.com/ExocoreNetwork/exocore/x/assets/types"
)

type assetsView struct {
	params string   // gateway topic
	chains []string // key lzID nameHex addrLen restDigest
	tokens []string // key lzID address decimals total restDigest
	deps   []string // key staker asset total withdrawable pending
	ops    []string // key operator asset total pending totalShare operatorShare
}

func hexOrDash(s string) string {
	if s == "" {
		return "-"
	}
	return hex.EncodeToString([]byte(s))
}

func viewAssets(c *Chain, ctx sdk.Context) (v assetsView) {
	cdc := c.App.AppCodec()
	st := ctx.KVStore(c.App.GetKey(assetstypes.StoreKey))
	if bz := prefix.NewStore(st, assetstypes.KeyPrefixParams).Get(assetstypes.ParamsKey); bz != nil {
		var p assetstypes.Params
		cdc.MustUnmarshal(bz, &p)
		v.params = p.ExocoreLzAppAddress + " " + p.ExocoreLzAppEventTopic
	} else {
		v.params = "- -"
	}
	iter := func(pfx []byte, f func(key string, val []byte)) {
		it := sdk.KVStorePrefixIterator(st, pfx)
		defer it.Close()
		for ; it.Valid(); it.Next() {
			f(string(it.Key()[len(pfx):]), it.Value())
		}
	}
	iter(assetstypes.KeyPrefixClientChainInfo, func(k string, bz []byte) {
		var i assetstypes.ClientChainInfo
		cdc.MustUnmarshal(bz, &i)
		rest := sha8([]byte(fmt.Sprintf("%s|%d|%d|%d|%s", i.MetaInfo, i.ChainId, i.ExocoreChainIndex, i.FinalizationBlocks, i.SignatureType)))
		v.chains = append(v.chains, fmt.Sprintf("%s %d %s %d %x", k, i.LayerZeroChainID, hexOrDash(i.Name), i.AddressLength, rest))
	})
	iter(assetstypes.KeyPrefixReStakingAssetInfo, func(k string, bz []byte) {
		var i assetstypes.StakingAssetInfo
		cdc.MustUnmarshal(bz, &i)
		b := i.AssetBasicInfo
		rest := sha8([]byte(fmt.Sprintf("%s|%s|%d|%s", b.Name, b.Symbol, b.ExocoreChainIndex, b.MetaInfo)))
		v.tokens = append(v.tokens, fmt.Sprintf("%s %d %s %d %s %x", k, b.LayerZeroChainID, b.Address, b.Decimals, i.StakingTotalAmount, rest))
	})
	two := func(k string) (string, string) {
		parts := strings.Split(k, "/")
		if len(parts) != 2 {
			return k, "?"
		}
		return parts[0], parts[1]
	}
	iter(assetstypes.KeyPrefixReStakerAssetInfos, func(k string, bz []byte) {
		var i assetstypes.StakerAssetInfo
		cdc.MustUnmarshal(bz, &i)
		a, b := two(k)
		v.deps = append(v.deps, fmt.Sprintf("%s %s %s %s %s %s", k, a, b, i.TotalDepositAmount, i.WithdrawableAmount, i.PendingUndelegationAmount))
	})
	iter(assetstypes.KeyPrefixOperatorAssetInfos, func(k string, bz []byte) {
		var i assetstypes.OperatorAssetInfo
		cdc.MustUnmarshal(bz, &i)
		a, b := two(k)
		v.ops = append(v.ops, fmt.Sprintf("%s %s %s %s %s %s %s", k, a, b, i.TotalAmount, i.PendingUndelegationAmount, i.TotalShare.BigInt(), i.OperatorShare.BigInt()))
	})
	return
}

func colon(lines []string, drop ...int) string {
	out := make([]string, len(lines))
	for i, l := range lines {
		f := strings.Fields(l)
		var keep []string
	fields:
		for j, x := range f {
			for _, d := range drop {
				if d == j {
					continue fields
				}
			}
			keep = append(keep, x)
		}
		out[i] = strings.Join(keep, ":")
	}
	return strings.Join(out, ",")
}

// obs renders the stores as the Lean driver prints them (the two id parts of a joined key are implied by the key)
func (v assetsView) obs() string {
	return fmt.Sprintf("params=%s chains=[%s] tokens=[%s] dep=[%s] ops=[%s]", strings.ReplaceAll(v.params, " ", ":"),
		colon(v.chains), colon(v.tokens), colon(v.deps, 1, 2), colon(v.ops, 1, 2))
}

func (w *genWorld) emitAssets(v assetsView) {
	w.op("gen.ap "+v.params, "ok")
	for _, l := range v.chains {
		w.op("gen.ac "+l, "ok")
	}
	for _, l := range v.tokens {
		w.op("gen.at "+l, "ok")
	}
	for _, l := range v.deps {
		w.op("gen.ad "+l, "ok")
	}
	for _, l := range v.ops {
		w.op("gen.ao "+l, "ok")
	}
}
