package main

// C09 — the gateway relays SEVERAL LayerZero messages in ONE Ethereum transaction, and nonces are not always fresh.
//
// On the real chain the caller of the assets / delegation precompiles is the gateway contract. One Ethereum transaction of
// it may carry more than one message (a batch, a retry of a message that was already delivered, a replayed nonce), so the
// precompile is entered several times with the same transaction hash in the context (x/evm: ApplyMessageWithConfig puts
// txConfig.TxHash under delegation.CtxKeyTxHash), in the same block, and with LayerZero nonces that the delegation module
// has seen before. The (block, nonce, tx hash, operator) tuple is the key of an undelegation record, so this is exactly the
// part of the input space in which the steps of UndelegateFrom that stand AFTER RemoveShare's writes (SetUndelegationRecords,
// the hold-count hook) meet state they have written themselves. The rest of the atomic domain gives every call a tx hash
// and a nonce of its own and therefore never gets there.
//
//   * gwBatchStep (random histories, own RNG stream so that the other streams are unchanged): with probability 1/8 after a
//     step, one Ethereum transaction of 2..4 gateway messages (undelegate 3/4, delegate 1/4) over the accepted delegations
//     of the history; nonce of each message: fresh / the previous message's nonce again / a nonce of an earlier accepted
//     undelegation; same or another staker, same or another operator; amounts 1, small, the whole delegation, one more.
//     With probability 1/8 the batch is instead ONE MsgUndelegation naming an operator twice (msgUndelegateTwice): the same
//     key through the cosmos message, where the msg server's cache context and baseapp make any refusal clean.
//   * gwBatchDirected (one further directed history on a fresh chain): every collision shape once, each followed by the
//     blocks that complete the records.
// The snapshot monitor of dom_atomic.go (C09.fail-leaves-no-trace) is evaluated around every message of a batch.

import (
	"fmt"
	"math/big"
	"time"

	sdkmath "cosmossdk.io/math"
	sdk "github.com/cosmos/cosmos-sdk/types"

	assetstypes "github.com/ExocoreNetwork/exocore/x/assets/types"
	delegationtypes "github.com/ExocoreNetwork/exocore/x/delegation/types"
)

func init() {
	atomExtraDirected = append(atomExtraDirected, (*atomH).gwBatchDirected)
	atomExtraStep = append(atomExtraStep, (*atomH).gwBatchStep)
}

// gwMsg = one relayed message. first = it opens a new Ethereum transaction.
func (h *atomH) gwMsg(first bool, kind string, nonce uint64, st Actor, assetKind int, op sdk.AccAddress, amt *big.Int) string {
	c := h.c
	h.sameTx = !first
	entry, method := "delegation.undelegate", "undelegate"
	if kind == "delegate" {
		entry, method = "delegation.delegate", "delegate"
	}
	cls := h.evm(entry, c.Funded.Eth, xbDelegAddr, h.abis.deleg, method, uint32(c.LzID), nonce, h.assetBytes(assetKind), pad32(st.Eth.Bytes()), []byte(op.String()), amt)
	if cls == "ok" && kind == "undelegate" {
		h.nonces = append(h.nonces, nonce)
	}
	h.env.Outcome("gwbatch." + kind + ":" + cls)
	return cls
}

func (h *atomH) opAcc(kind int) sdk.AccAddress {
	if kind == 2 {
		return h.opX().Acc
	}
	return h.c.Operators[kind%len(h.c.Operators)].Acc
}

func (h *atomH) gwBatchStep() {
	if h.brng == nil {
		h.brng = NewRNG(h.c.Cfg.Seed*131 + 71)
	}
	r := h.brng
	if !r.Chance(1, 8) {
		return
	}
	if r.Chance(1, 8) {
		h.msgUndelegateTwice(r)
		return
	}
	n := 2 + r.Intn(3)
	var prevNonce uint64
	var prev [3]int
	havePrev := false
	shape := ""
	for i := 0; i < n; i++ {
		// target: an accepted delegation of the history (mostly the previous message's again), else any pair
		d := [3]int{r.Intn(len(h.stakers)), 0, r.Intn(2)}
		if len(h.dels) > 0 && r.Chance(5, 6) {
			d = h.dels[r.Intn(len(h.dels))]
		}
		if havePrev {
			switch r.Pick(5, 2, 2) {
			case 0:
				d = prev
			case 1: // another staker, same operator and asset
				d = [3]int{r.Intn(len(h.stakers)), prev[1], prev[2]}
			}
		}
		var nonce uint64
		switch pick := r.Pick(3, 4, 2); {
		case pick == 1 && havePrev:
			nonce = prevNonce
			shape += "r"
		case pick == 2 && len(h.nonces) > 0:
			nonce = h.nonces[r.Intn(len(h.nonces))]
			shape += "o"
		default:
			h.lzNonce++
			nonce = h.lzNonce
			shape += "f"
		}
		kind := "undelegate"
		if r.Chance(1, 4) {
			kind = "delegate"
		}
		var amt *big.Int
		switch r.Pick(3, 4, 1, 1) {
		case 0:
			amt = big.NewInt(1)
		case 1:
			amt = big.NewInt(int64(1 + r.Intn(2_000_000)))
		case 2:
			amt = big.NewInt(int64(20+r.Intn(200)) * 1_000_000) // usually more than is delegated: refused by ValidateUndelegationAmount
		default:
			amt = h.amount(6)
		}
		if d[1] == 1 {
			amt = new(big.Int).Mul(amt, big.NewInt(1_000_000_000_000))
		}
		h.gwMsg(i == 0, kind, nonce, h.stakers[d[0]], d[1], h.opAcc(d[2]), amt)
		prev, prevNonce, havePrev = d, nonce, true
	}
	h.env.DistinctKey("gwbatch|" + shape)
	if r.Chance(1, 6) {
		h.block(time.Duration(1+r.Intn(3)) * time.Second)
	}
}

// msgUndelegateTwice: the cosmos-message path to the same record key — one MsgUndelegation whose PerOperatorAmounts names an
// operator twice (one tx hash, one nonce = the signer's sequence, one block). The msg server runs the loop in a cache context
// and baseapp drops a failed message, so whatever the second entry does, a rejection has to be clean.
func (h *atomH) msgUndelegateTwice(r *RNG) {
	c := h.c
	s := h.others[r.Intn(len(h.others))]
	op := c.Operators[r.Intn(len(c.Operators))].Acc.String()
	op2 := op
	if r.Chance(1, 4) {
		op2 = c.Operators[r.Intn(len(c.Operators))].Acc.String()
	}
	amt := func() sdkmath.Int {
		if r.Chance(1, 3) {
			return sdkmath.NewInt(int64(1 + r.Intn(1000)))
		}
		return sdkmath.NewIntFromBigInt(h.amount(18))
	}
	m := &delegationtypes.MsgUndelegation{AssetID: assetstypes.ExocoreAssetID, BaseInfo: &delegationtypes.DelegationIncOrDecInfo{FromAddress: s.Acc.String(),
		PerOperatorAmounts: []delegationtypes.KeyValue{{Key: op, Value: &delegationtypes.ValueField{Amount: amt()}}, {Key: op2, Value: &delegationtypes.ValueField{Amount: amt()}}}}}
	h.env.Outcome("gwbatch.msgUndelegateTwice:" + h.msg("msg.undelegate", s, m))
}

// gwBatchDirected: every way two messages of one gateway transaction can meet on a record key.
func (h *atomH) gwBatchDirected() {
	c := h.c
	gw := c.Funded.Eth
	s0, s1 := h.stakers[0], h.stakers[1]
	op0, op1 := c.Operators[0].Acc, c.Operators[1].Acc
	u := func(n int64) *big.Int { return big.NewInt(n * 1_000_000) }
	h.hist = append(h.hist, "scenario gateway-batch: several relayed messages per Ethereum transaction, repeated LayerZero nonces")
	for _, s := range []Actor{s0, s1} {
		h.evm("assets.depositLST", gw, xbAssetsAddr, h.abis.assets, "depositLST", uint32(c.LzID), h.assetBytes(0), pad32(s.Eth.Bytes()), u(60))
	}
	// tx A: three delegations in one transaction, the second with the first one's nonce again
	h.gwMsg(true, "delegate", 1, s0, 0, op0, u(20))
	h.gwMsg(false, "delegate", 1, s0, 0, op1, u(10))
	h.gwMsg(false, "delegate", 2, s1, 0, op0, u(15))
	expect := func(what, got string, want ...string) {
		for _, w := range want {
			if got == w {
				h.env.DistinctKey("gwbatch-directed|" + what + "|" + got)
				return
			}
		}
		h.env.Note("gwbatch-directed-unexpected:" + what + ":" + got)
	}
	// tx B: the same message twice (same staker, operator, nonce, amount): the second meets the first one's record key
	expect("B1", h.gwMsg(true, "undelegate", 7, s0, 0, op0, big.NewInt(10)), "ok")
	expect("B2-same-message-again", h.gwMsg(false, "undelegate", 7, s0, 0, op0, big.NewInt(10)), "ok", "false")
	// tx C: same nonce and operator, another staker (the record key does not contain the staker)
	expect("C1", h.gwMsg(true, "undelegate", 8, s0, 0, op0, big.NewInt(5)), "ok")
	expect("C2-other-staker", h.gwMsg(false, "undelegate", 8, s1, 0, op0, big.NewInt(5)), "ok", "false")
	// tx D: same nonce, another operator (a different record key; the staker index key is the same)
	expect("D1", h.gwMsg(true, "undelegate", 9, s0, 0, op0, big.NewInt(5)), "ok")
	expect("D2-other-operator", h.gwMsg(false, "undelegate", 9, s0, 0, op1, big.NewInt(5)), "ok", "false")
	// tx E: a refused message (more than is delegated), then the same nonce accepted, then refused again
	expect("E1-too-much", h.gwMsg(true, "undelegate", 10, s0, 0, op0, u(1000)), "false")
	expect("E2", h.gwMsg(false, "undelegate", 10, s0, 0, op0, big.NewInt(3)), "ok")
	expect("E3-too-much", h.gwMsg(false, "undelegate", 10, s0, 0, op0, u(1000)), "false")
	// tx F / tx G: a nonce of tx B replayed in a LATER transaction of the same block (other tx hash: another record key)
	expect("F-replayed-nonce-new-tx", h.gwMsg(true, "undelegate", 7, s0, 0, op0, big.NewInt(10)), "ok", "false")
	// tx H: the whole remaining delegation of s1 with a repeated nonce (shareIsZero: the staker leaves the operator's list),
	// then once more (nothing left: refused before any write)
	expect("H1", h.gwMsg(true, "undelegate", 11, s1, 0, op0, big.NewInt(7)), "ok")
	expect("H2-whole-rest", h.gwMsg(false, "undelegate", 11, s1, 0, op0, big.NewInt(15_000_000-5-7)), "ok", "false")
	expect("H3-nothing-left", h.gwMsg(false, "undelegate", 11, s1, 0, op0, big.NewInt(1)), "false")
	h.block(time.Second)
	// next block: the nonces of the previous block again (another height: other record keys), twice in one transaction
	expect("I1-old-nonce-next-block", h.gwMsg(true, "undelegate", 7, s0, 0, op0, big.NewInt(10)), "ok", "false")
	expect("I2", h.gwMsg(false, "undelegate", 7, s0, 0, op0, big.NewInt(10)), "ok", "false")
	// let every record of the scenario reach its completion height (EndBlock works through overwritten / surviving records)
	for i := 0; i < 14 && h.c.Halted == ""; i++ {
		h.block(time.Second)
	}
	h.hist = append(h.hist, fmt.Sprintf("scenario gateway-batch done at height %d", c.Ctx.BlockHeight()))
}
