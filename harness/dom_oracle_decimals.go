package main

// directedDecimals (C13 "counted only if … its … decimals match the feeder's … token"): the decimals clause on
// params in which FEEDER ids and TOKEN ids do not coincide — the look-up is feeder -> its TokenID -> that
// token's Decimal, one step, and a feeder id is not a token id.
//
//	A  genesis layout, a cycle:  tokens 1/2/3 with 0/8/18 decimals, feeder 1 -> token 2, feeder 2 -> token 3,
//	   feeder 3 -> token 1; rule [1,2] (a deterministic and a non-deterministic source, so a submission has
//	   several prices in several sources).
//	B  a layout that GREW that way through accepted MsgUpdateParams (real msg server): token 1 (0 decimals)
//	   with feeder 1, stopped at block 14; block 15: feeder 2 resumes token 1; block 16: token 2 (6 decimals)
//	   with feeder 3; block 17: token 3 (18 decimals) with feeder 4.
//
// In the first block of every round of every feeder all validators send, one variant after the other,
//
//	all-prices-<d>   every price scaled with the decimals d of ANOTHER configured token (one variant per
//	                 distinct other value; own+1 when there is none)
//	last-price-<d>   only the last price of the last source carries d (each price is judged on its own)
//	own              the decimals of the feeder's own token
//
// (the last MaxNonce variants when there are more: the quota is spent exactly). All validators agree within a
// variant, so a wrong variant that were counted would also complete the round and record a price in the wrong
// unit. Monitors (dom_oracle_c13.go: send): counted-bad-decimal, final-price-wrong-decimals, not-counted-but-
// changed / not-counted-nonce for the refused ones, the admission clauses for all of them; the Lean model
// replays every line.

import (
	"fmt"
	"time"
)

func (a *admDriver) decimalsMsg(v, fi int, base uint64, nonce int32, dec int32) orcMsg {
	s := a.spec
	f := s.Feeders[fi]
	h := uint64(a.c.Header.Height)
	rule := s.Rules[f.Rule-1]
	var want []uint64
	if len(rule) > 0 && rule[0] == 0 {
		for i, sc := range s.Sources {
			if sc[0] {
				want = append(want, uint64(i+1))
			}
		}
		if len(want) > 1 { // CheckRules wants len(rule) sources and looks for the last valid one
			want = want[len(want)-1:]
		}
	} else {
		want = rule
	}
	m := orcMsg{Creator: v, Feeder: uint64(fi + 1), Based: base, Nonce: nonce}
	for _, sid := range want {
		p := orcPrice{Price: "2", Dec: dec, Ts: a.c.Header.Time.Unix()}
		if s.Sources[sid-1][1] {
			p.DetID = fmt.Sprint(9 + h)
		}
		m.Srcs = append(m.Srcs, orcSource{ID: sid, Prices: []orcPrice{p}})
	}
	return m
}

// decimalsBlock sends the variants for every feeder whose round opened at the end of the previous block.
func (a *admDriver) decimalsBlock(tag string) {
	s := a.spec
	h := uint64(a.c.Header.Height)
	open := map[int]uint64{}
	for fi := range s.Feeders {
		if b := s.openBase(fi, h); b > 0 {
			open[fi] = b
			a.roundLog(fi, b)
		}
	}
	for fi := range s.Feeders {
		base, isOpen := open[fi]
		if !isOpen || h != base+1 {
			continue
		}
		f := s.Feeders[fi]
		own := s.TokenDec[f.Token-1]
		var others []int32
		seen := map[int32]bool{own: true}
		for _, d := range s.TokenDec {
			if !seen[d] {
				seen[d] = true
				others = append(others, d)
			}
		}
		if len(others) == 0 {
			others = []int32{own + 1}
		}
		type variant struct {
			kind     string
			dec      int32
			lastOnly bool
		}
		var vs []variant
		for _, d := range others {
			vs = append(vs, variant{"all-prices-other", d, false})
		}
		vs = append(vs, variant{"last-price-other", others[0], true}, variant{"own", own, false})
		if len(vs) > int(s.MaxNonce) {
			vs = vs[len(vs)-int(s.MaxNonce):]
		}
		for _, va := range vs {
			for v := range s.Powers {
				n, has := a.nonceOf(v, uint64(fi+1))
				if !has {
					continue
				}
				m := a.decimalsMsg(v, fi, base, n+1, own)
				if va.lastOnly {
					last := &m.Srcs[len(m.Srcs)-1]
					last.Prices[len(last.Prices)-1].Dec = va.dec
				} else {
					m.setDecimals(va.dec)
				}
				cls := a.send(orcTx{Msgs: []orcMsg{m}}, open, "")
				a.env.Outcome(fmt.Sprintf("decimals%s:feeder%d->token%d(%d):%s(%d)=%s", tag, fi+1, f.Token, own, va.kind, va.dec, cls))
			}
		}
	}
}

func (a *admDriver) decimalsEndBlock() bool {
	if _, halted := a.endBlock(); halted {
		a.env.Violate("C13.halt", "halt", "EndBlock panicked: "+a.halted, a.hist)
		return false
	}
	a.afterEndBlock()
	a.idsMonitor(uint64(a.c.Header.Height), nil)
	if !a.commitBegin(2 * time.Second) {
		a.env.Violate("C13.halt", "halt", "Commit/BeginBlock panicked: "+a.halted, a.hist)
		return false
	}
	return true
}

func directedDecimals(env *Env) {
	// ---- A: genesis layout, feeder ids a cyclic shift of the token ids
	specA := orcSpec{Powers: []int64{10, 10, 10}, MaxNonce: 4, ThA: 2, ThB: 3, MaxDetID: 5, MaxSize: 100,
		Sources:  [][2]bool{{true, true}, {true, false}},
		Rules:    [][]uint64{{0}, {1, 2}},
		TokenDec: []int32{0, 8, 18},
		Feeders: []orcFeeder{
			{Token: 2, Rule: 2, StartRound: 2, StartBase: 2, Interval: 9},
			{Token: 3, Rule: 2, StartRound: 2, StartBase: 3, Interval: 10},
			{Token: 1, Rule: 2, StartRound: 2, StartBase: 4, Interval: 11}},
		GenNext: []uint64{2, 2, 2}, GenPrice: []string{"1", "1", "1"}}
	{
		o := newOrc(env, 131388, specA, nil)
		o.emitSetup()
		a := &admDriver{orcDriver: newOrcDriver(o, NewRNG(1388)), quota: map[string]int{}}
		a.wMon = "C13.counted"
		for b := 0; b < 28; b++ {
			a.decimalsBlock(":A")
			if !a.decimalsEndBlock() {
				return
			}
		}
		env.Outcome(fmt.Sprintf("directed-decimals:A:finals=%d", a.finals))
		env.Report.Histories++
	}
	// ---- B: the same drift produced by accepted parameter updates
	specB := orcSpec{Powers: []int64{10, 10, 10}, MaxNonce: 4, ThA: 2, ThB: 3, MaxDetID: 5, MaxSize: 100,
		Sources: [][2]bool{{true, true}}, Rules: [][]uint64{{0}, {1}}, TokenDec: []int32{0},
		Feeders: []orcFeeder{{Token: 1, Rule: 2, StartRound: 2, StartBase: 1, Interval: 8, End: 14}}, GenNext: []uint64{2}, GenPrice: []string{"1"}}
	o := newOrc(env, 131389, specB, nil)
	o.emitSetup()
	a := &admDriver{orcDriver: newOrcDriver(o, NewRNG(1389)), quota: map[string]int{}}
	a.wMon = "C13.counted"
	addToken := func(dec int32, f orcFeeder) orcUpd {
		u := orcUpd{kind: "token+feeder"}
		u.setToken(0, tokName(int(f.Token)), dec)
		u.addFeeder(f)
		u.apply = func(s *orcSpec) {
			s.TokenDec = append(s.TokenDec, dec)
			s.GenNext = append(s.GenNext, 0)
			s.GenPrice = append(s.GenPrice, "")
			s.Feeders = append(s.Feeders, f)
		}
		return u
	}
	for b := 0; b < 44; b++ {
		switch uint64(o.c.Header.Height) {
		case 15: // feeder 1 covered the rounds 2 (base 1) and 3 (base 9) and stopped at 14: feeder 2 resumes token 1 with round 4
			nf := orcFeeder{Token: 1, Rule: 2, StartRound: 4, StartBase: 17, Interval: 8}
			u := orcUpd{kind: "feeder-resume"}
			u.addFeeder(nf)
			u.apply = func(s *orcSpec) { s.Feeders = append(s.Feeders, nf) }
			env.Outcome("directed-decimals:B:resume=" + a.updParams(u))
		case 16:
			env.Outcome("directed-decimals:B:token2=" + a.updParams(addToken(6, orcFeeder{Token: 2, Rule: 2, StartRound: 1, StartBase: 18, Interval: 9})))
		case 17:
			env.Outcome("directed-decimals:B:token3=" + a.updParams(addToken(18, orcFeeder{Token: 3, Rule: 2, StartRound: 1, StartBase: 19, Interval: 10})))
		}
		a.decimalsBlock(":B")
		if !a.decimalsEndBlock() {
			return
		}
	}
	env.Outcome(fmt.Sprintf("directed-decimals:B:finals=%d,feeders=%d,drifted=%v", a.finals, len(a.spec.Feeders), a.spec.driftedDecimals()))
	env.Report.Histories++
}
