package main

// Reference execution for C19 — an EVM world that shares NOTHING with x/evm/keeper.
//
// C19 speaks about "gas used", about executions that "revert or fail" and about contract storage. The
// pre-execution of dom_evmfee.go learns these from keeper.ApplyMessage, i.e. from the code under test: a
// change of x/evm/keeper/statedb.go (storage reads/writes, code, accounts), gas.go (refund cap) or
// state_transition.go (what is executed at all) shifts the "expected" figures together with the observed
// ones. Here the same message is executed by go-ethereum's own interpreter on go-ethereum's own in-memory
// core/state.StateDB, whose contract code and storage persist across the transactions of a history and are
// never read from the chain. Balances and nonces of the tracked accounts are copied from the chain before
// every transaction (they are the subject of the balance/nonce monitors, not of this one).
//
// The transition around evm.Call / evm.Create is the go-ethereum state transition (core/state_transition.go:
// intrinsic gas, access-list preparation, EIP-3529 refund cap) written out against this StateDB; it does not
// call into x/evm/keeper.

import (
	"bytes"
	"fmt"
	"math/big"
	"sort"
	"time"

	"github.com/cosmos/cosmos-sdk/store/prefix"
	"github.com/ethereum/go-ethereum/common"
	"github.com/ethereum/go-ethereum/core"
	"github.com/ethereum/go-ethereum/core/rawdb"
	"github.com/ethereum/go-ethereum/core/state"
	ethtypes "github.com/ethereum/go-ethereum/core/types"
	"github.com/ethereum/go-ethereum/core/vm"
	"github.com/ethereum/go-ethereum/crypto"
	ethparams "github.com/ethereum/go-ethereum/params"
	evmostypes "github.com/evmos/evmos/v16/types"
	evmtypes "github.com/evmos/evmos/v16/x/evm/types"
)

type refEVM struct {
	db     *state.StateDB
	slots  map[common.Address]map[common.Hash]struct{} // every slot an SSTORE of the reference ever addressed
	backup *state.StateDB                              // the world before the cosmos tx in flight
}

func newRefEVM() (*refEVM, error) {
	db, err := state.New(common.Hash{}, state.NewDatabase(rawdb.NewMemoryDatabase()), nil)
	if err != nil {
		return nil, err
	}
	return &refEVM{db: db, slots: map[common.Address]map[common.Hash]struct{}{}}, nil
}

// refTracer records the storage slots written (go-ethereum offers no storage iteration without a trie commit).
type refTracer struct {
	vm.EVMLogger
	r *refEVM
}

type nopLogger struct{}

func (nopLogger) CaptureTxStart(uint64) {}
func (nopLogger) CaptureTxEnd(uint64)   {}
func (nopLogger) CaptureStart(*vm.EVM, common.Address, common.Address, bool, []byte, uint64, *big.Int) {
}
func (nopLogger) CaptureEnd([]byte, uint64, time.Duration, error) {}
func (nopLogger) CaptureEnter(vm.OpCode, common.Address, common.Address, []byte, uint64, *big.Int) {
}
func (nopLogger) CaptureExit([]byte, uint64, error) {}
func (nopLogger) CaptureState(uint64, vm.OpCode, uint64, uint64, *vm.ScopeContext, []byte, int, error) {
}
func (nopLogger) CaptureFault(uint64, vm.OpCode, uint64, uint64, *vm.ScopeContext, int, error) {}

func (t refTracer) CaptureState(_ uint64, op vm.OpCode, _, _ uint64, scope *vm.ScopeContext, _ []byte, _ int, _ error) {
	if op == vm.SSTORE && scope != nil && scope.Stack != nil && len(scope.Stack.Data) >= 2 {
		a := scope.Contract.Address()
		k := common.Hash(scope.Stack.Back(0).Bytes32())
		m := t.r.slots[a]
		if m == nil {
			m = map[common.Hash]struct{}{}
			t.r.slots[a] = m
		}
		m[k] = struct{}{}
	}
}

// setAccount copies balance and nonce of one account from the chain (no empty account is created).
func (r *refEVM) setAccount(a common.Address, bal *big.Int, nonce uint64) {
	if !r.db.Exist(a) && bal.Sign() == 0 && nonce == 0 {
		return
	}
	r.db.SetBalance(a, new(big.Int).Set(bal))
	r.db.SetNonce(a, nonce)
}

type refResult struct {
	applyErr bool   // gas limit below the intrinsic gas: the message is not executed
	gas      uint64 // gas consumed after the (capped) refund counter, before any minimum-gas floor
	failed   bool
	vmErr    string
}

// begin opens one cosmos tx: the caller has already copied the chain's balances and nonces (senders: after
// fee escrow and nonce increment of every message). The writes of exec stay revocable until settle().
func (r *refEVM) begin() {
	if r.backup != nil { // a tx that was never settled: dropped
		r.db = r.backup
	}
	r.db.Finalise(true)
	r.backup = r.db.Copy()
}

// exec executes one message on the reference world (what an earlier message of the same tx wrote counts as
// committed, as for two Ethereum transactions).
func (r *refEVM) exec(c *Chain, from common.Address, s EthTxSpec, baseFee *big.Int) (res refResult, err error) {
	defer func() {
		if p := recover(); p != nil {
			err = fmt.Errorf("reference panic: %v", p)
		}
	}()
	r.db.Finalise(true)
	ctx := c.Ctx
	p := c.App.EvmKeeper.GetParams(ctx)
	chainCfg := p.ChainConfig.EthereumConfig(c.App.EvmKeeper.ChainID())
	height := big.NewInt(ctx.BlockHeight())
	rules := chainCfg.Rules(height, chainCfg.MergeNetsplitBlock != nil)
	isCreate := s.To == nil
	intr, ierr := core.IntrinsicGas(s.Data, s.Access, isCreate, rules.IsHomestead, rules.IsIstanbul)
	if ierr != nil {
		return res, ierr
	}
	if s.GasLimit < intr {
		res.applyErr = true
		return res, nil
	}
	tip := s.TipCap
	if tip == nil || s.Type != 2 {
		tip = s.FeeCap
	}
	price := new(big.Int).Add(tip, baseFee)
	if price.Cmp(s.FeeCap) > 0 {
		price = new(big.Int).Set(s.FeeCap)
	}
	msg := ethtypes.NewMessage(from, s.To, s.Nonce, s.Value, s.GasLimit, price, s.FeeCap, tip, s.Data, s.Access, false)
	blockCtx := vm.BlockContext{
		CanTransfer: core.CanTransfer,
		Transfer:    core.Transfer,
		GetHash:     func(uint64) common.Hash { return common.Hash{} },
		Coinbase:    common.Address{},
		GasLimit:    evmostypes.BlockGasLimit(ctx),
		BlockNumber: height,
		Time:        big.NewInt(ctx.BlockHeader().Time.Unix()),
		Difficulty:  big.NewInt(0),
		BaseFee:     baseFee,
	}
	cfg := vm.Config{Debug: true, Tracer: refTracer{EVMLogger: nopLogger{}, r: r},
		NoBaseFee: c.App.FeeMarketKeeper.GetParams(ctx).NoBaseFee, ExtraEips: p.EIPs()}
	evm := vm.NewEVM(blockCtx, core.NewEVMTxContext(msg), r.db, chainCfg, cfg)
	if rules.IsBerlin {
		pre := append(append([]common.Address{}, vm.PrecompiledAddressesBerlin...), p.GetActivePrecompilesAddrs()...)
		r.db.PrepareAccessList(from, s.To, pre, s.Access)
	}
	left := s.GasLimit - intr
	sender := vm.AccountRef(from)
	var vmErr error
	if isCreate {
		// the created address derives from the tx nonce; afterwards the sender's nonce is never below what it was
		// (the ante handler has counted every message of the cosmos tx) and at least tx nonce + 1
		before := r.db.GetNonce(from)
		r.db.SetNonce(from, s.Nonce)
		_, _, left, vmErr = evm.Create(sender, s.Data, left, s.Value)
		if before < s.Nonce+1 {
			before = s.Nonce + 1
		}
		r.db.SetNonce(from, before)
	} else {
		_, left, vmErr = evm.Call(sender, *s.To, s.Data, left, s.Value)
	}
	used := s.GasLimit - left
	q := ethparams.RefundQuotient
	if rules.IsLondon {
		q = ethparams.RefundQuotientEIP3529
	}
	refund := used / q
	if refund > r.db.GetRefund() {
		refund = r.db.GetRefund()
	}
	res.gas = used - refund
	if vmErr != nil {
		res.failed = true
		res.vmErr = vmErr.Error()
	}
	return res, nil
}

// settle keeps (executed on the chain) or drops (rejected / message cache dropped) the pending writes.
func (r *refEVM) settle(keep bool) {
	if r.backup == nil {
		return
	}
	if !keep {
		r.db = r.backup
	}
	r.db.Finalise(true)
	r.backup = nil
}

// chainContract reads code and storage of one address from the raw evm store of the deliver state, without
// going through the keeper's GetState / GetCode.
func chainContract(c *Chain, a common.Address) (code []byte, storage map[common.Hash]common.Hash) {
	storage = map[common.Hash]common.Hash{}
	key := c.App.GetKey(evmtypes.StoreKey)
	st := c.Ctx.KVStore(key)
	if acc := c.App.AccountKeeper.GetAccount(c.Ctx, a.Bytes()); acc != nil {
		if ea, ok := acc.(evmostypes.EthAccountI); ok {
			h := ea.GetCodeHash()
			if h != common.BytesToHash(crypto.Keccak256(nil)) {
				code = prefix.NewStore(st, evmtypes.KeyPrefixCode).Get(h.Bytes())
			}
		}
	}
	ps := prefix.NewStore(st, evmtypes.AddressStoragePrefix(a))
	it := ps.Iterator(nil, nil)
	defer it.Close()
	for ; it.Valid(); it.Next() {
		v := common.BytesToHash(it.Value())
		if v != (common.Hash{}) {
			storage[common.BytesToHash(it.Key())] = v
		}
	}
	return
}

// diffContract lists how code / storage of one address differ between the chain and the reference.
func (r *refEVM) diffContract(c *Chain, a common.Address) []string {
	var out []string
	code, stor := chainContract(c, a)
	if rc := r.db.GetCode(a); !bytes.Equal(rc, code) {
		out = append(out, fmt.Sprintf("code of %s: chain %d bytes, reference %d bytes", a.Hex(), len(code), len(rc)))
	}
	keys := map[common.Hash]struct{}{}
	for k := range stor {
		keys[k] = struct{}{}
	}
	for k := range r.slots[a] {
		keys[k] = struct{}{}
	}
	ks := make([]common.Hash, 0, len(keys))
	for k := range keys {
		ks = append(ks, k)
	}
	sort.Slice(ks, func(i, j int) bool { return bytes.Compare(ks[i][:], ks[j][:]) < 0 })
	for _, k := range ks {
		if cv, rv := stor[k], r.db.GetState(a, k); cv != rv {
			out = append(out, fmt.Sprintf("storage %s[%s]: chain %s, reference %s", a.Hex(), new(big.Int).SetBytes(k[:]), new(big.Int).SetBytes(cv[:]), new(big.Int).SetBytes(rv[:])))
		}
	}
	return out
}
