package main

// Deterministic boot of a real ExocoreApp (same wiring as testutil.BaseTestSuite, but
// with keys/time derived from a seed and a configurable population), plus block-level
// helpers. Nothing here fakes any keeper: every op drives the code in /repo.

import (
	"crypto/sha256"
	"encoding/binary"
	"encoding/json"
	"fmt"
	"os"
	"runtime/debug"
	"strings"
	"time"

	"cosmossdk.io/math"
	abci "github.com/cometbft/cometbft/abci/types"
	"github.com/cometbft/cometbft/crypto/tmhash"
	tmproto "github.com/cometbft/cometbft/proto/tendermint/types"
	tmversion "github.com/cometbft/cometbft/proto/tendermint/version"
	"github.com/cometbft/cometbft/version"
	"github.com/cosmos/cosmos-sdk/crypto/keys/ed25519"
	pruningtypes "github.com/cosmos/cosmos-sdk/store/pruning/types"
	sdk "github.com/cosmos/cosmos-sdk/types"
	authtypes "github.com/cosmos/cosmos-sdk/x/auth/types"
	banktypes "github.com/cosmos/cosmos-sdk/x/bank/types"
	stakingtypes "github.com/cosmos/cosmos-sdk/x/staking/types"
	"github.com/ethereum/go-ethereum/common"
	"github.com/ethereum/go-ethereum/common/hexutil"
	"github.com/ethereum/go-ethereum/crypto"
	"github.com/evmos/evmos/v16/crypto/ethsecp256k1"
	evmostypes "github.com/evmos/evmos/v16/types"
	evmtypes "github.com/evmos/evmos/v16/x/evm/types"

	exocoreapp "github.com/ExocoreNetwork/exocore/app"
	keytypes "github.com/ExocoreNetwork/exocore/types/keys"
	"github.com/ExocoreNetwork/exocore/utils"
	assetstypes "github.com/ExocoreNetwork/exocore/x/assets/types"
	avstypes "github.com/ExocoreNetwork/exocore/x/avs/types"
	delegationtypes "github.com/ExocoreNetwork/exocore/x/delegation/types"
	dogfoodtypes "github.com/ExocoreNetwork/exocore/x/dogfood/types"
	epochstypes "github.com/ExocoreNetwork/exocore/x/epochs/types"
	distributiontypes "github.com/ExocoreNetwork/exocore/x/feedistribution/types"
	operatortypes "github.com/ExocoreNetwork/exocore/x/operator/types"
	oraclekeeper "github.com/ExocoreNetwork/exocore/x/oracle/keeper"
	oracletypes "github.com/ExocoreNetwork/exocore/x/oracle/types"
)

// AssetSpec describes one LST registered at genesis (plus its oracle token).
type AssetSpec struct {
	Addr     string // 0x… 20 bytes hex
	Decimals uint32
	Price    string // initial oracle price (integer string)
	PriceDec int32
}

type ChainCfg struct {
	Seed       uint64
	ChainID    string
	NOperators int
	Powers     []int64 // self-deposit of operator i = Powers[i]*10^dec(asset0); len = NOperators
	Assets     []AssetSpec
	// dogfood
	EpochID             string
	EpochsUntilUnbonded uint32
	MaxValidators       uint32
	MinSelfDelegation   int64
	HistoricalEntries   uint32 // 0 = the module default (10000)
	// extra genesis epochs (identifier -> duration); the four defaults always exist
	InitTime time.Time
	// mutators applied to the genesis map before InitChain
	Mutate func(c *Chain, gs map[string]json.RawMessage)
	// AfterInit (optional) runs between InitChain and the first BeginBlock, with c.Ctx on the state
	// InitGenesis left (header of InitChain: genesis time, height 0): what was registered at genesis
	// can be read before block 1 changes it
	AfterInit func(c *Chain)
}

type Actor struct {
	Priv *ethsecp256k1.PrivKey
	Eth  common.Address
	Acc  sdk.AccAddress
}

type Chain struct {
	Cfg       ChainCfg
	App       *exocoreapp.ExocoreApp
	Ctx       sdk.Context
	Header    tmproto.Header
	Operators []Actor
	ConsKeys  []keytypes.WrappedConsKey
	ConsPrivs []*ed25519.PrivKey
	Funded    Actor // EOA with native balance; also the gateway address where configured
	AssetIDs  []string
	LzID      uint64
	AVSAddr   string // dogfood AVS address
	ChainIDNR string // chain id without revision
	Halted    string // non-empty once a Begin/EndBlock/Commit panicked
	Boot      abci.ResponseBeginBlock // what BeginBlock of block 1 returned (events)
}

func detBytes(seed uint64, tag string, i int) []byte {
	var b [16]byte
	binary.BigEndian.PutUint64(b[:8], seed)
	binary.BigEndian.PutUint64(b[8:], uint64(i))
	h := sha256.Sum256(append(b[:], []byte(tag)...))
	return h[:]
}

func NewActor(seed uint64, tag string, i int) Actor {
	k := detBytes(seed, tag, i)
	priv := &ethsecp256k1.PrivKey{Key: k}
	ec, err := priv.ToECDSA()
	if err != nil {
		panic(err)
	}
	addr := crypto.PubkeyToAddress(ec.PublicKey)
	return Actor{Priv: priv, Eth: addr, Acc: sdk.AccAddress(addr.Bytes())}
}

func NewConsKey(seed uint64, tag string, i int) (keytypes.WrappedConsKey, *ed25519.PrivKey) {
	priv := ed25519.GenPrivKeyFromSecret(detBytes(seed, tag, i))
	return keytypes.NewWrappedConsKeyFromSdkKey(priv.PubKey()), priv
}

func DefaultCfg(seed uint64) ChainCfg {
	return ChainCfg{
		Seed:       seed,
		ChainID:    utils.DefaultChainID,
		NOperators: 2,
		Powers:     []int64{101, 100},
		Assets: []AssetSpec{
			{Addr: "0xdAC17F958D2ee523a2206206994597C13D831ec7", Decimals: 6, Price: "1", PriceDec: 0},
		},
		EpochID:             epochstypes.DayEpochID,
		EpochsUntilUnbonded: dogfoodtypes.DefaultEpochsUntilUnbonded,
		MaxValidators:       dogfoodtypes.DefaultMaxValidators,
		MinSelfDelegation:   100,
		InitTime:            time.Date(2024, 1, 1, 0, 0, 0, 0, time.UTC),
	}
}

func StakerIDOf(lz uint64, addr common.Address) string {
	id, _ := assetstypes.GetStakerIDAndAssetIDFromStr(lz, addr.String(), "")
	return id
}

func AssetIDOf(lz uint64, assetAddr string) string {
	_, id := assetstypes.GetStakerIDAndAssetIDFromStr(lz, "", assetAddr)
	return id
}

// NewChain boots the app and leaves it in the middle of block 1 (BeginBlock done).
func NewChain(cfg ChainCfg) *Chain {
	// x/oracle keeps process-global singletons (keeper/single.go: agc, agcCheckTx, cs) that
	// would leak from one booted chain into the next one of the same process.
	oraclekeeper.ResetAggregatorContext()
	oraclekeeper.ResetCache()
	oraclekeeper.ResetAggregatorContextCheckTx()
	c := &Chain{Cfg: cfg, LzID: 101}
	pruneOpts := pruningtypes.NewPruningOptionsFromString(pruningtypes.PruningOptionDefault)
	appI, genesisState := exocoreapp.SetupTestingApp(cfg.ChainID, &pruneOpts, false)()
	app := appI.(*exocoreapp.ExocoreApp)
	c.App = app
	cdc := app.AppCodec()

	c.Funded = NewActor(cfg.Seed, "funded", 0)
	baseAcc := authtypes.NewBaseAccount(c.Funded.Acc, c.Funded.Priv.PubKey(), 0, 0)
	acc := &evmostypes.EthAccount{BaseAccount: baseAcc, CodeHash: common.BytesToHash(evmtypes.EmptyCodeHash).Hex()}
	amount := sdk.TokensFromConsensusPower(5000, evmostypes.PowerReduction)
	balance := banktypes.Balance{Address: c.Funded.Acc.String(), Coins: sdk.NewCoins(sdk.NewCoin(utils.BaseDenom, amount))}
	genesisState[authtypes.ModuleName] = cdc.MustMarshalJSON(authtypes.NewGenesisState(authtypes.DefaultParams(), []authtypes.GenesisAccount{acc}))

	clientChains := []assetstypes.ClientChainInfo{{
		Name: "ethereum", MetaInfo: "ethereum blockchain", ChainId: 1, FinalizationBlocks: 10,
		LayerZeroChainID: c.LzID, AddressLength: 20,
	}}
	c.ChainIDNR = avstypes.ChainIDWithoutRevision(cfg.ChainID)
	c.AVSAddr = avstypes.GenerateAVSAddr(c.ChainIDNR)

	for i := 0; i < cfg.NOperators; i++ {
		c.Operators = append(c.Operators, NewActor(cfg.Seed, "operator", i))
		k, p := NewConsKey(cfg.Seed, "cons", i)
		c.ConsKeys = append(c.ConsKeys, k)
		c.ConsPrivs = append(c.ConsPrivs, p)
	}
	for _, a := range cfg.Assets {
		c.AssetIDs = append(c.AssetIDs, AssetIDOf(c.LzID, a.Addr))
	}
	asset0 := c.AssetIDs[0]
	dec0 := int(cfg.Assets[0].Decimals)

	// x/assets
	var deposits []assetstypes.DepositsByStaker
	var opAssets []assetstypes.AssetsByOperator
	total0 := math.ZeroInt()
	for i, op := range c.Operators {
		amt := math.NewIntWithDecimal(cfg.Powers[i], dec0)
		total0 = total0.Add(amt)
		deposits = append(deposits, assetstypes.DepositsByStaker{
			StakerID: StakerIDOf(c.LzID, op.Eth),
			Deposits: []assetstypes.DepositByAsset{{AssetID: asset0, Info: assetstypes.StakerAssetInfo{
				TotalDepositAmount: amt, WithdrawableAmount: math.ZeroInt(), PendingUndelegationAmount: math.ZeroInt(),
			}}},
		})
		opAssets = append(opAssets, assetstypes.AssetsByOperator{
			Operator: op.Acc.String(),
			AssetsState: []assetstypes.AssetByID{{AssetID: asset0, Info: assetstypes.OperatorAssetInfo{
				TotalAmount: amt, PendingUndelegationAmount: math.ZeroInt(),
				TotalShare: math.LegacyNewDecFromBigInt(amt.BigInt()), OperatorShare: math.LegacyNewDecFromBigInt(amt.BigInt()),
			}}},
		})
	}
	var tokens []assetstypes.StakingAssetInfo
	for i, a := range cfg.Assets {
		tot := math.ZeroInt()
		if i == 0 {
			tot = total0
		}
		tokens = append(tokens, assetstypes.StakingAssetInfo{
			AssetBasicInfo: assetstypes.AssetInfo{
				Name: fmt.Sprintf("Token%d", i), Symbol: fmt.Sprintf("TK%d", i), Address: a.Addr,
				Decimals: a.Decimals, LayerZeroChainID: c.LzID, MetaInfo: "t",
			},
			StakingTotalAmount: tot,
		})
	}
	assetsParams := assetstypes.DefaultParams()
	assetsParams.ExocoreLzAppAddress = c.Funded.Eth.String()
	genesisState[assetstypes.ModuleName] = cdc.MustMarshalJSON(assetstypes.NewGenesis(assetsParams, clientChains, tokens, deposits, opAssets))

	// x/oracle: one token + feeder per asset, price round 1 preset
	op := oracletypes.DefaultParams()
	op.Tokens = op.Tokens[:1]
	op.TokenFeeders = op.TokenFeeders[:1]
	var prices []oracletypes.Prices
	for i, a := range cfg.Assets {
		op.Tokens = append(op.Tokens, &oracletypes.Token{
			Name: fmt.Sprintf("TK%d", i), ChainID: 1, ContractAddress: "0x", Decimal: a.PriceDec, Active: true,
			AssetID: c.AssetIDs[i],
		})
		op.TokenFeeders = append(op.TokenFeeders, &oracletypes.TokenFeeder{
			TokenID: uint64(i + 1), RuleID: 1, StartRoundID: 1, StartBaseBlock: 1, Interval: 10,
		})
		prices = append(prices, oracletypes.Prices{TokenID: uint64(i + 1), NextRoundID: 2,
			PriceList: []*oracletypes.PriceTimeRound{{Price: a.Price, Decimal: a.PriceDec, RoundID: 1}}})
	}
	og := oracletypes.NewGenesisState(op)
	og.PricesList = prices
	genesisState[oracletypes.ModuleName] = cdc.MustMarshalJSON(og)

	// x/operator
	var infos []operatortypes.OperatorDetail
	var keys []operatortypes.OperatorConsKeyRecord
	var opts []operatortypes.OptedState
	var usd []operatortypes.OperatorUSDValue
	totalUSD := math.LegacyZeroDec()
	for i, o := range c.Operators {
		infos = append(infos, operatortypes.OperatorDetail{OperatorAddress: o.Acc.String(), OperatorInfo: operatortypes.OperatorInfo{
			EarningsAddr: o.Acc.String(), OperatorMetaInfo: fmt.Sprintf("operator%d", i),
			Commission: stakingtypes.NewCommission(sdk.ZeroDec(), sdk.ZeroDec(), sdk.ZeroDec()),
		}})
		keys = append(keys, operatortypes.OperatorConsKeyRecord{OperatorAddress: o.Acc.String(),
			Chains: []operatortypes.ChainDetails{{ChainID: c.ChainIDNR, ConsensusKey: c.ConsKeys[i].ToHex()}}})
		opts = append(opts, operatortypes.OptedState{
			Key:     string(assetstypes.GetJoinedStoreKey(o.Acc.String(), c.AVSAddr)),
			OptInfo: operatortypes.OptedInfo{OptedInHeight: 1, OptedOutHeight: operatortypes.DefaultOptedOutHeight},
		})
		v := math.LegacyNewDec(cfg.Powers[i])
		totalUSD = totalUSD.Add(v)
		usd = append(usd, operatortypes.OperatorUSDValue{
			Key:           string(assetstypes.GetJoinedStoreKey(c.AVSAddr, o.Acc.String())),
			OptedUSDValue: operatortypes.OperatorOptedUSDValue{SelfUSDValue: v, TotalUSDValue: v, ActiveUSDValue: v},
		})
	}
	avsUSD := []operatortypes.AVSUSDValue{{AVSAddr: c.AVSAddr, Value: operatortypes.DecValueField{Amount: totalUSD}}}
	genesisState[operatortypes.ModuleName] = cdc.MustMarshalJSON(operatortypes.NewGenesisState(infos, keys, opts, usd, avsUSD, nil, nil, nil))

	// x/delegation
	var dstates []delegationtypes.DelegationStates
	var assoc []delegationtypes.StakerToOperator
	var sbo []delegationtypes.StakersByOperator
	for i, o := range c.Operators {
		sid := StakerIDOf(c.LzID, o.Eth)
		amt := math.NewIntWithDecimal(cfg.Powers[i], dec0)
		dstates = append(dstates, delegationtypes.DelegationStates{
			Key:    string(assetstypes.GetJoinedStoreKey(sid, asset0, o.Acc.String())),
			States: delegationtypes.DelegationAmounts{WaitUndelegationAmount: math.NewInt(0), UndelegatableShare: math.LegacyNewDecFromBigInt(amt.BigInt())},
		})
		assoc = append(assoc, delegationtypes.StakerToOperator{Operator: o.Acc.String(), StakerID: sid})
		sbo = append(sbo, delegationtypes.StakersByOperator{Key: string(assetstypes.GetJoinedStoreKey(o.Acc.String(), asset0)), Stakers: []string{sid}})
	}
	genesisState[delegationtypes.ModuleName] = cdc.MustMarshalJSON(delegationtypes.NewGenesis(assoc, dstates, sbo, nil))

	// x/dogfood
	var vals []dogfoodtypes.GenesisValidator
	totalPower := int64(0)
	for i := range c.Operators {
		vals = append(vals, dogfoodtypes.GenesisValidator{PublicKey: c.ConsKeys[i].ToHex(), Power: cfg.Powers[i]})
		totalPower += cfg.Powers[i]
	}
	dg := dogfoodtypes.NewGenesis(dogfoodtypes.DefaultParams(), vals, nil, nil, nil, math.NewInt(totalPower))
	dg.Params.MinSelfDelegation = math.NewInt(cfg.MinSelfDelegation)
	dg.Params.EpochIdentifier = cfg.EpochID
	dg.Params.EpochsUntilUnbonded = cfg.EpochsUntilUnbonded
	dg.Params.MaxValidators = cfg.MaxValidators
	dg.Params.AssetIDs = append([]string{}, c.AssetIDs...)
	if cfg.HistoricalEntries != 0 {
		dg.Params.HistoricalEntries = cfg.HistoricalEntries
	}
	genesisState[dogfoodtypes.ModuleName] = cdc.MustMarshalJSON(dg)
	genesisState[distributiontypes.ModuleName] = cdc.MustMarshalJSON(distributiontypes.NewGenesisState(distributiontypes.DefaultParams()))

	bankGenesis := banktypes.NewGenesisState(banktypes.DefaultParams(), []banktypes.Balance{balance}, balance.Coins, nil, nil)
	genesisState[banktypes.ModuleName] = cdc.MustMarshalJSON(bankGenesis)

	if cfg.Mutate != nil {
		cfg.Mutate(c, genesisState)
	}
	stateBytes, err := json.MarshalIndent(genesisState, "", " ")
	if err != nil {
		panic(err)
	}
	// a panic of InitChain / the first BeginBlock is a halted node, not a dead harness (crash.go);
	// it is re-raised as a chainHalt (which prints like the original panic value for the domains
	// that recover from NewChain themselves, e.g. genesis import rejections)
	noteBoot(c)
	guarded := func(where string, f func()) {
		defer func() {
			if r := recover(); r != nil {
				site := appFrame(debug.Stack())
				c.Halted = where + ": " + shortMsg(fmt.Sprint(r))
				panic(chainHalt{where: where, msg: shortMsg(fmt.Sprint(r)), site: site, orig: r})
			}
		}()
		f()
	}
	guarded("InitChain", func() {
		app.InitChain(abci.RequestInitChain{
			Time: cfg.InitTime, ChainId: cfg.ChainID, Validators: []abci.ValidatorUpdate{},
			ConsensusParams: exocoreapp.DefaultConsensusParams, AppStateBytes: stateBytes,
		})
	})
	if cfg.AfterInit != nil {
		c.Ctx = app.BaseApp.NewContext(false, tmproto.Header{ChainID: cfg.ChainID, Time: cfg.InitTime.UTC()})
		cfg.AfterInit(c)
	}
	c.Header = c.newHeader(1, cfg.InitTime.Add(time.Second))
	guarded("BeginBlock", func() { c.Boot = app.BeginBlock(abci.RequestBeginBlock{Header: c.Header}) })
	c.Ctx = app.BaseApp.NewContext(false, c.Header)
	return c
}

func (c *Chain) newHeader(height int64, t time.Time) tmproto.Header {
	return tmproto.Header{
		Height: height, ChainID: c.Cfg.ChainID, Time: t.UTC(),
		ProposerAddress: c.ConsKeys[0].ToConsAddr(),
		Version:         tmversion.Consensus{Block: version.BlockProtocol},
		LastBlockId: tmproto.BlockID{Hash: tmhash.Sum([]byte("block_id")),
			PartSetHeader: tmproto.PartSetHeader{Total: 11, Hash: tmhash.Sum([]byte("partset_header"))}},
		AppHash: tmhash.Sum([]byte("App")), DataHash: tmhash.Sum([]byte("data")), EvidenceHash: tmhash.Sum([]byte("evidence")),
		ValidatorsHash: tmhash.Sum([]byte("Validators")), NextValidatorsHash: tmhash.Sum([]byte("next_validators")),
		ConsensusHash: tmhash.Sum([]byte("consensus")), LastResultsHash: tmhash.Sum([]byte("last_result")),
	}
}

// BlockResult is what one EndBlock+Commit+BeginBlock cycle produced.
type BlockResult struct {
	End     abci.ResponseEndBlock
	AppHash []byte
	Begin   abci.ResponseBeginBlock
	Halt    string
}

func recoverTo(dst *string, where string) {
	if r := recover(); r != nil {
		s := fmt.Sprint(r)
		if len(s) > 300 {
			s = s[:300]
		}
		*dst = where + ": " + strings.ReplaceAll(s, "\n", " ")
		lastPanicSite = appFrame(debug.Stack())
		if os.Getenv("VERIF_STACK") != "" {
			fmt.Fprintf(os.Stderr, "PANIC %s\n%s\n", *dst, debug.Stack())
		}
	}
}

// EndAndBegin finishes the current block and begins the next one at time +d. Panics in
// EndBlock/Commit/BeginBlock are caught and reported as a halt (the real node would stop).
func (c *Chain) EndAndBegin(d time.Duration) (res BlockResult) {
	return c.EndAndBeginWith(d, nil)
}

func (c *Chain) EndAndBeginWith(d time.Duration, modify func(*abci.RequestBeginBlock)) (res BlockResult) {
	if c.Halted != "" {
		res.Halt = c.Halted
		return
	}
	func() {
		defer recoverTo(&res.Halt, "EndBlock")
		res.End = c.App.EndBlock(abci.RequestEndBlock{Height: c.Header.Height})
	}()
	if res.Halt == "" {
		func() {
			defer recoverTo(&res.Halt, "Commit")
			cm := c.App.Commit()
			res.AppHash = cm.Data
		}()
	}
	if res.Halt == "" {
		h := c.Header
		h.Height++
		h.Time = h.Time.Add(d)
		h.AppHash = res.AppHash
		c.Header = h
		req := abci.RequestBeginBlock{Header: h}
		if modify != nil {
			modify(&req)
		}
		func() {
			defer recoverTo(&res.Halt, "BeginBlock")
			res.Begin = c.App.BeginBlock(req)
		}()
	}
	if res.Halt != "" {
		c.Halted = res.Halt
		return
	}
	c.Ctx = c.App.BaseApp.NewContext(false, c.Header)
	return
}

// CachedDo runs f in a cache context of the deliver state and commits the writes only if f
// returns nil; a panic is reported as an error string starting with "panic:" and nothing is
// written (this is what baseapp's runTx does for a message).
func (c *Chain) CachedDo(f func(ctx sdk.Context) error) (err error) {
	cctx, write := c.Ctx.CacheContext()
	func() {
		defer func() {
			if r := recover(); r != nil {
				s := fmt.Sprint(r)
				if len(s) > 200 {
					s = s[:200]
				}
				err = fmt.Errorf("panic: %s", strings.ReplaceAll(s, "\n", " "))
			}
		}()
		err = f(cctx)
	}()
	if err == nil {
		write()
	}
	return err
}

// EpochDuration returns the duration of a default epoch identifier.
func EpochDuration(id string) time.Duration {
	switch id {
	case epochstypes.MinuteEpochID:
		return time.Minute
	case epochstypes.HourEpochID:
		return time.Hour
	case epochstypes.DayEpochID:
		return 24 * time.Hour
	case epochstypes.WeekEpochID:
		return 7 * 24 * time.Hour
	}
	return 0
}

var _ = hexutil.Encode
