package main

// C17 — parameter updates executed on a store branch that is DISCARDED (distribution domain).
//
// "The native token's total supply changes only by the CONFIGURED epoch reward …": configured = what the COMMITTED
// chain state names. The application runs message handlers on branches of the state that are dropped afterwards:
//
//   gov   x/gov EndBlocker executes the messages of a passed proposal one after another in ONE ctx.CacheContext()
//         and writes it back only when every handler succeeded (x/gov/abci.go); a later failing message (here: an
//         x/feedistribution update with an identifier x/epochs does not have, or a community tax outside [0,1])
//         drops the writes of the earlier ones. baseapp.runMsgs does the same with the messages of a transaction.
//         The harness runs the REAL handlers (MsgServiceRouter, authority = the gov module account) that way:
//         ValidateBasic of every message first (SubmitProposal / validateBasicTxMsgs), then the handlers in order.
//   sim   BaseApp.Simulate of a signed transaction holding the messages (gas estimation; any account can trigger it
//         through the node's RPC, nothing is included in a block): the handlers run on a branch of the check state
//         that is never written. Only on chain ids that are not mainnet ids (there the signer is the authority).
//
// Op line `distr.batch <gov|sim> <n> { mint <denom> <reward|nil> <id> | distr <id> <taxRaw|nil> }*`, observation
// `<ok|rej> <mint params in force> <distr params in force>` (as the keepers' GetParams return them — what the
// hooks will read), replayed by Model/DistributionBatch.lean (applyBatch). After the batch the history goes on
// with fee income and blocks, and the block monitors of dom_distribution.go (C17.supply: supply delta = ends of the
// configured mint identifier x configured reward; C17.moved, C17.share …) are evaluated against the configuration
// the harness' own spec derives from the COMMITTED messages only. Monitor C17.params additionally compares, after
// every parameter message / batch, the params record of the store (read by key, not through the keeper) with that
// spec, and what the keeper's getter returns with the record.

import (
	"fmt"
	"math/big"
	"strings"
	"time"

	sdkmath "cosmossdk.io/math"
	sdk "github.com/cosmos/cosmos-sdk/types"

	"github.com/ExocoreNetwork/exocore/utils"
	epochstypes "github.com/ExocoreNetwork/exocore/x/epochs/types"
	exominttypes "github.com/ExocoreNetwork/exocore/x/exomint/types"
	distrtypes "github.com/ExocoreNetwork/exocore/x/feedistribution/types"
)

// distrBItem: one message of a batch.
type distrBItem struct {
	mint   bool
	denom  string   // mint
	reward *big.Int // mint (nil = nil math.Int)
	id     string
	tax    *big.Int // distr (nil = nil LegacyDec)
}

func (it distrBItem) words() string {
	if it.mint {
		rw := "nil"
		if it.reward != nil {
			rw = it.reward.String()
		}
		return fmt.Sprintf("mint %s %s %s", pEsc(it.denom), rw, pEsc(it.id))
	}
	return fmt.Sprintf("distr %s %s", pEsc(it.id), distrTaxStr(it.tax))
}

func (it distrBItem) msg(authority string) sdk.Msg {
	if it.mint {
		p := exominttypes.Params{MintDenom: it.denom, EpochIdentifier: it.id}
		if it.reward != nil {
			p.EpochReward = sdkmath.NewIntFromBigInt(it.reward)
		}
		return &exominttypes.MsgUpdateParams{Authority: authority, Params: p}
	}
	m := distrMsg(it.id, it.tax)
	m.Authority = authority
	return m
}

func (r *distrRunner) mainnetID() bool { return strings.HasPrefix(r.c.Cfg.ChainID, utils.MainnetChainID+"-") }

// storedMintParams / storedDistrParams: the params RECORD of the module's store in the current deliver state, read
// by key (not through Keeper.GetParams, which is under test).
func (r *distrRunner) storedMintParams() (p exominttypes.Params) {
	bz := r.c.Ctx.KVStore(r.c.App.GetKey(exominttypes.StoreKey)).Get(exominttypes.KeyPrefixParams())
	r.c.App.AppCodec().MustUnmarshal(bz, &p)
	return
}

func (r *distrRunner) storedDistrParams() (p distrtypes.Params) {
	bz := r.c.Ctx.KVStore(r.c.App.GetKey(distrtypes.StoreKey)).Get(distrtypes.KeyPrefixParams)
	r.c.App.AppCodec().MustUnmarshal(bz, &p)
	return
}

// paramsFollowStore (monitor C17.params): the committed record is the configured one (spec of the committed
// messages), and the keepers' getters — what the epoch hooks read — return the record.
func (r *distrRunner) paramsFollowStore(after string) {
	env := r.env
	env.Eval("C17.params")
	sm, sd := r.storedMintParams(), r.storedDistrParams()
	if sm.MintDenom != r.mintDenom || sm.EpochReward.BigInt().Cmp(r.h.reward) != 0 || sm.EpochIdentifier != r.h.mintID {
		env.Violate("C17.params", "mint-params-record-not-as-configured", fmt.Sprintf("after %s: exomint params record {%q %s %q}, configured by the committed messages {%q %s %q}",
			after, sm.MintDenom, sm.EpochReward, sm.EpochIdentifier, r.mintDenom, r.h.reward, r.h.mintID), r.hist)
	}
	if sd.EpochIdentifier != r.h.distrID || sd.CommunityTax.BigInt().Cmp(r.h.tax) != 0 {
		env.Violate("C17.params", "distr-params-record-not-as-configured", fmt.Sprintf("after %s: feedistribution params record {%q %s}, configured by the committed messages {%q %s}",
			after, sd.EpochIdentifier, sd.CommunityTax.BigInt(), r.h.distrID, r.h.tax), r.hist)
	}
	gm, gd := r.c.App.ExomintKeeper.GetParams(r.c.Ctx), r.c.App.DistrKeeper.GetParams(r.c.Ctx)
	if gm.MintDenom != sm.MintDenom || !gm.EpochReward.Equal(sm.EpochReward) || gm.EpochIdentifier != sm.EpochIdentifier {
		env.Violate("C17.params", "mint-params-in-force-differ-from-committed-record", fmt.Sprintf("after %s: exomint GetParams returns {%q %s %q}, the params record of the store holds {%q %s %q}",
			after, gm.MintDenom, gm.EpochReward, gm.EpochIdentifier, sm.MintDenom, sm.EpochReward, sm.EpochIdentifier), r.hist)
	}
	if gd.EpochIdentifier != sd.EpochIdentifier || gd.CommunityTax.BigInt().Cmp(sd.CommunityTax.BigInt()) != 0 {
		env.Violate("C17.params", "distr-params-in-force-differ-from-committed-record", fmt.Sprintf("after %s: feedistribution GetParams returns {%q %s}, the params record of the store holds {%q %s}",
			after, gd.EpochIdentifier, gd.CommunityTax.BigInt(), sd.EpochIdentifier, sd.CommunityTax.BigInt()), r.hist)
	}
}

// batch executes the messages on one branch (route gov) or in a simulation (route sim). Returns whether the branch
// was written back.
func (r *distrRunner) batch(route string, items []distrBItem) bool {
	c, env := r.c, r.env
	// ---- spec: the messages one after another on a copy of the configuration; any refusal drops the copy
	sD, sR, sI, sDI, sT := r.mintDenom, r.h.reward, r.h.mintID, r.h.distrID, r.h.tax
	allOK := true
	for _, it := range items { // ValidateBasic of every message comes before any handler
		if it.mint {
			if ok, _, _, _ := r.specMintUpdate(true, it.denom, it.reward, it.id); !ok {
				allOK = false
			}
		} else if !distrTaxInUnit(it.tax) {
			allOK = false
		}
	}
	for _, it := range items {
		if !allOK {
			break
		}
		if it.mint {
			_, d, w, i := r.specMintUpdate(false, it.denom, it.reward, it.id)
			r.mintDenom, r.h.reward, r.h.mintID = d, w, i
		} else {
			st, i, t := r.specDistrUpdate(it.id, it.tax)
			if st != "ok" {
				allOK = false
				break
			}
			r.h.distrID, r.h.tax = i, t
		}
	}
	bD, bR, bI := r.mintDenom, r.h.reward, r.h.mintID // the configuration at the end of the branch
	commit := allOK && route == "gov"
	if !commit {
		r.mintDenom, r.h.reward, r.h.mintID, r.h.distrID, r.h.tax = sD, sR, sI, sDI, sT
	}
	// ---- the real application
	var err error
	switch route {
	case "gov":
		authority := distrGovAuthority()
		err = c.CachedDo(func(ctx sdk.Context) error {
			msgs := make([]sdk.Msg, len(items))
			for i, it := range items {
				msgs[i] = it.msg(authority)
				if e := msgs[i].ValidateBasic(); e != nil {
					return e
				}
			}
			for _, m := range msgs {
				hd := c.App.MsgServiceRouter().Handler(m)
				if hd == nil {
					return fmt.Errorf("no handler for %T", m)
				}
				if _, e := hd(ctx, m); e != nil {
					return e
				}
			}
			return nil
		})
	case "sim":
		authority := c.Funded.Acc.String()
		msgs := make([]sdk.Msg, len(items))
		for i, it := range items {
			msgs[i] = it.msg(authority)
		}
		// the check state is the last committed state
		cctx := c.App.BaseApp.NewContext(true, c.Header)
		acc := c.App.AccountKeeper.GetAccount(cctx, c.Funded.Acc)
		if acc == nil {
			env.Note("batch-sim-no-account")
			return false
		}
		fee := sdk.NewCoins(sdk.NewCoin(utils.BaseDenom, sdkmath.NewIntWithDecimal(1, 16)))
		bz, e := xbSignCosmos(c, c.App.GetTxConfig(), msgs, c.Funded.Priv.PubKey(), c.Funded.Priv, acc.GetAccountNumber(), acc.GetSequence(), 2000000, fee, false)
		if e != nil {
			env.Note("batch-sim-build-error")
			return false
		}
		halt := ""
		func() {
			defer recoverTo(&halt, "Simulate")
			_, _, err = c.App.BaseApp.Simulate(bz)
		}()
		if halt != "" {
			err = fmt.Errorf("panic: %s", halt)
		}
	default:
		panic("distr.batch: unknown route " + route)
	}
	gm, gd := c.App.ExomintKeeper.GetParams(c.Ctx), c.App.DistrKeeper.GetParams(c.Ctx)
	st := "ok"
	if err != nil {
		st = "rej"
	}
	ws := make([]string, len(items))
	for i, it := range items {
		ws[i] = it.words()
	}
	r.op(fmt.Sprintf("distr.batch %s %d %s", route, len(items), strings.Join(ws, " ")),
		fmt.Sprintf("%s %s %s %s|%s %s", st, pEsc(gm.MintDenom), gm.EpochReward.String(), pEsc(gm.EpochIdentifier), pEsc(gd.EpochIdentifier), gd.CommunityTax.BigInt()))
	if (err == nil) != allOK {
		env.Eval("C17.params")
		env.Violate("C17.params", "batch-outcome-not-as-configured", fmt.Sprintf("batch (%s) of %d message(s): err=%v, expected accepted=%v", route, len(items), err, allOK), r.hist)
	}
	r.paramsFollowStore(fmt.Sprintf("a %d-message batch via %s (accepted=%v, written back=%v)", len(items), route, allOK, commit))
	switch {
	case commit:
		env.Outcome("batch:" + route + ":committed")
	case allOK:
		env.Outcome("batch:" + route + ":accepted-never-written")
	default:
		env.Outcome("batch:" + route + ":later-message-refused-branch-dropped")
	}
	if !commit && (bD != sD || bR.Cmp(sR) != 0 || bI != sI) {
		// the interesting case: the dropped branch held a DIFFERENT mint configuration
		env.Outcome("batch:" + route + ":dropped-branch-changed-mint-params")
		r.discardedMint++
		if bR.Cmp(sR) != 0 {
			r.discardedReward++
		}
	}
	r.paramUpdates++
	return commit
}

// randomBatch: with probability 1/9 per block a batch of 1-3 parameter messages. 2 in 3 batches are built to be
// DROPPED: valid updates (a changed reward / identifier / denom / tax among them) followed — or preceded — by a
// message the handler refuses (unknown identifier, tax outside [0,1]) or ValidateBasic refuses; on chain ids that are
// not mainnet ids every third batch is a simulation of an acceptable transaction.
func (r *distrRunner) randomBatch(rng *RNG) {
	if !rng.Chance(1, 9) {
		return
	}
	dg := 0
	for i, id := range distrEpochIDs {
		if id == r.h.cfg.EpochID {
			dg = i
		}
	}
	validMint := func() distrBItem {
		it := distrBItem{mint: true, denom: r.mintDenom, reward: r.h.reward, id: r.h.mintID}
		switch rng.Intn(4) {
		case 0, 1:
			it.reward = distrPickReward(rng)
		case 2:
			it.id = distrEpochIDs[rng.Intn(4)]
			it.reward = new(big.Int).Add(r.h.reward, big.NewInt(int64(1+rng.Intn(1000))))
		case 3:
			it.denom = []string{utils.BaseDenom, distrOtherDenom}[rng.Intn(2)]
			it.reward = distrPickReward(rng)
		}
		return it
	}
	validDistr := func() distrBItem {
		it := distrBItem{id: distrEpochIDs[rng.Intn(dg+1)], tax: r.h.tax}
		if rng.Chance(1, 2) {
			it.tax = []*big.Int{big.NewInt(0), new(big.Int).Set(bigPrec), new(big.Int).Mul(big.NewInt(2), pow10(16)), rng.BigBelow(bigPrec)}[rng.Intn(4)]
		}
		return it
	}
	refused := func() distrBItem {
		switch rng.Intn(4) {
		case 0:
			return distrBItem{id: "fortnight", tax: r.h.tax}
		case 1:
			return distrBItem{id: r.h.distrID, tax: new(big.Int).Add(bigPrec, big.NewInt(1))}
		case 2:
			return distrBItem{mint: true, denom: "x", reward: r.h.reward, id: r.h.mintID} // ValidateBasic
		}
		return distrBItem{id: "", tax: big.NewInt(0)}
	}
	var items []distrBItem
	n := 1 + rng.Intn(3)
	for i := 0; i < n; i++ {
		if rng.Chance(3, 5) {
			items = append(items, validMint())
		} else {
			items = append(items, validDistr())
		}
	}
	route := "gov"
	if !r.mainnetID() && rng.Chance(1, 3) {
		route = "sim"
	} else if rng.Chance(2, 3) {
		// a refused message at a random position (mostly last: the earlier handlers have run)
		pos := len(items)
		if rng.Chance(1, 4) {
			pos = rng.Intn(len(items) + 1)
		}
		items = append(items[:pos], append([]distrBItem{refused()}, items[pos:]...)...)
	}
	r.batch(route, items)
}

// distrScenarioDiscarded: directed histories. (1) mainnet id, the failed-proposal shape: [exomint reward 20 ->
// 20000000 and identifier hour -> minute, feedistribution with an unknown identifier] dropped; mint-epoch ends of
// the committed identifier follow and must mint the committed reward, ends of the identifier of the dropped branch
// nothing; then [feedistribution tax 50 %, exomint denom -> other] with a third message the handler refuses; then an accepted
// two-message batch (committed: both take effect), again followed by epoch ends. (2) a chain id that is not a
// mainnet id: simulations of acceptable transactions (reward, identifier, tax), each followed by epoch ends.
func distrScenarioDiscarded(env *Env) {
	hour := time.Hour + time.Second
	{
		cfg := DefaultCfg(env.Report.Seed*1000 + 910)
		cfg.EpochID = epochstypes.WeekEpochID
		h := &distrHistCfg{cfg: cfg, distrID: epochstypes.HourEpochID, mintID: epochstypes.HourEpochID, reward: big.NewInt(20),
			tax: new(big.Int).Mul(big.NewInt(2), pow10(16)), rates: []*big.Int{new(big.Int).Mul(big.NewInt(5), pow10(16)), big.NewInt(0)}, shrink: map[string]time.Duration{}}
		c := distrBoot(h)
		r := &distrRunner{env: env, c: c, h: h}
		r.start("scenario-discarded-parameter-updates-failed-proposal")
		r.fee(big.NewInt(1000))
		ok := r.blocks(1, hour)
		before := r.mintEpochs
		r.batch("gov", []distrBItem{
			{mint: true, denom: utils.BaseDenom, reward: big.NewInt(20000000), id: epochstypes.MinuteEpochID},
			{id: "fortnight", tax: big.NewInt(0)}})
		r.fee(big.NewInt(7))
		ok = ok && r.blocks(2, 61*time.Second) // minute ends: nothing minted
		ok = ok && r.blocks(2, hour)           // hour ends: 20 each
		r.batch("gov", []distrBItem{
			{id: epochstypes.MinuteEpochID, tax: new(big.Int).Quo(bigPrec, big.NewInt(2))},
			{mint: true, denom: distrOtherDenom, reward: big.NewInt(9), id: epochstypes.HourEpochID},
			{id: "Hour", tax: new(big.Int).Set(bigPrec)}})
		r.fee(big.NewInt(100000))
		ok = ok && r.blocks(1, 61*time.Second)
		ok = ok && r.blocks(1, hour)
		dropped := r.mintEpochs - before
		committed := r.batch("gov", []distrBItem{
			{mint: true, denom: utils.BaseDenom, reward: big.NewInt(7), id: epochstypes.MinuteEpochID},
			{id: epochstypes.MinuteEpochID, tax: big.NewInt(0)}})
		r.fee(big.NewInt(100000))
		ok = ok && r.blocks(2, 61*time.Second)
		env.Report.Histories++
		env.Outcome(fmt.Sprintf("scenario-discarded-failed-proposal:ok=%v,mint-ends-after-dropped-batches=%d,dropped-mint-changes=%d,last-batch-committed=%v", ok, dropped, r.discardedMint, committed))
	}
	{
		cfg := DefaultCfg(env.Report.Seed*1000 + 911)
		cfg.ChainID = utils.TestnetChainID + "-1"
		cfg.EpochID = epochstypes.WeekEpochID
		h := &distrHistCfg{cfg: cfg, distrID: epochstypes.MinuteEpochID, mintID: epochstypes.MinuteEpochID, reward: big.NewInt(20),
			tax: big.NewInt(0), rates: []*big.Int{big.NewInt(0), new(big.Int).Quo(bigPrec, big.NewInt(2))}, shrink: map[string]time.Duration{}}
		c := distrBoot(h)
		r := &distrRunner{env: env, c: c, h: h}
		r.start("scenario-discarded-parameter-updates-simulate")
		r.fee(big.NewInt(1000))
		ok := r.blocks(2, 61*time.Second)
		before := r.mintEpochs
		sim := func(items ...distrBItem) { r.batch("sim", items) }
		sim(distrBItem{mint: true, denom: utils.BaseDenom, reward: big.NewInt(20000000), id: epochstypes.MinuteEpochID})
		ok = ok && r.blocks(2, 61*time.Second)
		sim(distrBItem{mint: true, denom: utils.BaseDenom, reward: big.NewInt(20), id: epochstypes.HourEpochID},
			distrBItem{id: epochstypes.HourEpochID, tax: new(big.Int).Set(bigPrec)})
		r.fee(big.NewInt(5000))
		ok = ok && r.blocks(2, 61*time.Second)
		sim(distrBItem{mint: true, denom: distrOtherDenom, reward: big.NewInt(3), id: epochstypes.MinuteEpochID},
			distrBItem{id: "fortnight", tax: big.NewInt(0)})
		ok = ok && r.blocks(1, 61*time.Second)
		env.Report.Histories++
		env.Outcome(fmt.Sprintf("scenario-discarded-simulate:ok=%v,mint-ends-after-first-simulation=%d,dropped-mint-changes=%d", ok, r.mintEpochs-before, r.discardedMint))
	}
}
