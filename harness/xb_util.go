package main

// Shared helpers of the C09 (atomic) and C10 (auth) domains: byte-level snapshots of every custom
// module store (+ bank + the oracle's in-memory cache), precompile calls through the real EVM keeper
// with ApplyTransaction's commit rule, signed eth/cosmos transactions through CheckTx/DeliverTx.

import (
	"bytes"
	"crypto/sha256"
	"encoding/hex"
	"fmt"
	"math/big"
	"runtime/debug"
	"sort"
	"strings"

	abci "github.com/cometbft/cometbft/abci/types"
	"github.com/cosmos/cosmos-sdk/client"
	cryptotypes "github.com/cosmos/cosmos-sdk/crypto/types"
	sdk "github.com/cosmos/cosmos-sdk/types"
	"github.com/cosmos/cosmos-sdk/types/tx/signing"
	authsigning "github.com/cosmos/cosmos-sdk/x/auth/signing"
	banktypes "github.com/cosmos/cosmos-sdk/x/bank/types"
	"github.com/ethereum/go-ethereum/accounts/abi"
	"github.com/ethereum/go-ethereum/common"
	ethtypes "github.com/ethereum/go-ethereum/core/types"
	"github.com/evmos/evmos/v16/x/evm/statedb"
	evmtypes "github.com/evmos/evmos/v16/x/evm/types"

	assetsprecompile "github.com/ExocoreNetwork/exocore/precompiles/assets"
	avsprecompile "github.com/ExocoreNetwork/exocore/precompiles/avs"
	delegationprecompile "github.com/ExocoreNetwork/exocore/precompiles/delegation"
	rewardprecompile "github.com/ExocoreNetwork/exocore/precompiles/reward"
	utiltx "github.com/ExocoreNetwork/exocore/testutil/tx"
	"github.com/ExocoreNetwork/exocore/utils"
	assetstypes "github.com/ExocoreNetwork/exocore/x/assets/types"
	avstypes "github.com/ExocoreNetwork/exocore/x/avs/types"
	delegationtypes "github.com/ExocoreNetwork/exocore/x/delegation/types"
	dogfoodtypes "github.com/ExocoreNetwork/exocore/x/dogfood/types"
	epochstypes "github.com/ExocoreNetwork/exocore/x/epochs/types"
	exominttypes "github.com/ExocoreNetwork/exocore/x/exomint/types"
	distrtypes "github.com/ExocoreNetwork/exocore/x/feedistribution/types"
	operatortypes "github.com/ExocoreNetwork/exocore/x/operator/types"
	oraclekeeper "github.com/ExocoreNetwork/exocore/x/oracle/keeper"
	oraclecache "github.com/ExocoreNetwork/exocore/x/oracle/keeper/cache"
	oracletypes "github.com/ExocoreNetwork/exocore/x/oracle/types"
	rewardtypes "github.com/ExocoreNetwork/exocore/x/reward/types"
	exoslashtypes "github.com/ExocoreNetwork/exocore/x/slash/types"
)

var (
	xbAssetsAddr = common.HexToAddress("0x0000000000000000000000000000000000000804")
	xbDelegAddr  = common.HexToAddress("0x0000000000000000000000000000000000000805")
	xbRewardAddr = common.HexToAddress("0x0000000000000000000000000000000000000806")
	xbAvsAddr    = common.HexToAddress("0x0000000000000000000000000000000000000901")
)

// xbStores lists every custom module store (name -> store key name) + bank.
var xbStores = [][2]string{
	{"assets", assetstypes.StoreKey}, {"delegation", delegationtypes.StoreKey}, {"operator", operatortypes.StoreKey},
	{"dogfood", dogfoodtypes.StoreKey}, {"avs", avstypes.StoreKey}, {"oracle", oracletypes.StoreKey},
	{"reward", rewardtypes.StoreKey}, {"exoslash", exoslashtypes.StoreKey}, {"exomint", exominttypes.StoreKey},
	{"feedistribution", distrtypes.StoreKey}, {"epochs", epochstypes.StoreKey}, {"bank", banktypes.StoreKey},
}

// Snapshot = store name -> key(hex) -> sha256(value)[:8]; plus the pseudo store "oraclemem".
type Snapshot map[string]map[string]string

func xbSnapshot(c *Chain, ctx sdk.Context, withMem bool) Snapshot {
	s := Snapshot{}
	for _, st := range xbStores {
		m := map[string]string{}
		key := c.App.GetKey(st[1])
		if key == nil {
			continue
		}
		it := ctx.KVStore(key).Iterator(nil, nil)
		for ; it.Valid(); it.Next() {
			h := sha256.Sum256(it.Value())
			m[hex.EncodeToString(it.Key())] = hex.EncodeToString(h[:8])
		}
		it.Close()
		s[st[0]] = m
	}
	if withMem {
		s["oraclemem"] = xbOracleMem()
	}
	return s
}

// xbOracleMem dumps what is observable of x/oracle's package-level cache `cs` through its exported
// getters (params + update flag, queued messages, validator set + update flag).
func xbOracleMem() map[string]string {
	m := map[string]string{}
	defer func() { _ = recover() }()
	xbOracleMemAgc(m) // dom_atomic_oracle.go: + aggregator context, when the atomic domain asked for it
	cs := oraclekeeper.GetCaches()
	if cs == nil {
		return m
	}
	p := oraclecache.ItemP{}
	func() {
		defer func() {
			if r := recover(); r != nil {
				m["params"] = "nil"
			}
		}()
		upd := cs.GetCache(&p)
		pp := oracletypes.Params(p)
		bz, _ := pp.Marshal()
		h := sha256.Sum256(bz)
		m["params"] = fmt.Sprintf("%v:%x", upd, h[:8])
	}()
	var msgs []*oraclecache.ItemM
	func() {
		defer func() { _ = recover() }()
		cs.GetCache(&msgs)
		var parts []string
		for _, it := range msgs {
			if it == nil {
				continue
			}
			parts = append(parts, fmt.Sprintf("%d/%s/%d", it.FeederID, it.Validator, len(it.PSources)))
		}
		sort.Strings(parts)
		m["msgs"] = strings.Join(parts, ",")
	}()
	v := oraclecache.ItemV{}
	func() {
		defer func() { _ = recover() }()
		upd := cs.GetCache(v)
		var parts []string
		for a, pw := range v {
			parts = append(parts, a+"="+pw.String())
		}
		sort.Strings(parts)
		h := sha256.Sum256([]byte(strings.Join(parts, ",")))
		m["validators"] = fmt.Sprintf("%v:%x", upd, h[:8])
	}()
	return m
}

// xbDiff returns the sorted list of "store" names that differ and a short description of the first
// differing keys.
func xbDiff(a, b Snapshot) (stores []string, detail string) {
	names := map[string]bool{}
	for k := range a {
		names[k] = true
	}
	for k := range b {
		names[k] = true
	}
	var ds []string
	for _, n := range sortedKeys(names) {
		ma, mb := a[n], b[n]
		changed := false
		keys := map[string]bool{}
		for k := range ma {
			keys[k] = true
		}
		for k := range mb {
			keys[k] = true
		}
		for _, k := range sortedKeys(keys) {
			if ma[k] != mb[k] {
				changed = true
				if len(ds) < 4 {
					kind := "mod"
					if _, ok := ma[k]; !ok {
						kind = "add"
					} else if _, ok := mb[k]; !ok {
						kind = "del"
					}
					kk := k
					if bz, err := hex.DecodeString(k); err == nil && xbPrintable(bz) {
						kk = string(bz)
					}
					if len(kk) > 70 {
						kk = kk[:70]
					}
					ds = append(ds, n+":"+kind+":"+kk)
				}
			}
		}
		if changed {
			stores = append(stores, n)
		}
	}
	return stores, strings.Join(ds, " ")
}

func xbPrintable(b []byte) bool {
	for _, c := range b {
		if c < 0x20 || c > 0x7e {
			return false
		}
	}
	return len(b) > 0
}

// xbDropKeys removes from both snapshots the keys of a store that satisfy pred (the allowed keys).
func xbDropStore(s Snapshot, name string) { delete(s, name) }

type xbABIs struct {
	assets, deleg, avs, reward abi.ABI
}

func xbLoadABIs(c *Chain) xbABIs {
	pm := c.App.EvmKeeper.Precompiles(xbAssetsAddr, xbDelegAddr, xbRewardAddr, xbAvsAddr)
	return xbABIs{
		assets: pm[xbAssetsAddr].(*assetsprecompile.Precompile).ABI,
		deleg:  pm[xbDelegAddr].(*delegationprecompile.Precompile).ABI,
		reward: pm[xbRewardAddr].(*rewardprecompile.Precompile).ABI,
		avs:    pm[xbAvsAddr].(*avsprecompile.Precompile).ABI,
	}
}

type evmRes struct {
	Ret      []byte
	VMErr    string // non-empty: EVM-level failure (tx reverted by ApplyTransaction's rule)
	Err      string // consensus-level error of ApplyMessage
	Panic    string
	OK       bool // first output of the method decoded as bool (false when undecodable)
	HasBool  bool
	Commited bool
}

var xbTxCounter uint64
var xbDebug bool

// xbEvmCall runs one top-level EVM call `from -> to(data)` on the deliver state exactly like
// x/evm ApplyTransaction does for a MsgEthereumTx (cache context, committed only when the message
// neither errored nor failed in the VM), without fees. A panic is what baseapp's runTx would
// recover: nothing is written.
func xbEvmCall(c *Chain, from, to common.Address, data []byte, method *abi.Method) (res evmRes) {
	cctx, write := c.Ctx.CacheContext()
	k := c.App.EvmKeeper
	func() {
		defer func() {
			if r := recover(); r != nil {
				s := fmt.Sprint(r)
				if len(s) > 200 {
					s = s[:200]
				}
				res.Panic = strings.ReplaceAll(s, "\n", " ")
				if xbDebug {
					fmt.Println(string(debug.Stack()))
				}
			}
		}()
		cfg, err := k.EVMConfig(cctx, sdk.ConsAddress(cctx.BlockHeader().ProposerAddress), k.ChainID())
		if err != nil {
			res.Err = err.Error()
			return
		}
		xbTxCounter++
		var th common.Hash
		binaryPut(th[:], xbTxCounter)
		th[0] = 0xEE
		txc := statedb.NewTxConfig(common.BytesToHash(cctx.HeaderHash()), th, 0, 0)
		nonce := k.GetNonce(cctx, from)
		msg := ethtypes.NewMessage(from, &to, nonce, big.NewInt(0), 10_000_000, big.NewInt(0), big.NewInt(0), big.NewInt(0), data, nil, true)
		r, err := k.ApplyMessageWithConfig(cctx, msg, nil, true, cfg, txc)
		if err != nil {
			res.Err = err.Error()
			return
		}
		res.Ret = r.Ret
		res.VMErr = r.VmError
	}()
	if res.Panic == "" && res.Err == "" && res.VMErr == "" {
		write()
		res.Commited = true
		if method != nil {
			if out, err := method.Outputs.Unpack(res.Ret); err == nil && len(out) > 0 {
				if b, ok := out[0].(bool); ok {
					res.OK, res.HasBool = b, true
				}
			}
		}
	}
	return
}

func binaryPut(b []byte, v uint64) {
	for i := 0; i < 8; i++ {
		b[len(b)-1-i] = byte(v >> (8 * i))
	}
}

// outcome class of an EVM call: ok / false (reported failure, writes kept) / empty (no output) /
// revert (vm error) / err / panic
func (r evmRes) Class() string {
	switch {
	case r.Panic != "":
		return "panic"
	case r.Err != "":
		return "err"
	case r.VMErr != "":
		return "revert"
	case r.HasBool && r.OK:
		return "ok"
	case r.HasBool:
		return "false"
	case len(r.Ret) == 0:
		return "empty"
	}
	return "other"
}

// ---- signed transactions

type xbTxRes struct {
	CheckCode   uint32
	DeliverCode uint32
	Log         string
	Panic       string
}

func (r xbTxRes) Accepted() bool { return r.Panic == "" && r.CheckCode == 0 && r.DeliverCode == 0 }

// xbSignCosmos builds a cosmos tx with the given msgs, fee and a signature made by signPriv over the
// sign bytes computed for claimPub's account (forged when signPriv does not belong to claimPub;
// garbage when signPriv == nil).
func xbSignCosmos(c *Chain, txCfg client.TxConfig, msgs []sdk.Msg, claimPub cryptotypes.PubKey, signPriv cryptotypes.PrivKey,
	accNum, seq uint64, gas uint64, fee sdk.Coins, corrupt bool,
) ([]byte, error) {
	b := txCfg.NewTxBuilder()
	if err := b.SetMsgs(msgs...); err != nil {
		return nil, err
	}
	b.SetGasLimit(gas)
	b.SetFeeAmount(fee)
	mode := txCfg.SignModeHandler().DefaultMode()
	sig := signing.SignatureV2{PubKey: claimPub, Data: &signing.SingleSignatureData{SignMode: mode}, Sequence: seq}
	if err := b.SetSignatures(sig); err != nil {
		return nil, err
	}
	sd := authsigning.SignerData{ChainID: c.Cfg.ChainID, AccountNumber: accNum, Sequence: seq, PubKey: claimPub, Address: sdk.AccAddress(claimPub.Address()).String()}
	bytesToSign, err := txCfg.SignModeHandler().GetSignBytes(mode, sd, b.GetTx())
	if err != nil {
		return nil, err
	}
	var sigBz []byte
	if signPriv != nil {
		sigBz, err = signPriv.Sign(bytesToSign)
		if err != nil {
			return nil, err
		}
	} else {
		sigBz = bytes.Repeat([]byte{0x5a}, 64)
	}
	if corrupt && len(sigBz) > 3 {
		sigBz[3] ^= 0x40
	}
	sig.Data = &signing.SingleSignatureData{SignMode: mode, Signature: sigBz}
	if err := b.SetSignatures(sig); err != nil {
		return nil, err
	}
	return txCfg.TxEncoder()(b.GetTx())
}

func xbDeliver(c *Chain, bz []byte, check bool) (res xbTxRes) {
	defer func() {
		if r := recover(); r != nil {
			res.Panic = fmt.Sprint(r)
		}
	}()
	if check {
		cr := c.App.CheckTx(abci.RequestCheckTx{Tx: bz, Type: abci.CheckTxType_New})
		res.CheckCode = cr.Code
		res.Log = cr.Log
		if cr.Code != 0 {
			return
		}
	}
	dr := c.App.DeliverTx(abci.RequestDeliverTx{Tx: bz})
	res.DeliverCode = dr.Code
	if dr.Code != 0 {
		res.Log = dr.Log
	}
	return
}

// xbEthTx signs a MsgEthereumTx (legacy, gas price = base fee) and returns the encoded cosmos tx.
func xbEthTx(c *Chain, priv cryptotypes.PrivKey, from, to common.Address, data []byte, gas uint64) ([]byte, error) {
	nonce := c.App.EvmKeeper.GetNonce(c.Ctx, from)
	baseFee := c.App.FeeMarketKeeper.GetBaseFee(c.Ctx)
	if baseFee == nil {
		baseFee = big.NewInt(0)
	}
	args := &evmtypes.EvmTxArgs{
		ChainID: c.App.EvmKeeper.ChainID(), Nonce: nonce, To: &to, Amount: big.NewInt(0), GasLimit: gas,
		GasFeeCap: new(big.Int).Add(baseFee, big.NewInt(1_000_000_000)), GasTipCap: big.NewInt(1), Accesses: &ethtypes.AccessList{}, Input: data,
	}
	m := evmtypes.NewTx(args)
	m.From = from.String()
	tx, err := utiltx.PrepareEthTx(c.App.GetTxConfig(), c.App, priv, m)
	if err != nil {
		return nil, err
	}
	return c.App.GetTxConfig().TxEncoder()(tx)
}

func xbFund(c *Chain, to sdk.AccAddress, whole int64) error {
	amt := sdk.NewCoins(sdk.NewCoin(utils.BaseDenom, sdk.NewInt(whole).Mul(sdk.NewIntFromBigInt(new(big.Int).Exp(big.NewInt(10), big.NewInt(18), nil)))))
	return c.App.BankKeeper.SendCoins(c.Ctx, c.Funded.Acc, to, amt)
}

func xbErrClass(err error) string {
	if err == nil {
		return "ok"
	}
	s := err.Error()
	if strings.HasPrefix(s, "panic:") {
		return "panic"
	}
	return "rej"
}

func pad32(b []byte) []byte {
	out := make([]byte, 32)
	copy(out, b)
	return out
}

func hexToBytes(s string) []byte { return common.FromHex(s) }

type xbABI = abi.ABI

// xbResetOracleMem clears x/oracle's package-level singletons so that a freshly booted chain does not
// inherit the aggregator/cache of the previous one (one process boots many chains).
func xbResetOracleMem() {
	oraclekeeper.ResetAggregatorContext()
	oraclekeeper.ResetCache()
	oraclekeeper.ResetAggregatorContextCheckTx()
	oraclekeeper.ResetUpdatedFeederIDs()
}
