package main

// C07 "… so that it can still be slashed and jailed" — the GATE in front of the slash / jail entry
// points, and two boundary runs that belong to the conskeys domain (C07 / C16).
//
// x/slashing (downtime, HandleValidatorSignature) and x/evidence (double sign,
// HandleEquivocationEvidence) do not call SlashWithInfractionReason / Jail directly: both first ask
// the staking keeper for `ValidatorByConsAddr(consAddr)` and return without doing anything when the
// answer is nil (x/evidence also when `IsUnbonded()`); both run inside BeginBlock, so a panic there
// is a halted node. The probes of dom_conskeys_slash.go therefore also call ValidatorByConsAddr for
// every key (observation `<slashed>/<jailed>/<gate>`, model `validatorTarget`). This file holds the
// directed scenarios (`gate=1`):
//
//   * scenarioF07c — finding F-07c through the REAL ABCI path: duplicate-vote evidence in
//     RequestBeginBlock.ByzantineValidators against a validator that joined after genesis (signing
//     info and pubkey relation exist) is dropped: not slashed, not jailed, not tombstoned, because
//     ValidatorByConsAddrForChainID leaves the status stakingtypes.NewValidator sets (Unbonded).
//   * scenarioF07d — finding F-07d: a validating operator replaces its key (old key scheduled for
//     pruning N epochs later), is jailed, drops out of the set at the epoch end, is unjailed and opts
//     out: the opt-out completes at once (neither key in the set), the operator has no current key
//     any more, and ValidatorByConsAddr of the OLD key — still in the reverse index, still unbonding —
//     returns nil (it builds the validator from the operator's current key).
//   * histEntriesBoundary (always run, C16 / C07 / C11): HistoricalEntries = 1..3, so that the pruning
//     loop of TrackHistoricalInfo (BeginBlock) reaches height 0 and deletes real entries within a
//     few blocks (with the default of 10000 it never runs in a harness history).

import (
	"fmt"
	"time"

	sdkmath "cosmossdk.io/math"
	abci "github.com/cometbft/cometbft/abci/types"
	sdk "github.com/cosmos/cosmos-sdk/types"
	"github.com/ethereum/go-ethereum/common"

	assetskeeper "github.com/ExocoreNetwork/exocore/x/assets/keeper"
	assetstypes "github.com/ExocoreNetwork/exocore/x/assets/types"
	delegationtypes "github.com/ExocoreNetwork/exocore/x/delegation/types"
	epochstypes "github.com/ExocoreNetwork/exocore/x/epochs/types"
)

// f07dReported: like f07cReported (dom_conskeys_slash.go), one violation per run for the random histories
var f07dReported bool

// histEntriesBoundary boots chains with HistoricalEntries = 1, 2, 3 and processes 8 blocks each.
// Monitor: no halt (reported under haltMonitor). The stored window (heights max(1,h-n+1)..h, the SDK's
// TrackHistoricalInfo contract the dogfood copy follows) is part of the op line and counted as an outcome.
func histEntriesBoundary(env *Env, haltMonitor string) {
	for n := uint32(1); n <= 3; n++ {
		cfg := DefaultCfg(env.Report.Seed*1000 + 990 + uint64(n))
		cfg.EpochID = epochstypes.MinuteEpochID
		cfg.HistoricalEntries = n
		op := fmt.Sprintf("ckhist.reset entries=%d", n)
		hist := []string{op}
		env.Op(op, "ok")
		c, bootHalt := tryNewChain(cfg)
		if bootHalt != "" {
			env.Eval(haltMonitor)
			env.Violate(haltMonitor, "halt:"+haltWhere(bootHalt), fmt.Sprintf("HistoricalEntries=%d: block 1 cannot be processed: %s", n, bootHalt), append(hist, "# "+bootLine(cfg)[2:]))
			continue
		}
		for b := 0; b < 8; b++ {
			d := time.Second
			if b%3 == 2 {
				d = time.Minute + time.Second
			}
			r := c.EndAndBegin(d)
			line := fmt.Sprintf("ckhist.block +%s", d)
			hist = append(hist, line)
			env.Eval(haltMonitor)
			if r.Halt != "" {
				site := ""
				if lastPanicSite != "" {
					site = " [in " + lastPanicSite + "]"
				}
				env.Op(line+" => halt", "ok")
				env.Violate(haltMonitor, "halt:"+haltWhere(r.Halt), fmt.Sprintf("HistoricalEntries=%d: block processing panicked at height %d: %s%s", n, c.Header.Height, r.Halt, site), hist)
				break
			}
			h := c.Header.Height
			var have []int64
			for i := int64(1); i <= h; i++ { // (height 0 is never stored)
				if _, ok := c.App.StakingKeeper.GetHistoricalInfo(c.Ctx, i); ok {
					have = append(have, i)
				}
			}
			lo := h - int64(n) + 1
			if lo < 1 {
				lo = 1
			}
			var want []int64
			for i := lo; i <= h; i++ {
				want = append(want, i)
			}
			env.Op(line+fmt.Sprintf(" => h=%d entries=%v", h, have), "ok") // (not modelled: the driver answers ok to ckhist.* / ckgate.* lines)
			// (the window itself is no clause of any of the 20 properties: observed, not demanded)
			env.Outcome(fmt.Sprintf("hist-entries-window-as-sdk=%v", fmt.Sprint(have) == fmt.Sprint(want)))
		}
		env.Report.Histories++
		env.Outcome("hist-entries-boundary")
	}
}

// scenarioF07c: equivocation evidence through the real BeginBlock for a validator that joined after
// genesis. Expected by the property (and by the comment on dogfood's ValidatorByConsAddr): slashed,
// jailed, tombstoned.
func scenarioF07c(env *Env) {
	seed := env.Report.Seed*1000 + 996
	op := "ckgate.reset F-07c epoch=minute unbonding=1"
	hist := []string{op}
	step := func(line, obs string) { // (not modelled: the observation is part of the op line)
		env.Op(line+" => "+obs, "ok")
		hist = append(hist, line+" => "+obs)
	}
	env.Op(op, "ok")
	c := NewChainFresh(minuteCfg(seed))
	j0, ca0, err := joinValidator(c, seed, 0, 200)
	if err != nil {
		env.Note("scenario-f07c-setup-failed")
		return
	}
	step("ckgate.join joiner0: register, deposit 200 USDT, associate, self-delegate, opt in with a key", "ok")
	for i := 0; i < 3; i++ {
		if r := nextMinute(c); r.Halt != "" {
			env.Violate("C07.halt", "halt:"+haltWhere(r.Halt), "F-07c scenario: "+r.Halt, hist)
			return
		}
	}
	step("ckgate.blocks 3 epochs (joiner0 enters the validator set: signing info)", "ok")
	if err := extraDelegate(c, seed, j0, 10, 200); err != nil {
		env.Note("scenario-f07c-setup-failed")
		return
	}
	for i := 0; i < 2; i++ {
		if r := nextMinute(c); r.Halt != "" {
			env.Violate("C07.halt", "halt:"+haltWhere(r.Halt), "F-07c scenario: "+r.Halt, hist)
			return
		}
	}
	step("ckgate.delegate +10 USDT to joiner0, 2 epochs (power change: pubkey relation in x/slashing)", "ok")
	_, isVal := c.App.StakingKeeper.GetExocoreValidator(c.Ctx, ca0)
	_, pkErr := c.App.SlashingKeeper.GetPubkey(c.Ctx, ca0.Bytes())
	hasSI := c.App.SlashingKeeper.HasValidatorSigningInfo(c.Ctx, ca0)
	v := c.App.StakingKeeper.ValidatorByConsAddr(c.Ctx, ca0)
	pre := fmt.Sprintf("validator=%v pubkey=%v signinfo=%v gate-nil=%v", isVal, pkErr == nil, hasSI, v == nil)
	if !isVal || pkErr != nil || !hasSI || v == nil {
		env.Note("scenario-f07c-setup-failed:" + pre)
		return
	}
	unb := v.IsUnbonded()
	before, _ := c.App.OperatorKeeper.CalculateUSDValueForOperator(c.Ctx, true, j0.Acc.String(), nil, nil, nil)
	h, t := c.Header.Height, c.Header.Time
	r := c.EndAndBeginWith(5*time.Second, func(req *abci.RequestBeginBlock) {
		req.ByzantineValidators = []abci.Misbehavior{{Type: abci.MisbehaviorType_DUPLICATE_VOTE,
			Validator: abci.Validator{Address: ca0, Power: 210}, Height: h, Time: t, TotalVotingPower: 411}}
	})
	line := fmt.Sprintf("ckgate.beginblock ByzantineValidators=[duplicate vote, joiner0, height %d] (%s, ValidatorByConsAddr.IsUnbonded=%v)", h, pre, unb)
	if r.Halt != "" {
		step(line, "halt")
		env.Violate("C07.halt", "halt:"+haltWhere(r.Halt), "F-07c scenario: evidence halted block processing: "+r.Halt, hist)
		return
	}
	after, _ := c.App.OperatorKeeper.CalculateUSDValueForOperator(c.Ctx, true, j0.Acc.String(), nil, nil, nil)
	slashed := after.StakingAndWaitUnbonding.LT(before.StakingAndWaitUnbonding)
	jailed := c.App.StakingKeeper.IsValidatorJailed(c.Ctx, ca0)
	tomb := c.App.SlashingKeeper.IsTombstoned(c.Ctx, ca0)
	step(line, fmt.Sprintf("slashed=%v jailed=%v tombstoned=%v", slashed, jailed, tomb))
	env.Eval("C07.slashable.evidence")
	env.Outcome(fmt.Sprintf("scenario-f07c:evidence-effect=%v", slashed || jailed || tomb))
	if !slashed || !jailed {
		env.Violate("C07.slashable", "F-07c:equivocation-evidence-dropped", fmt.Sprintf("duplicate-vote evidence delivered in BeginBlock against a validating consensus address (validator store, signing info and pubkey relation present) had no effect: slashed=%v jailed=%v tombstoned=%v, stake %s -> %s; ValidatorByConsAddr(consAddr).IsUnbonded()=%v makes x/evidence return before SlashWithInfractionReason / Jail", slashed, jailed, tomb, before.StakingAndWaitUnbonding.TruncateInt(), after.StakingAndWaitUnbonding.TruncateInt(), unb), hist)
	}
	env.Report.Histories++
}

// extraDelegate: a further deposit + delegation to an operator from its own client-chain address
func extraDelegate(c *Chain, seed uint64, a Actor, usd int64, nonce uint64) error {
	return c.CachedDo(func(ctx sdk.Context) error {
		amt := sdkmath.NewIntWithDecimal(usd, int(c.Cfg.Assets[0].Decimals))
		asset := common.HexToAddress(c.Cfg.Assets[0].Addr).Bytes()
		if err := c.App.AssetsKeeper.PerformDepositOrWithdraw(ctx, &assetskeeper.DepositWithdrawParams{
			ClientChainLzID: c.LzID, Action: assetstypes.DepositLST, StakerAddress: a.Eth.Bytes(), AssetsAddress: asset, OpAmount: amt}); err != nil {
			return err
		}
		return c.App.DelegationKeeper.DelegateTo(ctx, &delegationtypes.DelegationOrUndelegationParams{
			ClientChainID: c.LzID, Action: assetstypes.DelegateTo, AssetsAddress: asset, OperatorAddress: a.Acc,
			StakerAddress: a.Eth.Bytes(), OpAmount: amt, LzNonce: nonce, TxHash: common.BytesToHash(detBytes(seed, "gate-extra", int(nonce)))})
	})
}

// scenarioF07d: see the header. Uses the conskeys world, so the model replays it and the probes of
// slashMonitors report the gate (sig prefix F-07d:).
func scenarioF07d(env *Env) {
	cfg := DefaultCfg(env.Report.Seed*1000 + 995)
	cfg.EpochID = epochstypes.MinuteEpochID
	cfg.EpochsUntilUnbonded = 3
	cfg.MinSelfDelegation = 1
	w := newCkWorld(env, cfg, 2, 4)
	c := w.C
	const pfx = "F-07d:"
	g := -1
	for op := range w.Ops {
		if w.Reg[op] && w.InValSet(c.Ctx, w.CurKey(c.Ctx, op)) {
			g = op
			break
		}
	}
	fresh := -1
	for k := range w.Keys {
		if w.RevOp(c.Ctx, k) < 0 {
			fresh = k
			break
		}
	}
	if g < 0 || fresh < 0 {
		env.Note("scenario-f07d-setup-failed")
		return
	}
	old := w.CurKey(c.Ctx, g)
	w.monitors(c.Ctx, "tx", pfx)
	w.doSetKey(g, fresh, pfx) // old key: pruning slot = epoch + 3
	c.App.StakingKeeper.Jail(c.Ctx, w.Keys[fresh].ToConsAddr())
	w.emit(fmt.Sprintf("ck.jail %d 1", fresh), "ok")
	w.monitors(c.Ctx, "tx", pfx)
	if !w.doBlock(w.EpochDur+time.Second, pfx) { // the jailed operator leaves the set; the new key never enters it
		return
	}
	w.monitors(c.Ctx, "tx", pfx)
	if !w.doBlock(time.Second, pfx) {
		return
	}
	c.App.StakingKeeper.Unjail(c.Ctx, w.Keys[fresh].ToConsAddr())
	w.emit(fmt.Sprintf("ck.jail %d 0", fresh), "ok")
	w.doOptOut(g) // neither key is in the set: completed at once, the operator has no current key
	w.monitors(c.Ctx, "tx", pfx)
	env.Eval("C07.slashable.gate")
	env.Outcome(fmt.Sprintf("scenario-f07d:old-key-resolves=%v,operator-has-key=%v", w.RevOp(c.Ctx, old) == g, w.CurKey(c.Ctx, g) >= 0))
	for i := 0; i < 4 && c.Halted == ""; i++ {
		if !w.doBlock(w.EpochDur+time.Second, pfx) {
			break
		}
		w.monitors(c.Ctx, "tx", pfx)
	}
	env.Report.Histories++
	env.Outcome("scenario-f07d")
}
