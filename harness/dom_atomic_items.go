package main

// C09, second sentence: "A failure while processing one item in block-begin/end processing (one undelegation,
// one AVS's voting-power update, one slash, one task statistic) leaves no partial effect of that item and does
// not stop the others from being processed."
//
// In states reachable through the entry points an item of these loops does not fail after its first write
// (C03_completion_always_succeeds; UpdateVotingPower / Slash run their writes on a cache context of their own;
// a task statistic writes last).  The clause is about what happens IF one fails, so these histories put the
// real chain into a failing shape DIRECTLY - through keeper setters / raw store writes on the deliver context
// of the booted chain - and then run the REAL block processing.  Every such history is labelled
// `injected-fault` (op `at.inject …`, history lines `INJECTED-FAULT …`): its start state is not reachable, the
// block processing that runs on it is the production code.  Each history is the same experiment:
//
//     two items due in the same block, the FIRST one failing (after its first write where the item has one before
//     its last check), a LATER one succeeding;
//     byte snapshot of every custom store + bank before and after the block processing;
//     monitor C09.item-fail-leaves-no-trace   no key that belongs to the failing item changed,
//     monitor C09.item-fail-does-not-stop-others   the later item was processed (and the failing one did fail).
//
// Op line `at.item <loop> <failing step>` with observation `isolated` / `trace`; the Lean model answers from the
// item's program and the loop's discipline (Model/AtomicItems.lean: itemVerdict).
//
//   delegation.EndBlock.records       two matured undelegations (operators that hold no consensus key: no hold);
//                                     the first operator's PendingUndelegationAmount is one unit short, so its record
//                                     passes UpdateDelegationState and UpdateStakerAssetState (two writes) and is refused
//                                     by UpdateOperatorAssetState; run: the application's EndBlock.
//   operator.AfterEpochEnd.avsList    two AVSs of the "minute" epoch; the first has two operators, the second of which
//                                     has OperatorShare > TotalShare in its pool row (TokensFromShares refuses), so
//                                     UpdateVotingPower fails after the first operator's row was rewritten; run: BeginBlock
//                                     at the epoch end.
//   sdk.BeginBlock.slash              SlashWithInfractionReason for validator 0 and validator 1 with one infraction
//                                     height, as x/evidence / x/slashing call it one validator after the other; a slash
//                                     record under validator 0's slash id is already stored, so its slash is refused
//                                     after SlashAssets ran; run: the two calls on the block's context.
//   avs.AfterEpochEnd.groupedTasks    two tasks whose statistical period ends with the same epoch; the only result of
//                                     the first carries no signature (raw store write: the legacy shape of F-11b), so the
//                                     group is skipped; the second has a signed result; run: BeginBlock at the epoch end.
//                                     (Go map iteration decides which group comes first.)

import (
	"encoding/hex"
	"fmt"
	"math/big"
	"sort"
	"strings"
	"time"

	sdkmath "cosmossdk.io/math"
	abci "github.com/cometbft/cometbft/abci/types"
	"github.com/cosmos/cosmos-sdk/store/prefix"
	sdk "github.com/cosmos/cosmos-sdk/types"
	stakingtypes "github.com/cosmos/cosmos-sdk/x/staking/types"
	"github.com/ethereum/go-ethereum/common"
	"github.com/ethereum/go-ethereum/crypto"

	assetstypes "github.com/ExocoreNetwork/exocore/x/assets/types"
	avstypes "github.com/ExocoreNetwork/exocore/x/avs/types"
	delegationtypes "github.com/ExocoreNetwork/exocore/x/delegation/types"
	operatorkeeper "github.com/ExocoreNetwork/exocore/x/operator/keeper"
	operatortypes "github.com/ExocoreNetwork/exocore/x/operator/types"
)

func init() {
	atomExtraDirected = append(atomExtraDirected,
		func(h *atomH) { h.itemsUndelegation() },
		func(h *atomH) { h.itemsVotingPower() },
		func(h *atomH) { h.itemsSlash() },
		func(h *atomH) { h.itemsTaskStatistic() },
	)
}

// itemSplitBlock = Chain.EndAndBeginWith, with byte snapshots taken around the two halves:
// (before EndBlock, after EndBlock) on the deliver state, (after Commit = before BeginBlock) on the check state,
// (after BeginBlock) on the new deliver state.
type itemBlockSnaps struct {
	beforeEnd, afterEnd, beforeBegin, afterBegin Snapshot
	halt                                         string
}

func (h *atomH) itemSplitBlock(d time.Duration, modify func(*abci.RequestBeginBlock)) (s itemBlockSnaps) {
	c := h.c
	if c.Halted != "" {
		s.halt = c.Halted
		return
	}
	s.beforeEnd = xbSnapshot(c, c.Ctx, false)
	func() {
		defer recoverTo(&s.halt, "EndBlock")
		c.App.EndBlock(abci.RequestEndBlock{Height: c.Header.Height})
	}()
	if s.halt == "" {
		s.afterEnd = xbSnapshot(c, c.Ctx, false)
		var appHash []byte
		func() {
			defer recoverTo(&s.halt, "Commit")
			appHash = c.App.Commit().Data
		}()
		if s.halt == "" {
			hd := c.Header
			hd.Height++
			hd.Time = hd.Time.Add(d)
			hd.AppHash = appHash
			c.Header = hd
			s.beforeBegin = xbSnapshot(c, c.App.BaseApp.NewContext(true, hd), false)
			req := abci.RequestBeginBlock{Header: hd}
			if modify != nil {
				modify(&req)
			}
			func() {
				defer recoverTo(&s.halt, "BeginBlock")
				c.App.BeginBlock(req)
			}()
		}
	}
	if s.halt != "" {
		c.Halted = s.halt
		h.env.Note("halt-in-items-history")
		return
	}
	c.Ctx = c.App.BaseApp.NewContext(false, c.Header)
	h.ctxFix()
	s.afterBegin = xbSnapshot(c, c.Ctx, false)
	h.hist = append(h.hist, fmt.Sprintf("block +%s (height %d)", d, c.Header.Height))
	return
}

// itemTrace lists the changed keys (store:key) that contain one of the given byte strings (hex-encoded forms).
func itemTrace(before, after Snapshot, idents []string) []string {
	var out []string
	for store := range after {
		keys := map[string]bool{}
		for k := range before[store] {
			keys[k] = true
		}
		for k := range after[store] {
			keys[k] = true
		}
		for k := range keys {
			if before[store][k] == after[store][k] {
				continue
			}
			for _, id := range idents {
				if id != "" && strings.Contains(k, id) {
					kk := k
					if bz, err := hex.DecodeString(k); err == nil && xbPrintable(bz) {
						kk = string(bz)
					} else if err == nil && len(bz) > 1 && xbPrintable(bz[1:]) { // one prefix byte, then text
						kk = fmt.Sprintf("%02x|%s", bz[0], string(bz[1:]))
					}
					if len(kk) > 110 {
						kk = kk[:110] + "…"
					}
					out = append(out, store+":"+kk)
					break
				}
			}
		}
	}
	sort.Strings(out)
	return out
}

func hexOf(s string) string { return hex.EncodeToString([]byte(s)) }

// itemVerdict emits the op line and evaluates the two monitors.
func (h *atomH) itemVerdict(loop, step string, failedAsPlanned, laterProcessed bool, trace []string, what string) {
	env := h.env
	obs := "isolated"
	if len(trace) > 0 {
		obs = "trace"
	}
	h.hist = append(h.hist, fmt.Sprintf("INJECTED-FAULT %s: first item refused at %s (failed=%v), later item processed=%v, keys of the failed item that changed: %v", loop, step, failedAsPlanned, laterProcessed, trace))
	env.Outcome("items." + loop + ":" + obs)
	if env.Str("debug", "") != "" {
		fmt.Println("ITEMS", strings.Join(h.hist[max(0, len(h.hist)-6):], "\n   "))
	}
	env.DistinctKey("items|" + loop + "|" + step)
	if !failedAsPlanned {
		// the injection did not produce a failing item: nothing to judge (the start state is ours, not the code's)
		env.Note("items-injection-ineffective:" + loop)
		env.Op("at.skip items "+loop, "skip")
		return
	}
	env.Op("at.item "+loop+" "+step, obs)
	env.Eval("C09.item-fail-leaves-no-trace")
	if len(trace) > 0 {
		sig := "item-trace:" + loop + ":" + strings.ReplaceAll(step, " ", "_")
		if !h.seen[sig] {
			h.seen[sig] = true
			env.Violate("C09.item-fail-leaves-no-trace", sig,
				fmt.Sprintf("injected-fault history: %s; the item of %s that FAILED at %s left a partial effect in the block's state: %v", what, loop, step, trace), h.hist)
		}
	}
	env.Eval("C09.item-fail-does-not-stop-others")
	if !laterProcessed {
		sig := "item-stops-others:" + loop
		if !h.seen[sig] {
			h.seen[sig] = true
			env.Violate("C09.item-fail-does-not-stop-others", sig,
				fmt.Sprintf("injected-fault history: %s; after the item of %s that failed at %s the later item of the same block was NOT processed", what, loop, step), h.hist)
		}
	}
}

func (h *atomH) inject(loop, what string) {
	h.env.Op("at.skip inject "+loop, "skip")
	h.env.Note("injected-fault:" + loop)
	h.hist = append(h.hist, "INJECTED-FAULT (start state not reachable through the entry points) "+loop+": "+what)
}

// registerPlainOperator registers a fresh account as operator (no AVS, no consensus key).
func (h *atomH) registerPlainOperator(a Actor, meta string) bool {
	srv := operatorkeeper.NewMsgServerImpl(h.c.App.OperatorKeeper)
	return h.keeper("msg.registerOperator", "msgserver RegisterOperator "+a.Acc.String(), func(ctx sdk.Context) error {
		_, e := srv.RegisterOperator(sdk.WrapSDKContext(ctx), &operatortypes.RegisterOperatorReq{FromAddress: a.Acc.String(), Info: &operatortypes.OperatorInfo{
			EarningsAddr: a.Acc.String(), ApproveAddr: a.Acc.String(), OperatorMetaInfo: meta, Commission: stakingtypes.NewCommission(sdk.ZeroDec(), sdk.ZeroDec(), sdk.ZeroDec())}})
		return e
	}) == "ok"
}

// orderedActors returns two fresh actors (tag, i) such that less(a, b).
func orderedActors(seed uint64, tag string, less func(a, b Actor) bool) (Actor, Actor) {
	a := NewActor(seed, tag, 0)
	for i := 1; i < 64; i++ {
		b := NewActor(seed, tag, i)
		if less(a, b) {
			return a, b
		}
		if less(b, a) {
			return b, a
		}
	}
	return a, NewActor(seed, tag, 1)
}

// ---- loop 1: matured undelegations (x/delegation EndBlock)
func (h *atomH) itemsUndelegation() {
	const loop = "delegation.EndBlock.records"
	c := h.c
	seed := c.Cfg.Seed
	gw := c.Funded.Eth
	lz := uint32(c.LzID)
	asset := c.AssetIDs[0]
	opA, opB := NewActor(seed, "itemOp", 0), NewActor(seed, "itemOp", 1)
	sA, sB := NewActor(seed, "itemStaker", 0), NewActor(seed, "itemStaker", 1)
	if !h.registerPlainOperator(opA, "itemOpA") || !h.registerPlainOperator(opB, "itemOpB") {
		h.env.Note("items-setup-failed:" + loop)
		return
	}
	amt := big.NewInt(30_000_000)
	ok := true
	for i, p := range []struct {
		st Actor
		op Actor
	}{{sA, opA}, {sB, opB}} {
		st := pad32(p.st.Eth.Bytes())
		ok = ok && h.evm("assets.depositLST", gw, xbAssetsAddr, h.abis.assets, "depositLST", lz, h.assetBytes(0), st, big.NewInt(100_000_000)) == "ok"
		ok = ok && h.evm("delegation.delegate", gw, xbDelegAddr, h.abis.deleg, "delegate", lz, uint64(0x200+i), h.assetBytes(0), st, []byte(p.op.Acc.String()), amt) == "ok"
	}
	h.block(time.Second)
	// both undelegations in ONE block; nonces 0x100 < 0x101: the failing record is the first of the block's list
	start := uint64(c.Ctx.BlockHeight())
	for i, p := range []struct {
		st Actor
		op Actor
	}{{sA, opA}, {sB, opB}} {
		ok = ok && h.evm("delegation.undelegate", gw, xbDelegAddr, h.abis.deleg, "undelegate", lz, uint64(0x100+i), h.assetBytes(0), pad32(p.st.Eth.Bytes()), []byte(p.op.Acc.String()), amt) == "ok"
	}
	if !ok {
		h.env.Note("items-setup-failed:" + loop)
		return
	}
	recs, err := c.App.DelegationKeeper.GetPendingUndelegationRecords(c.Ctx, start+operatortypes.UnbondingExpiration)
	if err != nil || len(recs) != 2 || recs[0].OperatorAddr != opA.Acc.String() || recs[1].OperatorAddr != opB.Acc.String() {
		h.env.Note("items-setup-failed:" + loop + ":records")
		return
	}
	keyA := delegationtypes.GetUndelegationRecordKey(recs[0].BlockNumber, recs[0].LzTxNonce, recs[0].TxHash, recs[0].OperatorAddr)
	keyB := delegationtypes.GetUndelegationRecordKey(recs[1].BlockNumber, recs[1].LzTxNonce, recs[1].TxHash, recs[1].OperatorAddr)
	for uint64(c.Ctx.BlockHeight()) < recs[0].CompleteBlockNumber {
		h.block(time.Second)
	}
	// the fault: operator A's pending-undelegation figure is one unit short of its record
	if err := c.App.AssetsKeeper.UpdateOperatorAssetState(c.Ctx, opA.Acc, asset, assetstypes.DeltaOperatorSingleAsset{PendingUndelegationAmount: sdkmath.NewInt(-1)}); err != nil {
		h.env.Note("items-injection-refused:" + loop)
		return
	}
	h.inject(loop, fmt.Sprintf("operator %s: PendingUndelegationAmount of %s lowered by 1 through AssetsKeeper.UpdateOperatorAssetState (29999999 < record amount 30000000); records of staker %s→%s (nonce 0x100) and %s→%s (nonce 0x101) mature at height %d",
		opA.Acc, asset, StakerIDOf(c.LzID, sA.Eth), opA.Acc, StakerIDOf(c.LzID, sB.Eth), opB.Acc, recs[0].CompleteBlockNumber))
	s := h.itemSplitBlock(time.Second, nil)
	if s.halt != "" {
		return
	}
	// judged on the state right after the application's EndBlock
	has := func(snap Snapshot, recKey []byte) bool {
		_, ok := snap["delegation"][hex.EncodeToString(append(append([]byte{}, delegationtypes.KeyPrefixUndelegationInfo...), recKey...))]
		return ok
	}
	failed := has(s.afterEnd, keyA)
	later := !has(s.afterEnd, keyB) && has(s.beforeEnd, keyB)
	idents := []string{hexOf(StakerIDOf(c.LzID, sA.Eth)), hexOf(opA.Acc.String()), hex.EncodeToString(keyA)}
	h.itemVerdict(loop, "UpdateAssetValue(operator.PendingUndelegationAmount)", failed, later, itemTrace(s.beforeEnd, s.afterEnd, idents),
		"two undelegation records mature in one block, the first one's operator row cannot release the amount")
}

// ---- loop 2: one AVS's voting-power update (x/operator AfterEpochEnd → UpdateVotingPower)
func (h *atomH) itemsVotingPower() {
	const loop = "operator.AfterEpochEnd.avsList"
	c := h.c
	seed := c.Cfg.Seed
	gw := c.Funded.Eth
	lz := uint32(c.LzID)
	asset := c.AssetIDs[0]
	// AVS F (fails) is iterated before AVS G; inside F operator P (fine) is iterated before operator Q (faulty)
	avsF, avsG := orderedActors(seed, "itemAVS", func(a, b Actor) bool { return strings.Compare(string(a.Eth.Bytes()), string(b.Eth.Bytes())) < 0 })
	opP, opQ := orderedActors(seed, "itemVpOp", func(a, b Actor) bool { return a.Acc.String() < b.Acc.String() })
	st := NewActor(seed, "itemVpStaker", 0)
	for _, a := range []Actor{avsF, avsG} {
		if err := xbFund(c, a.Acc, 10); err != nil {
			h.env.Note("items-setup-failed:" + loop)
			return
		}
	}
	ok := h.registerPlainOperator(opP, "itemOpP") && h.registerPlainOperator(opQ, "itemOpQ")
	ok = ok && h.evm("assets.depositLST", gw, xbAssetsAddr, h.abis.assets, "depositLST", lz, h.assetBytes(0), pad32(st.Eth.Bytes()), big.NewInt(100_000_000)) == "ok"
	ok = ok && h.evm("delegation.delegate", gw, xbDelegAddr, h.abis.deleg, "delegate", lz, uint64(0x300), h.assetBytes(0), pad32(st.Eth.Bytes()), []byte(opP.Acc.String()), big.NewInt(50_000_000)) == "ok"
	for i, a := range []Actor{avsF, avsG} {
		ok = ok && h.evm("avs.registerAVS", a.Eth, xbAvsAddr, h.abis.avs, "registerAVS", a.Eth, fmt.Sprintf("itemAVS%d", i), uint64(1), a.Eth,
			NewActor(seed, "itemSlashC", i).Eth, NewActor(seed, "itemRewardC", i).Eth, []string{a.Acc.String()}, []string{asset},
			uint64(2), uint64(0), "minute", []uint64{1, 1, 5, 5}) == "ok"
	}
	ok = ok && h.evm("avs.registerOperatorToAVS", avsF.Eth, xbAvsAddr, h.abis.avs, "registerOperatorToAVS", opP.Eth) == "ok"
	ok = ok && h.evm("avs.registerOperatorToAVS", avsF.Eth, xbAvsAddr, h.abis.avs, "registerOperatorToAVS", opQ.Eth) == "ok"
	ok = ok && h.evm("avs.registerOperatorToAVS", avsG.Eth, xbAvsAddr, h.abis.avs, "registerOperatorToAVS", opP.Eth) == "ok"
	if !ok {
		h.env.Note("items-setup-failed:" + loop)
		return
	}
	// the fault: operator Q's pool row claims more operator shares than the pool has shares
	if err := c.App.AssetsKeeper.UpdateOperatorAssetState(c.Ctx, opQ.Acc, asset, assetstypes.DeltaOperatorSingleAsset{OperatorShare: sdkmath.LegacyNewDec(5)}); err != nil {
		h.env.Note("items-injection-refused:" + loop)
		return
	}
	h.inject(loop, fmt.Sprintf("operator %s: OperatorShare of %s raised to 5 with TotalShare 0 through AssetsKeeper.UpdateOperatorAssetState; AVS %s (operators %s, then %s) is updated before AVS %s (operator %s) at the end of the minute epoch",
		opQ.Acc, asset, avsF.Eth.Hex(), opP.Acc, opQ.Acc, avsG.Eth.Hex(), opP.Acc))
	// which step refuses (on a branch that is dropped)
	step := "IterateOperatorsForAVS(update)"
	var probeErr error
	_ = c.CachedDo(func(ctx sdk.Context) error {
		probeErr = c.App.OperatorKeeper.UpdateVotingPower(ctx, avsF.Eth.String())
		return fmt.Errorf("probe only")
	})
	usd := func(ctx sdk.Context, avs Actor) string {
		v, err := c.App.OperatorKeeper.GetAVSUSDValue(ctx, avs.Eth.String())
		if err != nil {
			return "-"
		}
		return v.String()
	}
	g0 := usd(c.Ctx, avsG)
	s := h.itemSplitBlock(61*time.Second, nil)
	if s.halt != "" {
		return
	}
	g1 := usd(c.Ctx, avsG)
	failed := probeErr != nil && strings.Contains(probeErr.Error(), "stakerShare")
	later := g1 != g0 && g1 != "-" && g1 != sdkmath.LegacyZeroDec().String()
	fHex := avsF.Eth.Hex()[2:]
	idents := []string{hexOf(strings.ToLower(fHex)), hexOf(fHex), hex.EncodeToString(avsF.Eth.Bytes())}
	tr := itemTrace(s.beforeBegin, s.afterBegin, idents)
	h.hist = append(h.hist, fmt.Sprintf("voting power of the later AVS %s: %s -> %s; UpdateVotingPower(first AVS) on a dropped branch: %v", avsG.Eth.Hex(), g0, g1, probeErr))
	h.itemVerdict(loop, step, failed, later, tr, "two AVSs end their epoch in one block, the first one's second operator has an inconsistent pool row")
}

// ---- loop 3: one slash (SDK evidence / slashing BeginBlockers → dogfood → x/operator Slash)
func (h *atomH) itemsSlash() {
	const loop = "sdk.BeginBlock.slash"
	c := h.c
	if len(c.Operators) < 2 {
		return
	}
	h.block(time.Second)
	op0, op1 := c.Operators[0], c.Operators[1]
	infrH := c.Ctx.BlockHeight() - 1
	infr := stakingtypes.Infraction_INFRACTION_DOWNTIME
	slashID := operatorkeeper.GetSlashIDForDogfood(infr, infrH)
	contract, _ := c.App.AVSManagerKeeper.GetAVSSlashContract(c.Ctx, c.AVSAddr)
	// the fault: a slash record under validator 0's slash id exists already
	if err := c.App.OperatorKeeper.UpdateOperatorSlashInfo(c.Ctx, op0.Acc.String(), c.AVSAddr, slashID, operatortypes.OperatorSlashInfo{
		SlashType: uint32(infr), SlashContract: contract, SubmittedHeight: c.Ctx.BlockHeight(), EventHeight: infrH, SlashProportion: sdkmath.LegacyNewDecWithPrec(1, 2)}); err != nil {
		h.env.Note("items-injection-refused:" + loop)
		return
	}
	h.inject(loop, fmt.Sprintf("a slash record %s/%s/%s stored through OperatorKeeper.UpdateOperatorSlashInfo without a slash; then SlashWithInfractionReason(downtime, height %d, 5%%) for validator 0 (%s) and validator 1 (%s) on the block's context, as the SDK's BeginBlockers call it",
		op0.Acc, c.AVSAddr, slashID, infrH, op0.Acc, op1.Acc))
	pool := func(op Actor) string {
		info, err := c.App.AssetsKeeper.GetOperatorSpecifiedAssetInfo(c.Ctx, op.Acc, c.AssetIDs[0])
		if err != nil {
			return "-"
		}
		return info.TotalAmount.String()
	}
	p0, p1 := pool(op0), pool(op1)
	before := xbSnapshot(c, c.Ctx, false)
	pan := ""
	h.lastErr = ""
	func() {
		defer func() {
			if r := recover(); r != nil {
				pan = fmt.Sprint(r)
			}
		}()
		for i, o := range []Actor{op0, op1} {
			_ = o
			c.App.StakingKeeper.SlashWithInfractionReason(c.Ctx, c.ConsKeys[i].ToConsAddr(), infrH, c.Cfg.Powers[i], sdk.NewDecWithPrec(5, 2), infr)
		}
	}()
	if pan != "" {
		h.env.Note("items-halt:" + loop)
		h.hist = append(h.hist, "panic in SlashWithInfractionReason: "+pan)
		return
	}
	after := xbSnapshot(c, c.Ctx, false)
	q0, q1 := pool(op0), pool(op1)
	failed := strings.Contains(h.lastErr, "slashInfoKey")
	later := q1 != p1
	h.hist = append(h.hist, fmt.Sprintf("pool of validator 0: %s -> %s, of validator 1: %s -> %s; logged: %.120s", p0, q0, p1, q1, h.lastErr))
	idents := []string{hexOf(op0.Acc.String()), hex.EncodeToString(op0.Acc.Bytes()), hexOf(StakerIDOf(c.LzID, op0.Eth))}
	h.itemVerdict(loop, "Has(slashInfoKey)", failed, later, itemTrace(before, after, idents),
		"two validators are slashed in one block, the first one's slash id is already on record")
}

// ---- loop 4: one task statistic (x/avs AfterEpochEnd)
func (h *atomH) itemsTaskStatistic() {
	const loop = "avs.AfterEpochEnd.groupedTasks"
	c := h.c
	seed := c.Cfg.Seed
	avsT := NewActor(seed, "itemAvsT", 0) // AVS = task contract = its only owner
	op := c.Operators[1]
	if err := xbFund(c, avsT.Acc, 10); err != nil {
		return
	}
	ok := h.evm("avs.registerAVS", avsT.Eth, xbAvsAddr, h.abis.avs, "registerAVS", avsT.Eth, "itemAvsT", uint64(1), avsT.Eth,
		NewActor(seed, "itemSlashT", 0).Eth, NewActor(seed, "itemRewardT", 0).Eth, []string{avsT.Acc.String()}, []string{c.AssetIDs[0]},
		uint64(2), uint64(0), "minute", []uint64{1, 1, 5, 5}) == "ok"
	ok = ok && h.evm("avs.registerOperatorToAVS", avsT.Eth, xbAvsAddr, h.abis.avs, "registerOperatorToAVS", op.Eth) == "ok"
	sk := detBLS(seed, 91)
	m32 := [32]byte{9, 1}
	ok = ok && h.evm("avs.registerBLSPublicKey", op.Eth, xbAvsAddr, h.abis.avs, "registerBLSPublicKey", op.Eth, "itemOp", sk.PublicKey().Marshal(), sk.Sign(m32[:]).Marshal(), m32[:]) == "ok"
	if !ok {
		h.env.Note("items-setup-failed:" + loop)
		return
	}
	// the AVS gets its voting power at the end of its (minute) epoch
	h.itemSplitBlock(61*time.Second, nil)
	h.itemSplitBlock(61*time.Second, nil)
	for i := 1; i <= 2; i++ {
		ok = ok && h.evm("avs.createTask", avsT.Eth, xbAvsAddr, h.abis.avs, "createTask", avsT.Eth, fmt.Sprintf("itemTask%d", i), []byte(fmt.Sprintf("item-task-hash-%d", i)), uint64(1), uint64(2), uint64(60), uint64(1)) == "ok"
	}
	if !ok {
		h.env.Note("items-setup-failed:" + loop + ":createTask")
		return
	}
	taskAddr := avsT.Eth.String()
	// task 2: a signed phase-one result of the operator, through the keeper entry point of MsgSubmitTaskResult
	resp := respJSON(2, 100)
	digest := crypto.Keccak256Hash(resp)
	if h.keeper("avs.SetTaskResultInfo", "keeper SetTaskResultInfo task 2 phase one", func(ctx sdk.Context) error {
		return c.App.AVSManagerKeeper.SetTaskResultInfo(ctx, op.Acc.String(), &avstypes.TaskResultInfo{TaskContractAddress: taskAddr, OperatorAddress: op.Acc.String(), TaskId: 2,
			BlsSignature: sk.Sign(digest[:]).Marshal(), Stage: avstypes.TwoPhaseCommitOne})
	}) != "ok" {
		h.env.Note("items-setup-failed:" + loop + ":result")
		return
	}
	// the fault: the only result of task 1 carries no signature (cannot be submitted any more: F-11b)
	info := &avstypes.TaskResultInfo{OperatorAddress: op.Acc.String(), TaskContractAddress: taskAddr, TaskId: 1, Stage: avstypes.TwoPhaseCommitOne}
	st := prefix.NewStore(c.Ctx.KVStore(c.App.GetKey(avstypes.StoreKey)), avstypes.KeyPrefixTaskResult)
	st.Set(assetstypes.GetJoinedStoreKey(op.Acc.String(), taskAddr, "1"), c.App.AppCodec().MustMarshal(info))
	h.inject(loop, fmt.Sprintf("a phase-one result of operator %s for task 1 of %s WITHOUT signature written straight into the x/avs store; task 2 holds a signed result; both statistical periods end with the same epoch", op.Acc, taskAddr))
	taskRow := func(snap Snapshot, id int) string {
		for k, v := range snap["avs"] {
			bz, err := hex.DecodeString(k)
			if err != nil || len(bz) == 0 {
				continue
			}
			if bz[0] == avstypes.KeyPrefixAVSTaskInfo[0] && strings.HasSuffix(strings.ToLower(string(bz[1:])), strings.ToLower(taskAddr)+"/"+fmt.Sprint(id)) {
				return v
			}
		}
		return ""
	}
	group1InList, processed2, changed1 := false, false, false
	for i := 0; i < 6 && !processed2; i++ {
		// is the faulty group part of this epoch end's work list? (read before the block, on a dropped branch)
		s := h.itemSplitBlock(61*time.Second, nil)
		if s.halt != "" {
			return
		}
		if taskRow(s.beforeBegin, 1) != taskRow(s.afterBegin, 1) {
			changed1 = true
		}
		if taskRow(s.beforeBegin, 2) != taskRow(s.afterBegin, 2) {
			processed2 = true
			// the faulty result was in the iterated list iff it is stored and its task shares the window of task 2
			t1, e1 := c.App.AVSManagerKeeper.GetTaskInfo(c.Ctx, "1", taskAddr)
			t2, e2 := c.App.AVSManagerKeeper.GetTaskInfo(c.Ctx, "2", taskAddr)
			group1InList = e1 == nil && e2 == nil && t1.StartingEpoch+t1.TaskResponsePeriod+t1.TaskStatisticalPeriod == t2.StartingEpoch+t2.TaskResponsePeriod+t2.TaskStatisticalPeriod &&
				c.App.AVSManagerKeeper.IsExistTaskResultInfo(c.Ctx, op.Acc.String(), taskAddr, 1)
		}
	}
	var tr []string
	if changed1 {
		tr = []string{"avs:taskInfo " + taskAddr + "/1"}
	}
	h.itemVerdict(loop, "len(signedOperatorList)==0", group1InList, processed2, tr,
		"two tasks end their statistical period with one epoch, the first one's only result is unsigned")
}

var _ = common.Address{}
