package main

// C15 — "… notifications are delivered … to subscribers in the fixed order distribution, operator,
// dogfood, mint, AVS": OBSERVATIONS of the delivery order on the running application, independent
// of the text of app/app.go (the fact `epochHookOrder` pins only the source text).
//
//   (1) wiring      the subscriber list the running app's epochs keeper actually holds:
//                   App.EpochsKeeper.Hooks() is a types.MultiEpochHooks (a slice); the module of every
//                   element is read by reflection (…/x/<module>/keeper.EpochsHooksWrapper).
//   (2) fan-out     the real types.MultiEpochHooks.{AfterEpochEnd,BeforeEpochStart} driven with five
//                   recording subscribers: every subscriber gets every notification exactly once, in
//                   list order, with the identifier and number unchanged.
//   (3) distribution before mint, from state AND from the bank events of ResponseBeginBlock: with
//                   feedistribution and exomint on the same identifier, at end(n) the whole
//                   fee-collector balance of before the block is swept and the reward minted now
//                   stays in the fee collector (distributed at end(n+1)); with mint first the reward
//                   of n is swept in the same block and the fee collector is empty afterwards.
//                   The `transfer` events fee_collector→feedistribution and exomint→fee_collector
//                   appear in delivery order between epoch_end and epoch_start.
//   (4) distribution before operator, from state: AllocateTokensToStakers counts a staker's power for
//                   an AVS only if the operator's STORED ActiveUSDValue for that AVS is non-zero, and
//                   the operator subscriber is what stores it (UpdateVotingPower). In the epoch in
//                   which an operator opted in to a second AVS the stored value is still zero when
//                   distribution runs first ("there isn't any reward in the opted-in epoch"), and
//                   already non-zero when the operator subscriber ran first; the stakers' booked
//                   rewards tell the two apart.
//
// Not observable from state or events (checked by reading the five AfterEpochEnd bodies): the
// position of dogfood relative to anyone (its subscriber reads and writes only x/dogfood's own queues
// and emits no event; the validator update that uses the USD values happens in EndBlock, after ALL
// subscribers), mint relative to operator/dogfood/AVS (bank vs. operator/avs stores), AVS relative
// to distribution/dogfood/mint. Those pairs are covered by (1)+(2) only.
//
// The op/observation stream is replayed by lean/ExoVerif/Driver/EpochsOrder.lean over
// Model/EpochsOrder.lean (`hookOrder`, `fanOut`, `notifyAll`); the consequence theorems are in
// Props/C15Order.lean.

import (
	"fmt"
	"math/big"
	"reflect"
	"strings"
	"time"

	sdkmath "cosmossdk.io/math"
	abci "github.com/cometbft/cometbft/abci/types"
	sdk "github.com/cosmos/cosmos-sdk/types"
	authtypes "github.com/cosmos/cosmos-sdk/x/auth/types"
	banktypes "github.com/cosmos/cosmos-sdk/x/bank/types"

	"github.com/ExocoreNetwork/exocore/utils"
	avstypes "github.com/ExocoreNetwork/exocore/x/avs/types"
	epochstypes "github.com/ExocoreNetwork/exocore/x/epochs/types"
	exominttypes "github.com/ExocoreNetwork/exocore/x/exomint/types"
	distrtypes "github.com/ExocoreNetwork/exocore/x/feedistribution/types"
)

func init() { register("epochsorder", domEpochsOrder) }

const orderMonitor = "C15.subscriber-order"

// the order of the property text, and the Go module (x/<module>) behind every name
var orderSpec = []string{"distribution", "operator", "dogfood", "mint", "avs"}
var orderModuleName = map[string]string{
	"feedistribution": "distribution", "operator": "operator", "dogfood": "dogfood", "exomint": "mint", "avs": "avs",
}

// orderSubscribers reads the subscriber list of the running app's epochs keeper.
func orderSubscribers(h epochstypes.EpochHooks) []string {
	var out []string
	if multi, ok := h.(epochstypes.MultiEpochHooks); ok {
		for _, x := range multi {
			out = append(out, orderSubscribers(x)...)
		}
		return out
	}
	if h == nil {
		return []string{"?nil"}
	}
	t := reflect.TypeOf(h)
	for t.Kind() == reflect.Ptr {
		t = t.Elem()
	}
	pkg := t.PkgPath() // github.com/ExocoreNetwork/exocore/x/<module>/keeper
	mod := pkg
	if i := strings.Index(pkg, "/x/"); i >= 0 {
		mod = pkg[i+3:]
		if j := strings.IndexByte(mod, '/'); j >= 0 {
			mod = mod[:j]
		}
	}
	if n, ok := orderModuleName[mod]; ok {
		return []string{n}
	}
	return []string{"?" + mod + "." + t.Name()}
}

// orderProbe is a recording subscriber.
type orderProbe struct {
	name string
	log  *[]string
}

func (p orderProbe) AfterEpochEnd(_ sdk.Context, id string, n int64) {
	*p.log = append(*p.log, fmt.Sprintf("%s<E:%s:%d", p.name, id, n))
}

func (p orderProbe) BeforeEpochStart(_ sdk.Context, id string, n int64) {
	*p.log = append(*p.log, fmt.Sprintf("%s<S:%s:%d", p.name, id, n))
}

type orderRunner struct {
	env  *Env
	c    *Chain
	h    *distrHistCfg
	hist []string
	// module accounts
	fcAddr, distrAddr, mintAddr string
	// statistics
	sharedEnds, observable int
	mintFirstSeen          bool        // one report per history is enough
	late                   []Violation // wiring / fan-out violations, reported after the behavioural ones
}

func (r *orderRunner) op(op, obs string) {
	r.env.Op(op, obs)
	r.hist = append(r.hist, op)
}

func (r *orderRunner) violateLate(sig, what string) {
	r.late = append(r.late, Violation{Monitor: orderMonitor, Sig: sig, What: what})
}

// orderReported: a wiring / fan-out failure is the same in every history of a run; it is reported
// once (the report keeps at most 50 violations).
var orderReported = map[string]bool{}

func (r *orderRunner) finish() {
	for _, v := range r.late {
		if orderReported[v.Sig+"|"+v.What] {
			continue
		}
		orderReported[v.Sig+"|"+v.What] = true
		r.env.Violate(v.Monitor, v.Sig, v.What, r.hist)
	}
	r.late = nil
}

// start emits the reset, the wiring and fan-out observations, and the initial state.
func (r *orderRunner) start(tag string, rng *RNG) {
	c, h, env := r.c, r.h, r.env
	ak := c.App.AccountKeeper
	r.fcAddr = ak.GetModuleAddress(authtypes.FeeCollectorName).String()
	r.distrAddr = ak.GetModuleAddress(distrtypes.ModuleName).String()
	r.mintAddr = ak.GetModuleAddress(exominttypes.ModuleName).String()
	r.op("order.reset", "ok")
	r.op("order.note "+tag, "ok")
	// (1) wiring
	subs := orderSubscribers(c.App.EpochsKeeper.Hooks())
	r.op("order.subscribers", strings.Join(subs, ","))
	env.Eval(orderMonitor)
	if strings.Join(subs, ",") != strings.Join(orderSpec, ",") {
		r.violateLate("wiring", fmt.Sprintf("the running app's epochs keeper notifies its subscribers in the order [%s], the property fixes [%s]",
			strings.Join(subs, ", "), strings.Join(orderSpec, ", ")))
	}
	// (2) fan-out of the real MultiEpochHooks over recording subscribers
	var evs []string
	for k := 1 + rng.Intn(3); k > 0; k-- {
		id := []string{"day", "minute", "x0", "week"}[rng.Intn(4)]
		n := int64(1 + rng.Intn(1000))
		if rng.Chance(1, 2) {
			evs = append(evs, fmt.Sprintf("E:%s:%d", id, n), fmt.Sprintf("S:%s:%d", id, n+1))
		} else if rng.Chance(1, 2) {
			evs = append(evs, fmt.Sprintf("S:%s:%d", id, n))
		} else {
			evs = append(evs, fmt.Sprintf("E:%s:%d", id, n))
		}
	}
	var log []string
	var probes []epochstypes.EpochHooks
	for _, n := range orderSpec {
		probes = append(probes, orderProbe{name: n, log: &log})
	}
	multi := epochstypes.NewMultiEpochHooks(probes...)
	var want []string
	for _, ev := range evs {
		f := strings.Split(ev, ":")
		var num int64
		fmt.Sscan(f[2], &num)
		if f[0] == "E" {
			multi.AfterEpochEnd(c.Ctx, f[1], num)
		} else {
			multi.BeforeEpochStart(c.Ctx, f[1], num)
		}
		for _, n := range orderSpec {
			want = append(want, n+"<"+ev)
		}
	}
	r.op("order.fanout "+strings.Join(evs, ","), strings.Join(log, ","))
	env.Eval(orderMonitor)
	if strings.Join(log, ",") != strings.Join(want, ",") {
		r.violateLate("fanout", fmt.Sprintf("MultiEpochHooks delivered [%s], want every subscriber once per notification in list order [%s]",
			strings.Join(log, " "), strings.Join(want, " ")))
	}
	// initial state
	r.op(fmt.Sprintf("order.cfg %s %s %s", h.distrID, h.mintID, h.reward), "ok")
	for _, e := range c.App.EpochsKeeper.AllEpochInfos(c.Ctx) {
		st := 0
		if e.EpochCountingStarted {
			st = 1
		}
		r.op(fmt.Sprintf("order.epoch %s %d %d %d %d %d %d", e.Identifier, tns(e.StartTime), int64(e.Duration), e.CurrentEpoch, tns(e.CurrentEpochStartTime), st, e.CurrentEpochStartHeight), "ok")
	}
	s := readDistr(c, c.Ctx)
	r.op(fmt.Sprintf("order.bal %s %s", s.FC, s.Distr), "ok")
}

func (r *orderRunner) fee(amt *big.Int) {
	c := r.c
	err := c.CachedDo(func(ctx sdk.Context) error {
		return c.App.BankKeeper.SendCoinsFromAccountToModule(ctx, c.Funded.Acc, authtypes.FeeCollectorName,
			sdk.NewCoins(sdk.NewCoin(utils.BaseDenom, sdkmath.NewIntFromBigInt(amt))))
	})
	if err != nil {
		r.env.Outcome("fee:rej")
		return
	}
	r.env.Outcome("fee:ok")
	r.op("order.fee "+amt.String(), "ok")
}

func orderAttr(ev abci.Event, key string) string {
	for _, a := range ev.Attributes {
		if a.Key == key {
			return a.Value
		}
	}
	return ""
}

func orderNativeAmount(s string) string {
	if s == "" {
		return "0"
	}
	coins, err := sdk.ParseCoinsNormalized(s)
	if err != nil {
		return "?" + s
	}
	return coins.AmountOf(utils.BaseDenom).String()
}

// orderTrace turns the events of ResponseBeginBlock into the delivery trace: epoch notifications
// (E:id:n / S:id:n) and, in between, the coin movements of the two coin-moving subscribers as the
// bank module recorded them (D:amount = fee collector → distribution account, M:amount = exomint
// account → fee collector).
func (r *orderRunner) orderTrace(evs []abci.Event) []string {
	var out []string
	for _, ev := range evs {
		switch ev.Type {
		case epochstypes.EventTypeEpochEnd:
			out = append(out, "E:"+orderAttr(ev, epochstypes.AttributeEpochIdentifier)+":"+orderAttr(ev, epochstypes.AttributeEpochNumber))
		case epochstypes.EventTypeEpochStart:
			out = append(out, "S:"+orderAttr(ev, epochstypes.AttributeEpochIdentifier)+":"+orderAttr(ev, epochstypes.AttributeEpochNumber))
		case banktypes.EventTypeTransfer:
			from, to := orderAttr(ev, banktypes.AttributeKeySender), orderAttr(ev, banktypes.AttributeKeyRecipient)
			switch {
			case from == r.fcAddr && to == r.distrAddr:
				out = append(out, "D:"+orderNativeAmount(orderAttr(ev, sdk.AttributeKeyAmount)))
			case from == r.mintAddr && to == r.fcAddr:
				out = append(out, "M:"+orderNativeAmount(orderAttr(ev, sdk.AttributeKeyAmount)))
			}
		}
	}
	return out
}

// block ends the current block and begins the next one at +d; false when the chain halted.
// `mid` sees the committed state BeginBlock starts from.
func (r *orderRunner) block(d time.Duration, mid func(ctx sdk.Context)) (ok bool, before, after *distrSnap) {
	c, env, h := r.c, r.env, r.h
	before = readDistr(c, c.Ctx)
	res := distrStep(c, d, mid)
	op := fmt.Sprintf("order.block %d %d", c.Header.Time.UnixNano(), c.Header.Height)
	if res.Halt != "" {
		r.op(op, "halt")
		env.Violate("C15.halt", "halt", "block processing panicked: "+res.Halt, r.hist)
		return false, before, nil
	}
	after = readDistr(c, c.Ctx)
	trace := r.orderTrace(res.Begin.Events)
	r.op(op, fmtEpochInfos(c.App.EpochsKeeper.AllEpochInfos(c.Ctx))+"|"+strings.Join(trace, ",")+"|"+after.FC.String()+" "+after.Distr.String())

	// ---- (3) distribution before mint, on a block with exactly one end of the shared identifier
	if h.distrID != h.mintID {
		env.Outcome("block:identifiers-differ")
		return true, before, after
	}
	ends := 0
	iE := -1
	for i, t := range trace {
		if strings.HasPrefix(t, "E:"+h.distrID+":") {
			ends++
			iE = i
		}
	}
	if ends != 1 {
		env.Outcome(fmt.Sprintf("block:shared-ends=%d", ends))
		return true, before, after
	}
	r.sharedEnds++
	if h.reward.Sign() == 0 {
		env.Outcome("block:shared-end,zero-reward(order unobservable)")
		return true, before, after
	}
	r.observable++
	env.Eval(orderMonitor)
	// witness A: the bank events between epoch_end and the next notification
	iD, iM := -1, -1
	for i := iE + 1; i < len(trace) && trace[i][0] != 'E' && trace[i][0] != 'S'; i++ {
		if trace[i][0] == 'D' && iD < 0 {
			iD = i
		}
		if trace[i][0] == 'M' && iM < 0 {
			iM = i
		}
	}
	evWitness := "none"
	if iD >= 0 && iM >= 0 {
		if iD < iM {
			evWitness = "distribution-first"
		} else {
			evWitness = "mint-first"
		}
	}
	// witness B: balances before/after the block
	moved := new(big.Int).Sub(after.Distr, before.Distr)
	stWitness := "unclassified"
	switch {
	case moved.Cmp(before.FC) == 0 && after.FC.Cmp(h.reward) == 0:
		stWitness = "distribution-first"
	case moved.Cmp(new(big.Int).Add(before.FC, h.reward)) == 0 && after.FC.Sign() == 0:
		stWitness = "mint-first"
	}
	env.Outcome("block:shared-end,events=" + evWitness + ",state=" + stWitness)
	if (evWitness == "mint-first" || stWitness == "mint-first") && !r.mintFirstSeen {
		r.mintFirstSeen = true
		env.Violate(orderMonitor, "mint-before-distribution", fmt.Sprintf(
			"end of %s epoch (distribution and mint both listen to it): fee collector held %s before the block, reward %s: %s moved to the distribution account and %s left in the fee collector "+
				"(distribution first: moved %s, left %s); delivery trace of BeginBlock [%s] — the mint subscriber was notified before the distribution subscriber, the reward of the ending epoch was distributed in the same block",
			h.distrID, before.FC, h.reward, moved, after.FC, before.FC, h.reward, strings.Join(trace, " ")), r.hist)
	}
	return true, before, after
}

func domEpochsOrder(env *Env) error {
	n := env.Int("histories", 8)
	maxBlocks := env.Int("blocks", 10)
	// splitmix streams of neighbouring seeds are shifts of one another by (seed difference) draws and
	// re-synchronise as soon as two runs consumed that many draws more or less; start from a mixed
	// 64-bit value instead so that seeds 1, 2, 3 give unrelated histories
	rng := NewRNG(NewRNG(env.Report.Seed).U64() ^ 0xC15C15)
	env.Report.Domain = "epochsorder"

	ids := []string{epochstypes.MinuteEpochID, epochstypes.HourEpochID, epochstypes.DayEpochID}
	for hi := 0; hi < n; hi++ {
		if hi == 1 {
			// the directed two-AVS history runs right after the directed history 0
			orderScenarioDistrVsOperator(env, rng)
		}
		seed := env.Report.Seed*1000 + uint64(hi)
		cfg := DefaultCfg(seed)
		h := &distrHistCfg{cfg: cfg, shrink: map[string]time.Duration{}, tax: new(big.Int).Mul(big.NewInt(2), pow10(16))}
		directed := hi == 0
		if directed {
			// the seed's demonstration: everything on "minute", reward 20, consecutive epochs
			h.distrID, h.mintID, h.cfg.EpochID = epochstypes.MinuteEpochID, epochstypes.MinuteEpochID, epochstypes.MinuteEpochID
			h.reward = big.NewInt(20)
		} else {
			shared := ids[rng.Intn(len(ids))]
			h.distrID, h.mintID = shared, shared
			if rng.Chance(1, 5) { // independent identifiers: store order decides, replayed by the model
				h.mintID = ids[rng.Intn(len(ids))]
			}
			// dogfood (hence the operator subscriber's AVS) on the same identifier in 2 of 3 histories:
			// all five subscribers then act on the same notification
			if rng.Chance(2, 3) {
				h.cfg.EpochID = shared
			} else {
				h.cfg.EpochID = epochstypes.WeekEpochID
			}
			switch rng.Intn(8) {
			case 0:
				h.reward = big.NewInt(0)
			case 1:
				h.reward = big.NewInt(1)
			case 2:
				h.reward = big.NewInt(20)
			case 3:
				h.reward = new(big.Int).Add(bigPrec, big.NewInt(7))
			case 4:
				h.reward = pow10(30)
			default:
				h.reward = new(big.Int).Add(rng.BigBelow(pow10(24)), big.NewInt(1))
			}
			if rng.Chance(1, 3) {
				h.shrink[epochstypes.HourEpochID] = time.Duration(2+rng.Intn(5)) * time.Minute
				h.shrink[epochstypes.DayEpochID] = time.Duration(7+rng.Intn(20)) * time.Minute
			}
		}
		c := distrBoot(h)
		r := &orderRunner{env: env, c: c, h: h}
		r.start(fmt.Sprintf("history-%d", hi), rng)
		nb := 4 + rng.Intn(maxBlocks)
		if directed {
			nb = 4
		}
		for b := 0; b < nb; b++ {
			if !directed && rng.Chance(2, 3) {
				var amt *big.Int
				switch rng.Intn(5) {
				case 0:
					amt = big.NewInt(1)
				case 1:
					amt = new(big.Int).Add(bigPrec, big.NewInt(1))
				case 2:
					amt = big.NewInt(int64(1 + rng.Intn(1000)))
				default:
					amt = new(big.Int).Add(rng.BigBelow(pow10(20)), big.NewInt(1))
				}
				r.fee(amt)
			}
			if directed && b == 2 {
				r.fee(big.NewInt(1000))
			}
			var d time.Duration
			var shared epochstypes.EpochInfo
			for _, e := range c.App.EpochsKeeper.AllEpochInfos(c.Ctx) {
				if e.Identifier == h.distrID {
					shared = e
				}
			}
			end := shared.CurrentEpochStartTime.Add(shared.Duration)
			untilEnd := end.Sub(c.Header.Time)
			pick := rng.Pick(6, 2, 1, 1)
			if directed {
				pick = 0
			}
			switch pick {
			case 0: // just after the end of the shared identifier's epoch: exactly one end
				d = untilEnd + time.Duration(1+rng.Intn(1000))
				if untilEnd < 0 { // catching up: any step ends one more epoch
					d = time.Duration(1 + rng.Intn(5))
				}
			case 1: // inside the epoch
				d = time.Duration(1+rng.Intn(20)) * time.Second
			case 2: // exactly on the boundary: no end yet
				d = untilEnd
				if d < 0 {
					d = 0
				}
			case 3: // several durations: the clock catches up one epoch per block
				d = untilEnd + time.Duration(1+rng.Intn(3))*shared.Duration + time.Duration(rng.Intn(3))
				if d < 0 {
					d = time.Duration(rng.Intn(3))
				}
			}
			if ok, _, _ := r.block(d, nil); !ok {
				break
			}
		}
		r.finish()
		env.Report.Histories++
		if r.sharedEnds > 0 {
			env.DistinctKey(fmt.Sprintf("h%d-%s-%s-%d-%d", hi, h.distrID, h.mintID, r.sharedEnds, r.observable))
		}
		if hi < 2 {
			env.Sample(strings.Join(r.hist[:min(len(r.hist), 16)], " ; "))
		}
		env.Outcome(fmt.Sprintf("history:shared-ends>0=%v,observable>0=%v", r.sharedEnds > 0, r.observable > 0))
	}
	if n <= 1 {
		orderScenarioDistrVsOperator(env, rng)
	}
	return nil
}

// orderStakerPrediction: what AllocateTokens books to every staker when it reads the view `vals`
// (one found validator holding the whole power, no tax, no commission: the validator's portion is
// everything moved, and every staker gets floor(moved·10^18 · floor(p·10^18/total) / 10^18)).
func orderStakerPrediction(moved *big.Int, vals []distrValIn) map[string]*big.Int {
	out := map[string]*big.Int{}
	for _, v := range vals {
		if !v.Found {
			continue
		}
		pw := map[string]*big.Int{}
		tot := new(big.Int)
		for _, o := range v.Occ {
			if pw[o.Staker] == nil {
				pw[o.Staker] = new(big.Int)
			}
			pw[o.Staker].Add(pw[o.Staker], o.Power)
			tot.Add(tot, o.Power)
		}
		if tot.Sign() <= 0 {
			continue
		}
		for st, p := range pw {
			frac := new(big.Int).Mul(p, bigPrec)
			frac.Quo(frac, tot)
			x := new(big.Int).Mul(new(big.Int).Mul(moved, bigPrec), frac)
			x.Quo(x, bigPrec)
			if out[st] == nil {
				out[st] = new(big.Int)
			}
			out[st].Add(out[st], x)
		}
	}
	return out
}

func orderSameBook(a, b map[string]*big.Int) bool {
	for k, v := range a {
		if bookAt(b, k).Cmp(v) != 0 {
			return false
		}
	}
	for k, v := range b {
		if bookAt(a, k).Cmp(v) != 0 {
			return false
		}
	}
	return true
}

// orderScenarioDistrVsOperator — observation (4). One validator (operator 0, self-delegation of
// asset 0), a staker T delegating asset 1 to it; the dogfood AVS (weekly, so the validator set does
// not move) supports both assets. In the middle of a "minute" epoch a second AVS that supports ONLY
// asset 1 and also runs on "minute" is registered and operator 0 opts in: the stored USD value of
// (second AVS, operator 0) is zero until the operator subscriber's UpdateVotingPower at the end of
// that epoch. At that end the distribution subscriber, when it comes first, still reads zero and
// counts T's power once (via dogfood); had the operator subscriber been notified first it would read
// the fresh value and count T twice. Both views are computed from the committed state right before
// BeginBlock (the second one by running the REAL operator subscriber in a throw-away branch) and the
// stakers' booked rewards after the block are compared with the two predictions.
func orderScenarioDistrVsOperator(env *Env, rng *RNG) {
	cfg := DefaultCfg(env.Report.Seed*1000 + 950)
	cfg.EpochID = epochstypes.WeekEpochID
	cfg.NOperators = 1
	cfg.Powers = []int64{1000}
	cfg.Assets = append(cfg.Assets, AssetSpec{Addr: "0x2260FAC5E5542a773Aa44fBCfeDf7C193bc2C599", Decimals: 8, Price: "60000", PriceDec: 0})
	second := "0x" + strings.Repeat("2", 40)
	s := &secondAVSCfg{addr: second, epochID: epochstypes.MinuteEpochID, assetIdx: []int{1}, dogfoodIdx: []int{0, 1}}
	h := &distrHistCfg{cfg: cfg, distrID: epochstypes.MinuteEpochID, mintID: epochstypes.DayEpochID, reward: big.NewInt(0),
		tax: big.NewInt(0), rates: []*big.Int{big.NewInt(0)}, shrink: map[string]time.Duration{}, secondAVS: s}
	var c *Chain
	func() {
		defer func() {
			if rec := recover(); rec != nil {
				env.Outcome("scenario-distr-vs-operator:boot-failed")
			}
		}()
		c = distrBoot(h)
	}()
	if c == nil {
		return
	}
	r := &orderRunner{env: env, c: c, h: h}
	r.start("scenario-distribution-vs-operator", rng)
	st := NewActor(cfg.Seed, "staker", 0)
	e1 := distrDepositDelegate(c, st, 1, 0, big.NewInt(1_00000000))
	r.op(fmt.Sprintf("order.note staker %s delegates asset 1 to operator 0 ok=%v", st.Eth.Hex(), e1 == nil), "ok")
	r.fee(big.NewInt(1000000))
	ok, _, _ := r.block(61*time.Second, nil)
	e0 := c.CachedDo(func(ctx sdk.Context) error {
		if err := c.App.AVSManagerKeeper.UpdateAVSInfo(ctx, &avstypes.AVSRegisterOrDeregisterParams{
			AvsName: "second", AvsAddress: s.addr, SlashContractAddr: s.addr, RewardContractAddr: s.addr,
			AvsOwnerAddress: []string{c.Funded.Acc.String()}, AssetID: []string{c.AssetIDs[1]}, UnbondingPeriod: 2, MinSelfDelegation: 0,
			EpochIdentifier: s.epochID, MinOptInOperators: 1, MinTotalStakeAmount: 1, AvsReward: 10, AvsSlash: 10,
			CallerAddress: c.Funded.Acc.String(), Action: 1, // avskeeper.RegisterAction
		}); err != nil {
			return err
		}
		return c.App.OperatorKeeper.OptIn(ctx, c.Operators[0].Acc, s.addr)
	})
	r.op(fmt.Sprintf("order.note register second AVS (asset 1 only, minute) + operator 0 opts in ok=%v", e0 == nil), "ok")
	if e0 != nil {
		env.Note("scenario-distr-vs-operator setup: " + e0.Error()[max(0, len(e0.Error())-160):])
	}
	discriminating := 0
	for i := 0; i < 4 && ok; i++ {
		r.fee(big.NewInt(int64(1000000 + i)))
		var view1, view2 []distrValIn
		var total int64
		mid := func(ctx sdk.Context) {
			total, view1 = distrInputs(c, ctx)
			cctx, _ := ctx.CacheContext()
			if info, found := c.App.EpochsKeeper.GetEpochInfo(ctx, epochstypes.MinuteEpochID); found {
				func() {
					defer func() { _ = recover() }()
					c.App.OperatorKeeper.EpochsHooks().AfterEpochEnd(cctx, epochstypes.MinuteEpochID, info.CurrentEpoch)
				}()
			}
			_, view2 = distrInputs(c, cctx)
		}
		var before, after *distrSnap
		ok, before, after = r.block(61*time.Second, mid)
		if !ok {
			break
		}
		moved := new(big.Int).Sub(after.Distr, before.Distr)
		if total == 0 || moved.Sign() <= 0 || len(view1) != 1 || !view1[0].Found || view1[0].Power != total {
			env.Outcome("scenario-distr-vs-operator:block-not-usable")
			continue
		}
		p1, p2 := orderStakerPrediction(moved, view1), orderStakerPrediction(moved, view2)
		got := map[string]*big.Int{}
		for k, v := range after.Rewards {
			d := new(big.Int).Sub(v, bookAt(before.Rewards, k))
			if d.Sign() != 0 {
				got[k] = d
			}
		}
		if orderSameBook(p1, p2) {
			env.Outcome("scenario-distr-vs-operator:views-agree")
			continue
		}
		discriminating++
		env.Eval(orderMonitor)
		switch {
		case orderSameBook(got, p1):
			env.Outcome("scenario-distr-vs-operator:distribution-first")
		case orderSameBook(got, p2):
			env.Outcome("scenario-distr-vs-operator:operator-first")
			env.Violate(orderMonitor, "operator-before-distribution", fmt.Sprintf(
				"end of the minute epoch in which operator 0 opted in to a second AVS: the stakers were paid %s — what AllocateTokens books when the operator subscriber's UpdateVotingPower has ALREADY stored the operator's USD value for the new AVS (%s); "+
					"with distribution notified first it reads the values of the last epoch and books %s", fmtBook(got), fmtBook(p2), fmtBook(p1)), r.hist)
		default:
			env.Outcome("scenario-distr-vs-operator:unclassified")
			env.Note("scenario-distr-vs-operator: booked rewards match neither view")
		}
	}
	r.finish()
	env.Report.Histories++
	env.Outcome(fmt.Sprintf("scenario-distr-vs-operator:discriminating-blocks=%d", discriminating))
	if discriminating > 0 {
		env.DistinctKey("scenario-distr-vs-operator")
	}
}
