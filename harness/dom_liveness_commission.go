package main

// C11 — liveness, clause "such inputs end as a rejected transaction": the commission of an operator record is
// input of a transaction (RegisterOperatorReq) that unchanged code of another module multiplies in BeginBlock
// (x/feedistribution AllocateTokensToValidator: tokens.Sub(tokens.MulDec(rate)), DecCoins.Sub panics when the
// result is negative). The other liveness generators register operators with commission 0/0/0 only.
//
// One history = one fresh chain (minute epochs for x/dogfood, x/feedistribution and x/exomint, so that every epoch
// end allocates the minted coins and the collected fees):
//  1. `opreg.genesis`  the operator records the genesis file put into the store;
//  2. `opreg.vb`       Msg.ValidateBasic of generated RegisterOperatorReq values, called directly (under recover):
//                      bech32 / meta-info / approve-address variants and commission triples - mostly valid ones,
//                      values at the boundaries of EACH OTHER (rate = max rate - 10^-18, = max rate, + 10^-18,
//                      1.5 x max rate, ...), independent boundary values (negative, 0, 10^-18, 1 - 10^-18, 1,
//                      1 + 10^-18, 1.5, 2, 10^18, 2^255-1) and nil Decs;
//  3. `opreg.tx`       the same kind of requests as signed transactions through DeliverTx (a nil Dec travels as an
//                      absent protobuf field: the encoded message is rewritten), also for addresses that are
//                      registered already; `opreg.dump` = every stored operator with its three rates;
//  4. every ACCEPTED candidate - whatever its rates - is made a validator with ordinary steps (deposit,
//     association, self-delegation above the minimum, OptIntoAVSReq with a consensus key as a signed tx);
//  5. blocks over several epoch ends with a non-empty fee collector, all under recover().
// The Lean model (Model/OperatorReg.lean, driver OperatorReg) reproduces the verdicts of 2 and 3 and the store dump.
// Monitors on the real state: `C11.commission` (after every transaction every stored operator has three non-nil
// rates and 0 <= Rate <= 1 - what C17_no_halt needs of the state, proved from validation in Props/C11Commission.lean),
// `C11.halt` (no Begin/EndBlock/Commit panics). The run fails (harness error) when no history had a candidate with
// a positive rate validating at an epoch end with fees and being paid commission: the clause would not be evaluated.

import (
	"errors"
	"fmt"
	"math/big"
	"sort"
	"strings"

	sdkmath "cosmossdk.io/math"
	sdk "github.com/cosmos/cosmos-sdk/types"
	authtypes "github.com/cosmos/cosmos-sdk/x/auth/types"
	banktypes "github.com/cosmos/cosmos-sdk/x/bank/types"
	stakingtypes "github.com/cosmos/cosmos-sdk/x/staking/types"
	"github.com/ethereum/go-ethereum/common"
	"google.golang.org/protobuf/encoding/protowire"

	"encoding/json"

	"github.com/ExocoreNetwork/exocore/utils"
	assetskeeper "github.com/ExocoreNetwork/exocore/x/assets/keeper"
	assetstypes "github.com/ExocoreNetwork/exocore/x/assets/types"
	delegationtypes "github.com/ExocoreNetwork/exocore/x/delegation/types"
	epochstypes "github.com/ExocoreNetwork/exocore/x/epochs/types"
	exominttypes "github.com/ExocoreNetwork/exocore/x/exomint/types"
	distrtypes "github.com/ExocoreNetwork/exocore/x/feedistribution/types"
	operatortypes "github.com/ExocoreNetwork/exocore/x/operator/types"
)

func init() { register("liveness_commission", domLivenessCommission) }

// ---------------------------------------------------------------- generated requests

// regReq is one generated RegisterOperatorReq: the message, which rates travel as absent fields, and what the
// model is told about it.
type regReq struct {
	msg                                 *operatortypes.RegisterOperatorReq
	rate, max, change                   *big.Int // nil = nil Dec
	fromOk, infoNil, earnOk, approveEmp bool
	metaLen                             int
	earnListOk                          bool
}

func rateTok(x *big.Int) string {
	if x == nil {
		return "nil"
	}
	return x.String()
}

func (r *regReq) fields() string {
	return fmt.Sprintf("%s %s %s %d %s %s %s %s", b01(r.fromOk), b01(r.infoNil), b01(r.earnOk), r.metaLen, b01(r.approveEmp),
		rateTok(r.rate), rateTok(r.max), rateTok(r.change))
}

func decOrNil(x *big.Int) sdkmath.LegacyDec {
	if x == nil {
		return sdkmath.LegacyDec{}
	}
	return sdkmath.LegacyNewDecFromBigIntWithPrec(new(big.Int).Set(x), 18)
}

func bigRaw(s string) *big.Int { x, _ := new(big.Int).SetString(s, 10); return x }

var (
	comOne   = bigRaw("1000000000000000000")
	comBound = []*big.Int{ // independent boundary values (raw LegacyDec)
		bigRaw("-1000000000000000000"), big.NewInt(-1), big.NewInt(0), big.NewInt(1), bigRaw("50000000000000000"),
		bigRaw("500000000000000000"), bigRaw("999999999999999999"), comOne, bigRaw("1000000000000000001"),
		bigRaw("1500000000000000000"), bigRaw("2000000000000000000"), bigRaw("1000000000000000000000000000000000000"),
		new(big.Int).Sub(new(big.Int).Lsh(big.NewInt(1), 255), big.NewInt(1)),
	}
	comValidMax = []*big.Int{big.NewInt(0), big.NewInt(1), bigRaw("50000000000000000"), bigRaw("200000000000000000"),
		bigRaw("500000000000000000"), bigRaw("999999999999999999"), comOne}
)

// relTo: a value at a boundary of `m` (the other field it is compared with)
func relTo(rng *RNG, m *big.Int, valid bool) *big.Int {
	half := new(big.Int).Quo(m, big.NewInt(2))
	below := new(big.Int).Sub(m, big.NewInt(1))
	if below.Sign() < 0 {
		below = big.NewInt(0)
	}
	if valid {
		return []*big.Int{big.NewInt(0), half, below, new(big.Int).Set(m)}[rng.Intn(4)]
	}
	above := new(big.Int).Add(m, big.NewInt(1))
	x15 := new(big.Int).Quo(new(big.Int).Mul(m, big.NewInt(3)), big.NewInt(2))
	return []*big.Int{big.NewInt(0), half, below, new(big.Int).Set(m), above, x15, new(big.Int).Set(comOne),
		new(big.Int).Add(comOne, big.NewInt(1)), bigRaw("2000000000000000000"), big.NewInt(-1)}[rng.Intn(10)]
}

// genRates: mostly valid triples, triples at the boundaries of each other, independent boundary values, nil Decs.
func genRates(rng *RNG, allowNil bool) (rate, max, change *big.Int, kind string) {
	switch rng.Pick(5, 5, 3, 1) {
	case 0:
		max = comValidMax[rng.Intn(len(comValidMax))]
		return relTo(rng, max, true), max, relTo(rng, max, true), "valid"
	case 1:
		max = comValidMax[rng.Intn(len(comValidMax))]
		if rng.Chance(1, 5) {
			max = comBound[rng.Intn(len(comBound))]
		}
		rate, change = relTo(rng, max, false), relTo(rng, max, rng.Chance(2, 3))
		return rate, max, change, "relative"
	case 2:
		return comBound[rng.Intn(len(comBound))], comBound[rng.Intn(len(comBound))], comBound[rng.Intn(len(comBound))], "independent"
	}
	max = comValidMax[rng.Intn(len(comValidMax))]
	rate, change = relTo(rng, max, true), relTo(rng, max, true)
	if allowNil {
		switch rng.Intn(4) {
		case 0:
			rate = nil
		case 1:
			max = nil
		case 2:
			change = nil
		case 3:
			rate, max, change = nil, nil, nil
		}
		return rate, max, change, "nil"
	}
	return rate, max, change, "valid"
}

// genReq builds a request of `a`. txLevel: the sender string must be a's own address (the tx is signed by a).
func genReq(rng *RNG, a Actor, txLevel bool, rate, max, change *big.Int) *regReq {
	r := &regReq{rate: rate, max: max, change: change, fromOk: true, earnOk: true, metaLen: 8, earnListOk: true}
	from, earn, approve := a.Acc.String(), a.Acc.String(), a.Acc.String()
	bad := func() string {
		return []string{"", "junk", "cosmos1qypqxpq9qcrsszg2pvxq6rs0zqg3yyc5lzv7xu", strings.ToUpper(a.Acc.String()[:5]) + a.Acc.String()[5:], a.Eth.Hex()}[rng.Intn(5)]
	}
	if !txLevel && rng.Chance(1, 10) {
		from = bad()
	}
	if rng.Chance(1, 12) {
		earn = bad()
	}
	lens := []int{0, 1, 8, 2999, 3000, 3001, 70000}
	if txLevel {
		lens = []int{0, 1, 8, 3000, 3001}
	}
	if rng.Chance(1, 5) {
		r.metaLen = lens[rng.Intn(len(lens))]
	}
	if rng.Chance(1, 12) {
		approve, r.approveEmp = "", true
	} else if rng.Chance(1, 6) {
		approve = "not an address" // accepted as it is: only emptiness is checked
	}
	info := &operatortypes.OperatorInfo{
		EarningsAddr: earn, ApproveAddr: approve, OperatorMetaInfo: strings.Repeat("m", r.metaLen),
		Commission: stakingtypes.Commission{CommissionRates: stakingtypes.CommissionRates{Rate: decOrNil(rate), MaxRate: decOrNil(max), MaxChangeRate: decOrNil(change)}},
	}
	if txLevel && rng.Chance(1, 10) {
		// the handler's own check: an earnings entry for a client chain that does not exist / an empty address
		e := &operatortypes.ClientChainEarningAddrInfo{LzClientChainID: 424242, ClientChainEarningAddr: a.Eth.Hex()}
		if rng.Bool() {
			e = &operatortypes.ClientChainEarningAddrInfo{LzClientChainID: 101, ClientChainEarningAddr: ""}
		}
		info.ClientChainEarningsAddr = &operatortypes.ClientChainEarningAddrList{EarningInfoList: []*operatortypes.ClientChainEarningAddrInfo{e}}
		r.earnListOk = false
	}
	_, e1 := sdk.AccAddressFromBech32(from)
	_, e2 := sdk.AccAddressFromBech32(earn)
	r.fromOk, r.earnOk = e1 == nil, e2 == nil
	r.msg = &operatortypes.RegisterOperatorReq{FromAddress: from, Info: info}
	if rng.Chance(1, 25) {
		r.msg.Info, r.infoNil = nil, true
	}
	return r
}

// vbVerdict: Msg.ValidateBasic on the real types, as a canonical verdict.
func vbVerdict(m sdk.Msg) (v string) {
	defer func() {
		if r := recover(); r != nil {
			v = "panic"
		}
	}()
	err := m.ValidateBasic()
	if err == nil {
		return "ok"
	}
	for _, s := range []struct {
		e    error
		name string
	}{
		{stakingtypes.ErrCommissionNegative, "ErrCommissionNegative"}, {stakingtypes.ErrCommissionHuge, "ErrCommissionHuge"},
		{stakingtypes.ErrCommissionGTMaxRate, "ErrCommissionGTMaxRate"}, {stakingtypes.ErrCommissionChangeRateNegative, "ErrCommissionChangeRateNegative"},
		{stakingtypes.ErrCommissionChangeRateGTMaxRate, "ErrCommissionChangeRateGTMaxRate"}, {operatortypes.ErrParameterInvalid, "ErrParameterInvalid"},
	} {
		if errors.Is(err, s.e) {
			return "rej:" + s.name
		}
	}
	if t := err.Error(); strings.Contains(t, "ech32") || strings.Contains(t, "empty address string") {
		return "rej:bech32"
	}
	return "rej:other"
}

// ---------------------------------------------------------------- a message with absent commission fields

// rawRegisterMsg travels as /exocore.operator.v1.RegisterOperatorReq with hand-made bytes: gogoproto always writes
// the three rates of a CommissionRates value (a nil Dec is written as "0"), so a request that leaves one out has to
// be encoded by hand. The application decodes it into the real type, with a nil Dec for every absent rate.
type rawRegisterMsg struct {
	inner *operatortypes.RegisterOperatorReq
	raw   []byte
}

func (r *rawRegisterMsg) Reset()                       {}
func (r *rawRegisterMsg) String() string               { return "rawRegisterMsg" }
func (r *rawRegisterMsg) ProtoMessage()                {}
func (r *rawRegisterMsg) Marshal() ([]byte, error)     { return r.raw, nil }
func (r *rawRegisterMsg) XXX_MessageName() string      { return "exocore.operator.v1.RegisterOperatorReq" }
func (r *rawRegisterMsg) ValidateBasic() error         { return nil }
func (r *rawRegisterMsg) GetSigners() []sdk.AccAddress { return r.inner.GetSigners() }

// dropField removes field path[len-1] of the (nested, length-delimited) message reached through path[:len-1].
func dropField(bz []byte, path []protowire.Number) ([]byte, error) {
	var out []byte
	for len(bz) > 0 {
		num, typ, n := protowire.ConsumeTag(bz)
		if n < 0 {
			return nil, protowire.ParseError(n)
		}
		m := protowire.ConsumeFieldValue(num, typ, bz[n:])
		if m < 0 {
			return nil, protowire.ParseError(m)
		}
		field := bz[:n+m]
		if num == path[0] && typ == protowire.BytesType {
			if len(path) == 1 {
				bz = bz[n+m:]
				continue
			}
			val, k := protowire.ConsumeBytes(bz[n:])
			if k < 0 {
				return nil, protowire.ParseError(k)
			}
			inner, err := dropField(val, path[1:])
			if err != nil {
				return nil, err
			}
			field = protowire.AppendBytes(protowire.AppendTag(nil, num, typ), inner)
		}
		out = append(out, field...)
		bz = bz[n+m:]
	}
	return out, nil
}

// wireMsg: the sdk.Msg to sign for a request; rates that are nil are removed from the encoding.
func (r *regReq) wireMsg() (sdk.Msg, error) {
	if r.infoNil || (r.rate != nil && r.max != nil && r.change != nil) {
		return r.msg, nil
	}
	bz, err := r.msg.Marshal()
	if err != nil {
		return nil, err
	}
	for i, x := range []*big.Int{r.rate, r.max, r.change} {
		if x == nil {
			// RegisterOperatorReq.info(2) . OperatorInfo.commission(5) . Commission.commission_rates(1) . rate/max_rate/max_change_rate
			if bz, err = dropField(bz, []protowire.Number{2, 5, 1, protowire.Number(i + 1)}); err != nil {
				return nil, err
			}
		}
	}
	// the decoder must see what was meant: absent rates are nil Decs, the others are unchanged
	var back operatortypes.RegisterOperatorReq
	if err := back.Unmarshal(bz); err != nil {
		return nil, err
	}
	cr := back.Info.Commission.CommissionRates
	if cr.Rate.IsNil() != (r.rate == nil) || cr.MaxRate.IsNil() != (r.max == nil) || cr.MaxChangeRate.IsNil() != (r.change == nil) {
		return nil, fmt.Errorf("hand-made encoding does not decode to the intended nil rates")
	}
	return &rawRegisterMsg{inner: r.msg, raw: bz}, nil
}

// ---------------------------------------------------------------- the real state

func comDecRaw(d sdkmath.LegacyDec) string {
	if d.IsNil() {
		return "nil"
	}
	return d.BigInt().String()
}

// storedOperators: every record of the operator-info store with its three rates, sorted by address; bad = the
// records whose rate is not a proportion.
func storedOperators(c *Chain) (dump string, bad []string) {
	var parts []string
	for _, od := range c.App.OperatorKeeper.AllOperators(c.Ctx) {
		cr := od.OperatorInfo.Commission.CommissionRates
		parts = append(parts, fmt.Sprintf("%s=%s/%s/%s", od.OperatorAddress, comDecRaw(cr.Rate), comDecRaw(cr.MaxRate), comDecRaw(cr.MaxChangeRate)))
		if cr.Rate.IsNil() || cr.MaxRate.IsNil() || cr.MaxChangeRate.IsNil() || cr.Rate.IsNegative() || cr.Rate.GT(sdkmath.LegacyOneDec()) {
			bad = append(bad, parts[len(parts)-1])
		}
	}
	sort.Strings(parts)
	return strings.Join(parts, ","), bad
}

// inExocoreValSet: the validator set AllocateTokens will range over holds the key with power >= 1
func inExocoreValSet(c *Chain, ca sdk.ConsAddress) bool {
	for _, v := range c.App.StakingKeeper.GetAllExocoreValidators(c.Ctx) {
		if pk, err := v.ConsPubKey(); err == nil && sdk.GetConsAddress(pk).Equals(ca) && v.Power >= 1 {
			return true
		}
	}
	return false
}

func commissionCfg(seed uint64) ChainCfg {
	cfg := minuteCfg(seed)
	cfg.Mutate = func(c *Chain, gs map[string]json.RawMessage) {
		cdc := c.App.AppCodec()
		gs[distrtypes.ModuleName] = cdc.MustMarshalJSON(distrtypes.NewGenesisState(distrtypes.Params{
			EpochIdentifier: epochstypes.MinuteEpochID, CommunityTax: sdkmath.LegacyNewDecWithPrec(2, 2)}))
		mg := exominttypes.DefaultGenesis()
		mg.Params.EpochIdentifier = epochstypes.MinuteEpochID
		gs[exominttypes.ModuleName] = cdc.MustMarshalJSON(mg)
	}
	return cfg
}

type comCand struct {
	a        Actor
	idx      int
	rate     *big.Int
	consAddr sdk.ConsAddress
	staked   bool
}

type comStats struct {
	validatingPositive, paid, epochsWithFees int
}

func domLivenessCommission(env *Env) error {
	env.Report.Domain = "liveness_commission"
	seed := env.Report.Seed
	n := env.Int("histories", 6)
	var st comStats
	for hi := 0; hi < n; hi++ {
		commissionHistory(env, seed*1000+uint64(hi), hi == 0, &st)
	}
	env.Report.Outcomes["coverage.candidate-validating-with-positive-rate"] += st.validatingPositive
	env.Report.Outcomes["coverage.candidate-paid-commission"] += st.paid
	env.Report.Outcomes["coverage.epoch-ends-with-fees"] += st.epochsWithFees
	if n > 0 && len(env.Report.Violations) == 0 && (st.validatingPositive == 0 || st.paid == 0 || st.epochsWithFees == 0) {
		return fmt.Errorf("liveness_commission: no history had an accepted candidate with a positive commission rate validating at an epoch end with fees (validating=%d paid=%d epochs-with-fees=%d): the clause was not evaluated",
			st.validatingPositive, st.paid, st.epochsWithFees)
	}
	return nil
}

func commissionHistory(env *Env, seed uint64, directed bool, st *comStats) {
	rng := NewRNG(seed ^ 0xC11C0)
	nvb, nreg, tail := env.Int("vb", 60), env.Int("regs", 9), env.Int("tail", 5)
	var hist []string
	op := func(o, obs string) {
		env.Op(o, obs)
		hist = append(hist, o)
	}
	op("opreg.reset", "ok")
	env.Report.Histories++
	c := NewChainFresh(commissionCfg(seed))
	op(fmt.Sprintf("opreg.boot seed=%d epochs=minute(dogfood,feedistribution,exomint) tax=0.02 directed=%v", seed, directed), "-")
	for _, od := range c.App.OperatorKeeper.AllOperators(c.Ctx) {
		cr := od.OperatorInfo.Commission.CommissionRates
		op(fmt.Sprintf("opreg.genesis %s %s %s %s", od.OperatorAddress, comDecRaw(cr.Rate), comDecRaw(cr.MaxRate), comDecRaw(cr.MaxChangeRate)), "ok")
	}
	// A record that must not have been stored is reported once per history and AFTER the blocks that follow it, so that
	// the first violation of a history that halts is the halt itself, with the whole history.
	badStored := ""
	flushBad := func() {
		if badStored != "" {
			env.Violate("C11.commission", "stored-commission-out-of-range",
				"an operator record whose commission rate is not in [0,1] was accepted and stored (AllocateTokensToValidator subtracts tokens*rate from tokens in BeginBlock): "+badStored, hist)
			env.Outcome("history.bad-commission-stored")
			badStored = ""
		}
	}
	halted := func(h, where string) bool {
		if h == "" {
			return false
		}
		env.Violate("C11.halt", "halt:"+sigOfHalt(h), "block processing panicked after operator registrations (a node would stop): "+h+" ["+where+"]", hist)
		env.Outcome("history.halt")
		flushBad()
		return true
	}
	defer flushBad()

	// ---- 2: ValidateBasic, directly
	probe := NewActor(seed, "comprobe", 0)
	for i := 0; i < nvb; i++ {
		rate, max, change, kind := genRates(rng, true)
		r := genReq(rng, probe, false, rate, max, change)
		v := vbVerdict(r.msg)
		op("opreg.vb "+r.fields(), v)
		env.Outcome("vb." + kind + "." + strings.SplitN(v, ":", 2)[0])
		env.DistinctKey("vb " + r.fields())
	}

	// ---- 3: registrations through DeliverTx
	type triple struct{ rate, max, change *big.Int }
	var plan []triple
	if directed {
		eps := big.NewInt(1)
		plan = []triple{
			{bigRaw("1500000000000000000"), comOne, comOne},                 // rate 1.5, max rate 1 (seed C11-h)
			{new(big.Int).Add(comOne, eps), comOne, big.NewInt(0)},          // 1 + 10^-18
			{comOne, comOne, comOne},                                        // the largest accepted rate
			{bigRaw("50000000000000001"), bigRaw("50000000000000000"), eps}, // max rate + 10^-18 below 1
			{bigRaw("50000000000000000"), bigRaw("200000000000000000"), bigRaw("10000000000000000")},
		}
	}
	var cands []*comCand
	var accepted []*comCand
	for i := 0; i < nreg; i++ {
		var rate, max, change *big.Int
		kind := "directed"
		if i < len(plan) {
			rate, max, change = plan[i].rate, plan[i].max, plan[i].change
		} else {
			rate, max, change, kind = genRates(rng, true)
		}
		var cd *comCand
		if len(cands) > 0 && i >= len(plan) && rng.Chance(1, 6) {
			cd = cands[rng.Intn(len(cands))] // a second request of an address: registered already, or refused before
		} else {
			cd = &comCand{a: NewActor(seed, "comcand", i), idx: i}
			cands = append(cands, cd)
			if err := c.CachedDo(func(ctx sdk.Context) error {
				return c.App.BankKeeper.SendCoins(ctx, c.Funded.Acc, cd.a.Acc, sdk.NewCoins(sdk.NewCoin(utils.BaseDenom, sdkmath.NewIntWithDecimal(1, 18))))
			}); err != nil {
				op("opreg.note fund failed: "+shortErr(err), "-")
				continue
			}
		}
		r := genReq(rng, cd.a, true, rate, max, change)
		if i < len(plan) { // the directed requests are well-formed apart from the commission
			r = &regReq{rate: rate, max: max, change: change, fromOk: true, earnOk: true, metaLen: 8, earnListOk: true}
			r.msg = &operatortypes.RegisterOperatorReq{FromAddress: cd.a.Acc.String(), Info: &operatortypes.OperatorInfo{
				EarningsAddr: cd.a.Acc.String(), ApproveAddr: cd.a.Acc.String(), OperatorMetaInfo: "operator",
				Commission: stakingtypes.NewCommission(decOrNil(rate), decOrNil(max), decOrNil(change))}}
		}
		wm, err := r.wireMsg()
		if err != nil {
			op("opreg.note encoding failed: "+shortErr(err), "-")
			continue
		}
		bz, err := signedTx(c, cd.a, 1000000, wm)
		if err != nil {
			op("opreg.note signing failed: "+shortErr(err), "-")
			continue
		}
		res, h := c.DeliverRaw(bz)
		line := fmt.Sprintf("opreg.tx %s %s %s", cd.a.Acc.String(), r.fields(), b01(r.earnListOk))
		if h != "" {
			op(line, "halt")
			halted(h, "DeliverTx")
			return
		}
		verdict := "rej"
		if res.Code == 0 {
			verdict = "ok"
			cd.rate = rate
			accepted = append(accepted, cd)
		}
		op(line, verdict)
		env.Outcome("tx." + kind + "." + verdict)
		dump, bad := storedOperators(c)
		op("opreg.dump", dump)
		env.Eval("C11.commission")
		if len(bad) > 0 && badStored == "" {
			badStored = strings.Join(bad, " ")
		}
	}

	// ---- 4: every accepted candidate becomes a validator
	asset := common.HexToAddress(c.Cfg.Assets[0].Addr).Bytes()
	for _, cd := range accepted {
		usd := int64(c.Cfg.MinSelfDelegation + 1 + int64(rng.Intn(200)))
		amt := sdkmath.NewIntWithDecimal(usd, int(c.Cfg.Assets[0].Decimals))
		a := cd.a
		err := c.CachedDo(func(ctx sdk.Context) error {
			if err := c.App.AssetsKeeper.PerformDepositOrWithdraw(ctx, &assetskeeper.DepositWithdrawParams{
				ClientChainLzID: c.LzID, Action: assetstypes.DepositLST, StakerAddress: a.Eth.Bytes(), AssetsAddress: asset, OpAmount: amt}); err != nil {
				return fmt.Errorf("deposit: %w", err)
			}
			if err := c.App.DelegationKeeper.AssociateOperatorWithStaker(ctx, c.LzID, a.Acc, a.Eth.Bytes()); err != nil {
				return fmt.Errorf("associate: %w", err)
			}
			return c.App.DelegationKeeper.DelegateTo(ctx, &delegationtypes.DelegationOrUndelegationParams{
				ClientChainID: c.LzID, Action: assetstypes.DelegateTo, AssetsAddress: asset, OperatorAddress: a.Acc,
				StakerAddress: a.Eth.Bytes(), OpAmount: amt, LzNonce: uint64(500 + cd.idx), TxHash: common.BytesToHash(detBytes(seed, "comjoin", cd.idx))})
		})
		note := "ok"
		if err != nil {
			note = shortErr(err)
		} else {
			ck, _ := NewConsKey(seed, "comcons", cd.idx)
			cd.consAddr = ck.ToConsAddr()
			bz, e := signedTx(c, a, 2000000, &operatortypes.OptIntoAVSReq{FromAddress: a.Acc.String(), AvsAddress: c.AVSAddr, PublicKeyJSON: ck.ToJSON()})
			if e != nil {
				note = "optin signing: " + shortErr(e)
			} else if res, h := c.DeliverRaw(bz); h != "" {
				op(fmt.Sprintf("opreg.stake %s usd=%d (deposit, associate, delegate: keeper; OptIntoAVSReq with a consensus key: tx)", a.Acc.String(), usd), "-")
				halted(h, "DeliverTx")
				return
			} else if res.Code != 0 {
				note = fmt.Sprintf("optin code=%d", res.Code)
			} else {
				cd.staked = true
			}
		}
		op(fmt.Sprintf("opreg.stake %s usd=%d (deposit, associate, delegate: keeper; OptIntoAVSReq with a consensus key: tx) %s", a.Acc.String(), usd, note), "-")
		env.Outcome("stake." + strings.SplitN(note, ":", 2)[0])
	}

	// ---- 5: blocks over epoch ends with fees
	fc := c.App.AccountKeeper.GetModuleAddress(authtypes.FeeCollectorName)
	counted := map[int]bool{}
	for b := 0; b < tail; b++ {
		positiveValidating := false
		for _, cd := range accepted {
			if !cd.staked || cd.rate == nil || cd.rate.Sign() <= 0 {
				continue
			}
			if inExocoreValSet(c, cd.consAddr) {
				positiveValidating = true
			}
		}
		// an ordinary paid transaction in every block: its fee is what the next epoch end distributes (besides the mint)
		feeNote := "ok"
		if bz, e := signedTx(c, c.Funded, 300000, banktypes.NewMsgSend(c.Funded.Acc, probe.Acc, sdk.NewCoins(sdk.NewCoin(utils.BaseDenom, sdkmath.NewInt(int64(1+rng.Intn(1000))))))); e != nil {
			feeNote = "signing: " + shortErr(e)
		} else if res, h := c.DeliverRaw(bz); h != "" {
			op("opreg.banksend funded -> probe", "-")
			halted(h, "DeliverTx")
			return
		} else if res.Code != 0 {
			feeNote = fmt.Sprintf("code=%d", res.Code)
		}
		op("opreg.banksend funded -> probe (gas 300000 at 10^9: the fee goes to the fee collector) "+feeNote, "-")
		fees := c.App.BankKeeper.GetBalance(c.Ctx, fc, utils.BaseDenom).Amount
		op(fmt.Sprintf("opreg.block +61s (minute epoch ends; fee collector %s, accepted candidate with a positive rate validating: %v)", fees, positiveValidating), "-")
		env.Eval("C11.halt")
		r := nextMinute(c)
		if halted(r.Halt, "epoch end") {
			return
		}
		if fees.IsPositive() {
			st.epochsWithFees++
			if positiveValidating {
				st.validatingPositive++
			}
		}
		for _, cd := range accepted {
			if cd.staked && cd.rate != nil && cd.rate.Sign() > 0 && !counted[cd.idx] {
				if com := c.App.DistrKeeper.GetValidatorAccumulatedCommission(c.Ctx, sdk.ValAddress(cd.a.Acc)); com.Commission.AmountOf(utils.BaseDenom).IsPositive() {
					counted[cd.idx] = true
					st.paid++
				}
			}
		}
		if b == tail/2 { // an ordinary block between the epoch ends
			op("opreg.block +5s", "-")
			if halted(c.EndAndBegin(5e9).Halt, "block") {
				return
			}
		}
	}
	env.Outcome("history.ok")
	env.DistinctKey(fmt.Sprintf("hist accepted=%d", len(accepted)))
	if directed {
		d, _ := storedOperators(c)
		env.Sample("liveness_commission directed history: stored operators " + d)
	}
}
