package main

// C07 — directed scenario for the clause "a consensus address that has been part of the active
// validator set remains resolvable to its operator … until the unbonding epochs after its
// replacement or removal have ended" at full strength (Lean: C07_slashable_full, refuted by
// C07_slashable_full_fails; what holds is C07_slashable_partial: "in the set AT THE MOMENT of the
// replacement / opt-out").
//
// Finding candidate F-07b. x/dogfood's operator hooks decide whether a key is still at stake by
// looking at the CURRENT validator set (GetExocoreValidator):
//   AfterOperatorKeyReplaced          not found ⇒ DeleteOperatorAddressForChainIDAndConsAddr at once
//   AfterOperatorKeyRemovalInitiated  not found ⇒ CompleteOperatorKeyRemovalForChainID at once
// A key that validated during earlier epochs but dropped out of the set at an epoch end (power below
// 1, or pushed out by MaxValidators) is "not found": the moment its operator replaces it, or opts
// out, the chain→consensus-address→operator lookup is gone, although evidence for the blocks the
// key signed is admissible for the whole unbonding period. ValidatorByConsAddr returns nil (x/evidence
// and x/slashing drop the evidence), Jail does nothing, and another operator can register the key.
//
// The scenario drives the real keepers: two genesis validators; MaxValidators is lowered to 1, the
// weaker one leaves the set at the next epoch end; one block later it (shape "replace") replaces
// its key / (shape "optout") opts out. The monitor demands what the property text states: the key
// must still resolve to its operator now and until epoch (current + EpochsUntilUnbonded) has ended.
// The op/observation stream is the one of the conskeys domain, so the Lean model (which mirrors
// the code as it is) replays it line by line.

import (
	"fmt"
	"time"

	dogfoodtypes "github.com/ExocoreNetwork/exocore/x/dogfood/types"
	epochstypes "github.com/ExocoreNetwork/exocore/x/epochs/types"
)

func init() { register("conskeyshist", domConsKeysHist) }

func domConsKeysHist(env *Env) error {
	env.Report.Domain = "conskeyshist"
	scenarioF07b(env, "replace")
	scenarioF07b(env, "optout")
	probeDepartedKeyEvidence(env)
	return nil
}

// probeDepartedKeyEvidence — observation only (no monitor): a key that was in the set when it was
// replaced is kept resolvable by x/operator for the unbonding period (C07_hist_replaced_key_…), but
// x/evidence additionally asks x/slashing for the address→pubkey relation, which dogfood's
// ApplyValidatorChanges deletes (Hooks().AfterValidatorRemoved) the moment the key leaves the set.
// The note records what the real keepers answer one block after the departure.
func probeDepartedKeyEvidence(env *Env) {
	cfg := DefaultCfg(env.Report.Seed*1000 + 996)
	cfg.NOperators = 2
	cfg.Powers = []int64{300, 100}
	cfg.EpochID = epochstypes.MinuteEpochID
	cfg.EpochsUntilUnbonded = 3
	cfg.MaxValidators = 8
	cfg.MinSelfDelegation = 1
	w := newCkWorld(env, cfg, 2, 4)
	c := w.C
	const pfx = "F-07c-probe:"
	op := -1
	for o := range w.Ops {
		if w.Reg[o] && w.InValSet(c.Ctx, w.CurKey(c.Ctx, o)) {
			op = o
			break
		}
	}
	fresh := -1
	for k := range w.Keys {
		if w.RevOp(c.Ctx, k) < 0 {
			fresh = k
			break
		}
	}
	if op < 0 || fresh < 0 {
		return
	}
	old := w.CurKey(c.Ctx, op)
	ca := w.Keys[old].ToConsAddr()
	_, errBefore := c.App.SlashingKeeper.GetPubkey(c.Ctx, ca.Bytes())
	if w.doSetKey(op, fresh, pfx) != "ok" {
		return
	}
	if !w.doBlock(w.EpochDur+time.Second, pfx) || !w.doBlock(time.Second, pfx) {
		return
	}
	w.monitors(c.Ctx, "tx", pfx)
	_, errAfter := c.App.SlashingKeeper.GetPubkey(c.Ctx, ca.Bytes())
	env.Note(fmt.Sprintf("departed-key: in-set=%v operator-lookup=%v ValidatorByConsAddr-nil=%v slashing-pubkey-relation before=%v after=%v",
		w.InValSet(c.Ctx, old), w.RevOp(c.Ctx, old) == op, c.App.StakingKeeper.ValidatorByConsAddr(c.Ctx, ca) == nil, errBefore == nil, errAfter == nil))
	env.Report.Histories++
}

func scenarioF07b(env *Env, shape string) {
	cfg := DefaultCfg(env.Report.Seed*1000 + 997)
	cfg.NOperators = 2
	cfg.Powers = []int64{300, 100}
	cfg.EpochID = epochstypes.MinuteEpochID
	cfg.EpochsUntilUnbonded = 3
	cfg.MaxValidators = 8
	cfg.MinSelfDelegation = 1
	w := newCkWorld(env, cfg, 3, 5)
	c := w.C
	sk := c.App.StakingKeeper
	pfx := "F-07b:" + shape + ":"
	// the weaker genesis validator and its key
	lo, kLo := -1, -1
	var pLo int64
	vs := w.ValSet(c.Ctx)
	for op := range w.Ops {
		if !w.Reg[op] {
			continue
		}
		k := w.CurKey(c.Ctx, op)
		if p, ok := vs[k]; ok && (lo < 0 || p < pLo) {
			lo, kLo, pLo = op, k, p
		}
	}
	if lo < 0 {
		env.Outcome("scenario-f07b:no-validator")
		return
	}
	// the key validates for a whole epoch …
	if !w.doBlock(w.EpochDur+time.Second, pfx) || !w.doBlock(time.Second, pfx) {
		return
	}
	w.monitors(c.Ctx, "tx", pfx)
	// … then the maximum is lowered: it drops out at the next epoch end
	w.SetDogfoodParams(func(p *dogfoodtypes.Params) { p.MaxValidators = 1 })
	if !w.doBlock(w.EpochDur+time.Second, pfx) || !w.doBlock(time.Second, pfx) {
		return
	}
	w.monitors(c.Ctx, "tx", pfx)
	if w.InValSet(c.Ctx, kLo) {
		env.Outcome("scenario-f07b:still-in-set")
		return
	}
	env.Outcome("scenario-f07b:key-left-set-by-max-validators")
	ep := w.DogfoodEpoch(c.Ctx)
	until := ep + int64(sk.GetDogfoodParams(c.Ctx).EpochsUntilUnbonded)
	if w.RevOp(c.Ctx, kLo) != lo {
		// (not the defect: as long as the operator keeps the key it stays resolvable)
		w.viol("C07.slashable", pfx+"left-set-key-unresolvable-before-change", fmt.Sprintf("key %d of operator %d left the validator set and does not resolve", kLo, lo), w.hist)
		return
	}
	switch shape {
	case "replace":
		fresh := -1
		for k := range w.Keys {
			if w.RevOp(c.Ctx, k) < 0 {
				fresh = k
				break
			}
		}
		if out := w.doSetKey(lo, fresh, pfx); out != "ok" {
			env.Outcome("scenario-f07b:setkey=" + out)
			return
		}
	case "optout":
		if out := w.doOptOut(lo); out != "ok" {
			env.Outcome("scenario-f07b:optout=" + out)
			return
		}
	}
	// the property: the address was part of the active set (it signed the blocks of epoch ep-1) and
	// was replaced / removed while epoch `ep` is current ⇒ resolvable until epoch ep+N has ended
	check := func(when string, probe bool) {
		env.Eval("C07.slashable")
		cur := w.DogfoodEpoch(c.Ctx)
		closed := cur > until && !(cur == until+1 && sk.IsEpochEnd(c.Ctx))
		if closed {
			return
		}
		ca := w.Keys[kLo].ToConsAddr()
		if r := w.RevOp(c.Ctx, kLo); r != lo {
			probeMsg := ""
			if probe {
				// what x/slashing does with evidence against that address: Jail by consensus address
				_, jailedBefore := w.OptState(c.Ctx, lo)
				sk.Jail(c.Ctx, ca)
				w.emit(fmt.Sprintf("ck.jail %d 1", kLo), "ok")
				_, jailedAfter := w.OptState(c.Ctx, lo)
				probeMsg = fmt.Sprintf(", Jail by that address changed operator %d's jailed flag %v->%v", lo, jailedBefore, jailedAfter)
			}
			w.viol("C07.slashable", pfx+"left-set-key-unresolvable",
				fmt.Sprintf("%s: key %d validated for operator %d until the end of epoch %d and was %s during epoch %d (EpochsUntilUnbonded=%d): it must resolve to operator %d until epoch %d has ended, but during epoch %d the reverse index says %d, ValidatorByConsAddr nil=%v%s",
					when, kLo, lo, ep-1, map[string]string{"replace": "replaced", "optout": "removed (opt-out)"}[shape], ep, until-ep, lo, until, cur, r, sk.ValidatorByConsAddr(c.Ctx, ca) == nil, probeMsg), w.hist)
		}
	}
	check("right after the "+shape, true)
	// another operator can register the key that is still under evidence
	x := -1
	for op := range w.Ops {
		if !w.Reg[op] {
			x = op
			break
		}
	}
	if x >= 0 {
		w.doRegister(x, 150_000_000)
		if out := w.doOptIn(x, kLo, pfx); out == "ok" {
			env.Eval("C07.slashable")
			// evidence against the address now hits the new owner
			sk.Jail(c.Ctx, w.Keys[kLo].ToConsAddr())
			w.emit(fmt.Sprintf("ck.jail %d 1", kLo), "ok")
			_, jx := w.OptState(c.Ctx, x)
			w.viol("C07.slashable", pfx+"left-set-key-taken-by-other-operator",
				fmt.Sprintf("key %d (validated for operator %d until the end of epoch %d, unbonding until epoch %d ends) was accepted as the key of operator %d during epoch %d; Jail by that address now jails operator %d (jailed=%v) instead of operator %d", kLo, lo, ep-1, until, x, w.DogfoodEpoch(c.Ctx), x, jx, lo), w.hist)
		}
	}
	for i := 0; i < 5 && c.Halted == ""; i++ {
		if !w.doBlock(w.EpochDur+time.Second, pfx) {
			break
		}
		check("later", false)
	}
	env.Report.Histories++
	env.DistinctKey("f07b-" + shape)
	env.Outcome("scenario-f07b:" + shape)
}
