package main

// C06 — "eligible = has a consensus key, opted in, NOT JAILED". There is one notion of "jailed
// for this chain": x/operator/keeper/slash.go: IsOperatorJailedForChainID, which x/dogfood hands
// to the SDK's slashing / evidence modules (impl_sdk.go: IsValidatorJailed,
// ValidatorByConsAddr(...).Jailed). The candidate list of EndBlock (GetActiveOperatorsForChainID
// -> IsActive) reads the Jailed flag of the opt-in record directly. At every epoch end the two
// must tell the same story for every operator with a resolvable current key: otherwise the set
// handed to consensus leaves out an operator the chain reports as not jailed (or keeps one it
// reports as jailed).

import (
	"fmt"

	sdk "github.com/cosmos/cosmos-sdk/types"
	slashingkeeper "github.com/cosmos/cosmos-sdk/x/slashing/keeper"
	slashingtypes "github.com/cosmos/cosmos-sdk/x/slashing/types"
)

// UnjailMsg sends MsgUnjail for the operator through x/slashing's message server.
func (w *World) UnjailMsg(op int) error {
	c := w.C
	srv := slashingkeeper.NewMsgServerImpl(c.App.SlashingKeeper)
	return c.CachedDo(func(ctx sdk.Context) error {
		_, err := srv.Unjail(sdk.WrapSDKContext(ctx), &slashingtypes.MsgUnjail{ValidatorAddr: sdk.ValAddress(w.Ops[op].Acc).String()})
		return err
	})
}

func (w *World) jailViewAtEndBlock(env *Env, hist []string) {
	c := w.C
	cc, _ := c.Ctx.CacheContext()
	env.Eval("C06.topk")
	for op := range w.Ops {
		if !w.Reg[op] {
			continue
		}
		in, flag := w.OptState(cc, op)
		key := w.CurKey(cc, op)
		if !in || key < 0 || w.RevOp(cc, key) != op {
			continue
		}
		rep, val := jailViewOf(c, cc, w.Keys[key].ToConsAddr())
		if rep != flag || (val >= 0 && (val == 1) != flag) {
			env.Violate("C06.topk", "jail-view-mismatch", fmt.Sprintf("operator %d (key %d, opted in) is treated as jailed=%v by the candidate selection of EndBlock, but the chain's jail query for its consensus address says IsValidatorJailed=%v, ValidatorByConsAddr.IsJailed=%d (-1 = no validator)", op, key, flag, rep, val), hist)
			return
		}
	}
}
