package main

// Domain `kernels`: conformance of the regenerated kernels with the REAL Go functions they are translated
// from, and statement-level differential test of the translator on its fixture.
//
// Every op calls the Go function itself (no chain is booted: these are pure functions of their arguments):
//   x/delegation/keeper  TokensFromShares, SharesFromTokens
//   x/operator/keeper    CalculateUSDValue, SlashFromUndelegation
//   x/assets/types       UpdateAssetValue, UpdateAssetDecValue
//   x/oracle/keeper/common ExceedsThreshold (with the package's ThresholdA / ThresholdB)
//   x/evm/keeper         GasToRefund
//   x/epochs/types       EpochInfo.Validate
//   harness/kfixture.go  the translator's fixture (= tools/exofacts/testdata/fixture.go, byte for byte)
// and records the canonical result (`ok v` / `err Sentinel` / `panic`). Two Lean evaluations must reproduce
// the observations line for line: `exodriver Kernels` (the MODEL definitions, proved equal to the
// regenerated kernels by the *_tie_* theorems) and `lean --run GenKernels.lean` (the REGENERATED definitions
// themselves). The closure of x/epochs BeginBlocker (kernel epochsTick) is not callable as a function: it is
// exercised through the booted application by the domain `epochs`.
//
// Operands: the boundary pool of dom_decprims.go + seeded random values, shaped per kernel so that every
// branch (each error, the zero cases, the rounding, the 256/315-bit overflow panics) is reached.
//
// args: n (number of evaluations, default 3000)

import (
	"errors"
	"fmt"
	"math/big"
	"strings"
	"time"

	assetstypes "github.com/ExocoreNetwork/exocore/x/assets/types"
	delegationkeeper "github.com/ExocoreNetwork/exocore/x/delegation/keeper"
	delegationtypes "github.com/ExocoreNetwork/exocore/x/delegation/types"
	epochstypes "github.com/ExocoreNetwork/exocore/x/epochs/types"
	evmkeeper "github.com/ExocoreNetwork/exocore/x/evm/keeper"
	operatorkeeper "github.com/ExocoreNetwork/exocore/x/operator/keeper"
	oraclecommon "github.com/ExocoreNetwork/exocore/x/oracle/keeper/common"
)

var kernelSentinels = []struct {
	err  error
	name string
}{
	{delegationtypes.ErrInsufficientShares, "ErrInsufficientShares"},
	{delegationtypes.ErrDivisorIsZero, "ErrDivisorIsZero"},
	{assetstypes.ErrInputPointerIsNil, "ErrInputPointerIsNil"},
	{assetstypes.ErrSubAmountIsMoreThanOrigin, "ErrSubAmountIsMoreThanOrigin"},
	{ErrFxZero, "ErrFxZero"},
	{ErrFxNegative, "ErrFxNegative"},
	{ErrFxNil, "ErrFxNil"},
}

// kernelErr maps an error to what the translator calls it: the sentinel's identifier, or the literal text.
func kernelErr(err error) string {
	for _, s := range kernelSentinels {
		if errors.Is(err, s.err) {
			return s.name
		}
	}
	return err.Error()
}

func kTag(s string) string {
	if s == "" {
		return "_"
	}
	return s
}

type kernelGen struct {
	*primGen
}

// nonneg value below 2^bits, boundary biased
func (g *kernelGen) nat(bits int) *big.Int {
	x := g.bounded(bits)
	return x.Abs(x)
}

// mostly non-negative, sometimes negative
func (g *kernelGen) mostlyNat(bits int) *big.Int {
	x := g.nat(bits)
	if g.r.Chance(1, 8) {
		x.Neg(x)
	}
	return x
}

func (g *kernelGen) sizeClass() int {
	// amounts as they occur (≤ 2^96), large (≤ 2^200), at the limits of the number types
	return []int{40, 64, 96, 96, 128, 200, 256}[g.r.Intn(7)]
}

func (g *kernelGen) small(lo, hi int) int64 { return int64(g.r.Range(lo, hi)) }

func domKernels(env *Env) error {
	n := env.Int("n", 3000)
	g := &kernelGen{newPrimGen(env.Report.Seed)}
	env.Op("kernels.reset", "ok")
	env.Report.Histories = 1
	e18 := new(big.Int).Exp(big.NewInt(10), big.NewInt(18), nil)

	guard := func(f func() string) (o string) {
		defer func() {
			if r := recover(); r != nil {
				o = "panic"
			}
		}()
		return f()
	}
	emit := func(op string, obs string) {
		env.Op(op, obs)
		kind := op[:strings.IndexByte(op, ' ')]
		cls := strings.SplitN(obs, " ", 2)[0]
		if cls == "err" {
			cls = obs
		} else if cls != "ok" && cls != "panic" && cls != "true" && cls != "false" {
			cls = "value"
		}
		env.Outcome(kind + ":" + cls)
		env.DistinctKey(kind + ":" + cls)
		if (cls == "panic" || strings.HasPrefix(cls, "err")) && len(env.Report.Samples) < 6 {
			env.Sample(op + " => " + obs)
		}
	}

	kinds := []func(){
		// ---- x/delegation/keeper/share.go
		func() {
			bits := g.sizeClass()
			S := g.mostlyNat(bits + 60)
			var s *big.Int
			switch g.r.Pick(4, 2, 1, 1, 1) {
			case 0: // a part of the pool
				s = g.r.BigBelow(new(big.Int).Add(new(big.Int).Abs(S), big.NewInt(1)))
			case 1: // everything
				s = new(big.Int).Set(S)
			case 2: // one unit more than there is
				s = new(big.Int).Add(S, big.NewInt(1))
			case 3:
				s = g.mostlyNat(bits + 60)
			default:
				S = big.NewInt(0)
				s = big.NewInt(int64(-g.r.Intn(2)))
			}
			T := g.mostlyNat(bits)
			if g.r.Chance(1, 6) {
				T = big.NewInt(0)
			}
			if g.r.Chance(1, 5) { // exchange rate one: shares = amount
				T = new(big.Int).Quo(S, e18)
			}
			emit(fmt.Sprintf("tokensFromShares %s %s %s", s, S, T), guard(func() string {
				r, err := delegationkeeper.TokensFromShares(pDec(s), pDec(S), pInt(T))
				if err != nil {
					return "err " + kernelErr(err)
				}
				return "ok " + r.BigInt().String()
			}))
		},
		func() {
			bits := g.sizeClass()
			S := g.mostlyNat(bits + 60)
			x := g.mostlyNat(bits)
			T := g.mostlyNat(bits)
			switch g.r.Intn(8) {
			case 0:
				T = big.NewInt(0)
			case 1:
				T, S = big.NewInt(0), big.NewInt(0)
			case 2:
				S = new(big.Int).Mul(T, e18)
			}
			emit(fmt.Sprintf("sharesFromTokens %s %s %s", S, x, T), guard(func() string {
				r, err := delegationkeeper.SharesFromTokens(pDec(S), pInt(x), pInt(T))
				if err != nil {
					return "err " + kernelErr(err)
				}
				return "ok " + r.BigInt().String()
			}))
		},
		// ---- x/operator/keeper/common_func.go
		func() {
			a := g.mostlyNat(g.sizeClass())
			p := g.mostlyNat([]int{8, 32, 64, 64, 128}[g.r.Intn(5)])
			ad := g.small(0, 30)
			pd := g.small(0, 18)
			if g.r.Chance(1, 8) {
				ad, pd = g.small(30, 100), g.small(0, 255)
			}
			emit(fmt.Sprintf("calculateUSDValue %s %s %d %d", a, p, ad, pd), guard(func() string {
				return operatorkeeper.CalculateUSDValue(pInt(a), pInt(p), uint32(ad), uint8(pd)).BigInt().String()
			}))
		},
		// ---- x/assets/types/general.go
		func() {
			bits := g.sizeClass()
			v := g.mostlyNat(bits)
			d := g.bounded(bits)
			switch g.r.Intn(8) {
			case 0:
				d = new(big.Int).Neg(v)
			case 1:
				d = new(big.Int).Sub(new(big.Int).Neg(v), big.NewInt(1))
			case 2:
				d = big.NewInt(0)
			case 3:
				d = new(big.Int).Add(new(big.Int).Neg(v), big.NewInt(1))
			}
			if d.BitLen() > 256 {
				d = big.NewInt(0)
			}
			emit(fmt.Sprintf("updateAssetValue %s %s", v, d), guard(func() string {
				vv, dd := pInt(v), pInt(d)
				if err := assetstypes.UpdateAssetValue(&vv, &dd); err != nil {
					return "err " + kernelErr(err)
				}
				return "ok " + vv.BigInt().String()
			}))
		},
		func() {
			bits := g.sizeClass() + 59
			v := g.mostlyNat(bits)
			d := g.bounded(bits)
			switch g.r.Intn(8) {
			case 0:
				d = new(big.Int).Neg(v)
			case 1:
				d = new(big.Int).Sub(new(big.Int).Neg(v), big.NewInt(1))
			case 2:
				d = big.NewInt(0)
			}
			if d.BitLen() > 315 {
				d = big.NewInt(0)
			}
			emit(fmt.Sprintf("updateAssetDecValue %s %s", v, d), guard(func() string {
				vv, dd := pDec(v), pDec(d)
				if err := assetstypes.UpdateAssetDecValue(&vv, &dd); err != nil {
					return "err " + kernelErr(err)
				}
				return "ok " + vv.BigInt().String()
			}))
		},
		// ---- x/operator/keeper/slash.go
		func() {
			bits := g.sizeClass()
			amt := g.nat(bits)
			act := g.r.BigBelow(new(big.Int).Add(amt, big.NewInt(1)))
			switch g.r.Intn(6) {
			case 0:
				act = big.NewInt(0)
			case 1:
				act = new(big.Int).Set(amt)
			}
			var p *big.Int
			switch g.r.Pick(5, 1, 1, 1, 1) {
			case 0:
				p = g.r.BigBelow(new(big.Int).Add(e18, big.NewInt(1)))
			case 1:
				p = new(big.Int).Set(e18)
			case 2:
				p = big.NewInt(0)
			case 3: // more than everything
				p = new(big.Int).Add(e18, g.nat(70))
			default:
				p = g.mostlyNat(120)
			}
			emit(fmt.Sprintf("slashFromUndelegation %s %s %s", amt, act, p), guard(func() string {
				rec := &delegationtypes.UndelegationRecord{StakerID: "s", AssetID: "a", OperatorAddr: "o", TxHash: "h",
					Amount: pInt(amt), ActualCompletedAmount: pInt(act)}
				res := operatorkeeper.SlashFromUndelegation(rec, pDec(p))
				sl := "0"
				if res != nil {
					sl = res.Amount.BigInt().String()
				}
				return rec.ActualCompletedAmount.BigInt().String() + " " + sl
			}))
		},
		// ---- x/oracle/keeper/common/types.go
		func() {
			a, b := int64(oraclecommon.ThresholdA), int64(oraclecommon.ThresholdB)
			total := g.nat([]int{8, 32, 64, 100}[g.r.Intn(4)])
			var power *big.Int
			if g.r.Chance(1, 2) { // around the threshold: power·b vs total·a
				power = new(big.Int).Quo(new(big.Int).Mul(total, big.NewInt(a)), big.NewInt(b))
				power.Add(power, big.NewInt(int64(g.r.Intn(5))-2))
			} else {
				power = g.mostlyNat(100)
			}
			emit(fmt.Sprintf("oracleExceedsThreshold %s %s %d %d", power, total, a, b), guard(func() string {
				return fmt.Sprintf("%v", oraclecommon.ExceedsThreshold(power, total))
			}))
		},
		// ---- x/evm/keeper/gas.go
		func() {
			lo, hi := sizedRange("u64")
			av, gc := g.within(lo, hi), g.within(lo, hi)
			q := []uint64{0, 1, 2, 5, 2, 5, g.r.U64(), uint64(g.r.Intn(1000))}[g.r.Intn(8)]
			emit(fmt.Sprintf("evmGasToRefund %s %s %d", av, gc, q), guard(func() string {
				return fmt.Sprintf("%d", evmkeeper.GasToRefund(av.Uint64(), gc.Uint64(), q))
			}))
		},
		// ---- x/epochs/types/genesis.go
		func() {
			id := []string{"", "day", "week", "x"}[g.r.Intn(4)]
			pick := func() int64 {
				return []int64{-1, 0, 1, 7, -9_000_000_000, 86_400_000_000_000, int64(g.r.U64() >> 1), -int64(g.r.U64() >> 1)}[g.r.Intn(8)]
			}
			dur, cur, h := pick(), pick(), pick()
			if g.r.Chance(1, 3) { // a valid one
				id, dur, cur, h = "day", int64(g.r.Intn(1000)+1), int64(g.r.Intn(50)), int64(g.r.Intn(50))
			}
			emit(fmt.Sprintf("epochInfoValidate %s %d %d %d", kTag(id), dur, cur, h), guard(func() string {
				e := epochstypes.EpochInfo{Identifier: id, Duration: time.Duration(dur), CurrentEpoch: cur, CurrentEpochStartHeight: h}
				if e.Validate() != nil {
					return "err"
				}
				return "ok"
			}))
		},
		// ---- the translator's fixture
		func() {
			x, lo, hi := g.small(-40, 40), g.small(-20, 20), g.small(-20, 20)
			if g.r.Chance(1, 3) {
				x = []int64{lo, hi, lo - 1, hi + 1, hi - 1}[g.r.Intn(5)]
			}
			emit(fmt.Sprintf("fx.clamp %d %d %d", x, lo, hi), guard(func() string { return fmt.Sprintf("%d", FxClamp(x, lo, hi)) }))
		},
		func() {
			a, b := g.small(-1_000_000, 1_000_000), g.small(-50, 50)
			if g.r.Chance(1, 4) {
				b = 0
			}
			emit(fmt.Sprintf("fx.arith %d %d", a, b), guard(func() string { return fmt.Sprintf("%d", FxArith(a, b)) }))
		},
		func() {
			a, b := g.small(-6, 6), g.small(-6, 6)
			f := g.r.Bool()
			fi := 0
			if f {
				fi = 1
			}
			emit(fmt.Sprintf("fx.bool %d %d %d", a, b, fi), guard(func() string { return fmt.Sprintf("%v", FxBool(a, b, f)) }))
		},
		func() {
			s, t, nn := g.mostlyNat(90), g.mostlyNat(90), g.mostlyNat(40)
			switch g.r.Intn(8) {
			case 0:
				t = big.NewInt(0)
			case 1: // a ratio that ends in half a unit
				tt := g.tie("Dec.Quo")
				s, t, nn = tt[0].Abs(tt[0]), tt[1].Abs(tt[1]), big.NewInt(1)
			case 2:
				nn = big.NewInt(1)
				t = new(big.Int).Add(s, big.NewInt(int64(g.r.Intn(3))-1))
			}
			emit(fmt.Sprintf("fx.decChain %s %s %s", s, t, nn), guard(func() string {
				r, err := FxDecChain(pDec(s), pDec(t), pInt(nn))
				if err != nil {
					return "err " + kernelErr(err)
				}
				return "ok " + r.BigInt().String()
			}))
		},
		func() {
			total, part, whole := g.mostlyNat(120), g.nat(64), g.nat(64)
			switch g.r.Intn(8) {
			case 0:
				whole = big.NewInt(0)
			case 1:
				whole, total = big.NewInt(0), big.NewInt(0)
			case 2:
				part = new(big.Int).Add(whole, big.NewInt(int64(g.r.Intn(3))-1))
				part.Abs(part)
			case 3:
				whole = big.NewInt(3)
			}
			emit(fmt.Sprintf("fx.share %s %s %s", total, part, whole), guard(func() string {
				r, err := FxShare(pDec(total), pInt(part), pInt(whole))
				if err != nil {
					return "err " + kernelErr(err)
				}
				return "ok " + r.BigInt().String()
			}))
		},
		func() {
			v, c := g.nat(100), g.bounded(100)
			switch g.r.Intn(6) {
			case 0:
				c = new(big.Int).Neg(v)
			case 1:
				c = new(big.Int).Sub(new(big.Int).Neg(v), big.NewInt(1))
			case 2:
				c = big.NewInt(0)
			}
			emit(fmt.Sprintf("fx.update %s %s", v, c), guard(func() string {
				vv, cc := pInt(v), pInt(c)
				if err := FxUpdate(&vv, &cc); err != nil {
					return "err " + kernelErr(err)
				}
				return "ok " + vv.BigInt().String()
			}))
		},
		func() {
			tag := []string{"", "a", "bb"}[g.r.Intn(3)]
			period, count := g.small(-2, 5), g.small(-2, 5)
			emit(fmt.Sprintf("fx.check %s %d %d", kTag(tag), period, count), guard(func() string {
				if err := (FxRec{Tag: tag, Period: period, Count: count}).Check(); err != nil {
					return "err " + kernelErr(err)
				}
				return "ok"
			}))
		},
		func() {
			rec := FxRec{Tag: []string{"", "a", "bb", "a"}[g.r.Intn(4)], Start: g.small(0, 30), Period: g.small(-1, 12), Count: g.small(-1, 9),
				Opened: g.small(0, 40), Live: g.r.Bool(), Balance: pInt(g.nat(80))}
			now, height := g.small(0, 80), g.small(1, 1000)
			if g.r.Chance(1, 3) { // exactly at / one past the end of the period
				now = rec.Opened + rec.Period + g.small(0, 1)
			}
			lv := 0
			if rec.Live {
				lv = 1
			}
			op := fmt.Sprintf("fx.sweep %s %d %d %d %d %d %s %d %d", kTag(rec.Tag), rec.Start, rec.Period, rec.Count, rec.Opened, lv,
				rec.Balance.BigInt(), now, height)
			emit(op, guard(func() string {
				s := &FxSink{Now: now, Height: height}
				s.Sweep(0, []FxRec{rec})
				out := rec // the closure returned before the store: the stored record is the one read
				if len(s.Stored) > 1 {
					return "stored-twice"
				}
				if len(s.Stored) == 1 {
					out = s.Stored[0]
				}
				return fmt.Sprintf("%s %d %d %d %d %v %s | %s", out.Tag, out.Start, out.Period, out.Count, out.Opened, out.Live,
					out.Balance.BigInt(), strings.Join(s.Events, ";"))
			}))
		},
	}
	for it := 0; it < n; it++ {
		kinds[it%len(kinds)]()
	}
	return nil
}

func init() { register("kernels", domKernels) }
