package main

// C06 — consensus keys in the histories of the valset domain.
//
// "The validator updates … yield exactly the highest-power eligible operators" and "the stored
// validator set, the stored total power and what consensus was told always agree" rest on two facts
// about the key registry of x/operator (they are the hypotheses `InputsOK` of the C06 theorems and are
// proved from the registry invariant in Props/C07Hist.lean, Props/C06Keys.lean): when EndBlock applies
// the changes every candidate's key still has its cons-address -> operator lookup, and no two
// candidates share a key. The lookup of a REPLACED validating key is pruned EpochsUntilUnbonded epochs
// later (x/dogfood impl_operator_hooks.go: AfterOperatorKeyReplaced), which is only sound because
// setOperatorConsKeyForChainID refuses a key that still resolves to an operator — *including the
// operator that replaced it*. This file
//   * makes every SetConsKey / OptIntoAVS of the domain an op line (`vs.setkey`, `vs.optin`) whose
//     outcome and effect on the three indexes the Lean model (Model/ConsKeys.lean: setKey / optIn on the
//     observed pre-state, with the validator set the ValSet driver holds) must reproduce,
//   * chooses keys adversarially: fresh ones, somebody else's, and the operator's own former keys,
//   * replays a directed scenario: a validator replaces its key A by B and tries to go back to A in
//     the same epoch / a later epoch / the block that prunes A / after A was pruned; then its power
//     changes and another operator claims A. All C06 monitors run at every block end.

import (
	"fmt"
	"time"

	sdkmath "cosmossdk.io/math"

	epochstypes "github.com/ExocoreNetwork/exocore/x/epochs/types"
)

// SelfOK: the operator's self USD value meets the AVS minimum (what OptIn checks).
func (w *World) SelfOK(op int) bool {
	c := w.C
	v, err := c.App.OperatorKeeper.GetOrCalculateOperatorUSDValues(c.Ctx, w.Ops[op].Acc, c.AVSAddr)
	if err != nil {
		return false
	}
	m, err := c.App.AVSManagerKeeper.GetAVSMinimumSelfDelegation(c.Ctx, c.AVSAddr)
	return err == nil && !v.SelfUSDValue.LT(m)
}

func (r *vsRun) remember(op, key int) {
	if key < 0 {
		return
	}
	for _, k := range r.former[op] {
		if k == key {
			return
		}
	}
	r.former[op] = append(r.former[op], key)
}

// freeKey: a key without a cons-address -> operator lookup (-1 = none)
func (r *vsRun) freeKey(rng *RNG) int {
	w := r.w
	start := rng.Intn(len(w.Keys))
	for i := range w.Keys {
		k := (start + i) % len(w.Keys)
		if w.RevOp(w.C.Ctx, k) < 0 {
			return k
		}
	}
	return -1
}

// pickKey: `own` in 5 draws go to a key the operator used before (when there is one), one in
// five to a key nobody has, the rest anywhere in the pool (somebody's key, the current key, …).
func (r *vsRun) pickKey(rng *RNG, op, own int) int {
	w := r.w
	x := rng.Intn(5)
	if f := r.former[op]; len(f) > 0 && x < own {
		r.env.Outcome("key-choice=own-former")
		return f[rng.Intn(len(f))]
	}
	if x == 4 {
		if k := r.freeKey(rng); k >= 0 {
			r.env.Outcome("key-choice=free")
			return k
		}
	}
	r.env.Outcome("key-choice=any")
	return rng.Intn(len(w.Keys))
}

// pruneCount: how often `key` waits in the prune queue of epoch `slot`
func (r *vsRun) pruneCount(slot int64, key int) int {
	if key < 0 {
		return 0
	}
	w := r.w
	n := 0
	for _, a := range w.C.App.StakingKeeper.GetConsensusAddrsToPrune(w.C.Ctx, slot) {
		if w.KeyID(a) == key {
			n++
		}
	}
	return n
}

type vsKeyPre struct {
	reg, in, jl, rm  bool
	cur, prev, rk, rc int
	slot             int64
	queued           int
}

func (r *vsRun) keyPre(op, key int) vsKeyPre {
	w := r.w
	ctx := w.C.Ctx
	p := vsKeyPre{reg: w.Reg[op], rm: w.Removing(ctx, op), cur: w.CurKey(ctx, op), prev: w.PrevKey(ctx, op), rk: w.RevOp(ctx, key), rc: -1}
	p.in, p.jl = w.OptState(ctx, op)
	if p.cur >= 0 {
		p.rc = w.RevOp(ctx, p.cur)
	}
	p.slot = w.DogfoodEpoch(ctx) + int64(w.C.App.StakingKeeper.GetDogfoodParams(ctx).EpochsUntilUnbonded)
	p.queued = r.pruneCount(p.slot, p.cur)
	return p
}

// keyPost: the operator's key, who the new key and the old key resolve to, and whether the old
// key was queued for pruning by this operation
func (r *vsRun) keyPost(op, key int, p vsKeyPre, err error) string {
	w := r.w
	ctx := w.C.Ctx
	ro := "-"
	if p.cur >= 0 {
		ro = optS(w.RevOp(ctx, p.cur))
	}
	return fmt.Sprintf("%s|%s|%s|%s|%s", errClass(err), optS(w.CurKey(ctx, op)), optS(w.RevOp(ctx, key)), ro, b01(r.pruneCount(p.slot, p.cur) > p.queued))
}

// classify counts the shapes of key operations that matter for C06 (printed with the outcomes)
func (r *vsRun) classify(what string, op, key int, p vsKeyPre, err error) {
	w := r.w
	shape := "fresh-or-foreign"
	own := false
	for _, k := range r.former[op] {
		if k == key {
			own = true
		}
	}
	switch {
	case key == p.cur:
		shape = "current-key-again"
	case own && p.rk == op:
		shape = "own-former-key-still-reserved" // replaced, not pruned yet
	case own && p.rk < 0:
		shape = "own-former-key-after-prune"
	case own:
		shape = "own-former-key-now-somebody-elses"
	case p.rk >= 0:
		shape = "somebody-elses-key"
	}
	if len(w.C.App.StakingKeeper.GetPendingConsensusAddrs(w.C.Ctx).List) > 0 {
		shape += ",in-pruning-block"
	}
	r.env.Outcome(fmt.Sprintf("%s:%s=%s", what, shape, errClass(err)))
}

// setKey = SetConsKey through the message server, as an op line of the model
func (r *vsRun) setKey(op, key int) error {
	w := r.w
	p := r.keyPre(op, key)
	err := w.SetKey(op, key)
	r.emit(fmt.Sprintf("vs.setkey %d %d %s %s %s %s %s %s %s %s", op, key, b01(p.reg), b01(p.in), b01(p.jl), b01(p.rm),
		optS(p.cur), optS(p.prev), optS(p.rk), optS(p.rc)), r.keyPost(op, key, p, err))
	r.env.Outcome("setkey=" + errClass(err))
	r.hist = append(r.hist, fmt.Sprintf("#   SetConsKey operator=%d key=%d (current key %s; key %d resolved to operator %s) -> %s", op, key, optS(p.cur), key, optS(p.rk), errClass(err)))
	r.classify("setkey", op, key, p, err)
	if err == nil && p.cur != key {
		r.remember(op, p.cur)
	}
	return err
}

// optIn = OptIntoAVS with a key through the message server, as an op line of the model
func (r *vsRun) optIn(op, key int) error {
	w := r.w
	p := r.keyPre(op, key)
	ok := w.Reg[op] && w.SelfOK(op)
	err := w.OptIn(op, key)
	r.emit(fmt.Sprintf("vs.optin %d %d %s %s %s %s %s %s %s %s", op, key, b01(p.reg), b01(p.in), b01(ok), b01(p.rm),
		optS(p.cur), optS(p.prev), optS(p.rk), optS(p.rc)), r.keyPost(op, key, p, err))
	r.env.Outcome("optin=" + errClass(err))
	r.hist = append(r.hist, fmt.Sprintf("#   OptIntoAVS operator=%d key=%d (key %d resolved to operator %s) -> %s", op, key, key, optS(p.rk), errClass(err)))
	r.classify("optin", op, key, p, err)
	if err == nil && p.cur != key {
		r.remember(op, p.cur)
	}
	return err
}

// scenarioKeyTakeBack: a validator X (key A) replaces its key by B and asks for A again
//   variant 0: in the same block            (A reserved: queued for pruning at epoch e+N)
//   variant 1: one epoch later              (still reserved)
//   variant 2: in the block that prunes A   (BeginBlock moved A to the pending list, EndBlock has not run)
//   variant 3: after A was pruned           (A is free again: accepted, now B is the replaced key)
// then N+2 epochs pass, X's power changes, another operator Y opts in with A, X asks for B again.
// Whatever the registry answers, at every block end the returned updates applied to the previous
// set must be the eligible top set, equal to the stored set, summing to the stored total power.
func scenarioKeyTakeBack(env *Env) {
	for variant := 0; variant < 4; variant++ {
		cfg := DefaultCfg(env.Report.Seed*1000 + 980 + uint64(variant))
		cfg.NOperators = 2
		cfg.Powers = []int64{100, 101}
		cfg.EpochID = epochstypes.MinuteEpochID
		cfg.EpochsUntilUnbonded = uint32(1 + (env.Report.Seed+uint64(variant))%3)
		cfg.MaxValidators = 4
		cfg.MinSelfDelegation = 1
		w := NewWorld(cfg, 3, 6)
		c := w.C
		sk := c.App.StakingKeeper
		r := newVsRun(env, w)
		r.hist = append(r.hist, fmt.Sprintf("# scenario key-take-back variant=%d EpochsUntilUnbonded=%d epoch=minute", variant, cfg.EpochsUntilUnbonded))
		rng := NewRNG(cfg.Seed)
		x, y := -1, -1
		for op := range w.Ops {
			switch {
			case w.Reg[op] && x < 0 && w.InValSet(c.Ctx, w.CurKey(c.Ctx, op)):
				x = op
			case !w.Reg[op] && y < 0:
				y = op
			}
		}
		if x < 0 || y < 0 {
			env.Outcome("scenario-key-take-back:setup-failed")
			continue
		}
		a := w.CurKey(c.Ctx, x)
		b := r.freeKey(rng)
		r.note("register", y, "", w.Register(y))
		r.note("self-delegate", y, "amt=123000000", w.DepositDelegate(w.Ops[y].Eth, y, sdkmath.NewInt(123_000_000), true))
		alive := true
		// toClosing: move into the block whose BeginBlock ended the running epoch
		toClosing := func() {
			for alive && !sk.IsEpochEnd(c.Ctx) {
				alive = r.block(w.EpochDur + time.Second)
			}
		}
		// closeEpoch: run the EndBlock of an epoch-closing block (and one ordinary block of the next epoch)
		closeEpoch := func() {
			toClosing()
			if alive {
				alive = r.block(time.Second)
			}
		}
		closeEpoch()
		slot := w.DogfoodEpoch(c.Ctx) + int64(cfg.EpochsUntilUnbonded) // A is pruned when this epoch has ended
		r.setKey(x, b)
		switch variant {
		case 0:
			r.setKey(x, a)
		case 1:
			closeEpoch()
			r.setKey(x, a)
		case 2:
			for alive && w.DogfoodEpoch(c.Ctx) < slot {
				closeEpoch()
			}
			toClosing() // BeginBlock ended epoch `slot`: A is on the pending list
			r.setKey(x, a)
		case 3:
			for alive && w.DogfoodEpoch(c.Ctx) <= slot {
				closeEpoch()
			}
			r.setKey(x, a)
		}
		for alive && w.DogfoodEpoch(c.Ctx) <= slot+1 {
			closeEpoch()
		}
		if alive {
			st := w.Stakers[0].Eth
			r.note("delegate", x, fmt.Sprintf("staker=%s amt=50000000", st.Hex()[:10]), w.DepositDelegate(st, x, sdkmath.NewInt(50_000_000), false))
			closeEpoch()
		}
		if alive {
			r.optIn(y, a)
			closeEpoch()
			r.setKey(x, b)
			closeEpoch()
		}
		for i := 0; alive && i <= int(cfg.EpochsUntilUnbonded); i++ {
			closeEpoch()
		}
		if alive {
			st := w.Stakers[1].Eth
			r.note("delegate", x, fmt.Sprintf("staker=%s amt=1000000", st.Hex()[:10]), w.DepositDelegate(st, x, sdkmath.NewInt(1_000_000), false))
			r.note("delegate", y, fmt.Sprintf("staker=%s amt=2000000", st.Hex()[:10]), w.DepositDelegate(st, y, sdkmath.NewInt(2_000_000), false))
			closeEpoch()
		}
		r.finish()
		env.Report.Histories++
		env.Outcome(fmt.Sprintf("scenario-key-take-back:variant=%d", variant))
		if r.changes > 0 {
			env.DistinctKey(fmt.Sprintf("take-back-%d-%d-%d", variant, r.epochsDone, r.changes))
		}
	}
}
