package main

// Validator-set changes for the oracle domains (C12, C13, C14) through the real x/dogfood path:
// extra delegation (power change), opt-out of the chain's AVS (pure removal at the next epoch end),
// opt-in again (addition). The oracle only ever sees the validator updates x/dogfood returns at the
// EndBlock of the block whose BeginBlock ended the epoch; the model takes exactly those updates as
// the input of `orc.end`. Plus the monitor that recomputes, from the harness's own log of what was
// sent, an upper bound of the power the calculator may hold behind a (source, detID, value).

import (
	"fmt"
	"regexp"
	"sort"
	"strconv"
	"strings"
	"time"

	sdkmath "cosmossdk.io/math"
	assetskeeper "github.com/ExocoreNetwork/exocore/x/assets/keeper"
	assetstypes "github.com/ExocoreNetwork/exocore/x/assets/types"
	delegationtypes "github.com/ExocoreNetwork/exocore/x/delegation/types"
	operatorkeeper "github.com/ExocoreNetwork/exocore/x/operator/keeper"
	operatortypes "github.com/ExocoreNetwork/exocore/x/operator/types"
	oraclekeeper "github.com/ExocoreNetwork/exocore/x/oracle/keeper"
	sdk "github.com/cosmos/cosmos-sdk/types"
	"github.com/ethereum/go-ethereum/common"
)

// vsDelegate deposits `units` whole tokens of asset 0 for a fresh staker and delegates them to
// operator op: its vote power grows by `units` (price 1) at the next epoch end.
func (o *orc) vsDelegate(op int, units int64, n uint64) error {
	c := o.c
	addr := common.HexToAddress(c.Cfg.Assets[0].Addr).Bytes()
	staker := NewActor(c.Cfg.Seed, "orc-vs-staker", int(n))
	amt := sdkmath.NewIntWithDecimal(units, int(c.Cfg.Assets[0].Decimals))
	return c.CachedDo(func(ctx sdk.Context) error {
		if err := c.App.AssetsKeeper.PerformDepositOrWithdraw(ctx, &assetskeeper.DepositWithdrawParams{
			ClientChainLzID: c.LzID, Action: assetstypes.DepositLST, StakerAddress: staker.Eth.Bytes(), AssetsAddress: addr, OpAmount: amt}); err != nil {
			return err
		}
		return c.App.DelegationKeeper.DelegateTo(ctx, &delegationtypes.DelegationOrUndelegationParams{
			ClientChainID: c.LzID, Action: assetstypes.DelegateTo, AssetsAddress: addr, OperatorAddress: c.Operators[op].Acc,
			StakerAddress: staker.Eth.Bytes(), OpAmount: amt, LzNonce: 700000 + n, TxHash: common.BytesToHash(detBytes(c.Cfg.Seed, "orc-vs", int(n)))})
	})
}

// vsOptOut: operator op leaves the chain's AVS; x/dogfood returns power 0 for its key at the next epoch end.
func (o *orc) vsOptOut(op int) error {
	c := o.c
	srv := operatorkeeper.NewMsgServerImpl(c.App.OperatorKeeper)
	return c.CachedDo(func(ctx sdk.Context) error {
		_, err := srv.OptOutOfAVS(sdk.WrapSDKContext(ctx), &operatortypes.OptOutOfAVSReq{FromAddress: c.Operators[op].Acc.String(), AvsAddress: c.AVSAddr})
		return err
	})
}

// vsOptIn: operator op joins (again) with its genesis consensus key.
func (o *orc) vsOptIn(op int) error {
	c := o.c
	srv := operatorkeeper.NewMsgServerImpl(c.App.OperatorKeeper)
	return c.CachedDo(func(ctx sdk.Context) error {
		_, err := srv.OptIntoAVS(sdk.WrapSDKContext(ctx), &operatortypes.OptIntoAVSReq{FromAddress: c.Operators[op].Acc.String(), AvsAddress: c.AVSAddr, PublicKeyJSON: c.ConsKeys[op].ToJSON()})
		return err
	})
}

// vsAction is one scripted / generated validator-set action (kept as data so that a history can be
// re-executed identically on a second instance).
type vsAction struct {
	kind  string // "delegate", "optout", "optin"
	op    int
	units int64
	n     uint64 // sequence number (fixes the staker address and the client-chain nonce of a delegation)
}

func (o *orc) vsDo(a vsAction) string {
	var err error
	switch a.kind {
	case "delegate":
		err = o.vsDelegate(a.op, a.units, a.n)
	case "optout":
		err = o.vsOptOut(a.op)
	case "optin":
		err = o.vsOptIn(a.op)
	}
	res := "ok"
	if err != nil {
		res = "refused"
	}
	o.env.Outcome("valset-action:" + a.kind + "=" + res)
	return res
}

// vsPick generates an action: mostly power changes, removals while at least two validators remain
// (and no other operator is already leaving), re-additions of validators that left.
func (d *orcDriver) vsPick() (vsAction, bool) {
	var in, out []int
	for i := range d.spec.Powers {
		if _, ok := d.powers[i]; ok && !d.leaving[i] {
			in = append(in, i)
		} else if !ok {
			out = append(out, i)
		}
	}
	sort.Ints(in)
	sort.Ints(out)
	switch d.rng.Pick(4, 3, 2) {
	case 1:
		if len(in) >= 2 {
			op := in[d.rng.Intn(len(in))]
			d.leaving[op] = true
			return vsAction{kind: "optout", op: op}, true
		}
	case 2:
		if len(out) > 0 {
			op := out[d.rng.Intn(len(out))]
			return vsAction{kind: "optin", op: op}, true
		}
	}
	if len(in) == 0 {
		return vsAction{}, false
	}
	d.vsN++
	return vsAction{kind: "delegate", op: in[d.rng.Intn(len(in))], units: int64(1 + d.rng.Intn(3)), n: d.vsN}, true
}

// departedList: validators of the genesis set that are not in the current set (they keep their keys
// and may keep submitting).
func (d *orcDriver) departedList() []int {
	var out []int
	for i := range d.spec.Powers {
		if _, ok := d.powers[i]; !ok {
			out = append(out, i)
		}
	}
	return out
}

// ---- the power behind a (source, detID, value)

var reWorkerCalc = regexp.MustCompile(`\{C:(\d+),(-?\d+)([^}]*)\}`)
var reNextWorker = regexp.MustCompile(`;\d+:\{(true|false),`)

// calcPowers parses the real calculator of feeder fid out of the in-memory dump:
// (sourceID, detID, price) -> accumulated power.
func (d *orcDriver) calcPowers(fid int) map[[3]string]int64 {
	dump := oraclekeeper.VerifDumpAgc(d.name)
	i := strings.Index(dump, "|W:")
	if i < 0 {
		return nil
	}
	out := map[[3]string]int64{}
	// workers are separated by ';' at top level, but ';' also separates det rounds inside [...]:
	// locate "<fid>:{" at the start or after a ';' that is followed by digits and ":{"
	ws := dump[i+3:]
	start := -1
	pfx := fmt.Sprintf("%d:{", fid)
	if strings.HasPrefix(ws, pfx) {
		start = 0
	} else if j := strings.Index(ws, ";"+pfx); j >= 0 {
		start = j + 1
	}
	if start < 0 {
		return out
	}
	seg := ws[start:]
	if nx := reNextWorker.FindStringIndex(seg[1:]); nx != nil {
		seg = seg[:nx[0]+1]
	}
	if cut := strings.Index(seg, "|"); cut >= 0 {
		seg = seg[:cut]
	}
	m := reWorkerCalc.FindStringSubmatch(seg)
	if m == nil {
		return out
	}
	// m[3]: " sid/cap/count:[det/price/ts/p@pw,p@pw;det/...]" repeated
	for _, part := range strings.Split(strings.TrimSpace(m[3]), "] ") {
		part = strings.TrimSuffix(strings.TrimSpace(part), "]")
		k := strings.Index(part, ":[")
		if k < 0 {
			continue
		}
		sid := strings.SplitN(part[:k], "/", 2)[0]
		for _, rd := range strings.Split(part[k+2:], ";") {
			f := strings.SplitN(rd, "/", 4)
			if len(f) < 4 {
				continue
			}
			for _, pp := range strings.Split(f[3], ",") {
				x := strings.SplitN(pp, "@", 2)
				if len(x) != 2 {
					continue
				}
				pw, err := strconv.ParseInt(x[1], 10, 64)
				if err != nil {
					continue
				}
				out[[3]string{sid, f[0], x[0]}] += pw
			}
		}
	}
	return out
}

// noteSent records everything validator `val` sent for the round (whatever the outcome): the upper
// bound of what may legitimately count — the FIRST value a validator of the current set reports for
// a (source, detID) in the round, once.
func (d *orcDriver) noteSent(fi int, base uint64, t orcTx) {
	r := d.roundLog(fi, base)
	if r.firstVal == nil {
		r.firstVal = map[string]map[string]bool{}
	}
	for _, m := range t.Msgs {
		if int(m.Feeder)-1 != fi {
			continue
		}
		for _, sc := range m.Srcs {
			seenInMsg := map[string]bool{}
			for _, p := range sc.Prices {
				if p.DetID == "" {
					continue
				}
				k := fmt.Sprintf("%d|%d|%s", m.Creator, sc.ID, p.DetID)
				// every value the validator ever attached to this detID is allowed once (an upper bound:
				// a refused message must not count at all, an earlier value excludes the later ones)
				if r.firstVal[k] == nil {
					r.firstVal[k] = map[string]bool{}
				}
				if !seenInMsg[p.DetID+"="+p.Price] {
					r.firstVal[k][p.Price] = true
				}
				seenInMsg[p.DetID+"="+p.Price] = true
			}
		}
	}
}

// overcount compares the real calculator with the bound; returns a description of the first
// (source, detID, value) whose power exceeds what the current validators that sent it hold together.
func (d *orcDriver) overcount(fi int, base uint64) (string, bool) {
	r := d.roundLog(fi, base)
	real := d.calcPowers(fi + 1)
	keys := make([][3]string, 0, len(real))
	for k := range real {
		keys = append(keys, k)
	}
	sort.Slice(keys, func(i, j int) bool { return fmt.Sprint(keys[i]) < fmt.Sprint(keys[j]) })
	for _, k := range keys {
		bound := int64(0)
		var who []string
		for v, pw := range d.powers {
			if r.firstVal[fmt.Sprintf("%d|%s|%s", v, k[0], k[1])][k[2]] {
				bound += pw
				who = append(who, fmt.Sprintf("v%02d=%d", v, pw))
			}
		}
		sort.Strings(who)
		if real[k] > bound {
			ghost := false
			for v := range d.spec.Powers {
				if _, in := d.powers[v]; !in && r.firstVal[fmt.Sprintf("%d|%s|%s", v, k[0], k[1])][k[2]] {
					ghost = true
				}
			}
			return fmt.Sprintf("feeder %d base %d source %s detID %s value %s: calculator holds power %d, the current validators that reported it hold %d (%s)",
				fi+1, base, k[0], k[1], k[2], real[k], bound, strings.Join(who, ",")), ghost
		}
	}
	return "", false
}

// ---- directed scenarios

func vsBaseSpec(powers []int64) orcSpec {
	return orcSpec{Powers: powers, MaxNonce: 3, ThA: 2, ThB: 3, MaxDetID: 5, MaxSize: 100,
		Sources: [][2]bool{{true, true}}, Rules: [][]uint64{{0}, {1}}, TokenDec: []int32{0},
		Feeders: []orcFeeder{{Token: 1, Rule: 2, StartRound: 2, StartBase: 2, Interval: 7}}, GenNext: []uint64{2}, GenPrice: []string{"1"}}
}

func vsMsg(d *orcDriver, v int, based uint64, nonce int32, entries ...[2]string) orcTx {
	src := orcSource{ID: 1}
	for _, e := range entries {
		src.Prices = append(src.Prices, orcPrice{Price: e[1], Dec: 0, Ts: d.c.Header.Time.Unix(), DetID: e[0]})
	}
	return orcTx{Msgs: []orcMsg{{Creator: v, Feeder: 1, Based: based, Nonce: nonce, Srcs: []orcSource{src}}}}
}

// directedDeparted (C12): three validators of power 10; operator 2 opts out in block 2, the minute
// epoch ends with BeginBlock(9), x/dogfood returns power 0 for it at EndBlock(9), where the round based
// at 9 opens. In block 10 validator 0 and the departed validator 2 report the same price: the departed
// one must carry no weight (10 of 20 is no super-majority); at block 11 validator 1 makes it 20 of 20.
func directedDeparted(env *Env, mon string) {
	spec := vsBaseSpec([]int64{10, 10, 10})
	o := newOrc(env, 121204, spec, func(c *ChainCfg) { c.EpochID = "minute" })
	o.emitSetup()
	d := newOrcDriver(o, NewRNG(121204))
	d.wMon, d.wTag = mon, ":departed"
	removedAt := int64(0)
	for b := 0; b < 13; b++ {
		h := uint64(o.c.Header.Height)
		open := map[int]uint64{}
		if bb := spec.openBase(0, h); bb > 0 {
			open[0] = bb
			d.roundLog(0, bb)
		}
		switch h {
		case 2:
			o.vsDo(vsAction{kind: "optout", op: 2})
		case 10:
			d.sendTx(vsMsg(d, 0, 9, 1, [2]string{"9", "2"}), open)
			cls := d.sendTx(vsMsg(d, 2, 9, 1, [2]string{"9", "2"}), open)
			env.Outcome("directed-departed:submission-of-departed=" + cls)
		case 11:
			d.sendTx(vsMsg(d, 1, 9, 1, [2]string{"9", "2"}), open)
		}
		upd, halted := d.endBlock()
		if halted {
			return
		}
		if len(upd) > 0 {
			d.applyUpdates(upd)
			if p, ok := upd[2]; ok && p == 0 {
				removedAt = o.c.Header.Height
			}
		}
		step := 2 * time.Second
		if h == 8 {
			step = 70 * time.Second
		}
		if !d.commitBegin(step) {
			return
		}
	}
	env.Outcome(fmt.Sprintf("directed-departed:removed-at-block=%d", removedAt))
	env.Report.Histories++
}

// directedDupDetID (C13): validators 20/10/10. Validator 0's FIRST message of the round repeats one
// source round three times with the same value (its power must count once: 20 of 40 confirms nothing);
// validator 1's first message repeats a source round with two different values (only the first counts);
// validator 2's second message repeats what its first one reported, twice (nothing counts).
func directedDupDetID(env *Env, mon string) {
	spec := vsBaseSpec([]int64{20, 10, 10})
	o := newOrc(env, 131304, spec, nil)
	o.emitSetup()
	d := newOrcDriver(o, NewRNG(131304))
	d.wMon, d.wTag = mon, ":dup-detid"
	for b := 0; b < 7; b++ {
		h := uint64(o.c.Header.Height)
		open := map[int]uint64{}
		if bb := spec.openBase(0, h); bb > 0 {
			open[0] = bb
			d.roundLog(0, bb)
		}
		switch h {
		case 3:
			cls := d.sendTx(vsMsg(d, 0, 2, 1, [2]string{"9", "7"}, [2]string{"9", "7"}, [2]string{"9", "7"}), open)
			env.Outcome("directed-dup-detid:first-message-same-value=" + cls)
			d.sendTx(vsMsg(d, 1, 2, 1, [2]string{"10", "3"}, [2]string{"10", "4"}), open)
		case 4:
			d.sendTx(vsMsg(d, 2, 2, 1, [2]string{"10", "3"}), open)
			d.sendTx(vsMsg(d, 2, 2, 2, [2]string{"10", "3"}, [2]string{"10", "3"}), open)
		}
		if _, halted := d.endBlock(); halted {
			return
		}
		if !d.commitBegin(2 * time.Second) {
			return
		}
	}
	env.Report.Histories++
}
