package main

// C03, first sentence, withdrawal half: "likewise a withdrawal of any amount within the withdrawable balance is
// always accepted".
//
//   - monitorWithdraw: evaluated on EVERY withdrawal of the random ledger histories (called from step, case 1):
//     a request 0 < x <= WithdrawableAmount of a registered asset must not be refused.
//   - directedWithdrawAfterReward (finding candidate F-03c): a positive native-restaking balance adjustment raises
//     the staker's TotalDepositAmount and WithdrawableAmount but not the asset's StakingTotalAmount
//     (update_native_restaking_balance.go never calls UpdateStakingAssetTotalAmount); a withdrawal of the whole
//     withdrawable balance then fails in UpdateStakingAssetTotalAmount (ErrSubAmountIsMoreThanOrigin).
//     Model: C03_withdraw_rejected_after_nst_increase.
//   - directedRoundingGain (finding candidate F-03d): after a slash the share price of a pool is skewed; a
//     co-delegator's undelegation of 1 unit burns shares for 0 tokens, the dust stays in the pool and the last
//     delegator out takes the whole pool: it delegated 1 and is credited 2. Its row then reads TotalDepositAmount 1,
//     WithdrawableAmount 2 and the withdrawal of its withdrawable balance fails in UpdateStakerAssetState.
//     Model: C03_withdraw_rejected_after_rounding_gain, C02_roundtrip_history_fails.
//
// Both directed scenarios are fed to the model diff op by op like every other operation.

import (
	"fmt"
	"math/big"
	"strings"

	sdkmath "cosmossdk.io/math"
	sdk "github.com/cosmos/cosmos-sdk/types"
	stakingtypes "github.com/cosmos/cosmos-sdk/x/staking/types"
	"github.com/ethereum/go-ethereum/common"

	assetskeeper "github.com/ExocoreNetwork/exocore/x/assets/keeper"
	assetstypes "github.com/ExocoreNetwork/exocore/x/assets/types"
	delegationtypes "github.com/ExocoreNetwork/exocore/x/delegation/types"
	operatorkeeper "github.com/ExocoreNetwork/exocore/x/operator/keeper"
	operatortypes "github.com/ExocoreNetwork/exocore/x/operator/types"
)

// withdrawSig classifies a refused withdrawal within the withdrawable balance by the state it was refused in
func withdrawSig(prev *ledgerSnap, sid, asset string, x *big.Int) string {
	row := prev.stakers[sid+"/"+asset]
	if row.total != nil && row.withdrawable.Cmp(row.total) > 0 && x.Cmp(row.total) > 0 {
		return "F-03d:withdrawable-exceeds-total-deposit"
	}
	sum := new(big.Int)
	for k, v := range prev.stakers {
		if strings.HasSuffix(k, "/"+asset) {
			sum.Add(sum, v.total)
		}
	}
	if t := prev.totals[asset]; t != nil && sum.Cmp(t) > 0 && x.Cmp(t) > 0 {
		// the stakers' total deposits exceed the published staking total: only a positive NST adjustment does that
		return "F-03c:withdraw-rejected-after-nst-increase"
	}
	return "withdraw-rejected-within-balance"
}

// monitorWithdraw: C03 "a withdrawal of any amount within the withdrawable balance is always accepted"
func (w *ledgerWorld) monitorWithdraw(prev *ledgerSnap, sid, asset string, x sdkmath.Int, err error) {
	row, ok := prev.stakers[sid+"/"+asset]
	if !ok || row.withdrawable == nil || !x.IsPositive() || x.BigInt().Cmp(row.withdrawable) > 0 {
		return
	}
	if _, reg := prev.totals[asset]; !reg {
		return
	}
	w.env.Eval("C03.withdraw")
	if err == nil {
		w.env.Outcome("withdraw.within-balance.ok")
		return
	}
	if ledgerBoundPanic(err) { // the SDK's 256-bit guards: not the property's matter (see registry assumptions)
		return
	}
	sig := withdrawSig(prev, sid, asset, x.BigInt())
	w.env.Outcome("withdraw.within-balance.rej:" + sig)
	w.env.Violate("C03.withdraw", sig, fmt.Sprintf("withdrawal of %s by %s within its withdrawable balance %s of %s refused: %v (row total deposit %s, published staking total %s)",
		x, sid, row.withdrawable, asset, err, row.total, prev.totals[asset]), w.hist)
}

// one keeper call of a directed scenario, shown to the model like every other op
func (w *ledgerWorld) directedRun(tag, name, opLine string, f func(ctx sdk.Context) error) (*ledgerSnap, error) {
	err := w.c.CachedDo(f)
	after := w.snapAndCheck()
	after.checkInvariants(w.env, w.hist, w.orphans)
	res := "ok"
	if err != nil {
		res = "rej"
	}
	w.emit(opLine, res+" "+after.dump())
	w.env.Outcome(tag + "." + name + "." + ledgerErrClass(err))
	return after, err
}

func (w *ledgerWorld) directedDeposit(tag string, st Actor, ai int, x sdkmath.Int) (*ledgerSnap, error) {
	c := w.c
	sid, asset := StakerIDOf(c.LzID, st.Eth), c.AssetIDs[ai]
	return w.directedRun(tag, "deposit", fmt.Sprintf("ledger.deposit %s %s %s", sid, asset, x), func(ctx sdk.Context) error {
		return c.App.AssetsKeeper.PerformDepositOrWithdraw(ctx, &assetskeeper.DepositWithdrawParams{
			ClientChainLzID: c.LzID, Action: assetstypes.DepositLST, StakerAddress: st.Eth.Bytes(), AssetsAddress: w.assetAddr(ai), OpAmount: x})
	})
}

func (w *ledgerWorld) directedWithdraw(tag string, st Actor, ai int, x sdkmath.Int) (*ledgerSnap, error) {
	c := w.c
	sid, asset := StakerIDOf(c.LzID, st.Eth), c.AssetIDs[ai]
	return w.directedRun(tag, "withdraw", fmt.Sprintf("ledger.withdraw %s %s %s", sid, asset, x), func(ctx sdk.Context) error {
		return c.App.AssetsKeeper.PerformDepositOrWithdraw(ctx, &assetskeeper.DepositWithdrawParams{
			ClientChainLzID: c.LzID, Action: assetstypes.WithdrawLST, StakerAddress: st.Eth.Bytes(), AssetsAddress: w.assetAddr(ai), OpAmount: x})
	})
}

// directedWithdrawAfterReward replays finding candidate F-03c on the real keepers
func (w *ledgerWorld) directedWithdrawAfterReward() {
	c := w.c
	const tag = "f03c"
	// an asset nobody has deposited yet if there is one (the realistic shape: the last staker leaving with its
	// reward), else asset 0 with a reward larger than everything published
	s0 := w.snapAndCheck()
	ai := 0
	for i := len(c.AssetIDs) - 1; i > 0; i-- {
		if t := s0.totals[c.AssetIDs[i]]; t != nil && t.Sign() == 0 && i < len(w.assets) {
			ai = i
			break
		}
	}
	asset := c.AssetIDs[ai]
	pub := s0.totals[asset]
	if pub == nil {
		w.env.Note(tag + "-skipped: asset not registered")
		return
	}
	st := NewActor(c.Cfg.Seed, "f03c-staker", 0)
	sid := StakerIDOf(c.LzID, st.Eth)
	dep := sdkmath.NewInt(10)
	reward := sdkmath.NewIntFromBigInt(new(big.Int).Add(pub, big.NewInt(5)))
	if _, err := w.directedDeposit(tag, st, ai, dep); err != nil {
		return
	}
	before, err := w.directedRun(tag, "nstadjust", fmt.Sprintf("ledger.nstadjust %s %s %s", sid, asset, reward), func(ctx sdk.Context) error {
		return c.App.DelegationKeeper.UpdateNSTBalance(ctx, sid, asset, reward)
	})
	if err != nil {
		return
	}
	row := before.stakers[sid+"/"+asset]
	all := sdkmath.NewIntFromBigInt(row.withdrawable)
	w.env.Outcome(fmt.Sprintf("%s.row total=%s,withdrawable=%s,published-minus-deposit=%s", tag, row.total, row.withdrawable, pub))
	_, werr := w.directedWithdraw(tag, st, ai, all)
	w.env.Eval("C03.withdraw")
	if werr != nil && !ledgerBoundPanic(werr) {
		w.env.Violate("C03.withdraw", withdrawSig(before, sid, asset, all.BigInt()),
			fmt.Sprintf("after a deposit of %s and a native-restaking balance increase of %s the withdrawable balance of %s is %s, but withdrawing it is refused: %v (published staking total %s: UpdateNSTBalance(+x) raises the staker's deposit, never the asset's StakingTotalAmount)",
				dep, reward, sid, all, werr, before.totals[asset]), w.hist)
		// what the code does accept: everything up to the published total
		if t := before.totals[asset]; t.Sign() > 0 && t.Cmp(row.withdrawable) < 0 {
			w.directedWithdraw(tag, st, ai, sdkmath.NewIntFromBigInt(t))
		}
	}
}

// directedRoundingGain replays finding candidate F-03d on the real keepers
func (w *ledgerWorld) directedRoundingGain(kinds map[string]int) {
	c := w.c
	const tag = "f03d"
	const ai = 0
	asset, aaddr := c.AssetIDs[ai], w.assetAddr(ai)
	opA := NewActor(c.Cfg.Seed, "f03d-operator", 0)
	if err := c.CachedDo(func(ctx sdk.Context) error {
		return c.App.OperatorKeeper.SetOperatorInfo(ctx, opA.Acc.String(), &operatortypes.OperatorInfo{
			EarningsAddr: opA.Acc.String(), OperatorMetaInfo: "f03d", Commission: stakingtypes.NewCommission(sdk.ZeroDec(), sdk.ZeroDec(), sdk.ZeroDec())})
	}); err != nil {
		w.env.Note(tag + "-setup-failed: " + err.Error())
		return
	}
	op := opA.Acc
	w.emit("ledger.operator "+op.String(), "ok")
	z, x, y := NewActor(c.Cfg.Seed, "f03d-staker", 0), NewActor(c.Cfg.Seed, "f03d-staker", 1), NewActor(c.Cfg.Seed, "f03d-staker", 2)
	sidOf := func(a Actor) string { return StakerIDOf(c.LzID, a.Eth) }
	delegate := func(st Actor, amt int64) error {
		v := sdkmath.NewInt(amt)
		_, err := w.directedRun(tag, "delegate", fmt.Sprintf("ledger.delegate %s %s %s %s", sidOf(st), asset, op, v), func(ctx sdk.Context) error {
			return c.App.DelegationKeeper.DelegateTo(ctx, &delegationtypes.DelegationOrUndelegationParams{
				ClientChainID: c.LzID, AssetsAddress: aaddr, OperatorAddress: op, StakerAddress: st.Eth.Bytes(), OpAmount: v})
		})
		return err
	}
	nonce := uint64(1 << 41)
	undelegate := func(st Actor, amt int64) error {
		v := sdkmath.NewInt(amt)
		nonce++
		n := nonce
		hash := common.BytesToHash(detBytes(n, "f03d", int(c.Header.Height)))
		err := c.CachedDo(func(ctx sdk.Context) error {
			return c.App.DelegationKeeper.UndelegateFrom(ctx, &delegationtypes.DelegationOrUndelegationParams{
				ClientChainID: c.LzID, AssetsAddress: aaddr, OperatorAddress: op, StakerAddress: st.Eth.Bytes(), OpAmount: v,
				LzNonce: n, TxHash: hash})
		})
		held := 0
		if err == nil {
			rk := delegationtypes.GetUndelegationRecordKey(uint64(c.Header.Height), n, hash.String(), op.String())
			if c.App.DelegationKeeper.GetUndelegationHoldCount(c.Ctx, rk) > 0 {
				held = 1
			}
		}
		after := w.snapAndCheck()
		after.checkInvariants(w.env, w.hist, w.orphans)
		res := "ok"
		if err != nil {
			res = "rej"
		}
		w.emit(fmt.Sprintf("ledger.undelegate %s %s %s %s %d %s %d", sidOf(st), asset, op, v, n, hash.String(), held), res+" "+after.dump())
		w.env.Outcome(tag + ".undelegate." + ledgerErrClass(err))
		return err
	}
	for _, d := range []struct {
		st  Actor
		amt int64
	}{{z, 4}, {x, 1}, {y, 2}} {
		if _, err := w.directedDeposit(tag, d.st, ai, sdkmath.NewInt(d.amt)); err != nil {
			return
		}
	}
	if delegate(z, 4) != nil {
		return
	}
	// slash the fresh operator (its only pool: 4 base units) by an effective proportion of 0.3: the pool loses
	// trunc(0.3*4) = 1. power*factor/value = 0.3 with power 1 and factor = 0.3*value.
	info, verr := c.App.OperatorKeeper.CalculateUSDValueForOperator(c.Ctx, true, op.String(), nil, nil, nil)
	if verr != nil || !info.StakingAndWaitUnbonding.IsPositive() {
		w.env.Note(tag + "-skipped: the pool has no USD value at this asset's decimals/price")
		return
	}
	factor := sdkmath.LegacyMustNewDecFromStr("0.3").Mul(info.StakingAndWaitUnbonding)
	if !factor.IsPositive() || factor.GT(sdkmath.LegacyOneDec()) {
		w.env.Note(tag + "-skipped: no slash factor in (0,1] gives the proportion 0.3")
		return
	}
	infraction := c.Header.Height
	infr := stakingtypes.Infraction(1)
	func() {
		defer func() { recover() }()
		c.App.OperatorKeeper.SlashWithInfractionReason(c.Ctx, op, infraction, 1, factor, infr)
	}()
	after := w.snapAndCheck()
	sinfo, ierr := c.App.OperatorKeeper.GetOperatorSlashInfo(c.Ctx, c.AVSAddr, op.String(), operatorkeeper.GetSlashIDForDogfood(infr, infraction))
	if ierr != nil || sinfo.ExecutionInfo == nil {
		w.emit("ledger.dump", "ok "+after.dump())
		w.env.Note(tag + "-skipped: slash refused")
		return
	}
	w.emit(fmt.Sprintf("ledger.slash %s %d %s", op, infraction, sinfo.ExecutionInfo.SlashProportion.BigInt()), "ok "+after.dump())
	after.checkInvariants(w.env, w.hist, w.orphans)
	if pl := after.pools[op.String()+"/"+asset]; pl.amount == nil || pl.amount.Cmp(big.NewInt(3)) != 0 {
		w.env.Note(fmt.Sprintf("%s-skipped: pool after slash is %v, not 3", tag, pl.amount))
		return
	}
	w.env.Outcome(tag + ".slash.pool=3")
	if delegate(x, 1) != nil || delegate(y, 2) != nil {
		return
	}
	// y asks twice for 1 unit (paid 0, then 1), z leaves with 3, x - the last delegator - takes the whole pool
	if undelegate(y, 1) != nil || undelegate(y, 1) != nil || undelegate(z, 3) != nil || undelegate(x, 2) != nil {
		return
	}
	prev := w.snapAndCheck()
	for i := 0; i < int(operatortypes.UnbondingExpiration)+3 && c.Halted == ""; i++ {
		prev = w.blocks(prev, kinds, 1)
		pending := false
		for _, rc := range prev.recs {
			if rc.op == op.String() {
				pending = true
			}
		}
		if !pending {
			break
		}
	}
	if c.Halted != "" {
		return
	}
	row := prev.stakers[sidOf(x)+"/"+asset]
	if row.total == nil {
		return
	}
	w.env.Outcome(fmt.Sprintf("%s.x-row total=%s,withdrawable=%s,pending=%s", tag, row.total, row.withdrawable, row.pending))
	w.env.Eval("C03.withdraw")
	w.env.Eval("C02.roundtrip")
	if row.withdrawable.Cmp(row.total) > 0 {
		w.env.Violate("C02.roundtrip", "F-03d:roundtrip-returns-more-than-delegated",
			fmt.Sprintf("staker %s deposited and delegated %s (no slash afterwards), undelegated everything and was credited %s: the rounding dust of its co-delegators' undelegations stayed in the pool and the last share out takes the whole pool",
				sidOf(x), row.total, row.withdrawable), w.hist)
	}
	all := sdkmath.NewIntFromBigInt(row.withdrawable)
	if !all.IsPositive() {
		return
	}
	if _, werr := w.directedWithdraw(tag, x, ai, all); werr != nil && !ledgerBoundPanic(werr) {
		w.env.Violate("C03.withdraw", withdrawSig(prev, sidOf(x), asset, all.BigInt()),
			fmt.Sprintf("staker %s has total deposit %s and withdrawable balance %s; withdrawing the withdrawable balance is refused: %v", sidOf(x), row.total, row.withdrawable, werr), w.hist)
	}
}
