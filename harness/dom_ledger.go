package main

// C01–C04 — restaking ledger. Seeded histories of deposit / withdraw / delegate / undelegate /
// associate / dissociate / slash / block+epoch ends against the REAL x/assets, x/delegation,
// x/operator and x/dogfood keepers of a booted app. After every op the full ledger (all stores
// the four properties talk about) is dumped canonically for the Lean model to reproduce, and
// the properties' predicates are evaluated directly on the real state (monitors).

import (
	"encoding/json"
	"fmt"
	"math/big"
	"sort"
	"strings"
	"time"

	sdkmath "cosmossdk.io/math"
	"github.com/cosmos/cosmos-sdk/store/prefix"
	sdk "github.com/cosmos/cosmos-sdk/types"
	stakingtypes "github.com/cosmos/cosmos-sdk/x/staking/types"
	"github.com/ethereum/go-ethereum/common"
	"github.com/ethereum/go-ethereum/common/hexutil"

	assetskeeper "github.com/ExocoreNetwork/exocore/x/assets/keeper"
	assetstypes "github.com/ExocoreNetwork/exocore/x/assets/types"
	delegationtypes "github.com/ExocoreNetwork/exocore/x/delegation/types"
	epochstypes "github.com/ExocoreNetwork/exocore/x/epochs/types"
	distributiontypes "github.com/ExocoreNetwork/exocore/x/feedistribution/types"
	operatorkeeper "github.com/ExocoreNetwork/exocore/x/operator/keeper"
	operatortypes "github.com/ExocoreNetwork/exocore/x/operator/types"
)

func init() { register("ledger", domLedger) }

// ---- snapshot of the real ledger ------------------------------------------------------

type lsStaker struct{ total, withdrawable, pending *big.Int }
type lsPool struct{ amount, pending, totalShare, opShare *big.Int }
type lsDeleg struct{ share, wait *big.Int }
type lsRec struct {
	key, staker, asset, op string
	nonce, block, complete uint64
	amount, actual         *big.Int
}

type ledgerSnap struct {
	height  int64
	totals  map[string]*big.Int
	stakers map[string]lsStaker // staker/asset
	pools   map[string]lsPool   // op/asset
	deleg   map[string]lsDeleg  // staker/asset/op
	slist   map[string][]string // op/asset
	assoc   map[string]string
	recs    map[string]lsRec
	sidx    map[string]string
	pidx    map[string]string
	holds   map[string]uint64
	bal     map[string]*big.Int // native-token bank balance of the tracked native stakers (by stakerID)
	escrow  *big.Int            // bank balance of the delegated_pool module account
}

func sortedMapLines[V any](m map[string]V, f func(k string, v V) string) string {
	// rendered lines are sorted as whole strings (the model driver does the same)
	parts := make([]string, 0, len(m))
	for k, v := range m {
		parts = append(parts, f(k, v))
	}
	sort.Strings(parts)
	return strings.Join(parts, ";")
}

// native stakers tracked by the ledger domain (stakerID -> account)
var ledgerNativeStakers = map[string]sdk.AccAddress{}

func (c *Chain) ledgerSnap() (*ledgerSnap, error) {
	ctx := c.Ctx
	s := &ledgerSnap{height: ctx.BlockHeight(), totals: map[string]*big.Int{}, stakers: map[string]lsStaker{}, pools: map[string]lsPool{},
		deleg: map[string]lsDeleg{}, slist: map[string][]string{}, assoc: map[string]string{}, recs: map[string]lsRec{},
		sidx: map[string]string{}, pidx: map[string]string{}, holds: map[string]uint64{}, bal: map[string]*big.Int{}}
	for sid, acc := range ledgerNativeStakers {
		s.bal[sid] = c.App.BankKeeper.GetBalance(ctx, acc, assetstypes.ExocoreAssetDenom).Amount.BigInt()
	}
	s.escrow = c.App.BankKeeper.GetBalance(ctx, c.App.AccountKeeper.GetModuleAddress(delegationtypes.DelegatedPoolName), assetstypes.ExocoreAssetDenom).Amount.BigInt()
	assets, err := c.App.AssetsKeeper.GetAllStakingAssetsInfo(ctx)
	if err != nil {
		return nil, err
	}
	for _, a := range assets {
		_, id := assetstypes.GetStakerIDAndAssetIDFromStr(a.AssetBasicInfo.LayerZeroChainID, "", a.AssetBasicInfo.Address)
		s.totals[id] = a.StakingTotalAmount.BigInt()
	}
	deps, err := c.App.AssetsKeeper.AllDeposits(ctx)
	if err != nil {
		return nil, err
	}
	for _, d := range deps {
		for _, x := range d.Deposits {
			s.stakers[d.StakerID+"/"+x.AssetID] = lsStaker{x.Info.TotalDepositAmount.BigInt(), x.Info.WithdrawableAmount.BigInt(), x.Info.PendingUndelegationAmount.BigInt()}
		}
	}
	ops, err := c.App.AssetsKeeper.AllOperatorAssets(ctx)
	if err != nil {
		return nil, err
	}
	for _, o := range ops {
		for _, x := range o.AssetsState {
			s.pools[o.Operator+"/"+x.AssetID] = lsPool{x.Info.TotalAmount.BigInt(), x.Info.PendingUndelegationAmount.BigInt(), x.Info.TotalShare.BigInt(), x.Info.OperatorShare.BigInt()}
		}
	}
	ds, err := c.App.DelegationKeeper.AllDelegationStates(ctx)
	if err != nil {
		return nil, err
	}
	for _, d := range ds {
		s.deleg[d.Key] = lsDeleg{d.States.UndelegatableShare.BigInt(), d.States.WaitUndelegationAmount.BigInt()}
	}
	sl, err := c.App.DelegationKeeper.AllStakerList(ctx)
	if err != nil {
		return nil, err
	}
	for _, l := range sl {
		s.slist[l.Key] = l.Stakers
	}
	as, err := c.App.DelegationKeeper.GetAllAssociations(ctx)
	if err != nil {
		return nil, err
	}
	for _, a := range as {
		s.assoc[a.StakerID] = a.Operator
	}
	us, err := c.App.DelegationKeeper.AllUndelegations(ctx)
	if err != nil {
		return nil, err
	}
	for _, u := range us {
		k := string(delegationtypes.GetUndelegationRecordKey(u.BlockNumber, u.LzTxNonce, u.TxHash, u.OperatorAddr))
		s.recs[k] = lsRec{k, u.StakerID, u.AssetID, u.OperatorAddr, u.LzTxNonce, u.BlockNumber, u.CompleteBlockNumber, u.Amount.BigInt(), u.ActualCompletedAmount.BigInt()}
		if hc := c.App.DelegationKeeper.GetUndelegationHoldCount(ctx, []byte(k)); hc != 0 {
			s.holds[k] = hc
		}
	}
	store := ctx.KVStore(c.App.GetKey(delegationtypes.StoreKey))
	for _, pr := range []struct {
		pfx []byte
		dst map[string]string
	}{{delegationtypes.KeyPrefixStakerUndelegationInfo, s.sidx}, {delegationtypes.KeyPrefixPendingUndelegations, s.pidx}} {
		it := sdk.KVStorePrefixIterator(prefix.NewStore(store, pr.pfx), nil)
		for ; it.Valid(); it.Next() {
			pr.dst[string(it.Key())] = string(it.Value())
		}
		it.Close()
	}
	// hold counts of keys without a record (should not exist; reported by the monitor)
	it := sdk.KVStorePrefixIterator(store, delegationtypes.GetUndelegationOnHoldKey(nil))
	for ; it.Valid(); it.Next() {
		k := string(it.Key()[1:])
		if v := sdk.BigEndianToUint64(it.Value()); v != 0 {
			s.holds[k] = v
		}
	}
	it.Close()
	return s, nil
}

func (s *ledgerSnap) dump() string {
	sec := func(tag, body string) string { return tag + "{" + body + "}" }
	return strings.Join([]string{
		fmt.Sprintf("H=%d", s.height),
		sec("T", sortedMapLines(s.totals, func(k string, v *big.Int) string { return k + "=" + v.String() })),
		sec("S", sortedMapLines(s.stakers, func(k string, v lsStaker) string {
			return fmt.Sprintf("%s=%s,%s,%s", k, v.total, v.withdrawable, v.pending)
		})),
		sec("P", sortedMapLines(s.pools, func(k string, v lsPool) string {
			return fmt.Sprintf("%s=%s,%s,%s,%s", k, v.amount, v.pending, v.totalShare, v.opShare)
		})),
		sec("D", sortedMapLines(s.deleg, func(k string, v lsDeleg) string { return fmt.Sprintf("%s=%s,%s", k, v.share, v.wait) })),
		sec("L", sortedMapLines(s.slist, func(k string, v []string) string { return k + "=" + strings.Join(v, ",") })),
		sec("A", sortedMapLines(s.assoc, func(k string, v string) string { return k + "=" + v })),
		sec("R", sortedMapLines(s.recs, func(k string, v lsRec) string {
			return fmt.Sprintf("%s=%s,%s,%s,%s,%d", k, v.staker, v.asset, v.amount, v.actual, v.complete)
		})),
		sec("SI", sortedMapLines(s.sidx, func(k, v string) string { return k + "=" + v })),
		sec("PI", sortedMapLines(s.pidx, func(k, v string) string { return k + "=" + v })),
		sec("HC", sortedMapLines(s.holds, func(k string, v uint64) string { return fmt.Sprintf("%s=%d", k, v) })),
		sec("B", sortedMapLines(s.bal, func(k string, v *big.Int) string { return k + "=" + v.String() })),
		"E=" + s.escrow.String(),
	}, " ")
}

// value per asset that conservation talks about: Σ withdrawable + Σ pool amount + Σ actual of records
func (s *ledgerSnap) valueOf(asset string) *big.Int {
	t := new(big.Int)
	for k, v := range s.stakers {
		if strings.HasSuffix(k, "/"+asset) {
			t.Add(t, v.withdrawable)
		}
	}
	for k, v := range s.pools {
		if strings.HasSuffix(k, "/"+asset) {
			t.Add(t, v.amount)
		}
	}
	for _, r := range s.recs {
		if r.asset == asset {
			t.Add(t, r.actual)
		}
	}
	return t
}

// ---- invariants of C01/C02/C03 evaluated on one snapshot -------------------------------

func (s *ledgerSnap) checkInvariants(env *Env, hist []string, tolerateOrphans bool) {
	viol := func(mon, sig, what string) { env.Violate(mon, sig, what, hist) }
	neg := func(x *big.Int) bool { return x.Sign() < 0 }
	env.Eval("C01.nonneg")
	for k, v := range s.stakers {
		if neg(v.total) || neg(v.withdrawable) || neg(v.pending) {
			viol("C01.nonneg", "negative-staker", "negative staker figure "+k)
		}
	}
	for k, v := range s.pools {
		if neg(v.amount) || neg(v.pending) || neg(v.totalShare) || neg(v.opShare) {
			viol("C01.nonneg", "negative-pool", "negative pool figure "+k)
		}
	}
	// C01 native token: the escrow account holds at least the native pools plus the pending amounts
	env.Eval("C01.escrow")
	if s.escrow != nil {
		need := new(big.Int)
		for k, v := range s.pools {
			if strings.HasSuffix(k, "/"+assetstypes.ExocoreAssetID) {
				need.Add(need, v.amount)
			}
		}
		for _, r := range s.recs {
			if r.asset == assetstypes.ExocoreAssetID {
				need.Add(need, r.actual)
			}
		}
		if s.escrow.Cmp(need) < 0 {
			viol("C01.escrow", "escrow-short", fmt.Sprintf("delegated_pool holds %s, native pools + pending need %s", s.escrow, need))
		}
	}
	// C02: share sums, staker list, zero-amount ⇒ zero shares
	env.Eval("C02.shares")
	sumShare := map[string]*big.Int{}
	sumSelf := map[string]*big.Int{}
	holders := map[string]map[string]bool{}
	waitByStaker := map[string]*big.Int{} // staker/asset
	for k, d := range s.deleg {
		f := strings.Split(k, "/")
		if len(f) != 3 {
			continue
		}
		pk := f[2] + "/" + f[1]
		if sumShare[pk] == nil {
			sumShare[pk], sumSelf[pk], holders[pk] = new(big.Int), new(big.Int), map[string]bool{}
		}
		sumShare[pk].Add(sumShare[pk], d.share)
		if s.assoc[f[0]] == f[2] {
			sumSelf[pk].Add(sumSelf[pk], d.share)
		}
		if d.share.Sign() > 0 {
			holders[pk][f[0]] = true
		}
		if neg(d.share) || neg(d.wait) {
			viol("C01.nonneg", "negative-deleg", "negative delegation figure "+k)
		}
		sk := f[0] + "/" + f[1]
		if waitByStaker[sk] == nil {
			waitByStaker[sk] = new(big.Int)
		}
	}
	for pk, p := range s.pools {
		ss, self := sumShare[pk], sumSelf[pk]
		if ss == nil {
			ss, self = new(big.Int), new(big.Int)
		}
		if p.totalShare.Cmp(ss) != 0 {
			viol("C02.shares", "total-share-sum", fmt.Sprintf("pool %s totalShare %s != sum of delegator shares %s", pk, p.totalShare, ss))
		}
		if p.opShare.Cmp(self) != 0 {
			viol("C02.shares", "op-share-sum", fmt.Sprintf("pool %s operatorShare %s != sum of associated delegators' shares %s", pk, p.opShare, self))
		}
		if p.amount.Sign() == 0 && p.totalShare.Sign() != 0 {
			sig := "zero-amount-shares"
			if pk == ledgerF02aPool { // the directed scenario of finding F-02a (see directedZeroPool)
				sig = "F-02a:zero-amount-shares"
			}
			viol("C02.shares", sig, fmt.Sprintf("pool %s has amount 0 but shares %s", pk, p.totalShare))
		}
		lst := s.slist[pk]
		seen := map[string]bool{}
		for _, st := range lst {
			if seen[st] {
				viol("C02.shares", "slist-dup", "staker list "+pk+" contains "+st+" twice")
			}
			seen[st] = true
			if !holders[pk][st] {
				viol("C02.shares", "slist-extra", "staker list "+pk+" contains "+st+" who holds no share")
			}
		}
		for st := range holders[pk] {
			if !seen[st] {
				viol("C02.shares", "slist-missing", "staker list "+pk+" misses holder "+st)
			}
		}
	}
	// C03: index consistency and pending aggregates
	env.Eval("C03.index")
	pendStaker := map[string]*big.Int{}
	pendOp := map[string]*big.Int{}
	pendDeleg := map[string]*big.Int{}
	add := func(m map[string]*big.Int, k string, v *big.Int) {
		if m[k] == nil {
			m[k] = new(big.Int)
		}
		m[k].Add(m[k], v)
	}
	for k, r := range s.recs {
		sk := string(delegationtypes.GetStakerUndelegationRecordKey(r.staker, r.asset, r.nonce))
		pk := string(delegationtypes.GetPendingUndelegationRecordKey(r.complete, r.nonce))
		if s.sidx[sk] != k && !tolerateOrphans {
			viol("C03.index", "orphan-staker-index", "record "+k+" is not reachable through the staker index (entry "+sk+" -> "+s.sidx[sk]+")")
		}
		if s.pidx[pk] != k && !tolerateOrphans {
			viol("C03.index", "orphan-pending-index", "record "+k+" is not reachable through the pending index (entry "+pk+" -> "+s.pidx[pk]+"): it will never be released")
		}
		add(pendStaker, r.staker+"/"+r.asset, r.amount)
		add(pendOp, r.op+"/"+r.asset, r.amount)
		add(pendDeleg, r.staker+"/"+r.asset+"/"+r.op, r.amount)
		if neg(r.actual) || r.actual.Cmp(r.amount) > 0 {
			viol("C03.index", "actual-range", "record "+k+" actual outside [0, amount]")
		}
	}
	for k, v := range s.sidx {
		if _, ok := s.recs[v]; !ok {
			viol("C03.index", "dangling-staker-index", "staker index "+k+" points at missing record "+v)
		}
	}
	for k, v := range s.pidx {
		if _, ok := s.recs[v]; !ok {
			viol("C03.index", "dangling-pending-index", "pending index "+k+" points at missing record "+v)
		}
	}
	for k := range s.holds {
		if _, ok := s.recs[k]; !ok {
			viol("C03.index", "hold-without-record", "hold count on missing record "+k)
		}
	}
	zero := new(big.Int)
	get := func(m map[string]*big.Int, k string) *big.Int {
		if m[k] == nil {
			return zero
		}
		return m[k]
	}
	for k, v := range s.stakers {
		if v.pending.Cmp(get(pendStaker, k)) != 0 {
			viol("C03.pending", "staker-pending-sum", fmt.Sprintf("staker %s pending %s != sum of its records %s", k, v.pending, get(pendStaker, k)))
		}
	}
	for k, v := range s.pools {
		if v.pending.Cmp(get(pendOp, k)) != 0 {
			viol("C03.pending", "operator-pending-sum", fmt.Sprintf("operator %s pending %s != sum of its records %s", k, v.pending, get(pendOp, k)))
		}
	}
	for k, v := range s.deleg {
		if v.wait.Cmp(get(pendDeleg, k)) != 0 {
			viol("C03.pending", "deleg-wait-sum", fmt.Sprintf("delegation %s wait %s != sum of its records %s", k, v.wait, get(pendDeleg, k)))
		}
	}
}

// ---- the domain -------------------------------------------------------------------------

type ledgerWorld struct {
	c                *Chain
	env              *Env
	rng              *RNG
	hist             []string
	stakers          []Actor
	ops              []sdk.AccAddress // registered operators (validators first)
	assets           []AssetSpec
	nonce            uint64
	slashN           int
	curDec           uint32     // decimals of the asset the current op is about
	nstakers         []Actor    // accounts holding native tokens that delegate the native asset
	forced           []forcedOp // scripted next operations (directed sub-scenarios inside a random history)
	lastSlash        *slashEvent
	huge             bool // extreme amounts (2^64..2^200); such histories never reach an epoch end (see C11 findings F-11f/g)
	gDep             map[string]*big.Int
	gWd              map[string]*big.Int
	gSl              map[string]*big.Int
	orphans          bool     // a known-finding directed scenario left orphaned records behind
	nativeRegistered bool     // the native token was registered as a staking asset in this history
	nativeTried      bool     // the native-slashed-while-pending sub-scenario was injected
	forceTargeted    bool     // the current (scripted) slash must aim at a chosen proportion
	zeroFactorDone   bool     // this history already executed a slash with slash factor 0 (boundary p = 0 of C04)
	rewardTried      bool     // the nst-reward-withdraw sub-scenario was injected in this history
	extraHolds       []string // record keys on which a second AVS (emulated) currently holds one more count
	nstMode          bool     // history with native-restaking balance adjustments (UpdateNSTBalance), replayed by the model like every other op
	betweenTried     bool     // the slash-between-records sub-scenario was injected in this history (dom_ledger_slashrecs.go)
	forceBetween     bool     // the current (scripted) slash takes its infraction height from the operator's pending records
	hi               int      // index of the history inside the run
	stepNo           int      // steps taken in this history
	concTried        bool     // the many-concurrent-undelegations sub-scenario was injected in this history (dom_ledger_concurrent.go)
	quiet            int      // number of upcoming scripted ops after which no random blocks are inserted (a burst stays in its blocks)
}

func (w *ledgerWorld) emit(op, obs string) {
	w.hist = append(w.hist, op)
	w.env.Op(op, obs)
}

func bigPow10(n int) *big.Int { return new(big.Int).Exp(big.NewInt(10), big.NewInt(int64(n)), nil) }

// amount generator: boundary-biased
func (w *ledgerWorld) amount(near *big.Int) sdkmath.Int {
	x := w.amountRaw(near)
	// outside `huge` histories stay below ~10^12 tokens (10^(12+decimals) base units) per op: the
	// vote-power code of the epoch end cannot digest a USD value beyond int64 (Int64 out of bound /
	// Int overflow in Begin/EndBlock: C11 findings F-11f/g)
	if lim := bigPow10(12 + int(w.curDec)); !w.huge && x.BigInt().Cmp(lim) > 0 {
		return sdkmath.NewIntFromBigInt(new(big.Int).Mod(x.BigInt(), lim))
	}
	return x
}

func (w *ledgerWorld) amountRaw(near *big.Int) sdkmath.Int {
	r := w.rng
	switch r.Pick(3, 3, 4, 4, 2, 1, 1) {
	case 0:
		return sdkmath.NewInt(int64(1 + r.Intn(3)))
	case 1:
		return sdkmath.NewInt(int64(1 + r.Intn(1000000)))
	case 2: // fraction of `near`
		if near != nil && near.Sign() > 0 {
			x := r.BigBelow(near)
			x.Add(x, big.NewInt(1))
			return sdkmath.NewIntFromBigInt(x)
		}
		return sdkmath.NewInt(int64(1 + r.Intn(1000)))
	case 3: // exactly / ±1 around `near`
		if near != nil && near.Sign() > 0 {
			x := new(big.Int).Add(near, big.NewInt(int64(r.Intn(3)-1)))
			if x.Sign() > 0 {
				return sdkmath.NewIntFromBigInt(x)
			}
		}
		return sdkmath.NewInt(7)
	case 4:
		x := bigPow10(r.Range(6, 24))
		x.Add(x, big.NewInt(int64(r.Intn(3)-1)))
		return sdkmath.NewIntFromBigInt(x)
	case 5:
		if !w.huge {
			return sdkmath.NewInt(int64(1 + r.Intn(1000000000)))
		}
		x := new(big.Int).Lsh(big.NewInt(1), uint([]int{64, 128, 200}[r.Intn(3)]))
		x.Add(x, big.NewInt(int64(r.Intn(3)-1)))
		return sdkmath.NewIntFromBigInt(x)
	default:
		return sdkmath.NewInt(0)
	}
}

func ledgerErrClass(err error) string {
	if err == nil {
		return "ok"
	}
	s := err.Error()
	if strings.HasPrefix(s, "panic:") {
		return "panic"
	}
	if i := strings.LastIndex(s, ": "); i >= 0 {
		s = s[i+2:]
	}
	if len(s) > 40 {
		s = s[:40]
	}
	return "rej:" + s
}

func (w *ledgerWorld) assetAddr(i int) []byte { return common.HexToAddress(w.assets[i].Addr).Bytes() }

func (w *ledgerWorld) snapAndCheck() *ledgerSnap {
	s, err := w.c.ledgerSnap()
	if err != nil {
		w.env.Violate("harness", "snap-error", err.Error(), w.hist)
		return &ledgerSnap{}
	}
	return s
}

func domLedger(env *Env) error {
	n := env.Int("histories", 20)
	maxOps := env.Int("ops", 120)
	rng := NewRNG(env.Report.Seed)
	env.Report.Domain = "ledger"
	decChoices := []uint32{6, 18, 0, 8}
	for hi := 0; hi < n; hi++ {
		cfg := DefaultCfg(env.Report.Seed*1000 + uint64(hi))
		cfg.NOperators = 2 + rng.Intn(2)
		cfg.Powers = []int64{101, 100, 57}[:cfg.NOperators]
		cfg.EpochID = epochstypes.MinuteEpochID
		huge := rng.Intn(4) == 0
		if huge { // no dogfood epoch end inside the history: vote-power code cannot digest 2^200 (C11, F-11f/g)
			cfg.EpochID = epochstypes.WeekEpochID
			cfg.Mutate = func(c *Chain, gs map[string]json.RawMessage) {
				dp := distributiontypes.DefaultParams()
				dp.EpochIdentifier = epochstypes.WeekEpochID
				gs[distributiontypes.ModuleName] = c.App.AppCodec().MustMarshalJSON(distributiontypes.NewGenesisState(dp))
			}
		}
		cfg.EpochsUntilUnbonded = uint32(1 + rng.Intn(3))
		nAssets := 1 + rng.Intn(3)
		cfg.Assets = cfg.Assets[:1]
		for i := 1; i < nAssets; i++ {
			cfg.Assets = append(cfg.Assets, AssetSpec{Addr: fmt.Sprintf("0x%040x", 0xA0B86991+i), Decimals: decChoices[rng.Intn(len(decChoices))],
				Price: fmt.Sprint(1 + rng.Intn(3000)), PriceDec: int32(rng.Intn(3))})
		}
		c := NewChain(cfg)
		nstMode := !huge && rng.Chance(1, 5)
		if nstMode {
			env.Outcome("history.nst-adjustments")
		}
		w := &ledgerWorld{c: c, env: env, rng: rng, assets: cfg.Assets, nonce: 1, huge: huge, nstMode: nstMode, hi: hi,
			gDep: map[string]*big.Int{}, gWd: map[string]*big.Int{}, gSl: map[string]*big.Int{}}
		if nstMode {
			// the staker-index store is iterated in byte order of "…/0x<hex nonce>": start the nonces where
			// that order differs from the numeric one ("0x10" < "0x9" < "0xf", "0x100" < "0xff")
			w.nonce = []uint64{1, 7, 13, 15, 250, 4090}[rng.Intn(6)]
		}
		for _, o := range c.Operators {
			w.ops = append(w.ops, o.Acc)
		}
		// extra operators that are registered but never opt in (no holds on their undelegations)
		nExtra := rng.Intn(3)
		for i := 0; i < nExtra; i++ {
			a := NewActor(cfg.Seed, "extraop", i)
			err := c.CachedDo(func(ctx sdk.Context) error {
				return c.App.OperatorKeeper.SetOperatorInfo(ctx, a.Acc.String(), &operatortypes.OperatorInfo{
					EarningsAddr: a.Acc.String(), OperatorMetaInfo: "x", Commission: stakingtypes.NewCommission(sdk.ZeroDec(), sdk.ZeroDec(), sdk.ZeroDec())})
			})
			if err != nil {
				return fmt.Errorf("register operator: %w", err)
			}
			w.ops = append(w.ops, a.Acc)
		}
		nSt := 2 + rng.Intn(4)
		for i := 0; i < nSt; i++ {
			w.stakers = append(w.stakers, NewActor(cfg.Seed, "staker", i))
		}
		// the genesis operators are stakers as well
		for _, o := range c.Operators {
			w.stakers = append(w.stakers, o)
		}
		// in half of the histories the native token is registered as a staking asset (as an operator of
		// the network would have to do in genesis): only then can operators holding a native pool be
		// slashed at all (finding F-04c) and native undelegations be slashed while pending
		if rng.Chance(1, 2) {
			if err := c.CachedDo(func(ctx sdk.Context) error {
				return c.App.AssetsKeeper.SetStakingAssetInfo(ctx, &assetstypes.StakingAssetInfo{
					AssetBasicInfo: assetstypes.AssetInfo{Name: "Exocore native token", Symbol: "exo", Address: assetstypes.ExocoreAssetAddr,
						Decimals: 6, LayerZeroChainID: assetstypes.ExocoreChainLzID, MetaInfo: "native"},
					StakingTotalAmount: sdkmath.ZeroInt()})
			}); err != nil {
				return fmt.Errorf("register native token: %w", err)
			}
			env.Outcome("history.native-registered")
			w.nativeRegistered = true
		}
		// accounts delegating the native token (funded from the genesis account)
		ledgerNativeStakers = map[string]sdk.AccAddress{}
		for i := 0; i < 2; i++ {
			a := NewActor(cfg.Seed, "native-staker", i)
			amt := sdkmath.NewInt(int64(1000 + rng.Intn(1000000)))
			if err := c.CachedDo(func(ctx sdk.Context) error {
				return c.App.BankKeeper.SendCoins(ctx, c.Funded.Acc, a.Acc, sdk.NewCoins(sdk.NewCoin(assetstypes.ExocoreAssetDenom, amt)))
			}); err != nil {
				return fmt.Errorf("fund native staker: %w", err)
			}
			w.nstakers = append(w.nstakers, a)
			ledgerNativeStakers[StakerIDOf(assetstypes.ExocoreChainLzID, a.Eth)] = a.Acc
		}
		// ---- initial state to the model
		s0 := w.snapAndCheck()
		w.emit(fmt.Sprintf("ledger.reset %d %d", s0.height, operatortypes.UnbondingExpiration), "ok")
		for _, k := range sortedKeys(s0.totals) {
			w.emit(fmt.Sprintf("ledger.asset %s %s", k, s0.totals[k]), "ok")
		}
		for _, o := range w.ops {
			w.emit("ledger.operator "+o.String(), "ok")
		}
		w.emit("ledger.chain "+hexutil.EncodeUint64(c.LzID), "ok")
		for _, k := range sortedKeys(s0.stakers) {
			f := strings.Split(k, "/")
			v := s0.stakers[k]
			w.emit(fmt.Sprintf("ledger.staker %s %s %s %s %s", f[0], f[1], v.total, v.withdrawable, v.pending), "ok")
		}
		for _, k := range sortedKeys(s0.pools) {
			f := strings.Split(k, "/")
			v := s0.pools[k]
			w.emit(fmt.Sprintf("ledger.pool %s %s %s %s %s %s", f[0], f[1], v.amount, v.pending, v.totalShare, v.opShare), "ok")
		}
		for _, k := range sortedKeys(s0.deleg) {
			f := strings.Split(k, "/")
			v := s0.deleg[k]
			w.emit(fmt.Sprintf("ledger.deleg %s %s %s %s %s", f[0], f[1], f[2], v.share, v.wait), "ok")
		}
		for _, k := range sortedKeys(s0.slist) {
			f := strings.Split(k, "/")
			w.emit(fmt.Sprintf("ledger.slist %s %s %s", f[0], f[1], strings.Join(s0.slist[k], ",")), "ok")
		}
		for _, k := range sortedKeys(s0.assoc) {
			w.emit(fmt.Sprintf("ledger.assoc %s %s", k, s0.assoc[k]), "ok")
		}
		for _, k := range sortedKeys(s0.bal) {
			w.emit(fmt.Sprintf("ledger.bal %s %s", k, s0.bal[k]), "ok")
		}
		w.emit(fmt.Sprintf("ledger.escrow %s", s0.escrow), "ok")
		w.emit("ledger.dump", "ok "+s0.dump())
		for a := range s0.totals {
			w.gDep[a] = new(big.Int).Set(s0.valueOf(a)) // value present at genesis counts as deposited
			w.gWd[a] = new(big.Int)
			w.gSl[a] = new(big.Int)
		}
		prev := s0
		nops := 20 + rng.Intn(maxOps)
		kinds := map[string]int{}
		for i := 0; i < nops && c.Halted == ""; i++ {
			prev = w.step(prev, kinds)
		}
		if c.Halted != "" {
			env.Violate("C11.halt", "halt:"+strings.SplitN(c.Halted, ":", 2)[0], "block processing panicked: "+c.Halted, w.hist)
		}
		if c.Halted == "" {
			// C03 ("any completion height >= the current height, including records loaded from genesis"):
			// a probe on a discarded cache context — a record due in the CURRENT block must be storable
			// (a held record re-queued for the first block of a chain restarted from an export), one
			// due in the past must be refused
			cc, _ := c.Ctx.CacheContext()
			h := uint64(cc.BlockHeight())
			probe := func(complete uint64) error {
				return c.App.DelegationKeeper.SetUndelegationRecords(cc, []delegationtypes.UndelegationRecord{{
					StakerID: "0x0000000000000000000000000000000000000001_0x65", AssetID: c.AssetIDs[0], OperatorAddr: w.ops[0].String(),
					TxHash: common.BytesToHash(detBytes(79, "probe", int(complete))).String(), IsPending: true, BlockNumber: h, CompleteBlockNumber: complete,
					LzTxNonce: 1<<42 + complete, Amount: sdkmath.NewInt(1), ActualCompletedAmount: sdkmath.NewInt(1)}})
			}
			env.Eval("C03.accept")
			if err := probe(h); err != nil {
				env.Violate("C03.accept", "record-due-now-refused", fmt.Sprintf("SetUndelegationRecords refused a record due at the current height %d: %v", h, err), w.hist)
			}
			if h > 0 {
				if err := probe(h - 1); err == nil {
					env.Violate("C03.accept", "record-due-in-past-accepted", fmt.Sprintf("SetUndelegationRecords accepted a record due at %d at height %d", h-1, h), w.hist)
				}
			}
		}
		if hi == 0 && c.Halted == "" && env.Str("f02a", "0") == "1" {
			w.directedZeroPool()
		}
		ledgerF02aPool = ""
		if hi == 0 && c.Halted == "" && env.Str("f01a", "0") == "1" {
			w.directedNstOvershoot()
		}
		if hi == 0 && c.Halted == "" && env.Str("f03c", "0") == "1" {
			w.directedWithdrawAfterReward()
		}
		if hi == 0 && c.Halted == "" && env.Str("f03d", "0") == "1" {
			w.directedRoundingGain(kinds)
		}
		if hi == 0 && c.Halted == "" && env.Str("f03a", "0") == "1" {
			w.directedNonceCollision()
		}
		env.Report.Histories++
		if kinds["undelegate.ok"] > 0 && kinds["complete"] > 0 {
			env.DistinctKey(fmt.Sprintf("h%d:%d:%d:%d", hi, nops, kinds["undelegate.ok"], kinds["complete"]))
		}
		if hi < 2 {
			tail := w.hist
			if len(tail) > 30 {
				tail = tail[len(tail)-12:]
			}
			env.Sample(strings.Join(tail, " ; "))
		}
	}
	ledgerConcurrencyCoverage(env, n)
	return nil
}

// conservation monitor between two snapshots for an op that must not change value
func (w *ledgerWorld) checkDelta(before, after *ledgerSnap, what string, expect map[string]*big.Int, exact bool) {
	w.env.Eval("C01.conservation")
	for _, a := range sortedKeys(before.totals) {
		// the published staking total of a registered asset cannot disappear (or become unreadable)
		if t, ok := after.totals[a]; (!ok || t == nil) && before.totals[a] != nil {
			w.env.Violate("C01.conservation", "staking-total-lost:"+what, fmt.Sprintf("%s: the published staking total of %s (%s before) is gone: the token's entry no longer carries its asset id / total", what, a, before.totals[a]), w.hist)
		}
	}
	for a := range after.totals {
		if after.totals[a] == nil || before.totals[a] == nil {
			continue // appeared with this op (registration) or reported above
		}
		d := new(big.Int).Sub(after.valueOf(a), before.valueOf(a))
		if a == assetstypes.ExocoreAssetID {
			// native token: value enters/leaves the ledger through the escrow account only
			de := new(big.Int).Sub(after.escrow, before.escrow)
			if (exact && d.Cmp(de) != 0) || (!exact && d.Cmp(de) > 0) {
				w.env.Violate("C01.conservation", "native-value-vs-escrow:"+what, fmt.Sprintf("%s changed the native ledger value by %s but the escrow account by %s", what, d, de), w.hist)
			}
			continue
		}
		e := expect[a]
		if e == nil {
			e = new(big.Int)
		}
		if exact && d.Cmp(e) != 0 {
			w.env.Violate("C01.conservation", "value-delta:"+what, fmt.Sprintf("%s changed the ledger value of %s by %s, expected %s", what, a, d, e), w.hist)
		}
		if !exact && d.Sign() > 0 {
			w.env.Violate("C01.conservation", "value-created:"+what, fmt.Sprintf("%s increased the ledger value of %s by %s", what, a, d), w.hist)
		}
		// published staking total = deposits - withdrawals (genesis value counted as deposit
		// only if the genesis total said so: compare deltas instead)
		dt := new(big.Int).Sub(after.totals[a], before.totals[a])
		et := new(big.Int)
		if strings.HasPrefix(what, "deposit") || strings.HasPrefix(what, "withdraw") {
			et = e
		}
		if dt.Cmp(et) != 0 {
			w.env.Violate("C01.conservation", "staking-total:"+what, fmt.Sprintf("%s changed the staking total of %s by %s, expected %s", what, a, dt, et), w.hist)
		}
	}
}

func (w *ledgerWorld) step(prev *ledgerSnap, kinds map[string]int) *ledgerSnap {
	r, c := w.rng, w.c
	st := w.stakers[r.Intn(len(w.stakers))]
	ai := r.Intn(len(w.assets))
	asset := c.AssetIDs[ai]
	w.curDec = w.assets[ai].Decimals
	sid := StakerIDOf(c.LzID, st.Eth)
	op := w.ops[r.Intn(len(w.ops))]
	// the native token: staker = an Exocore account, client chain 0, asset address 0x00…00
	lz, saddr, aaddr := c.LzID, st.Eth.Bytes(), w.assetAddr(ai)
	useNative := func(a Actor) {
		st, lz, saddr, aaddr = a, assetstypes.ExocoreChainLzID, a.Acc.Bytes(), common.HexToAddress(assetstypes.ExocoreAssetAddr).Bytes()
		sid, asset = StakerIDOf(assetstypes.ExocoreChainLzID, a.Eth), assetstypes.ExocoreAssetID
		w.curDec = 6
	}
	native := len(w.nstakers) > 0 && r.Chance(1, 5)
	var forcedAmt int64
	forcedKind := -1
	if len(w.forced) == 0 && len(w.assets) >= 2 && r.Chance(1, 40) {
		// directed sub-scenario: one staker deposits and delegates TWO assets to the same operator and
		// then declares it its own operator (association must move the shares of both pools)
		fs, fo := w.stakers[r.Intn(len(w.stakers))], w.ops[r.Intn(len(w.ops))]
		for ai2 := 0; ai2 < 2; ai2++ {
			w.forced = append(w.forced, forcedOp{0, fs, ai2, fo, int64(1000 + r.Intn(100000))}, forcedOp{2, fs, ai2, fo, int64(1 + r.Intn(1000))})
		}
		w.forced = append(w.forced, forcedOp{5, fs, 0, fo, 0})
		w.env.Outcome("scenario.multi-asset-association")
	}
	if w.nativeRegistered && !w.nativeTried && len(w.forced) == 0 && len(w.nstakers) > 0 {
		// directed sub-scenario, once per history in which the native token is a registered staking
		// asset: a native delegation, an undelegation, two slashes of the operator while the record is
		// pending (its ActualCompletedAmount falls below its Amount), then blocks until it matures: the
		// escrow account must pay out exactly what is still owed
		w.nativeTried = true
		ns, vo := w.nstakers[r.Intn(len(w.nstakers))], w.ops[r.Intn(len(c.Operators))]
		w.forced = append(w.forced, forcedOp{2, ns, -1, vo, int64(400 + r.Intn(500))}, forcedOp{3, ns, -1, vo, int64(100 + r.Intn(200))},
			forcedOp{8, ns, -1, vo, 0}, forcedOp{7, ns, -1, vo, 0}, forcedOp{7, ns, -1, vo, 0})
		for i := 0; i < 5; i++ {
			w.forced = append(w.forced, forcedOp{8, ns, -1, vo, 0})
		}
		w.env.Outcome("scenario.native-slashed-while-pending")
	}
	if w.nstMode && !w.rewardTried && len(w.forced) == 0 && len(w.assets) >= 2 {
		// directed sub-scenario, once per NST history: the ONLY depositor of an asset receives a
		// positive NST adjustment (a client-chain staking reward: deposit and withdrawable balance grow,
		// the published staking total does not) and then asks for everything it can withdraw, principal
		// + reward. The published total = deposits - withdrawals cannot go below zero, so the code must
		// refuse (or take) the withdrawal as a whole - never book it in part
		w.rewardTried = true
		lai := len(w.assets) - 1
		if t := prev.totals[c.AssetIDs[lai]]; t != nil && t.Sign() == 0 {
			fs, fo := w.stakers[r.Intn(len(w.stakers))], w.ops[0]
			w.forced = append(w.forced, forcedOp{0, fs, lai, fo, int64(32 + r.Intn(100000))}, forcedOp{9, fs, lai, fo, 1}, forcedOp{1, fs, lai, fo, -1},
				forcedOp{0, fs, lai, fo, int64(1 + r.Intn(1000))}, forcedOp{1, fs, lai, fo, -1})
			w.env.Outcome("scenario.nst-reward-withdraw")
		}
	}
	if w.nstMode && len(w.forced) == 0 && r.Chance(1, 20) {
		// directed sub-scenario for the NST adjustment: one staker with a withdrawable balance, positions
		// at two operators and several pending undelegations, then decreases that end inside the pending
		// records / inside the delegated positions (both store-iteration orders matter)
		fs, fai := w.stakers[r.Intn(len(w.stakers))], r.Intn(len(w.assets))
		oa := r.Intn(len(w.ops))
		opA, opB := w.ops[oa], w.ops[(oa+1+r.Intn(len(w.ops)-1))%len(w.ops)]
		w.forced = append(w.forced,
			forcedOp{0, fs, fai, opA, int64(20000 + r.Intn(100000))},
			forcedOp{2, fs, fai, opA, int64(3000 + r.Intn(5000))}, forcedOp{2, fs, fai, opB, int64(2000 + r.Intn(5000))},
			forcedOp{3, fs, fai, opA, int64(100 + r.Intn(900))}, forcedOp{3, fs, fai, opB, int64(100 + r.Intn(900))},
			forcedOp{3, fs, fai, opA, int64(50 + r.Intn(500))},
			forcedOp{9, fs, fai, opA, int64([]int{5, 6, 9}[r.Intn(3)])}, forcedOp{9, fs, fai, opA, int64([]int{5, 9, 10, 7}[r.Intn(4)])})
		w.env.Outcome("scenario.nst-multi-record")
	}
	if !w.huge && !w.betweenTried && len(w.forced) == 0 && r.Chance(1, 25) {
		// directed sub-scenario (dom_ledger_slashrecs.go): two undelegations from one validator at different
		// heights, then a slash whose infraction height separates them
		w.betweenTried = true
		w.forced = append(w.forced, w.scenarioSlashBetweenRecords(prev)...)
	}
	w.stepNo++
	if !w.concTried && len(w.forced) == 0 && (r.Chance(1, 30) || (w.hi%2 == 0 && w.stepNo >= 6)) {
		// directed sub-scenario (dom_ledger_concurrent.go), once per history: a burst of 8..130 undelegations of
		// ONE staker and asset (distinct nonces, one or two operators, in one block or spread over a few) so
		// that many records of one (staker, asset) are pending at the same time
		w.concTried = true
		w.forced = append(w.forced, w.scenarioManyConcurrent(prev)...)
		w.quiet = len(w.forced)
	}
	quietNow := false
	if len(w.forced) > 0 {
		if w.quiet > 0 {
			w.quiet--
			quietNow = true
		}
		f := w.forced[0]
		w.forced = w.forced[1:]
		native = false
		op, forcedKind, forcedAmt = f.op, f.kind, f.amt
		w.forceTargeted = f.kind == 7
		w.forceBetween = f.kind == 7 && f.amt == 1
		if f.ai < 0 { // scripted op on the native token
			useNative(f.st)
		} else {
			st, ai = f.st, f.ai
			asset, sid = c.AssetIDs[ai], StakerIDOf(c.LzID, st.Eth)
			w.curDec = w.assets[ai].Decimals
			lz, saddr, aaddr = c.LzID, st.Eth.Bytes(), w.assetAddr(ai)
		}
	} else {
		w.forceTargeted, w.forceBetween = false, false
	}
	if native {
		useNative(w.nstakers[r.Intn(len(w.nstakers))])
	}
	var after *ledgerSnap
	finish := func(name, opLine string, err error, expect map[string]*big.Int) {
		after = w.snapAndCheck()
		res := "ok"
		if err != nil {
			res = "rej"
			if strings.HasPrefix(err.Error(), "panic:") && !ledgerBoundPanic(err) {
				// any other panic (dom_ledger_panics.go): an ordinary refusal, shown to the model as the operation it was
				w.env.Note("tx-panic-other:" + name)
			}
			if ledgerBoundPanic(err) {
				// a panic inside a message is recovered by baseapp: the tx is rejected and its
				// cache context dropped. The model does not cover the SDK's 256/315-bit overflow
				// guards, so such an op is shown to the model as a no-op (state must be unchanged).
				w.env.Note("tx-panic:" + name + ":" + ledgerErrClass(fmt.Errorf("%s", strings.TrimPrefix(err.Error(), "panic: "))))
				opLine = "ledger.dump"
				res = "ok"
			}
		}
		w.emit(opLine, res+" "+after.dump())
		w.env.Outcome(name + "." + ledgerErrClass(err))
		kinds[name+"."+res]++
		if err != nil {
			expect = nil
		}
		w.checkDelta(prev, after, name, expect, true)
		after.checkInvariants(w.env, w.hist, w.orphans)
	}
	kind := r.Pick(14, 8, 16, 16, 14, 3, 3, 4, 2)
	if native && kind < 2 { // no deposit/withdraw of the native token: delegate instead
		kind = 2
	}
	if kind == 8 && r.Chance(1, 3) { // associations are rare otherwise
		kind = 5
	}
	if forcedKind >= 0 {
		kind = forcedKind
	}
	if w.nstMode && forcedKind < 0 && !native && r.Chance(1, 5) {
		kind = 9
	}
	if forcedKind < 0 && !w.nstMode && r.Chance(1, 12) {
		// a second AVS (emulated through the delegation keeper's own entry points) places or releases
		// an additional hold on a pending record: a record must stay pending while ANY hold remains
		return w.extraHold(prev)
	}
	switch kind {
	case 9: // native-restaking balance adjustment (what the oracle's balance-change message triggers)
		if forcedKind < 0 && r.Chance(1, 2) { // prefer a (staker, asset) that has pending undelegations
			var cands []string
			for _, k := range sortedKeys(prev.recs) {
				if rc := prev.recs[k]; rc.asset != assetstypes.ExocoreAssetID {
					cands = append(cands, rc.staker+"/"+rc.asset)
				}
			}
			if len(cands) > 0 {
				f := strings.Split(cands[r.Intn(len(cands))], "/")
				sid, asset = f[0], f[1]
			}
		}
		after = w.nstAdjust(prev, sid, asset, int(forcedAmt))
	case 0: // deposit
		x := w.amount(nil)
		if forcedAmt > 0 {
			x = sdkmath.NewInt(forcedAmt)
		}
		var err error
		if w.usePC(c.LzID, &x) { // through the assets precompile, as the gateway (dom_ledger_precompile.go)
			err = w.pcDepositOrWithdraw(true, st.Eth.Bytes(), w.assetAddr(ai), x)
		} else {
			err = c.CachedDo(func(ctx sdk.Context) error {
				return c.App.AssetsKeeper.PerformDepositOrWithdraw(ctx, &assetskeeper.DepositWithdrawParams{
					ClientChainLzID: c.LzID, Action: assetstypes.DepositLST, StakerAddress: st.Eth.Bytes(), AssetsAddress: w.assetAddr(ai), OpAmount: x})
			})
		}
		finish("deposit", fmt.Sprintf("ledger.deposit %s %s %s", sid, asset, x), err, map[string]*big.Int{asset: x.BigInt()})
	case 1: // withdraw
		var near *big.Int
		if row, ok := prev.stakers[sid+"/"+asset]; ok {
			near = row.withdrawable
		}
		x := w.amount(near)
		if forcedKind >= 0 && forcedAmt == -1 && near != nil { // scripted: exactly the withdrawable balance
			x = sdkmath.NewIntFromBigInt(near)
		}
		var err error
		if w.usePC(c.LzID, &x) {
			err = w.pcDepositOrWithdraw(false, st.Eth.Bytes(), w.assetAddr(ai), x)
		} else {
			err = c.CachedDo(func(ctx sdk.Context) error {
				return c.App.AssetsKeeper.PerformDepositOrWithdraw(ctx, &assetskeeper.DepositWithdrawParams{
					ClientChainLzID: c.LzID, Action: assetstypes.WithdrawLST, StakerAddress: st.Eth.Bytes(), AssetsAddress: w.assetAddr(ai), OpAmount: x})
			})
		}
		finish("withdraw", fmt.Sprintf("ledger.withdraw %s %s %s", sid, asset, x), err, map[string]*big.Int{asset: new(big.Int).Neg(x.BigInt())})
		w.monitorWithdraw(prev, sid, asset, x, err)
	case 2: // delegate
		if forcedKind < 0 && !native && r.Chance(1, 3) { // to an operator this staker already delegates to (another asset, typically)
			for _, k := range sortedKeys(prev.deleg) {
				if strings.HasPrefix(k, sid+"/") && !strings.Contains(k, "/"+asset+"/") {
					op = sdk.MustAccAddressFromBech32(strings.Split(k, "/")[2])
					break
				}
			}
		}
		var near *big.Int
		if row, ok := prev.stakers[sid+"/"+asset]; ok {
			near = row.withdrawable
		}
		if native {
			near = prev.bal[sid]
		}
		x := w.amount(near)
		if forcedAmt > 0 {
			x = sdkmath.NewInt(forcedAmt)
		}
		var err error
		if w.usePC(lz, &x) {
			w.nonce++
			err = w.pcDelegate(false, w.nonce, saddr, aaddr, op, x)
		} else {
			err = c.CachedDo(func(ctx sdk.Context) error {
				return c.App.DelegationKeeper.DelegateTo(ctx, &delegationtypes.DelegationOrUndelegationParams{
					ClientChainID: lz, AssetsAddress: aaddr, OperatorAddress: op, StakerAddress: saddr, OpAmount: x})
			})
		}
		finish("delegate", fmt.Sprintf("ledger.delegate %s %s %s %s", sid, asset, op, x), err, nil)
	case 3, 4: // undelegate: prefer an existing delegation
		var cands []string
		for _, k := range sortedKeys(prev.deleg) { // sorted: the RNG is consumed inside the loop
			if d := prev.deleg[k]; d.share.Sign() > 0 && (r.Chance(1, 2) || strings.HasPrefix(k, sid+"/")) {
				cands = append(cands, k)
			}
		}
		// every third random undelegation piles up on the (staker, asset) that already has the most pending
		// records (small amounts, so that the position lasts): the number of records in flight grows
		pile := false
		if forcedKind < 0 && len(prev.recs) > 0 && r.Chance(1, 3) {
			if k := pileUpTarget(prev); k != "" {
				cands, pile = []string{k}, true
			}
		}
		var near *big.Int
		if forcedKind < 0 && len(cands) > 0 && r.Chance(9, 10) {
			f := strings.Split(cands[r.Intn(len(cands))], "/")
			lz, aaddr = c.LzID, w.assetAddr(ai)
			for _, s2 := range w.stakers {
				if StakerIDOf(c.LzID, s2.Eth) == f[0] {
					st, sid, saddr = s2, f[0], s2.Eth.Bytes()
				}
			}
			for j, id := range c.AssetIDs {
				if id == f[1] {
					ai, asset = j, id
					aaddr = w.assetAddr(j)
					w.curDec = w.assets[j].Decimals
				}
			}
			if f[1] == assetstypes.ExocoreAssetID {
				for _, s2 := range w.nstakers {
					if StakerIDOf(assetstypes.ExocoreChainLzID, s2.Eth) == f[0] {
						useNative(s2)
					}
				}
			}
			op = sdk.MustAccAddressFromBech32(f[2])
			d := prev.deleg[sid+"/"+asset+"/"+op.String()]
			p := prev.pools[op.String()+"/"+asset]
			if p.totalShare != nil && p.totalShare.Sign() > 0 { // token value of the position
				near = new(big.Int).Div(new(big.Int).Mul(d.share, p.amount), p.totalShare)
			}
		}
		x := w.amount(near)
		if pile && near != nil && near.Sign() > 0 {
			x = sdkmath.NewInt(int64(1 + r.Intn(3)))
			if r.Chance(1, 2) {
				x = sdkmath.NewIntFromBigInt(new(big.Int).Add(new(big.Int).Div(near, big.NewInt(int64(8+r.Intn(32)))), big.NewInt(1)))
			}
			w.env.Outcome("undelegate.pile-up")
		}
		if forcedAmt > 0 {
			x = sdkmath.NewInt(forcedAmt)
		}
		// the staker's position in the pool the request names (whoever chose the request: a random pick, a
		// candidate, a scripted op): C03's acceptance clause is judged on every request that has one
		pos := positionOf(prev, sid, asset, op.String())
		inFlight := pendingOf(prev, sid, asset)
		nonce := w.nonce
		w.nonce++
		hash := common.BytesToHash(detBytes(uint64(nonce), "tx", int(c.Header.Height)))
		var err error
		via := "keeper"
		if w.usePC(lz, &x) { // the record is keyed by the hash of the EVM transaction
			hash = xbNextTxHash()
			via = "precompile"
			err = w.pcDelegate(true, nonce, saddr, aaddr, op, x)
		} else {
			err = c.CachedDo(func(ctx sdk.Context) error {
				return c.App.DelegationKeeper.UndelegateFrom(ctx, &delegationtypes.DelegationOrUndelegationParams{
					ClientChainID: lz, AssetsAddress: aaddr, OperatorAddress: op, StakerAddress: saddr, OpAmount: x,
					LzNonce: nonce, TxHash: hash})
			})
		}
		held := 0
		if err == nil {
			rk := delegationtypes.GetUndelegationRecordKey(uint64(c.Header.Height), nonce, hash.String(), op.String())
			if c.App.DelegationKeeper.GetUndelegationHoldCount(c.Ctx, rk) > 0 {
				held = 1
			}
			w.env.Outcome(fmt.Sprintf("undelegate.held=%d", held))
			// holds are placed by dogfood's AfterUndelegationStarted hook for operators in the validator set; the
			// split by entry point is printed because the two entry points do not share one keeper object
			// (app.go hands the delegation keeper to the precompiles BY VALUE; before the F-16b fix the copy was made
			// before SetHooks and the precompile path showed held=0 — monitored since in the conskeys domain, C16.entry)
			if w.isCurrentValidator(op) {
				w.env.Outcome(fmt.Sprintf("undelegate.from-validator.via-%s.held=%d", via, held))
			}
		}
		finish("undelegate", fmt.Sprintf("ledger.undelegate %s %s %s %s %d %s %d", sid, asset, op, x, nonce, hash.String(), held), err, nil)
		w.monitorUndelegate(prev, after, sid, asset, op.String(), x, pos, inFlight, nonce, hash.String(), err)
	case 5: // associate: mostly a (staker, operator) pair that already has delegations - preferably in several assets
		if ks := sortedKeys(prev.deleg); forcedKind < 0 && len(ks) > 0 && !native && r.Chance(3, 4) {
			// pairs holding delegations in several assets first (the association loop visits each of them)
			cnt := map[string]int{}
			for _, k := range ks {
				f := strings.Split(k, "/")
				if _, assoc := prev.assoc[f[0]]; !assoc && prev.deleg[k].share.Sign() > 0 {
					cnt[f[0]+"/"+f[2]]++
				}
			}
			var multi []string
			for _, k := range ks {
				f := strings.Split(k, "/")
				if cnt[f[0]+"/"+f[2]] >= 2 {
					multi = append(multi, k)
				}
			}
			if len(multi) > 0 {
				ks = multi
				w.env.Outcome("associate.multi-asset-candidate")
			}
			f := strings.Split(ks[r.Intn(len(ks))], "/")
			for _, s2 := range w.stakers {
				if StakerIDOf(c.LzID, s2.Eth) == f[0] {
					st, sid, saddr = s2, f[0], s2.Eth.Bytes()
					op = sdk.MustAccAddressFromBech32(f[2])
				}
			}
		}
		var err error
		if w.usePC(lz, nil) {
			err = w.pcAssociate(saddr, op)
		} else {
			err = c.CachedDo(func(ctx sdk.Context) error {
				return c.App.DelegationKeeper.AssociateOperatorWithStaker(ctx, lz, op, saddr)
			})
		}
		finish("associate", fmt.Sprintf("ledger.associate %s %s", sid, op), err, nil)
	case 6: // dissociate
		var err error
		if w.usePC(lz, nil) {
			err = w.pcDissociate(saddr)
		} else {
			err = c.CachedDo(func(ctx sdk.Context) error {
				return c.App.DelegationKeeper.DissociateOperatorFromStaker(ctx, lz, saddr)
			})
		}
		finish("dissociate", "ledger.dissociate "+sid, err, nil)
	case 7: // slash an operator through the real operator keeper
		if forcedKind < 0 {
			op = w.slashTarget(prev, op)
		}
		after = w.slash(prev, op)
	default:
		after = w.blocks(prev, kinds, 1+r.Intn(4))
		return after
	}
	if !quietNow && r.Chance(1, 4) {
		after = w.blocks(after, kinds, 1+r.Intn(3))
	}
	return after
}

// blocks advances n blocks; holds released by dogfood's EndBlock (which runs before
// delegation's) are read from dogfood's pending list and passed to the model as inputs.
func (w *ledgerWorld) blocks(prev *ledgerSnap, kinds map[string]int, n int) *ledgerSnap {
	c := w.c
	for i := 0; i < n && c.Halted == ""; i++ {
		var rels []string
		if c.App.StakingKeeper.IsEpochEnd(c.Ctx) {
			pend := c.App.StakingKeeper.GetPendingUndelegations(c.Ctx)
			for _, k := range pend.List {
				f := strings.Split(string(k), "/")
				if len(f) == 4 {
					h, _ := hexutil.DecodeUint64(f[1])
					nn, _ := hexutil.DecodeUint64(f[2])
					rels = append(rels, fmt.Sprintf("%s,%d,%d,%s", f[0], h, nn, f[3]))
				}
			}
		}
		d := time.Duration(5+w.rng.Intn(40)) * time.Second
		h := c.Header.Height
		res := c.EndAndBegin(d)
		if res.Halt != "" {
			return prev
		}
		after := w.snapAndCheck()
		opLine := "ledger.endblock"
		if len(rels) > 0 {
			opLine += " " + strings.Join(rels, " ")
		}
		w.emit(opLine, "ok "+after.dump())
		w.checkDelta(prev, after, "endblock", nil, true)
		after.checkInvariants(w.env, w.hist, w.orphans)
		// C03 release timing: a record that disappeared must have been due and not held, and
		// the staker credited with exactly `actual`; a due, un-held record must not remain.
		w.env.Eval("C03.release")
		released := map[string]bool{}
		for _, rl := range rels {
			f := strings.Split(rl, ",")
			hh, nn := uint64(0), uint64(0)
			fmt.Sscan(f[1], &hh)
			fmt.Sscan(f[2], &nn)
			released[string(delegationtypes.GetUndelegationRecordKey(hh, nn, f[3], f[0]))] = true
		}
		for k, rec := range prev.recs {
			holdBefore := prev.holds[k]
			if released[k] && holdBefore > 0 {
				holdBefore--
			}
			due := rec.complete <= uint64(h)
			_, still := after.recs[k]
			if !still {
				kinds["complete"]++
				if !due {
					w.env.Violate("C03.release", "early-release", fmt.Sprintf("record %s (complete block %d) released at height %d", k, rec.complete, h), w.hist)
				}
				if holdBefore > 0 {
					w.env.Violate("C03.release", "released-while-held", "record "+k+" released while still held", w.hist)
				}
				b, a := prev.stakers[rec.staker+"/"+rec.asset], after.stakers[rec.staker+"/"+rec.asset]
				_ = b
				_ = a
			} else if due && holdBefore == 0 && rec.complete == uint64(h) {
				if _, orphan := prev.pidx[string(delegationtypes.GetPendingUndelegationRecordKey(rec.complete, rec.nonce))]; orphan || !w.orphans {
					w.env.Violate("C03.release", "late-release", fmt.Sprintf("record %s due at %d and not held was not released at height %d", k, rec.complete, h), w.hist)
				}
			}
		}
		// credited amounts: Σ over released records of `actual` per staker/asset equals Δ withdrawable
		credit := map[string]*big.Int{}
		for k, rec := range prev.recs {
			if _, still := after.recs[k]; !still {
				sk := rec.staker + "/" + rec.asset
				if credit[sk] == nil {
					credit[sk] = new(big.Int)
				}
				credit[sk].Add(credit[sk], rec.actual)
			}
		}
		for sk, b := range prev.stakers {
			a, ok := after.stakers[sk]
			if !ok {
				continue
			}
			d := new(big.Int).Sub(a.withdrawable, b.withdrawable)
			e := credit[sk]
			if e == nil {
				e = new(big.Int)
			}
			if d.Cmp(e) != 0 {
				w.env.Violate("C03.release", "credit-mismatch", fmt.Sprintf("staker %s credited %s at block end, released records say %s", sk, d, e), w.hist)
			}
		}
		prev = after
	}
	return prev
}

func (w *ledgerWorld) slash(prev *ledgerSnap, op sdk.AccAddress) *ledgerSnap {
	c, r := w.c, w.rng
	w.slashN++
	factor := []string{"0", "0.000000000000000001", "0.05", "0.5", "1", "0.01", "0.999999999999999999"}[r.Intn(7)]
	power := int64([]int{1, 10, 40, 60, 100, 150, 1000, 1000000}[r.Intn(8)])
	h := c.Header.Height
	infraction := h - int64(r.Intn(6))
	if infraction < 0 {
		infraction = 0
	}
	// executed exactly as the slashing/evidence modules do in BeginBlock: through dogfood's staking
	// interface on the block context (an error inside is only logged; nothing is rolled back by a
	// caller). The slash id is derived from (infraction type, infraction height).
	infr := stakingtypes.Infraction(1 + r.Intn(2))
	// boundary-biased infraction height: one that separates / coincides with the start heights of the
	// operator's pending records (dom_ledger_slashrecs.go)
	if inf, ok := w.infractionAmongRecords(prev, op, h, w.forceBetween); ok {
		infraction = inf
	}
	if w.forceBetween { // scripted: a slash id not presented before
		infr = w.freshInfraction(op, infraction, infr)
	} else if w.lastSlash != nil && r.Chance(1, 3) { // present an earlier slash event again
		op, infraction, infr = w.lastSlash.op, w.lastSlash.infraction, w.lastSlash.infr
	} else if w.lastSlash != nil && r.Chance(1, 3) { // a second, different event hitting the same records
		op, infraction = w.lastSlash.op, w.lastSlash.infraction
		infr = 3 - w.lastSlash.infr
	}
	w.lastSlash = &slashEvent{op, infraction, infr}
	// every other slash aims at a chosen effective proportion (0.3 .. 0.9 of the operator's current
	// value) instead of a random power x factor, so that one pending record is regularly hit by
	// two partial slashes whose cuts add up to more than the record (the cap of the second cut).
	if r.Chance(1, 2) || w.forceTargeted {
		info, verr := func() (i operatortypes.OperatorStakingInfo, e error) {
			// the harness's own preview of the operator's value: a panic in it is the slash's to report (slash-panic below)
			defer func() {
				if rr := recover(); rr != nil {
					e = fmt.Errorf("panic: %v", rr)
					w.env.Note("slash.value-preview-panic")
				}
			}()
			return c.App.OperatorKeeper.CalculateUSDValueForOperator(c.Ctx, true, op.String(), nil, nil, nil)
		}()
		if verr == nil && info.StakingAndWaitUnbonding.IsPositive() {
			target := []string{"0.3", "0.5", "0.6", "0.9"}[r.Intn(4)]
			pw := sdkmath.LegacyMustNewDecFromStr(target).Mul(info.StakingAndWaitUnbonding).MulInt64(1000000).TruncateInt()
			if pw.IsInt64() && pw.IsPositive() {
				power, factor = pw.Int64(), "0.000001"
				w.env.Outcome("slash.targeted")
			}
		}
	}
	slashID := operatorkeeper.GetSlashIDForDogfood(infr, infraction)
	_, rerr := c.App.OperatorKeeper.GetOperatorSlashInfo(c.Ctx, c.AVSAddr, op.String(), slashID)
	isReplay := rerr == nil
	// boundary p = 0 (C04: "0 <= p <= 100%"; SlashFractionDowntime = 0 is a common setting): once per
	// history a fresh slash event with slash factor 0 against an operator that has stake and no
	// native-token pool (F-04c). It must be executed and recorded like any other - every cut is 0 -
	// and not be refused (monitor C04.refused / slash-refused-with-stake).
	if !isReplay && !w.zeroFactorDone && r.Chance(1, 2) {
		hasStake, hasNativePool := false, false
		for k, p := range prev.pools {
			if strings.HasPrefix(k, op.String()+"/") {
				hasStake = hasStake || p.amount.Sign() > 0 || p.pending.Sign() > 0
				hasNativePool = hasNativePool || strings.HasSuffix(k, "/"+assetstypes.ExocoreAssetID)
			}
		}
		if hasStake && !hasNativePool {
			factor, power = "0", int64([]int{1, 100, 1000000}[r.Intn(3)])
			w.zeroFactorDone = true
			w.env.Outcome("slash.zero-factor")
		}
	}
	// (F-04b, fixed in /repo: an operator whose pools are all empty made SlashAssets divide by zero;
	// such slashes are generated on purpose and must be refused without a trace.)
	// the proportion the property prescribes, computed here from the snapshot taken before the slash:
	// min(1, power x factor / value), value = sum over ALL pools of the operator of the USD value of
	// (amount + unbonding amount) at the oracle's current price
	var wantP *sdkmath.LegacyDec
	func() {
		value := sdkmath.LegacyZeroDec()
		for k, pl := range prev.pools {
			if !strings.HasPrefix(k, op.String()+"/") {
				continue
			}
			assetID := strings.SplitN(k, "/", 2)[1]
			ai, aerr := c.App.AssetsKeeper.GetStakingAssetInfo(c.Ctx, assetID)
			if aerr != nil {
				return // the code refuses such a slash (F-04c for the native token): no prescribed proportion
			}
			price, perr := c.App.OracleKeeper.GetSpecifiedAssetsPrice(c.Ctx, assetID)
			if perr != nil && !strings.Contains(perr.Error(), "no valid price") {
				return
			}
			base := sdkmath.NewIntFromBigInt(new(big.Int).Add(pl.amount, pl.pending))
			value = value.Add(operatorkeeper.CalculateUSDValue(base, price.Value, ai.AssetBasicInfo.Decimals, price.Decimal))
		}
		if !value.IsPositive() {
			return
		}
		wp := sdkmath.LegacyMinDec(sdkmath.LegacyOneDec(), sdkmath.LegacyNewDec(power).Mul(sdkmath.LegacyMustNewDecFromStr(factor)).Quo(value))
		wantP = &wp
	}()
	var err error
	func() {
		defer func() {
			if rr := recover(); rr != nil {
				err = fmt.Errorf("panic: %v", rr)
			}
		}()
		c.App.OperatorKeeper.SlashWithInfractionReason(c.Ctx, op, infraction, power, sdkmath.LegacyMustNewDecFromStr(factor), infr)
	}()
	if isReplay {
		again := w.snapAndCheck()
		w.env.Eval("C04.replay")
		w.env.Outcome("slash.replayed-id")
		if again.dump() != prev.dump() {
			w.env.Violate("C04.replay", "slash-replay-effect", fmt.Sprintf("presenting slash id %s for %s again changed the ledger", slashID, op), w.hist)
		}
		w.emit("ledger.dump", "ok "+again.dump())
		return again
	}
	after := w.snapAndCheck()
	w.env.Outcome("slash." + ledgerErrClass(err))
	if err != nil {
		if strings.HasPrefix(err.Error(), "panic:") {
			w.env.Violate("C04.slash", "slash-panic", "Slash panicked: "+err.Error(), w.hist)
		}
		w.emit("ledger.dump", "ok "+after.dump())
		return after
	}
	info, ierr := c.App.OperatorKeeper.GetOperatorSlashInfo(c.Ctx, c.AVSAddr, op.String(), slashID)
	if ierr != nil || info.ExecutionInfo == nil {
		// the slash was refused (error logged by SlashWithInfractionReason): it must have left no trace
		w.env.Outcome("slash.refused")
		// a slash for an operator that has stake must be executed (C04): the only legitimate refusal is
		// the operator without any value
		w.env.Eval("C04.refused")
		// the refused slash is not an op of the model's stream (nothing happened); a violation's history names it
		hist := append(append([]string(nil), w.hist...), fmt.Sprintf("ledger.slash-refused %s %d power=%d factor=%s infraction-type=%d", op, infraction, power, factor, infr))
		hasStake, hasNativePool := false, false
		for k, p := range prev.pools {
			if strings.HasPrefix(k, op.String()+"/") {
				if p.amount.Sign() > 0 || p.pending.Sign() > 0 {
					hasStake = true
				}
				if strings.HasSuffix(k, "/"+assetstypes.ExocoreAssetID) {
					hasNativePool = true
				}
			}
		}
		if hasStake {
			if hasNativePool {
				w.env.Violate("C04.refused", "F-04c:native-pool-blocks-slash", fmt.Sprintf("slash %s of %s refused although the operator has stake: it has a native-token pool and the native token is not a registered staking asset", slashID, op), hist)
			} else {
				w.env.Violate("C04.refused", "slash-refused-with-stake", fmt.Sprintf("slash %s of %s refused although the operator has stake", slashID, op), hist)
			}
		}
		if after.dump() != prev.dump() {
			w.env.Violate("C04.slash", "slash-effect-without-record", fmt.Sprintf("slash %s of %s changed the ledger but recorded no execution info: %v", slashID, op, ierr), hist)
		}
		w.emit("ledger.dump", "ok "+after.dump())
		return after
	}
	p := info.ExecutionInfo.SlashProportion
	w.emit(fmt.Sprintf("ledger.slash %s %d %s", op, infraction, p.BigInt()), "ok "+after.dump())
	// ---- C04 monitors on the real before/after
	w.env.Eval("C04.slash")
	one := sdkmath.LegacyOneDec()
	if p.IsNegative() || p.GT(one) {
		w.env.Violate("C04.slash", "proportion-range", "effective slash proportion outside [0,1]: "+p.String(), w.hist)
	}
	if wantP != nil && !wantP.Equal(p) {
		w.env.Violate("C04.slash", "proportion-formula", fmt.Sprintf("effective slash proportion %s, the property prescribes min(1, power*factor/value over all pools incl. unbonding) = %s", p, wantP), w.hist)
	}
	if wantP != nil {
		w.env.Outcome("slash.proportion-checked")
	}
	trunc := func(x *big.Int) *big.Int { return p.MulInt(sdkmath.NewIntFromBigInt(x)).TruncateInt().BigInt() }
	poolCut := map[string]*big.Int{}
	for k, b := range prev.pools {
		a := after.pools[k]
		if a.amount == nil {
			w.env.Violate("C04.slash", "pool-vanished", "pool "+k+" vanished", w.hist)
			continue
		}
		d := new(big.Int).Sub(b.amount, a.amount)
		if strings.HasPrefix(k, op.String()+"/") {
			want := trunc(b.amount)
			if d.Cmp(want) != 0 {
				w.env.Violate("C04.slash", "pool-cut", fmt.Sprintf("pool %s cut by %s, want trunc(p*amount)=%s", k, d, want), w.hist)
			}
			poolCut[strings.SplitN(k, "/", 2)[1]] = d
			if b.pending.Cmp(a.pending) != 0 {
				w.env.Violate("C04.slash", "frame-pool-pending", "slash changed pending figure of "+k, w.hist)
			}
		} else if d.Sign() != 0 || b.totalShare.Cmp(a.totalShare) != 0 || b.opShare.Cmp(a.opShare) != 0 || b.pending.Cmp(a.pending) != 0 {
			w.env.Violate("C04.slash", "frame-other-operator", "slash of "+op.String()+" changed pool "+k, w.hist)
		}
	}
	for k, b := range prev.stakers {
		a := after.stakers[k]
		if a.total == nil || a.total.Cmp(b.total) != 0 || a.withdrawable.Cmp(b.withdrawable) != 0 || a.pending.Cmp(b.pending) != 0 {
			w.env.Violate("C04.slash", "frame-staker-row", "slash changed staker row "+k, w.hist)
		}
	}
	recCut := map[string]*big.Int{}
	for k, b := range prev.recs {
		a, ok := after.recs[k]
		if !ok {
			w.env.Violate("C04.slash", "record-vanished", "record "+k+" vanished in a slash", w.hist)
			continue
		}
		d := new(big.Int).Sub(b.actual, a.actual)
		atRisk := b.op == op.String() && infraction < h && b.block >= uint64(infraction)
		want := new(big.Int)
		if atRisk {
			want = trunc(b.amount)
			if want.Cmp(b.actual) > 0 {
				want = new(big.Int).Set(b.actual)
			}
		}
		if d.Cmp(want) != 0 {
			w.env.Violate("C04.slash", "undelegation-cut", fmt.Sprintf("record %s (started %d, infraction %d) cut by %s, want %s", k, b.block, infraction, d, want), w.hist)
		}
		if a.amount.Cmp(b.amount) != 0 || a.complete != b.complete {
			w.env.Violate("C04.slash", "frame-record", "slash changed amount/completion of record "+k, w.hist)
		}
		if d.Sign() != 0 {
			if recCut[b.asset] == nil {
				recCut[b.asset] = new(big.Int)
			}
			recCut[b.asset].Add(recCut[b.asset], d)
		}
	}
	// recorded execution equals the actual reductions
	for _, e := range info.ExecutionInfo.SlashAssetsPool {
		if poolCut[e.AssetID] == nil || poolCut[e.AssetID].Cmp(e.Amount.BigInt()) != 0 {
			w.env.Violate("C04.slash", "execution-info-pool", fmt.Sprintf("execution info says pool %s cut by %s, actual %v", e.AssetID, e.Amount, poolCut[e.AssetID]), w.hist)
		}
	}
	recInfo := map[string]*big.Int{}
	for _, e := range info.ExecutionInfo.SlashUndelegations {
		if recInfo[e.AssetID] == nil {
			recInfo[e.AssetID] = new(big.Int)
		}
		recInfo[e.AssetID].Add(recInfo[e.AssetID], e.Amount.BigInt())
	}
	for a, v := range recCut {
		if recInfo[a] == nil || recInfo[a].Cmp(v) != 0 {
			w.env.Violate("C04.slash", "execution-info-undelegation", fmt.Sprintf("execution info undelegation cuts for %s = %v, actual %s", a, recInfo[a], v), w.hist)
		}
	}
	w.checkDelta(prev, after, "slash", nil, false)
	after.checkInvariants(w.env, w.hist, w.orphans)
	return after
}

// directedNonceCollision replays finding F-03a on the real keepers: one staker undelegates from two
// operators with ONE nonce and ONE tx hash in the same block (what a MsgUndelegation with two
// operators does, and what two stakers with equal account sequences do). Both requests are
// accepted, but the pending-by-height index and the staker index are keyed by the nonce only, so the
// second write overwrites the first record's index entries: the first record is never released.
// It is the last thing a history does (the state is damaged afterwards), and it is not fed to the model
// diff as an op sequence the model must follow blindly: the model reproduces it too (C03_collision_loses_record).
func (w *ledgerWorld) directedNonceCollision() {
	c := w.c
	if len(c.Operators) < 2 {
		return
	}
	st := NewActor(c.Cfg.Seed, "f03a-staker", 0)
	sid := StakerIDOf(c.LzID, st.Eth)
	asset, aaddr := c.AssetIDs[0], w.assetAddr(0)
	dep := sdkmath.NewInt(1000)
	run := func(name, opLine string, f func(ctx sdk.Context) error) bool {
		err := c.CachedDo(f)
		after := w.snapAndCheck()
		res := "ok"
		if err != nil {
			res = "rej"
		}
		w.emit(opLine, res+" "+after.dump())
		w.env.Outcome("f03a." + name + "." + ledgerErrClass(err))
		return err == nil
	}
	ok := run("deposit", fmt.Sprintf("ledger.deposit %s %s %s", sid, asset, dep), func(ctx sdk.Context) error {
		return c.App.AssetsKeeper.PerformDepositOrWithdraw(ctx, &assetskeeper.DepositWithdrawParams{
			ClientChainLzID: c.LzID, Action: assetstypes.DepositLST, StakerAddress: st.Eth.Bytes(), AssetsAddress: aaddr, OpAmount: dep})
	})
	for i := 0; i < 2 && ok; i++ {
		op := c.Operators[i].Acc
		x := sdkmath.NewInt(400)
		ok = run("delegate", fmt.Sprintf("ledger.delegate %s %s %s %s", sid, asset, op, x), func(ctx sdk.Context) error {
			return c.App.DelegationKeeper.DelegateTo(ctx, &delegationtypes.DelegationOrUndelegationParams{
				ClientChainID: c.LzID, AssetsAddress: aaddr, OperatorAddress: op, StakerAddress: st.Eth.Bytes(), OpAmount: x})
		})
	}
	if !ok {
		return
	}
	nonce := uint64(1 << 40)
	hash := common.BytesToHash(detBytes(77, "f03a", 0))
	for i := 0; i < 2 && ok; i++ {
		op := c.Operators[i].Acc
		x := sdkmath.NewInt(100)
		var held int
		err := c.CachedDo(func(ctx sdk.Context) error {
			return c.App.DelegationKeeper.UndelegateFrom(ctx, &delegationtypes.DelegationOrUndelegationParams{
				ClientChainID: c.LzID, AssetsAddress: aaddr, OperatorAddress: op, StakerAddress: st.Eth.Bytes(), OpAmount: x,
				LzNonce: nonce, TxHash: hash})
		})
		if err == nil {
			rk := delegationtypes.GetUndelegationRecordKey(uint64(c.Header.Height), nonce, hash.String(), op.String())
			if c.App.DelegationKeeper.GetUndelegationHoldCount(c.Ctx, rk) > 0 {
				held = 1
			}
		}
		after := w.snapAndCheck()
		res := "ok"
		if err != nil {
			res, ok = "rej", false
		}
		w.emit(fmt.Sprintf("ledger.undelegate %s %s %s %s %d %s %d", sid, asset, op, x, nonce, hash.String(), held), res+" "+after.dump())
		w.env.Outcome("f03a.undelegate." + ledgerErrClass(err))
	}
	if !ok {
		return
	}
	s := w.snapAndCheck()
	w.env.Eval("C03.directed-nonce-collision")
	orphans := 0
	for k, r := range s.recs {
		if r.nonce == nonce && s.pidx[string(delegationtypes.GetPendingUndelegationRecordKey(r.complete, r.nonce))] != k {
			orphans++
		}
	}
	if orphans > 0 {
		w.env.Violate("C03.index", "F-03a:nonce-collision-orphans-record",
			"two accepted undelegations with one nonce in one block: the first record is no longer reachable from the pending-by-height index and will never be released", w.hist)
	}
}

// forcedOp scripts one of the next operations of a history (kind as in step's switch)
type forcedOp struct {
	kind int
	st   Actor
	ai   int
	op   sdk.AccAddress
	amt  int64
}

type slashEvent struct {
	op         sdk.AccAddress
	infraction int64
	infr       stakingtypes.Infraction
}

func envBool(e *Env, k string) bool { return e.Str(k, "") == "1" }

// pool key (operator/asset) of the directed scenario of finding F-02a while it runs
var ledgerF02aPool string

// directedZeroPool replays finding F-02a on the real keepers: TokensFromShares computes
// share*amount/totalShare with LegacyDec.Quo (banker's rounding at 18 decimals) and truncates only
// afterwards, so a delegator that holds all but a 10^-19 fraction of a pool's shares and is NOT the
// last one is paid the pool's whole amount: the pool is left with amount 0 and the other delegator's
// shares > 0. From then on every delegation to the pool and the remaining delegator's undelegation
// fail with ErrDivisorIsZero. (Model: C02_regression_history; repaired in the repo, the scenario stays as a regression.)
func (w *ledgerWorld) directedZeroPool() {
	c := w.c
	opA := NewActor(c.Cfg.Seed, "f02a-operator", 0)
	if err := c.CachedDo(func(ctx sdk.Context) error {
		return c.App.OperatorKeeper.SetOperatorInfo(ctx, opA.Acc.String(), &operatortypes.OperatorInfo{
			EarningsAddr: opA.Acc.String(), OperatorMetaInfo: "f02a", Commission: stakingtypes.NewCommission(sdk.ZeroDec(), sdk.ZeroDec(), sdk.ZeroDec())})
	}); err != nil {
		w.env.Note("f02a-setup-failed: " + err.Error())
		return
	}
	op := opA.Acc
	w.emit("ledger.operator "+op.String(), "ok")
	asset, aaddr := c.AssetIDs[0], w.assetAddr(0)
	ledgerF02aPool = op.String() + "/" + asset
	stA, stB, stC := NewActor(c.Cfg.Seed, "f02a-staker", 0), NewActor(c.Cfg.Seed, "f02a-staker", 1), NewActor(c.Cfg.Seed, "f02a-staker", 2)
	big8e18, _ := new(big.Int).SetString("8000000000000000000", 10)
	amtB := sdkmath.NewIntFromBigInt(new(big.Int).Sub(big8e18, big.NewInt(1)))
	run := func(name, opLine string, f func(ctx sdk.Context) error) error {
		err := c.CachedDo(f)
		after := w.snapAndCheck()
		after.checkInvariants(w.env, w.hist, w.orphans)
		res := "ok"
		if err != nil {
			res = "rej"
		}
		w.emit(opLine, res+" "+after.dump())
		w.env.Outcome("f02a." + name + "." + ledgerErrClass(err))
		return err
	}
	deposit := func(st Actor, x sdkmath.Int) error {
		sid := StakerIDOf(c.LzID, st.Eth)
		return run("deposit", fmt.Sprintf("ledger.deposit %s %s %s", sid, asset, x), func(ctx sdk.Context) error {
			return c.App.AssetsKeeper.PerformDepositOrWithdraw(ctx, &assetskeeper.DepositWithdrawParams{
				ClientChainLzID: c.LzID, Action: assetstypes.DepositLST, StakerAddress: st.Eth.Bytes(), AssetsAddress: aaddr, OpAmount: x})
		})
	}
	delegate := func(st Actor, x sdkmath.Int) error {
		sid := StakerIDOf(c.LzID, st.Eth)
		return run("delegate", fmt.Sprintf("ledger.delegate %s %s %s %s", sid, asset, op, x), func(ctx sdk.Context) error {
			return c.App.DelegationKeeper.DelegateTo(ctx, &delegationtypes.DelegationOrUndelegationParams{
				ClientChainID: c.LzID, AssetsAddress: aaddr, OperatorAddress: op, StakerAddress: st.Eth.Bytes(), OpAmount: x})
		})
	}
	undelegate := func(st Actor, x sdkmath.Int, nonce uint64) error {
		sid := StakerIDOf(c.LzID, st.Eth)
		hash := common.BytesToHash(detBytes(78, "f02a", int(nonce)))
		err := c.CachedDo(func(ctx sdk.Context) error {
			return c.App.DelegationKeeper.UndelegateFrom(ctx, &delegationtypes.DelegationOrUndelegationParams{
				ClientChainID: c.LzID, AssetsAddress: aaddr, OperatorAddress: op, StakerAddress: st.Eth.Bytes(), OpAmount: x,
				LzNonce: nonce, TxHash: hash})
		})
		after := w.snapAndCheck()
		after.checkInvariants(w.env, w.hist, w.orphans)
		res := "ok"
		if err != nil {
			res = "rej"
		}
		w.emit(fmt.Sprintf("ledger.undelegate %s %s %s %s %d %s %d", sid, asset, op, x, nonce, hash.String(), 0), res+" "+after.dump())
		w.env.Outcome("f02a.undelegate." + ledgerErrClass(err))
		return err
	}
	// slash the pool to `want` base units through the real SlashAssets, with power x factor chosen so
	// that the effective proportion is exactly `target`
	slash := func(target string, want int64) bool {
		info, verr := c.App.OperatorKeeper.CalculateUSDValueForOperator(c.Ctx, true, op.String(), nil, nil, nil)
		if verr != nil || !info.StakingAndWaitUnbonding.IsPositive() {
			return false
		}
		tp := sdkmath.LegacyMustNewDecFromStr(target)
		// power = value scaled to an integer, factor = target / scale
		var power int64
		var factor sdkmath.LegacyDec
		if info.StakingAndWaitUnbonding.GTE(sdkmath.LegacyOneDec()) {
			power, factor = info.StakingAndWaitUnbonding.TruncateInt64(), tp
		} else {
			power, factor = 1, tp.Mul(info.StakingAndWaitUnbonding)
		}
		var exec *operatortypes.SlashExecutionInfo
		err := c.CachedDo(func(ctx sdk.Context) error {
			var e error
			exec, e = c.App.OperatorKeeper.SlashAssets(ctx, &operatortypes.SlashInputInfo{IsDogFood: true, Power: power, Operator: op,
				AVSAddr: c.AVSAddr, SlashID: "f02a-" + target, SlashEventHeight: c.Header.Height, SlashProportion: factor})
			return e
		})
		after := w.snapAndCheck()
		after.checkInvariants(w.env, w.hist, w.orphans)
		if err != nil || exec == nil {
			w.env.Outcome("f02a.slash." + ledgerErrClass(err))
			return false
		}
		w.emit(fmt.Sprintf("ledger.slash %s %d %s", op, c.Header.Height, exec.SlashProportion.BigInt()), "ok "+after.dump())
		w.env.Outcome("f02a.slash.ok")
		return after.pools[ledgerF02aPool].amount != nil && after.pools[ledgerF02aPool].amount.Cmp(big.NewInt(want)) == 0
	}
	if deposit(stA, sdkmath.NewInt(1)) != nil || deposit(stB, amtB) != nil || deposit(stC, sdkmath.NewInt(5)) != nil ||
		delegate(stA, sdkmath.NewInt(1)) != nil || delegate(stB, amtB) != nil {
		w.env.Note("f02a-setup-failed: deposit/delegate refused")
		return
	}
	if !slash("0.999999999999999999", 8) || !slash("0.75", 2) {
		w.env.Note("f02a-setup-failed: the two slashes did not leave 2 base units")
		return
	}
	w.env.Eval("C02.directed-zero-pool")
	// B (not the last delegator: A still holds 10^18 raw shares) asks for 1 base unit; the tolerance rule
	// turns that into all of B's shares, and TokensFromShares rounds 2 - 2.5e-19 up to 2 = the whole pool
	if undelegate(stB, sdkmath.NewInt(1), 1<<41) != nil {
		w.env.Note("f02a: B's undelegation was refused")
		return
	}
	// consequences on the real code: the pool refuses every new delegation, and A cannot leave
	errC := delegate(stC, sdkmath.NewInt(5))
	errA := undelegate(stA, sdkmath.NewInt(1), 1<<41+1)
	w.env.Outcome(fmt.Sprintf("f02a.after:delegate=%s,undelegate=%s", ledgerErrClass(errC), ledgerErrClass(errA)))
}

// nstAdjust calls the delegation keeper's UpdateNSTBalance for (staker, asset) with a boundary-biased
// amount and checks C01's adjustment clause on the real before/after: a positive adjustment adds
// exactly x to the staker's deposit and withdrawable balance; a negative one removes
// cut = min(|x|, everything the staker has) — first from the withdrawable balance, then from what its
// pending undelegations still owe, then from its delegated positions — and the ledger value of the
// asset falls by exactly the amount the staker's total deposit falls; nobody else's figures move
// except the pools the staker's shares are removed from.
func (w *ledgerWorld) nstAdjust(prev *ledgerSnap, sid, asset string, hint int) *ledgerSnap {
	c, r := w.c, w.rng
	row := prev.stakers[sid+"/"+asset]
	wd, pend := new(big.Int), new(big.Int)
	if row.withdrawable != nil {
		wd = row.withdrawable
	}
	for _, rc := range prev.recs {
		if rc.staker == sid && rc.asset == asset {
			pend.Add(pend, rc.actual)
		}
	}
	// token value of the delegated positions (what TotalDelegatedAmountForStakerAsset computes) and their number
	deleg, nDeleg := new(big.Int), 0
	for _, k := range sortedKeys(prev.deleg) {
		if d := prev.deleg[k]; strings.HasPrefix(k, sid+"/"+asset+"/") && d.share.Sign() > 0 {
			if p, ok := prev.pools[strings.Split(k, "/")[2]+"/"+asset]; ok && p.totalShare.Sign() > 0 {
				deleg.Add(deleg, new(big.Int).Div(new(big.Int).Mul(d.share, p.amount), p.totalShare))
				nDeleg++
			}
		}
	}
	var x *big.Int
	cse := r.Intn(11)
	if hint > 0 {
		cse = hint - 1
	}
	switch cse {
	case 0:
		x = big.NewInt(int64(1 + r.Intn(1000)))
	case 1:
		x = new(big.Int).Neg(big.NewInt(int64(1 + r.Intn(3))))
	case 2: // part of the withdrawable balance
		x = new(big.Int).Neg(r.BigBelow(new(big.Int).Add(wd, big.NewInt(1))))
	case 3: // exactly the withdrawable balance
		x = new(big.Int).Neg(wd)
	case 4, 5: // ends inside the pending undelegations
		x = new(big.Int).Neg(new(big.Int).Add(wd, r.BigBelow(new(big.Int).Add(pend, big.NewInt(1)))))
	case 6: // withdrawable + everything pending + a little of the delegated positions
		x = new(big.Int).Neg(new(big.Int).Add(new(big.Int).Add(wd, pend), big.NewInt(int64(r.Intn(1000)))))
	case 8: // ... + a part of the delegated positions
		x = new(big.Int).Neg(new(big.Int).Add(new(big.Int).Add(wd, pend), r.BigBelow(new(big.Int).Add(deleg, big.NewInt(1)))))
	case 9: // ... + exactly / one around everything delegated
		x = new(big.Int).Neg(new(big.Int).Add(new(big.Int).Add(wd, pend), new(big.Int).Add(deleg, big.NewInt(int64(r.Intn(3)-1)))))
		if x.Sign() > 0 {
			x = big.NewInt(-1)
		}
	default: // more than the staker can have
		x = new(big.Int).Neg(new(big.Int).Add(new(big.Int).Add(wd, pend), new(big.Int).Exp(big.NewInt(10), big.NewInt(30), nil)))
	}
	err := c.CachedDo(func(ctx sdk.Context) error {
		return c.App.DelegationKeeper.UpdateNSTBalance(ctx, sid, asset, sdkmath.NewIntFromBigInt(x))
	})
	after := w.snapAndCheck()
	res := "ok"
	if err != nil {
		res = "rej"
	}
	opLine := fmt.Sprintf("ledger.nstadjust %s %s %s", sid, asset, x)
	if ledgerBoundPanic(err) {
		// as for the other messages: an SDK overflow panic inside the message is a rejected tx that the
		// model (unbounded integers) is shown as a no-op
		w.env.Note("tx-panic:nstadjust:" + ledgerErrClass(fmt.Errorf("%s", strings.TrimPrefix(err.Error(), "panic: "))))
		opLine, res = "ledger.dump", "ok"
	}
	w.emit(opLine, res+" "+after.dump())
	w.env.Outcome("nstadjust." + ledgerErrClass(err))
	// coverage of the three phases and of the store iteration orders the model has to reproduce
	if x.Sign() < 0 {
		var nonces []uint64
		for _, rc := range prev.recs {
			if rc.staker == sid && rc.asset == asset && prev.sidx[string(delegationtypes.GetStakerUndelegationRecordKey(sid, asset, rc.nonce))] == rc.key {
				nonces = append(nonces, rc.nonce)
			}
		}
		sort.Slice(nonces, func(i, j int) bool { return nonces[i] < nonces[j] })
		hexOrderDiffers := false
		for i := 1; i < len(nonces); i++ {
			if hexutil.EncodeUint64(nonces[i-1]) > hexutil.EncodeUint64(nonces[i]) {
				hexOrderDiffers = true
			}
		}
		nd := 0
		for k, d := range prev.deleg {
			if strings.HasPrefix(k, sid+"/"+asset+"/") && d.share.Sign() > 0 {
				nd++
			}
		}
		ax := new(big.Int).Neg(x)
		phase := "withdrawable"
		if ax.Cmp(wd) > 0 {
			phase = "records"
			if ax.Cmp(new(big.Int).Add(wd, pend)) > 0 {
				phase = "shares"
			}
		}
		w.env.Outcome(fmt.Sprintf("nstadjust.%s.ends-in=%s", res, phase))
		if phase != "withdrawable" && len(nonces) >= 2 {
			w.env.Outcome(fmt.Sprintf("nstadjust.%s.records>=2,hex-order-differs=%v", res, hexOrderDiffers))
		}
		if phase == "shares" {
			w.env.Outcome(fmt.Sprintf("nstadjust.%s.delegations=%d", res, min(nd, 3)))
			// observation (not a conservation matter): TotalDelegatedAmountForStakerAsset skips zero shares, the
			// slashing loop does not - RemoveShare(share 0) fails with ErrAmountIsNotPositive, so a staker that
			// still holds a fully undelegated position (row with share 0) cannot be adjusted past its
			// withdrawable + pending amounts as long as it has another, non-empty position
			zeroRow := false
			for k, d := range prev.deleg {
				if strings.HasPrefix(k, sid+"/"+asset+"/") && d.share.Sign() == 0 {
					zeroRow = true
				}
			}
			if err != nil && nd > 0 && zeroRow && strings.Contains(err.Error(), "the amount isn't positive") {
				w.env.Note("nstadjust.refused:zero-share-delegation-row")
			}
		}
	}
	after.checkInvariants(w.env, w.hist, w.orphans)
	w.env.Eval("C01.nst-adjustment")
	viol := func(sig, what string) { w.env.Violate("C01.nst-adjustment", sig, what, w.hist) }
	dv := new(big.Int).Sub(after.valueOf(asset), prev.valueOf(asset))
	tot := func(s *ledgerSnap) *big.Int {
		if v, ok := s.stakers[sid+"/"+asset]; ok && v.total != nil {
			return v.total
		}
		return new(big.Int)
	}
	dt := new(big.Int).Sub(tot(after), tot(prev))
	if err != nil {
		if dv.Sign() != 0 || dt.Sign() != 0 {
			viol("nst-rejected-but-changed", fmt.Sprintf("UpdateNSTBalance(%s) was refused (%v) but the ledger value changed by %s", x, err, dv))
		}
		return after
	}
	if dv.Cmp(dt) != 0 {
		viol("nst-value-vs-deposit", fmt.Sprintf("UpdateNSTBalance(%s): ledger value of %s changed by %s but the staker's total deposit by %s", x, asset, dv, dt))
	}
	if x.Sign() > 0 && dv.Cmp(x) != 0 {
		viol("nst-increase", fmt.Sprintf("UpdateNSTBalance(+%s) changed the ledger value by %s", x, dv))
	}
	if x.Sign() < 0 {
		if dv.Sign() > 0 || dv.Cmp(x) < 0 {
			sig := "nst-decrease-range"
			// finding F-01a (see directedNstOvershoot): when the decrease reaches the delegated shares, the
			// half-even roundings of slashProportion and of slashShare can take up to
			// nDelegations + totalDelegated/10^18 + 1 base units MORE than the reported decrease
			over := new(big.Int).Sub(x, dv)
			bound := new(big.Int).Add(big.NewInt(int64(nDeleg+1)), new(big.Int).Div(deleg, bigPow10(18)))
			if dv.Sign() <= 0 && new(big.Int).Neg(x).Cmp(new(big.Int).Add(wd, pend)) > 0 && over.Sign() > 0 && over.Cmp(bound) <= 0 {
				sig = "F-01a:nst-decrease-exceeds-report"
			}
			viol(sig, fmt.Sprintf("UpdateNSTBalance(%s) changed the ledger value by %s (must be in [x, 0])", x, dv))
		}
		if dv.Cmp(x) != 0 {
			// not everything could be taken: then nothing may be left in the first two buckets
			arow := after.stakers[sid+"/"+asset]
			left := new(big.Int)
			if arow.withdrawable != nil {
				left.Add(left, arow.withdrawable)
			}
			for _, rc := range after.recs {
				if rc.staker == sid && rc.asset == asset {
					left.Add(left, rc.actual)
				}
			}
			if left.Sign() != 0 {
				viol("nst-decrease-incomplete", fmt.Sprintf("UpdateNSTBalance(%s) removed only %s although withdrawable + pending still hold %s", x, dv, left))
			}
		}
	}
	// frame: other stakers' rows and other stakers' records are untouched
	for k, b := range prev.stakers {
		if k != sid+"/"+asset {
			if a, ok := after.stakers[k]; !ok || a.total.Cmp(b.total) != 0 || a.withdrawable.Cmp(b.withdrawable) != 0 || a.pending.Cmp(b.pending) != 0 {
				viol("nst-frame-staker", "UpdateNSTBalance changed the row of "+k)
			}
		}
	}
	for k, b := range prev.recs {
		a, ok := after.recs[k]
		if !ok {
			viol("nst-frame-record", "UpdateNSTBalance removed record "+k)
			continue
		}
		if (b.staker != sid || b.asset != asset) && a.actual.Cmp(b.actual) != 0 {
			viol("nst-frame-record", "UpdateNSTBalance changed the record "+k+" of another staker/asset")
		}
		if a.amount.Cmp(b.amount) != 0 || a.actual.Cmp(b.actual) > 0 {
			viol("nst-frame-record", "UpdateNSTBalance raised what record "+k+" owes or changed its amount")
		}
	}
	return after
}

// directedNstOvershoot replays finding F-01a on the real keepers: a staker whose whole deposit of
// 10^19 base units is delegated reports a native-restaking balance decrease of 7. The third phase of
// UpdateNSTBalance computes slashProportion = 7 / 10^19 with LegacyDec.Quo, which rounds half-even to
// 10^-18, removes share x 10^-18 = 10 tokens' worth of shares and books -10 to the staker's total
// deposit: the ledger value falls by 10 although the reported decrease is 7 (pendingSlashAmount ends
// at -3 and is only logged when positive). (Model: C01_nst_decrease_full_fails.)
func (w *ledgerWorld) directedNstOvershoot() {
	c := w.c
	opA := NewActor(c.Cfg.Seed, "f01a-operator", 0)
	if err := c.CachedDo(func(ctx sdk.Context) error {
		return c.App.OperatorKeeper.SetOperatorInfo(ctx, opA.Acc.String(), &operatortypes.OperatorInfo{
			EarningsAddr: opA.Acc.String(), OperatorMetaInfo: "f01a", Commission: stakingtypes.NewCommission(sdk.ZeroDec(), sdk.ZeroDec(), sdk.ZeroDec())})
	}); err != nil {
		w.env.Note("f01a-setup-failed: " + err.Error())
		return
	}
	op := opA.Acc
	w.emit("ledger.operator "+op.String(), "ok")
	asset, aaddr := c.AssetIDs[0], w.assetAddr(0)
	st := NewActor(c.Cfg.Seed, "f01a-staker", 0)
	sid := StakerIDOf(c.LzID, st.Eth)
	amt := sdkmath.NewIntFromBigInt(bigPow10(19))
	run := func(name, opLine string, f func(ctx sdk.Context) error) (*ledgerSnap, error) {
		err := c.CachedDo(f)
		after := w.snapAndCheck()
		after.checkInvariants(w.env, w.hist, w.orphans)
		res := "ok"
		if err != nil {
			res = "rej"
		}
		w.emit(opLine, res+" "+after.dump())
		w.env.Outcome("f01a." + name + "." + ledgerErrClass(err))
		return after, err
	}
	if _, err := run("deposit", fmt.Sprintf("ledger.deposit %s %s %s", sid, asset, amt), func(ctx sdk.Context) error {
		return c.App.AssetsKeeper.PerformDepositOrWithdraw(ctx, &assetskeeper.DepositWithdrawParams{
			ClientChainLzID: c.LzID, Action: assetstypes.DepositLST, StakerAddress: st.Eth.Bytes(), AssetsAddress: aaddr, OpAmount: amt})
	}); err != nil {
		return
	}
	before, err := run("delegate", fmt.Sprintf("ledger.delegate %s %s %s %s", sid, asset, op, amt), func(ctx sdk.Context) error {
		return c.App.DelegationKeeper.DelegateTo(ctx, &delegationtypes.DelegationOrUndelegationParams{
			ClientChainID: c.LzID, AssetsAddress: aaddr, OperatorAddress: op, StakerAddress: st.Eth.Bytes(), OpAmount: amt})
	})
	if err != nil {
		return
	}
	x := sdkmath.NewInt(-7)
	after, err := run("nstadjust", fmt.Sprintf("ledger.nstadjust %s %s %s", sid, asset, x), func(ctx sdk.Context) error {
		return c.App.DelegationKeeper.UpdateNSTBalance(ctx, sid, asset, x)
	})
	if err != nil {
		return
	}
	w.env.Eval("C01.nst-adjustment")
	dv := new(big.Int).Sub(after.valueOf(asset), before.valueOf(asset))
	dt := new(big.Int).Sub(after.stakers[sid+"/"+asset].total, before.stakers[sid+"/"+asset].total)
	w.env.Outcome(fmt.Sprintf("f01a.value-delta=%s,deposit-delta=%s", dv, dt))
	if dv.Cmp(x.BigInt()) < 0 {
		w.env.Violate("C01.nst-adjustment", "F-01a:nst-decrease-exceeds-report",
			fmt.Sprintf("UpdateNSTBalance(%s) for a staker with %s delegated lowered the ledger value by %s and the staker's total deposit by %s: more than the reported decrease (slashProportion 7/10^19 rounds half-even up to 10^-18)", x, amt, new(big.Int).Neg(dv), new(big.Int).Neg(dt)), w.hist)
	}
}

// extraHold emulates a second AVS: it increments the hold count of a pending record through
// DelegationKeeper.IncrementUndelegationHoldCount, or releases one of the holds it placed earlier
// through DecrementUndelegationHoldCount. Both are shown to the model (`ledger.hold` / `ledger.release`).
func (w *ledgerWorld) extraHold(prev *ledgerSnap) *ledgerSnap {
	c, r := w.c, w.rng
	keyOf := func(k string) ([]byte, []string, bool) {
		f := strings.Split(k, "/")
		if len(f) != 4 {
			return nil, nil, false
		}
		return []byte(k), f, true
	}
	release := len(w.extraHolds) > 0 && (r.Chance(1, 2) || len(prev.recs) == 0)
	if release {
		i := r.Intn(len(w.extraHolds))
		k := w.extraHolds[i]
		w.extraHolds = append(w.extraHolds[:i], w.extraHolds[i+1:]...)
		kb, f, ok := keyOf(k)
		if !ok {
			return prev
		}
		err := c.CachedDo(func(ctx sdk.Context) error { return c.App.DelegationKeeper.DecrementUndelegationHoldCount(ctx, kb) })
		after := w.snapAndCheck()
		res := "ok"
		if err != nil {
			res = "rej"
		}
		hh, _ := hexutil.DecodeUint64(f[1])
		nn, _ := hexutil.DecodeUint64(f[2])
		w.emit(fmt.Sprintf("ledger.release %s %d %d %s", f[0], hh, nn, f[3]), res+" "+after.dump())
		w.env.Outcome("extrahold.release." + ledgerErrClass(err))
		after.checkInvariants(w.env, w.hist, w.orphans)
		if err == nil {
			w.env.Eval("C03.hold")
			if _, still := prev.recs[k]; still {
				if after.holds[k]+1 != prev.holds[k] {
					w.env.Violate("C03.hold", "hold-count-after-release", fmt.Sprintf("releasing one hold on %s changed the count from %d to %d", k, prev.holds[k], after.holds[k]), w.hist)
				}
			}
		}
		return after
	}
	ks := sortedKeys(prev.recs)
	if len(ks) == 0 {
		return prev
	}
	k := ks[r.Intn(len(ks))]
	kb, f, ok := keyOf(k)
	if !ok {
		return prev
	}
	err := c.CachedDo(func(ctx sdk.Context) error { return c.App.DelegationKeeper.IncrementUndelegationHoldCount(ctx, kb) })
	after := w.snapAndCheck()
	if err == nil {
		w.extraHolds = append(w.extraHolds, k)
	}
	hh, _ := hexutil.DecodeUint64(f[1])
	nn, _ := hexutil.DecodeUint64(f[2])
	if err == nil {
		w.emit(fmt.Sprintf("ledger.hold %s %d %d %s", f[0], hh, nn, f[3]), "ok "+after.dump())
	}
	w.env.Outcome("extrahold.hold." + ledgerErrClass(err))
	after.checkInvariants(w.env, w.hist, w.orphans)
	return after
}
