package main

// Helpers shared by dom_determinism.go (C08) and dom_liveness.go (C11): signed cosmos txs
// through the real BaseApp.CheckTx / DeliverTx, oracle price txs signed with a consensus key,
// resetting the oracle's process-global in-memory singletons before booting a fresh app, and
// canonical rendering of ABCI responses.

import (
	"encoding/hex"
	"fmt"
	"sort"
	"strings"
	"time"

	sdkmath "cosmossdk.io/math"
	abci "github.com/cometbft/cometbft/abci/types"
	"github.com/cosmos/cosmos-sdk/client"
	"github.com/cosmos/cosmos-sdk/crypto/keys/ed25519"
	sdk "github.com/cosmos/cosmos-sdk/types"
	"github.com/cosmos/cosmos-sdk/types/tx/signing"
	authsigning "github.com/cosmos/cosmos-sdk/x/auth/signing"
	"github.com/evmos/evmos/v16/encoding"

	exocoreapp "github.com/ExocoreNetwork/exocore/app"
	testutiltx "github.com/ExocoreNetwork/exocore/testutil/tx"
	"github.com/ExocoreNetwork/exocore/utils"
	avskeeper "github.com/ExocoreNetwork/exocore/x/avs/keeper"
	avstypes "github.com/ExocoreNetwork/exocore/x/avs/types"
	epochstypes "github.com/ExocoreNetwork/exocore/x/epochs/types"
	oraclekeeper "github.com/ExocoreNetwork/exocore/x/oracle/keeper"
	oracletypes "github.com/ExocoreNetwork/exocore/x/oracle/types"
	"github.com/ethereum/go-ethereum/common"
)

var crossTxCfg client.TxConfig

func txCfg() client.TxConfig {
	if crossTxCfg == nil {
		crossTxCfg = encoding.MakeConfig(exocoreapp.ModuleBasics).TxConfig
	}
	return crossTxCfg
}

// resetOracleSingletons drops the oracle's package-level cache / aggregator context so that a
// freshly booted app in the same process starts like a freshly started node.
func resetOracleSingletons() {
	oraclekeeper.ResetAggregatorContext()
	oraclekeeper.ResetCache()
	oraclekeeper.ResetAggregatorContextCheckTx()
	oraclekeeper.ResetUpdatedFeederIDs()
}

// NewChainFresh = NewChain after resetting process-global state of the oracle module.
var onceFired bool

func NewChainFresh(cfg ChainCfg) *Chain {
	if !onceFired {
		// x/oracle's BeginBlock initialises its singletons through a package-level sync.Once that
		// fires in the first BeginBlock of the process only. Fire it on a throw-away app so that every
		// app booted afterwards in this process is initialised the same way (by warmOracle).
		onceFired = true
		resetOracleSingletons()
		_ = NewChain(DefaultCfg(cfg.Seed))
	}
	resetOracleSingletons()
	c := NewChain(cfg)
	warmOracle(c)
	return c
}

// warmOracle does what x/oracle's BeginBlock does through its package-level sync.Once in the
// first block of a freshly started process: build the in-memory cache / aggregator context from
// the store. The Once cannot be re-armed from outside the package, so a second app booted in the
// same process (or an emulated restart) gets the same initialisation here, at the same point of
// the block (after BeginBlock, before the first tx).
func warmOracle(c *Chain) {
	_ = oraclekeeper.GetCaches()
	_ = oraclekeeper.GetAggregatorContext(c.Ctx, c.App.OracleKeeper)
}

// signedTx builds and signs a cosmos tx against the *deliver* state (sequence/account number).
func signedTx(c *Chain, a Actor, gas uint64, msgs ...sdk.Msg) ([]byte, error) {
	gp := sdkmath.NewInt(1_000_000_000)
	tx, err := testutiltx.PrepareCosmosTx(c.Ctx, c.App, testutiltx.CosmosTxArgs{
		TxCfg: txCfg(), Priv: a.Priv, ChainID: c.Cfg.ChainID, Gas: gas, GasPrice: &gp, Msgs: msgs,
	})
	if err != nil {
		return nil, err
	}
	return txCfg().TxEncoder()(tx)
}

// oraclePriceTx: MsgCreatePrice txs are signed by the validator's consensus key; the ante
// handler skips fees/sequence for them and checks the oracle nonce instead.
func oraclePriceTx(c *Chain, priv *ed25519.PrivKey, msgs ...sdk.Msg) ([]byte, error) {
	b := txCfg().NewTxBuilder()
	if err := b.SetMsgs(msgs...); err != nil {
		return nil, err
	}
	b.SetGasLimit(200000)
	mode := txCfg().SignModeHandler().DefaultMode()
	sig := signing.SignatureV2{PubKey: priv.PubKey(), Data: &signing.SingleSignatureData{SignMode: mode}, Sequence: 0}
	if err := b.SetSignatures(sig); err != nil {
		return nil, err
	}
	bytesToSign, err := txCfg().SignModeHandler().GetSignBytes(mode, authsigning.SignerData{ChainID: c.Cfg.ChainID}, b.GetTx())
	if err != nil {
		return nil, err
	}
	s, err := priv.Sign(bytesToSign)
	if err != nil {
		return nil, err
	}
	sig.Data = &signing.SingleSignatureData{SignMode: mode, Signature: s}
	if err := b.SetSignatures(sig); err != nil {
		return nil, err
	}
	return txCfg().TxEncoder()(b.GetTx())
}

func oracleCreator(priv *ed25519.PrivKey) string {
	return sdk.AccAddress(priv.PubKey().Address()).String()
}

func priceMsg(creator string, feeder uint64, based uint64, nonce int32, price string, dec int32, detID string, ts time.Time) *oracletypes.MsgCreatePrice {
	return &oracletypes.MsgCreatePrice{
		Creator: creator, FeederID: feeder, BasedBlock: based, Nonce: nonce,
		Prices: []*oracletypes.PriceSource{{SourceID: 1, Prices: []*oracletypes.PriceTimeDetID{{
			Price: price, Decimal: dec, DetID: detID, Timestamp: ts.UTC().Format("2006-01-02 15:04:05"),
		}}}},
	}
}

// DeliverRaw / CheckRaw run the real ABCI entry points; a panic escaping them is what would
// stop a node, so it is caught and reported.
func (c *Chain) DeliverRaw(bz []byte) (res abci.ResponseDeliverTx, halt string) {
	func() {
		defer recoverTo(&halt, "DeliverTx")
		res = c.App.BaseApp.DeliverTx(abci.RequestDeliverTx{Tx: bz})
	}()
	if halt == "" {
		// the deliver-state context object may have been replaced
		c.Ctx = c.App.BaseApp.NewContext(false, c.Header)
	}
	return
}

func (c *Chain) CheckRaw(bz []byte, recheck bool) (res abci.ResponseCheckTx, halt string) {
	func() {
		defer recoverTo(&halt, "CheckTx")
		t := abci.CheckTxType_New
		if recheck {
			t = abci.CheckTxType_Recheck
		}
		res = c.App.BaseApp.CheckTx(abci.RequestCheckTx{Tx: bz, Type: t})
	}()
	return
}

func fmtDeliver(r abci.ResponseDeliverTx) string {
	return fmt.Sprintf("%d/%s/%s/%d", r.Code, r.Codespace, hex.EncodeToString(r.Data), r.GasUsed)
}

func fmtValUpdates(vs []abci.ValidatorUpdate) string {
	parts := make([]string, 0, len(vs))
	for _, v := range vs {
		bz, _ := v.PubKey.Marshal()
		parts = append(parts, fmt.Sprintf("%s:%d", hex.EncodeToString(bz), v.Power))
	}
	return strings.Join(parts, ",") // order is consensus relevant: NOT sorted
}

func fmtEnd(e abci.ResponseEndBlock) string {
	cp := ""
	if e.ConsensusParamUpdates != nil {
		bz, _ := e.ConsensusParamUpdates.Marshal()
		cp = hex.EncodeToString(bz)
	}
	return "vu=" + fmtValUpdates(e.ValidatorUpdates) + " cp=" + cp
}

func sortedStrings(xs []string) []string {
	ys := append([]string{}, xs...)
	sort.Strings(ys)
	return ys
}

func nativeCoins(n int64) sdk.Coins {
	return sdk.NewCoins(sdk.NewCoin(utils.BaseDenom, sdkmath.NewInt(n)))
}

func shortErr(err error) string {
	if err == nil {
		return "ok"
	}
	s := err.Error()
	if strings.HasPrefix(s, "panic:") {
		return "panic"
	}
	return "rej"
}

// ---- AVS fixtures shared by the determinism and liveness domains (keeper entry points the avs
// precompile calls with the same arguments)

type avsFixture struct {
	Avs, Task string
	Owner     Actor
}

// setupAVSFixture registers an AVS (own task address, minute epoch, asset 0 …) owned by the funded
// account, opts the given operators in and registers a deterministic BLS key for each of them.
func setupAVSFixture(c *Chain, seed uint64, idx int, ops []Actor) (avsFixture, error) {
	fx := avsFixture{
		Avs:   common.BytesToAddress(detBytes(seed, "avsfx", idx)).String(),
		Task:  common.BytesToAddress(detBytes(seed, "taskfx", idx)).String(),
		Owner: c.Funded,
	}
	err := c.CachedDo(func(ctx sdk.Context) error {
		k := c.App.AVSManagerKeeper
		if err := k.UpdateAVSInfo(ctx, &avstypes.AVSRegisterOrDeregisterParams{
			AvsName: fmt.Sprintf("fx%d", idx), AvsAddress: fx.Avs, TaskAddr: fx.Task, SlashContractAddr: fx.Task, RewardContractAddr: fx.Task,
			AvsOwnerAddress: []string{fx.Owner.Acc.String()}, AssetID: append([]string{}, c.AssetIDs...), UnbondingPeriod: 2, EpochIdentifier: epochstypes.MinuteEpochID,
			CallerAddress: fx.Owner.Acc.String(), Action: avskeeper.RegisterAction, AvsReward: 1, AvsSlash: 1,
		}); err != nil {
			return fmt.Errorf("register avs: %w", err)
		}
		for i, op := range ops {
			if err := k.OperatorOptAction(ctx, &avskeeper.OperatorOptParams{OperatorAddress: op.Acc.String(), AvsAddress: fx.Avs, Action: avskeeper.RegisterAction}); err != nil {
				return fmt.Errorf("opt in %d: %w", i, err)
			}
			if k.IsExistPubKey(ctx, op.Acc.String()) {
				continue
			}
			sk := detBLS(seed, int(op.Eth[19])+256*int(op.Eth[18]))
			h := [32]byte{1}
			if err := k.RegisterBLSPublicKey(ctx, &avskeeper.BlsParams{Operator: op.Acc.String(), Name: "k", PubKey: sk.PublicKey().Marshal(),
				PubkeyRegistrationSignature: sk.Sign(h[:]).Marshal(), PubkeyRegistrationMessageHash: h[:]}); err != nil {
				return fmt.Errorf("bls %d: %w", i, err)
			}
		}
		return nil
	})
	return fx, err
}

// createTaskWithResults creates a task (response period 1, statistical period 1: its statistics are
// taken at the end of epoch start+2) and lets the signers submit a signed phase-one result.
func createTaskWithResults(c *Chain, fx avsFixture, signers []Actor) (uint64, error) {
	var id uint64
	err := c.CachedDo(func(ctx sdk.Context) error {
		k := c.App.AVSManagerKeeper
		p := &avskeeper.TaskInfoParams{TaskContractAddress: fx.Task, TaskName: "t", Hash: []byte("h"), TaskResponsePeriod: 1, TaskStatisticalPeriod: 1,
			TaskChallengePeriod: 1, ThresholdPercentage: 50, CallerAddress: fx.Owner.Acc.String()}
		if err := k.CreateAVSTask(ctx, p); err != nil {
			return fmt.Errorf("create task: %w", err)
		}
		id = p.TaskID
		for _, s := range signers {
			if err := k.SetTaskResultInfo(ctx, s.Acc.String(), &avstypes.TaskResultInfo{
				OperatorAddress: s.Acc.String(), TaskContractAddress: fx.Task, TaskId: id, Stage: avstypes.TwoPhaseCommitOne,
				BlsSignature: detBytes(1, "sig", int(id)),
			}); err != nil {
				return fmt.Errorf("submit: %w", err)
			}
		}
		return nil
	})
	return id, err
}
