package main

// C20 — the BYTES of a phase-two task response.
//
// The clause "phase two only … with a response carrying the same task id, and a BLS signature that verifies" is
// about the bytes an operator submits: SetTaskResultInfo hashes info.TaskResponse (keccak256), records that hash
// as TaskResponseHash, parses the bytes with encoding/json for the task id, and verifies the phase-one signature
// over the hash. encoding/json accepts many byte strings for one TaskResponse{TaskID, NumberSum}: unknown fields,
// any key order, insignificant white space, case-insensitive and escaped keys, duplicate keys (the last one wins),
// absent / null fields. Only one of them is what json.Marshal produces (the "canonical" encoding). A keeper that
// hashes, verifies or records anything else than the submitted bytes (the re-marshalled response, the parsed
// fields, …) agrees with the property on the canonical encoding and on nothing else.
//
// This file gives the avs domain
//   * the encodings (`avsEncodings`): for a content (task id, answer) every encoding parses to the same content;
//     `avsContentVariants` change what is parsed (null / absent / negative / 2^256 answers, an id that is not a
//     uint64) — both lists are generated for every submission of the random, sweep and directed histories, so a
//     signature is made over one byte string and another byte string of the SAME content may be revealed;
//   * the refusal side of the submission clauses (`monSubmitRefused`): a submission that meets every condition of
//     the clause must be accepted (an operator whose signature verifies over what it submitted cannot be shut out);
//   * the record monitor (`monResults`): after every block, every stored result is exactly what was accepted
//     (signature = the accepted phase-one signature, response = the accepted phase-two bytes) and is
//     self-consistent: TaskResponseHash == keccak256(TaskResponse), the response parses to the record's task id,
//     and the stored signature verifies over keccak256(TaskResponse) with the operator's registered BLS key. The
//     epoch hook counts these records as signers, so this is also the "reflect exactly the accepted results" clause;
//   * a directed scenario (`directedEncodings`): one task per encoding; one operator commits to the canonical bytes
//     and reveals the other encoding (must be refused, then the canonical bytes are accepted), the other commits to
//     the non-canonical bytes and reveals the canonical ones (refused) and then its own (accepted).

import (
	"bytes"
	"fmt"
	"sort"
	"strconv"
	"strings"
	"time"

	"github.com/ethereum/go-ethereum/crypto"
	"github.com/prysmaticlabs/prysm/v4/crypto/bls/blst"

	avstypes "github.com/ExocoreNetwork/exocore/x/avs/types"
	epochstypes "github.com/ExocoreNetwork/exocore/x/epochs/types"
)

type avsEncoding struct {
	name string
	f    func(id uint64, sum string) string
}

// every entry parses (encoding/json into avstypes.TaskResponse) to TaskID = id, NumberSum = sum.
// Entry 0 is byte-identical to avstypes.MarshalTaskResponse (checked by avsEncodingsSelfTest).
var avsEncodings = []avsEncoding{
	{"canonical", func(id uint64, sum string) string { return fmt.Sprintf(`{"TaskID":%d,"NumberSum":%s}`, id, sum) }},
	{"extra-field", func(id uint64, sum string) string {
		return fmt.Sprintf(`{"TaskID":%d,"NumberSum":%s,"memo":"anything"}`, id, sum)
	}},
	{"key-order", func(id uint64, sum string) string { return fmt.Sprintf(`{"NumberSum":%s,"TaskID":%d}`, sum, id) }},
	{"inner-space", func(id uint64, sum string) string { return fmt.Sprintf(`{"TaskID":%d, "NumberSum":%s}`, id, sum) }},
	{"duplicate-keys", func(id uint64, sum string) string {
		return fmt.Sprintf(`{"TaskID":%d,"NumberSum":5,"TaskID":%d,"NumberSum":%s}`, id+7, id, sum)
	}},
	{"key-case", func(id uint64, sum string) string { return fmt.Sprintf(`{"taskid":%d,"NUMBERSUM":%s}`, id, sum) }},
	{"outer-space", func(id uint64, sum string) string {
		return fmt.Sprintf("\n {\"TaskID\":%d,\"NumberSum\":%s}\t\n", id, sum)
	}},
	{"escaped-key", func(id uint64, sum string) string {
		return fmt.Sprintf(`{"Task`+"\\"+`u0049D":%d,"NumberSum":%s}`, id, sum)
	}},
	{"nested-extra", func(id uint64, sum string) string {
		return fmt.Sprintf(`{"x":{"TaskID":%d},"TaskID":%d,"NumberSum":%s,"y":[1,{"NumberSum":2}]}`, id+1, id, sum)
	}},
	{"first-extra-null", func(id uint64, sum string) string {
		return fmt.Sprintf(`{"memo":null,"TaskID":%d,"NumberSum":%s}`, id, sum)
	}},
}

// answers (the NumberSum literal) that change what is parsed: the boundary contents of the malformed stream
var avsContentVariants = []string{"null", "-5", "0", "115792089237316195423570985008687907853269984665640564039457584007913129639936", "1e2", `"100"`, "100.0"}

func encResp(id uint64, sum string, enc int) []byte {
	return []byte(avsEncodings[enc%len(avsEncodings)].f(id, sum))
}

// avsEncodingsSelfTest: the generator's claim about its own encodings (a harness failure, not a violation).
func avsEncodingsSelfTest() error {
	for _, sum := range []string{"100", "0", "-5"} {
		want, err := avstypes.UnmarshalTaskResponse(encResp(3, sum, 0))
		if err != nil {
			return fmt.Errorf("canonical encoding does not parse: %v", err)
		}
		re, _ := avstypes.MarshalTaskResponse(want)
		if !bytes.Equal(re, encResp(3, sum, 0)) {
			return fmt.Errorf("encoding 0 is not json.Marshal's: %s vs %s", encResp(3, sum, 0), re)
		}
		seen := map[string]bool{}
		for i, e := range avsEncodings {
			b := encResp(3, sum, i)
			got, err := avstypes.UnmarshalTaskResponse(b)
			if err != nil || got.TaskID != 3 || got.NumberSum == nil || got.NumberSum.String() != sum {
				return fmt.Errorf("encoding %s of (3,%s) parses to %+v (%v)", e.name, sum, got, err)
			}
			if seen[string(b)] {
				return fmt.Errorf("encoding %s repeats another one", e.name)
			}
			seen[string(b)] = true
		}
	}
	return nil
}

// avsContent is what an operator answers for one (operator, task): the bytes it signs in phase one are
// encResp(id, sum, enc); what it reveals in phase two is drawn per attempt (mostly those bytes).
type avsContent struct {
	id  uint64
	sum string
	enc int
}

// genResponse draws the content and the signed encoding for a first submission to task id.
func (h *avsH) genResponse(id uint64) (avsContent, []byte) {
	r := h.rng
	c := avsContent{id: id, sum: strconv.Itoa(100 + r.Intn(3))}
	switch r.Intn(12) {
	case 0:
		c.id = id + 1 // a response for another task id (phase two must refuse it)
	case 1:
		return avsContent{}, []byte("not json")
	case 2:
		c.sum = avsContentVariants[r.Intn(len(avsContentVariants))]
	}
	if r.Chance(1, 2) {
		c.enc = r.Intn(len(avsEncodings))
	}
	return c, encResp(c.id, c.sum, c.enc)
}

// reveal: the bytes submitted in phase two for content c. Mostly the signed bytes; otherwise another encoding of
// the same content (the canonical one when the signed bytes are not canonical, half of the time).
func (h *avsH) reveal(c avsContent, signed []byte) []byte {
	r := h.rng
	if c.sum == "" || !r.Chance(1, 4) {
		return signed
	}
	if c.enc != 0 && r.Chance(1, 2) {
		h.env.Note("reveal.canonical-for-signed-non-canonical")
		return encResp(c.id, c.sum, 0)
	}
	e := r.Intn(len(avsEncodings))
	if e == c.enc {
		e = (e + 1) % len(avsEncodings)
	}
	if c.enc == 0 {
		h.env.Note("reveal.non-canonical-for-signed-canonical")
	} else {
		h.env.Note("reveal.other-non-canonical-for-signed-non-canonical")
	}
	return encResp(c.id, c.sum, e)
}

// ---------- refusal side of the submission clauses

type avsSubPre struct {
	isOp, hasPk, pkParses, taskOk, curOk, stored bool
	cur, end1, end2                            int64
	respID                                     string
	blsOk                                      int
}

// monSubmitRefused: a refused submission that meets every condition the clause names. `stored` = a result of this
// operator for this task is in the store (pre-state, read through the keeper).
func (h *avsH) monSubmitRefused(s avsSub, p avsSubPre, code string) {
	if code == "ok" || code == "panic" {
		return
	}
	if s.from != s.op || !p.isOp || !p.hasPk || !p.pkParses || !p.taskOk || !p.curOk {
		return
	}
	k := rkey(s.op, s.taskAddr, s.id)
	switch s.stage {
	case avstypes.TwoPhaseCommitOne:
		h.env.Eval("C20.submit-refused")
		if !p.stored && len(s.sig) > 0 && s.hash == "" && s.resp == nil && p.cur <= p.end1 {
			h.violate("C20.submit-refused", "phase1-refused-eligible", fmt.Sprintf(
				"phase one refused (%s) at epoch %d (response period ends with epoch %d): registered operator with a BLS key, no result stored yet, non-empty signature, no response [%s]",
				code, p.cur, p.end1, k))
		}
	case avstypes.TwoPhaseCommitTwo:
		h.env.Eval("C20.submit-refused")
		s1, ok := h.acc1[k]
		if ok && bytes.Equal(s1, s.sig) && s.resp != nil && p.cur > p.end1 && p.cur <= p.end2 &&
			p.respID == strconv.FormatUint(s.id, 10) && p.blsOk == 1 {
			h.violate("C20.submit-refused", "phase2-refused-eligible", fmt.Sprintf(
				"phase two refused (%s) at epoch %d (statistical period (%d, %d]): the phase-one signature, a response carrying task id %s, and the signature verifies over keccak256 of the submitted response %q [%s]",
				code, p.cur, p.end1, p.end2, p.respID, string(s.resp), k))
		}
	}
}

// ---------- the stored results are exactly the accepted ones, and each record is self-consistent

func (h *avsH) monResults() {
	if h.halted || h.legacy {
		return
	}
	h.env.Eval("C20.results")
	bad := func(sig, what string) { h.violate("C20.results", sig, what) }
	seen := map[string]bool{}
	var recs []avstypes.TaskResultInfo
	h.c.App.AVSManagerKeeper.IterateResultInfo(h.c.Ctx, func(_ int64, r avstypes.TaskResultInfo) bool {
		recs = append(recs, r)
		return false
	})
	for i := range recs {
		r := &recs[i]
		k := rkey(r.OperatorAddress, r.TaskContractAddress, r.TaskId)
		tag := " [" + k + " stage " + r.Stage + "]"
		if seen[k] {
			// "only once": one operator has one result per task, whatever the task contract is called in it
			bad("result-duplicate", "more than one result is stored for one operator and one task (stored under "+r.TaskContractAddress+")"+tag)
		}
		seen[k] = true
		s1, ok := h.acc1[k]
		if !ok {
			bad("result-not-accepted", "a result is stored that was never accepted in phase one"+tag)
			continue
		}
		if !bytes.Equal(s1, r.BlsSignature) {
			bad("result-signature-changed", "the stored signature is not the one accepted in phase one"+tag)
		}
		resp2, did2 := h.acc2[k]
		switch r.Stage {
		case avstypes.TwoPhaseCommitOne:
			if did2 {
				bad("result-phase2-lost", "phase two was accepted but the stored result is a phase-one record"+tag)
			}
			if len(r.TaskResponse) != 0 || r.TaskResponseHash != "" {
				bad("result-phase1-has-response", "a phase-one record carries a response or a response hash"+tag)
			}
		case avstypes.TwoPhaseCommitTwo:
			if !did2 {
				bad("result-phase2-not-accepted", "a phase-two record is stored that was never accepted"+tag)
			} else if !bytes.Equal(resp2, r.TaskResponse) {
				bad("result-response-changed", fmt.Sprintf("stored response %q, accepted response %q%s", string(r.TaskResponse), string(resp2), tag))
			}
			digest := crypto.Keccak256Hash(r.TaskResponse)
			if r.TaskResponseHash != digest.String() {
				bad("result-hash", fmt.Sprintf("TaskResponseHash %s is not keccak256 of the stored response %q (%s)%s", r.TaskResponseHash, string(r.TaskResponse), digest, tag))
			}
			if p, e := avstypes.UnmarshalTaskResponse(r.TaskResponse); e != nil || p.TaskID != r.TaskId {
				bad("result-taskid", fmt.Sprintf("the stored response %q does not carry the record's task id%s", string(r.TaskResponse), tag))
			}
			ck := k + "|" + string(r.BlsSignature) + "|" + string(r.TaskResponse)
			okSig, cached := h.verified[ck]
			if !cached {
				if pkb, has := h.hasKey(r.OperatorAddress); has {
					if pk, e := blst.PublicKeyFromBytes(pkb); e == nil {
						if v, e2 := blst.VerifySignature(r.BlsSignature, digest, pk); e2 == nil && v {
							okSig = true
						}
					}
				}
				h.verified[ck] = okSig
			}
			if !okSig {
				bad("result-signature", fmt.Sprintf("the stored signature does not verify over keccak256 of the stored response %q with the operator's registered BLS key%s", string(r.TaskResponse), tag))
			}
		default:
			bad("result-stage", "a result with stage "+r.Stage+" is stored"+tag)
		}
	}
	var lost []string
	for k := range h.acc1 {
		if !seen[k] {
			lost = append(lost, k)
		}
	}
	sort.Strings(lost)
	for _, k := range lost {
		bad("result-lost", "an accepted result is no longer stored ["+k+"]")
	}
}

// ---------- directed: every encoding, both ways round

func (h *avsH) directedEncodings() {
	avs, ta := h.avsPool[0], h.taskPool[0]
	a, b := h.opAddrs[0], h.opAddrs[1]
	h.doUpdate(avsUpd{action: 1, addr: avs, name: "n0", taskAddr: ta, owners: []string{h.owners[0]}, assets: []string{h.asset0},
		unbonding: 7, minSelf: 0, epochID: epochstypes.MinuteEpochID, caller: h.owners[0]})
	for _, o := range []string{a, b} {
		h.doOpt(false, 1, o, avs)
		h.doBLS(o, 0)
	}
	h.doBlock(61 * time.Second)
	n := len(avsEncodings) + 2
	sums := make([]string, n)
	for j := 0; j < n; j++ {
		h.doTask(avsTaskP{taskAddr: ta, caller: h.owners[0], name: "t", hash: []byte("req"), resp: 1, stat: 2, chal: 1})
		sums[j] = "100"
	}
	// the two extra tasks: an absent / null answer (the canonical re-encoding of both is `"NumberSum":null`)
	sums[n-2], sums[n-1] = "null", "null"
	other := func(j int) []byte {
		id := uint64(j + 1)
		switch {
		case j == n-2:
			return []byte(fmt.Sprintf(`{"TaskID":%d}`, id))
		case j == n-1:
			return []byte(fmt.Sprintf(`{"NumberSum":null,"TaskID":%d}`, id))
		case j == 0:
			return encResp(id, sums[j], 1)
		}
		return encResp(id, sums[j], j)
	}
	sigA, sigB := make([][]byte, n), make([][]byte, n)
	for j := 0; j < n; j++ {
		id := uint64(j + 1)
		sigA[j] = h.signResp(a, encResp(id, sums[j], 0)) // a commits to the canonical bytes
		sigB[j] = h.signResp(b, other(j))                // b commits to the other bytes
		h.doSubmit(avsSub{from: a, op: a, taskAddr: ta, id: id, stage: "1", sig: sigA[j]})
		h.doSubmit(avsSub{from: b, op: b, taskAddr: ta, id: id, stage: "1", sig: sigB[j]})
	}
	for i := 0; i < 3 && !h.halted; i++ { // into the statistical period
		h.doBlock(61 * time.Second)
	}
	h.dumpOp()
	two := func(o string, id uint64, sig, resp []byte) string {
		return h.doSubmit(avsSub{from: o, op: o, taskAddr: ta, id: id, stage: "2", sig: sig, resp: resp, hash: crypto.Keccak256Hash(resp).String()})
	}
	for j := 0; j < n && !h.halted; j++ {
		id := uint64(j + 1)
		canon, oth := encResp(id, sums[j], 0), other(j)
		h.env.Note("directed-encodings.a-reveals-other." + two(a, id, sigA[j], oth))
		h.env.Note("directed-encodings.a-reveals-own." + two(a, id, sigA[j], canon))
		h.env.Note("directed-encodings.b-reveals-canonical." + two(b, id, sigB[j], canon))
		h.env.Note("directed-encodings.b-reveals-own." + two(b, id, sigB[j], oth))
	}
	h.dumpOp()
	for i := 0; i < 2 && !h.halted; i++ { // the statistical period ends, the challenge period opens
		h.doBlock(61 * time.Second)
		h.dumpOp()
	}
	for j := 0; j < n && !h.halted; j++ {
		id := uint64(j + 1)
		d := abiDigest(other(j))
		if d == nil { // an absent answer has no ABI digest: the challenge must be refused, not crash
			d = []byte{1}
		}
		h.doChallenge(avsChal{taskAddr: ta, id: id, op: b, taskHash: []byte("req"), respHash: d, caller: h.owners[0]})
	}
	h.dumpOp()
}

func avsEncName(resp []byte) string {
	if p, e := avstypes.UnmarshalTaskResponse(resp); e == nil {
		if re, e2 := avstypes.MarshalTaskResponse(p); e2 == nil {
			if bytes.Equal(re, resp) {
				return "canonical"
			}
			return "non-canonical"
		}
	}
	if strings.TrimSpace(string(resp)) == "" {
		return "empty"
	}
	return "unparseable"
}
