package main

// C13 — "a submission that is not admitted changes nothing at all", for submissions that are merely
// SIMULATED. With this SDK the MsgCreatePrice handler runs in DeliverTx and in BaseApp.Simulate only
// (CheckTx / ReCheckTx stop after the ante chain). Simulate is the gas-estimation endpoint, open to every
// RPC client; it runs the ante chain WITHOUT the signature check and the handler with ctx.IsCheckTx()==true
// on a branch of the check state, and the handler then works on the CHECK-side copy of the aggregator
// context (keeper.GetAggregatorContext: agcCheckTx = agc.Copy4CheckTx(), kept until the next EndBlock).
// All store writes of a simulation are dropped; what it does to the process memory is not.
//
// Generator (oracle_adm with sims=1): inside the random histories, before and after the delivered traffic
// of a feeder whose round is open, a batch of simulations in the names of 1 … all current validators
// (agreeing sources, the nonce the check state expects, a third of them signed with an outsider's key —
// Simulate does not verify signatures —, a few with a nonce gap or in an outsider's name): below, at and
// above the consensus threshold, so that rounds are FINALISED on the check-side copy while the deliver
// side's round is open / partly filled / already closed. directedSimulated: the boundary cases one by one.
//
// Monitor C13.simulate (evaluated after every simulation, on the real state): the deliver-side
// observation — stored prices, nonces, the deliver-side aggregator context (rounds, workers), the
// pending cache, the replay log — is what it was before the call (sig simulated-changed-deliver-state:<part>)
// and the process-global list of feeders "updated in this block" that EndBlock turns into an event is
// unchanged (sig simulated-changed-updated-feeder-ids). The simulation is an op of the history
// (`orc.sim <class> <tx>`); the Lean model (Model/OracleCheckSide.lean: simulateTx) leaves the deliver
// state alone, so a leak also shows as a model difference at the simulation or at the next delivery.

import (
	"fmt"
	"sort"
	"strings"
	"time"

	errorsmod "cosmossdk.io/errors"

	oraclekeeper "github.com/ExocoreNetwork/exocore/x/oracle/keeper"
)

// checkNonceOf reads the nonce the CHECK state holds (committed state + this block's CheckTx probes):
// the one the ante chain of a simulation compares with.
func (a *admDriver) checkNonceOf(val int, feeder uint64) (int32, bool) {
	ctx := a.c.App.BaseApp.NewContext(true, a.c.Header)
	n, found := a.c.App.OracleKeeper.GetNonce(ctx, consOf(a.orc, val))
	if !found {
		return 0, false
	}
	for _, x := range n.NonceList {
		if x.FeederID == feeder {
			return int32(x.Value), true
		}
	}
	return 0, false
}

func (a *admDriver) simParts() []string {
	ctx := a.ctx()
	return []string{a.showPrices(ctx), a.showNonces(ctx), oraclekeeper.VerifDumpAgc(a.name), oraclekeeper.VerifDumpCache(a.name), a.showLog(ctx)}
}

var simPartNames = []string{"prices", "nonces", "aggregator", "cache", "log"}

// simulate runs one price tx through the real BaseApp.Simulate and judges the clause.
func (a *admDriver) simulate(t orcTx, tag string) string {
	bz, _, _, err := a.build(t)
	if err != nil {
		a.env.Note("build-error")
		return "build-error"
	}
	infos := append([][2]bool{}, a.lastInfos...)
	before := a.simParts()
	updBefore := strings.Join(oraclekeeper.VerifUpdatedFeederIDs(), "_")
	var simErr error
	halt := ""
	func() {
		defer recoverTo(&halt, "Simulate")
		_, _, simErr = a.c.App.BaseApp.Simulate(bz)
	}()
	cls := "ok"
	if halt != "" {
		cls = "panic"
		a.env.Note("simulate-panic: " + firstN(halt, 160))
	} else if simErr != nil {
		space, code, log := errorsmod.ABCIInfo(simErr, false)
		cls = orcClass(code, space, log)
	}
	a.op("orc.sim "+cls+strings.TrimPrefix(a.opLineTx(t, len(bz), infos), "orc.tx"), a.fullObs())
	a.env.Outcome("sim:" + cls)
	a.env.Eval("C13.simulate")
	after := a.simParts()
	for i := range before {
		if before[i] != after[i] {
			a.env.Violate("C13.simulate", "simulated-changed-deliver-state:"+simPartNames[i]+tag,
				fmt.Sprintf("block %d: a create-price tx that was only simulated (result %s; never in a block) changed the deliver-side %s: %q -> %q",
					a.c.Header.Height, cls, simPartNames[i], diffAround(before[i], after[i]), diffAround(after[i], before[i])), a.hist)
			break
		}
	}
	if upd := strings.Join(oraclekeeper.VerifUpdatedFeederIDs(), "_"); upd != updBefore {
		a.env.Violate("C13.simulate", "simulated-changed-updated-feeder-ids:F-13c",
			fmt.Sprintf("block %d: a create-price tx that was only simulated (result %s) changed the process-global list of feeders updated in this block from [%s] to [%s]; EndBlock announces them in its create_price event although no price was recorded",
				a.c.Header.Height, cls, updBefore, upd), a.hist)
	}
	return cls
}

// diffAround returns the part of x around the first position where it differs from y.
func diffAround(x, y string) string {
	i := 0
	for i < len(x) && i < len(y) && x[i] == y[i] {
		i++
	}
	lo, hi := i-40, i+60
	if lo < 0 {
		lo = 0
	}
	if hi > len(x) {
		hi = len(x)
	}
	return x[lo:hi]
}

// simMsg: validator v's copy of the agreed sources, with the nonce the check state expects and stamps
// that also pass on the check state's (previous block's) time.
func (a *admDriver) simMsg(m0 orcMsg, v int) orcMsg {
	m := m0
	m.Creator = v
	n, _ := a.checkNonceOf(v, m0.Feeder)
	m.Nonce = n + 1
	m.Srcs = make([]orcSource, len(m0.Srcs))
	back := a.c.Header.Time.Unix() - 120
	for i, sc := range m0.Srcs {
		c := sc
		c.Prices = append([]orcPrice{}, sc.Prices...)
		for j := range c.Prices {
			if c.Prices[j].TsKind == 0 && c.Prices[j].Ts > back {
				c.Prices[j].Ts = back
			}
		}
		m.Srcs[i] = c
	}
	return m
}

func (a *admDriver) currentVals() []int {
	var vs []int
	for v := range a.powers {
		vs = append(vs, v)
	}
	sort.Ints(vs)
	return vs
}

// simBatch: simulations for feeder fi's round based at `base` in the names of k of the current validators.
func (a *admDriver) simBatch(fi int, base uint64) {
	vs := a.currentVals()
	if len(vs) == 0 {
		return
	}
	for i := len(vs) - 1; i > 0; i-- {
		j := a.rng.Intn(i + 1)
		vs[i], vs[j] = vs[j], vs[i]
	}
	k := len(vs)
	if a.rng.Chance(2, 5) {
		k = 1 + a.rng.Intn(len(vs))
	}
	m0 := a.honestMsg(vs[0], fi, base)
	stBefore := a.roundStatus(fi + 1)
	a.env.Outcome(fmt.Sprintf("simbatch:%d-of-%d,deliver-round-status=%d", k, len(vs), stBefore))
	for i := 0; i < k; i++ {
		m := a.simMsg(m0, vs[i])
		t := orcTx{Msgs: []orcMsg{m}}
		switch a.rng.Pick(12, 6, 1, 1, 1) {
		case 1: // signed by an outsider with the validator's public key attached: Simulate skips the signature check
			t.Forge = true
		case 2:
			t.Msgs[0].Nonce++
		case 3:
			t.Msgs[0].Creator = 50
		case 4: // a second, consecutive submission of the same validator in the same tx
			m2 := m
			m2.Nonce = m.Nonce + 1
			t.Msgs = append(t.Msgs, m2)
		}
		a.simulate(t, "")
	}
}

// directedSimulated: three equal validators, threshold "more than 2/3" (all three needed), one feeder,
// rounds based at 2, 9, …, MaxNonce 3. The simulated submissions reach the threshold on the check-side
// copy (i) before anything was delivered for the round, (ii) with a single simulation after two
// delivered reports, (iii) after the deliver side finalised, (iv) outside the window; every delivered
// submission is an honest one and must be counted, the round must end with the agreed price.
func directedSimulated(env *Env) {
	spec := vsBaseSpec([]int64{10, 10, 10})
	o := newOrc(env, 131377, spec, nil)
	o.emitSetup()
	a := &admDriver{orcDriver: newOrcDriver(o, NewRNG(131377)), quota: map[string]int{}}
	a.wMon = "C13.counted"
	mk := func(v int, based uint64, nonce int32, price string) orcTx {
		return orcTx{Msgs: []orcMsg{{Creator: v, Feeder: 1, Based: based, Nonce: nonce,
			Srcs: []orcSource{{ID: 1, Prices: []orcPrice{{Price: price, Dec: 0, Ts: o.c.Header.Time.Unix() - 60, DetID: fmt.Sprint(based)}}}}}}}
	}
	deliver := func(open map[int]uint64, v int, based uint64, price string) {
		n, _ := a.nonceOf(v, 1)
		cls := a.send(mk(v, based, n+1, price), open, "")
		env.Outcome("directed-simulated:deliver=" + cls)
		env.Eval("C13.simulate")
		if cls != "ok" {
			env.Violate("C13.simulate", "valid-submission-refused-after-simulation",
				fmt.Sprintf("block %d: the first valid submission of validator %d for the open round based at %d got %s after submissions for that round had merely been simulated", o.c.Header.Height, v, based, cls), o.hist)
		}
	}
	simAll := func(based uint64, price string, vals ...int) {
		for _, v := range vals {
			n, _ := a.checkNonceOf(v, 1)
			t := mk(v, based, n+1, price)
			t.Forge = v == 1 // one of them signed by an outsider
			env.Outcome("directed-simulated:sim=" + a.simulate(t, ""))
		}
	}
	next := func() bool {
		if _, halted := a.endBlock(); halted {
			return false
		}
		a.idsMonitor(uint64(o.c.Header.Height), nil)
		return a.commitBegin(2 * time.Second)
	}
	for uint64(o.c.Header.Height) < 3 {
		if !next() {
			return
		}
	}
	for uint64(o.c.Header.Height) <= 19 {
		h := uint64(o.c.Header.Height)
		open := map[int]uint64{}
		if b := spec.openBase(0, h); b > 0 {
			open[0] = b
			a.roundLog(0, b)
		}
		switch h {
		case 3: // (i) nothing delivered yet: all three simulate the same price, then two validators deliver another one
			simAll(2, "7", 0, 1, 2)
			deliver(open, 0, 2, "3")
			deliver(open, 1, 2, "3")
			simAll(2, "3", 2) // the check-side copy of this block was made before the deliveries
		case 4: // (ii) a fresh copy holding two delivered reports: ONE simulation completes the round there
			simAll(2, "3", 2)
			deliver(open, 2, 2, "3") // … the deliver side finalises with the real third report
			simAll(2, "3", 0, 1, 2)  // (iii) simulations for a round that is closed on both sides
		case 5, 7: // (iv) window still open but round closed / window over
			simAll(2, "4", 0, 1, 2)
		case 10: // next round: two simulated, below the threshold
			simAll(9, "5", 0, 1)
			deliver(open, 0, 9, "5")
		case 11:
			simAll(9, "5", 1, 2) // completes on the copy (one delivered + two simulated)
			deliver(open, 1, 9, "5")
			deliver(open, 2, 9, "5")
		case 17: // third round: simulations with diverging prices (no consensus on the copy), then unanimity
			simAll(16, "6", 0)
			simAll(16, "8", 1, 2)
			simAll(16, "6", 1, 2)
			for v := 0; v < 3; v++ {
				deliver(open, v, 16, "9")
			}
		}
		if !next() {
			return
		}
	}
	env.Eval("C13.simulate")
	got := o.showPrices(o.ctx())
	env.Outcome("directed-simulated:prices=" + got)
	for _, want := range []string{"2=3/", "3=5/", "4=9/"} {
		if !strings.Contains(got, want) {
			env.Violate("C13.simulate", "round-lost-after-simulation",
				fmt.Sprintf("all three validators delivered the same valid price in each of three rounds; stored prices %s lack %q", got, want), o.hist)
			break
		}
	}
	env.Report.Histories++
}
