package main

// C11 — "no sequence of transactions … from any sender, including validators … can make block begin,
// transaction delivery, block end or commit panic". A parameter change of a restaking module reaches
// its message server through x/gov: MsgSubmitProposal carrying the module's MsgUpdateParams (authority =
// the gov module account), a Yes vote of a validator's operator account, and the proposal is EXECUTED BY
// x/gov's EndBlocker when the voting period ends. This SDK version runs the proposal's messages there
// without recover(): a panic of the message server is not a failed transaction but a stopped node.
//
// domain `livegov`: for each boundary value of every numeric field of dogfood.Params (absent/nil, zero,
// negative, 1, 2^31, 2^63-1, 2^63, 2^64-1, 2^64, 2^200; unknown epoch identifiers, unknown / empty asset lists)
// one fresh chain, one proposal, executed through the real ABCI path. Observation per run: halt / proposal status /
// the stored MinSelfDelegation afterwards. Monitor C11.halt.

import (
	"fmt"
	"math/big"
	"strings"
	"time"

	sdkmath "cosmossdk.io/math"
	sdk "github.com/cosmos/cosmos-sdk/types"
	govv1 "github.com/cosmos/cosmos-sdk/x/gov/types/v1"

	dogfoodtypes "github.com/ExocoreNetwork/exocore/x/dogfood/types"
)

func init() { register("livegov", domLiveGov) }

type govParamCase struct {
	name  string
	mut   func(p *dogfoodtypes.Params)
	viaTx bool   // sent as a plain transaction by an ordinary account on a testnet chain id (no authority check there)
	known string // id of the recorded finding this case reproduces on the unchanged code ("" = must not halt)
}

func pow2(n uint) *big.Int { return new(big.Int).Lsh(big.NewInt(1), n) }

func govParamCases() []govParamCase {
	msd := func(name string, v *big.Int) govParamCase {
		return govParamCase{name: "minSelfDelegation=" + name, mut: func(p *dogfoodtypes.Params) {
			if v == nil {
				p.MinSelfDelegation = sdkmath.Int{}
			} else {
				p.MinSelfDelegation = sdkmath.NewIntFromBigInt(v)
			}
		}}
	}
	sub1 := func(x *big.Int) *big.Int { return new(big.Int).Sub(x, big.NewInt(1)) }
	known := func(id string, viaTx bool, c govParamCase) govParamCase {
		c.known, c.viaTx = id, viaTx
		if viaTx {
			c.name = "tx:" + c.name
		}
		return c
	}
	return []govParamCase{
		// quick tier: the first `cases` entries
		msd("-1", big.NewInt(-1)),
		msd("absent", nil),
		known("F-11i", false, msd("2^64", pow2(64))),
		known("F-11j", false, msd("2^63", pow2(63))),
		known("F-11j", true, msd("2^63", pow2(63))),
		msd("2^63-1", sub1(pow2(63))),
		known("", true, msd("-1", big.NewInt(-1))),
		msd("5", big.NewInt(5)),
		msd("-2^70", new(big.Int).Neg(pow2(70))),
		msd("0", big.NewInt(0)),
		known("F-11j", false, msd("2^64-1", sub1(pow2(64)))),
		known("F-11i", false, msd("2^200", pow2(200))),
		known("F-11i", true, msd("2^64", pow2(64))),
		{name: "all-zero-fields", mut: func(p *dogfoodtypes.Params) { *p = dogfoodtypes.Params{} }},
		{name: "epochIdentifier=unknown", mut: func(p *dogfoodtypes.Params) { p.EpochIdentifier = "fortnight" }},
		{name: "assetIDs=unknown", mut: func(p *dogfoodtypes.Params) { p.AssetIDs = []string{"0x0000000000000000000000000000000000000009_0x65"} }},
		{name: "maxValidators=2^32-1,epochsUntilUnbonded=2^32-1", mut: func(p *dogfoodtypes.Params) { p.MaxValidators, p.EpochsUntilUnbonded = 1<<32-1, 1<<32-1 }},
		{name: "historicalEntries=2^32-1", mut: func(p *dogfoodtypes.Params) { p.HistoricalEntries = 1<<32 - 1 }},
	}
}

// govProposalMsgs submits a proposal carrying msgs with the minimum deposit through a real DeliverTx.
func govProposalMsgs(c *Chain, msgs []sdk.Msg) (id uint64, note string, halt string) {
	gp := c.App.GovKeeper.GetParams(c.Ctx)
	dep := sdk.NewCoins(gp.MinDeposit...)
	msg, err := govv1.NewMsgSubmitProposal(msgs, dep, c.Funded.Acc.String(), "", "title", "summary")
	if err != nil {
		return 0, "msg: " + err.Error(), ""
	}
	bz, err := signedTx(c, c.Funded, 3000000, msg)
	if err != nil {
		return 0, "sign: " + err.Error(), ""
	}
	r, h := c.DeliverRaw(bz)
	if h != "" {
		return 0, "DeliverTx itself panicked", h
	}
	note = fmt.Sprintf("submit code=%d", r.Code)
	if r.Code != 0 {
		return 0, note + " log=" + tailStr(r.Log, 200), ""
	}
	id, _ = c.App.GovKeeper.GetProposalID(c.Ctx)
	return id - 1, note, ""
}

func govParamsRun(env *Env, seed uint64, gc govParamCase, chainID string) {
	cfg := DefaultCfg(seed)
	if chainID != "" {
		cfg.ChainID = chainID
	}
	if gc.viaTx {
		cfg.ChainID = "exocoretestnet_233-1"
	}
	op := fmt.Sprintf("livegov.reset seed=%d chain=%s", seed, cfg.ChainID)
	hist := []string{op}
	env.Op(op, "ok")
	c := NewChainFresh(cfg)
	authority := c.App.GovKeeper.GetGovernanceAccount(c.Ctx).GetAddress().String()
	params := c.App.StakingKeeper.GetDogfoodParams(c.Ctx)
	before := params.MinSelfDelegation.String()
	gc.mut(&params)
	if gc.viaTx {
		hist = append(hist, "livegov.delivertx dogfood.MsgUpdateParams{authority=the sender, an ordinary funded account; params: current params with "+strings.TrimPrefix(gc.name, "tx:")+"} (testnet chain id: no authority check)",
			"livegov.blocks (5, 7 h apart: across an end of the dogfood epoch)")
	} else {
		hist = append(hist, "livegov.delivertx gov.MsgSubmitProposal[dogfood.MsgUpdateParams{authority=gov module account, params: current params with "+gc.name+"}] with the minimum deposit",
			"livegov.delivertx gov.MsgVote yes by operator[0] (validator, power 101 of 201)", "livegov.blocks until the voting period ends: x/gov's EndBlocker executes the proposal")
	}
	res := func(obs string) {
		env.Op("livegov.run "+gc.name, obs)
		env.Report.Histories++
		env.DistinctKey(gc.name + "|" + strings.SplitN(obs, " ", 2)[0])
		env.Outcome("livegov." + strings.SplitN(obs, " ", 2)[0])
	}
	halted := func(h, where string) {
		// a recorded finding is recognised by BOTH the submitted value class and the panic it is known for;
		// every other halt (e.g. of a value the code is meant to override) carries the case in its sig
		sig := "halt:update-params:dogfood:" + gc.name + ":" + sigOfHalt(h)
		switch {
		case gc.known == "F-11i" && strings.Contains(h, "Uint64() out of bounds"):
			sig = "F-11i:dogfood-update-params-uint64-panic"
		case gc.known == "F-11j" && strings.Contains(h, "Int64() out of bound"):
			sig = "F-11j:min-self-delegation-above-int64"
		}
		env.Violate("C11.halt", sig, "a dogfood parameter change ("+gc.name+") panicked in "+where+" (a node would stop): "+h, hist)
		res("halt")
	}
	env.Eval("C11.halt")
	if gc.viaTx {
		sender := NewActor(seed, "paramsender", 0)
		if err := xbFund(c, sender.Acc, 50); err != nil {
			env.Note("livegov-fund-failed")
			return
		}
		if br := c.EndAndBegin(5 * time.Second); br.Halt != "" {
			halted(br.Halt, "EndBlock/BeginBlock (before the tx)")
			return
		}
		bz, err := signedTx(c, sender, 3000000, &dogfoodtypes.MsgUpdateParams{Authority: sender.Acc.String(), Params: params})
		if err != nil {
			env.Note("livegov-sign-failed")
			return
		}
		r, h := c.DeliverRaw(bz)
		if h != "" {
			halted(h, "DeliverTx")
			return
		}
		for i := 0; i < 5; i++ { // across an end of the dogfood epoch (day)
			if br := c.EndAndBegin(7 * time.Hour); br.Halt != "" {
				halted(br.Halt, "EndBlock/BeginBlock")
				return
			}
		}
		res(fmt.Sprintf("no-halt code=%d minSelfDelegation %s -> %s", r.Code, before, c.App.StakingKeeper.GetDogfoodParams(c.Ctx).MinSelfDelegation.String()))
		return
	}
	id, note, h := govProposalMsgs(c, []sdk.Msg{&dogfoodtypes.MsgUpdateParams{Authority: authority, Params: params}})
	if h != "" {
		halted(h, "DeliverTx(MsgSubmitProposal)")
		return
	}
	if id == 0 {
		env.Note("livegov-submit-refused:" + gc.name + ":" + note)
		res("not-submitted")
		return
	}
	if _, h := govVote(c, c.Operators[0], id, govv1.OptionYes); h != "" {
		halted(h, "DeliverTx(MsgVote)")
		return
	}
	gp := c.App.GovKeeper.GetParams(c.Ctx)
	step := *gp.VotingPeriod/3 + time.Second
	for i := 0; i < 5; i++ {
		if br := c.EndAndBegin(step); br.Halt != "" {
			halted(br.Halt, "EndBlock/BeginBlock")
			return
		}
	}
	status := "gone"
	if p, found := c.App.GovKeeper.GetProposal(c.Ctx, id); found {
		status = p.Status.String()
	}
	after := c.App.StakingKeeper.GetDogfoodParams(c.Ctx).MinSelfDelegation.String()
	res(fmt.Sprintf("no-halt status=%s minSelfDelegation %s -> %s", status, before, after))
}

func domLiveGov(env *Env) error {
	env.Report.Domain = "livegov"
	seed := env.Report.Seed
	cases := govParamCases()
	n := env.Int("cases", 7)
	if n > len(cases) {
		n = len(cases)
	}
	for i := 0; i < n; i++ {
		chain := ""
		if (uint64(i)+seed)%3 == 2 { // mostly mainnet-style chain ids (the authority check is live there)
			chain = "exocoretestnet_233-1"
		}
		govParamsRun(env, seed*500+uint64(i), cases[i], chain)
	}
	return nil
}
