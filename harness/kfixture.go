package main

// TRANSLATOR FIXTURE — every syntactic form of the GoLite whitelist of tools/exofacts/translate.go.
//
// This file exists twice, byte for byte: tools/exofacts/testdata/fixture.go (read by `exofacts -selftest`
// and by every exofacts run, which translates it to lean/ExoVerif/Generated/Fixture.lean and compares the
// text with testdata/fixture.lean.golden) and harness/kfixture.go (compiled into the harness: the domain
// `kernels` EXECUTES these functions and the Lean side evaluates their translation on the same operands).
// `exofacts -selftest` fails when the two copies differ.
//
// Not part of the model of any property; nothing here is called by the application.

import (
	"errors"
	"fmt"

	errorsmod "cosmossdk.io/errors"
	sdkmath "cosmossdk.io/math"
)

var (
	ErrFxZero     = errors.New("fx: zero divisor")
	ErrFxNegative = errors.New("fx: negative")
	ErrFxNil      = errors.New("fx: nil pointer")
)

// FxClamp: nested if / else-if / else, early returns, `++`, statements after an if that some branches skip.
func FxClamp(x int64, lo int64, hi int64) int64 {
	if lo > hi {
		return 0
	}
	if x < lo {
		return lo
	} else if x >= hi {
		if x == hi {
			return hi
		}
		x = hi + 1
	} else {
		x++
	}
	return x
}

// FxArith: var with and without initialiser, `+=` `-=` `*=` `--`, a bare block, unary minus, `/` and `%`
// (truncated toward zero), integer literal with separators, assignment inside a branch read after it.
func FxArith(a int64, b int64) int64 {
	var acc int64
	var k int64 = 3
	acc += a
	acc -= b
	acc *= k
	{
		t := -acc
		acc = t + 1_000
	}
	if b != 0 {
		acc = acc/b + acc%b
	}
	k--
	return acc + k
}

// FxBool: `!`, `&&`, `||`, `==`/`!=` on bool, comparison operators, parentheses.
func FxBool(a int64, b int64, f bool) bool {
	g := !f && a <= b || a == b+1
	if g != f {
		return g
	}
	return !(a > b) == (a*2 >= b)
}

// FxDecChain: (value, error) results; sentinel, wrapped sentinel and literal errors; method chains on
// LegacyDec / Int; negations; constructor functions.
func FxDecChain(s sdkmath.LegacyDec, t sdkmath.LegacyDec, n sdkmath.Int) (sdkmath.Int, error) {
	if t.IsZero() {
		return sdkmath.ZeroInt(), ErrFxZero
	}
	if s.IsNegative() || n.IsNegative() {
		return sdkmath.ZeroInt(), errorsmod.Wrapf(ErrFxNegative, "s=%s n=%s", s, n)
	}
	r := s.MulInt(n).Quo(t).Neg()
	if r.Neg().GT(sdkmath.LegacyNewDec(1000000)) {
		return sdkmath.ZeroInt(), errors.New("ratio too large")
	}
	if !r.IsZero() && r.Neg().LT(sdkmath.LegacyOneDec()) {
		return sdkmath.ZeroInt(), fmt.Errorf("ratio below one")
	}
	return r.Neg().RoundInt().Add(s.QuoTruncate(t).TruncateInt()), nil
}

// FxShare: LegacyDec results, Mul / MulTruncate / QuoRoundUp / Sub, LegacyMinDec, NewDecFromInt.
func FxShare(total sdkmath.LegacyDec, part sdkmath.Int, whole sdkmath.Int) (sdkmath.LegacyDec, error) {
	if whole.IsZero() {
		if total.IsZero() {
			return sdkmath.LegacyZeroDec(), nil
		}
		return sdkmath.LegacyZeroDec(), ErrFxZero
	}
	frac := sdkmath.LegacyNewDecFromInt(part).QuoRoundUp(sdkmath.LegacyNewDecFromInt(whole))
	capped := sdkmath.LegacyMinDec(frac, sdkmath.LegacyOneDec())
	up := total.Mul(capped)
	down := total.MulTruncate(capped)
	return up.Sub(down).Add(down), nil
}

// FxUpdate: error-only result, mutation through a pointer, pointer nil checks.
func FxUpdate(v *sdkmath.Int, c *sdkmath.Int) error {
	if v == nil || c == nil {
		return ErrFxNil
	}
	if c.IsNegative() {
		if v.LT(c.Neg()) {
			return errorsmod.Wrap(ErrFxNegative, "underflow")
		}
	}
	if !c.IsZero() {
		*v = v.Add(*c)
	}
	return nil
}

// FxRec / FxSink: a record iterated by a callback, as the epochs BeginBlocker does.
type FxRec struct {
	Tag     string
	Start   int64
	Period  int64
	Count   int64
	Opened  int64
	Live    bool
	Balance sdkmath.Int
}

func (r FxRec) Check() error {
	if r.Tag == "" {
		return errors.New("record tag should NOT be empty")
	}
	if r.Period <= 0 {
		return errors.New("record period should NOT be non-positive")
	}
	if r.Count < 0 {
		return ErrFxNegative
	}
	return nil
}

type FxSink struct {
	Now    int64
	Height int64
	Stored []FxRec
	Events []string
	Logged int
}

func (s *FxSink) Hooks() *FxSink        { return s }
func (s *FxSink) Clock() int64          { return s.Now }
func (s *FxSink) OnClose(_ int, tag string, n int64) { s.Events = append(s.Events, fmt.Sprintf("close:%s:%d", tag, n)) }
func (s *FxSink) OnOpen(_ int, tag string, n int64)  { s.Events = append(s.Events, fmt.Sprintf("open:%s:%d", tag, n)) }
func (s *FxSink) store(_ int, r FxRec)  { s.Stored = append(s.Stored, r) }
func (s *FxSink) Error(string, ...any)  { s.Logged++ }
func (s *FxSink) Each(recs []FxRec, f func(i int64, r FxRec) bool) {
	for i, r := range recs {
		if f(int64(i), r) {
			return
		}
	}
}
func fxTrace(string) {}

// Sweep: the closure is the kernel (custom mode: effects, stores, whitelisted if-initialiser, skipped
// logging calls, context calls, struct field reads and writes, `defer` of a no-op).
func (s *FxSink) Sweep(ctx int, recs []FxRec) {
	defer fxTrace("sweep")
	logger := s
	s.Each(recs, func(_ int64, rec FxRec) (stop bool) {
		defer fxTrace("rec")
		if err := rec.Check(); err != nil {
			logger.Error("skipping", "tag", rec.Tag)
			return false
		}
		if s.Clock() < rec.Start {
			return false
		}
		due := rec.Opened + rec.Period
		first := !rec.Live
		ending := s.Clock() > due
		if !(ending || first) {
			return false
		}
		rec.Balance = rec.Balance.Add(sdkmath.NewInt(s.Height))
		if first {
			rec.Live = true
			rec.Count = 1
			rec.Opened = rec.Start
		} else {
			s.Hooks().OnClose(ctx, rec.Tag, rec.Count)
			rec.Count++
			rec.Opened = due
		}
		s.store(ctx, rec)
		s.Hooks().OnOpen(ctx, rec.Tag, rec.Count)
		return false
	})
}
