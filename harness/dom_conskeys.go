package main

// C07 (consensus-key registry) and C16 (epoch-scheduled queues). One domain drives the real
// operator message server (OptIntoAVS / SetConsKey / OptOutOfAVS), the staking interface the
// slashing module uses (Jail / Unjail / ValidatorByConsAddr), real undelegations, parameter
// changes and real blocks (BeginBlock epoch hooks, EndBlock) over several operators and a small
// pool of keys that is reused adversarially. After every operation it prints the five key
// indexes, the validator set, the three per-epoch queues, the pending lists and the hold
// counts for the Lean model `ExoVerif.ConsKeys` to reproduce, and evaluates the predicates of
// C07 / C16 directly on the real state (monitors). The defect F-07a (opt-out before the key is
// active) is replayed as a directed scenario (`f07a=1`); the random generator stays away from
// its trigger.

import (
	"fmt"
	"strings"
	"time"

	sdkmath "cosmossdk.io/math"
	abci "github.com/cometbft/cometbft/abci/types"
	sdk "github.com/cosmos/cosmos-sdk/types"

	dogfoodtypes "github.com/ExocoreNetwork/exocore/x/dogfood/types"
	epochstypes "github.com/ExocoreNetwork/exocore/x/epochs/types"
)

func init() { register("conskeys", domConsKeys) }

// endObserveBegin = Chain.EndAndBegin with a look at the state between EndBlock and Commit.
func endObserveBegin(c *Chain, d time.Duration, observe func(ctx sdk.Context, end abci.ResponseEndBlock)) (res BlockResult) {
	if c.Halted != "" {
		res.Halt = c.Halted
		return
	}
	func() {
		defer recoverTo(&res.Halt, "EndBlock")
		res.End = c.App.EndBlock(abci.RequestEndBlock{Height: c.Header.Height})
	}()
	if res.Halt == "" {
		observe(c.Ctx, res.End)
		func() {
			defer recoverTo(&res.Halt, "Commit")
			res.AppHash = c.App.Commit().Data
		}()
	}
	if res.Halt == "" {
		h := c.Header
		h.Height++
		h.Time = h.Time.Add(d)
		h.AppHash = res.AppHash
		c.Header = h
		func() {
			defer recoverTo(&res.Halt, "BeginBlock")
			res.Begin = c.App.BeginBlock(abci.RequestBeginBlock{Header: h})
		}()
	}
	if res.Halt != "" {
		c.Halted = res.Halt
		return
	}
	c.Ctx = c.App.BaseApp.NewContext(false, c.Header)
	return
}

type ckTrack struct {
	kind  string // optout | prune | undel
	id    int    // operator / key / record id
	owner int    // operator the key must resolve to (prune, optout)
	key   int    // optout: the key being removed
	slot  int64  // epoch at whose end it must be released
}

// viol reports a violation once per (history, sig)
func (w *ckWorld) viol(mon, sig, what string, hist []string) {
	if w.seen == nil {
		w.seen = map[string]bool{}
	}
	if w.seen[sig] {
		return
	}
	w.seen[sig] = true
	w.env.Violate(mon, sig, what, hist)
}

type ckWorld struct {
	seen map[string]bool
	ckEntry // entry point of delegations / undelegations (dom_conskeys_entry.go)
	*World
	env        *Env
	hist       []string
	recs       [][]byte // record id -> record key
	tracks     []ckTrack
	everActive map[int]bool // keys seen in the validator store (dom_conskeys_slash.go)
	slashFP    string       // fingerprint of the last slash-probe round (dom_conskeys_slash.go)
}

func optS(i int) string {
	if i < 0 {
		return "-"
	}
	return fmt.Sprint(i)
}

func (w *ckWorld) recID(key []byte) int {
	for i, r := range w.recs {
		if string(r) == string(key) {
			return i
		}
	}
	return -1
}

func (w *ckWorld) queue(ctx sdk.Context, e int64) (oo, ca, ud []int) {
	if e < 0 {
		return
	}
	sk := w.C.App.StakingKeeper
	for _, a := range sk.GetOptOutsToFinish(ctx, e) {
		oo = append(oo, w.OpID(a))
	}
	for _, a := range sk.GetConsensusAddrsToPrune(ctx, e) {
		ca = append(ca, w.KeyID(a))
	}
	for _, r := range sk.GetUndelegationsToMature(ctx, e) {
		ud = append(ud, w.recID(r))
	}
	return
}

func (w *ckWorld) pending(ctx sdk.Context) (oo, ca, ud []int) {
	sk := w.C.App.StakingKeeper
	for _, a := range sk.GetPendingOptOuts(ctx).List {
		oo = append(oo, w.OpID(a))
	}
	for _, a := range sk.GetPendingConsensusAddrs(ctx).List {
		ca = append(ca, w.KeyID(a))
	}
	for _, r := range sk.GetPendingUndelegations(ctx).List {
		ud = append(ud, w.recID(r))
	}
	return
}

func (w *ckWorld) fwd2(ctx sdk.Context) map[int]int {
	m := map[int]int{}
	ops, keys := w.C.App.OperatorKeeper.GetOperatorsForChainID(ctx, w.C.ChainIDNR)
	for i := range ops {
		m[w.OpID(ops[i])] = w.KeyID(keys[i].ToConsAddr())
	}
	return m
}

func (w *ckWorld) state(ctx sdk.Context) string {
	c := w.C
	sk := c.App.StakingKeeper
	ep := w.DogfoodEpoch(ctx)
	p := sk.GetDogfoodParams(ctx)
	ee := 0
	if sk.IsEpochEnd(ctx) {
		ee = 1
	}
	f2 := w.fwd2(ctx)
	var os []string
	for op := range w.Ops {
		if !w.Reg[op] {
			continue
		}
		k2 := -1
		if v, ok := f2[op]; ok {
			k2 = v
		}
		in, jl := w.OptState(ctx, op)
		fe := sk.GetOperatorOptOutFinishEpoch(ctx, w.Ops[op].Acc)
		fes := "-"
		if fe >= 0 {
			fes = fmt.Sprint(fe)
		}
		b := func(x bool) int {
			if x {
				return 1
			}
			return 0
		}
		os = append(os, fmt.Sprintf("%d:%s:%s:%s:%d:%d:%d:%s", op, optS(w.CurKey(ctx, op)), optS(k2), optS(w.PrevKey(ctx, op)),
			b(w.Removing(ctx, op)), b(in), b(jl), fes))
	}
	var rs []string
	for k := range w.Keys {
		if o := w.RevOp(ctx, k); o >= 0 {
			// third field: the jail status the slashing / evidence modules are given for this
			// consensus address (impl_sdk.go: IsValidatorJailed -> IsOperatorJailedForChainID)
			j := 0
			if sk.IsValidatorJailed(ctx, w.Keys[k].ToConsAddr()) {
				j = 1
			}
			rs = append(rs, fmt.Sprintf("%d:%d:%d", k, o, j))
		}
	}
	var qs []string
	for e := ep - 2; e < ep+6; e++ {
		oo, ca, ud := w.queue(ctx, e)
		if len(oo)+len(ca)+len(ud) > 0 {
			qs = append(qs, fmt.Sprintf("%d:%s/%s/%s", e, fmtInts(oo), fmtInts(ca), fmtInts(ud)))
		}
	}
	po, pc, pu := w.pending(ctx)
	var hs []string
	for i, r := range w.recs {
		me, ok := sk.GetUndelegationMaturityEpoch(ctx, r)
		ms := "-"
		if ok {
			ms = fmt.Sprint(me)
		}
		hs = append(hs, fmt.Sprintf("%d:%d:%s", i, c.App.DelegationKeeper.GetUndelegationHoldCount(ctx, r), ms))
	}
	return fmt.Sprintf("E=%d,%d,%d|O=%s|R=%s|V=%s|Q=%s|P=%s/%s/%s|H=%s", ep, p.EpochsUntilUnbonded, ee, strings.Join(os, ";"),
		strings.Join(rs, ","), fmtIntMap(w.ValSet(ctx)), strings.Join(qs, ";"), fmtInts(po), fmtInts(pc), fmtInts(pu), strings.Join(hs, ","))
}

func (w *ckWorld) emit(op, out string) {
	w.env.Op(op, out+"|"+w.state(w.C.Ctx))
	w.hist = append(w.hist, op)
}

func has(xs []int, x int) bool {
	for _, y := range xs {
		if x == y {
			return true
		}
	}
	return false
}

// monitors evaluated on the real state after every operation. phase: "tx" (inside a block),
// "begin" (right after a BeginBlock that closed an epoch), "end" (after EndBlock, before Commit)
func (w *ckWorld) monitors(ctx sdk.Context, phase string, pfx string) {
	env := w.env
	c := w.C
	sk := c.App.StakingKeeper
	ep := w.DogfoodEpoch(ctx)
	// ---- C07: the three indexes agree, current keys map back, no key has two operators
	env.Eval("C07.indexes")
	f2 := w.fwd2(ctx)
	owner := map[int]int{}
	for op := range w.Ops {
		if !w.Reg[op] {
			continue
		}
		k := w.CurKey(ctx, op)
		k2, ok2 := f2[op]
		if !ok2 {
			k2 = -1
		}
		if k != k2 {
			w.viol("C07.indexes", pfx+"forward-indexes-differ", fmt.Sprintf("operator %d: operator->key says %d, chain->operator->key says %d", op, k, k2), w.hist)
		}
		if k < 0 {
			continue
		}
		if o, dup := owner[k]; dup {
			w.viol("C07.indexes", pfx+"key-shared", fmt.Sprintf("key %d is the current key of operators %d and %d", k, o, op), w.hist)
		}
		owner[k] = op
		if r := w.RevOp(ctx, k); r != op {
			sig := "current-key-unresolvable"
			if w.Removing(ctx, op) && sk.GetOperatorOptOutFinishEpoch(ctx, w.Ops[op].Acc) < 0 {
				sig = "removing-key-unresolvable-no-finish-epoch"
			}
			w.viol("C07.indexes", pfx+sig, fmt.Sprintf("operator %d has key %d but the reverse index maps the key to %d", op, k, r), w.hist)
		}
	}
	// ---- C07: every active validator is resolvable (slashable / jailable)
	env.Eval("C07.slashable")
	for k := range w.ValSet(ctx) {
		if k < 0 {
			continue
		}
		if w.RevOp(ctx, k) < 0 || sk.ValidatorByConsAddr(ctx, w.Keys[k].ToConsAddr()) == nil {
			w.viol("C07.slashable", pfx+"valset-unresolvable", fmt.Sprintf("validator key %d cannot be resolved to an operator", k), w.hist)
		}
	}
	// ---- C07: a resolvable address reports its operator's jail status (current, replaced and
	// removing keys alike): that is what "can still be slashed and jailed" rests on - the slashing
	// module skips a jailed validator's signatures, does not slash / jail it twice for downtime
	// and only unjails what is reported as jailed
	w.jailViewMonitor(ctx, pfx)
	// ---- C07 + C16: tracked entries (a key that left the set stays resolvable until its slot
	// ends and is pruned then; queue entries sit in their slot, move to pending in the closing
	// block, and are gone afterwards)
	po, pc, pu := w.pending(ctx)
	keep := w.tracks[:0]
	for _, t := range w.tracks {
		oo, ca, ud := w.queue(ctx, t.slot)
		inQ, inP := false, false
		switch t.kind {
		case "optout":
			inQ, inP = has(oo, t.id), has(po, t.id)
		case "prune":
			inQ, inP = has(ca, t.id), has(pc, t.id)
		case "undel":
			inQ, inP = has(ud, t.id), has(pu, t.id)
		}
		env.Eval("C16.timing")
		released := ep > t.slot && !(ep == t.slot+1 && sk.IsEpochEnd(ctx)) // the block closing `slot` has ended
		closing := ep == t.slot+1 && sk.IsEpochEnd(ctx)
		switch {
		case !released && !closing:
			if !inQ {
				w.viol("C16.timing", pfx+"left-queue-early", fmt.Sprintf("%s %d registered for epoch %d is not in that queue during epoch %d", t.kind, t.id, t.slot, ep), w.hist)
				continue
			}
			if inP {
				w.viol("C16.timing", pfx+"pending-early", fmt.Sprintf("%s %d pending before epoch %d ended", t.kind, t.id, t.slot), w.hist)
			}
			if t.kind != "undel" && w.RevOp(ctx, t.key) != t.owner {
				w.viol("C07.slashable", pfx+"pruned-early", fmt.Sprintf("key %d (operator %d) not resolvable during epoch %d, must stay until epoch %d ends", t.key, t.owner, ep, t.slot), w.hist)
			}
			if t.kind == "undel" && c.App.DelegationKeeper.GetUndelegationHoldCount(ctx, w.recs[t.id]) != 1 {
				w.viol("C16.timing", pfx+"hold-lost", fmt.Sprintf("undelegation %d hold count is not 1 before its release", t.id), w.hist)
			}
			keep = append(keep, t)
		case closing:
			if !inP || inQ {
				w.viol("C16.timing", pfx+"not-pending-in-closing-block", fmt.Sprintf("%s %d: epoch %d just ended, inQueue=%v pending=%v", t.kind, t.id, t.slot, inQ, inP), w.hist)
			}
			keep = append(keep, t)
		default: // released: nothing may mention it, and the effect must be applied
			if inQ || inP {
				w.viol("C16.timing", pfx+"left-behind", fmt.Sprintf("%s %d still queued after epoch %d ended", t.kind, t.id, t.slot), w.hist)
			}
			switch t.kind {
			case "undel":
				_, hasM := sk.GetUndelegationMaturityEpoch(ctx, w.recs[t.id])
				if c.App.DelegationKeeper.GetUndelegationHoldCount(ctx, w.recs[t.id]) != 0 || hasM {
					w.viol("C16.timing", pfx+"not-released", fmt.Sprintf("undelegation %d still held after epoch %d ended", t.id, t.slot), w.hist)
				}
			case "prune":
				if w.RevOp(ctx, t.key) == t.owner && w.CurKey(ctx, t.owner) != t.key {
					w.viol("C07.slashable", pfx+"not-pruned", fmt.Sprintf("replaced key %d still resolves after epoch %d ended", t.key, t.slot), w.hist)
				}
			case "optout":
				if w.Removing(ctx, t.id) || (w.RevOp(ctx, t.key) == t.id && w.CurKey(ctx, t.id) != t.key) {
					w.viol("C16.timing", pfx+"optout-not-completed", fmt.Sprintf("operator %d still removing / key %d still resolves after epoch %d ended", t.id, t.key, t.slot), w.hist)
				}
			}
		}
	}
	w.tracks = keep
	// ---- C16: requests that came through the delegation precompile stay pending and held (dom_conskeys_entry.go)
	w.entryWatch(ctx)
	// ---- C16: nothing is left behind in a slot whose epoch has ended; pending lists are empty
	// outside the closing block
	env.Eval("C16.drain")
	last := ep - 1
	if sk.IsEpochEnd(ctx) {
		last = ep - 2 // the slot of the epoch that just ended has been moved, older ones must be empty too
	}
	for e := int64(0); e <= last; e++ {
		oo, ca, ud := w.queue(ctx, e)
		if len(oo)+len(ca)+len(ud) > 0 {
			w.viol("C16.drain", pfx+"stale-queue", fmt.Sprintf("queue of ended epoch %d not empty: %v/%v/%v (current epoch %d)", e, oo, ca, ud, ep), w.hist)
		}
	}
	if !sk.IsEpochEnd(ctx) && len(po)+len(pc)+len(pu) > 0 {
		w.viol("C16.drain", pfx+"pending-not-cleared", fmt.Sprintf("pending lists %v/%v/%v outside an epoch-closing block", po, pc, pu), w.hist)
	}
	// ---- C07: slash / jail probes by consensus address (dom_conskeys_slash.go)
	w.slashMonitors(ctx, phase, pfx)
}

// ---- operations (each: real call, op line for the model, tracking for the monitors)

func (w *ckWorld) selfOK(op int) bool {
	c := w.C
	v, err := c.App.OperatorKeeper.GetOrCalculateOperatorUSDValues(c.Ctx, w.Ops[op].Acc, c.AVSAddr)
	if err != nil {
		return false
	}
	m, err := c.App.AVSManagerKeeper.GetAVSMinimumSelfDelegation(c.Ctx, c.AVSAddr)
	return err == nil && !v.SelfUSDValue.LT(m)
}

func (w *ckWorld) doOptIn(op, key int, pfx string) string {
	ok := 0
	if w.selfOK(op) {
		ok = 1
	}
	wasRemoving := w.Removing(w.C.Ctx, op)
	inUse := w.RevOp(w.C.Ctx, key) >= 0
	out := errClass(w.OptIn(op, key))
	w.env.Eval("C07.guards")
	if out == "ok" && wasRemoving {
		w.viol("C07.guards", pfx+"set-while-removing", fmt.Sprintf("operator %d opted in with a key while removing its key", op), w.hist)
	}
	if out == "ok" && inUse {
		w.viol("C07.guards", pfx+"used-key-accepted", fmt.Sprintf("key %d accepted although it is still mapped to an operator", key), w.hist)
	}
	w.emit(fmt.Sprintf("ck.optin %d %d %d", op, key, ok), out)
	return out
}

func (w *ckWorld) doSetKey(op, key int, pfx string) string {
	ctx := w.C.Ctx
	old := w.CurKey(ctx, op)
	oldActive := w.InValSet(ctx, old)
	hadPrev := w.PrevKey(ctx, op) >= 0
	wasRemoving := w.Removing(ctx, op)
	inUse := w.RevOp(ctx, key) >= 0
	slot := w.DogfoodEpoch(ctx) + int64(w.C.App.StakingKeeper.GetDogfoodParams(ctx).EpochsUntilUnbonded)
	out := errClass(w.SetKey(op, key))
	w.env.Eval("C07.guards")
	if out == "ok" && wasRemoving {
		w.viol("C07.guards", pfx+"set-while-removing", fmt.Sprintf("operator %d set a key while removing its key", op), w.hist)
	}
	if out == "ok" && inUse && old != key {
		w.viol("C07.guards", pfx+"used-key-accepted", fmt.Sprintf("key %d accepted although it is still mapped to an operator", key), w.hist)
	}
	if out == "ok" && old >= 0 && old != key && oldActive && !hadPrev {
		w.tracks = append(w.tracks, ckTrack{kind: "prune", id: old, owner: op, key: old, slot: slot})
	}
	w.emit(fmt.Sprintf("ck.setkey %d %d", op, key), out)
	return out
}

func (w *ckWorld) doOptOut(op int) string {
	ctx := w.C.Ctx
	cur := w.CurKey(ctx, op)
	// scheduled when the current key, or the key it replaced during this epoch, is validating
	active := w.InValSet(ctx, cur) || w.InValSet(ctx, w.PrevKey(ctx, op))
	slot := w.DogfoodEpoch(ctx) + int64(w.C.App.StakingKeeper.GetDogfoodParams(ctx).EpochsUntilUnbonded)
	out := errClass(w.OptOut(op))
	if out == "ok" && active {
		w.tracks = append(w.tracks, ckTrack{kind: "optout", id: op, owner: op, key: cur, slot: slot})
	}
	if out == "ok" && !active {
		w.env.Eval("C07.guards")
		if w.Removing(w.C.Ctx, op) || w.CurKey(w.C.Ctx, op) >= 0 {
			w.viol("C07.guards", "inactive-optout-not-completed", fmt.Sprintf("operator %d opted out with no validating key but is still removing=%v / has key %d", op, w.Removing(w.C.Ctx, op), w.CurKey(w.C.Ctx, op)), w.hist)
		}
	}
	w.emit(fmt.Sprintf("ck.optout %d", op), out)
	return out
}

func (w *ckWorld) doUndelegate(op int, amt int64, pfx string) string {
	c := w.C
	ctx := c.Ctx
	removing := w.Removing(ctx, op)
	fin := c.App.StakingKeeper.GetOperatorOptOutFinishEpoch(ctx, w.Ops[op].Acc)
	isVal := w.InValSet(ctx, w.CurKey(ctx, op)) || w.InValSet(ctx, w.PrevKey(ctx, op))
	slot := w.DogfoodEpoch(ctx) + int64(c.App.StakingKeeper.GetDogfoodParams(ctx).EpochsUntilUnbonded)
	key, via, err := w.undelegateVia(w.Ops[op].Eth, op, sdkmath.NewInt(amt))
	out := errClass(err)
	w.env.Outcome("entry:undelegate.via-" + via + "=" + out)
	if out != "ok" && out != "panic" {
		w.hist = append(w.hist, fmt.Sprintf("# undelegate op=%d via=%s rejected by x/delegation", op, via))
		return out
	}
	rec := len(w.recs)
	if out == "ok" {
		w.recs = append(w.recs, key)
		w.recVia = append(w.recVia, via)
	}
	w.env.Eval("C16.hold")
	if out == "panic" {
		sig := "undelegate-panic"
		if removing && fin < 0 {
			sig = "undelegate-panic-removing-no-finish-epoch"
			if po, _, _ := w.pending(ctx); has(po, op) {
				sig = "undelegate-panic-in-optout-closing-block"
			}
		}
		w.viol("C16.hold", pfx+sig, fmt.Sprintf("undelegation from operator %d panicked: %v", op, err), w.hist)
	} else {
		hc := c.App.DelegationKeeper.GetUndelegationHoldCount(c.Ctx, key)
		me, hasM := c.App.StakingKeeper.GetUndelegationMaturityEpoch(c.Ctx, key)
		switch {
		case removing && fin < 0:
			// the finish epoch has been consumed: only legitimate in the block that closes it
			// (operator pending); the unbonding period is over, nothing is held
			po, _, _ := w.pending(ctx)
			if !has(po, op) {
				w.viol("C16.hold", pfx+"removing-without-finish-epoch", fmt.Sprintf("operator %d is removing its key, has no finish epoch and is not pending", op), w.hist)
			}
			if hc != 0 || hasM {
				w.viol("C16.hold", pfx+"held-after-optout-finished", fmt.Sprintf("undelegation from operator %d in the block finishing its opt-out is held (hold=%d)", op, hc), w.hist)
			}
		case removing:
			w.entryJudge(rec, op, via, "optout", fin, hc, me, hasM)
			if hc != 1 || !hasM || me != fin {
				w.viol("C16.hold", pfx+"optout-maturity", fmt.Sprintf("undelegation from opting-out operator %d: hold=%d maturity=%d(%v), opt-out finishes at %d", op, hc, me, hasM, fin), w.hist)
			} else {
				w.tracks = append(w.tracks, ckTrack{kind: "undel", id: rec, slot: fin})
			}
		case !isVal:
			if hc != 0 || hasM {
				w.viol("C16.hold", pfx+"held-but-not-validator", fmt.Sprintf("undelegation from operator %d (keys not in the validator set) is held", op), w.hist)
			}
		default:
			w.entryJudge(rec, op, via, "validator", slot, hc, me, hasM)
			if hc != 1 || !hasM || me != slot {
				w.viol("C16.hold", pfx+"not-held", fmt.Sprintf("undelegation from validating operator %d: hold=%d maturity=%d(%v) want epoch %d", op, hc, me, hasM, slot), w.hist)
			} else {
				w.tracks = append(w.tracks, ckTrack{kind: "undel", id: rec, slot: slot})
			}
		}
	}
	w.emit(fmt.Sprintf("ck.undel %d %d %s", op, rec, via), out)
	return out
}

// block: EndBlock (observed before Commit), then BeginBlock after d; returns false on halt
func (w *ckWorld) doBlock(d time.Duration, pfx string) bool {
	c := w.C
	sk := c.App.StakingKeeper
	maxVals := sk.GetMaxValidators(c.Ctx)
	// powers as EndBlock will read them (UpdateVotingPower ran in this block's BeginBlock)
	var pws []string
	for op := range w.Ops {
		if !w.Reg[op] {
			continue
		}
		if v, err := c.App.OperatorKeeper.GetOperatorOptedUSDValue(c.Ctx, c.AVSAddr, w.Ops[op].Acc.String()); err == nil {
			pws = append(pws, fmt.Sprintf("%d:%d", op, v.ActiveUSDValue.TruncateInt64()))
		}
	}
	ps := strings.Join(pws, ",")
	if ps == "" {
		ps = "-"
	}
	prevEpoch := w.DogfoodEpoch(c.Ctx)
	r := endObserveBegin(c, d, func(ctx sdk.Context, _ abci.ResponseEndBlock) {
		w.env.Op(fmt.Sprintf("ck.end %d %s", maxVals, ps), "ok|"+w.state(ctx))
		w.hist = append(w.hist, fmt.Sprintf("ck.end %d %s", maxVals, ps))
		w.monitors(ctx, "end", pfx)
	})
	if r.Halt != "" {
		w.viol("C07.halt", pfx+"halt", "block processing panicked: "+r.Halt, w.hist)
		return false
	}
	if now := w.DogfoodEpoch(c.Ctx); now != prevEpoch {
		w.env.Eval("C16.clock")
		if now != prevEpoch+1 || !sk.IsEpochEnd(c.Ctx) {
			w.viol("C16.clock", pfx+"epoch-jump", fmt.Sprintf("dogfood epoch went %d -> %d, epoch-end marker %v", prevEpoch, now, sk.IsEpochEnd(c.Ctx)), w.hist)
		}
		w.emit(fmt.Sprintf("ck.begin %d", prevEpoch), "ok")
		w.monitors(c.Ctx, "begin", pfx)
	} else if sk.IsEpochEnd(c.Ctx) {
		w.viol("C16.clock", pfx+"marker-without-epoch-end", "epoch-end marker set although the epoch number did not change", w.hist)
	}
	return true
}

func newCkWorld(env *Env, cfg ChainCfg, nOps, nKeys int) *ckWorld {
	w := &ckWorld{World: NewWorld(cfg, nOps, nKeys), env: env}
	c := w.C
	env.Op("ck.reset", "ok")
	w.hist = append(w.hist, "ck.reset")
	op := fmt.Sprintf("ck.init %d %d %d %d", len(w.Ops), len(w.Keys), w.DogfoodEpoch(c.Ctx), cfg.EpochsUntilUnbonded)
	env.Op(op, "ok")
	w.hist = append(w.hist, op)
	vs := w.ValSet(c.Ctx)
	for i := range w.Ops {
		if !w.Reg[i] {
			continue
		}
		k := w.CurKey(c.Ctx, i)
		op := fmt.Sprintf("ck.gen %d %d %d", i, k, vs[k])
		env.Op(op, "ok")
		w.hist = append(w.hist, op)
	}
	w.emit(fmt.Sprintf("ck.total %s", c.App.StakingKeeper.GetLastTotalPower(c.Ctx).String()), "ok")
	return w
}

func (w *ckWorld) doRegister(op int, fund int64) {
	if w.Reg[op] {
		return
	}
	if err := w.Register(op); err != nil {
		return
	}
	w.emit(fmt.Sprintf("ck.register %d", op), "ok")
	if fund > 0 {
		via, err := w.fundVia(w.Ops[op].Eth, op, sdkmath.NewInt(fund), true)
		w.env.Outcome("entry:fund.via-" + via + "=" + errClass(err))
		w.hist = append(w.hist, fmt.Sprintf("# fund op=%d amount=%d (deposit, self-delegation, association) via=%s: %s", op, fund, via, errClass(err)))
	}
}

func domConsKeys(env *Env) error {
	n := env.Int("histories", 30)
	maxSteps := env.Int("steps", 60)
	rng := NewRNG(env.Report.Seed)
	env.Report.Domain = "conskeys"
	histEntriesBoundary(env, "C07.halt") // dom_conskeys_gate.go
	if env.Int("gate", 0) == 1 {
		scenarioF07c(env)
		scenarioF07d(env)
	}
	if env.Int("f07a", 0) == 1 {
		scenarioF07a(env)
	}
	if env.Int("f16a", 0) == 1 {
		scenarioF16a(env)
	}
	if env.Int("oldkeyslash", 0) == 1 {
		scenarioOldKeySlash(env)
	}
	scenarioJailCycle(env)
	scenarioF16b(env) // dom_conskeys_entry.go
	for hi := 0; hi < n; hi++ {
		cfg := DefaultCfg(env.Report.Seed*1000 + uint64(hi))
		nGen := rng.Range(1, 3)
		cfg.NOperators = nGen
		cfg.Powers = nil
		for i := 0; i < nGen; i++ {
			cfg.Powers = append(cfg.Powers, int64(rng.Range(100, 300)))
		}
		cfg.EpochID = []string{epochstypes.MinuteEpochID, epochstypes.HourEpochID}[rng.Intn(2)]
		cfg.EpochsUntilUnbonded = uint32(rng.Range(1, 3))
		cfg.MaxValidators = uint32(8)
		if rng.Chance(1, 4) {
			cfg.MaxValidators = uint32(nGen)
		}
		cfg.MinSelfDelegation = 1
		nOps := rng.Range(2, 5)
		if nOps < nGen {
			nOps = nGen
		}
		w := newCkWorld(env, cfg, nOps, rng.Range(3, 6))
		c := w.C
		for op := range w.Ops {
			if rng.Chance(3, 4) {
				w.doRegister(op, int64(rng.Range(2, 200))*1_000_000)
			}
		}
		steps := rng.Range(15, maxSteps)
		epochs, interesting := 0, 0
		for st := 0; st < steps; st++ {
			op := rng.Intn(len(w.Ops))
			key := rng.Intn(len(w.Keys))
			if !w.Reg[op] && rng.Chance(3, 4) {
				w.doRegister(op, int64(rng.Range(0, 200))*1_000_000)
				continue
			}
			switch rng.Pick(5, 6, 4, 3, 4, 1, 8) {
			case 0:
				env.Outcome("optin=" + w.doOptIn(op, key, ""))
			case 1:
				env.Outcome("setkey=" + w.doSetKey(op, key, ""))
			case 2: // opt out (also before the key is active, also right after a key replacement)
				if w.Reg[op] {
					if in, _ := w.OptState(c.Ctx, op); in && !w.InValSet(c.Ctx, w.CurKey(c.Ctx, op)) {
						env.Outcome("optout:key-not-active") // F-07a's trigger, part of the random stream since the fix
					}
				}
				oo := w.doOptOut(op)
				env.Outcome("optout=" + oo)
				// every other scheduled opt-out is followed by a LOWER EpochsUntilUnbonded and an
				// undelegation from that operator: it must still mature with the opt-out (finish
				// epoch fixed at opt-out time), not at current epoch + the new, smaller N
				if curN := c.App.StakingKeeper.GetDogfoodParams(c.Ctx).EpochsUntilUnbonded; oo == "ok" && w.Removing(c.Ctx, op) && curN > 1 && rng.Bool() {
					nn := uint32(rng.Range(1, int(curN)-1))
					w.SetDogfoodParams(func(p *dogfoodtypes.Params) { p.EpochsUntilUnbonded = nn })
					w.emit(fmt.Sprintf("ck.param %d", nn), "ok")
					if rng.Bool() && !w.doBlock(time.Duration(1+rng.Intn(5))*time.Second, "") {
						st = steps
						break
					}
					env.Outcome("optout-then-lower-N-then-undelegate=" + w.doUndelegate(op, 1, ""))
				}
			case 3: // jail / unjail by consensus address (any key: current, replaced, unknown)
				b := 0
				if rng.Bool() {
					b = 1
				}
				if b == 0 && rng.Bool() { // the way an operator gets out: MsgUnjail of x/slashing
					uo := op
					if o := w.RevOp(c.Ctx, key); o >= 0 && rng.Chance(3, 4) {
						uo = o
					}
					env.Outcome("unjailmsg=" + w.doUnjailMsg(uo))
					break
				}
				if b == 1 {
					c.App.StakingKeeper.Jail(c.Ctx, w.Keys[key].ToConsAddr())
				} else {
					c.App.StakingKeeper.Unjail(c.Ctx, w.Keys[key].ToConsAddr())
				}
				w.emit(fmt.Sprintf("ck.jail %d %d", key, b), "ok")
				env.Outcome(fmt.Sprintf("jail=%d", b))
			case 4:
				if !w.Reg[op] {
					continue
				}
				if w.Removing(c.Ctx, op) && c.App.StakingKeeper.GetOperatorOptOutFinishEpoch(c.Ctx, w.Ops[op].Acc) < 0 {
					env.Outcome("undelegate:in-optout-closing-block") // F-16a's trigger, part of the random stream since the fix
				}
				env.Outcome("undelegate=" + w.doUndelegate(op, []int64{1, 1, 1_000_000, 3_000_000}[rng.Intn(4)], ""))
			case 5:
				nn := uint32(rng.Range(1, 3))
				w.SetDogfoodParams(func(p *dogfoodtypes.Params) { p.EpochsUntilUnbonded = nn })
				w.emit(fmt.Sprintf("ck.param %d", nn), "ok")
				env.Outcome("param")
			case 6:
				d := time.Duration(1+rng.Intn(5)) * time.Second
				switch rng.Pick(3, 5, 1) {
				case 1:
					d += w.EpochDur
				case 2: // downtime spanning several epochs: the clock catches up one epoch per block
					d += time.Duration(rng.Range(2, 4)) * w.EpochDur
				}
				before := w.DogfoodEpoch(c.Ctx)
				if !w.doBlock(d, "") {
					st = steps
					break
				}
				if w.DogfoodEpoch(c.Ctx) != before {
					epochs++
				}
			}
			w.monitors(c.Ctx, "tx", "")
		}
		// let everything mature: run past every slot
		for i := 0; i < 5 && c.Halted == ""; i++ {
			if !w.doBlock(w.EpochDur+time.Second, "") {
				break
			}
			w.monitors(c.Ctx, "tx", "")
		}
		interesting = len(w.recs)
		env.Report.Histories++
		if epochs > 0 {
			env.DistinctKey(fmt.Sprintf("h%d-%d-%d-%d", hi, steps, epochs, interesting))
		}
		if hi < 2 {
			env.Sample(strings.Join(w.hist[:min(len(w.hist), 18)], " ; "))
		}
		env.Outcome(fmt.Sprintf("history:epochs>0=%v", epochs > 0))
	}
	return nil
}

// scenarioF07a replays, on the real code, the defect recorded as F-07a / F-03c: an operator
// opts in with a key and opts out again before the key became active.
func scenarioF07a(env *Env) {
	cfg := DefaultCfg(env.Report.Seed*1000 + 999)
	cfg.EpochID = epochstypes.MinuteEpochID
	cfg.EpochsUntilUnbonded = 2
	cfg.MinSelfDelegation = 1
	w := newCkWorld(env, cfg, 4, 5)
	c := w.C
	const pfx = "F-07a:"
	var x, y int = -1, -1
	for op := range w.Ops {
		if !w.Reg[op] {
			if x < 0 {
				x = op
			} else if y < 0 {
				y = op
			}
		}
	}
	w.doRegister(x, 150_000_000)
	w.doRegister(y, 150_000_000)
	free := -1
	for k := range w.Keys {
		if w.RevOp(c.Ctx, k) < 0 {
			free = k
			break
		}
	}
	w.doOptIn(x, free, pfx)
	w.doOptOut(x) // key not active yet: not-in-set branch of AfterOperatorKeyRemovalInitiated
	w.monitors(c.Ctx, "tx", pfx)
	w.doOptIn(y, free, pfx) // another operator takes the same key: accepted
	w.monitors(c.Ctx, "tx", pfx)
	w.doUndelegate(x, 1, pfx) // panics: finish epoch -1
	for i := 0; i < 4; i++ { // well past the unbonding period
		if !w.doBlock(w.EpochDur+time.Second, pfx) {
			break
		}
	}
	env.Eval("C07.guards")
	if w.Removing(c.Ctx, x) {
		w.viol("C07.guards", pfx+"stuck-removing", fmt.Sprintf("operator %d is still marked as removing its key %d epochs after opting out; it can never set a key again", x, 4), w.hist)
	}
	w.doOptIn(x, free+1, pfx)
	w.monitors(c.Ctx, "tx", pfx)
	// second shape: a validating operator replaces its key and opts out in the same epoch. the
	// old key validates until the epoch ends and must stay resolvable (slashable) for the whole
	// unbonding period, undelegations must be held until the opt-out finishes.
	g := -1
	for op := range w.Ops {
		if w.InValSet(c.Ctx, w.CurKey(c.Ctx, op)) && !w.Removing(c.Ctx, op) {
			g = op
			break
		}
	}
	fresh := -1
	for k := range w.Keys {
		if w.RevOp(c.Ctx, k) < 0 {
			fresh = k
		}
	}
	if g >= 0 && fresh >= 0 {
		w.doSetKey(g, fresh, pfx)
		w.doOptOut(g)
		w.monitors(c.Ctx, "tx", pfx)
		w.doUndelegate(g, 1, pfx)
		for i := 0; i < 4; i++ {
			if !w.doBlock(w.EpochDur+time.Second, pfx) {
				break
			}
			w.monitors(c.Ctx, "tx", pfx)
		}
		env.Eval("C07.guards")
		if w.Removing(c.Ctx, g) {
			w.viol("C07.guards", pfx+"stuck-removing", fmt.Sprintf("operator %d (key replaced and opted out in one epoch) is still removing after the unbonding period", g), w.hist)
		}
	}
	env.Report.Histories++
	env.Outcome("scenario-f07a")
}

// scenarioF16a: a regular opt-out (key active) registered at epoch e with N epochs of unbonding;
// in the block whose BeginBlock ends epoch e+N the finish epoch has already been deleted by
// AfterEpochEnd while the removal marker is still set (EndBlock has not run yet): an
// undelegation submitted in that block computes epoch -1 and panics instead of maturing with
// the opt-out.
func scenarioF16a(env *Env) {
	cfg := DefaultCfg(env.Report.Seed*1000 + 998)
	cfg.EpochID = epochstypes.MinuteEpochID
	cfg.EpochsUntilUnbonded = 1
	cfg.MinSelfDelegation = 1
	w := newCkWorld(env, cfg, 2, 3)
	c := w.C
	const pfx = "F-16a:"
	op := 0
	slot := w.DogfoodEpoch(c.Ctx) + 1
	w.doOptOut(op) // genesis validator: key active, finish epoch stored
	w.doUndelegate(op, 1, pfx) // fine: matures with the opt-out
	for w.DogfoodEpoch(c.Ctx) <= slot && c.Halted == "" {
		if !w.doBlock(w.EpochDur+time.Second, pfx) {
			return
		}
		w.monitors(c.Ctx, "tx", pfx)
	}
	// now in the block that closed epoch `slot`, before its EndBlock
	w.doUndelegate(op, 1, pfx)
	w.doBlock(time.Second, pfx)
	w.monitors(c.Ctx, "tx", pfx)
	w.doUndelegate(op, 1, pfx) // one block later the same request is accepted (and not held)
	env.Report.Histories++
	env.Outcome("scenario-f16a")
}
