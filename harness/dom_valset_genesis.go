package main

// C06 at InitChain: the validator list the dogfood module returns to the consensus engine from
// InitGenesis goes through the same ApplyValidatorChanges as the epoch-end updates ("never adds a key
// with zero power, never removes an unknown key; the stored validator set, the stored total power and
// what consensus was told always agree"). Directed scenario: a genesis document whose val_set lists a
// validator with power 0 (admitted by GenesisState.Validate when min_self_delegation is 0: the only
// per-validator check is power >= min_self_delegation). The unchanged code drops the entry (`case
// false` / power 0 of ApplyValidatorChanges: "received update for non-existent validator"); handing it
// on would store a validator without voting power and tell CometBFT to remove a key it never had (it
// refuses a genesis validator set with a zero-power member: the node does not start).

import (
	"encoding/json"
	"fmt"
	"time"

	sdkmath "cosmossdk.io/math"

	keytypes "github.com/ExocoreNetwork/exocore/types/keys"
	dogfoodtypes "github.com/ExocoreNetwork/exocore/x/dogfood/types"
	epochstypes "github.com/ExocoreNetwork/exocore/x/epochs/types"
)

func scenarioGenesisZeroPower(env *Env) {
	cfg := DefaultCfg(env.Report.Seed*1000 + 994)
	cfg.NOperators = 3
	cfg.Powers = []int64{101, 100, 150}
	cfg.EpochID = epochstypes.MinuteEpochID
	cfg.MinSelfDelegation = 0
	validated := "not validated"
	cfg.Mutate = func(c *Chain, gs map[string]json.RawMessage) {
		var dg dogfoodtypes.GenesisState
		c.App.AppCodec().MustUnmarshalJSON(gs[dogfoodtypes.ModuleName], &dg)
		dg.ValSet[1].Power = 0 // operator 1 keeps its deposits, key and opt-in; only the genesis power is 0
		dg.LastTotalPower = sdkmath.NewInt(251)
		if err := dg.Validate(); err != nil {
			validated = "Validate: " + err.Error()
		} else {
			validated = "passes GenesisState.Validate"
		}
		gs[dogfoodtypes.ModuleName] = c.App.AppCodec().MustMarshalJSON(&dg)
	}
	hist := []string{"# vsgen.reset: genesis val_set = [operator0:101, operator1:0, operator2:150], last_total_power 251, min_self_delegation 0 (" + validated + ")"}
	c, halt := tryNewChain(cfg)
	env.Eval("C06.genesis")
	env.Report.Histories++
	if halt != "" {
		// (InitGenesis may refuse the document: that is an answer too, not a violation)
		env.Outcome("genesis-zero-power:refused")
		return
	}
	hist[0] = "# vsgen.reset: genesis val_set = [operator0:101, operator1:0, operator2:150], last_total_power 251, min_self_delegation 0 (" + validated + ")"
	sk := c.App.StakingKeeper
	k1 := fmt.Sprintf("%x", c.ConsKeys[1].ToConsAddr().Bytes())
	sum := int64(0)
	for _, v := range sk.GetAllExocoreValidators(c.Ctx) {
		sum += v.Power
		if v.Power < 1 {
			env.Violate("C06.agree", "genesis-stored-nonpositive", fmt.Sprintf("InitGenesis stored validator %x with power %d", v.Address, v.Power), hist)
		}
	}
	for _, u := range sk.GetValidatorUpdates(c.Ctx) { // = what InitChain returned to the consensus engine
		ca := fmt.Sprintf("%x", keytypes.NewWrappedConsKeyFromTmProtoKey(&u.PubKey).ToConsAddr().Bytes())
		if u.Power < 1 {
			who := "a key"
			if ca == k1 {
				who = "operator1's key"
			}
			env.Violate("C06.updates", "genesis-zero-power-update", fmt.Sprintf("the validator list InitChain returns contains %s (%s) with power %d: a removal of a key the consensus engine never had", who, ca, u.Power), hist)
		}
	}
	env.Outcome(fmt.Sprintf("genesis-zero-power:stored-sum=%d,total=%s", sum, sk.GetLastTotalPower(c.Ctx)))
	// the first epoch end repairs the total (operator1 has 100 USD of stake and joins with power 100)
	for i := 0; i < 3; i++ {
		r := c.EndAndBegin(time.Minute + time.Second)
		hist = append(hist, "# vsgen.block +1m1s")
		if r.Halt != "" {
			env.Violate("C06.halt", "halt", "block processing panicked: "+r.Halt, hist)
			return
		}
		for _, u := range r.End.ValidatorUpdates {
			if u.Power < 0 {
				env.Violate("C06.updates", "negative-power", "negative power after a zero-power genesis validator", hist)
			}
		}
	}
	total := int64(0)
	for _, v := range sk.GetAllExocoreValidators(c.Ctx) {
		total += v.Power
		if v.Power < 1 {
			env.Violate("C06.agree", "stored-nonpositive", "a stored validator has power < 1", hist)
		}
	}
	if !sk.GetLastTotalPower(c.Ctx).Equal(sdkmath.NewInt(total)) {
		env.Violate("C06.agree", "total-mismatch", fmt.Sprintf("LastTotalPower %s but the set sums to %d", sk.GetLastTotalPower(c.Ctx), total), hist)
	}
}
