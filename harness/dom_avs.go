package main

// C20 — AVS registry and task windows. Drives the REAL keepers of the booted app
// (AVSManagerKeeper.UpdateAVSInfo / OperatorOptAction / CreateAVSTask / RegisterBLSPublicKey /
// SetTaskResultInfo / RaiseAndResolveChallenge, OperatorKeeper.OptIn / OptOut) and the real
// BeginBlock (epoch hooks) over seeded histories with real BLS keys (prysm blst), prints the
// canonical result of every call and a canonical dump of the x/avs stores for the Lean model
// (lean/ExoVerif/Model/Avs.lean) to reproduce line by line, and evaluates the clauses of C20
// directly on the real state (monitors) from its own bookkeeping, independently of the model.
//
// op-line vocabulary: `~` = nil, `-` = empty, lists comma separated, byte strings in hex.

import (
	"bytes"
	"encoding/hex"
	"errors"
	"fmt"
	"math/big"
	"sort"
	"strconv"
	"strings"
	"time"

	sdkmath "cosmossdk.io/math"
	"github.com/cosmos/cosmos-sdk/store/prefix"
	sdk "github.com/cosmos/cosmos-sdk/types"
	"github.com/ethereum/go-ethereum/common"
	"github.com/ethereum/go-ethereum/crypto"
	"github.com/prysmaticlabs/prysm/v4/crypto/bls/blst"
	blscommon "github.com/prysmaticlabs/prysm/v4/crypto/bls/common"

	avskeeper "github.com/ExocoreNetwork/exocore/x/avs/keeper"
	avstypes "github.com/ExocoreNetwork/exocore/x/avs/types"
	delegationtypes "github.com/ExocoreNetwork/exocore/x/delegation/types"
	epochstypes "github.com/ExocoreNetwork/exocore/x/epochs/types"
	operatortypes "github.com/ExocoreNetwork/exocore/x/operator/types"
)

func init() { register("avs", domAvs) }

var avsSentinels = []struct {
	name string
	err  error
}{
	{"ErrAlreadyRegistered", avstypes.ErrAlreadyRegistered},
	{"ErrUnregisterNonExistent", avstypes.ErrUnregisterNonExistent},
	{"ErrInvalidAction", avstypes.ErrInvalidAction},
	{"ErrUnbondingPeriod", avstypes.ErrUnbondingPeriod},
	{"ErrEpochNotFound", avstypes.ErrEpochNotFound},
	{"ErrCallerAddressUnauthorized", avstypes.ErrCallerAddressUnauthorized},
	{"ErrAvsNameMismatch", avstypes.ErrAvsNameMismatch},
	{"ErrNotNull", avstypes.ErrNotNull},
	{"ErrHashValue", avstypes.ErrHashValue},
	{"ErrInvalidAddr", avstypes.ErrInvalidAddr},
	{"ErrAlreadyExists", avstypes.ErrAlreadyExists},
	{"ErrTaskIsNotExists", avstypes.ErrTaskIsNotExists},
	{"ErrPubKeyIsNotExists", avstypes.ErrPubKeyIsNotExists},
	{"ErrSigVerifyError", avstypes.ErrSigVerifyError},
	{"ErrParamError", avstypes.ErrParamError},
	{"ErrParamNotEmptyError", avstypes.ErrParamNotEmptyError},
	{"ErrSubmitTooLateError", avstypes.ErrSubmitTooLateError},
	{"ErrResAlreadyExists", avstypes.ErrResAlreadyExists},
	{"ErrInconsistentParams", avstypes.ErrInconsistentParams},
	{"ErrVotingPowerIncorrect", avstypes.ErrVotingPowerIncorrect},
	{"ErrSigNotMatchPubKey", avstypes.ErrSigNotMatchPubKey},
	{"ErrParsePubKey", avstypes.ErrParsePubKey},
	{"ErrInvalidAssetID", avstypes.ErrInvalidAssetID},
	{"ErrSubmitTooSoonError", avstypes.ErrSubmitTooSoonError},
	{"ErrOperatorNotExist", delegationtypes.ErrOperatorNotExist},
	{"ErrAlreadyOptedIn", operatortypes.ErrAlreadyOptedIn},
	{"ErrNotOptedIn", operatortypes.ErrNotOptedIn},
	{"ErrNoSuchAvs", operatortypes.ErrNoSuchAvs},
	{"ErrMinDelegationNotMet", operatortypes.ErrMinDelegationNotMet},
}

func avsCode(err error) string {
	if err == nil {
		return "ok"
	}
	if strings.HasPrefix(err.Error(), "panic:") {
		return "panic"
	}
	for _, s := range avsSentinels {
		if errors.Is(err, s.err) {
			return s.name
		}
	}
	return "rej"
}

func wStr(s string) string {
	if s == "" {
		return "-"
	}
	return s
}

func wBytes(b []byte) string {
	if b == nil {
		return "~"
	}
	if len(b) == 0 {
		return "-"
	}
	return hex.EncodeToString(b)
}

func wList(l []string) string {
	if len(l) == 0 {
		return "-"
	}
	return strings.Join(l, ",")
}

func wOptList(l []string) string {
	if l == nil {
		return "~"
	}
	return wList(l)
}

type avsH struct {
	env  *Env
	c    *Chain
	rng  *RNG
	hist []string

	opAddrs  []string // registered operators (bech32)
	stranger string   // bech32 of an account that is not an operator
	everyone []string // opAddrs + stranger
	accOf    map[string]sdk.AccAddress
	power    map[string]int64 // genesis self-delegation (USD) per operator
	bls      map[string]blscommon.SecretKey
	avsPool  []string
	taskPool []string
	owners   []string
	asset0   string
	bogus    string

	// bookkeeping for the monitors (what was ACCEPTED, as seen through return values)
	taskCount map[string]uint64
	acc1      map[string][]byte // op|taskAddr|id -> signature accepted in phase one
	acc2      map[string][]byte // op|taskAddr|id -> response accepted in phase two
	chal      map[string]bool
	resps     map[string][]byte // the bytes the operator signed in phase one for (op,task)
	contents  map[string]avsContent // what those bytes encode (dom_avs_encodings.go); zero for unparseable bytes
	verified  map[string]bool   // cache of the record monitor's BLS verifications
	legacy    bool              // a record was written straight into the store (directedLegacyNilSig)
	directed  string            // non-empty inside a directed scenario: tag carried by violation sigs
	halted    bool
	nonce     uint64 // undelegation nonces (dom_avs_optin.go)
	nSlash    int    // slash ids
}

func (h *avsH) op(line, obs string) {
	h.env.Op(line, obs)
	h.hist = append(h.hist, line)
}

func (h *avsH) violate(mon, sig, what string) {
	if h.directed != "" {
		sig = h.directed + ":" + sig
	}
	h.env.Violate(mon, sig, what, h.hist)
}

func detBLS(seed uint64, i int) blscommon.SecretKey {
	for j := 0; ; j++ {
		b := detBytes(seed, "bls", i*1000+j)
		b[0] &= 0x3f
		k, err := blst.SecretKeyFromBytes(b)
		if err == nil {
			return k
		}
	}
}

// rkey: the monitors' bookkeeping key of (operator, task). The task contract is identified by its
// ADDRESS, not by the spelling a message used for it (dom_avs_spelling.go): every hex spelling of one
// address maps to one key, so "once per operator and task" and the statistics are judged across spellings.
func rkey(op, taskAddr string, id uint64) string {
	return op + "|" + canonTask(taskAddr) + "|" + strconv.FormatUint(id, 10)
}

// ---------- canonical rendering of the real state

func (h *avsH) showAVS(a *avstypes.AVSInfo) string {
	return fmt.Sprintf("%s;%s;%s;%s;%s;%d;%d;%s;%d", a.AvsAddress, wStr(a.Name), wStr(a.TaskAddr), wList(a.AvsOwnerAddress),
		wList(a.AssetIDs), a.MinSelfDelegation, a.AvsUnbondingPeriod, wStr(a.EpochIdentifier), a.StartingEpoch)
}

func decRaw(d sdkmath.LegacyDec) string {
	if d.IsNil() {
		return "0"
	}
	return d.BigInt().String()
}

func (h *avsH) showTask(t *avstypes.TaskInfo) string {
	pw := "-"
	if t.OperatorActivePower != nil && len(t.OperatorActivePower.OperatorPowerList) > 0 {
		var ps []string
		for _, p := range t.OperatorActivePower.OperatorPowerList {
			ps = append(ps, p.OperatorAddr+"="+decRaw(p.SelfActivePower))
		}
		pw = strings.Join(ps, ",")
	}
	return fmt.Sprintf("%s#%d;%s;%s;%d;%d;%d;%d;%s;%s;%s;%s;%s;%d", t.TaskContractAddress, t.TaskId, wStr(t.Name), wStr(hex.EncodeToString(t.Hash)),
		t.TaskResponsePeriod, t.TaskStatisticalPeriod, t.TaskChallengePeriod, t.StartingEpoch, wList(t.OptInOperators),
		wList(t.SignedOperators), wList(t.NoSignedOperators), pw, decRaw(t.TaskTotalPower), t.ActualThreshold)
}

func showBytesOpt(b []byte) string {
	if len(b) == 0 {
		return "~"
	}
	return hex.EncodeToString(b)
}

func (h *avsH) showRes(r *avstypes.TaskResultInfo) string {
	return fmt.Sprintf("%s/%s#%d;%s;%s;%s;%s", r.OperatorAddress, r.TaskContractAddress, r.TaskId, r.Stage,
		showBytesOpt(r.BlsSignature), showBytesOpt(r.TaskResponse), wStr(r.TaskResponseHash))
}

func (h *avsH) inPool(avs string) bool {
	for _, a := range h.avsPool {
		if a == avs {
			return true
		}
	}
	return false
}

func sortedJoin(m map[string]string) string {
	ks := make([]string, 0, len(m))
	for k := range m {
		ks = append(ks, k)
	}
	sort.Strings(ks)
	vs := make([]string, 0, len(ks))
	for _, k := range ks {
		vs = append(vs, m[k])
	}
	return strings.Join(vs, "|")
}

func (h *avsH) dump() string {
	ctx := h.c.Ctx
	k := &h.c.App.AVSManagerKeeper
	avs := map[string]string{}
	k.IterateAVSInfo(ctx, func(_ int64, a avstypes.AVSInfo) bool {
		if h.inPool(a.AvsAddress) {
			avs[a.AvsAddress] = h.showAVS(&a)
		}
		return false
	})
	tasks := map[string]string{}
	k.IterateTaskAVSInfo(ctx, func(_ int64, t avstypes.TaskInfo) bool {
		tasks[fmt.Sprintf("%s#%d", t.TaskContractAddress, t.TaskId)] = h.showTask(&t)
		return false
	})
	res := map[string]string{}
	k.IterateResultInfo(ctx, func(_ int64, r avstypes.TaskResultInfo) bool {
		res[fmt.Sprintf("%s/%s#%d", r.OperatorAddress, r.TaskContractAddress, r.TaskId)] = h.showRes(&r)
		return false
	})
	key := h.c.App.GetKey(avstypes.StoreKey)
	ch := map[string]string{}
	it := sdk.KVStorePrefixIterator(prefix.NewStore(ctx.KVStore(key), avstypes.KeyPrefixTaskChallengeResult), nil)
	for ; it.Valid(); it.Next() {
		f := strings.Split(string(it.Key()), "/")
		if len(f) == 3 {
			kk := f[0] + "/" + f[1] + "#" + f[2]
			ch[kk] = kk + "=" + sdk.AccAddress(it.Value()).String()
		}
	}
	it.Close()
	num := map[string]string{}
	it = sdk.KVStorePrefixIterator(prefix.NewStore(ctx.KVStore(key), avstypes.KeyPrefixLatestTaskNum), nil)
	for ; it.Valid(); it.Next() {
		a := common.BytesToAddress(it.Key()).String()
		num[a] = fmt.Sprintf("%s=%d", a, sdk.BigEndianToUint64(it.Value()))
	}
	it.Close()
	pk := map[string]string{}
	it = sdk.KVStorePrefixIterator(prefix.NewStore(ctx.KVStore(key), avstypes.KeyPrefixOperatePub), nil)
	for ; it.Valid(); it.Next() {
		var info avstypes.BlsPubKeyInfo
		h.c.App.AppCodec().MustUnmarshal(it.Value(), &info)
		a := sdk.AccAddress(it.Key()).String()
		pk[a] = a + "=" + hex.EncodeToString(info.PubKey)
	}
	it.Close()
	opt := map[string]string{}
	all, _ := h.c.App.OperatorKeeper.GetAllOptedInfo(ctx)
	for _, st := range all {
		f := strings.Split(st.Key, "/")
		if len(f) != 2 || !h.inPool(f[1]) {
			continue
		}
		v := "out"
		if st.OptInfo.OptedOutHeight == operatortypes.DefaultOptedOutHeight {
			v = "in"
		}
		opt[st.Key] = st.Key + "=" + v
	}
	return fmt.Sprintf("AVS[%s] NUM[%s] TASK[%s] RES[%s] CH[%s] PK[%s] OPT[%s]", sortedJoin(avs), sortedJoin(num), sortedJoin(tasks),
		sortedJoin(res), sortedJoin(ch), sortedJoin(pk), sortedJoin(opt))
}

func (h *avsH) epochsLine() string {
	var ps []string
	for _, e := range h.c.App.EpochsKeeper.AllEpochInfos(h.c.Ctx) {
		ps = append(ps, fmt.Sprintf("%s=%d", e.Identifier, e.CurrentEpoch))
	}
	return "avs.epochs " + strings.Join(ps, ",")
}

func (h *avsH) curEpoch(id string) (int64, bool) {
	e, ok := h.c.App.EpochsKeeper.GetEpochInfo(h.c.Ctx, id)
	return e.CurrentEpoch, ok
}

// ---------- monitors on the real registry

func (h *avsH) monRegistry() {
	h.env.Eval("C20.registry")
	byTask := map[string]string{}
	seen := map[string]bool{}
	h.c.App.AVSManagerKeeper.IterateAVSInfo(h.c.Ctx, func(_ int64, a avstypes.AVSInfo) bool {
		la := strings.ToLower(a.AvsAddress)
		if seen[la] {
			h.violate("C20.registry", "avs-addr-shared", "two AVS records for address "+a.AvsAddress)
		}
		seen[la] = true
		if a.TaskAddr != "" {
			lt := strings.ToLower(a.TaskAddr)
			if o, ok := byTask[lt]; ok && o != la {
				h.violate("C20.registry", "task-addr-shared", fmt.Sprintf("task address %s registered to %s and %s", a.TaskAddr, o, la))
			}
			byTask[lt] = la
		}
		return false
	})
}

// ---------- operations

type avsUpd struct {
	action               uint64
	addr, name, taskAddr string
	owners, assets       []string
	unbonding, minSelf   uint64
	epochID, caller      string
}

func (h *avsH) doUpdate(u avsUpd) string {
	p := &avstypes.AVSRegisterOrDeregisterParams{
		AvsName: u.name, AvsAddress: u.addr, MinStakeAmount: 1, TaskAddr: u.taskAddr, SlashContractAddr: "", RewardContractAddr: "",
		AvsOwnerAddress: u.owners, AssetID: u.assets, UnbondingPeriod: u.unbonding, MinSelfDelegation: u.minSelf,
		EpochIdentifier: u.epochID, MinOptInOperators: 0, MinTotalStakeAmount: 0, CallerAddress: u.caller, ChainID: "",
		AvsReward: 0, AvsSlash: 0, Action: u.action,
	}
	err := h.c.CachedDo(func(ctx sdk.Context) error { return h.c.App.AVSManagerKeeper.UpdateAVSInfo(ctx, p) })
	code := avsCode(err)
	rec := "-"
	if info, e := h.c.App.AVSManagerKeeper.GetAVSInfo(h.c.Ctx, u.addr); e == nil {
		rec = h.showAVS(info.Info)
	}
	h.op(fmt.Sprintf("avs.update %d %s %s %s %s %s %d %d %s %s", u.action, u.addr, wStr(u.name), wStr(u.taskAddr), wOptList(u.owners),
		wOptList(u.assets), u.unbonding, u.minSelf, wStr(u.epochID), wStr(u.caller)), code+"|"+rec)
	h.env.Outcome("update." + strconv.FormatUint(u.action, 10) + "." + code)
	h.monRegistry()
	return code
}

func (h *avsH) doOpt(direct bool, action uint64, op, avs string) string {
	acc := h.accOf[op]
	usd := "~"
	h.c.CachedDo(func(ctx sdk.Context) error {
		v, e := h.c.App.OperatorKeeper.GetOrCalculateOperatorUSDValues(ctx, acc, avs)
		if e == nil && !v.SelfUSDValue.IsNil() {
			usd = v.SelfUSDValue.BigInt().String()
		}
		return errors.New("discard")
	})
	// pre-state facts for the monitors, none of them read through x/operator's value code
	var minSelf uint64
	var avsAssets []string
	registered := false
	if info, e := h.c.App.AVSManagerKeeper.GetAVSInfo(h.c.Ctx, avs); e == nil {
		registered = true
		minSelf = info.Info.MinSelfDelegation
		avsAssets = info.Info.AssetIDs
	}
	isOp := h.c.App.OperatorKeeper.IsOperator(h.c.Ctx, acc)
	wasIn := false
	if info, e := h.c.App.OperatorKeeper.GetOptedInfo(h.c.Ctx, op, avs); e == nil && info.OptedOutHeight == operatortypes.DefaultOptedOutHeight {
		wasIn = true
	}
	self, total, priced := h.specUSD(op, avsAssets)
	minRaw := avsMinRaw(minSelf)
	err := h.c.CachedDo(func(ctx sdk.Context) error {
		if direct {
			if action == 1 {
				return h.c.App.OperatorKeeper.OptIn(ctx, acc, avs)
			}
			return h.c.App.OperatorKeeper.OptOut(ctx, acc, avs)
		}
		return h.c.App.AVSManagerKeeper.OperatorOptAction(ctx, &avskeeper.OperatorOptParams{OperatorAddress: op, AvsAddress: avs, Action: action})
	})
	code := avsCode(err)
	st := "none"
	if info, e := h.c.App.OperatorKeeper.GetOptedInfo(h.c.Ctx, op, avs); e == nil {
		st = "out"
		if info.OptedOutHeight == operatortypes.DefaultOptedOutHeight {
			st = "in"
		}
	}
	d := 0
	if direct {
		d = 1
	}
	h.op(fmt.Sprintf("avs.opt %d %d %s %s %s", d, action, op, avs, usd), code+"|"+st)
	h.env.Outcome(fmt.Sprintf("opt.%d.%s", action, code))
	if action == 2 && code == "ok" {
		// monitor: only an operator that is opted in can opt out, and it reads as opted out afterwards
		h.env.Eval("C20.optout")
		if !wasIn {
			h.violate("C20.optout", "optout-not-opted-in", "opt-out accepted although "+op+" is not opted in to "+avs)
		}
		if st == "in" {
			h.violate("C20.optout", "optout-not-recorded", "opt-out returned success but the operator still reads as opted in: "+op+" / "+avs)
		}
	}
	if action != 1 {
		return code
	}
	cls := "min0"
	if minSelf > 0 {
		cls = avsClassify(self, minRaw)
	}
	if registered && isOp && !wasIn {
		h.env.Outcome("optin.self-vs-min." + cls + "." + code)
		if minSelf > 0 && (code == "ok" || code == "ErrMinDelegationNotMet") {
			h.env.DistinctKey(fmt.Sprintf("optin-%s-%d-%s-%s", cls, minSelf, self, code))
		}
	}
	what := fmt.Sprintf("self-delegated value %s (raw 18-dec; total %s) of %s over assets %v, AVS %s minimum %d = raw %s [%s]", self, total, op, avsAssets, avs, minSelf, minRaw, cls)
	if code == "ok" {
		// monitor: an accepted opt-in needs a registered operator, a registered AVS, no current opt-in and a
		// self-delegated value (the property's formula on the pools and the raw oracle prices) >= minimum
		h.env.Eval("C20.optin")
		if !isOp {
			h.violate("C20.optin", "optin-unregistered-operator", "opt-in accepted from "+op+" which is not an operator")
		}
		if !registered {
			h.violate("C20.optin", "optin-unregistered-avs", "opt-in accepted for unregistered AVS "+avs)
		}
		if wasIn {
			h.violate("C20.optin", "optin-twice", "opt-in accepted although "+op+" is already opted in to "+avs)
		}
		if self.Cmp(minRaw) < 0 {
			h.violate("C20.optin", "optin-below-min", "opt-in accepted: "+what)
		}
		if st != "in" {
			h.violate("C20.optin", "optin-not-recorded", "opt-in returned success but the operator does not read as opted in: "+op+" / "+avs)
		}
	} else if code != "panic" {
		// monitor: a refused opt-in although every precondition of the clause holds
		h.env.Eval("C20.optin-refused")
		if isOp && registered && !wasIn && priced && self.Cmp(minRaw) >= 0 {
			h.violate("C20.optin-refused", "optin-refused-eligible", "opt-in refused ("+code+") for a registered operator that is not opted in: "+what)
		}
		if st == "in" && !wasIn {
			h.violate("C20.optin-refused", "optin-refused-but-recorded", "opt-in returned "+code+" but the operator now reads as opted in: "+op+" / "+avs)
		}
	}
	// the value the keeper bases its decision on is the formula's value (C05 clause, evaluated at opt-in time)
	if registered && isOp && !wasIn && priced && usd != "~" {
		h.env.Eval("C20.optin-value")
		if usd != self.String() {
			h.violate("C20.optin-value", "optin-self-value-formula", fmt.Sprintf("GetOrCalculateOperatorUSDValues reports self value %s, formula on pools and prices gives %s (%s / %s)", usd, self, op, avs))
		}
	}
	return code
}

type avsTaskP struct {
	taskAddr, caller, name string
	hash                   []byte
	resp, stat, chal       uint64
	givenID                uint64
}

func (h *avsH) doTask(t avsTaskP) string {
	powerOk := 0
	a := h.c.App.AVSManagerKeeper.GetAVSInfoByTaskAddress(h.c.Ctx, t.taskAddr)
	if a.AvsAddress != "" {
		if v, e := h.c.App.OperatorKeeper.GetAVSUSDValue(h.c.Ctx, a.AvsAddress); e == nil && v.IsPositive() {
			powerOk = 1
		}
	}
	p := &avskeeper.TaskInfoParams{TaskContractAddress: t.taskAddr, TaskName: t.name, Hash: t.hash, TaskID: t.givenID,
		TaskResponsePeriod: t.resp, TaskStatisticalPeriod: t.stat, TaskChallengePeriod: t.chal, ThresholdPercentage: 60, CallerAddress: t.caller}
	err := h.c.CachedDo(func(ctx sdk.Context) error { return h.c.App.AVSManagerKeeper.CreateAVSTask(ctx, p) })
	code := avsCode(err)
	rec := "-"
	if code == "ok" {
		if ti, e := h.c.App.AVSManagerKeeper.GetTaskInfo(h.c.Ctx, strconv.FormatUint(p.TaskID, 10), t.taskAddr); e == nil {
			rec = h.showTask(ti)
		}
		// monitor: identifiers per task contract are 1,2,3,…
		h.env.Eval("C20.taskid")
		h.taskCount[t.taskAddr]++
		if p.TaskID != h.taskCount[t.taskAddr] {
			h.violate("C20.taskid", "taskid-sequence", fmt.Sprintf("task #%d of %s got id %d", h.taskCount[t.taskAddr], t.taskAddr, p.TaskID))
		}
		if a.AvsAddress == "" {
			h.violate("C20.taskid", "task-without-avs", "task created for a task address that no AVS registered: "+t.taskAddr)
		}
	}
	h.op(fmt.Sprintf("avs.task %s %s %s %s %d %d %d %d %d", wStr(t.taskAddr), wStr(t.caller), wStr(t.name), wStr(hex.EncodeToString(t.hash)),
		t.resp, t.stat, t.chal, t.givenID, powerOk), code+"|"+rec)
	h.env.Outcome("task." + code)
	return code
}

func (h *avsH) doBLS(op string, variant int) string {
	sk := h.bls[op]
	pub := sk.PublicKey().Marshal()
	msg := crypto.Keccak256([]byte("register:" + op))
	sig := sk.Sign(msg).Marshal()
	switch variant {
	case 1: // signature over another message
		sig = sk.Sign(crypto.Keccak256([]byte("other"))).Marshal()
	case 2: // signature by another key
		sig = h.bls[h.everyone[(indexOf(h.everyone, op)+1)%len(h.everyone)]].Sign(msg).Marshal()
	case 3: // not a signature
		sig = []byte{1, 2, 3}
	}
	regOk := 0
	if pk, e := blst.PublicKeyFromBytes(pub); e == nil {
		if ok, e2 := blst.VerifySignature(sig, [32]byte(msg), pk); e2 == nil && ok {
			regOk = 1
		}
	}
	err := h.c.CachedDo(func(ctx sdk.Context) error {
		return h.c.App.AVSManagerKeeper.RegisterBLSPublicKey(ctx, &avskeeper.BlsParams{Operator: op, Name: "k", PubKey: pub,
			PubkeyRegistrationSignature: sig, PubkeyRegistrationMessageHash: msg})
	})
	code := avsCode(err)
	h.op(fmt.Sprintf("avs.bls %s %s %d", op, hex.EncodeToString(pub), regOk), code)
	h.env.Outcome("bls." + code)
	return code
}

func indexOf(l []string, x string) int {
	for i, y := range l {
		if y == x {
			return i
		}
	}
	return 0
}

type avsSub struct {
	viaMsg             bool // always through the MsgSubmitTaskResult surface (re-spelled task addresses)
	from, op, taskAddr string
	id                 uint64
	stage              string
	sig, resp          []byte
	hash               string
}

func (h *avsH) hasKey(op string) ([]byte, bool) {
	info, err := h.c.App.AVSManagerKeeper.GetOperatorPubKey(h.c.Ctx, op)
	if err != nil || info.PubKey == nil {
		return nil, false
	}
	return info.PubKey, true
}

func (h *avsH) doSubmit(s avsSub) string {
	digest := crypto.Keccak256Hash(s.resp)
	respID := "~"
	if r, e := avstypes.UnmarshalTaskResponse(s.resp); e == nil {
		respID = strconv.FormatUint(r.TaskID, 10)
	}
	blsOk := 0
	pkParses := false
	pkBytes, hasPk := h.hasKey(s.op)
	if hasPk {
		if pk, e := blst.PublicKeyFromBytes(pkBytes); e == nil {
			pkParses = true
			if ok, e2 := blst.VerifySignature(s.sig, digest, pk); e2 == nil && ok {
				blsOk = 1
			}
		}
	}
	// pre-state facts for the monitors
	task, terr := h.c.App.AVSManagerKeeper.GetTaskInfo(h.c.Ctx, strconv.FormatUint(s.id, 10), s.taskAddr)
	var cur int64
	var curOk bool
	if terr == nil {
		a := h.c.App.AVSManagerKeeper.GetAVSInfoByTaskAddress(h.c.Ctx, s.taskAddr)
		cur, curOk = h.curEpoch(a.EpochIdentifier)
	}
	isOp := false
	if acc, ok := h.accOf[s.op]; ok {
		isOp = h.c.App.OperatorKeeper.IsOperator(h.c.Ctx, acc)
	}
	stored := h.c.App.AVSManagerKeeper.IsExistTaskResultInfo(h.c.Ctx, s.op, s.taskAddr, s.id)
	info := &avstypes.TaskResultInfo{OperatorAddress: s.op, TaskResponseHash: s.hash, TaskResponse: s.resp, BlsSignature: s.sig,
		TaskContractAddress: s.taskAddr, TaskId: s.id, Stage: s.stage}
	viaMsg := h.rng.Chance(1, 3) // the MsgSubmitTaskResult surface (msg_server.go) instead of the bare keeper call
	if s.viaMsg {
		viaMsg = true
	}
	// the task this submission is about, found by ADDRESS in the real task store (not through GetTaskInfo and
	// not by the spelling of the message): what the accept-side clauses are judged against
	byAddr, byAddrOk := h.findTask(s.taskAddr, s.id)
	spell := spellingOf(s.taskAddr)
	err := h.c.CachedDo(func(ctx sdk.Context) error {
		if viaMsg {
			_, e := avskeeper.NewMsgServerImpl(h.c.App.AVSManagerKeeper).SubmitTaskResult(sdk.WrapSDKContext(ctx),
				&avstypes.SubmitTaskResultReq{FromAddress: s.from, Info: info})
			return e
		}
		return h.c.App.AVSManagerKeeper.SetTaskResultInfo(ctx, s.from, info)
	})
	if viaMsg {
		h.env.Note("submit.via-msg-server")
	}
	code := avsCode(err)
	rec := "-"
	if r, e := h.c.App.AVSManagerKeeper.GetTaskResultInfo(h.c.Ctx, s.op, s.taskAddr, s.id); e == nil {
		rec = h.showRes(r)
	}
	h.op(fmt.Sprintf("avs.submit %s %s %s %d %s %s %s %s %s %d %s", s.from, s.op, wStr(s.taskAddr), s.id, wStr(s.stage), wBytes(s.sig), wBytes(s.resp),
		wStr(s.hash), respID, blsOk, digest.String()), code+"|"+rec)
	h.env.Outcome("submit." + s.stage + "." + code)
	if spell != "eip55" && spell != "not-hex" {
		h.env.Outcome("submit.spelling." + spell + "." + s.stage + "." + code)
		if byAddrOk {
			h.env.DistinctKey(fmt.Sprintf("spelling-%s-%s-%s", spell, s.stage, code))
		}
	}
	k := rkey(s.op, s.taskAddr, s.id)
	if s.stage == avstypes.TwoPhaseCommitTwo && s.resp != nil {
		// which byte-level class of response reached which decision (dom_avs_encodings.go)
		cls := avsEncName(s.resp)
		h.env.Outcome("submit.2." + cls + "." + code)
		if _, did1 := h.acc1[k]; did1 && cls == "non-canonical" && (code == "ok" || code == "ErrSigVerifyError") {
			h.env.DistinctKey(fmt.Sprintf("reveal-%x-%d-%s", crypto.Keccak256(s.resp)[:6], blsOk, code))
		}
	}
	if code != "ok" {
		pre := avsSubPre{isOp: isOp, hasPk: hasPk, pkParses: pkParses, taskOk: terr == nil, curOk: curOk, stored: stored,
			cur: cur, respID: respID, blsOk: blsOk}
		if terr == nil {
			pre.end1 = int64(task.StartingEpoch) + int64(task.TaskResponsePeriod)
			pre.end2 = pre.end1 + int64(task.TaskStatisticalPeriod)
		}
		h.monSubmitRefused(s, pre, code)
		return code
	}
	bad := func(sig, what string) { h.violate("C20.submit", sig, what+" ["+k+" stage "+s.stage+"]") }
	h.env.Eval("C20.submit")
	if s.from != s.op || !isOp {
		bad("submit-unregistered-operator", "result accepted from an address that is not the registered operator")
	}
	if !hasPk {
		bad("submit-no-bls-key", "result accepted from an operator without a registered BLS key")
	}
	if !byAddrOk {
		bad("submit-no-task", "result accepted for a task that does not exist")
		return code
	}
	if s.taskAddr != byAddr.TaskContractAddress {
		// not a violation by itself (an implementation may canonicalise what it stores): the once-only clause,
		// the stored-results monitor and the statistics monitor below are keyed by address and decide
		h.env.Note("submit.accepted-under-other-spelling." + spell)
	}
	if terr != nil || !curOk {
		// judge the windows on the task found by address
		task = &byAddr
		a := h.c.App.AVSManagerKeeper.GetAVSInfoByTaskAddress(h.c.Ctx, byAddr.TaskContractAddress)
		cur, curOk = h.curEpoch(a.EpochIdentifier)
		if !curOk {
			bad("submit-no-task", "result accepted for a task whose AVS has no epoch")
			return code
		}
	}
	end1 := int64(task.StartingEpoch) + int64(task.TaskResponsePeriod)
	end2 := end1 + int64(task.TaskStatisticalPeriod)
	switch s.stage {
	case avstypes.TwoPhaseCommitOne:
		if cur > end1 {
			bad("phase1-late", fmt.Sprintf("phase one accepted at epoch %d, response period ended with epoch %d", cur, end1))
		}
		if _, dup := h.acc1[k]; dup {
			bad("phase1-twice", "phase one accepted twice")
		}
		if len(s.sig) == 0 {
			bad("phase1-empty-signature", "phase one accepted with an empty signature")
		}
		h.acc1[k] = append([]byte{}, s.sig...)
	case avstypes.TwoPhaseCommitTwo:
		if cur <= end1 || cur > end2 {
			bad("phase2-window", fmt.Sprintf("phase two accepted at epoch %d, statistical period is (%d, %d]", cur, end1, end2))
		}
		s1, ok := h.acc1[k]
		if !ok || !bytes.Equal(s1, s.sig) {
			bad("phase2-signature", "phase two accepted without the phase-one signature")
		}
		if respID != strconv.FormatUint(s.id, 10) {
			bad("phase2-taskid", "phase two accepted with a response for task id "+respID)
		}
		if blsOk != 1 {
			bad("phase2-bls", "phase two accepted although the BLS signature does not verify")
		}
		h.acc2[k] = append([]byte{}, s.resp...)
	default:
		bad("submit-stage", "result accepted with stage "+s.stage)
	}
	return code
}

type avsChal struct {
	taskAddr string
	id       uint64
	op       string
	taskHash []byte
	respHash []byte
	caller   string
}

func abiDigest(resp []byte) []byte {
	r, err := avstypes.UnmarshalTaskResponse(resp)
	if err != nil || r.NumberSum == nil {
		return nil
	}
	packed, err := avstypes.Args.Pack(&r)
	if err != nil {
		return nil
	}
	return crypto.Keccak256(packed)
}

// abiPackPanics: types.GetTaskResponseDigestEncodeByAbi (the same go-ethereum packer on the same value) panics
func abiPackPanics(resp []byte) (p bool) {
	r, err := avstypes.UnmarshalTaskResponse(resp)
	if err != nil {
		return false
	}
	defer func() {
		if recover() != nil {
			p = true
		}
	}()
	_, _ = avstypes.Args.Pack(&r)
	return false
}

func (h *avsH) doChallenge(ch avsChal) string {
	k := rkey(ch.op, ch.taskAddr, ch.id)
	abiOk := 0
	if r, ok := h.acc2[k]; ok {
		if d := abiDigest(r); d != nil && hex.EncodeToString(d) == hex.EncodeToString(ch.respHash) {
			abiOk = 1
		}
		if abiPackPanics(r) { // Args.Pack dereferences the nil NumberSum of an absent / null answer
			abiOk = 2
		}
	}
	callerOk := 0
	if _, e := sdk.AccAddressFromBech32(ch.caller); e == nil {
		callerOk = 1
	}
	task, terr := h.c.App.AVSManagerKeeper.GetTaskInfo(h.c.Ctx, strconv.FormatUint(ch.id, 10), ch.taskAddr)
	var cur int64
	if terr == nil {
		a := h.c.App.AVSManagerKeeper.GetAVSInfoByTaskAddress(h.c.Ctx, ch.taskAddr)
		cur, _ = h.curEpoch(a.EpochIdentifier)
	}
	p := &avskeeper.ChallengeParams{TaskContractAddress: common.HexToAddress(ch.taskAddr), TaskHash: ch.taskHash, TaskID: ch.id,
		OperatorAddress: h.accOf[ch.op], TaskResponseHash: ch.respHash, CallerAddress: ch.caller}
	err := h.c.CachedDo(func(ctx sdk.Context) error { return h.c.App.AVSManagerKeeper.RaiseAndResolveChallenge(ctx, p) })
	code := avsCode(err)
	if code == "panic" {
		h.env.Note("challenge." + strings.SplitN(err.Error(), " goroutine", 2)[0])
	}
	exists := h.c.App.AVSManagerKeeper.IsExistTaskChallengedInfo(h.c.Ctx, ch.op, ch.taskAddr, ch.id)
	ex := "0"
	if exists {
		ex = "1"
	}
	h.op(fmt.Sprintf("avs.challenge %s %d %s %s %d %d %s", wStr(ch.taskAddr), ch.id, ch.op, wStr(hex.EncodeToString(ch.taskHash)), abiOk, callerOk, wStr(ch.caller)), code+"|"+ex)
	h.env.Outcome("challenge." + code)
	if code == "ok" {
		h.env.Eval("C20.challenge")
		bad := func(sig, what string) { h.violate("C20.challenge", sig, what+" ["+k+"]") }
		if terr != nil {
			bad("challenge-no-task", "challenge accepted for a task that does not exist")
			return code
		}
		lo := int64(task.StartingEpoch) + int64(task.TaskResponsePeriod) + int64(task.TaskStatisticalPeriod)
		hi := lo + int64(task.TaskChallengePeriod)
		if !exists {
			bad("challenge-accepted-no-record", fmt.Sprintf("challenge returned success at epoch %d (challenge period (%d, %d]) but no challenge was recorded", cur, lo, hi))
		}
		if cur <= lo || cur > hi {
			bad("challenge-window", fmt.Sprintf("challenge accepted at epoch %d, challenge period is (%d, %d]", cur, lo, hi))
		}
		if h.chal[k] {
			bad("challenge-twice", "challenge accepted twice for the same operator and task")
		}
		if exists {
			h.chal[k] = true
		}
	}
	return code
}

// block: EndBlock+Commit+BeginBlock; the epoch hooks of every identifier whose epoch ended run inside.
func (h *avsH) doBlock(d time.Duration) {
	prev := h.c.App.EpochsKeeper.AllEpochInfos(h.c.Ctx)
	bt := h.c.Header.Time.Add(d)
	var ends []string
	type endT struct {
		id string
		n  int64
	}
	var endL []endT
	for _, e := range prev {
		if e.EpochCountingStarted && !bt.Before(e.StartTime) && bt.After(e.CurrentEpochStartTime.Add(e.Duration)) {
			ends = append(ends, fmt.Sprintf("%s:%d", e.Identifier, e.CurrentEpoch))
			endL = append(endL, endT{e.Identifier, e.CurrentEpoch})
		}
	}
	// which tasks are due, from the pre-state (for the statistics monitor)
	type dueT struct {
		task avstypes.TaskInfo
		avs  string
	}
	var due []dueT
	h.c.App.AVSManagerKeeper.IterateTaskAVSInfo(h.c.Ctx, func(_ int64, t avstypes.TaskInfo) bool {
		a := h.c.App.AVSManagerKeeper.GetAVSInfoByTaskAddress(h.c.Ctx, t.TaskContractAddress)
		for _, e := range endL {
			if a.AvsAddress != "" && a.EpochIdentifier == e.id && e.n == int64(t.StartingEpoch)+int64(t.TaskResponsePeriod)+int64(t.TaskStatisticalPeriod) {
				due = append(due, dueT{t, a.AvsAddress})
			}
		}
		return false
	})
	r := h.c.EndAndBegin(d)
	if r.Halt != "" {
		h.halted = true
		h.op(fmt.Sprintf("avs.block %s - - -", wList(ends)), "HALT")
		h.env.Outcome("block.HALT")
		h.violate("C20.halt", "halt", "block processing panicked: "+r.Halt)
		return
	}
	// cross-check the predicted epoch ends with the emitted events
	var evEnds []string
	for _, ev := range epochEvents(r.Begin.Events) {
		if strings.HasPrefix(ev, "E:") {
			evEnds = append(evEnds, strings.TrimPrefix(ev, "E:"))
		}
	}
	if strings.Join(evEnds, ",") != strings.Join(ends, ",") {
		h.violate("C20.harness", "epoch-prediction", fmt.Sprintf("predicted epoch ends %v, events %v", ends, evEnds))
	}
	var avsPw, opPw []string
	if len(ends) > 0 {
		h.c.App.AVSManagerKeeper.IterateAVSInfo(h.c.Ctx, func(_ int64, a avstypes.AVSInfo) bool {
			if !h.inPool(a.AvsAddress) {
				return false
			}
			if v, e := h.c.App.OperatorKeeper.GetAVSUSDValue(h.c.Ctx, a.AvsAddress); e == nil {
				avsPw = append(avsPw, a.AvsAddress+"="+decRaw(v))
			}
			for _, o := range h.everyone {
				if v, e := h.c.App.OperatorKeeper.GetOperatorOptedUSDValue(h.c.Ctx, a.AvsAddress, o); e == nil && !v.ActiveUSDValue.IsZero() {
					opPw = append(opPw, a.AvsAddress+"/"+o+"="+decRaw(v.ActiveUSDValue))
				}
			}
			return false
		})
	}
	var eps []string
	for _, e := range h.c.App.EpochsKeeper.AllEpochInfos(h.c.Ctx) {
		eps = append(eps, fmt.Sprintf("%s=%d", e.Identifier, e.CurrentEpoch))
	}
	h.op(fmt.Sprintf("avs.block %s %s %s %s", wList(ends), wList(avsPw), wList(opPw), strings.Join(eps, ",")), "ok")
	h.env.Outcome(fmt.Sprintf("block.ends=%d", len(ends)))
	// monitor: statistics of every due task reflect exactly the accepted results
	for _, dt := range due {
		t := dt.task
		var signers []string
		for _, o := range h.everyone {
			if s1, ok := h.acc1[rkey(o, t.TaskContractAddress, t.TaskId)]; ok && len(s1) > 0 {
				signers = append(signers, o)
			}
		}
		sort.Strings(signers)
		if len(signers) == 0 {
			continue // nothing accepted: the hook does not touch the task
		}
		h.env.Eval("C20.stats")
		now, err := h.c.App.AVSManagerKeeper.GetTaskInfo(h.c.Ctx, strconv.FormatUint(t.TaskId, 10), t.TaskContractAddress)
		if err != nil {
			h.violate("C20.stats", "stats-task-lost", "task disappeared")
			continue
		}
		tag := fmt.Sprintf(" [%s#%d]", t.TaskContractAddress, t.TaskId)
		if strings.Join(now.SignedOperators, ",") != strings.Join(signers, ",") {
			h.violate("C20.stats", "stats-signers", fmt.Sprintf("signed operators %v, accepted results from %v%s", now.SignedOperators, signers, tag))
		}
		var non []string
		for _, o := range t.OptInOperators {
			if indexIn(signers, o) < 0 {
				non = append(non, o)
			}
		}
		sort.Strings(non)
		if strings.Join(now.NoSignedOperators, ",") != strings.Join(non, ",") {
			sig := "stats-nonsigners"
			for _, o := range now.NoSignedOperators {
				if indexIn(signers, o) >= 0 {
					sig = "stats-signer-in-nonsigners"
				}
			}
			h.violate("C20.stats", sig, fmt.Sprintf("non-signers %v, expected opted-in minus signers = %v%s", now.NoSignedOperators, non, tag))
		}
		sum := sdkmath.LegacyZeroDec()
		for _, o := range signers {
			if v, e := h.c.App.OperatorKeeper.GetOperatorOptedUSDValue(h.c.Ctx, dt.avs, o); e == nil {
				sum = sum.Add(v.ActiveUSDValue)
			}
		}
		got := sdkmath.LegacyZeroDec()
		n := 0
		if now.OperatorActivePower != nil {
			for _, p := range now.OperatorActivePower.OperatorPowerList {
				got = got.Add(p.SelfActivePower)
				n++
			}
		}
		if n != len(signers) || !got.Equal(sum) {
			h.violate("C20.stats", "stats-power", fmt.Sprintf("recorded power of signers %s over %d entries, expected %s over %d%s", got, n, sum, len(signers), tag))
		}
		if tot, e := h.c.App.OperatorKeeper.GetAVSUSDValue(h.c.Ctx, dt.avs); e == nil && !tot.Equal(now.TaskTotalPower) {
			h.violate("C20.stats", "stats-total", fmt.Sprintf("task total power %s, AVS voting power %s%s", now.TaskTotalPower, tot, tag))
		}
	}
}

func indexIn(l []string, x string) int {
	for i, y := range l {
		if y == x {
			return i
		}
	}
	return -1
}

func (h *avsH) dumpOp() {
	if h.halted {
		return
	}
	h.op("avs.dump", h.dump())
	h.monResults()
}

// ---------- history set-up

func (h *avsH) start(env *Env, seed uint64, nOps int, rng *RNG) {
	cfg := DefaultCfg(seed)
	cfg.NOperators = nOps
	pw := []int64{101, 100, 50, 7, 1000}
	cfg.Powers = pw[:nOps]
	h.env = env
	h.rng = rng
	// three assets: 6 decimals at price 1 (genesis stake), 8 decimals at a large non-trivial price,
	// 18 decimals at a price of exactly or about 1 USD (finest value granularity: 10^-18 USD and below)
	p1 := new(big.Int).Add(rng.BigBelow(pow10(13)), big.NewInt(1)).String()
	p2, pd2 := "1", int32(0)
	switch rng.Intn(4) {
	case 0:
		p2, pd2 = pow10(8).String(), 8
	case 1:
		pd2 = int32([]int{6, 8, 18}[rng.Intn(3)])
		p2 = new(big.Int).Add(new(big.Int).Div(pow10(int(pd2)), big.NewInt(2)), rng.BigBelow(pow10(int(pd2)))).String()
	}
	cfg.Assets = append(cfg.Assets,
		AssetSpec{Addr: "0x2260FAC5E5542a773Aa44fBCfeDf7C193bc2C599", Decimals: 8, Price: p1, PriceDec: 8},
		AssetSpec{Addr: "0x6B175474E89094C44Da98b954EedeAC495271d0F", Decimals: 18, Price: p2, PriceDec: pd2})
	h.c = NewChain(cfg)
	h.nonce, h.nSlash = 0, 0
	h.hist = nil
	h.accOf = map[string]sdk.AccAddress{}
	h.power = map[string]int64{}
	h.bls = map[string]blscommon.SecretKey{}
	h.opAddrs = nil
	for i, o := range h.c.Operators {
		a := o.Acc.String()
		h.opAddrs = append(h.opAddrs, a)
		h.accOf[a] = o.Acc
		h.power[a] = cfg.Powers[i]
		h.bls[a] = detBLS(seed, i)
	}
	st := NewActor(seed, "stranger", 0)
	h.stranger = st.Acc.String()
	h.accOf[h.stranger] = st.Acc
	h.bls[h.stranger] = detBLS(seed, 99)
	h.everyone = append(append([]string{}, h.opAddrs...), h.stranger)
	h.avsPool, h.taskPool, h.owners = nil, nil, nil
	for i := 0; i < 3; i++ {
		h.avsPool = append(h.avsPool, NewActor(seed, "avs", i).Eth.String())
		h.taskPool = append(h.taskPool, NewActor(seed, "taskc", i).Eth.String())
	}
	for i := 0; i < 2; i++ {
		h.owners = append(h.owners, NewActor(seed, "owner", i).Acc.String())
	}
	h.asset0 = h.c.AssetIDs[0]
	h.bogus = "0x0000000000000000000000000000000000000bad_0x65"
	h.taskCount = map[string]uint64{}
	h.acc1 = map[string][]byte{}
	h.acc2 = map[string][]byte{}
	h.chal = map[string]bool{}
	h.resps = map[string][]byte{}
	h.contents = map[string]avsContent{}
	h.verified = map[string]bool{}
	h.legacy = false
	h.directed = ""
	h.halted = false
	h.op("avs.reset", "ok")
	h.op(fmt.Sprintf("avs.env %s %s", wList(h.opAddrs), wList(h.c.AssetIDs)), "ok")
	h.op(h.epochsLine(), "ok")
}

func respJSON(id uint64, sum int64) []byte {
	b, _ := avstypes.MarshalTaskResponse(avstypes.TaskResponse{TaskID: id, NumberSum: big.NewInt(sum)})
	return b
}

func (h *avsH) signResp(op string, resp []byte) []byte {
	d := crypto.Keccak256Hash(resp)
	return h.bls[op].Sign(d[:]).Marshal()
}

// ---------- random generators (mostly valid, boundary biased, with a malformed stream)

func (h *avsH) pick(l []string) string { return l[h.rng.Intn(len(l))] }

func (h *avsH) genUpdate() {
	r := h.rng
	u := avsUpd{addr: h.pick(h.avsPool)}
	u.action = uint64([]int{1, 1, 1, 1, 3, 3, 3, 2, 2, 0, 7}[r.Intn(11)])
	u.name = []string{"n0", "n1", "n0", ""}[r.Intn(4)]
	u.taskAddr = h.pick(h.taskPool)
	if r.Chance(1, 8) {
		u.taskAddr = ""
	}
	switch r.Intn(6) {
	case 0:
		u.owners = nil
	case 1:
		u.owners = []string{h.owners[1]}
	case 2:
		u.owners = []string{h.owners[0], h.owners[1]}
	default:
		u.owners = []string{h.owners[0]}
	}
	switch r.Intn(8) {
	case 0:
		u.assets = nil
	case 1:
		u.assets = []string{h.asset0, h.bogus}
	case 2:
		u.assets = []string{}
	case 3, 4:
		u.assets = nil
		for _, a := range h.c.AssetIDs {
			if r.Chance(1, 2) {
				u.assets = append(u.assets, a)
			}
		}
		if len(u.assets) == 0 {
			u.assets = []string{h.c.AssetIDs[2]}
		}
	default:
		u.assets = []string{h.asset0}
	}
	u.unbonding = []uint64{0, 1, 2, 7, 7, 7}[r.Intn(6)]
	u.minSelf = []uint64{0, 0, 1, 2, 3, 7, 50, 100, 101, 1000, 1<<63 - 1, 1 << 63, 1<<64 - 1}[r.Intn(13)]
	u.epochID = []string{epochstypes.MinuteEpochID, epochstypes.MinuteEpochID, epochstypes.MinuteEpochID, epochstypes.MinuteEpochID, epochstypes.HourEpochID, "", "nope"}[r.Intn(7)]
	u.caller = []string{h.owners[0], h.owners[0], h.owners[0], h.owners[1], h.stranger}[r.Intn(5)]
	if u.action == 2 && r.Chance(3, 4) { // mostly the right name
		if info, e := h.c.App.AVSManagerKeeper.GetAVSInfo(h.c.Ctx, u.addr); e == nil {
			u.name = info.Info.Name
		}
	}
	if u.action == 3 && r.Chance(1, 2) { // an update that mostly keeps things
		u.epochID = ""
		u.owners = nil
	}
	h.doUpdate(u)
}

func (h *avsH) genOpt() {
	r := h.rng
	direct := r.Chance(1, 2)
	action := uint64([]int{1, 1, 1, 1, 2, 2, 9}[r.Intn(7)])
	if direct && action == 9 {
		action = 2
	}
	op := h.pick(h.opAddrs)
	if r.Chance(1, 10) {
		op = h.stranger
	}
	h.doOpt(direct, action, op, h.pick(h.avsPool))
}

func (h *avsH) genTask() {
	r := h.rng
	t := avsTaskP{taskAddr: h.pick(h.taskPool), caller: h.owners[0], name: "t", hash: []byte("req-" + strconv.Itoa(r.Intn(3)))}
	if r.Chance(1, 8) {
		t.caller = h.pick([]string{h.owners[1], h.stranger})
	}
	if r.Chance(1, 20) {
		t.taskAddr = ""
	}
	t.resp, t.stat, t.chal = uint64(r.Intn(4)), uint64(r.Intn(4)), uint64(r.Intn(4))
	if r.Chance(1, 6) {
		t.givenID = uint64(r.Intn(3))
	}
	h.doTask(t)
}

type taskRef struct {
	addr string
	info avstypes.TaskInfo
}

func (h *avsH) allTasks() []taskRef {
	var l []taskRef
	h.c.App.AVSManagerKeeper.IterateTaskAVSInfo(h.c.Ctx, func(_ int64, t avstypes.TaskInfo) bool {
		l = append(l, taskRef{t.TaskContractAddress, t})
		return false
	})
	return l
}

func (h *avsH) genSubmit() {
	r := h.rng
	tasks := h.allTasks()
	if len(tasks) == 0 {
		if r.Chance(1, 3) { // a submission for a task that does not exist
			op := h.pick(h.opAddrs)
			resp := respJSON(1, 100)
			h.doSubmit(avsSub{from: op, op: op, taskAddr: h.pick(h.taskPool), id: 1, stage: "1", sig: h.signResp(op, resp)})
		}
		return
	}
	t := tasks[r.Intn(len(tasks))]
	// recent tasks are more interesting (their windows are still open)
	if r.Chance(2, 3) {
		t = tasks[len(tasks)-1-r.Intn(min(len(tasks), 3))]
	}
	// mostly operators listed in the task's OptInOperators, sometimes any other operator (a signer
	// outside that list was also recorded as a non-signer before the repair of F-20c)
	cands := t.info.OptInOperators
	if h.rng.Chance(1, 5) {
		cands = h.opAddrs
	}
	var op string
	if len(cands) > 0 {
		op = cands[r.Intn(len(cands))]
	} else {
		op = h.stranger
	}
	if r.Chance(1, 12) {
		op = h.stranger
	}
	id := t.info.TaskId
	k := rkey(op, t.addr, id)
	// the bytes the operator signs (drawn once per operator and task: content and encoding, dom_avs_encodings.go)
	resp, ok := h.resps[k]
	if !ok {
		h.contents[k], resp = h.genResponse(id)
		h.resps[k] = resp
	}
	sig := h.signResp(op, resp)
	a := h.c.App.AVSManagerKeeper.GetAVSInfoByTaskAddress(h.c.Ctx, t.addr)
	cur, _ := h.curEpoch(a.EpochIdentifier)
	end1 := int64(t.info.StartingEpoch) + int64(t.info.TaskResponsePeriod)
	_, did1 := h.acc1[k]
	stage := "1"
	if did1 && (cur > end1 || r.Chance(1, 3)) || !did1 && cur > end1 && r.Chance(1, 2) {
		stage = "2"
	}
	s := avsSub{from: op, op: op, taskAddr: t.addr, id: id, stage: stage, sig: sig}
	if stage == "2" {
		// mostly the signed bytes, otherwise another encoding of the same content (must be refused: the
		// signature does not verify over what is submitted)
		s.resp = h.reveal(h.contents[k], resp)
		s.hash = crypto.Keccak256Hash(s.resp).String()
	}
	switch r.Intn(28) { // malformed stream
	case 0:
		s.from = h.pick(h.everyone)
	case 1:
		s.id = id + uint64(1+r.Intn(2))
	case 2:
		s.id = 0
	case 3:
		s.stage = []string{"3", "", "0"}[r.Intn(3)]
	case 4:
		s.sig = nil
	case 5:
		if stage == "2" || r.Chance(1, 2) {
			s.sig = []byte{} // empty-but-present: accepted in phase one before the repair of F-11b
		} else {
			s.sig = []byte{0xab, 0xcd}
		}
	case 6:
		s.sig = h.signResp(op, []byte("another message"))
	case 7:
		if stage == "1" {
			s.resp = resp
		} else {
			s.resp = nil
		}
	case 8:
		if stage == "1" {
			s.hash = "0xabc"
		} else {
			s.resp = []byte{}
		}
	case 9:
		s.resp = respJSON(id+7, 1)
		if stage == "1" {
			s.resp = nil
			s.taskAddr = h.pick(h.taskPool)
		}
	case 10:
		if stage == "2" {
			s.resp = respJSON(id, 999) // a different answer than the one committed to
		}
	}
	// one submission in six names the task contract in another spelling of the same address
	// (dom_avs_spelling.go); these go through the message server, the surface that carries raw strings
	if r.Chance(1, 6) {
		s.taskAddr = h.respell(s.taskAddr)
		s.viaMsg = true
	}
	h.doSubmit(s)
}

func (h *avsH) genChallenge() {
	r := h.rng
	tasks := h.allTasks()
	if len(tasks) == 0 {
		return
	}
	t := tasks[r.Intn(len(tasks))]
	// prefer (operator, task) pairs that completed phase two
	var done []string
	for _, o := range h.everyone {
		if _, ok := h.acc2[rkey(o, t.addr, t.info.TaskId)]; ok {
			done = append(done, o)
		}
	}
	op := h.pick(h.opAddrs)
	if len(done) > 0 && r.Chance(5, 6) {
		op = done[r.Intn(len(done))]
	}
	k := rkey(op, t.addr, t.info.TaskId)
	ch := avsChal{taskAddr: t.addr, id: t.info.TaskId, op: op, taskHash: t.info.Hash, caller: h.owners[0]}
	// (a wrong task hash made the keeper return success without recording anything before the
	// repair of F-20b: it is part of the malformed stream below)
	if resp, ok := h.acc2[k]; ok {
		ch.respHash = abiDigest(resp)
	} else {
		ch.respHash = []byte{1}
	}
	switch r.Intn(12) {
	case 0:
		ch.respHash = crypto.Keccak256([]byte("wrong"))
	case 1:
		ch.id = t.info.TaskId + 1
	case 2:
		ch.caller = "notbech32"
	case 3:
		ch.taskAddr = h.pick(h.taskPool)
	case 4:
		ch.taskHash = []byte("WRONG")
	}
	// whatever task is finally named, mostly its own hash is sent
	if tt, e := h.c.App.AVSManagerKeeper.GetTaskInfo(h.c.Ctx, strconv.FormatUint(ch.id, 10), ch.taskAddr); e == nil && r.Chance(3, 4) && string(ch.taskHash) != "WRONG" {
		ch.taskHash = tt.Hash
	}
	h.doChallenge(ch)
}

func (h *avsH) genBlock() {
	d := 61 * time.Second
	switch h.rng.Intn(10) {
	case 0:
		d = time.Second
	case 1:
		d = 3601 * time.Second
	}
	h.doBlock(d)
	h.dumpOp()
}

// prologue that makes most histories reach the interesting states quickly
func (h *avsH) prologue() {
	r := h.rng
	n := 1 + r.Intn(2)
	for i := 0; i < n; i++ {
		h.doUpdate(avsUpd{action: 1, addr: h.avsPool[i], name: "n0", taskAddr: h.taskPool[i], owners: []string{h.owners[0]},
			assets: []string{h.asset0}, unbonding: 7, minSelf: []uint64{0, 7, 50, 100}[r.Intn(4)], epochID: epochstypes.MinuteEpochID, caller: h.owners[0]})
		for _, o := range h.opAddrs {
			if r.Chance(4, 5) {
				h.doOpt(r.Bool(), 1, o, h.avsPool[i])
			}
		}
	}
	for _, o := range h.opAddrs {
		if r.Chance(5, 6) {
			h.doBLS(o, 0)
		}
	}
	h.doBlock(61 * time.Second)
	h.dumpOp()
}

func (h *avsH) randomHistory(steps int) {
	h.prologue()
	for i := 0; i < steps && !h.halted; i++ {
		switch h.rng.Pick(3, 3, 3, 2, 10, 3, 5, 2, 2) {
		case 7:
			h.genLedger()
		case 8:
			h.genTuneOpt()
		case 0:
			h.genUpdate()
		case 1:
			h.genOpt()
		case 2:
			h.genTask()
		case 3:
			op := h.pick(h.everyone)
			v := 0
			if h.rng.Chance(1, 4) {
				v = 1 + h.rng.Intn(3)
			}
			h.doBLS(op, v)
		case 4:
			h.genSubmit()
		case 5:
			h.genChallenge()
		case 6:
			h.genBlock()
		}
	}
	h.dumpOp()
}

// sweepHistory: one AVS, one task with the given period lengths, then at EVERY epoch from the
// creation epoch to one past the challenge period every operator tries phase one, phase two and a
// challenge: all offsets -1..+1 around every window boundary, for period lengths 0..3.
func (h *avsH) sweepHistory(resp, stat, chal uint64) {
	r := h.rng
	avs, ta := h.avsPool[0], h.taskPool[0]
	h.doUpdate(avsUpd{action: 1, addr: avs, name: "n0", taskAddr: ta, owners: []string{h.owners[0]}, assets: []string{h.asset0},
		unbonding: 7, minSelf: 0, epochID: epochstypes.MinuteEpochID, caller: h.owners[0]})
	for _, o := range h.opAddrs {
		h.doOpt(false, 1, o, avs)
		h.doBLS(o, 0)
	}
	h.doBlock(61 * time.Second)
	h.doTask(avsTaskP{taskAddr: ta, caller: h.owners[0], name: "t", hash: []byte("req"), resp: resp, stat: stat, chal: chal})
	id := h.taskCount[ta]
	total := int(resp+stat+chal) + 3
	for e := 0; e < total && !h.halted; e++ {
		for oi, o := range h.opAddrs {
			k := rkey(o, ta, id)
			// every operator answers in its own encoding of its own content (dom_avs_encodings.go)
			enc := (oi + int(resp) + 2*int(stat) + 3*int(chal) + int(h.env.Report.Seed)) % len(avsEncodings)
			respB := encResp(id, strconv.Itoa(100+oi), enc)
			sig := h.signResp(o, respB)
			// operator oi commits in epoch offset (oi mod (resp+2)) so that some are early, some on the
			// last admissible epoch and some too late
			// the same operator and task under another spelling of the contract address (dom_avs_spelling.go):
			// before its own commitment (pre-empting it) and after it (a repeat): at every epoch offset
			if _, did := h.acc1[k]; r.Chance(1, 3) && (did || e >= oi%int(resp+2)) {
				h.doSubmit(avsSub{viaMsg: true, from: o, op: o, taskAddr: h.respell(ta), id: id, stage: "1", sig: sig})
			}
			if _, did := h.acc1[k]; !did && e >= oi%int(resp+2) {
				h.doSubmit(avsSub{from: o, op: o, taskAddr: ta, id: id, stage: "1", sig: sig})
			} else if r.Chance(1, 3) {
				h.doSubmit(avsSub{from: o, op: o, taskAddr: ta, id: id, stage: "1", sig: sig}) // repeat: must be refused
			}
			if _, did := h.acc1[k]; did {
				if _, did2 := h.acc2[k]; !did2 || r.Chance(1, 3) {
					if r.Chance(1, 3) { // the same content in other bytes: must be refused at every epoch offset
						alt := encResp(id, strconv.Itoa(100+oi), enc+1+r.Intn(len(avsEncodings)-1))
						h.doSubmit(avsSub{from: o, op: o, taskAddr: ta, id: id, stage: "2", sig: sig, resp: alt, hash: crypto.Keccak256Hash(alt).String()})
					}
					if r.Chance(1, 4) { // the reveal under another spelling of the contract address
						h.doSubmit(avsSub{viaMsg: true, from: o, op: o, taskAddr: h.respell(ta), id: id, stage: "2", sig: sig, resp: respB, hash: crypto.Keccak256Hash(respB).String()})
					}
					h.doSubmit(avsSub{from: o, op: o, taskAddr: ta, id: id, stage: "2", sig: sig, resp: respB, hash: crypto.Keccak256Hash(respB).String()})
				}
			}
			if _, did2 := h.acc2[k]; did2 {
				h.doChallenge(avsChal{taskAddr: ta, id: id, op: o, taskHash: []byte("req"), respHash: abiDigest(respB), caller: h.owners[0]})
			}
		}
		h.doBlock(61 * time.Second)
		h.dumpOp()
	}
	h.dumpOp()
}

// ---------- directed scenarios replaying the recorded findings on the real code

// F-11b: a phase-one result whose signature is empty-but-present is accepted, reads back with a
// nil signature, and the AVS epoch hook dereferences a nil task at the end of the statistical period.
func (h *avsH) directedEmptySig() {
	h.directed = "F-11b"
	avs, ta, o := h.avsPool[0], h.taskPool[0], h.opAddrs[0]
	h.doUpdate(avsUpd{action: 1, addr: avs, name: "n0", taskAddr: ta, owners: []string{h.owners[0]}, assets: []string{h.asset0},
		unbonding: 7, minSelf: 0, epochID: epochstypes.MinuteEpochID, caller: h.owners[0]})
	h.doOpt(false, 1, o, avs)
	h.doBLS(o, 0)
	h.doBlock(61 * time.Second)
	h.doTask(avsTaskP{taskAddr: ta, caller: h.owners[0], name: "t", hash: []byte("req"), resp: 1, stat: 1, chal: 1})
	code := h.doSubmit(avsSub{from: o, op: o, taskAddr: ta, id: 1, stage: "1", sig: []byte{}})
	h.env.Note("F-11b.phase1." + code)
	for i := 0; i < 6 && !h.halted; i++ {
		h.doBlock(61 * time.Second)
	}
	if h.halted {
		h.env.Note("F-11b.reproduced")
	}
	h.directed = ""
}

// F-11b, second half: a store that already holds a phase-one result without signature (written by
// the pre-fix code; here: written straight into the x/avs store) must not halt the chain either.
func (h *avsH) directedLegacyNilSig() {
	h.directed = "F-11b"
	avs, ta, o := h.avsPool[0], h.taskPool[0], h.opAddrs[0]
	h.doUpdate(avsUpd{action: 1, addr: avs, name: "n0", taskAddr: ta, owners: []string{h.owners[0]}, assets: []string{h.asset0},
		unbonding: 7, minSelf: 0, epochID: epochstypes.MinuteEpochID, caller: h.owners[0]})
	h.doOpt(false, 1, o, avs)
	h.doBLS(o, 0)
	h.doBlock(61 * time.Second)
	h.doTask(avsTaskP{taskAddr: ta, caller: h.owners[0], name: "t", hash: []byte("req"), resp: 1, stat: 1, chal: 1})
	info := &avstypes.TaskResultInfo{OperatorAddress: o, TaskContractAddress: ta, TaskId: 1, Stage: avstypes.TwoPhaseCommitOne}
	st := prefix.NewStore(h.c.Ctx.KVStore(h.c.App.GetKey(avstypes.StoreKey)), avstypes.KeyPrefixTaskResult)
	st.Set([]byte(o+"/"+ta+"/1"), h.c.App.AppCodec().MustMarshal(info))
	h.env.Note("F-11b.legacy-result-injected")
	h.legacy = true
	// the injected result is not part of the model's state: blocks only, no dump
	for i := 0; i < 6 && !h.halted; i++ {
		h.doBlock(61 * time.Second)
	}
	if !h.halted {
		h.env.Note("F-11b.legacy-result-survived")
	}
	h.directed = ""
}

// F-20b: a challenge with a wrong task hash returns success (errorsmod.Wrap(nil, …) == nil) at any
// time, any number of times, and records nothing.
func (h *avsH) directedChallengeHash() {
	h.directed = "F-20b"
	avs, ta, o := h.avsPool[0], h.taskPool[0], h.opAddrs[0]
	h.doUpdate(avsUpd{action: 1, addr: avs, name: "n0", taskAddr: ta, owners: []string{h.owners[0]}, assets: []string{h.asset0},
		unbonding: 7, minSelf: 0, epochID: epochstypes.MinuteEpochID, caller: h.owners[0]})
	h.doOpt(false, 1, o, avs)
	h.doBLS(o, 0)
	h.doBlock(61 * time.Second)
	h.doTask(avsTaskP{taskAddr: ta, caller: h.owners[0], name: "t", hash: []byte("req"), resp: 1, stat: 1, chal: 1})
	for i := 0; i < 2; i++ {
		code := h.doChallenge(avsChal{taskAddr: ta, id: 1, op: o, taskHash: []byte("WRONG"), respHash: []byte{1}, caller: h.owners[0]})
		h.env.Note("F-20b.challenge." + code)
	}
	h.dumpOp()
	h.directed = ""
}

// F-20c: an operator that is not in the task's opted-in list submits a result: it is recorded as a
// signer AND as a non-signer (types.Difference is symmetric).
func (h *avsH) directedOutsider() {
	h.directed = "F-20c"
	avs, ta := h.avsPool[0], h.taskPool[0]
	in, out := h.opAddrs[0], h.opAddrs[1]
	h.doUpdate(avsUpd{action: 1, addr: avs, name: "n0", taskAddr: ta, owners: []string{h.owners[0]}, assets: []string{h.asset0},
		unbonding: 7, minSelf: 0, epochID: epochstypes.MinuteEpochID, caller: h.owners[0]})
	h.doOpt(false, 1, in, avs)
	h.doBLS(in, 0)
	h.doBLS(out, 0)
	h.doBlock(61 * time.Second)
	h.doTask(avsTaskP{taskAddr: ta, caller: h.owners[0], name: "t", hash: []byte("req"), resp: 1, stat: 1, chal: 1})
	for _, o := range []string{in, out} {
		h.doSubmit(avsSub{from: o, op: o, taskAddr: ta, id: 1, stage: "1", sig: h.signResp(o, respJSON(1, 100))})
	}
	for i := 0; i < 5 && !h.halted; i++ {
		h.doBlock(61 * time.Second)
	}
	h.dumpOp()
	h.directed = ""
}

// F-20a: MinSelfDelegation >= 2^63 is converted with int64(): the minimum becomes negative and
// every operator may opt in.
func (h *avsH) directedMinWrap() {
	h.directed = "F-20a"
	avs, o := h.avsPool[0], h.opAddrs[0]
	h.doUpdate(avsUpd{action: 1, addr: avs, name: "n0", taskAddr: h.taskPool[0], owners: []string{h.owners[0]}, assets: []string{h.asset0},
		unbonding: 7, minSelf: 1 << 63, epochID: epochstypes.MinuteEpochID, caller: h.owners[0]})
	code := h.doOpt(true, 1, o, avs)
	h.env.Note("F-20a.optin." + code)
	h.dumpOp()
	h.directed = ""
}

func domAvs(env *Env) error {
	n := env.Int("histories", 12)
	steps := env.Int("steps", 120)
	directed := env.Int("directed", 1)
	rng := NewRNG(env.Report.Seed)
	env.Report.Domain = "avs"
	h := &avsH{}
	if err := avsEncodingsSelfTest(); err != nil {
		return fmt.Errorf("avs: response encodings: %v", err)
	}
	finish := func(kind string, hi int) {
		env.Report.Histories++
		acc := len(h.acc1) + len(h.acc2) + len(h.chal)
		if acc > 0 {
			env.DistinctKey(fmt.Sprintf("%s-%d-%d-%d-%d", kind, hi, len(h.acc1), len(h.acc2), len(h.chal)))
		}
		env.Outcome(fmt.Sprintf("%s.accepted>0=%v", kind, acc > 0))
		if len(env.Report.Samples) < 3 {
			env.Sample(strings.Join(h.hist[:min(len(h.hist), 12)], " ; "))
		}
	}
	if directed == 1 {
		for i, f := range []func(){h.directedEmptySig, h.directedLegacyNilSig, h.directedChallengeHash, h.directedOutsider, h.directedMinWrap, h.directedFractionBelowMin, h.directedEncodings, h.directedSpellings} {
			h.start(env, env.Report.Seed*1000+900+uint64(i), 2, rng)
			f()
			finish("directed", i)
		}
	}
	for hi := 0; hi < n; hi++ {
		nOps := 1 + rng.Intn(5)
		h.start(env, env.Report.Seed*1000+uint64(hi), nOps, rng)
		if hi%3 == 2 {
			h.sweepHistory(uint64(rng.Intn(4)), uint64(rng.Intn(4)), uint64(rng.Intn(4)))
			finish("sweep", hi)
		} else if hi%6 == 1 {
			h.optinSweepHistory(hi)
			finish("optin-sweep", hi)
		} else {
			h.randomHistory(steps)
			finish("random", hi)
		}
	}
	return nil
}
